(* Proofs about XBWDefs.v: the verified checker is sound for the invariant [xinv]; under it the model of
   subPathSearch / locate / extract / getChildren / getParent answers the specification. *)
From LibCSD Require Import Base Bytes BitRGDefs BitRGProofs Spec SpecProofs XBWDefs.
Require Import Lia ZifyBool ZifyNat ZifyN Sorted Permutation.
Ltac Zify.zify_post_hook ::= Z.to_euclidean_division_equations.
Local Open Scope N_scope.

(* ================================================================== *)
(* 0. generic list facts                                               *)
(* ================================================================== *)
Lemma filter_none {T} (f : T -> bool) l : (forall x, In x l -> f x = false) -> filter f l = [].
Proof.
  induction l as [|a l IH]; intros H; cbn [filter]; [reflexivity|].
  rewrite (H a) by (left; reflexivity). apply IH. intros x Hx. apply H. right; exact Hx.
Qed.

Lemma filter_all {T} (f : T -> bool) l : (forall x, In x l -> f x = true) -> filter f l = l.
Proof.
  induction l as [|a l IH]; intros H; cbn [filter]; [reflexivity|].
  rewrite (H a) by (left; reflexivity). f_equal. apply IH. intros x Hx. apply H. right; exact Hx.
Qed.

Lemma filter_comm {T} (f g : T -> bool) l : filter f (filter g l) = filter g (filter f l).
Proof.
  induction l as [|a l IH]; cbn [filter]; [reflexivity|].
  destruct (g a) eqn:G, (f a) eqn:F; cbn [filter]; rewrite ?G, ?F, IH; reflexivity.
Qed.

Lemma filter_map_comm {T U} (g : T -> U) (f : U -> bool) l : filter f (map g l) = map g (filter (fun x => f (g x)) l).
Proof.
  induction l as [|a l IH]; cbn [filter map]; [reflexivity|].
  destruct (f (g a)); cbn [map]; rewrite IH; reflexivity.
Qed.

Lemma lenN_map {T U} (g : T -> U) l : lenN (map g l) = lenN l.
Proof. unfold lenN. now rewrite map_length. Qed.

(* exclusive disjunction splits a filter count *)
Lemma filter_or_len {T} (f g : T -> bool) l :
  (forall x, In x l -> f x = true -> g x = false) ->
  lenN (filter (fun x => f x || g x) l) = lenN (filter f l) + lenN (filter g l).
Proof.
  induction l as [|a l IH]; intros H; cbn [filter]; [reflexivity|].
  assert (IH' := IH (fun x Hx => H x (or_intror Hx))).
  destruct (f a) eqn:F.
  - rewrite (H a (or_introl eq_refl) F). cbn [orb]. rewrite !lenN_cons, IH'. lia.
  - cbn [orb]. destruct (g a); rewrite ?lenN_cons, IH'; lia.
Qed.

Lemma nth_filter_split {T} (f : T -> bool) l j b :
  nth_error (filter f l) j = Some b ->
  exists l1 l2, l = l1 ++ b :: l2 /\ length (filter f l1) = j /\ f b = true.
Proof.
  revert j. induction l as [|a l IH]; intros j H; cbn [filter] in H.
  - destruct j; discriminate.
  - destruct (f a) eqn:F.
    + destruct j as [|j]; cbn [nth_error] in H.
      * injection H as <-. exists [], l. repeat split; auto.
      * destruct (IH _ H) as (l1 & l2 & E & L & Fb). exists (a :: l1), l2. subst l.
        repeat split; auto. cbn [filter]. rewrite F. cbn [length]. lia.
    + destruct (IH _ H) as (l1 & l2 & E & L & Fb). exists (a :: l1), l2. subst l.
      repeat split; auto. cbn [filter]. rewrite F. exact L.
Qed.

Lemma list_eqb_N a : forall b, list_eqb N.eqb a b = true -> a = b.
Proof.
  induction a as [|x a IH]; intros [|y b] H; cbn [list_eqb] in H; try discriminate; [reflexivity|].
  apply andb_prop in H as [H1 H2]. apply N.eqb_eq in H1. subst. f_equal. auto.
Qed.

Lemma list_eqb_bool a : forall b, list_eqb beqb a b = true -> a = b.
Proof.
  induction a as [|x a IH]; intros [|y b] H; cbn [list_eqb] in H; try discriminate; [reflexivity|].
  apply andb_prop in H as [H1 H2]. apply eqb_prop in H1. subst. f_equal. auto.
Qed.

Lemma keyeqb_eq a b : keyeqb a b = true <-> a = b.
Proof. apply str_eqb_eq. Qed.

Lemma existsb_In c l : existsb (N.eqb c) l = true <-> In c l.
Proof.
  rewrite existsb_exists. split.
  - intros (x & Hx & E). apply N.eqb_eq in E. subst. exact Hx.
  - intros H. exists c. split; [exact H|apply N.eqb_refl].
Qed.

(* ---- strict lexicographic sortedness --------------------------------------------------- *)
Notation SS := (StronglySorted lex_lt).

Lemma sorted_lt_SS l : sorted_lt l -> SS l.
Proof.
  induction l as [|a l IH]; intros H; constructor.
  - apply IH. eapply sorted_tail; eauto.
  - apply sorted_head_lt. exact H.
Qed.

Lemma SS_filter f l : SS l -> SS (filter f l).
Proof.
  induction 1 as [|a l H IH Hf]; cbn [filter]; [constructor|].
  destruct (f a); [|exact IH]. constructor; [exact IH|].
  rewrite Forall_forall in *. intros x Hx. apply filter_In in Hx. apply Hf. tauto.
Qed.

Lemma lex_cons c a b : lex_compare (c :: a) (c :: b) = lex_compare a b.
Proof. cbn [lex_compare]. now rewrite N.compare_refl. Qed.

Lemma SS_map_cons c l : SS l -> SS (map (cons c) l).
Proof.
  induction 1 as [|a l H IH Hf]; cbn [map]; constructor; [exact IH|].
  rewrite Forall_forall in *. intros x Hx. apply in_map_iff in Hx as (y & <- & Hy).
  unfold lex_lt. rewrite lex_cons. apply Hf. exact Hy.
Qed.

Lemma SS_ext_eq l1 : forall l2, SS l1 -> SS l2 -> (forall x, In x l1 <-> In x l2) -> l1 = l2.
Proof.
  induction l1 as [|a l1 IH]; intros l2 H1 H2 E.
  - destruct l2 as [|b l2]; [reflexivity|]. exfalso. apply (E b). left; reflexivity.
  - destruct l2 as [|b l2]; [exfalso; apply (E a); left; reflexivity|].
    apply StronglySorted_inv in H1 as [H1 F1]. apply StronglySorted_inv in H2 as [H2 F2].
    rewrite Forall_forall in F1, F2.
    assert (a = b) as ->.
    { destruct (proj1 (E a) (or_introl eq_refl)) as [->|Ha]; [reflexivity|].
      destruct (proj2 (E b) (or_introl eq_refl)) as [->|Hb]; [reflexivity|].
      exfalso. apply (lex_lt_asym a b); auto. }
    f_equal. apply IH; auto. intros x. split; intros Hx.
    + destruct (proj1 (E x) (or_intror Hx)) as [<-|]; [|assumption].
      exfalso. apply (lex_lt_irrefl b). auto.
    + destruct (proj2 (E x) (or_intror Hx)) as [<-|]; [|assumption].
      exfalso. apply (lex_lt_irrefl b). auto.
Qed.

Lemma SS_NoDup l : SS l -> NoDup l.
Proof.
  induction 1 as [|a l H IH Hf]; constructor; [|exact IH].
  intros Hin. rewrite Forall_forall in Hf. apply (lex_lt_irrefl a). auto.
Qed.

(* a downward closed predicate cuts a sorted block list in two *)
Definition dclosed (P : list N -> bool) : Prop := forall k k', lex_lt k' k -> P k = true -> P k' = true.

Lemma bsel_split P (B : list blk) : SS (map fst B) -> dclosed P ->
  B = bsel P B ++ bsel (fun k => negb (P k)) B.
Proof.
  intros H D. induction B as [|b B IH]; [reflexivity|].
  cbn [map] in H. apply StronglySorted_inv in H as [H F]. unfold bsel in *. cbn [filter].
  destruct (P (fst b)) eqn:E; cbn [negb app].
  - f_equal. apply IH. exact H.
  - rewrite (filter_none (fun b0 => P (fst b0)) B).
    + cbn [app]. f_equal. symmetry. apply filter_all. intros x Hx.
      destruct (P (fst x)) eqn:E2; [|reflexivity].
      rewrite Forall_forall in F. rewrite (D (fst x) (fst b)) in E; [discriminate| |exact E2].
      apply F. apply in_map. exact Hx.
    + intros x Hx. destruct (P (fst x)) eqn:E2; [|reflexivity].
      rewrite Forall_forall in F. rewrite (D (fst x) (fst b)) in E; [discriminate| |exact E2].
      apply F. apply in_map. exact Hx.
Qed.

Lemma lex_ltb_lt a b : lex_ltb a b = true <-> lex_lt a b.
Proof. unfold lex_ltb, lex_lt. destruct (lex_compare a b); split; congruence. Qed.

Lemma klt_dclosed w : dclosed (klt w).
Proof.
  intros k k' H1 H2. unfold klt in *. apply lex_ltb_lt in H2. apply lex_ltb_lt.
  eapply lex_lt_trans; eauto.
Qed.

(* k' < k, w prefix of k  ->  k' < w or w prefix of k' *)
Lemma lt_prefix_cases w : forall k k', lex_lt k' k -> is_prefix w k = true ->
  lex_lt k' w \/ is_prefix w k' = true.
Proof.
  induction w as [|x w IH]; intros k k' H1 H2; [right; reflexivity|].
  destruct k as [|y k]; [discriminate|]. cbn [is_prefix] in H2. apply andb_prop in H2 as [E H2].
  apply N.eqb_eq in E. subst y.
  destruct k' as [|z k']; [left; reflexivity|].
  unfold lex_lt in *. cbn [lex_compare] in *. cbn [is_prefix].
  destruct (N.compare_spec z x) as [->|Hlt|Hgt]; try discriminate.
  - rewrite N.eqb_refl. cbn [andb]. eapply IH; eauto.
  - left; reflexivity.
Qed.

Lemma kle_dclosed w : dclosed (kle w).
Proof.
  intros k k' H1 H2. unfold kle in *. apply orb_prop in H2 as [H2|H2].
  - apply lex_ltb_lt in H2. apply orb_true_intro. left. apply lex_ltb_lt. eapply lex_lt_trans; eauto.
  - destruct (lt_prefix_cases w k k' H1 H2) as [H|H]; apply orb_true_intro; [left; now apply lex_ltb_lt|right; exact H].
Qed.

(* ================================================================== *)
(* 1. the invariant established by the checker                         *)
(* ================================================================== *)
Record binv (S : list str) (B : list blk) : Prop := {
  bi_head : exists l1 B2, B = ([0], [0; 0]) :: ([0; 0], l1) :: B2;
  bi_sorted : SS (map fst B);
  bi_blk : forall b, In b (tl B) ->
      key_ok (fst b) = true /\ snd b <> [] /\ asc_b (snd b) = true /\ (forall c, In c (snd b) -> 2 <= c <= 255);
  bi_down : forall b c, In b (tl B) -> In c (snd b) -> c <> 255 -> exists b', In b' B /\ fst b' = c :: fst b;
  bi_up : forall b, In b (tl (tl B)) ->
      exists c k b', fst b = c :: k /\ In b' (tl B) /\ fst b' = k /\ In c (snd b');
  bi_mem : forall s, In s S -> exists b, In b B /\ fst b = mkkey s /\ In 255 (snd b);
  bi_leaf : forall b, In b (tl B) -> In 255 (snd b) -> In (unkey (fst b)) S
}.

Record ainv (S : list str) (B : list blk) (d : xbw) : Prop := {
  ai_nodes : x_nodes d = lenN (labels_of B);
  ai_small : x_nodes d + 1 < W32;
  ai_alpha : x_alpha d = map (mapf d) (labels_of B);
  ai_last : x_last d = lasts_of B;
  ai_maplen : lenN (x_mapping d) = 257;
  ai_sym : forall c, c < 256 -> chk_sym B d c = true;
  ai_max : x_maxLabel d = mapf d 255;
  ai_rowsA : forall n k c, nthN (rows_of B) n = Some (k, c) ->
      exists c0 k', k = c0 :: k' /\ n < lenN (x_A d) /\ bv_rank1 (x_A d) n = mapf d c0;
  ai_elems : x_elements d = lenN S;
  ai_maxlen : x_maxlength d = spec_maxlen S + 1;
  ai_mapsmall : forall c, mapf d c < 257
}.

Definition xinv (S : list str) (B : list blk) (d : xbw) : Prop := binv S B /\ ainv S B d.

Lemma has_In c b : has c b = true <-> In c (snd b).
Proof. apply existsb_In. Qed.

Lemma check_blocks_sound S B : check_blocks S B = true -> binv S B.
Proof.
  unfold check_blocks. intros H.
  repeat (apply andb_prop in H as [H ?]).
  rename H into Hh, H0 into Hleaf, H1 into Hmem, H2 into Hup, H3 into Hdown, H4 into Hblk, H5 into Hs.
  constructor.
  - unfold chk_head in Hh. destruct B as [|[k0 l0] [|[k1 l1] B2]]; try discriminate.
    repeat (apply andb_prop in Hh as [Hh ?]).
    apply keyeqb_eq in Hh, H, H0. subst. eauto.
  - apply sorted_lt_SS, sorted_lt_b_sound. exact Hs.
  - intros b Hb. rewrite forallb_forall in Hblk. specialize (Hblk b Hb). unfold chk_blk in Hblk.
    repeat (apply andb_prop in Hblk as [Hblk ?]).
    repeat split; auto.
    + intros E. rewrite E in H1. discriminate.
    + rewrite forallb_forall in H. specialize (H c H2). lia.
    + rewrite forallb_forall in H. specialize (H c H2). lia.
  - intros b c Hb Hc Hn. unfold chk_down in Hdown. rewrite forallb_forall in Hdown.
    specialize (Hdown b Hb). rewrite forallb_forall in Hdown. specialize (Hdown c Hc).
    apply orb_prop in Hdown as [E|E]; [apply N.eqb_eq in E; contradiction|].
    unfold haskey in E. apply existsb_exists in E as (b' & Hb' & E). apply keyeqb_eq in E. eauto.
  - intros b Hb. unfold chk_up in Hup. rewrite forallb_forall in Hup. specialize (Hup b Hb).
    destruct (fst b) as [|c k] eqn:E; [discriminate|].
    apply existsb_exists in Hup as (b' & Hb' & E2). apply andb_prop in E2 as [E2 E3].
    apply keyeqb_eq in E2. apply has_In in E3. exists c, k, b'. auto.
  - intros s Hs'. unfold chk_members in Hmem. rewrite forallb_forall in Hmem. specialize (Hmem s Hs').
    apply existsb_exists in Hmem as (b & Hb & E). apply andb_prop in E as [E1 E2].
    apply keyeqb_eq in E1. apply has_In in E2. eauto.
  - intros b Hb H255. unfold chk_leaves in Hleaf. rewrite forallb_forall in Hleaf. specialize (Hleaf b Hb).
    apply has_In in H255. rewrite H255 in Hleaf. cbn [negb orb] in Hleaf.
    apply existsb_exists in Hleaf as (s & Hs' & E). apply str_eqb_eq in E. subst. exact Hs'.
Qed.

Lemma chk_rowsA_sound d rows : forall n0, chk_rowsA d rows n0 = true ->
  forall i k c, nthN rows i = Some (k, c) ->
  exists c0 k', k = c0 :: k' /\ n0 + i < lenN (x_A d) /\ bv_rank1 (x_A d) (n0 + i) = mapf d c0.
Proof.
  induction rows as [|[k0 c0'] rows IH]; intros n0 H i k c Hn.
  - unfold nthN in Hn. destruct (N.to_nat i); discriminate.
  - cbn [chk_rowsA] in H. apply andb_prop in H as [H1 H2].
    destruct (N.eq_dec i 0) as [->|Hi].
    + unfold nthN in Hn. cbn in Hn. injection Hn as -> ->.
      destruct k as [|c0 k']; [discriminate|]. apply andb_prop in H1 as [H1 H3].
      exists c0, k'. rewrite N.add_0_r. repeat split; [lia|apply N.eqb_eq; exact H3].
    + specialize (IH _ H2 (i - 1) k c).
      replace (n0 + 1 + (i - 1)) with (n0 + i) in IH by lia. apply IH.
      unfold nthN in *. replace (N.to_nat i) with (Datatypes.S (N.to_nat (i - 1))) in Hn by lia. exact Hn.
Qed.

Lemma check_arrays_sound S B d : check_arrays S B d = true -> ainv S B d.
Proof.
  unfold check_arrays. intros H.
  repeat (apply andb_prop in H as [H ?]).
  constructor.
  - apply N.eqb_eq. exact H.
  - lia.
  - apply list_eqb_N. assumption.
  - apply list_eqb_bool. assumption.
  - apply N.eqb_eq. assumption.
  - intros c Hc. rewrite forallb_forall in H5. apply H5. apply in_map_iff. exists (N.to_nat c).
    split; [lia|]. apply in_seq. lia.
  - apply N.eqb_eq. assumption.
  - intros n k c Hn. destruct (chk_rowsA_sound d _ 0 H3 n k c Hn) as (c0 & k' & E1 & E2 & E3).
    rewrite N.add_0_l in *. eauto.
  - apply N.eqb_eq. assumption.
  - apply N.eqb_eq. assumption.
  - intros c. unfold mapf. destruct (nthN (x_mapping d) c) as [v|] eqn:E; [|lia].
    rewrite forallb_forall in H0. unfold nthN in E. apply nth_error_In in E. specialize (H0 v E). lia.
Qed.

Theorem xbw_check_with_sound S B d : xbw_check_with S B d = true -> xinv S B d.
Proof.
  unfold xbw_check_with. intros H. apply andb_prop in H as [H1 H2].
  split; [apply check_blocks_sound|apply check_arrays_sound]; assumption.
Qed.

Theorem xbw_check_sound S d : xbw_check S d = true -> xinv S (trie_blocks S) d.
Proof. apply xbw_check_with_sound. Qed.

(* ================================================================== *)
(* 2. the flattened arrays of a block list                              *)
(* ================================================================== *)
Definition neb (B : list blk) : Prop := forall b, In b B -> snd b <> [].

Lemma labels_app B1 B2 : labels_of (B1 ++ B2) = labels_of B1 ++ labels_of B2.
Proof. unfold labels_of. apply flat_map_app. Qed.
Lemma lasts_app B1 B2 : lasts_of (B1 ++ B2) = lasts_of B1 ++ lasts_of B2.
Proof. unfold lasts_of. apply flat_map_app. Qed.
Lemma rows_app B1 B2 : rows_of (B1 ++ B2) = rows_of B1 ++ rows_of B2.
Proof. unfold rows_of. apply flat_map_app. Qed.

Lemma flags_len b : lenN (flags_of b) = lenN (snd b).
Proof.
  unfold flags_of. destruct (snd b) as [|x t]; [reflexivity|].
  rewrite lenN_app, lenN_map, lenN_cons. unfold lenN. cbn. lia.
Qed.

Lemma lasts_len B : lenN (lasts_of B) = lenN (labels_of B).
Proof.
  induction B as [|b B IH]; [reflexivity|].
  change (lasts_of (b :: B)) with (flags_of b ++ lasts_of B).
  change (labels_of (b :: B)) with (snd b ++ labels_of B).
  rewrite !lenN_app, flags_len, IH. reflexivity.
Qed.

Lemma rows_len B : lenN (rows_of B) = lenN (labels_of B).
Proof.
  induction B as [|b B IH]; [reflexivity|].
  change (rows_of (b :: B)) with (blk_rows b ++ rows_of B).
  change (labels_of (b :: B)) with (snd b ++ labels_of B).
  rewrite !lenN_app, IH. unfold blk_rows. now rewrite lenN_map.
Qed.

Lemma count_falses {T} (t : list T) : countb true (map (fun _ => false) t) = 0.
Proof. induction t as [|x t IH]; cbn [map countb]; [reflexivity|]. rewrite IH. reflexivity. Qed.

Lemma flags_count b : snd b <> [] -> countb true (flags_of b) = 1.
Proof.
  unfold flags_of. destruct (snd b) as [|x t]; [congruence|]. intros _.
  rewrite countb_app, count_falses. reflexivity.
Qed.

Lemma lasts_count B : neb B -> countb true (lasts_of B) = lenN B.
Proof.
  induction B as [|b B IH]; intros H; [reflexivity|].
  change (lasts_of (b :: B)) with (flags_of b ++ lasts_of B).
  rewrite countb_app, flags_count, IH, lenN_cons; [reflexivity| |].
  - intros x Hx. apply H. right; exact Hx.
  - apply H. left; reflexivity.
Qed.

Lemma neb_app B1 B2 : neb (B1 ++ B2) -> neb B1 /\ neb B2.
Proof. intros H. split; intros b Hb; apply H; apply in_or_app; auto. Qed.

(* inside a block only the last flag is set *)
Lemma flags_prefix b t : t < lenN (snd b) -> prefix_count true (flags_of b) t = 0.
Proof.
  unfold flags_of. destruct (snd b) as [|x l]; [unfold lenN; cbn; lia|]. intros H.
  rewrite lenN_cons in H. rewrite prefix_count_app_l by (rewrite lenN_map; lia).
  pose proof (prefix_count_le_total true (map (fun _ : N => false) l) t) as H1.
  rewrite count_falses in H1. lia.
Qed.

(* ones among the first |rows B1| + t flags, t inside the next block *)
Lemma pc_blocks B1 b B2 t : neb B1 -> t < lenN (snd b) ->
  prefix_count true (lasts_of (B1 ++ b :: B2)) (lenN (labels_of B1) + t) = lenN B1.
Proof.
  intros H Ht. rewrite lasts_app, <- lasts_len, prefix_count_app_r, lasts_count by exact H.
  change (lasts_of (b :: B2)) with (flags_of b ++ lasts_of B2).
  rewrite prefix_count_app_l by (rewrite flags_len; lia). rewrite flags_prefix by exact Ht. lia.
Qed.

Lemma pc_blocks_end B1 B2 : neb B1 ->
  prefix_count true (lasts_of (B1 ++ B2)) (lenN (labels_of B1)) = lenN B1.
Proof.
  intros H. rewrite lasts_app, <- lasts_len.
  rewrite prefix_count_app_l by lia. rewrite prefix_count_all by lia. apply lasts_count. exact H.
Qed.

Lemma flags_sel b : snd b <> [] -> selb true (flags_of b) 1 = Some (lenN (snd b) - 1).
Proof.
  unfold flags_of. destruct (snd b) as [|x l]; [congruence|]. intros _.
  rewrite selb_app by lia. rewrite count_falses. cbn [N.ltb N.compare].
  replace (0 <? 1) with true by reflexivity. cbn [N.sub selb Bool.eqb N.eqb Pos.eqb option_map].
  rewrite lenN_map, lenN_cons. f_equal. lia.
Qed.

(* the j-th set flag closes the j-th block *)
Lemma sel_blocks B1 : forall B2, neb B1 -> B1 <> [] ->
  bv_select1 (lasts_of (B1 ++ B2)) (lenN B1) = Some (lenN (labels_of B1) - 1).
Proof.
  unfold bv_select1. induction B1 as [|b B1 IH]; intros B2 H Hne; [congruence|].
  assert (Hb : snd b <> []) by (apply H; left; reflexivity).
  assert (H' : neb B1) by (intros x Hx; apply H; right; exact Hx).
  change (lasts_of ((b :: B1) ++ B2)) with (flags_of b ++ lasts_of (B1 ++ B2)).
  change (labels_of (b :: B1)) with (snd b ++ labels_of B1).
  rewrite lenN_cons, lenN_app. rewrite selb_app by lia. rewrite flags_count by exact Hb.
  assert (Hpos : 1 <= lenN (snd b)).
  { destruct (snd b); [congruence|]. rewrite lenN_cons. lia. }
  destruct B1 as [|b1 B1'].
  - rewrite lenN_nil. replace (1 <? 1 + 0) with false by lia. rewrite N.add_0_r.
    rewrite flags_sel by exact Hb. f_equal. change (labels_of []) with (@nil N). rewrite lenN_nil. lia.
  - replace (1 <? 1 + lenN (b1 :: B1')) with true by (rewrite lenN_cons; lia).
    replace (1 + lenN (b1 :: B1') - 1) with (lenN (b1 :: B1')) by lia.
    rewrite IH by (auto; congruence). cbn [option_map]. f_equal. rewrite flags_len.
    assert (1 <= lenN (labels_of (b1 :: B1'))).
    { change (labels_of (b1 :: B1')) with (snd b1 ++ labels_of B1'). rewrite lenN_app.
      assert (snd b1 <> []) by (apply H'; left; reflexivity).
      destruct (snd b1); [congruence|]. rewrite lenN_cons. lia. }
    lia.
Qed.

(* ================================================================== *)
(* 3. counting: labels, groups, and the XBW correspondence              *)
(* ================================================================== *)
Lemma seq_bits_app c l1 l2 : seq_bits c (l1 ++ l2) = seq_bits c l1 ++ seq_bits c l2.
Proof. unfold seq_bits. apply map_app. Qed.

Lemma seq_count_app c l1 l2 : seq_count c (l1 ++ l2) = seq_count c l1 + seq_count c l2.
Proof. unfold seq_count, bv_ones. rewrite seq_bits_app. apply countb_app. Qed.

Lemma seq_count_cons c x l : seq_count c (x :: l) = (if c =? x then 1 else 0) + seq_count c l.
Proof. unfold seq_count, bv_ones, seq_bits. cbn [map countb]. destruct (c =? x); reflexivity. Qed.

Lemma seq_count_notin c l : ~ In c l -> seq_count c l = 0.
Proof.
  induction l as [|x l IH]; intros H; [reflexivity|]. rewrite seq_count_cons.
  destruct (N.eqb_spec c x) as [->|]; [exfalso; apply H; left; reflexivity|].
  rewrite IH; [reflexivity|]. intros Hin. apply H. right; exact Hin.
Qed.

Lemma asc_gt x t : asc_b (x :: t) = true -> forall y, In y t -> x < y.
Proof.
  revert x. induction t as [|z t IH]; intros x H y Hy; [destruct Hy|].
  cbn [asc_b] in H. apply andb_prop in H as [H1 H2]. destruct Hy as [<-|Hy]; [lia|].
  specialize (IH z H2 y Hy). lia.
Qed.

Lemma asc_tail x t : asc_b (x :: t) = true -> asc_b t = true.
Proof. cbn [asc_b]. destruct t; [reflexivity|]. intros H. apply andb_prop in H. tauto. Qed.

Definition okc (c : N) (b : blk) : Prop := seq_count c (snd b) = if has c b then 1 else 0.

Lemma asc_count c l : asc_b l = true -> seq_count c l = if existsb (N.eqb c) l then 1 else 0.
Proof.
  induction l as [|x l IH]; intros H; [reflexivity|].
  rewrite seq_count_cons. cbn [existsb]. destruct (N.eqb_spec c x) as [->|Hne]; cbn [orb].
  - rewrite seq_count_notin; [reflexivity|]. intros Hin. pose proof (asc_gt _ _ H x Hin). lia.
  - rewrite IH by (eapply asc_tail; eauto). reflexivity.
Qed.

Lemma cnt_labels c B : (forall b, In b B -> okc c b) -> seq_count c (labels_of B) = lenN (filter (has c) B).
Proof.
  induction B as [|b B IH]; intros H; [reflexivity|].
  change (labels_of (b :: B)) with (snd b ++ labels_of B). rewrite seq_count_app, IH by (intros; apply H; right; assumption).
  rewrite (H b (or_introl eq_refl)). cbn [filter]. destruct (has c b); rewrite ?lenN_cons; lia.
Qed.

Lemma SS_map_filter (f : blk -> bool) B : SS (map fst B) -> SS (map fst (filter f B)).
Proof.
  induction B as [|b B IH]; intros H; [constructor|]. cbn [map] in H.
  apply StronglySorted_inv in H as [H F]. cbn [filter]. destruct (f b); [|auto].
  cbn [map]. constructor; [auto|]. rewrite Forall_forall in *. intros x Hx.
  apply in_map_iff in Hx as (y & <- & Hy). apply filter_In in Hy as [Hy _]. apply F. apply in_map. exact Hy.
Qed.

Lemma filter_and {T} (f g : T -> bool) l : filter (fun x => f x && g x) l = filter g (filter f l).
Proof.
  induction l as [|a l IH]; [reflexivity|]. cbn [filter].
  destruct (f a); cbn [andb filter]; [destruct (g a)|]; rewrite IH; reflexivity.
Qed.

Lemma NR_le_total P B : NR P B <= lenN (labels_of B).
Proof.
  unfold NR, bsel. induction B as [|b B' IH]; [cbn; lia|]. cbn [filter].
  change (labels_of (b :: B')) with (snd b ++ labels_of B'). rewrite lenN_app.
  destruct (P (fst b)).
  - change (labels_of (b :: filter (fun b0 => P (fst b0)) B')) with (snd b ++ labels_of (filter (fun b0 => P (fst b0)) B')).
    rewrite lenN_app. lia.
  - lia.
Qed.

Section Blocks.
  Variables (S : list str) (B : list blk).
  Hypothesis HB : binv S B.

  Lemma B_shape : exists l1 B2, B = ([0], [0; 0]) :: ([0; 0], l1) :: B2.
  Proof. apply (bi_head _ _ HB). Qed.

  Lemma B_neb : neb B.
  Proof.
    destruct B_shape as (l1 & B2 & E). intros b Hb. rewrite E in Hb. destruct Hb as [<-|Hb]; [discriminate|].
    apply (bi_blk _ _ HB). rewrite E. exact Hb.
  Qed.

  Lemma B_in_cases b : In b B -> b = ([0], [0; 0]) \/ In b (tl B).
  Proof. destruct B_shape as (l1 & B2 & E). rewrite E. cbn [tl]. intros [<-|H]; auto. Qed.

  Lemma B_okc c b : 1 <= c -> In b B -> okc c b.
  Proof.
    intros Hc Hb. destruct (B_in_cases b Hb) as [->|Ht].
    - unfold okc, has. cbn [snd existsb]. rewrite !seq_count_cons.
      replace (c =? 0) with false by lia. reflexivity.
    - unfold okc, has. apply asc_count. apply (bi_blk _ _ HB). exact Ht.
  Qed.

  Lemma B_label_bound b c : In b B -> In c (snd b) -> c <= 255.
  Proof.
    intros Hb Hc. destruct (B_in_cases b Hb) as [->|Ht].
    - cbn in Hc. lia.
    - apply (bi_blk _ _ HB) in Ht. destruct Ht as (_ & _ & _ & H). specialize (H c Hc). lia.
  Qed.

  (* the XBW correspondence: the blocks of group c, in order, are the child blocks of the nodes labelled c, in order *)
  Lemma star c : 1 <= c <= 254 ->
    map (fun b => c :: fst b) (filter (has c) B) = map fst (filter (grp c) B).
  Proof.
    intros Hc. apply SS_ext_eq.
    - rewrite <- (map_map fst (cons c)). apply SS_map_cons, SS_map_filter, (bi_sorted _ _ HB).
    - apply SS_map_filter, (bi_sorted _ _ HB).
    - intros x. rewrite !in_map_iff. split.
      + intros (b & <- & Hb). apply filter_In in Hb as [Hb Hh]. apply has_In in Hh.
        destruct (B_in_cases b Hb) as [->|Ht]; [cbn in Hh; lia|].
        destruct (bi_down _ _ HB b c Ht Hh ltac:(lia)) as (b' & Hb' & E).
        exists b'. split; [exact E|]. apply filter_In. split; [exact Hb'|].
        unfold grp. rewrite E. apply N.eqb_refl.
      + intros (b' & <- & Hb'). apply filter_In in Hb' as [Hb' Hg].
        unfold grp in Hg. destruct (fst b') as [|x k] eqn:E; [discriminate|]. apply N.eqb_eq in Hg. subst x.
        destruct B_shape as (l1 & B2 & EB).
        assert (Ht : In b' (tl (tl B))).
        { rewrite EB in Hb' |- *. cbn [tl]. destruct Hb' as [<-|[<-|H]]; [cbn in E; injection E; lia|cbn in E; injection E; lia|exact H]. }
        destruct (bi_up _ _ HB b' Ht) as (c0 & k0 & b & E1 & Hb & E2 & Hin).
        rewrite E in E1. injection E1 as -> ->.
        exists b. split; [now rewrite E2|]. apply filter_In. split.
        * rewrite EB. right. rewrite EB in Hb. exact Hb.
        * apply has_In. exact Hin.
  Qed.

  (* lifting a cut of the keys below c *)
  Definition lift (c : N) (P : list N -> bool) (k : list N) : bool :=
    klt [c] k || (match k with x :: k' => (x =? c) && P k' | [] => false end).

  Lemma klt_lift c w k : klt (c :: w) k = lift c (klt w) k.
  Proof.
    unfold lift, klt, lex_ltb. destruct k as [|x k']; [reflexivity|]. cbn [lex_compare].
    destruct (N.compare_spec x c) as [->|H|H].
    - rewrite N.eqb_refl. destruct k'; cbn [lex_compare orb andb]; reflexivity.
    - reflexivity.
    - replace (x =? c) with false by lia. reflexivity.
  Qed.

  Lemma kle_lift c w k : kle (c :: w) k = lift c (kle w) k.
  Proof.
    unfold lift, kle, klt, lex_ltb. destruct k as [|x k']; [reflexivity|]. cbn [lex_compare is_prefix].
    destruct (N.compare_spec x c) as [->|H|H].
    - rewrite N.eqb_refl. destruct k'; cbn [lex_compare orb andb]; reflexivity.
    - reflexivity.
    - replace (x =? c) with false by lia. replace (c =? x) with false by lia. reflexivity.
  Qed.

  Lemma NB_lift c P : 1 <= c <= 254 ->
    NB (lift c P) B = NB (klt [c]) B + lenN (filter (has c) (bsel P B)).
  Proof.
    intros Hc. unfold NB, bsel.
    set (g := fun b : blk => grp c b && P (tl (fst b))).
    rewrite (filter_ext (fun b => lift c P (fst b)) (fun b => klt [c] (fst b) || g b)).
    2:{ intros b. unfold lift, g, grp. destruct (fst b) as [|x k']; [reflexivity|]. reflexivity. }
    rewrite filter_or_len.
    2:{ intros b _ H. unfold g, grp. destruct (fst b) as [|x k']; [reflexivity|].
        destruct (N.eqb_spec x c) as [->|]; [|reflexivity].
        unfold klt, lex_ltb in H. cbn [lex_compare] in H. rewrite N.compare_refl in H.
        destruct k'; discriminate. }
    apply N.add_cancel_l. unfold g. rewrite filter_and.
    transitivity (lenN (filter (fun k => P (tl k)) (map fst (filter (grp c) B)))).
    { rewrite filter_map_comm, lenN_map. reflexivity. }
    rewrite <- (star c Hc). rewrite filter_map_comm, lenN_map. cbn [tl].
    rewrite filter_comm. reflexivity.
  Qed.

  Lemma head_klt c : 1 <= c -> exists B', bsel (klt [c]) B = ([0], [0; 0]) :: B'.
  Proof.
    intros Hc. destruct B_shape as (l1 & B2 & E). rewrite E. unfold bsel. cbn [filter fst].
    replace (klt [c] [0]) with true; [eauto|]. unfold klt, lex_ltb. cbn [lex_compare].
    destruct (N.compare_spec 0 c); try lia; reflexivity.
  Qed.

  Lemma bsel_neb P : neb (bsel P B).
  Proof. intros b Hb. apply filter_In in Hb as [Hb _]. apply B_neb. exact Hb. Qed.

  (* rows before position NR P are exactly the rows of the blocks satisfying P *)
  Lemma split_P P : dclosed P -> B = bsel P B ++ bsel (fun k => negb (P k)) B.
  Proof. apply bsel_split, (bi_sorted _ _ HB). Qed.

  Lemma rank_last_P P : dclosed P -> 1 <= NR P B ->
    bv_rank1 (lasts_of B) (NR P B - 1) = NB P B.
  Proof.
    intros D H. unfold bv_rank1. replace (NR P B - 1 + 1) with (NR P B) by lia.
    rewrite (split_P P D) at 1. unfold NR, NB. apply pc_blocks_end. apply bsel_neb.
  Qed.

  Lemma sel_last_P P : dclosed P -> 1 <= NB P B ->
    bv_select1 (lasts_of B) (NB P B) = Some (NR P B - 1) /\ 1 <= NR P B.
  Proof.
    intros D H. rewrite (split_P P D) at 1. unfold NR, NB in *. split.
    - apply sel_blocks; [apply bsel_neb|]. intros E. rewrite E in H. unfold lenN in H. cbn in H. lia.
    - destruct (bsel P B) as [|b0 Bp] eqn:E; [unfold lenN in H; cbn in H; lia|].
      assert (snd b0 <> []) by (apply (bsel_neb P); rewrite E; left; reflexivity).
      change (labels_of (b0 :: Bp)) with (snd b0 ++ labels_of Bp). rewrite lenN_app.
      destruct (snd b0); [congruence|]. rewrite lenN_cons. lia.
  Qed.

  Lemma count_P c P : dclosed P -> 1 <= c -> 1 <= NR P B ->
    seq_rank c (labels_of B) (NR P B - 1) = lenN (filter (has c) (bsel P B)).
  Proof.
    intros D Hc H. unfold seq_rank, bv_rank1. replace (NR P B - 1 + 1) with (NR P B) by lia.
    rewrite (split_P P D) at 1. rewrite labels_app, seq_bits_app. unfold NR.
    replace (lenN (labels_of (bsel P B))) with (lenN (seq_bits c (labels_of (bsel P B)))) by (unfold seq_bits; apply lenN_map).
    rewrite prefix_count_app_l by lia. rewrite prefix_count_all by lia.
    apply (cnt_labels c). intros b Hb. apply B_okc; [exact Hc|]. apply filter_In in Hb. tauto.
  Qed.

End Blocks.

(* ================================================================== *)
(* 4. cuts are prefixes of the block list                               *)
(* ================================================================== *)
Lemma neb_len B : neb B -> lenN B <= lenN (labels_of B).
Proof.
  induction B as [|b B IH]; intros H; [cbn; lia|].
  change (labels_of (b :: B)) with (snd b ++ labels_of B). rewrite lenN_app, lenN_cons.
  assert (snd b <> []) by (apply H; left; reflexivity).
  assert (lenN B <= lenN (labels_of B)) by (apply IH; intros x Hx; apply H; right; exact Hx).
  destruct (snd b); [congruence|]. rewrite lenN_cons. lia.
Qed.

Lemma NB_le P B : NB P B <= lenN B.
Proof.
  unfold NB, bsel. induction B as [|b B IH]; [cbn; lia|]. cbn [filter].
  destruct (P (fst b)); rewrite ?lenN_cons; lia.
Qed.

Lemma prefix_eq_labels (B : list blk) : forall X Y R1 R2, neb B -> B = X ++ R1 -> B = Y ++ R2 ->
  lenN (labels_of X) = lenN (labels_of Y) -> X = Y.
Proof.
  induction B as [|b B IH]; intros X Y R1 R2 H E1 E2 L.
  - destruct X; [|discriminate]. destruct Y; [reflexivity|discriminate].
  - assert (Hb : snd b <> []) by (apply H; left; reflexivity).
    assert (H' : neb B) by (intros x Hx; apply H; right; exact Hx).
    assert (Hpos : 1 <= lenN (snd b)) by (destruct (snd b); [congruence|rewrite lenN_cons; lia]).
    destruct X as [|x X], Y as [|y Y]; [reflexivity| | |].
    + cbn [app] in E2. injection E2 as <- E2.
      change (labels_of (b :: Y)) with (snd b ++ labels_of Y) in L. rewrite lenN_app in L. cbn in L. lia.
    + cbn [app] in E1. injection E1 as <- E1.
      change (labels_of (b :: X)) with (snd b ++ labels_of X) in L. rewrite lenN_app in L. cbn in L. lia.
    + cbn [app] in E1, E2. injection E1 as <- E1. injection E2 as <- E2. f_equal.
      apply (IH X Y R1 R2 H' E1 E2).
      change (labels_of (b :: X)) with (snd b ++ labels_of X) in L.
      change (labels_of (b :: Y)) with (snd b ++ labels_of Y) in L. rewrite !lenN_app in L. lia.
Qed.

Lemma prefix_eq_len {T} (B : list T) : forall X Y R1 R2, B = X ++ R1 -> B = Y ++ R2 -> lenN X = lenN Y -> X = Y.
Proof.
  induction B as [|b B IH]; intros X Y R1 R2 E1 E2 L.
  - destruct X; [|discriminate]. destruct Y; [reflexivity|discriminate].
  - destruct X as [|x X], Y as [|y Y]; [reflexivity| | |]; rewrite ?lenN_cons, ?lenN_nil in L; try lia.
    cbn [app] in E1, E2. injection E1 as <- E1. injection E2 as <- E2. f_equal.
    apply (IH X Y R1 R2 E1 E2). lia.
Qed.

Lemma NR_mono P Q B : (forall k, P k = true -> Q k = true) -> NR P B <= NR Q B.
Proof.
  intros H. unfold NR, bsel. induction B as [|b B IH]; [cbn; lia|]. cbn [filter].
  destruct (P (fst b)) eqn:E.
  - rewrite (H _ E).
    change (labels_of (b :: ?X)) with (snd b ++ labels_of X). rewrite !lenN_app. lia.
  - destruct (Q (fst b)); [|exact IH].
    change (labels_of (b :: ?X)) with (snd b ++ labels_of X). rewrite !lenN_app. lia.
Qed.

Lemma prefix_not_lt w : forall k, is_prefix w k = true -> lex_ltb k w = false.
Proof.
  induction w as [|x w IH]; intros k H.
  - unfold lex_ltb. destruct k; reflexivity.
  - destruct k as [|y k]; [discriminate|]. cbn [is_prefix] in H. apply andb_prop in H as [E H].
    apply N.eqb_eq in E. subst y. unfold lex_ltb in *. rewrite lex_cons. apply IH. exact H.
Qed.

Section Cuts.
  Variables (S : list str) (B : list blk).
  Hypothesis HB : binv S B.

  Lemma cut_eq_NR P Q : dclosed P -> dclosed Q -> NR P B = NR Q B -> bsel P B = bsel Q B.
  Proof.
    intros DP DQ H. eapply (prefix_eq_labels B); [apply (B_neb S B HB)| | |exact H];
      eapply split_P; eauto.
  Qed.

  Lemma cut_eq_NB P Q : dclosed P -> dclosed Q -> NB P B = NB Q B -> bsel P B = bsel Q B.
  Proof.
    intros DP DQ H. eapply (prefix_eq_len B); [| |exact H]; eapply split_P; eauto.
  Qed.

  Lemma bsel_ext P Q : (forall k, P k = Q k) -> bsel P B = bsel Q B.
  Proof. intros H. unfold bsel. apply filter_ext. intros b. apply H. Qed.

  (* rows below the cut are the rows whose key satisfies P *)
  Lemma row_cut P i k c : dclosed P -> nthN (rows_of B) i = Some (k, c) -> (i < NR P B <-> P k = true).
  Proof.
    intros D Hn. rewrite (split_P S B HB P D), rows_app in Hn. unfold NR. rewrite <- rows_len.
    assert (Hin : forall Q, forall j, nthN (rows_of (bsel Q B)) j = Some (k, c) -> Q k = true).
    { intros Q j Hj. unfold nthN in Hj. apply nth_error_In in Hj. unfold rows_of in Hj.
      apply in_flat_map in Hj as (b & Hb & Hr). unfold blk_rows in Hr. apply in_map_iff in Hr as (c' & E & _).
      injection E as <- _. apply filter_In in Hb. tauto. }
    destruct (N.ltb_spec i (lenN (rows_of (bsel P B)))) as [Hlt|Hge].
    - rewrite nthN_app_l in Hn by exact Hlt. split; [intros _; eapply Hin; eauto|auto].
    - rewrite nthN_app_r in Hn by exact Hge. apply Hin in Hn. split; [lia|].
      intros E. rewrite E in Hn. discriminate.
  Qed.

  Lemma row_range w i k c : nthN (rows_of B) i = Some (k, c) ->
    (NR (klt w) B <= i < NR (kle w) B <-> is_prefix w k = true).
  Proof.
    intros Hn. pose proof (row_cut (klt w) i k c (klt_dclosed w) Hn) as H1.
    pose proof (row_cut (kle w) i k c (kle_dclosed w) Hn) as H2.
    unfold kle, klt in *. split.
    - intros [Ha Hb]. apply H2 in Hb. destruct (lex_ltb k w) eqn:E; [|exact Hb].
      assert (i < NR (fun k0 => lex_ltb k0 w) B) by (apply H1; reflexivity). lia.
    - intros Hp. pose proof (prefix_not_lt w k Hp) as E. split.
      + destruct (N.lt_ge_cases i (NR (fun k0 => lex_ltb k0 w) B)) as [Hlt|]; [|assumption].
        apply H1 in Hlt. congruence.
      + apply H2. rewrite Hp. apply orb_true_r.
  Qed.

  Definition Emp (w : list N) : Prop := bsel (klt w) B = bsel (kle w) B.

  Lemma Emp_step c w : 1 <= c <= 254 -> Emp w -> Emp (c :: w).
  Proof.
    intros Hc E. unfold Emp in *.
    rewrite (bsel_ext _ _ (klt_lift c w)), (bsel_ext _ _ (kle_lift c w)).
    apply cut_eq_NB.
    - intros k k' H1 H2. rewrite <- klt_lift in *. eapply klt_dclosed; eauto.
    - intros k k' H1 H2. rewrite <- kle_lift in *. eapply kle_dclosed; eauto.
    - rewrite !(NB_lift S B HB) by exact Hc. rewrite E. reflexivity.
  Qed.

  Lemma Emp_ext x : forall w, Forall (fun c => 1 <= c <= 254) x -> Emp w -> Emp (rev x ++ w).
  Proof.
    induction x as [|c x IH]; intros w Hx E; [exact E|].
    inversion Hx; subst. cbn [rev]. rewrite <- app_assoc. cbn [app]. apply IH; [assumption|].
    apply Emp_step; assumption.
  Qed.

  Lemma Emp_unused c w : 1 <= c <= 254 -> ~ In c (labels_of B) -> Emp (c :: w).
  Proof.
    intros Hc Hn. unfold Emp.
    rewrite (bsel_ext _ _ (klt_lift c w)), (bsel_ext _ _ (kle_lift c w)).
    apply cut_eq_NB.
    - intros k k' H1 H2. rewrite <- klt_lift in *. eapply klt_dclosed; eauto.
    - intros k k' H1 H2. rewrite <- kle_lift in *. eapply kle_dclosed; eauto.
    - rewrite !(NB_lift S B HB) by exact Hc.
      assert (Hf : forall P, filter (has c) (bsel P B) = []).
      { intros P. apply filter_none. intros b Hb. destruct (has c b) eqn:E; [|reflexivity].
        exfalso. apply Hn. unfold labels_of. apply in_flat_map. exists b. apply filter_In in Hb.
        split; [tauto|]. apply has_In. exact E. }
      rewrite !Hf. reflexivity.
  Qed.

  Lemma NR_lt_le w : NR (klt w) B <= NR (kle w) B.
  Proof. apply NR_mono. intros k H. unfold kle, klt in *. rewrite H. reflexivity. Qed.

  Lemma Emp_of_eq w : NR (klt w) B = NR (kle w) B -> Emp w.
  Proof. apply cut_eq_NR; [apply klt_dclosed|apply kle_dclosed]. Qed.
End Cuts.

(* ================================================================== *)
(* 5. the arrays: subPathSearch                                         *)
(* ================================================================== *)
Lemma u32_small x : x < W32 -> u32 x = x.
Proof. intros H. unfold u32. apply N.mod_small. exact H. Qed.

Lemma subu32_1 y : 1 <= y < W32 -> subu32 y 1 = y - 1.
Proof.
  intros H. unfold subu32. rewrite (u32_small 1) by (unfold W32; lia).
  unfold u32. replace (y + W32 - 1) with (y - 1 + 1 * W32) by lia.
  rewrite N.mod_add by (unfold W32; lia). apply N.mod_small. lia.
Qed.

Lemma NR_0 P B : neb B -> NR P B = 0 -> bsel P B = [].
Proof.
  intros H E. unfold NR in E. destruct (bsel P B) as [|b0 Bp] eqn:E2; [reflexivity|].
  assert (snd b0 <> []).
  { apply H. assert (In b0 (bsel P B)) by (rewrite E2; left; reflexivity). apply filter_In in H0. tauto. }
  change (labels_of (b0 :: Bp)) with (snd b0 ++ labels_of Bp) in E. rewrite lenN_app in E.
  destruct (snd b0); [congruence|]. rewrite lenN_cons in E. lia.
Qed.

Lemma NR_ge_blk P B b : In b B -> P (fst b) = true -> lenN (snd b) <= NR P B.
Proof.
  unfold NR, bsel. induction B as [|a B IH]; intros Hin HP; [destruct Hin|]. cbn [filter].
  destruct Hin as [->|Hin].
  - rewrite HP. change (labels_of (b :: ?X)) with (snd b ++ labels_of X). rewrite lenN_app. lia.
  - specialize (IH Hin HP). destruct (P (fst a)); [|exact IH].
    change (labels_of (a :: ?X)) with (snd a ++ labels_of X). rewrite lenN_app. lia.
Qed.

Section Arrays.
  Variables (S : list str) (B : list blk) (d : xbw).
  Hypothesis HB : binv S B.
  Hypothesis HA : ainv S B d.

  Lemma alpha_len : lenN (x_alpha d) = lenN (labels_of B).
  Proof. rewrite (ai_alpha _ _ _ HA). apply lenN_map. Qed.
  Lemma last_len : lenN (x_last d) = lenN (labels_of B).
  Proof. rewrite (ai_last _ _ _ HA). apply lasts_len. Qed.
  Lemma nodes_small : lenN (labels_of B) + 1 < W32.
  Proof. rewrite <- (ai_nodes _ _ _ HA). apply (ai_small _ _ _ HA). Qed.

  Lemma xmap_mapf c : c < 257 -> xmap d c = Some (mapf d c).
  Proof.
    intros H. unfold xmap, mapf. rewrite rdN_eq.
    destruct (nthN_lt_Some (x_mapping d) c) as [v Hv]; [rewrite (ai_maplen _ _ _ HA); exact H|].
    rewrite Hv. reflexivity.
  Qed.

  Lemma used_facts c : c < 256 -> used B c = true ->
    mapf d c <> 0 /\ xunmap d (mapf d c) = Some c /\
    (c <> 255 -> xselA d (mapf d c) = Some (NR (klt [c]) B) /\ xselA d (mapf d c + 1) = Some (NR (kle [c]) B)).
  Proof.
    intros Hc Hu. pose proof (ai_sym _ _ _ HA c Hc) as H. unfold chk_sym in H. rewrite Hu in H.
    apply andb_prop in H as [H H3]. apply andb_prop in H as [H1 H2].
    split; [destruct (N.eqb_spec (mapf d c) 0); [discriminate|assumption]|]. split.
    - destruct (xunmap d (mapf d c)) as [c'|]; [|discriminate]. apply N.eqb_eq in H2. now subst.
    - intros Hn. apply orb_prop in H3 as [H3|H3]; [apply N.eqb_eq in H3; contradiction|].
      destruct (xselA d (mapf d c)) as [a|]; [|discriminate].
      destruct (xselA d (mapf d c + 1)) as [b|]; [|discriminate].
      apply andb_prop in H3 as [E1 E2]. apply N.eqb_eq in E1, E2. subst. auto.
  Qed.

  Lemma unused_mapf c : c < 256 -> used B c = false -> mapf d c = 0.
  Proof.
    intros Hc Hu. pose proof (ai_sym _ _ _ HA c Hc) as H. unfold chk_sym in H. rewrite Hu in H.
    apply N.eqb_eq. exact H.
  Qed.

  Lemma label_used c : In c (labels_of B) -> used B c = true /\ c < 256.
  Proof.
    intros H. split.
    - unfold used. apply orb_true_intro. right. apply existsb_In. exact H.
    - unfold labels_of in H. apply in_flat_map in H as (b & Hb & Hc).
      pose proof (B_label_bound S B HB b c Hb Hc). lia.
  Qed.

  Lemma mapf_inj c1 c2 : c1 < 256 -> c2 < 256 -> used B c1 = true -> used B c2 = true ->
    mapf d c1 = mapf d c2 -> c1 = c2.
  Proof.
    intros H1 H2 U1 U2 E. destruct (used_facts c1 H1 U1) as (_ & E1 & _).
    destruct (used_facts c2 H2 U2) as (_ & E2 & _). rewrite E in E1. congruence.
  Qed.

  Lemma alpha_bits c : c < 256 -> used B c = true -> seq_bits (mapf d c) (x_alpha d) = seq_bits c (labels_of B).
  Proof.
    intros Hc Hu. rewrite (ai_alpha _ _ _ HA). unfold seq_bits. rewrite map_map. apply map_ext_in.
    intros x Hx. destruct (label_used x Hx) as [Ux Hx'].
    destruct (N.eqb_spec c x) as [->|Hne]; [apply N.eqb_refl|].
    apply N.eqb_neq. intros E. apply Hne. eapply mapf_inj; eauto.
  Qed.

  Lemma alpha_rank_eq c i : c < 256 -> used B c = true -> i < lenN (labels_of B) ->
    alpha_rank d (mapf d c) i = Some (seq_rank c (labels_of B) i).
  Proof.
    intros Hc Hu Hi. unfold alpha_rank. rewrite alpha_len. replace (i <? lenN (labels_of B)) with true by lia.
    unfold seq_rank. rewrite alpha_bits by assumption. reflexivity.
  Qed.

  Lemma alpha_access_eq i c : nthN (labels_of B) i = Some c -> alpha_access d i = Some (mapf d c).
  Proof.
    intros H. unfold alpha_access. rewrite rdN_eq, (ai_alpha _ _ _ HA). unfold nthN in *.
    rewrite nth_error_map, H. reflexivity.
  Qed.

  Lemma NB_small P : NB P B < W32.
  Proof.
    pose proof (NB_le P B). pose proof (neb_len B (B_neb S B HB)). pose proof nodes_small. lia.
  Qed.
  Lemma NR_small P : NR P B + 1 < W32.
  Proof. pose proof (NR_le_total P B). pose proof nodes_small. lia. Qed.

  (* select on [last] at the lifted cut *)
  Lemma sel_lift c P P' : 1 <= c <= 254 -> dclosed P' -> (forall k, P' k = lift c P k) ->
    sel1m (x_last d) (NB (klt [c]) B + lenN (filter (has c) (bsel P B))) = NR P' B - 1 /\ 1 <= NR P' B /\
    NB (klt [c]) B + lenN (filter (has c) (bsel P B)) = NB P' B.
  Proof.
    intros Hc D E. rewrite <- (NB_lift S B HB c P Hc).
    assert (EN : NB (lift c P) B = NB P' B).
    { unfold NB. f_equal. apply (bsel_ext B). intros k. symmetry. apply E. }
    rewrite EN.
    assert (H1 : 1 <= NB P' B).
    { rewrite <- EN, (NB_lift S B HB c P Hc). destruct (head_klt S B HB c) as [B' E']; [lia|].
      unfold NB at 1. rewrite E', lenN_cons. lia. }
    destruct (sel_last_P S B HB P' D H1) as [Hs Hr]. unfold sel1m. rewrite (ai_last _ _ _ HA), Hs. auto.
  Qed.

  Lemma sps_step c w rest l r : 1 <= c <= 254 -> In c (labels_of B) ->
    l = NR (klt w) B -> r + 1 = NR (kle w) B -> l <= r ->
    sps_loop d (c :: rest) l r = sps_loop d rest (NR (klt (c :: w)) B) (NR (kle (c :: w)) B - 1)
    /\ 1 <= NR (kle (c :: w)) B.
  Proof.
    intros Hc Hin El Er Hlr. destruct (label_used c Hin) as [Hu Hc'].
    destruct (used_facts c Hc' Hu) as (Hm & _ & Hsel). destruct (Hsel ltac:(lia)) as [Hy _].
    pose proof (NR_le_total (kle w) B) as Hle. pose proof nodes_small as Hsm.
    cbn [sps_loop]. replace (l <=? r) with true by lia.
    rewrite xmap_mapf by lia. replace (mapf d c =? 0) with false by lia. rewrite Hy.
    destruct (head_klt S B HB c) as [B' EB']; [lia|].
    assert (Hy2 : 2 <= NR (klt [c]) B).
    { unfold NR. rewrite EB'. change (labels_of (([0], [0; 0]) :: B')) with ([0; 0] ++ labels_of B').
      rewrite lenN_app. unfold lenN at 1. cbn [length]. lia. }
    pose proof (NR_small (klt [c])) as Hys.
    rewrite subu32_1 by lia. unfold last_rank1. rewrite last_len.
    pose proof (NR_le_total (klt [c]) B) as Hyt.
    replace (NR (klt [c]) B - 1 <? lenN (labels_of B)) with true by lia.
    rewrite (ai_last _ _ _ HA), (rank_last_P S B HB _ (klt_dclosed [c])) by lia.
    (* k1 *)
    assert (K1 : (if l =? 0 then Some 0 else alpha_rank d (mapf d c) (l - 1))
                 = Some (lenN (filter (has c) (bsel (klt w) B)))).
    { destruct (N.eqb_spec l 0) as [E0|E0].
      - rewrite (NR_0 (klt w) B (B_neb S B HB)) by lia. reflexivity.
      - rewrite alpha_rank_eq by (try assumption; lia). f_equal. rewrite El.
        apply (count_P S B HB); [apply klt_dclosed|lia|lia]. }
    rewrite K1.
    assert (K2 : alpha_rank d (mapf d c) r = Some (lenN (filter (has c) (bsel (kle w) B)))).
    { rewrite alpha_rank_eq by (try assumption; lia). f_equal. replace r with (NR (kle w) B - 1) by lia.
      apply (count_P S B HB); [apply kle_dclosed|lia|lia]. }
    rewrite K2.
    destruct (sel_lift c (klt w) (klt (c :: w)) Hc (klt_dclosed _) (klt_lift c w)) as (S1 & R1 & N1).
    destruct (sel_lift c (kle w) (kle (c :: w)) Hc (kle_dclosed _) (kle_lift c w)) as (S2 & R2 & N2).
    pose proof (NB_small (klt [c])). pose proof (NB_small (klt (c :: w))). pose proof (NB_small (kle (c :: w))).
    pose proof (NR_small (klt (c :: w))). pose proof (NR_small (kle (c :: w))).
    rewrite (u32_small (NB (klt [c]) B)) by lia.
    rewrite (u32_small (lenN (filter (has c) (bsel (klt w) B)))) by lia.
    rewrite (u32_small (lenN (filter (has c) (bsel (kle w) B)))) by lia.
    rewrite (ai_last _ _ _ HA) in S1, S2.
    rewrite (u32_small (NB (klt [c]) B + lenN (filter (has c) (bsel (klt w) B)))) by lia.
    rewrite (u32_small (NB (klt [c]) B + lenN (filter (has c) (bsel (kle w) B)))) by lia.
    rewrite S1, S2. rewrite !u32_small by lia.
    replace (NR (klt (c :: w)) B - 1 + 1) with (NR (klt (c :: w)) B) by lia. auto.
  Qed.

  Definition Res (w : list N) (l r : N) : Prop :=
    if l <=? r then l = NR (klt w) B /\ r + 1 = NR (kle w) B else Emp B w.

  Lemma Res_intro w : 1 <= NR (kle w) B -> Res w (NR (klt w) B) (NR (kle w) B - 1).
  Proof.
    intros H. unfold Res. pose proof (NR_lt_le B w).
    destruct (N.leb_spec (NR (klt w) B) (NR (kle w) B - 1)); [split; lia|].
    apply (Emp_of_eq S B HB). lia.
  Qed.

  Definition qchar (c : N) : Prop := 1 <= c <= 254.

  Lemma sps_loop_spec rest : forall w l r, Forall qchar rest -> Res w l r ->
    exists l' r', sps_loop d rest l r = Some (l', r') /\ Res (rev rest ++ w) l' r'.
  Proof.
    induction rest as [|c rest IH]; intros w l r Hq HR.
    - exists l, r. split; [reflexivity|exact HR].
    - inversion Hq as [|? ? Hc Hq']; subst. unfold Res in HR. destruct (N.leb_spec l r) as [Hlr|Hlr].
      + destruct HR as [El Er].
        destruct (in_dec N.eq_dec c (labels_of B)) as [Hin|Hnin].
        * destruct (sps_step c w rest l r Hc Hin El Er Hlr) as [E H1]. rewrite E.
          cbn [rev]. rewrite <- app_assoc. cbn [app]. apply IH; [exact Hq'|]. apply Res_intro. exact H1.
        * exists 1, 0. split.
          -- cbn [sps_loop]. replace (l <=? r) with true by lia. unfold qchar in Hc. rewrite xmap_mapf by lia.
             rewrite unused_mapf; [reflexivity|lia|].
             unfold used. replace (c =? 0) with false by lia. cbn [orb].
             destruct (existsb (N.eqb c) (labels_of B)) eqn:E; [|reflexivity].
             apply existsb_In in E. contradiction.
          -- unfold Res. cbn [N.leb N.compare]. cbn [rev]. rewrite <- app_assoc. cbn [app].
             apply (Emp_ext S B HB); [exact Hq'|]. apply (Emp_unused S B HB); assumption.
      + exists l, r. split.
        * cbn [sps_loop]. replace (l <=? r) with false by lia. reflexivity.
        * unfold Res. replace (l <=? r) with false by lia. apply (Emp_ext S B HB); assumption.
  Qed.

  (* first symbol: 0 (the root label, as locate / locatePrefix prepend it) or a query byte *)
  Theorem xbw_subPathSearch_spec c0 c1 rest : c0 = 0 \/ qchar c0 -> Forall qchar (c1 :: rest) ->
    exists l r, xbw_subPathSearch d (c0 :: c1 :: rest) = Some (l, r) /\ Res (rev (c0 :: c1 :: rest)) l r.
  Proof.
    intros H0 Hq. cbn [xbw_subPathSearch].
    assert (Hc0 : c0 < 256) by (unfold qchar in H0; lia).
    rewrite xmap_mapf by lia.
    destruct (used B c0) eqn:Hu.
    - destruct (used_facts c0 Hc0 Hu) as (Hm & _ & Hsel). destruct (Hsel ltac:(unfold qchar in H0; lia)) as [Hl Hr].
      replace (mapf d c0 =? 0) with false by lia. rewrite Hl, Hr.
      assert (H1 : 1 <= NR (kle [c0]) B).
      { destruct (B_shape S B HB) as (l1 & B2 & E).
        pose proof (NR_ge_blk (kle [c0]) B ([0], [0; 0])) as H. cbn [fst snd] in H.
        unfold lenN at 1 in H. cbn [length] in H.
        assert (kle [c0] [0] = true).
        { destruct H0 as [->|H0]; [reflexivity|]. unfold kle, lex_ltb. cbn [lex_compare]. unfold qchar in H0.
          destruct (N.compare_spec 0 c0); try lia; reflexivity. }
        specialize (H ltac:(rewrite E; left; reflexivity) H1). lia. }
      pose proof (NR_small (kle [c0])). rewrite subu32_1 by lia.
      replace (rev (c0 :: c1 :: rest)) with (rev (c1 :: rest) ++ [c0]) by reflexivity.
      apply sps_loop_spec; [exact Hq|]. apply Res_intro. exact H1.
    - destruct H0 as [->|H0]; [discriminate|].
      rewrite unused_mapf by assumption. cbn [N.eqb]. exists 1, 0. split; [reflexivity|].
      unfold Res. cbn [N.leb N.compare].
      replace (rev (c0 :: c1 :: rest)) with (rev (c1 :: rest) ++ [c0]) by reflexivity.
      apply (Emp_ext S B HB); [exact Hq|]. apply (Emp_unused S B HB); [exact H0|].
      intros Hin. apply label_used in Hin. destruct Hin as [Hin _]. congruence.
  Qed.
End Arrays.

(* ================================================================== *)
(* 6. keys, the ID order, locate                                        *)
(* ================================================================== *)
Definition vbyte (x : N) : Prop := 2 <= x <= 254.

Lemma removelast_snoc {T} (l : list T) x : removelast (l ++ [x]) = l.
Proof. rewrite removelast_app by discriminate. cbn. apply app_nil_r. Qed.

Lemma unkey_app r : unkey (r ++ [0; 0]) = rev r.
Proof.
  unfold unkey. replace (r ++ [0; 0]) with ((r ++ [0]) ++ [0]) by (rewrite <- app_assoc; reflexivity).
  rewrite !removelast_snoc. reflexivity.
Qed.

Lemma unkey_mkkey q : unkey (mkkey q) = q.
Proof. unfold mkkey. rewrite unkey_app. apply rev_involutive. Qed.

Lemma key_ok_form k : key_ok k = true -> exists r, k = r ++ [0; 0] /\ Forall vbyte r.
Proof.
  unfold key_ok. destruct (rev k) as [|a [|b r]] eqn:E; try discriminate; [destruct a; discriminate|].
  destruct a; [|discriminate]. destruct b; [|discriminate]. intros H.
  exists (rev r). split.
  - rewrite <- (rev_involutive k), E. cbn [rev]. rewrite <- app_assoc. reflexivity.
  - rewrite forallb_forall in H. apply Forall_forall. intros x Hx. apply in_rev in Hx.
    specialize (H x Hx). unfold vbyte. lia.
Qed.

Lemma key_prefix u : forall r, Forall (fun c => 1 <= c) u -> Forall vbyte r ->
  is_prefix (u ++ [0]) (r ++ [0; 0]) = true -> r = u.
Proof.
  induction u as [|a u IH]; intros r Hu Hr H.
  - destruct r as [|x r]; [reflexivity|]. cbn [app is_prefix] in H. inversion Hr; subst. unfold vbyte in *.
    apply andb_prop in H as [H _]. lia.
  - inversion Hu; subst. destruct r as [|x r].
    + cbn [app is_prefix] in H. apply andb_prop in H as [H _]. lia.
    + cbn [app is_prefix] in H. apply andb_prop in H as [E H]. apply N.eqb_eq in E. subst x.
      inversion Hr; subst. f_equal. apply IH; assumption.
Qed.

Lemma key_inj (B : list blk) b1 b2 : SS (map fst B) -> In b1 B -> In b2 B -> fst b1 = fst b2 -> b1 = b2.
Proof.
  induction B as [|b B IH]; intros H H1 H2 E; [destruct H1|].
  cbn [map] in H. apply StronglySorted_inv in H as [H F]. rewrite Forall_forall in F.
  destruct H1 as [<-|H1], H2 as [<-|H2]; [reflexivity| | |auto].
  - exfalso. apply (lex_lt_irrefl (fst b)). rewrite E at 2. apply F. apply in_map. exact H2.
  - exfalso. apply (lex_lt_irrefl (fst b)). rewrite <- E at 2. apply F. apply in_map. exact H1.
Qed.

Lemma NoDup_map_in {T U} (f : T -> U) l : (forall x y, In x l -> In y l -> f x = f y -> x = y) ->
  NoDup l -> NoDup (map f l).
Proof.
  induction l as [|a l IH]; intros Hi Hn; [constructor|]. inversion Hn; subst. cbn [map]. constructor.
  - intros Hin. apply in_map_iff in Hin as (y & E & Hy).
    assert (y = a) by (apply Hi; [right; exact Hy|left; reflexivity|exact E]). subst. contradiction.
  - apply IH; [|assumption]. intros x y Hx Hy. apply Hi; right; assumption.
Qed.

Lemma asc_snoc_lt Y : forall c y, asc_b (Y ++ [c]) = true -> In y Y -> y < c.
Proof.
  induction Y as [|x Y IH]; intros c y H Hy; [destruct Hy|].
  destruct Hy as [<-|Hy].
  - apply (asc_gt x (Y ++ [c]) H). apply in_or_app. right. left. reflexivity.
  - apply IH; [|exact Hy]. eapply asc_tail. exact H.
Qed.

Section Order.
  Variables (S : list str) (B : list blk).
  Hypothesis HB : binv S B.

  Lemma key_form b : In b (tl B) -> exists r, fst b = r ++ [0; 0] /\ Forall vbyte r.
  Proof. intros H. apply key_ok_form. apply (bi_blk _ _ HB). exact H. Qed.

  Lemma has255_tl b : In b B -> has 255 b = true -> In b (tl B).
  Proof.
    intros Hb H. destruct (B_in_cases S B HB b Hb) as [->|]; [|assumption]. discriminate.
  Qed.

  Lemma order_In s : In s (xbw_order_of B) <-> In s S.
  Proof.
    unfold xbw_order_of. rewrite in_map_iff. split.
    - intros (b & <- & Hb). apply filter_In in Hb as [Hb H]. apply (bi_leaf _ _ HB).
      + apply has255_tl; assumption.
      + apply has_In. exact H.
    - intros Hs. destruct (bi_mem _ _ HB s Hs) as (b & Hb & E & H). exists b. split.
      + rewrite E. apply unkey_mkkey.
      + apply filter_In. split; [exact Hb|]. apply has_In. exact H.
  Qed.

  Lemma B_NoDup : NoDup B.
  Proof. apply (NoDup_map_inv fst). apply SS_NoDup. apply (bi_sorted _ _ HB). Qed.

  Lemma order_NoDup : NoDup (xbw_order_of B).
  Proof.
    unfold xbw_order_of. apply NoDup_map_in; [|apply NoDup_filter, B_NoDup].
    intros x y Hx Hy E. apply filter_In in Hx as [Hx Hx2]. apply filter_In in Hy as [Hy Hy2].
    apply (key_inj B); auto; [apply (bi_sorted _ _ HB)|].
    destruct (key_form x (has255_tl x Hx Hx2)) as (rx & Ex & _).
    destruct (key_form y (has255_tl y Hy Hy2)) as (ry & Ey & _).
    rewrite Ex, Ey in *. rewrite !unkey_app in E. apply (f_equal (@rev N)) in E.
    rewrite !rev_involutive in E. now subst.
  Qed.

  (* the ID numbering is a permutation of S ... *)
  Theorem xbw_order_perm : NoDup S -> Permutation S (xbw_order_of B).
  Proof.
    intros H. apply NoDup_Permutation; [exact H|apply order_NoDup|]. intros s. symmetry. apply order_In.
  Qed.

  (* ... namely S sorted by the upward paths of the terminator leaves (= by the REVERSED strings) *)
  Theorem xbw_order_sorted : StronglySorted (fun a b => lex_lt (mkkey a) (mkkey b)) (xbw_order_of B).
  Proof.
    unfold xbw_order_of.
    assert (H : SS (map fst (filter (has 255) B))) by (apply SS_map_filter, (bi_sorted _ _ HB)).
    assert (F : forall b, In b (filter (has 255) B) -> mkkey (unkey (fst b)) = fst b).
    { intros b Hb. apply filter_In in Hb as [Hb H2]. destruct (key_form b (has255_tl b Hb H2)) as (r & E & _).
      rewrite E, unkey_app. unfold mkkey. now rewrite rev_involutive. }
    induction (filter (has 255) B) as [|b L IH]; [constructor|].
    cbn [map] in *. apply StronglySorted_inv in H as [H1 H2]. constructor.
    - apply IH; [exact H1|]. intros x Hx. apply F. right; exact Hx.
    - rewrite Forall_forall in *. intros x Hx. apply in_map_iff in Hx as (y & <- & Hy).
      rewrite (F b (or_introl eq_refl)), (F y (or_intror Hy)). apply H2. apply in_map. exact Hy.
  Qed.
End Order.

Lemma labels_rows B : labels_of B = map snd (rows_of B).
Proof.
  induction B as [|b B IH]; [reflexivity|].
  change (labels_of (b :: B)) with (snd b ++ labels_of B).
  change (rows_of (b :: B)) with (blk_rows b ++ rows_of B). rewrite map_app, IH. f_equal.
  unfold blk_rows. rewrite map_map. cbn [snd]. symmetry. apply map_id.
Qed.

Lemma nthN_mid {T} (l1 : list T) x l2 : nthN (l1 ++ x :: l2) (lenN l1) = Some x.
Proof. rewrite nthN_app_r by lia. rewrite N.sub_diag. reflexivity. Qed.

Lemma nthN_labels B i k c : nthN (rows_of B) i = Some (k, c) -> nthN (labels_of B) i = Some c.
Proof. intros H. rewrite labels_rows. unfold nthN in *. rewrite nth_error_map, H. reflexivity. Qed.

Lemma qchar_rev_pos q : Forall qchar q -> Forall (fun c => 1 <= c) (rev q).
Proof.
  intros H. apply Forall_forall. intros x Hx. apply in_rev in Hx. rewrite Forall_forall in H.
  specialize (H x Hx). unfold qchar in H. lia.
Qed.

Section Locate.
  Variables (S : list str) (B : list blk) (d : xbw).
  Hypothesis HB : binv S B.
  Hypothesis HA : ainv S B d.
  Hypothesis HS : S <> [].

  Lemma used_255 : In 255 (labels_of B).
  Proof.
    destruct S as [|s S']; [congruence|]. destruct (bi_mem _ _ HB s (or_introl eq_refl)) as (b & Hb & _ & H).
    unfold labels_of. apply in_flat_map. eauto.
  Qed.

  Lemma head_not_prefix q : q <> [] -> Forall qchar q -> is_prefix (rev q ++ [0]) [0] = false.
  Proof.
    intros Hq Hc. destruct (rev q) as [|a u] eqn:E.
    - apply (f_equal (@rev N)) in E. rewrite rev_involutive in E. cbn in E. congruence.
    - pose proof (qchar_rev_pos q Hc) as H. rewrite E in H. inversion H; subst.
      cbn [app is_prefix]. replace (a =? 0) with false by lia. reflexivity.
  Qed.

  (* a block whose key extends rev q ++ [0] is the child block of the node with path q *)
  Lemma prefix_key q b : q <> [] -> Forall qchar q -> In b B -> is_prefix (rev q ++ [0]) (fst b) = true ->
    In b (tl B) /\ fst b = mkkey q.
  Proof.
    intros Hq Hc Hb Hp. destruct (B_in_cases S B HB b Hb) as [->|Ht].
    - cbn [fst] in Hp. rewrite head_not_prefix in Hp by assumption. discriminate.
    - split; [exact Ht|]. destruct (key_form S B HB b Ht) as (r & E & Hr). rewrite E in *.
      unfold mkkey. f_equal. apply key_prefix; [apply qchar_rev_pos; exact Hc|exact Hr|exact Hp].
  Qed.

  (* the last row of a non-empty search range *)
  Lemma range_last q l r : q <> [] -> Forall qchar q ->
    l = NR (klt (rev q ++ [0])) B -> r + 1 = NR (kle (rev q ++ [0])) B -> l <= r ->
    exists X bq Y c R2, B = (X ++ [bq]) ++ R2 /\ bsel (kle (rev q ++ [0])) B = X ++ [bq] /\ snd bq = Y ++ [c] /\
      fst bq = mkkey q /\ In bq (tl B) /\ nthN (rows_of B) r = Some (mkkey q, c).
  Proof.
    intros Hq Hc El Er Hlr. set (w := rev q ++ [0]) in *.
    pose proof (split_P S B HB (kle w) (kle_dclosed w)) as Esp.
    assert (Hnn : bsel (kle w) B <> []).
    { intros E. unfold NR in Er. rewrite E in Er. cbn in Er. lia. }
    destruct (exists_last Hnn) as (X & bq & EK).
    assert (Hbq : In bq B).
    { assert (In bq (bsel (kle w) B)) by (rewrite EK; apply in_or_app; right; left; reflexivity).
      apply filter_In in H. tauto. }
    assert (Hne : snd bq <> []) by (apply (B_neb S B HB); exact Hbq).
    destruct (exists_last Hne) as (Y & c & EY).
    assert (Hrow : nthN (rows_of B) r = Some (fst bq, c)).
    { rewrite EK in Esp. rewrite Esp, rows_app, rows_app. change (rows_of [bq]) with (blk_rows bq ++ []). rewrite app_nil_r.
      unfold blk_rows. rewrite EY, map_app. cbn [map].
      rewrite <- !app_assoc. rewrite (app_assoc (rows_of X)). cbn [app].
      replace r with (lenN (rows_of X ++ map (fun c0 => (fst bq, c0)) Y)); [apply nthN_mid|].
      unfold NR in Er. rewrite EK, labels_app in Er. change (labels_of [bq]) with (snd bq ++ []) in Er.
      rewrite app_nil_r, EY, !lenN_app in Er. rewrite lenN_app, rows_len, lenN_map.
      unfold lenN in Er at 3. cbn [length] in Er. lia. }
    assert (Hp : is_prefix w (fst bq) = true).
    { apply (row_range S B HB w r (fst bq) c Hrow). lia. }
    destruct (prefix_key q bq Hq Hc Hbq Hp) as [Ht Ek].
    exists X, bq, Y, c, (bsel (fun k => negb (kle w k)) B). rewrite <- Ek. rewrite EK in Esp. repeat split; auto.
  Qed.

  Theorem xbw_locate_spec q : q <> [] -> Forall qchar q ->
    xbw_locate d q = Some (spec_locate (xbw_order_of B) q).
  Proof.
    intros Hq Hc. unfold xbw_locate.
    destruct q as [|c1 rest] eqn:Eq0; [congruence|]. rewrite <- Eq0 in *. clear Hq. assert (Hq : q <> []) by (subst; discriminate).
    destruct (xbw_subPathSearch_spec S B d HB HA 0 c1 rest (or_introl eq_refl)) as (l & r & Esp & HR).
    { rewrite <- Eq0. exact Hc. }
    rewrite <- Eq0 in Esp, HR. rewrite Esp.
    replace (rev (0 :: q)) with (rev q ++ [0]) in HR by reflexivity.
    unfold Res in HR. destruct (N.leb_spec l r) as [Hlr|Hlr].
    - destruct HR as [El Er]. replace (r <? l) with false by lia.
      destruct (range_last q l r Hq Hc El Er Hlr) as (X & bq & Y & c & R2 & EB & EK & EY & Ek & Ht & Hrow).
      rewrite (alpha_access_eq S B d HA r c (nthN_labels B r _ c Hrow)).
      rewrite (ai_max _ _ _ HA).
      assert (Hbq : In bq B) by (destruct (B_shape S B HB) as (l1 & B2 & E); rewrite E in Ht |- *; right; exact Ht).
      destruct (bi_blk _ _ HB bq Ht) as (_ & _ & Hasc & Hrng).
      pose proof used_255 as H255. destruct (label_used S B HB 255 H255) as [U255 _].
      assert (Hcl : In c (labels_of B)).
      { unfold labels_of. apply in_flat_map. exists bq. split; [exact Hbq|]. rewrite EY. apply in_or_app. right. left. reflexivity. }
      destruct (label_used S B HB c Hcl) as [Uc Hc256].
      destruct (N.eqb_spec (mapf d c) (mapf d 255)) as [Em|Em].
      + assert (c = 255) by (eapply (mapf_inj S B d HA); eauto; lia). subst c.
        (* member: ID = number of terminator leaves up to row r *)
        assert (Hin : In q S).
        { rewrite <- (unkey_mkkey q), <- Ek. apply (bi_leaf _ _ HB); [exact Ht|]. rewrite EY. apply in_or_app. right. left. reflexivity. }
        rewrite (alpha_rank_eq S B d HB HA 255) by (try assumption; try lia;
          pose proof (NR_le_total (kle (rev q ++ [0])) B); lia).
        f_equal. replace r with (NR (kle (rev q ++ [0])) B - 1) by lia.
        rewrite (count_P S B HB 255 _ (kle_dclosed _)) by lia.
        rewrite EK. unfold bsel. rewrite filter_app. cbn [filter].
        assert (H1 : has 255 bq = true) by (apply has_In; rewrite EY; apply in_or_app; right; left; reflexivity).
        rewrite H1.
        (* position of q in the order *)
        unfold spec_locate.
        assert (Hnth : nthN (xbw_order_of B) (lenN (filter (has 255) X)) = Some q).
        { unfold xbw_order_of. rewrite EB. rewrite !filter_app. cbn [filter]. rewrite H1.
          rewrite !map_app. cbn [map]. rewrite <- app_assoc. cbn [app].
          rewrite <- (lenN_map (fun b : blk => unkey (fst b)) (filter (has 255) X)).
          rewrite nthN_mid. rewrite Ek, unkey_mkkey. reflexivity. }
        rewrite (nth_index_from _ 1 _ q (N.le_refl 1) (order_NoDup S B HB) Hnth).
        rewrite lenN_app. unfold lenN at 2. cbn [length]. lia.
      + (* the last child is not the terminator: q is not a member *)
        symmetry. f_equal. apply spec_locate_absent. intros Hin. apply (order_In S B HB) in Hin.
        destruct (bi_mem _ _ HB q Hin) as (b & Hb & Ekb & H255b).
        assert (b = bq) by (apply (key_inj B); auto; [apply (bi_sorted _ _ HB)|congruence]). subst b.
        rewrite EY in H255b. apply in_app_or in H255b as [HinY|[E|[]]]; [|subst; congruence].
        rewrite EY in Hasc. pose proof (asc_snoc_lt Y c 255 Hasc HinY).
        specialize (Hrng c ltac:(rewrite EY; apply in_or_app; right; left; reflexivity)). lia.
    - replace (r <? l) with true by lia. symmetry. f_equal. apply spec_locate_absent. intros Hin.
      apply (order_In S B HB) in Hin. destruct (bi_mem _ _ HB q Hin) as (b & Hb & Ekb & _).
      unfold Emp in HR.
      assert (Hk : kle (rev q ++ [0]) (fst b) = true).
      { unfold kle. apply orb_true_intro. right. rewrite Ekb. unfold mkkey.
        replace (rev q ++ [0; 0]) with ((rev q ++ [0]) ++ [0]) by (rewrite <- app_assoc; reflexivity).
        apply is_prefix_app. eauto. }
      assert (In b (bsel (kle (rev q ++ [0])) B)) by (apply filter_In; auto).
      rewrite <- HR in H. apply filter_In in H as [_ H]. unfold klt in H.
      rewrite prefix_not_lt in H; [discriminate|].
      rewrite Ekb. unfold mkkey.
      replace (rev q ++ [0; 0]) with ((rev q ++ [0]) ++ [0]) by (rewrite <- app_assoc; reflexivity).
      apply is_prefix_app. eauto.
  Qed.
End Locate.

(* ================================================================== *)
(* 7. getParent, idToStr, extract                                       *)
(* ================================================================== *)
Lemma select_at c L1 L2 j : seq_count c L1 = j -> seq_select c (L1 ++ c :: L2) (j + 1) = Some (lenN L1).
Proof.
  intros H. unfold seq_select, bv_select1. rewrite seq_bits_app. rewrite selb_app by lia.
  unfold seq_count, bv_ones in H. rewrite H. replace (j <? j + 1) with true by lia.
  replace (j + 1 - j) with 1 by lia. unfold seq_bits at 2. cbn [map selb]. rewrite N.eqb_refl.
  cbn [Bool.eqb N.eqb Pos.eqb option_map]. f_equal. unfold seq_bits. rewrite lenN_map. lia.
Qed.

Lemma row_decomp B : forall n k c, nthN (rows_of B) n = Some (k, c) ->
  exists B1 b B2 t, B = B1 ++ b :: B2 /\ n = lenN (labels_of B1) + t /\ t < lenN (snd b) /\ fst b = k /\
    nthN (snd b) t = Some c.
Proof.
  induction B as [|b B IH]; intros n k c H.
  - unfold nthN in H. destruct (N.to_nat n); discriminate.
  - change (rows_of (b :: B)) with (blk_rows b ++ rows_of B) in H.
    destruct (N.ltb_spec n (lenN (blk_rows b))) as [Hlt|Hge].
    + rewrite nthN_app_l in H by exact Hlt. unfold blk_rows in *. rewrite lenN_map in Hlt.
      unfold nthN in H. rewrite nth_error_map in H.
      destruct (nth_error (snd b) (N.to_nat n)) as [c'|] eqn:E; [|discriminate]. injection H as <- <-.
      exists [], b, B, n. repeat split; auto.
    + rewrite nthN_app_r in H by exact Hge. destruct (IH _ _ _ H) as (B1 & b' & B2 & t & E1 & E2 & E3 & E4 & E5).
      exists (b :: B1), b', B2, t. subst B. repeat split; auto.
      change (labels_of (b :: B1)) with (snd b ++ labels_of B1). rewrite lenN_app.
      unfold blk_rows in *. rewrite lenN_map in *. lia.
Qed.

Lemma row_compose B1 b B2 l1 c l2 : snd b = l1 ++ c :: l2 ->
  nthN (rows_of (B1 ++ b :: B2)) (lenN (labels_of B1) + lenN l1) = Some (fst b, c).
Proof.
  intros E. rewrite rows_app. change (rows_of (b :: B2)) with (blk_rows b ++ rows_of B2).
  rewrite nthN_app_r by (rewrite rows_len; lia). rewrite rows_len.
  replace (lenN (labels_of B1) + lenN l1 - lenN (labels_of B1)) with (lenN l1) by lia.
  unfold blk_rows. rewrite E, map_app. cbn [map]. rewrite <- app_assoc. cbn [app].
  rewrite <- (lenN_map (fun c0 => (fst b, c0)) l1). apply nthN_mid.
Qed.

Lemma SS_mid (B1 : list blk) b B2 : SS (map fst (B1 ++ b :: B2)) ->
  (forall x, In x B1 -> lex_lt (fst x) (fst b)) /\ (forall x, In x B2 -> lex_lt (fst b) (fst x)).
Proof.
  induction B1 as [|a B1 IH]; intros H; cbn [app map] in H; apply StronglySorted_inv in H as [H F].
  - split; [intros x []|]. rewrite Forall_forall in F. intros x Hx. apply F. apply in_map. exact Hx.
  - destruct (IH H) as [I1 I2]. split; [|exact I2]. intros x [<-|Hx]; [|auto].
    rewrite Forall_forall in F. apply F. apply in_map. apply in_or_app. right. left. reflexivity.
Qed.

Section Parent.
  Variables (S : list str) (B : list blk) (d : xbw).
  Hypothesis HB : binv S B.
  Hypothesis HA : ainv S B d.

  Lemma row0 : nthN (rows_of B) 0 = Some ([0], 0) /\ nthN (rows_of B) 1 = Some ([0], 0).
  Proof. destruct (B_shape S B HB) as (l1 & B2 & E). rewrite E. split; reflexivity. Qed.

  Lemma NR_klt0 : NR (klt [0]) B = 0.
  Proof.
    unfold NR. assert (E : bsel (klt [0]) B = []).
    { apply filter_none. intros x Hx. destruct (B_in_cases S B HB x Hx) as [->|Ht]; [reflexivity|].
      destruct (key_form S B HB x Ht) as (r & E & Hr). rewrite E. unfold klt, lex_ltb.
      destruct r as [|y r]; [reflexivity|]. inversion Hr; subst. unfold vbyte in *. cbn [app lex_compare].
      destruct (N.compare_spec y 0); try lia; reflexivity. }
    rewrite E. reflexivity.
  Qed.

  (* the parent of a row whose key is c' :: k' (c' a string byte) is the row (k', c') *)
  Lemma getParent_spec n c' k' c : vbyte c' -> nthN (rows_of B) n = Some (c' :: k', c) ->
    exists p, xbw_getParent d n = Some p /\ nthN (rows_of B) p = Some (k', c').
  Proof.
    intros Hc' Hrow. unfold vbyte in Hc'.
    destruct (row_decomp B n _ c Hrow) as (B1 & b & B2 & t & EB & En & Ht & Ek & Hct).
    pose proof (bi_sorted _ _ HB) as HS. rewrite EB in HS. destruct (SS_mid B1 b B2 HS) as [Hlo Hhi].
    destruct (ai_rowsA _ _ _ HA n _ c Hrow) as (c0 & k0 & E0 & HnA & HrA). injection E0 as <- <-.
    (* c' is a label: the block b has a parent row *)
    assert (Hb : In b B) by (rewrite EB; apply in_or_app; right; left; reflexivity).
    assert (Htt : In b (tl (tl B))).
    { destruct (B_shape S B HB) as (l1 & B2' & E). rewrite E in Hb |- *. cbn [tl].
      destruct Hb as [<-|[<-|H]]; [cbn in Ek; injection Ek; lia|cbn in Ek; injection Ek; lia|exact H]. }
    destruct (bi_up _ _ HB b Htt) as (c1 & k1 & b' & E1 & Hb' & E2 & Hin). rewrite Ek in E1. injection E1 as <- <-.
    assert (Hb'B : In b' B) by (destruct (B_shape S B HB) as (l1 & B2' & E); rewrite E in Hb' |- *; right; exact Hb').
    assert (Hl : In c' (labels_of B)) by (unfold labels_of; apply in_flat_map; eauto).
    destruct (label_used S B HB c' Hl) as [Hu Hc256].
    destruct (used_facts S B d HA c' Hc256 Hu) as (Hm & _ & Hsel). destruct (Hsel ltac:(lia)) as [Hy _].
    (* the head block lies in B1 *)
    destruct (head_klt S B HB c') as [B' EB']; [lia|].
    assert (Hy2 : 2 <= NR (klt [c']) B).
    { pose proof (NR_ge_blk (klt [c']) B ([0], [0; 0])) as H. cbn [fst snd] in H. unfold lenN at 1 in H. cbn [length] in H.
      apply H; [|reflexivity || (unfold klt, lex_ltb; cbn [lex_compare]; destruct (N.compare_spec 0 c'); try lia; reflexivity)].
      assert (In ([0], [0; 0]) (bsel (klt [c']) B)) by (rewrite EB'; left; reflexivity). apply filter_In in H0. tauto. }
    (* blocks of B1: below [c'] or in group c' *)
    assert (Hcase : forall x, In x B1 -> klt [c'] (fst x) || grp c' x = true).
    { intros x Hx. specialize (Hlo x Hx). rewrite Ek in Hlo. apply lex_ltb_lt in Hlo.
      change (lex_ltb (fst x) (c' :: k')) with (klt (c' :: k') (fst x)) in Hlo. rewrite (klt_lift c' k') in Hlo.
      unfold lift, grp in *. apply orb_prop in Hlo as [H|H]; [rewrite H; reflexivity|].
      destruct (fst x) as [|y ky]; [discriminate|]. apply andb_prop in H as [H _]. rewrite H. apply orb_true_r. }
    assert (Hex : forall x, In x B -> klt [c'] (fst x) = true -> grp c' x = false).
    { intros x _ H. unfold grp, klt, lex_ltb in *. destruct (fst x) as [|y ky]; [reflexivity|].
      cbn [lex_compare] in H. destruct (N.compare_spec y c') as [->|?|?]; try (apply N.eqb_neq; lia).
      destruct ky; discriminate. }
    assert (HNB : NB (klt [c']) B = lenN (filter (fun x : list N * list N => klt [c'] (fst x)) B1)).
    { unfold NB, bsel. rewrite EB, filter_app. cbn [filter]. unfold blk in *.
      replace (klt [c'] (fst b)) with false.
      2:{ rewrite Ek. unfold klt, lex_ltb. cbn [lex_compare]. rewrite N.compare_refl. destruct k'; reflexivity. }
      rewrite (filter_none (fun x : list N * list N => klt [c'] (fst x)) B2).
      - rewrite app_nil_r. reflexivity.
      - intros x Hx. destruct (klt [c'] (fst x)) eqn:E; [|reflexivity]. exfalso.
        specialize (Hhi x Hx). unfold klt in E. apply lex_ltb_lt in E.
        assert (lex_lt (fst b) [c']) by (eapply lex_lt_trans; eauto). rewrite Ek in H.
        unfold lex_lt in H. cbn [lex_compare] in H. rewrite N.compare_refl in H. destruct k'; discriminate. }
    assert (HlenB1 : lenN B1 = NB (klt [c']) B + lenN (filter (grp c') B1)).
    { assert (H1 : lenN B1 = lenN (filter (fun x : list N * list N => klt [c'] (fst x) || grp c' x) B1)).
      { rewrite filter_all; [reflexivity|exact Hcase]. }
      rewrite H1 at 1. rewrite HNB. apply filter_or_len.
      intros x Hx. apply Hex. rewrite EB. apply in_or_app. left. exact Hx. }
    set (j := lenN (filter (grp c') B1)) in *.
    (* the j-th block with a child c' is the parent block *)
    assert (Hnth : nth_error (filter (has c') B) (N.to_nat j) = Some b').
    { pose proof (star S B HB c' ltac:(lia)) as Hst.
      assert (Hg : nth_error (map fst (filter (grp c') B)) (N.to_nat j) = Some (c' :: k')).
      { rewrite EB, filter_app. cbn [filter]. replace (grp c' b) with true by (unfold grp; rewrite Ek; symmetry; apply N.eqb_refl).
        rewrite map_app. cbn [map]. rewrite nth_error_app2 by (rewrite map_length; unfold j, lenN; lia).
        rewrite map_length. replace (N.to_nat j - length (filter (grp c') B1))%nat with 0%nat by (unfold j, lenN; lia).
        cbn. now rewrite Ek. }
      rewrite <- Hst in Hg. rewrite nth_error_map in Hg.
      match type of Hg with option_map _ ?X = _ => destruct X as [bp|] eqn:E end; cbn [option_map] in Hg; [|discriminate].
      assert (Hg' : fst bp = k') by congruence.
      transitivity (Some bp); [exact E|]. cut (bp = b'); [intros ->; reflexivity|].
      apply (key_inj B); [apply (bi_sorted _ _ HB)| |exact Hb'B|congruence].
      apply nth_error_In in E. apply filter_In in E. tauto. }
    destruct (nth_filter_split _ _ _ _ Hnth) as (C1 & C2 & EC & HjC & Hhas).
    apply has_In in Hhas. destruct (in_split _ _ Hhas) as (l1 & l2 & El).
    assert (Hok : okc c' b') by (apply (B_okc S B HB); [lia|exact Hb'B]).
    assert (Hl1 : seq_count c' l1 = 0).
    { unfold okc in Hok. replace (has c' b') with true in Hok by (symmetry; apply has_In; exact Hhas).
      rewrite El, seq_count_app, seq_count_cons, N.eqb_refl in Hok. lia. }
    assert (HcntC1 : seq_count c' (labels_of C1) = j).
    { rewrite (cnt_labels c').
      - unfold lenN. rewrite HjC. lia.
      - intros x Hx. apply (B_okc S B HB); [lia|]. rewrite EC. apply in_or_app. left. exact Hx. }
    set (p := lenN (labels_of C1) + lenN l1).
    assert (Hprow : nthN (rows_of B) p = Some (k', c')).
    { rewrite EC at 1. unfold p. rewrite <- E2. apply (row_compose C1 b' C2 l1 c' l2 El). }
    assert (Hpsel : seq_select c' (labels_of B) (j + 1) = Some p).
    { rewrite EC at 1. rewrite labels_app. change (labels_of (b' :: C2)) with (snd b' ++ labels_of C2).
      rewrite El. rewrite <- app_assoc. cbn [app]. rewrite app_assoc. unfold p. rewrite <- lenN_app.
      apply select_at. rewrite seq_count_app. lia. }
    exists p. split; [|exact Hprow].
    (* the computation *)
    pose proof (nodes_small S B d HA) as Hsm.
    assert (Hn2 : 2 <= lenN (labels_of B1)).
    { assert (In ([0], [0; 0]) B1).
      { assert (Hh : In ([0], [0; 0]) B) by (destruct (B_shape S B HB) as (l1' & B2' & E); rewrite E; left; reflexivity).
        rewrite EB in Hh. apply in_app_or in Hh as [Hh|[Hh|Hh]]; [exact Hh| |].
        - subst b. cbn in Ek. injection Ek. lia.
        - specialize (Hhi _ Hh). cbn [fst] in Hhi. rewrite Ek in Hhi. unfold lex_lt in Hhi. cbn [lex_compare] in Hhi.
          destruct (N.compare_spec c' 0); try lia; discriminate. }
      pose proof (NR_ge_blk (fun _ => true) B1 ([0], [0; 0]) H eq_refl) as H1. unfold NR, bsel in H1.
      rewrite filter_all in H1 by reflexivity. exact H1. }
    assert (Hntot : n < lenN (labels_of B)).
    { rewrite <- rows_len. eapply nthN_Some_lt. exact Hrow. }
    unfold xbw_getParent. replace (n =? 0) with false by lia.
    unfold A_rank1. replace (n <? lenN (x_A d)) with true by lia. rewrite HrA.
    pose proof (ai_mapsmall _ _ _ HA c'). rewrite u32_small by (unfold W32; lia). rewrite Hy.
    replace (NR (klt [c']) B =? 0) with false by lia.
    unfold last_rank1. rewrite (last_len S B d HA).
    replace (n - 1 <? lenN (labels_of B)) with true by lia.
    pose proof (NR_le_total (klt [c']) B).
    replace (NR (klt [c']) B - 1 <? lenN (labels_of B)) with true by lia.
    rewrite (ai_last _ _ _ HA). rewrite (rank_last_P S B HB _ (klt_dclosed [c'])) by lia.
    assert (Hrk : bv_rank1 (lasts_of B) (n - 1) = lenN B1).
    { unfold bv_rank1. replace (n - 1 + 1) with n by lia. rewrite EB, En.
      apply pc_blocks; [|exact Ht]. pose proof (B_neb S B HB) as Hne. rewrite EB in Hne. apply neb_app in Hne. tauto. }
    rewrite Hrk, HlenB1.
    pose proof (NB_small S B d HB HA (klt [c'])).
    assert (j <= lenN B) by (pose proof (B_neb S B HB); rewrite EB at 1; rewrite lenN_app; unfold j;
      pose proof (NB_le (fun _ => true) B1); unfold NB, bsel in *;
      assert (lenN (filter (grp c') B1) <= lenN B1) by (clear; induction B1 as [|a l IH]; cbn [filter]; [lia|destruct (grp c' a); rewrite ?lenN_cons; lia]); lia).
    pose proof (neb_len B (B_neb S B HB)).
    replace (subu32 (NB (klt [c']) B + j) (NB (klt [c']) B)) with j.
    2:{ unfold subu32. rewrite (u32_small (NB (klt [c']) B)) by lia. unfold u32.
        replace (NB (klt [c']) B + j + W32 - NB (klt [c']) B) with (j + 1 * W32) by lia.
        rewrite N.mod_add by (unfold W32; lia). symmetry. apply N.mod_small. lia. }
    unfold alpha_select, seq_select. rewrite (alpha_bits S B d HB HA c' Hc256 Hu).
    fold (seq_select c' (labels_of B) (j + 1)). rewrite Hpsel.
    rewrite u32_small; [reflexivity|]. apply nthN_Some_lt in Hprow. rewrite rows_len in Hprow. lia.
  Qed.
End Parent.

Section Extract.
  Variables (S : list str) (B : list blk) (d : xbw).
  Hypothesis HB : binv S B.
  Hypothesis HA : ainv S B d.

  Lemma mkkey_snoc pi c : mkkey (pi ++ [c]) = c :: mkkey pi.
  Proof. unfold mkkey. rewrite rev_unit. reflexivity. Qed.

  (* a node at depth |pi| has |pi| + 2 distinct ancestors' blocks above it *)
  Lemma depth_bound pi : forall b, In b B -> fst b = mkkey pi -> Forall vbyte pi ->
    exists L, NoDup L /\ incl L (map fst B) /\ length L = (length pi + 2)%nat /\
              (forall k, In k L -> (length k <= length pi + 2)%nat).
  Proof.
    induction pi as [|c pi IH] using rev_ind; intros b Hb Ek Hv.
    - exists [[0]; [0; 0]]. destruct (B_shape S B HB) as (l1 & B2 & E). repeat split.
      + constructor; [intros [H|[]]; discriminate|]. constructor; [intros []|constructor].
      + intros k [<-|[<-|[]]]; rewrite E; cbn [map fst]; [left|right; left]; reflexivity.
      + intros k [<-|[<-|[]]]; cbn; lia.
    - rewrite mkkey_snoc in Ek. apply Forall_app in Hv as [Hv Hc]. inversion Hc; subst.
      assert (Htt : In b (tl (tl B))).
      { destruct (B_shape S B HB) as (l1 & B2' & E). rewrite E in Hb |- *. cbn [tl]. unfold vbyte in *.
        destruct Hb as [<-|[<-|H]]; [cbn in Ek; injection Ek; lia|cbn in Ek; injection Ek; lia|exact H]. }
      destruct (bi_up _ _ HB b Htt) as (c1 & k1 & b' & E1 & Hb' & E2 & Hin). rewrite Ek in E1. injection E1 as <- <-.
      assert (Hb'B : In b' B) by (destruct (B_shape S B HB) as (l1 & B2' & E); rewrite E in Hb' |- *; right; exact Hb').
      destruct (IH b' Hb'B E2 Hv) as (L & ND & Hincl & Hlen & Hle).
      exists ((c :: mkkey pi) :: L). repeat split.
      + constructor; [|exact ND]. intros Hin'. apply Hle in Hin'. unfold mkkey in Hin'. cbn [length] in Hin'.
        rewrite app_length, rev_length in Hin'. cbn [length] in Hin'. lia.
      + intros k [<-|Hk]; [|auto]. rewrite <- Ek. apply in_map. exact Hb.
      + cbn [length]. rewrite Hlen, app_length. cbn [length]. lia.
      + intros k [<-|Hk].
        * unfold mkkey. cbn [length]. rewrite !app_length, rev_length. cbn [length]. lia.
        * apply Hle in Hk. rewrite app_length. cbn [length]. lia.
  Qed.

  Lemma idToStr_spec pi : forall fuel n c, Forall vbyte pi -> nthN (rows_of B) n = Some (mkkey pi, c) ->
    (length pi < fuel)%nat -> xbw_idToStr d fuel n = Some (pi ++ [c]).
  Proof.
    destruct (row0 S B HB) as [R0 R1].
    induction pi as [|c' pi IH] using rev_ind; intros fuel n c Hv Hrow Hf.
    - destruct fuel as [|f]; [lia|]. cbn [xbw_idToStr].
      assert (n <> 1) by (intros ->; rewrite R1 in Hrow; discriminate).
      assert (n <> 0) by (intros ->; rewrite R0 in Hrow; discriminate).
      replace (n =? 1) with false by lia.
      destruct (ai_rowsA _ _ _ HA n _ c Hrow) as (c0 & k0 & E0 & HnA & HrA). unfold mkkey in E0. cbn in E0. injection E0 as <- <-.
      assert (U0 : used B 0 = true) by reflexivity.
      destruct (used_facts S B d HA 0 ltac:(lia) U0) as (Hm & _ & Hsel). destruct (Hsel ltac:(lia)) as [Hy _].
      unfold xbw_getParent. replace (n =? 0) with false by lia.
      unfold A_rank1. replace (n <? lenN (x_A d)) with true by lia. rewrite HrA.
      pose proof (ai_mapsmall _ _ _ HA 0). rewrite u32_small by (unfold W32; lia). rewrite Hy.
      rewrite (NR_klt0 S B HB). cbn [N.eqb].
      replace (xbw_idToStr d f 1) with (Some (@nil N)) by (destruct f; reflexivity).
      rewrite (alpha_access_eq S B d HA n c (nthN_labels B n _ c Hrow)).
      assert (Hl : In c (labels_of B)).
      { apply nthN_labels in Hrow. unfold nthN in Hrow. apply nth_error_In in Hrow. exact Hrow. }
      destruct (label_used S B HB c Hl) as [Hu Hc256].
      destruct (used_facts S B d HA c Hc256 Hu) as (_ & Hun & _). rewrite Hun. reflexivity.
    - destruct fuel as [|f]; [lia|]. rewrite app_length in Hf. cbn [length] in Hf. cbn [xbw_idToStr].
      apply Forall_app in Hv as [Hv Hc]. inversion Hc as [|? ? Hc' _]; subst.
      rewrite mkkey_snoc in Hrow.
      assert (n <> 1).
      { intros ->. rewrite R1 in Hrow. injection Hrow as E1 _. unfold vbyte in Hc'. lia. }
      replace (n =? 1) with false by lia.
      destruct (getParent_spec S B d HB HA n c' (mkkey pi) c ltac:(assumption) Hrow) as (p & Hp & Hprow).
      rewrite Hp. rewrite (IH f p c' Hv Hprow ltac:(lia)).
      rewrite (alpha_access_eq S B d HA n c (nthN_labels B n _ c Hrow)).
      assert (Hl : In c (labels_of B)).
      { apply nthN_labels in Hrow. unfold nthN in Hrow. apply nth_error_In in Hrow. exact Hrow. }
      destruct (label_used S B HB c Hl) as [Hu Hc256].
      destruct (used_facts S B d HA c Hc256 Hu) as (_ & Hun & _). rewrite Hun. reflexivity.
  Qed.

  Hypothesis HS : S <> [].
  Hypothesis HND : NoDup S.

  Lemma order_len : lenN (xbw_order_of B) = lenN S.
  Proof. unfold lenN. rewrite (Permutation_length (xbw_order_perm S B HB HND)). reflexivity. Qed.

  Theorem xbw_extract_spec id : xbw_extract d id = Some (spec_extract (xbw_order_of B) id).
  Proof.
    unfold xbw_extract. rewrite (ai_elems _ _ _ HA), <- order_len.
    destruct ((0 <? id) && (id <=? lenN (xbw_order_of B))) eqn:Hr.
    2:{ f_equal. symmetry. apply spec_extract_out_of_range. apply andb_false_iff in Hr. lia. }
    apply andb_prop in Hr as [H1 H2].
    assert (Hlt : (N.to_nat (id - 1) < length (filter (has 255) B))%nat).
    { assert (E : lenN (xbw_order_of B) = lenN (filter (has 255) B)) by (unfold xbw_order_of; apply lenN_map).
      rewrite E in H2. unfold lenN in H2. lia. }
    destruct (nth_error (filter (has 255) B) (N.to_nat (id - 1))) as [bl|] eqn:En;
      [|apply nth_error_None in En; lia].
    destruct (nth_filter_split _ _ _ _ En) as (C1 & C2 & EC & HjC & Hhas).
    assert (HblB : In bl B) by (rewrite EC; apply in_or_app; right; left; reflexivity).
    pose proof (has255_tl S B HB bl HblB Hhas) as Htl.
    apply has_In in Hhas. destruct (in_split _ _ Hhas) as (l1 & l2 & El).
    assert (Hok : okc 255 bl) by (apply (B_okc S B HB); [lia|exact HblB]).
    assert (Hl1 : seq_count 255 l1 = 0).
    { unfold okc in Hok. replace (has 255 bl) with true in Hok by (symmetry; apply has_In; exact Hhas).
      rewrite El, seq_count_app, seq_count_cons, N.eqb_refl in Hok. lia. }
    assert (HcntC1 : seq_count 255 (labels_of C1) = id - 1).
    { rewrite (cnt_labels 255).
      - unfold lenN. rewrite HjC. lia.
      - intros x Hx. apply (B_okc S B HB); [lia|]. rewrite EC. apply in_or_app. left. exact Hx. }
    set (p := lenN (labels_of C1) + lenN l1).
    assert (Hprow : nthN (rows_of B) p = Some (fst bl, 255)).
    { rewrite EC at 1. unfold p. apply (row_compose C1 bl C2 l1 255 l2 El). }
    assert (Hpsel : seq_select 255 (labels_of B) id = Some p).
    { replace id with (id - 1 + 1) at 1 by lia.
      rewrite EC at 1. rewrite labels_app. change (labels_of (bl :: C2)) with (snd bl ++ labels_of C2).
      rewrite El. rewrite <- app_assoc. cbn [app]. rewrite app_assoc. unfold p. rewrite <- lenN_app.
      apply select_at. rewrite seq_count_app. lia. }
    assert (H255 : In 255 (labels_of B)) by (unfold labels_of; apply in_flat_map; eauto).
    destruct (label_used S B HB 255 H255) as [U255 _].
    unfold alpha_select, seq_select. rewrite (ai_max _ _ _ HA), (alpha_bits S B d HB HA 255 ltac:(lia) U255).
    fold (seq_select 255 (labels_of B) id). rewrite Hpsel.
    pose proof (nodes_small S B d HA) as Hsm.
    assert (Hpn : p < lenN (labels_of B)) by (apply nthN_Some_lt in Hprow; rewrite rows_len in Hprow; exact Hprow).
    rewrite u32_small by lia.
    destruct (row0 S B HB) as [_ R1].
    assert (p <> 1) by (intros E; rewrite E in Hprow; rewrite R1 in Hprow; discriminate).
    replace (p =? 1) with false by lia.
    destruct (key_form S B HB bl Htl) as (r & Er & Hvr).
    assert (Ekey : fst bl = mkkey (rev r)) by (unfold mkkey; rewrite rev_involutive; exact Er).
    assert (Hvrev : Forall vbyte (rev r)).
    { apply Forall_forall. intros x Hx. apply in_rev in Hx. rewrite Forall_forall in Hvr. auto. }
    destruct (depth_bound (rev r) bl HblB Ekey Hvrev) as (L & ND & Hincl & Hlen & _).
    pose proof (NoDup_incl_length ND Hincl) as HL. rewrite map_length in HL.
    pose proof (neb_len B (B_neb S B HB)) as HnB. unfold lenN in HnB.
    rewrite Ekey in Hprow.
    rewrite (idToStr_spec (rev r) (xfuel d) p 255 Hvrev Hprow).
    2:{ unfold xfuel. pose proof (alpha_len S B d HA) as Hal. unfold lenN in Hal. unfold blk in *. lia. }
    rewrite removelast_snoc. do 2 f_equal. unfold spec_extract. replace (id =? 0) with false by lia.
    unfold xbw_order_of, nthN. rewrite nth_error_map.
    match goal with |- _ = option_map _ ?X => replace X with (Some bl) by (symmetry; exact En) end.
    cbn [option_map]. rewrite Er, unkey_app. reflexivity.
  Qed.
End Extract.

(* ================================================================== *)
(* 8. exported statements                                               *)
(* ================================================================== *)
Lemma valid_set_facts S : valid_set S -> S <> [] /\ NoDup S.
Proof. intros (H1 & _ & H3). split; [exact H1|apply sorted_NoDup; exact H3]. Qed.

Section Top.
  Variables (S : list str) (d : xbw).
  Hypothesis HV : valid_set S.
  Hypothesis HC : xbw_check S d = true.
  Let B := trie_blocks S.
  Let HB : binv S B := proj1 (xbw_check_sound S d HC).
  Let HA : ainv S B d := proj2 (xbw_check_sound S d HC).

  (* the IDs are a bijection [1,n] <-> S: the members in the order of their terminator leaves, i.e. sorted by
     their upward paths (= by the reversed strings) *)
  Theorem XBW_order_perm : Permutation S (xbw_order S).
  Proof. apply (xbw_order_perm S B HB). apply valid_set_facts. exact HV. Qed.

  Theorem XBW_order_sorted : StronglySorted (fun a b => lex_lt (mkkey a) (mkkey b)) (xbw_order S).
  Proof. apply (xbw_order_sorted S B HB). Qed.

  (* 2. subPathSearch: the resulting interval is exactly the set of rows (nodes) whose upward path starts with
     the reversed pattern.  c0 = 0 is the root label locate / locatePrefix prepend. *)
  Theorem XBW_subPathSearch_spec c0 c1 rest : c0 = 0 \/ qchar c0 -> Forall qchar (c1 :: rest) ->
    exists l r, xbw_subPathSearch d (c0 :: c1 :: rest) = Some (l, r) /\
      forall i k c, nthN (rows_of B) i = Some (k, c) ->
        (l <= i <= r <-> is_prefix (rev (c0 :: c1 :: rest)) k = true).
  Proof.
    intros H0 Hq. destruct (xbw_subPathSearch_spec S B d HB HA c0 c1 rest H0 Hq) as (l & r & E & HR).
    exists l, r. split; [exact E|]. intros i k c Hrow.
    pose proof (row_range S B HB (rev (c0 :: c1 :: rest)) i k c Hrow) as Hrr.
    unfold Res in HR. destruct (N.leb_spec l r) as [Hlr|Hlr].
    - destruct HR as [-> Er]. rewrite <- Hrr. lia.
    - unfold Emp in HR. assert (NR (klt (rev (c0 :: c1 :: rest))) B = NR (kle (rev (c0 :: c1 :: rest))) B)
        by (unfold NR; now rewrite HR).
      rewrite <- Hrr. lia.
  Qed.

  (* 3. locate / extract *)
  Theorem XBW_locate_spec q : q <> [] -> Forall qchar q -> xbw_locate d q = Some (spec_locate (xbw_order S) q).
  Proof. intros. apply (xbw_locate_spec S B d HB HA); auto. apply valid_set_facts. exact HV. Qed.

  Theorem XBW_extract_spec id : xbw_extract d id = Some (spec_extract (xbw_order S) id).
  Proof. apply (xbw_extract_spec S B d HB HA); apply valid_set_facts; exact HV. Qed.

  Lemma member_qchar s : In s S -> s <> [] /\ Forall qchar s.
  Proof.
    intros Hs. destruct HV as (_ & Hf & _). rewrite Forall_forall in Hf. destruct (Hf s Hs) as [H1 H2].
    split; [exact H1|]. eapply Forall_impl; [|exact H2]. intros b Hb. unfold valid_byte in Hb. unfold qchar. lia.
  Qed.

  Theorem XBW_locate_member s : In s S ->
    exists id, 1 <= id <= lenN S /\ xbw_locate d s = Some id /\ xbw_extract d id = Some (Some s).
  Proof.
    intros Hs. destruct (member_qchar s Hs) as [H1 H2].
    assert (Hin : In s (xbw_order S)) by (apply (Permutation_in _ XBW_order_perm); exact Hs).
    exists (spec_locate (xbw_order S) s). split; [|split].
    - pose proof (spec_locate_member _ _ Hin) as H. unfold lenN in *. rewrite (Permutation_length XBW_order_perm). exact H.
    - apply XBW_locate_spec; assumption.
    - rewrite XBW_extract_spec. f_equal. apply spec_extract_locate. exact Hin.
  Qed.

  Theorem XBW_locate_absent q : q <> [] -> Forall qchar q -> ~ In q S -> xbw_locate d q = Some 0.
  Proof.
    intros H1 H2 Hn. rewrite XBW_locate_spec by assumption. f_equal. apply spec_locate_absent.
    intros Hin. apply Hn. apply (Permutation_in _ (Permutation_sym XBW_order_perm)). exact Hin.
  Qed.

  Theorem XBW_extract_range id : 1 <= id <= lenN S ->
    exists s, In s S /\ xbw_extract d id = Some (Some s) /\ xbw_locate d s = Some id.
  Proof.
    intros Hid. assert (Hl : lenN (xbw_order S) = lenN S) by (unfold lenN; now rewrite (Permutation_length XBW_order_perm)).
    destruct (spec_extract_in_range (xbw_order S) id ltac:(lia)) as (s & Es & Hin).
    assert (Hs : In s S) by (apply (Permutation_in _ (Permutation_sym XBW_order_perm)); exact Hin).
    exists s. split; [exact Hs|]. split; [rewrite XBW_extract_spec, Es; reflexivity|].
    destruct (member_qchar s Hs) as [H1 H2]. rewrite XBW_locate_spec by assumption. f_equal.
    apply spec_locate_extract; [|exact Es]. apply (order_NoDup S B HB).
  Qed.

  Theorem XBW_extract_out_of_range id : id = 0 \/ lenN S < id -> xbw_extract d id = Some None.
  Proof.
    intros H. rewrite XBW_extract_spec. f_equal. apply spec_extract_out_of_range.
    assert (Hl : lenN (xbw_order S) = lenN S) by (unfold lenN; now rewrite (Permutation_length XBW_order_perm)). lia.
  Qed.

  (* 1. navigation, upward half: getParent of a node below the root is the row of its parent *)
  Theorem XBW_getParent_spec n c' k' c : vbyte c' -> nthN (rows_of B) n = Some (c' :: k', c) ->
    exists p, xbw_getParent d n = Some p /\ nthN (rows_of B) p = Some (k', c').
  Proof. apply (getParent_spec S B d HB HA). Qed.

  (* 4. (partial) the range handed to the prefix iterators is exactly the sibling block below the node p *)
  Theorem XBW_prefix_range p : p <> [] -> Forall qchar p ->
    exists l r, xbw_subPathSearch d (0 :: p) = Some (l, r) /\
      forall i k c, nthN (rows_of B) i = Some (k, c) -> (l <= i <= r <-> k = mkkey p).
  Proof.
    intros Hp Hq. destruct p as [|c1 rest] eqn:Ep; [congruence|]. rewrite <- Ep in *.
    destruct (XBW_subPathSearch_spec 0 c1 rest (or_introl eq_refl) ltac:(rewrite <- Ep; exact Hq)) as (l & r & E & H).
    rewrite <- Ep in E, H. exists l, r. split; [exact E|]. intros i k c Hrow. rewrite (H i k c Hrow).
    replace (rev (0 :: p)) with (rev p ++ [0]) by reflexivity. split.
    - intros Hpre. destruct (row_decomp B i k c Hrow) as (B1 & b & B2 & t & EB & _ & _ & Ek & _).
      assert (Hb : In b B) by (rewrite EB; apply in_or_app; right; left; reflexivity).
      rewrite <- Ek in *. apply (prefix_key S B HB p b); assumption.
    - intros ->. unfold mkkey. replace (rev p ++ [0; 0]) with ((rev p ++ [0]) ++ [0]) by (rewrite <- app_assoc; reflexivity).
      apply is_prefix_app. eauto.
  Qed.
End Top.

(* ---- statements not proved (kept at full strength) -------------------------------------------------- *)
(* 1. navigation, downward half: getChildren of a node other than root2 is exactly the set of its children *)
Definition xbw_getChildren_spec_full : Prop :=
  forall S d n k c, valid_set S -> xbw_check S d = true ->
    nthN (rows_of (trie_blocks S)) n = Some (k, c) -> 1 <= n -> c <> 255 ->
    exists ini fin, xbw_getChildren d n = Some (ini, fin) /\ ini <= fin /\
      forall i k' c', nthN (rows_of (trie_blocks S)) i = Some (k', c') -> (ini <= i <= fin <-> k' = c :: k).

(* 4. the prefix iterators *)
Definition xbw_locatePrefix_spec_full : Prop :=
  forall S d p, valid_set S -> xbw_check S d = true -> p <> [] -> Forall qchar p ->
    exists ids, xbw_locatePrefix d p (3 + length S) = Some (ids, false) /\ NoDup ids /\
      forall id, In id ids <-> exists s, In s S /\ is_prefix p s = true /\ id = spec_locate (xbw_order S) s.

Definition xbw_extractPrefix_spec_full : Prop :=
  forall S d p, valid_set S -> xbw_check S d = true -> p <> [] -> Forall qchar p -> lenN p <= spec_maxlen S + 2 ->
    exists l, xbw_extractPrefix d p (3 + length S) = Some (l, false) /\
      Permutation (map fst l) (filter (is_prefix p) S) /\ forall s n, In (s, n) l -> n = lenN s.

(* ---- defects of the C++ reproduced by the faithful model -------------------------------------------- *)
Definition ex_mapping (tab : list (N * N)) : list N :=
  map (fun i => match find (fun e => fst e =? i) tab with Some e => snd e | None => 0 end) (map N.of_nat (seq 0 257)).

(* the object the real code builds (and reloads) for S = {"a"}: dump of xbw_build 61 *)
Definition ex1_S : list str := [[97]].
Definition ex1_d : option xbw :=
  xbw_load 4 (ex_mapping [(0, 1); (97, 2); (255, 3); (256, 4)]) [1; 1; 2; 3]
    [false; true; true; true] [true; false; false; true; true] 1 2.

(* locate("") is a false positive: the empty string is not a member, the answer is n *)
Theorem xbw_locate_empty_refuted :
  exists S d, valid_set S /\ xbw_check S d = true /\ ~ In [] S /\ xbw_locate d [] = Some 1.
Proof.
  destruct ex1_d as [d|] eqn:E; [|vm_compute in E; discriminate].
  exists ex1_S, d. vm_compute in E. injection E as <-. split; [|split; [|split]].
  - split; [discriminate|]. split; [|constructor]. constructor; [|constructor]. split; [discriminate|].
    constructor; [|constructor]. unfold valid_byte. lia.
  - vm_compute. reflexivity.
  - intros [H|[]]. discriminate.
  - vm_compute. reflexivity.
Qed.

(* extractPrefix copies the pattern into a buffer of maxlength + 1 bytes: a longer pattern overflows it *)
Theorem xbw_extractPrefix_long_refuted :
  exists S d p, valid_set S /\ xbw_check S d = true /\ Forall qchar p /\ xbw_extractPrefix d p 4 = None.
Proof.
  destruct ex1_d as [d|] eqn:E; [|vm_compute in E; discriminate].
  exists ex1_S, d, [97; 97; 97; 97]. vm_compute in E. injection E as <-. split; [|split; [|split]].
  - split; [discriminate|]. split; [|constructor]. constructor; [|constructor]. split; [discriminate|].
    constructor; [|constructor]. unfold valid_byte. lia.
  - vm_compute. reflexivity.
  - repeat constructor; unfold qchar; lia.
  - vm_compute. reflexivity.
Qed.
