(* XBW dictionary: the public methods of the current tree (after commits 9d5d76b and 0064a33). *)
From LibCSD Require Import Base Bytes BitRGDefs Spec SpecProofs XBWDefs XBWProofs.
Require Import Permutation.
Local Open Scope N_scope.

Section Api.
  Variables (S : list str) (d : xbw).
  Hypothesis HV : valid_set S.
  Hypothesis HC : xbw_check S d = true.

  Lemma empty_not_member : ~ In [] S.
  Proof.
    destruct HV as (_ & HF & _). intros Hin. rewrite Forall_forall in HF.
    destruct (HF [] Hin) as [Hne _]. apply Hne. reflexivity.
  Qed.

  (* locate, for EVERY pattern without the bytes 0x00 / 0xFF, the empty one included *)
  Theorem XBW_locate_api_spec q : Forall qchar q -> xbw_locate_api d q = Some (spec_locate (xbw_order S) q).
  Proof.
    intros Hq. unfold xbw_locate_api. destruct q as [|c q'].
    - cbn. f_equal. symmetry. apply spec_locate_absent. intros Hin. apply empty_not_member.
      apply (Permutation_in _ (Permutation_sym (XBW_order_perm S d HV HC))). exact Hin.
    - replace (lenN (c :: q') =? 0) with false
        by (symmetry; apply N.eqb_neq; unfold lenN; cbn [length]; lia).
      apply (XBW_locate_spec S d HV HC). discriminate. exact Hq.
  Qed.

  Theorem XBW_locate_api_member s : In s S ->
    exists id, 1 <= id <= lenN S /\ xbw_locate_api d s = Some id /\ xbw_extract d id = Some (Some s).
  Proof.
    intros Hs. destruct (XBW_locate_member S d HV HC s Hs) as (id & Hr & Hl & He).
    exists id. split; [exact Hr|]. split; [|exact He]. unfold xbw_locate_api.
    destruct s as [|c s']; [exfalso; apply empty_not_member; exact Hs|].
    replace (lenN (c :: s') =? 0) with false
      by (symmetry; apply N.eqb_neq; unfold lenN; cbn [length]; lia). exact Hl.
  Qed.

  Theorem XBW_locate_api_absent q : Forall qchar q -> ~ In q S -> xbw_locate_api d q = Some 0.
  Proof.
    intros Hq Hn. rewrite XBW_locate_api_spec by exact Hq. f_equal. apply spec_locate_absent.
    intros Hin. apply Hn. apply (Permutation_in _ (Permutation_sym (XBW_order_perm S d HV HC))). exact Hin.
  Qed.
End Api.
