(* C18 -- proofs about CodesDefs.v *)
From LibCSD Require Import Base CodesDefs.
From Coq Require Import Sorted Lia ZifyBool ZifyNat ZifyN.
Ltac Zify.zify_post_hook ::= Z.to_euclidean_division_equations.
Local Open Scope N_scope.

(* ------------------------------------------------------------------ vocabulary *)

Definition is_prefix (a b : list bool) : Prop := exists r, b = a ++ r.

Definition bits_lt (a b : list bool) : Prop := bits_ltb a b = true.

(* no codeword of the list is a prefix of a codeword at another position *)
Definition prefix_free (cs : list code) : Prop :=
  forall i j ci cj, nth_error cs i = Some ci -> nth_error cs j = Some cj -> is_prefix ci cj -> i = j.

(* Kraft equality, scaled by 2^D, no division *)
Definition complete (cs : list code) : Prop :=
  exists D : nat, Forall (fun c => (length c <= D)%nat) cs /\ kraft_sum D cs = 2 ^ N.of_nat D.

(* symbol order = codeword order (as bit strings) *)
Definition alphabetic (cs : list code) : Prop :=
  forall i j ci cj, nth_error cs i = Some ci -> nth_error cs j = Some cj -> (i < j)%nat -> bits_lt ci cj.

Lemma prefixb_spec a b : prefixb a b = true <-> is_prefix a b.
Proof.
  revert b; induction a as [|x a IH]; intros b; simpl.
  - split; [intros _; exists b; reflexivity | reflexivity].
  - destruct b as [|y b].
    + split; [discriminate | intros [r Hr]; discriminate].
    + rewrite andb_true_iff, IH. split.
      * intros [E [r ->]]. apply Bool.eqb_prop in E. subst. exists r. reflexivity.
      * intros [r Hr]. simpl in Hr. injection Hr as -> ->. split; [apply Bool.eqb_reflx | exists r; reflexivity].
Qed.

Lemma is_prefix_refl a : is_prefix a a.
Proof. exists []. symmetry. apply app_nil_r. Qed.

Lemma is_prefix_app a r : is_prefix a (a ++ r).
Proof. exists r. reflexivity. Qed.

Lemma is_prefix_cons x a y b : is_prefix (x :: a) (y :: b) <-> x = y /\ is_prefix a b.
Proof.
  split.
  - intros [r Hr]. simpl in Hr. injection Hr as -> ->. split; [reflexivity | exists r; reflexivity].
  - intros [-> [r ->]]. exists r. reflexivity.
Qed.

(* two prefixes of the same string are comparable *)
Lemma prefixes_comparable a b l : is_prefix a l -> is_prefix b l -> is_prefix a b \/ is_prefix b a.
Proof.
  revert b l; induction a as [|x a IH]; intros b l Ha Hb.
  - left. exists b. reflexivity.
  - destruct b as [|y b]; [right; exists (x :: a); reflexivity|].
    destruct l as [|z l]; [destruct Ha as [r Hr]; discriminate|].
    apply is_prefix_cons in Ha. apply is_prefix_cons in Hb.
    destruct Ha as [-> Ha], Hb as [-> Hb].
    destruct (IH b l Ha Hb) as [H|H]; [left|right]; apply is_prefix_cons; auto.
Qed.

Lemma is_prefix_antisym_len a b : is_prefix a b -> (length b <= length a)%nat -> a = b.
Proof.
  intros [r ->] H. rewrite app_length in H. destruct r; [symmetry; apply app_nil_r | simpl in H; lia].
Qed.

(* ------------------------------------------------------------------ A. trees *)

Lemma codes_leaves t : map fst (codes_of_tree t) = leaves t.
Proof.
  induction t as [s|l IHl r IHr]; [reflexivity|].
  cbn [codes_of_tree leaves]. rewrite map_app, !map_map. cbn [fst].
  rewrite <- IHl, <- IHr. reflexivity.
Qed.

Lemma in_codes_node s c l r :
  In (s, c) (codes_of_tree (Node l r)) <->
  (exists c', c = false :: c' /\ In (s, c') (codes_of_tree l)) \/
  (exists c', c = true :: c' /\ In (s, c') (codes_of_tree r)).
Proof.
  cbn [codes_of_tree]. rewrite in_app_iff, !in_map_iff. split.
  - intros [[[s' c'] [E H]]|[[s' c'] [E H]]]; cbn [fst snd] in E; injection E as -> <-; [left|right]; eauto.
  - intros [[c' [-> H]]|[c' [-> H]]]; [left|right]; exists (s, c'); auto.
Qed.

(* A1: no codeword is a prefix of another (holds for every binary tree; if a leaf path is a prefix of
   a leaf path they are the same leaf) *)
Theorem tree_code_prefix_free t s1 c1 s2 c2 :
  In (s1, c1) (codes_of_tree t) -> In (s2, c2) (codes_of_tree t) -> is_prefix c1 c2 ->
  s1 = s2 /\ c1 = c2.
Proof.
  revert s1 c1 s2 c2; induction t as [s|l IHl r IHr]; intros s1 c1 s2 c2 H1 H2 P.
  - simpl in H1, H2. destruct H1 as [H1|[]], H2 as [H2|[]]. injection H1 as <- <-. injection H2 as <- <-. auto.
  - apply in_codes_node in H1. apply in_codes_node in H2.
    destruct H1 as [[a [-> H1]]|[a [-> H1]]], H2 as [[b [-> H2]]|[b [-> H2]]];
      apply is_prefix_cons in P; destruct P as [E P]; try discriminate.
    + destruct (IHl _ _ _ _ H1 H2 P) as [-> ->]. auto.
    + destruct (IHr _ _ _ _ H1 H2 P) as [-> ->]. auto.
Qed.

Lemma tree_codes_prefix_free_list t : prefix_free (map snd (codes_of_tree t)).
Proof.
  intros i j ci cj Hi Hj P.
  rewrite nth_error_map in Hi, Hj.
  destruct (nth_error (codes_of_tree t) i) as [[si ci']|] eqn:Ei; [|discriminate].
  destruct (nth_error (codes_of_tree t) j) as [[sj cj']|] eqn:Ej; [|discriminate].
  cbn in Hi, Hj. injection Hi as ->. injection Hj as ->.
  (* positions: induction on the tree, again *)
  revert i j si ci sj cj Ei Ej P. induction t as [s|l IHl r IHr]; intros i j si ci sj cj Ei Ej P.
  - destruct i as [|i]; [|destruct i; discriminate]. destruct j as [|j]; [reflexivity|destruct j; discriminate].
  - cbn [codes_of_tree] in Ei, Ej.
    set (L := map (fun p : N * code => (fst p, false :: snd p)) (codes_of_tree l)) in *.
    assert (HL : length L = length (codes_of_tree l)) by (unfold L; apply map_length).
    destruct (Nat.lt_ge_cases i (length L)) as [Hi|Hi], (Nat.lt_ge_cases j (length L)) as [Hj|Hj].
    + rewrite nth_error_app1 in Ei, Ej by assumption. unfold L in Ei, Ej. rewrite nth_error_map in Ei, Ej.
      destruct (nth_error (codes_of_tree l) i) as [[a ca]|] eqn:Ea; [|cbn in Ei, Ej; discriminate].
      destruct (nth_error (codes_of_tree l) j) as [[b cb]|] eqn:Eb; [|cbn in Ei, Ej; discriminate].
      cbn in Ei, Ej. injection Ei as <- <-. injection Ej as <- <-.
      apply is_prefix_cons in P. destruct P as [_ P]. eapply IHl; eauto.
    + rewrite nth_error_app1 in Ei by assumption. rewrite nth_error_app2 in Ej by assumption.
      unfold L in Ei. rewrite nth_error_map in Ei, Ej.
      destruct (nth_error (codes_of_tree l) i) as [[a ca]|]; [|cbn in Ei, Ej; discriminate].
      destruct (nth_error (codes_of_tree r) (j - length L)) as [[b cb]|]; [|cbn in Ei, Ej; discriminate].
      cbn in Ei, Ej. injection Ei as <- <-. injection Ej as <- <-.
      apply is_prefix_cons in P. destruct P as [E _]. discriminate.
    + rewrite nth_error_app2 in Ei by assumption. rewrite nth_error_app1 in Ej by assumption.
      unfold L in Ej. rewrite nth_error_map in Ei, Ej.
      destruct (nth_error (codes_of_tree r) (i - length L)) as [[a ca]|]; [|cbn in Ei, Ej; discriminate].
      destruct (nth_error (codes_of_tree l) j) as [[b cb]|]; [|cbn in Ei, Ej; discriminate].
      cbn in Ei, Ej. injection Ei as <- <-. injection Ej as <- <-.
      apply is_prefix_cons in P. destruct P as [E _]. discriminate.
    + rewrite nth_error_app2 in Ei, Ej by assumption. rewrite nth_error_map in Ei, Ej.
      destruct (nth_error (codes_of_tree r) (i - length L)) as [[a ca]|] eqn:Ea; [|cbn in Ei, Ej; discriminate].
      destruct (nth_error (codes_of_tree r) (j - length L)) as [[b cb]|] eqn:Eb; [|cbn in Ei, Ej; discriminate].
      cbn in Ei, Ej. injection Ei as <- <-. injection Ej as <- <-.
      apply is_prefix_cons in P. destruct P as [_ P].
      assert (i - length L = j - length L)%nat by (eapply IHr; eauto). lia.
Qed.

(* A2: Kraft equality *)
Lemma kraft_sum_app D a b : kraft_sum D (a ++ b) = kraft_sum D a + kraft_sum D b.
Proof. induction a as [|c a IH]; cbn [kraft_sum app]; [reflexivity | rewrite IH; lia]. Qed.

Lemma kraft_sum_cons_bit D b cs :
  kraft_sum (S D) (map (fun p : N * code => b :: snd p) cs) = kraft_sum D (map snd cs).
Proof.
  induction cs as [|p cs IH]; [reflexivity|].
  cbn [map kraft_sum length]. rewrite IH. reflexivity.
Qed.

Lemma codes_len_le_height t : Forall (fun c => (length c <= height t)%nat) (map snd (codes_of_tree t)).
Proof.
  induction t as [s|l IHl r IHr]; [repeat constructor|].
  cbn [codes_of_tree height]. rewrite map_app, !map_map. cbn [snd].
  apply Forall_app; split; apply Forall_map.
  - rewrite Forall_map in IHl. eapply Forall_impl; [|exact IHl]. cbn. intros; lia.
  - rewrite Forall_map in IHr. eapply Forall_impl; [|exact IHr]. cbn. intros; lia.
Qed.

Theorem tree_code_complete t D :
  (height t <= D)%nat -> kraft_sum D (map snd (codes_of_tree t)) = 2 ^ N.of_nat D.
Proof.
  revert D; induction t as [s|l IHl r IHr]; intros D H.
  - cbn. rewrite Nat.sub_0_r. lia.
  - cbn [height] in H. destruct D as [|D]; [lia|].
    cbn [codes_of_tree]. rewrite map_app, !map_map, kraft_sum_app. cbn [snd].
    rewrite (kraft_sum_cons_bit D false), (kraft_sum_cons_bit D true).
    rewrite IHl, IHr by lia.
    replace (N.of_nat (S D)) with (N.succ (N.of_nat D)) by lia. rewrite N.pow_succ_r'. lia.
Qed.

Corollary tree_codes_complete t : complete (map snd (codes_of_tree t)).
Proof. exists (height t). split; [apply codes_len_le_height | apply tree_code_complete; lia]. Qed.

(* A3: ordered tree => alphabetic code *)
Lemma bits_ltb_cons b a c : bits_ltb (b :: a) (b :: c) = bits_ltb a c.
Proof. cbn. rewrite Bool.eqb_reflx. reflexivity. Qed.

Lemma sorted_app_inv (a b : list N) :
  StronglySorted N.lt (a ++ b) ->
  StronglySorted N.lt a /\ StronglySorted N.lt b /\ forall x y, In x a -> In y b -> x < y.
Proof.
  induction a as [|h a IH]; intros H.
  - split; [constructor|]. split; [exact H|]. intros x y [].
  - cbn in H. inversion H as [|? ? Hs Hf]; subst. destruct (IH Hs) as [Ha [Hb Hab]].
    rewrite Forall_app in Hf. destruct Hf as [Hfa Hfb].
    split; [constructor; assumption|]. split; [assumption|].
    intros x y [<-|Hx] Hy; [rewrite Forall_forall in Hfb; auto | auto].
Qed.

Lemma in_codes_leaves t s c : In (s, c) (codes_of_tree t) -> In s (leaves t).
Proof. intros H. rewrite <- codes_leaves. apply (in_map fst) in H. exact H. Qed.

Theorem ordered_tree_alphabetic t :
  StronglySorted N.lt (leaves t) ->
  forall s1 c1 s2 c2, In (s1, c1) (codes_of_tree t) -> In (s2, c2) (codes_of_tree t) ->
                      s1 < s2 -> bits_lt c1 c2.
Proof.
  induction t as [s|l IHl r IHr]; intros S s1 c1 s2 c2 H1 H2 L.
  - simpl in H1, H2. destruct H1 as [H1|[]], H2 as [H2|[]]. injection H1 as <- <-. injection H2 as <- <-. lia.
  - cbn [leaves] in S. apply sorted_app_inv in S. destruct S as [Sl [Sr Slr]].
    apply in_codes_node in H1. apply in_codes_node in H2. unfold bits_lt.
    destruct H1 as [[a [-> H1]]|[a [-> H1]]], H2 as [[b [-> H2]]|[b [-> H2]]].
    + rewrite bits_ltb_cons. apply (IHl Sl _ _ _ _ H1 H2 L).
    + reflexivity.
    + apply in_codes_leaves in H1. apply in_codes_leaves in H2. specialize (Slr _ _ H2 H1). lia.
    + rewrite bits_ltb_cons. apply (IHr Sr _ _ _ _ H1 H2 L).
Qed.

(* A4: unique decodability *)
Lemma tree_walk_code t s c rest : In (s, c) (codes_of_tree t) -> tree_walk t (c ++ rest) = Some (s, rest).
Proof.
  revert c; induction t as [s'|l IHl r IHr]; intros c H.
  - simpl in H. destruct H as [H|[]]. injection H as <- <-. reflexivity.
  - apply in_codes_node in H. destruct H as [[a [-> H]]|[a [-> H]]]; cbn; auto.
Qed.

Lemma lookup_code_in cs s c : lookup_code cs s = Some c -> In (s, c) cs.
Proof.
  induction cs as [|[s' c'] cs IH]; [discriminate|]. cbn [lookup_code].
  destruct (N.eqb_spec s' s) as [->|]; intros H; [injection H as ->; left; reflexivity | right; auto].
Qed.

Lemma lookup_code_some cs s : In s (map fst cs) -> exists c, lookup_code cs s = Some c.
Proof.
  induction cs as [|[s' c'] cs IH]; [intros []|]. cbn [lookup_code map fst].
  destruct (N.eqb_spec s' s) as [->|Hn]; [eauto|]. intros [E|H]; [congruence | auto].
Qed.

Theorem tree_decode_encode t syms rest :
  Forall (fun s => In s (leaves t)) syms ->
  exists bs, tree_encode t syms = Some bs /\
             tree_decode t (length syms) (bs ++ rest) = syms.
Proof.
  unfold tree_encode. induction 1 as [|s syms Hs Hr IH].
  - exists []. split; reflexivity.
  - destruct IH as [bs [E D]]. rewrite <- codes_leaves in Hs.
    destruct (lookup_code_some _ _ Hs) as [c Hc].
    exists (c ++ bs). cbn [encode_with length tree_decode]. rewrite Hc, E. split; [reflexivity|].
    rewrite <- app_assoc, (tree_walk_code t s c) by (apply lookup_code_in; exact Hc).
    rewrite D. reflexivity.
Qed.
