(* C18 -- proofs about CodesDefs.v *)
From LibCSD Require Import Base CodesDefs.
From Coq Require Import Sorted Lia ZifyBool ZifyNat ZifyN.
Ltac Zify.zify_post_hook ::= Z.to_euclidean_division_equations.
Local Open Scope N_scope.

(* ------------------------------------------------------------------ vocabulary *)

Definition is_prefix (a b : list bool) : Prop := exists r, b = a ++ r.

Definition bits_lt (a b : list bool) : Prop := bits_ltb a b = true.

(* no codeword of the list is a prefix of a codeword at another position *)
Definition prefix_free (cs : list code) : Prop :=
  forall i j ci cj, nth_error cs i = Some ci -> nth_error cs j = Some cj -> is_prefix ci cj -> i = j.

(* Kraft equality, scaled by 2^D, no division *)
Definition complete (cs : list code) : Prop :=
  exists D : nat, Forall (fun c => (length c <= D)%nat) cs /\ kraft_sum D cs = 2 ^ N.of_nat D.

(* symbol order = codeword order (as bit strings) *)
Definition alphabetic (cs : list code) : Prop :=
  forall i j ci cj, nth_error cs i = Some ci -> nth_error cs j = Some cj -> (i < j)%nat -> bits_lt ci cj.

Lemma prefixb_spec a b : prefixb a b = true <-> is_prefix a b.
Proof.
  revert b; induction a as [|x a IH]; intros b; simpl.
  - split; [intros _; exists b; reflexivity | reflexivity].
  - destruct b as [|y b].
    + split; [discriminate | intros [r Hr]; discriminate].
    + rewrite andb_true_iff, IH. split.
      * intros [E [r ->]]. apply Bool.eqb_prop in E. subst. exists r. reflexivity.
      * intros [r Hr]. simpl in Hr. injection Hr as -> ->. split; [apply Bool.eqb_reflx | exists r; reflexivity].
Qed.

Lemma is_prefix_refl a : is_prefix a a.
Proof. exists []. symmetry. apply app_nil_r. Qed.

Lemma is_prefix_app a r : is_prefix a (a ++ r).
Proof. exists r. reflexivity. Qed.

Lemma is_prefix_cons x a y b : is_prefix (x :: a) (y :: b) <-> x = y /\ is_prefix a b.
Proof.
  split.
  - intros [r Hr]. simpl in Hr. injection Hr as -> ->. split; [reflexivity | exists r; reflexivity].
  - intros [-> [r ->]]. exists r. reflexivity.
Qed.

(* two prefixes of the same string are comparable *)
Lemma prefixes_comparable a b l : is_prefix a l -> is_prefix b l -> is_prefix a b \/ is_prefix b a.
Proof.
  revert b l; induction a as [|x a IH]; intros b l Ha Hb.
  - left. exists b. reflexivity.
  - destruct b as [|y b]; [right; exists (x :: a); reflexivity|].
    destruct l as [|z l]; [destruct Ha as [r Hr]; discriminate|].
    apply is_prefix_cons in Ha. apply is_prefix_cons in Hb.
    destruct Ha as [-> Ha], Hb as [-> Hb].
    destruct (IH b l Ha Hb) as [H|H]; [left|right]; apply is_prefix_cons; auto.
Qed.

Lemma is_prefix_antisym_len a b : is_prefix a b -> (length b <= length a)%nat -> a = b.
Proof.
  intros [r ->] H. rewrite app_length in H. destruct r; [symmetry; apply app_nil_r | simpl in H; lia].
Qed.

(* ------------------------------------------------------------------ A. trees *)

Lemma codes_leaves t : map fst (codes_of_tree t) = leaves t.
Proof.
  induction t as [s|l IHl r IHr]; [reflexivity|].
  cbn [codes_of_tree leaves]. rewrite map_app, !map_map. cbn [fst].
  rewrite <- IHl, <- IHr. reflexivity.
Qed.

Lemma in_codes_node s c l r :
  In (s, c) (codes_of_tree (Node l r)) <->
  (exists c', c = false :: c' /\ In (s, c') (codes_of_tree l)) \/
  (exists c', c = true :: c' /\ In (s, c') (codes_of_tree r)).
Proof.
  cbn [codes_of_tree]. rewrite in_app_iff, !in_map_iff. split.
  - intros [[[s' c'] [E H]]|[[s' c'] [E H]]]; cbn [fst snd] in E; injection E as -> <-; [left|right]; eauto.
  - intros [[c' [-> H]]|[c' [-> H]]]; [left|right]; exists (s, c'); auto.
Qed.

(* A1: no codeword is a prefix of another (holds for every binary tree; if a leaf path is a prefix of
   a leaf path they are the same leaf) *)
Theorem tree_code_prefix_free t s1 c1 s2 c2 :
  In (s1, c1) (codes_of_tree t) -> In (s2, c2) (codes_of_tree t) -> is_prefix c1 c2 ->
  s1 = s2 /\ c1 = c2.
Proof.
  revert s1 c1 s2 c2; induction t as [s|l IHl r IHr]; intros s1 c1 s2 c2 H1 H2 P.
  - simpl in H1, H2. destruct H1 as [H1|[]], H2 as [H2|[]]. injection H1 as <- <-. injection H2 as <- <-. auto.
  - apply in_codes_node in H1. apply in_codes_node in H2.
    destruct H1 as [[a [-> H1]]|[a [-> H1]]], H2 as [[b [-> H2]]|[b [-> H2]]];
      apply is_prefix_cons in P; destruct P as [E P]; try discriminate.
    + destruct (IHl _ _ _ _ H1 H2 P) as [-> ->]. auto.
    + destruct (IHr _ _ _ _ H1 H2 P) as [-> ->]. auto.
Qed.

Lemma nth_error_map_some {A B} (f : A -> B) l i y :
  nth_error (map f l) i = Some y -> exists x, nth_error l i = Some x /\ y = f x.
Proof.
  rewrite nth_error_map. destruct (nth_error l i) as [x|]; cbn; [|discriminate].
  intros H. injection H as <-. eauto.
Qed.

Lemma tree_codes_prefix_free_pos t i j si ci sj cj :
  nth_error (codes_of_tree t) i = Some (si, ci) -> nth_error (codes_of_tree t) j = Some (sj, cj) ->
  is_prefix ci cj -> i = j.
Proof.
  revert i j si ci sj cj. induction t as [s|l IHl r IHr]; intros i j si ci sj cj Ei Ej P.
  - destruct i as [|i]; [|destruct i; discriminate]. destruct j as [|j]; [reflexivity|destruct j; discriminate].
  - cbn [codes_of_tree] in Ei, Ej.
    set (L := map (fun p : N * code => (fst p, false :: snd p)) (codes_of_tree l)) in *.
    assert (HL : length L = length (codes_of_tree l)) by (unfold L; apply map_length).
    destruct (Nat.lt_ge_cases i (length L)) as [Hi|Hi], (Nat.lt_ge_cases j (length L)) as [Hj|Hj].
    + rewrite nth_error_app1 in Ei, Ej by assumption. unfold L in Ei, Ej.
      apply nth_error_map_some in Ei. apply nth_error_map_some in Ej.
      destruct Ei as [[a ca] [Ea Ei]], Ej as [[b cb] [Eb Ej]]. cbn in Ei, Ej.
      injection Ei as -> ->. injection Ej as -> ->.
      apply is_prefix_cons in P. destruct P as [_ P]. eapply IHl; eauto.
    + rewrite nth_error_app1 in Ei by assumption. rewrite nth_error_app2 in Ej by assumption.
      unfold L in Ei. apply nth_error_map_some in Ei. apply nth_error_map_some in Ej.
      destruct Ei as [[a ca] [Ea Ei]], Ej as [[b cb] [Eb Ej]]. cbn in Ei, Ej.
      injection Ei as -> ->. injection Ej as -> ->.
      apply is_prefix_cons in P. destruct P as [E _]. discriminate.
    + rewrite nth_error_app2 in Ei by assumption. rewrite nth_error_app1 in Ej by assumption.
      unfold L in Ej. apply nth_error_map_some in Ei. apply nth_error_map_some in Ej.
      destruct Ei as [[a ca] [Ea Ei]], Ej as [[b cb] [Eb Ej]]. cbn in Ei, Ej.
      injection Ei as -> ->. injection Ej as -> ->.
      apply is_prefix_cons in P. destruct P as [E _]. discriminate.
    + rewrite nth_error_app2 in Ei, Ej by assumption.
      apply nth_error_map_some in Ei. apply nth_error_map_some in Ej.
      destruct Ei as [[a ca] [Ea Ei]], Ej as [[b cb] [Eb Ej]]. cbn in Ei, Ej.
      injection Ei as -> ->. injection Ej as -> ->.
      apply is_prefix_cons in P. destruct P as [_ P].
      assert (i - length L = j - length L)%nat by (eapply IHr; eauto). lia.
Qed.

Lemma tree_codes_prefix_free_list t : prefix_free (map snd (codes_of_tree t)).
Proof.
  intros i j ci cj Hi Hj P.
  apply nth_error_map_some in Hi. apply nth_error_map_some in Hj.
  destruct Hi as [[si ci'] [Ei ->]], Hj as [[sj cj'] [Ej ->]].
  eapply tree_codes_prefix_free_pos; eauto.
Qed.

(* A2: Kraft equality *)
Lemma kraft_sum_app D a b : kraft_sum D (a ++ b) = kraft_sum D a + kraft_sum D b.
Proof. induction a as [|c a IH]; cbn [kraft_sum app]; [reflexivity | rewrite IH; lia]. Qed.

Lemma kraft_sum_cons_bit D b cs :
  kraft_sum (S D) (map (fun p : N * code => b :: snd p) cs) = kraft_sum D (map snd cs).
Proof.
  induction cs as [|p cs IH]; [reflexivity|].
  cbn [map kraft_sum length]. rewrite IH. reflexivity.
Qed.

Lemma codes_len_le_height t : Forall (fun c => (length c <= height t)%nat) (map snd (codes_of_tree t)).
Proof.
  induction t as [s|l IHl r IHr]; [repeat constructor|].
  cbn [codes_of_tree height]. rewrite map_app, !map_map. cbn [snd].
  apply Forall_app; split; apply Forall_map.
  - rewrite Forall_map in IHl. eapply Forall_impl; [|exact IHl]. intros a Ha; cbn [length] in *; lia.
  - rewrite Forall_map in IHr. eapply Forall_impl; [|exact IHr]. intros a Ha; cbn [length] in *; lia.
Qed.

Theorem tree_code_complete t D :
  (height t <= D)%nat -> kraft_sum D (map snd (codes_of_tree t)) = 2 ^ N.of_nat D.
Proof.
  revert D; induction t as [s|l IHl r IHr]; intros D H.
  - cbn. rewrite Nat.sub_0_r. lia.
  - cbn [height] in H. destruct D as [|D]; [lia|].
    cbn [codes_of_tree]. rewrite map_app, !map_map, kraft_sum_app. cbn [snd].
    rewrite (kraft_sum_cons_bit D false), (kraft_sum_cons_bit D true).
    rewrite IHl, IHr by lia.
    replace (N.of_nat (S D)) with (N.succ (N.of_nat D)) by lia. rewrite N.pow_succ_r'. lia.
Qed.

Corollary tree_codes_complete t : complete (map snd (codes_of_tree t)).
Proof. exists (height t). split; [apply codes_len_le_height | apply tree_code_complete; lia]. Qed.

(* A3: ordered tree => alphabetic code *)
Lemma bits_ltb_cons b a c : bits_ltb (b :: a) (b :: c) = bits_ltb a c.
Proof. cbn. rewrite Bool.eqb_reflx. reflexivity. Qed.

Lemma sorted_app_inv (a b : list N) :
  StronglySorted N.lt (a ++ b) ->
  StronglySorted N.lt a /\ StronglySorted N.lt b /\ forall x y, In x a -> In y b -> x < y.
Proof.
  induction a as [|h a IH]; intros H.
  - split; [constructor|]. split; [exact H|]. intros x y [].
  - cbn in H. inversion H as [|? ? Hs Hf]; subst. destruct (IH Hs) as [Ha [Hb Hab]].
    rewrite Forall_app in Hf. destruct Hf as [Hfa Hfb].
    split; [constructor; assumption|]. split; [assumption|].
    intros x y [<-|Hx] Hy; [rewrite Forall_forall in Hfb; auto | auto].
Qed.

Lemma in_codes_leaves t s c : In (s, c) (codes_of_tree t) -> In s (leaves t).
Proof. intros H. rewrite <- codes_leaves. apply (in_map fst) in H. exact H. Qed.

Theorem ordered_tree_alphabetic t :
  StronglySorted N.lt (leaves t) ->
  forall s1 c1 s2 c2, In (s1, c1) (codes_of_tree t) -> In (s2, c2) (codes_of_tree t) ->
                      s1 < s2 -> bits_lt c1 c2.
Proof.
  induction t as [s|l IHl r IHr]; intros S s1 c1 s2 c2 H1 H2 L.
  - simpl in H1, H2. destruct H1 as [H1|[]], H2 as [H2|[]]. injection H1 as <- <-. injection H2 as <- <-. lia.
  - cbn [leaves] in S. apply sorted_app_inv in S. destruct S as [Sl [Sr Slr]].
    apply in_codes_node in H1. apply in_codes_node in H2. unfold bits_lt.
    destruct H1 as [[a [-> H1]]|[a [-> H1]]], H2 as [[b [-> H2]]|[b [-> H2]]].
    + rewrite bits_ltb_cons. apply (IHl Sl _ _ _ _ H1 H2 L).
    + reflexivity.
    + apply in_codes_leaves in H1. apply in_codes_leaves in H2. specialize (Slr _ _ H2 H1). lia.
    + rewrite bits_ltb_cons. apply (IHr Sr _ _ _ _ H1 H2 L).
Qed.

(* A4: unique decodability *)
Lemma tree_walk_code t s c rest : In (s, c) (codes_of_tree t) -> tree_walk t (c ++ rest) = Some (s, rest).
Proof.
  revert c; induction t as [s'|l IHl r IHr]; intros c H.
  - simpl in H. destruct H as [H|[]]. injection H as <- <-. reflexivity.
  - apply in_codes_node in H. destruct H as [[a [-> H]]|[a [-> H]]]; cbn; auto.
Qed.

Lemma lookup_code_in cs s c : lookup_code cs s = Some c -> In (s, c) cs.
Proof.
  induction cs as [|[s' c'] cs IH]; [discriminate|]. cbn [lookup_code].
  destruct (N.eqb_spec s' s) as [->|]; intros H; [injection H as ->; left; reflexivity | right; auto].
Qed.

Lemma lookup_code_some cs s : In s (map fst cs) -> exists c, lookup_code cs s = Some c.
Proof.
  induction cs as [|[s' c'] cs IH]; [intros []|]. cbn [lookup_code map fst].
  destruct (N.eqb_spec s' s) as [->|Hn]; [eauto|]. intros [E|H]; [congruence | auto].
Qed.

Theorem tree_decode_encode t syms rest :
  Forall (fun s => In s (leaves t)) syms ->
  exists bs, tree_encode t syms = Some bs /\
             tree_decode t (length syms) (bs ++ rest) = syms.
Proof.
  unfold tree_encode. induction 1 as [|s syms Hs Hr IH].
  - exists []. split; reflexivity.
  - destruct IH as [bs [E D]]. rewrite <- codes_leaves in Hs.
    destruct (lookup_code_some _ _ Hs) as [c Hc].
    exists (c ++ bs). cbn [encode_with length tree_decode]. rewrite Hc, E. split; [reflexivity|].
    rewrite <- app_assoc, (tree_walk_code t s c) by (apply lookup_code_in; exact Hc).
    rewrite D. reflexivity.
Qed.

(* ------------------------------------------------------------------ B. codeword tables *)

Lemma bits_of_length n v : length (bits_of n v) = n.
Proof. induction n; cbn [bits_of length]; auto. Qed.

Lemma cw_bits_length c : length (cw_bits c) = N.to_nat (snd c).
Proof. apply bits_of_length. Qed.

(* --- prefix-freeness *)
Lemma pf_aux_lt l : pf_aux l = true ->
  forall i j ci cj, (i < j)%nat -> nth_error l i = Some ci -> nth_error l j = Some cj ->
                    ~ is_prefix ci cj /\ ~ is_prefix cj ci.
Proof.
  induction l as [|c r IH]; intros H i j ci cj L Hi Hj.
  - destruct i; discriminate.
  - cbn [pf_aux] in H. apply andb_true_iff in H. destruct H as [Hc Hr].
    destruct j as [|j]; [lia|]. cbn [nth_error] in Hj.
    destruct i as [|i].
    + cbn in Hi. injection Hi as ->. rewrite forallb_forall in Hc.
      specialize (Hc cj (nth_error_In _ _ Hj)). apply andb_true_iff in Hc. destruct Hc as [A B].
      apply negb_true_iff in A, B. split; intros P; apply prefixb_spec in P; congruence.
    + cbn [nth_error] in Hi. apply (IH Hr i j); auto. lia.
Qed.

Lemma pf_aux_sound l : pf_aux l = true -> prefix_free l.
Proof.
  intros H i j ci cj Hi Hj P.
  destruct (Nat.lt_total i j) as [L|[E|L]]; [|exact E|].
  - destruct (pf_aux_lt l H i j ci cj L Hi Hj) as [A _]. contradiction.
  - destruct (pf_aux_lt l H j i cj ci L Hj Hi) as [_ A]. contradiction.
Qed.

Theorem check_prefix_free_sound cws : check_prefix_free cws = true -> prefix_free (table_codes cws).
Proof. apply pf_aux_sound. Qed.

(* --- completeness (Kraft equality) *)
Lemma max_bits_ge cws c : In c cws -> snd c <= max_bits cws.
Proof.
  induction cws as [|d cws IH]; [intros []|]. cbn [max_bits fold_right].
  intros [->|H]; [lia|]. specialize (IH H). unfold max_bits in IH. lia.
Qed.

Theorem check_complete_sound cws : check_complete cws = true -> complete (table_codes cws).
Proof.
  unfold check_complete. intros H. apply N.eqb_eq in H.
  exists (N.to_nat (max_bits cws)). split.
  - unfold table_codes. apply Forall_map. apply Forall_forall. intros c Hc.
    rewrite cw_bits_length. pose proof (max_bits_ge cws c Hc). lia.
  - rewrite N2Nat.id. exact H.
Qed.

(* --- alphabetic order *)
Lemma bits_ltb_trans a b c : bits_ltb a b = true -> bits_ltb b c = true -> bits_ltb a c = true.
Proof.
  revert b c; induction a as [|x a IH]; intros b c H1 H2.
  - destruct b; [discriminate|]. destruct c; [discriminate|reflexivity].
  - destruct b as [|y b]; [discriminate|]. destruct c as [|z c]; [discriminate|].
    cbn [bits_ltb] in *.
    destruct x, y, z; cbn in *; try discriminate; try reflexivity; eauto.
Qed.

Lemma bits_ltb_irrefl a : bits_ltb a a = false.
Proof. induction a as [|x a IH]; [reflexivity|]. cbn. rewrite Bool.eqb_reflx. exact IH. Qed.

Lemma alpha_aux_cons c r :
  alpha_aux (c :: r) = true -> Forall (fun d => bits_ltb c d = true) r /\ alpha_aux r = true.
Proof.
  revert c; induction r as [|d r IH]; intros c H; [split; [constructor|reflexivity]|].
  change (alpha_aux (c :: d :: r)) with (bits_ltb c d && alpha_aux (d :: r)) in H.
  apply andb_true_iff in H. destruct H as [Hcd Hr]. destruct (IH d Hr) as [Fd _].
  split; [|exact Hr]. constructor; [exact Hcd|].
  eapply Forall_impl; [|exact Fd]. cbn. intros e He. eapply bits_ltb_trans; eauto.
Qed.

Lemma alpha_aux_sound l : alpha_aux l = true -> alphabetic l.
Proof.
  induction l as [|c r IH]; intros H i j ci cj Hi Hj L.
  - destruct i; discriminate.
  - destruct (alpha_aux_cons c r H) as [Fc Hr].
    destruct j as [|j]; [lia|]. cbn [nth_error] in Hj. destruct i as [|i].
    + cbn in Hi. injection Hi as ->. rewrite Forall_forall in Fc. apply Fc. eapply nth_error_In; eauto.
    + cbn [nth_error] in Hi. apply (IH Hr i j); auto. lia.
Qed.

Theorem check_alphabetic_sound cws : check_alphabetic cws = true -> alphabetic (table_codes cws).
Proof. apply alpha_aux_sound. Qed.

(* --- lengths *)
Definition lengths_ok (cws : list cw) : Prop :=
  Forall (fun c => 1 <= snd c <= 32 /\ fst c < 2 ^ snd c) cws.

Theorem check_lengths_sound cws : check_lengths cws = true -> lengths_ok cws.
Proof.
  unfold check_lengths, lengths_ok. rewrite forallb_forall, Forall_forall.
  intros H c Hc. specialize (H c Hc). lia.
Qed.

(* --- table decoding inverts encoding *)
Lemma skipn_app_len {A} (a b : list A) : skipn (length a) (a ++ b) = b.
Proof. induction a; cbn; auto. Qed.

Lemma match_first_hit codes : forall k x c bs,
  (forall i ci, (i < x)%nat -> nth_error codes i = Some ci -> prefixb ci bs = false) ->
  nth_error codes x = Some c -> prefixb c bs = true ->
  match_first codes k bs = Some (k + N.of_nat x, skipn (length c) bs).
Proof.
  induction codes as [|d codes IH]; intros k x c bs Hlt Hx Hp.
  - destruct x; discriminate.
  - cbn [match_first]. destruct x as [|x].
    + cbn in Hx. injection Hx as ->. rewrite Hp. repeat f_equal. lia.
    + rewrite (Hlt 0%nat d) by (try lia; reflexivity). cbn [nth_error] in Hx.
      rewrite (IH (k + 1) x c bs); auto.
      * do 2 f_equal. lia.
      * intros i ci Hi Hci. apply (Hlt (S i) ci); [lia | exact Hci].
Qed.

Lemma match_first_code codes x c rest :
  prefix_free codes -> nth_error codes x = Some c ->
  match_first codes 0 (c ++ rest) = Some (N.of_nat x, rest).
Proof.
  intros PF Hx.
  rewrite (match_first_hit codes 0 x c (c ++ rest)); auto.
  - rewrite skipn_app_len. reflexivity.
  - intros i ci Hi Hci. destruct (prefixb ci (c ++ rest)) eqn:E; [|reflexivity].
    apply prefixb_spec in E.
    destruct (prefixes_comparable ci c (c ++ rest) E (is_prefix_app c rest)) as [P|P].
    + pose proof (PF i x ci c Hci Hx P). lia.
    + pose proof (PF x i c ci Hx Hci P). lia.
  - apply prefixb_spec, is_prefix_app.
Qed.

(* what a valid symbol string is for a table *)
Definition sym_ok (cws : list cw) (x : N) : Prop := exists c, nthN cws x = Some c /\ 0 < snd c.

Lemma nthN_table_codes cws x c : nthN cws x = Some c -> nth_error (table_codes cws) (N.to_nat x) = Some (cw_bits c).
Proof. unfold nthN, table_codes. intros H. rewrite nth_error_map, H. reflexivity. Qed.

Lemma encode_bits_cons cws x s :
  encode_bits cws (x :: s) =
  match option_map cw_bits (nthN cws x), encode_bits cws s with
  | Some c, Some bs => Some (c ++ bs) | _, _ => None end.
Proof. reflexivity. Qed.

Lemma encode_bits_total cws s : Forall (sym_ok cws) s -> exists bs, encode_bits cws s = Some bs.
Proof.
  induction 1 as [|x s [c [Hc _]] _ [bs IH]]; [exists []; reflexivity|].
  rewrite encode_bits_cons, Hc, IH. cbn. eauto.
Qed.

Lemma encode_bits_len cws s bs : Forall (sym_ok cws) s -> encode_bits cws s = Some bs -> (length s <= length bs)%nat.
Proof.
  intros F; revert bs; induction F as [|x s [c [Hc Hpos]] _ IH]; intros bs E.
  - cbn. lia.
  - rewrite encode_bits_cons, Hc in E. cbn [option_map] in E.
    destruct (encode_bits cws s) as [bs'|]; [|discriminate]. injection E as <-.
    specialize (IH _ eq_refl). rewrite app_length, cw_bits_length. cbn [length]. lia.
Qed.

Lemma decode_bits_aux_encode cws s : prefix_free (table_codes cws) -> Forall (sym_ok cws) s ->
  forall bs fuel, encode_bits cws s = Some bs -> (length bs <= fuel)%nat ->
  decode_bits_aux (table_codes cws) fuel bs = s.
Proof.
  intros PF F; induction F as [|x s [c [Hc Hpos]] _ IH]; intros bs fuel E L.
  - cbn in E. injection E as <-. destruct fuel; reflexivity.
  - rewrite encode_bits_cons, Hc in E. cbn [option_map] in E.
    destruct (encode_bits cws s) as [bs'|]; [|discriminate]. injection E as <-.
    assert (Hl : (1 <= length (cw_bits c))%nat) by (rewrite cw_bits_length; lia).
    rewrite app_length in L.
    destruct fuel as [|fuel]; [lia|]. cbn [decode_bits_aux].
    destruct (cw_bits c ++ bs') as [|b0 t] eqn:Eb; [destruct (cw_bits c); [cbn in Hl; lia | discriminate]|].
    rewrite <- Eb. rewrite (match_first_code _ (N.to_nat x) (cw_bits c) bs' PF (nthN_table_codes _ _ _ Hc)).
    rewrite N2Nat.id. f_equal. apply IH; [reflexivity | lia].
Qed.

Theorem table_decode_encode cws s :
  check_prefix_free cws = true -> Forall (sym_ok cws) s ->
  exists bs, encode_bits cws s = Some bs /\ decode_bits cws bs = s.
Proof.
  intros PF F. destruct (encode_bits_total cws s F) as [bs E]. exists bs. split; [exact E|].
  unfold decode_bits. eapply decode_bits_aux_encode; eauto. apply check_prefix_free_sound, PF.
Qed.

(* decoding a stream of NUL-terminated strings stops exactly after the requested number of NULs *)
Inductive terminated : list N -> nat -> Prop :=
| term_nil : terminated [] 0
| term_zero s n : terminated s n -> terminated (0 :: s) (S n)
| term_nz x s n : x <> 0 -> terminated s (S n) -> terminated (x :: s) (S n).

Lemma terminated_app a n b m : terminated a n -> terminated b m -> terminated (a ++ b) (n + m).
Proof.
  induction 1 as [| s n Ha IH | x s n Hx Ha IH]; intros Hb; cbn [app Nat.add]; auto.
  - constructor. auto.
  - constructor; auto.
Qed.

Lemma terminated_string s : ~ In 0 s -> terminated (s ++ [0]) 1.
Proof.
  induction s as [|x s IH]; intros H; cbn [app].
  - repeat constructor.
  - apply term_nz; [intros ->; apply H; left; reflexivity | apply IH; intros H'; apply H; right; exact H'].
Qed.

Lemma decode_until0_encode cws s nul : prefix_free (table_codes cws) -> Forall (sym_ok cws) s ->
  terminated s nul ->
  forall bs rest fuel, encode_bits cws s = Some bs -> (length s <= fuel)%nat ->
  decode_until0_aux (table_codes cws) fuel nul (bs ++ rest) = Some (s, rest).
Proof.
  intros PF F T; revert F; induction T as [| s n T IH | x s n Hx T IH]; intros F bs rest fuel E L.
  - cbn in E. injection E as <-. destruct fuel; reflexivity.
  - inversion F as [|? ? [c [Hc Hpos]] F']; subst.
    rewrite encode_bits_cons, Hc in E. cbn [option_map] in E.
    destruct (encode_bits cws s) as [bs'|]; [|discriminate]. injection E as <-.
    cbn [length] in L. destruct fuel as [|fuel]; [lia|]. cbn [decode_until0_aux].
    rewrite <- app_assoc.
    rewrite (match_first_code _ (N.to_nat 0) (cw_bits c) (bs' ++ rest) PF (nthN_table_codes _ _ _ Hc)).
    cbn [N.to_nat N.of_nat N.eqb]. rewrite (IH F' bs' rest fuel eq_refl) by lia. reflexivity.
  - inversion F as [|? ? [c [Hc Hpos]] F']; subst.
    rewrite encode_bits_cons, Hc in E. cbn [option_map] in E.
    destruct (encode_bits cws s) as [bs'|]; [|discriminate]. injection E as <-.
    cbn [length] in L. destruct fuel as [|fuel]; [lia|]. cbn [decode_until0_aux].
    rewrite <- app_assoc.
    rewrite (match_first_code _ (N.to_nat x) (cw_bits c) (bs' ++ rest) PF (nthN_table_codes _ _ _ Hc)).
    rewrite N2Nat.id. destruct (N.eqb_spec x 0) as [->|_]; [contradiction|].
    rewrite (IH F' bs' rest fuel eq_refl) by lia. reflexivity.
Qed.

(* ------------------------------------------------------------------ C. StatCoder bit packing *)

Lemma bits_of_split a b v :
  bits_of (a + b) v = bits_of a (v / 2 ^ N.of_nat b) ++ bits_of b v.
Proof.
  induction a as [|a IH]; [reflexivity|].
  cbn [Nat.add bits_of app]. rewrite IH. f_equal.
  rewrite N.div_pow2_bits. f_equal. lia.
Qed.

Lemma bits_of_mod n m v : (n <= m)%nat -> bits_of n (v mod 2 ^ N.of_nat m) = bits_of n v.
Proof.
  induction n as [|n IH]; intros H; [reflexivity|].
  cbn [bits_of]. rewrite IH by lia. f_equal. apply N.mod_pow2_bits_low. lia.
Qed.

Lemma bits_of_zero n : bits_of n 0 = repeat false n.
Proof. induction n as [|n IH]; [reflexivity|]. cbn [bits_of repeat]. rewrite IH, N.bits_0. reflexivity. Qed.

(* hi * 2^b + lo, lo < 2^b : the bits of hi followed by the b bits of lo *)
Lemma bits_of_join a b hi lo : lo < 2 ^ N.of_nat b ->
  bits_of (a + b) (hi * 2 ^ N.of_nat b + lo) = bits_of a hi ++ bits_of b lo.
Proof.
  intros H. rewrite bits_of_split. f_equal.
  - f_equal. rewrite N.div_add_l by (apply N.pow_nonzero; lia). rewrite N.div_small by assumption. lia.
  - rewrite <- (bits_of_mod b b) by lia. f_equal.
    rewrite N.add_comm, N.mod_add by (apply N.pow_nonzero; lia). apply N.mod_small. assumption.
Qed.

Lemma bits_of_modN n r v : (n <= N.to_nat r)%nat -> bits_of n (v mod 2 ^ r) = bits_of n v.
Proof. intros H. rewrite <- (N2Nat.id r). apply bits_of_mod. exact H. Qed.

Lemma bits_of_joinN a b hi lo : lo < 2 ^ b ->
  bits_of (a + N.to_nat b) (hi * 2 ^ b + lo) = bits_of a hi ++ bits_of (N.to_nat b) lo.
Proof.
  intros H. pose proof (bits_of_join a (N.to_nat b) hi lo) as J. rewrite N2Nat.id in J. apply J. exact H.
Qed.

Lemma bits_of_splitN a b v :
  bits_of (a + N.to_nat b) v = bits_of a (v / 2 ^ b) ++ bits_of (N.to_nat b) v.
Proof. rewrite bits_of_split, N2Nat.id. reflexivity. Qed.

Lemma lor_hi_lo hi lo k : lo < 2 ^ k -> N.lor (hi * 2 ^ k) lo = hi * 2 ^ k + lo.
Proof.
  intros H. apply lor_disjoint_add. rewrite N.land_comm, <- N.shiftl_mul_pow2.
  apply land_low_shiftl. exact H.
Qed.

Lemma shl32_low x r : r <= 32 -> shl32 x (32 - r) = (x mod 2 ^ r) * 2 ^ (32 - r).
Proof.
  intros H. unfold shl32.
  replace (2 ^ 32) with (2 ^ r * 2 ^ (32 - r)) by (rewrite <- N.pow_add_r; f_equal; lia).
  rewrite N.mul_mod_distr_r; try (apply N.pow_nonzero; lia). reflexivity.
Qed.

(* a whole byte's worth: the top k = 8 - off bits of the r remaining bits *)
Lemma code_byte_full cwd bits p off : bits <= 32 -> p <= bits -> off < 8 -> 8 - off <= bits - p ->
  code_byte cwd bits p off = (cwd mod 2 ^ (bits - p)) / 2 ^ (bits - p - (8 - off)).
Proof.
  intros Hb Hp Ho Hk. unfold code_byte.
  set (r := bits - p) in *. set (k := 8 - off) in *.
  replace (32 - bits + p) with (32 - r) by lia. rewrite shl32_low by lia.
  set (m := cwd mod 2 ^ r).
  replace (24 + off) with (32 - k) by lia.
  replace (2 ^ (32 - k)) with (2 ^ (r - k) * 2 ^ (32 - r)) by (rewrite <- N.pow_add_r; f_equal; lia).
  rewrite N.div_mul_cancel_r; try (apply N.pow_nonzero; lia).
  apply N.mod_small.
  assert (m < 2 ^ r) by (apply N.mod_lt, N.pow_nonzero; lia).
  assert (m / 2 ^ (r - k) < 2 ^ k).
  { apply N.div_lt_upper_bound; [apply N.pow_nonzero; lia|]. rewrite <- N.pow_add_r.
    replace (r - k + k) with r by lia. assumption. }
  assert (2 ^ k <= 2 ^ 8) by (apply N.pow_le_mono_r; lia). change (2 ^ 8) with 256 in *. lia.
Qed.

(* the trailing bits: the r < 8 - off remaining bits, left-aligned below the [off] used ones *)
Lemma code_byte_part cwd bits p off : bits <= 32 -> p < bits -> off < 8 -> bits - p < 8 - off ->
  code_byte cwd bits p off = (cwd mod 2 ^ (bits - p)) * 2 ^ (8 - off - (bits - p)).
Proof.
  intros Hb Hp Ho Hk. unfold code_byte.
  set (r := bits - p) in *. set (k := 8 - off) in *.
  replace (32 - bits + p) with (32 - r) by lia. rewrite shl32_low by lia.
  set (m := cwd mod 2 ^ r).
  replace (24 + off) with (32 - k) by lia.
  replace (2 ^ (32 - r)) with (2 ^ (k - r) * 2 ^ (32 - k)) by (rewrite <- N.pow_add_r; f_equal; lia).
  rewrite N.mul_assoc, N.div_mul by (apply N.pow_nonzero; lia).
  apply N.mod_small.
  assert (m < 2 ^ r) by (apply N.mod_lt, N.pow_nonzero; lia).
  assert (m * 2 ^ (k - r) < 2 ^ r * 2 ^ (k - r)) by (apply N.mul_lt_mono_pos_r; [apply pow2_pos | assumption]).
  rewrite <- N.pow_add_r in H0. replace (r + (k - r)) with k in H0 by lia.
  assert (2 ^ k <= 2 ^ 8) by (apply N.pow_le_mono_r; lia). change (2 ^ 8) with 256 in *. lia.
Qed.

(* representation invariant: [pre] is the bit string written so far *)
Definition pinv (st : pstate) (pre : list bool) : Prop :=
  let '(out, cur, off) := st in
  exists hi, off < 8 /\ hi < 2 ^ off /\ cur = hi * 2 ^ (8 - off) /\
             pre = bits_of_bytes out ++ bits_of (N.to_nat off) hi.

Lemma pinv_init : pinv ([], 0, 0) [].
Proof. exists 0. repeat split; cbn; lia. Qed.

Lemma bits_of_bytes_app a b : bits_of_bytes (a ++ b) = bits_of_bytes a ++ bits_of_bytes b.
Proof. unfold bits_of_bytes. apply flat_map_app. Qed.

Lemma pack_loop_spec fuel : forall cwd bits p st pre,
  bits <= 32 -> p <= bits -> pinv st pre -> (bits - p) + snd st < 8 * N.of_nat fuel ->
  pinv (pack_loop fuel cwd bits p st) (pre ++ bits_of (N.to_nat (bits - p)) cwd).
Proof.
  induction fuel as [|fuel IH]; intros cwd bits p [[out cur] off] pre Hb Hp Hinv Hf.
  - cbn [snd] in Hf. lia.
  - cbn [snd] in Hf. destruct Hinv as [hi [Ho [Hhi [Hcur Hpre]]]].
    cbn [pack_loop]. destruct (N.leb_spec (8 - off) (bits - p)) as [Hk|Hk].
    + (* one more byte completed *)
      rewrite code_byte_full by lia.
      set (r := bits - p) in *. set (k := 8 - off) in *. set (m := cwd mod 2 ^ r).
      assert (Hm : m / 2 ^ (r - k) < 2 ^ k).
      { apply N.div_lt_upper_bound; [apply N.pow_nonzero; lia|]. rewrite <- N.pow_add_r.
        replace (r - k + k) with r by lia. apply N.mod_lt, N.pow_nonzero; lia. }
      rewrite Hcur, lor_hi_lo by exact Hm.
      assert (E : bits_of (N.to_nat r) cwd =
                  bits_of (N.to_nat k) (m / 2 ^ (r - k)) ++ bits_of (N.to_nat (r - k)) cwd).
      { rewrite <- (bits_of_modN (N.to_nat r) r cwd) by lia. fold m.
        replace (N.to_nat r) with (N.to_nat k + N.to_nat (r - k))%nat by lia.
        rewrite bits_of_splitN. f_equal.
        unfold m. apply bits_of_modN. lia. }
      rewrite E, app_assoc.
      replace (N.to_nat (r - k)) with (N.to_nat (bits - (p + k))) by lia.
      apply IH; try lia.
      * exists 0. repeat split; try (cbn; lia).
        rewrite bits_of_bytes_app, Hpre, <- !app_assoc. f_equal.
        change (bits_of (N.to_nat 0) 0) with (@nil bool).
        unfold bits_of_bytes. cbn [flat_map]. rewrite !app_nil_r.
        replace 8%nat with (N.to_nat off + N.to_nat k)%nat by lia.
        symmetry. apply bits_of_joinN. exact Hm.
      * cbn [snd]. lia.
    + destruct (N.ltb_spec p bits) as [Hlt|Hge].
      * (* trailing bits *)
        rewrite code_byte_part by lia.
        set (r := bits - p) in *. set (k := 8 - off) in *. set (m := cwd mod 2 ^ r).
        assert (Hm : m < 2 ^ r) by (apply N.mod_lt, N.pow_nonzero; lia).
        assert (Hm2 : m * 2 ^ (k - r) < 2 ^ k).
        { replace k with (r + (k - r)) at 2 by lia. rewrite N.pow_add_r.
          apply N.mul_lt_mono_pos_r; [apply pow2_pos | assumption]. }
        rewrite Hcur, lor_hi_lo by exact Hm2.
        exists (hi * 2 ^ r + m). split; [lia|]. split; [|split].
        -- rewrite N.pow_add_r. nia.
        -- replace (8 - (off + r)) with (k - r) by lia.
           replace (2 ^ k) with (2 ^ r * 2 ^ (k - r)) by (rewrite <- N.pow_add_r; f_equal; lia). nia.
        -- rewrite Hpre, <- app_assoc. f_equal.
           replace (N.to_nat (off + r)) with (N.to_nat off + N.to_nat r)%nat by lia.
           rewrite bits_of_joinN by exact Hm.
           f_equal. unfold m. symmetry. apply bits_of_modN. lia.
      * replace (bits - p) with 0 by lia. cbn [N.to_nat bits_of]. rewrite app_nil_r.
        exists hi. auto.
Qed.

Lemma pack_symbol_spec c st pre : 1 <= snd c <= 32 -> pinv st pre ->
  pinv (pack_symbol c st) (pre ++ cw_bits c).
Proof.
  intros Hc Hinv. unfold pack_symbol, cw_bits.
  replace (snd c) with (snd c - 0) at 2 by lia.
  apply pack_loop_spec; try lia; auto.
  destruct st as [[out cur] off]. destruct Hinv as [hi [Ho _]]. cbn [snd]. lia.
Qed.

(* C1: the packed bits are exactly the concatenated codewords, from ANY starting state *)
Theorem pack_bits cws s : lengths_ok cws -> forall st st' pre,
  pinv st pre -> pack_symbols cws s st = Some st' ->
  exists enc, encode_bits cws s = Some enc /\ pinv st' (pre ++ enc).
Proof.
  intros LO. induction s as [|x s IH]; intros st st' pre Hinv H.
  - cbn in H. injection H as <-. exists []. rewrite app_nil_r. auto.
  - cbn [pack_symbols] in H. destruct (nthN cws x) as [c|] eqn:Hc; [|discriminate].
    assert (Hok : 1 <= snd c <= 32).
    { unfold lengths_ok in LO. rewrite Forall_forall in LO. apply LO. eapply nth_error_In. exact Hc. }
    destruct (IH _ _ _ (pack_symbol_spec c st pre Hok Hinv) H) as [enc [E Hinv']].
    exists (cw_bits c ++ enc). rewrite encode_bits_cons, Hc, E. cbn [option_map].
    rewrite app_assoc. auto.
Qed.

Lemma pack_symbols_total cws s st : Forall (fun x => x < lenN cws) s -> exists st', pack_symbols cws s st = Some st'.
Proof.
  intros F; revert st; induction F as [|x s Hx _ IH]; intros st; [eexists; reflexivity|].
  cbn [pack_symbols]. destruct (nthN_lt_Some cws x Hx) as [c ->]. apply IH.
Qed.

Definition padding (st : pstate) : list bool :=
  let '(_, _, off) := st in if 0 <? off then repeat false (N.to_nat (8 - off)) else [].

Lemma final_bytes_bits st pre : pinv st pre -> bits_of_bytes (final_bytes st) = pre ++ padding st.
Proof.
  destruct st as [[out cur] off]. intros [hi [Ho [Hhi [Hcur Hpre]]]]. cbn [final_bytes padding].
  destruct (N.ltb_spec 0 off) as [Hp|Hz].
  - rewrite bits_of_bytes_app, Hpre, <- app_assoc. f_equal.
    cbn [bits_of_bytes flat_map]. rewrite app_nil_r, Hcur.
    replace 8%nat with (N.to_nat off + N.to_nat (8 - off))%nat by lia.
    replace (hi * 2 ^ (8 - off)) with (hi * 2 ^ (8 - off) + 0) by lia.
    rewrite bits_of_joinN by apply pow2_pos.
    rewrite bits_of_zero. reflexivity.
  - assert (off = 0) by lia. subst off. cbn in Hpre. rewrite !app_nil_r in *. symmetry. exact Hpre.
Qed.

Theorem pack_bits_bytes cws s st st' pre : lengths_ok cws -> pinv st pre -> pack_symbols cws s st = Some st' ->
  exists enc, encode_bits cws s = Some enc /\
              bits_of_bytes (final_bytes st') = pre ++ enc ++ padding st' /\
              8 * lenN (fst (fst st')) + snd st' = N.of_nat (length pre + length enc).
Proof.
  intros LO Hinv H. destruct (pack_bits cws s LO st st' pre Hinv H) as [enc [E Hinv']].
  exists enc. split; [exact E|]. split.
  - rewrite (final_bytes_bits st' _ Hinv'), app_assoc. reflexivity.
  - destruct st' as [[out cur] off]. destruct Hinv' as [hi [Ho [_ [_ Hpre]]]]. cbn [fst snd].
    rewrite <- app_length, Hpre, app_length, bits_of_length.
    assert (L : forall l, length (bits_of_bytes l) = (8 * length l)%nat).
    { induction l as [|b l IHl]; [reflexivity|]. unfold bits_of_bytes in *. cbn [flat_map].
      rewrite app_length, bits_of_length, IHl. cbn [length]. lia. }
    rewrite L. unfold lenN. lia.
Qed.

(* encodeString: starts on a byte boundary *)
Corollary pack_string_bits cws s bytes off : lengths_ok cws -> pack_string cws s = Some (bytes, off) ->
  exists enc, encode_bits cws s = Some enc /\
              bits_of_bytes bytes = enc ++ repeat false (N.to_nat ((8 - off) mod 8)) /\
              off = N.of_nat (length enc) mod 8.
Proof.
  unfold pack_string. intros LO H.
  destruct (pack_symbols cws s ([], 0, 0)) as [st'|] eqn:E; [|discriminate]. injection H as <- <-.
  destruct (pack_bits_bytes cws s _ st' [] LO pinv_init E) as [enc [Ee [Hb Hl]]].
  destruct (pack_bits cws s LO _ st' [] pinv_init E) as [enc' [Ee' Hinv]].
  exists enc. split; [exact Ee|]. cbn [app] in Hb. rewrite Hb.
  destruct st' as [[out cur] o]. destruct Hinv as [hi [Ho _]]. cbn [fst snd padding length Nat.add] in *.
  split.
  - f_equal. destruct (N.ltb_spec 0 o).
    + rewrite N.mod_small by lia. reflexivity.
    + replace o with 0 by lia. reflexivity.
  - rewrite <- Hl. rewrite N.add_comm, N.mul_comm, N.mod_add by lia. symmetry. apply N.mod_small. exact Ho.
Qed.

Lemma sym_ok_of_lengths cws s : lengths_ok cws -> Forall (fun x => x < lenN cws) s -> Forall (sym_ok cws) s.
Proof.
  intros LO F. eapply Forall_impl; [|exact F]. cbn. intros x Hx.
  destruct (nthN_lt_Some cws x Hx) as [c Hc]. exists c. split; [exact Hc|].
  unfold lengths_ok in LO. rewrite Forall_forall in LO.
  assert (1 <= snd c <= 32 /\ fst c < 2 ^ snd c) by (apply LO; eapply nth_error_In; exact Hc). lia.
Qed.

(* C2: round trip at the level of packed bytes, wherever the strings start (any state [st] reached by
   earlier encodeSymbol calls: [pre] = everything written before) and end (zero padding / later data) *)
Theorem C18_bit_roundtrip cws s nul st st' pre :
  check_prefix_free cws = true -> check_lengths cws = true ->
  Forall (fun x => x < lenN cws) s -> terminated s nul ->
  pinv st pre -> pack_symbols cws s st = Some st' ->
  decode_packed cws (final_bytes st') (N.of_nat (length pre)) nul = Some (s, padding st').
Proof.
  intros PF LO F T Hinv H. apply check_prefix_free_sound in PF. apply check_lengths_sound in LO.
  destruct (pack_bits_bytes cws s st st' pre LO Hinv H) as [enc [E [Hb _]]].
  unfold decode_packed. rewrite Hb, Nat2N.id, skipn_app_len.
  pose proof (sym_ok_of_lengths cws s LO F) as SO.
  apply decode_until0_encode; auto.
  rewrite app_length. pose proof (encode_bits_len cws s enc SO E). lia.
Qed.

(* the form the dictionaries use on queries: encodeString(str, strLen + 1) of a NUL-free string *)
Corollary C18_string_roundtrip cws s :
  check_prefix_free cws = true -> check_lengths cws = true ->
  Forall (fun x => x < lenN cws) (s ++ [0]) -> ~ In 0 s ->
  exists bytes off pad, pack_string cws (s ++ [0]) = Some (bytes, off) /\
                        decode_packed cws bytes 0 1 = Some (s ++ [0], pad).
Proof.
  intros PF LO F NZ. destruct (pack_symbols_total cws (s ++ [0]) ([], 0, 0) F) as [st' E].
  exists (final_bytes st'), (snd st'), (padding st'). unfold pack_string. rewrite E. split; [reflexivity|].
  apply (C18_bit_roundtrip cws (s ++ [0]) 1 ([], 0, 0) st' []); auto.
  - apply terminated_string, NZ.
  - apply pinv_init.
Qed.

(* ------------------------------------------------------------------ D. Hu-Tucker recombination *)

Fixpoint seqN (start : N) (n : nat) : list N :=
  match n with O => [] | S k => start :: seqN (start + 1) k end.

Lemma seqN_length a n : length (seqN a n) = n.
Proof. revert a; induction n; intros; cbn; auto. Qed.

Lemma seqN_ge a n x : In x (seqN a n) -> a <= x.
Proof. revert a; induction n as [|n IH]; intros a; [intros []|]. cbn. intros [<-|H]; [lia|]. apply IH in H. lia. Qed.

Lemma seqN_sorted a n : StronglySorted N.lt (seqN a n).
Proof.
  revert a; induction n as [|n IH]; intros a; cbn; constructor; [apply IH|].
  apply Forall_forall. intros x Hx. apply seqN_ge in Hx. lia.
Qed.

Lemma seqN_seq a n : map N.of_nat (seq a n) = seqN (N.of_nat a) n.
Proof.
  revert a; induction n as [|n IH]; intros a; [reflexivity|]. cbn [seq map seqN]. rewrite IH.
  do 2 f_equal. lia.
Qed.

Definition stack_levels (st : rstack) : list (N * Z) :=
  flat_map (fun p => leaf_levels (fst p) (snd p)) (rev st).

Lemma stack_levels_cons t l st : stack_levels ((t, l) :: st) = stack_levels st ++ leaf_levels t l.
Proof. unfold stack_levels. cbn [rev]. rewrite flat_map_app. cbn. rewrite app_nil_r. reflexivity. Qed.

Lemma reduce_levels fuel : forall st, stack_levels (reduce fuel st) = stack_levels st.
Proof.
  induction fuel as [|fuel IH]; intros st; [reflexivity|].
  destruct st as [|[t2 l2] [|[t1 l1] r]]; try reflexivity.
  cbn [reduce]. destruct (Z.eqb_spec l2 l1) as [->|]; [|reflexivity].
  rewrite IH, !stack_levels_cons. cbn [leaf_levels].
  replace (l1 - 1 + 1)%Z with l1 by lia. rewrite app_assoc. reflexivity.
Qed.

Lemma recombine_loop_levels lv : forall cont st,
  stack_levels (recombine_loop lv cont st) = stack_levels st ++ combine (seqN cont (length lv)) lv.
Proof.
  induction lv as [|l lv IH]; intros cont st; cbn [recombine_loop length seqN combine].
  - rewrite app_nil_r. reflexivity.
  - rewrite IH, reduce_levels, stack_levels_cons, <- app_assoc. reflexivity.
Qed.

(* D1: if the stack collapses to a single level-0 node, the tree's leaves, read left to right, are the
   symbols 0..n-1 in order, each at the depth prescribed by the level vector *)
Theorem recombination_sound levels t :
  recombine levels = Some t -> leaf_levels t 0 = combine (seqN 0 (length levels)) levels.
Proof.
  unfold recombine, recombine_stack. destruct levels as [|l0 r]; [discriminate|].
  pose proof (recombine_loop_levels r 1 [(Leaf 0, l0)]) as H.
  destruct (recombine_loop r 1 [(Leaf 0, l0)]) as [|[t' l] rest]; [discriminate|].
  destruct rest; destruct l; try discriminate. intros E. injection E as ->.
  rewrite stack_levels_cons in H. cbn in H. cbn [length seqN combine]. exact H.
Qed.

Lemma leaf_levels_codes t : forall l,
  leaf_levels t l = map (fun p => (fst p, (l + Z.of_nat (length (snd p)))%Z)) (codes_of_tree t).
Proof.
  induction t as [s|a IHa b IHb]; intros l.
  - cbn. repeat f_equal. lia.
  - cbn [leaf_levels codes_of_tree]. rewrite IHa, IHb, map_app, !map_map. cbn [fst snd length].
    f_equal; apply map_ext; intros p; f_equal; lia.
Qed.

Lemma map_fst_combine {A B} (a : list A) (b : list B) : length a = length b -> map fst (combine a b) = a.
Proof. revert b; induction a as [|x a IH]; intros [|y b] H; try discriminate; cbn; [reflexivity|]. f_equal. apply IH. cbn in H. lia. Qed.

Lemma map_snd_combine {A B} (a : list A) (b : list B) : length a = length b -> map snd (combine a b) = b.
Proof. revert b; induction a as [|x a IH]; intros [|y b] H; try discriminate; cbn; [reflexivity|]. f_equal. apply IH. cbn in H. lia. Qed.

Corollary recombination_leaves levels t :
  recombine levels = Some t -> leaves t = seqN 0 (length levels).
Proof.
  intros H. apply recombination_sound in H.
  rewrite <- codes_leaves. apply (f_equal (map fst)) in H.
  rewrite (map_fst_combine (seqN 0 (length levels)) levels (seqN_length _ _)) in H.
  rewrite <- H, leaf_levels_codes, map_map. reflexivity.
Qed.

Corollary recombination_depths levels t :
  recombine levels = Some t -> map (fun p => Z.of_nat (length (snd p))) (codes_of_tree t) = levels.
Proof.
  intros H. apply recombination_sound in H.
  apply (f_equal (map snd)) in H.
  rewrite (map_snd_combine (seqN 0 (length levels)) levels (seqN_length _ _)) in H.
  rewrite <- H, leaf_levels_codes, map_map. reflexivity.
Qed.

(* hence, by A: whenever recombination succeeds the code is alphabetic (and prefix-free, complete) *)
Corollary recombination_alphabetic levels t :
  recombine levels = Some t ->
  forall s1 c1 s2 c2, In (s1, c1) (codes_of_tree t) -> In (s2, c2) (codes_of_tree t) ->
                      s1 < s2 -> bits_lt c1 c2.
Proof.
  intros H. apply ordered_tree_alphabetic. rewrite (recombination_leaves _ _ H). apply seqN_sorted.
Qed.

(* --- the codeword table read off the tree (encodeNode) *)
Lemma code_val_acc_eq c : forall acc, code_val_acc acc c = acc * 2 ^ N.of_nat (length c) + code_val_acc 0 c.
Proof.
  induction c as [|b c IH]; intros acc; [cbn; lia|].
  cbn [code_val_acc length]. rewrite IH, (IH (2 * 0 + _)).
  replace (N.of_nat (S (length c))) with (N.succ (N.of_nat (length c))) by lia. rewrite N.pow_succ_r'. lia.
Qed.

Lemma code_val_lt c : code_val c < 2 ^ N.of_nat (length c).
Proof.
  unfold code_val. induction c as [|b c IH]; [cbn; lia|].
  cbn [code_val_acc length]. rewrite code_val_acc_eq.
  replace (N.of_nat (S (length c))) with (N.succ (N.of_nat (length c))) by lia. rewrite N.pow_succ_r'.
  destruct b; lia.
Qed.

Lemma bits_of_code_val c : bits_of (length c) (code_val c) = c.
Proof.
  induction c as [|b c IH]; [reflexivity|].
  unfold code_val. cbn [code_val_acc length]. rewrite code_val_acc_eq.
  change (S (length c)) with (1 + length c)%nat.
  rewrite bits_of_join by apply code_val_lt. fold (code_val c). rewrite IH.
  destruct b; reflexivity.
Qed.

Lemma cw_bits_of_code c : cw_bits (code_val c, lenN c) = c.
Proof. unfold cw_bits, lenN. cbn [fst snd]. rewrite Nat2N.id. apply bits_of_code_val. Qed.

Lemma lookup_code_nodup cs s c : NoDup (map fst cs) -> In (s, c) cs -> lookup_code cs s = Some c.
Proof.
  induction cs as [|[s' c'] cs IH]; intros ND H; [destruct H|].
  cbn [map fst] in ND. inversion ND as [|? ? Hn ND']; subst. cbn [lookup_code].
  destruct H as [E|H].
  - injection E as -> ->. rewrite N.eqb_refl. reflexivity.
  - destruct (N.eqb_spec s' s) as [->|_]; [|auto].
    exfalso. apply Hn. apply (in_map fst) in H. exact H.
Qed.

Lemma sorted_nodup l : StronglySorted N.lt l -> NoDup l.
Proof.
  induction 1 as [|x l _ IH Hf]; constructor; [|exact IH].
  intros Hx. rewrite Forall_forall in Hf. specialize (Hf x Hx). lia.
Qed.

Lemma table_of_tree_codes t n : leaves t = seqN 0 n ->
  table_codes (table_of_tree t n) = map snd (codes_of_tree t).
Proof.
  intros HL. unfold table_codes, table_of_tree.
  change 0%nat with (N.to_nat 0) at 1. rewrite (seqN_seq (N.to_nat 0) n). cbn [N.to_nat N.of_nat].
  rewrite <- HL, <- codes_leaves, !map_map.
  apply map_ext_in. intros [s c] Hin. cbn [fst snd].
  rewrite (lookup_code_nodup _ s c); [apply cw_bits_of_code | | exact Hin].
  rewrite codes_leaves, HL. apply sorted_nodup, seqN_sorted.
Qed.

(* D2: the table a successful recombination yields passes every property of B *)
Theorem recombination_table_ok levels t :
  recombine levels = Some t ->
  let cs := table_codes (table_of_tree t (length levels)) in
  prefix_free cs /\ complete cs /\ alphabetic cs /\ map (fun c => Z.of_nat (length c)) cs = levels.
Proof.
  intros H cs. unfold cs. rewrite (table_of_tree_codes t _ (recombination_leaves _ _ H)).
  split; [apply tree_codes_prefix_free_list|]. split; [apply tree_codes_complete|]. split.
  - intros i j ci cj Hi Hj L.
    apply nth_error_map_some in Hi. apply nth_error_map_some in Hj.
    destruct Hi as [[si ci'] [Ei ->]], Hj as [[sj cj'] [Ej ->]]. cbn [snd].
    apply (recombination_alphabetic _ _ H si ci' sj cj'); try (eapply nth_error_In; eassumption).
    (* positions are the symbols *)
    pose proof (recombination_leaves _ _ H) as HL. rewrite <- codes_leaves in HL.
    assert (Hs : forall k s c, nth_error (codes_of_tree t) k = Some (s, c) -> s = N.of_nat k).
    { intros k s c Hk. apply (map_nth_error fst) in Hk. rewrite HL in Hk. cbn [fst] in Hk.
      clear - Hk. change (N.of_nat k) with (0 + N.of_nat k). revert Hk. generalize 0 as a.
      revert k. induction (length levels) as [|n IH]; intros k a Hk; [destruct k; discriminate|].
      destruct k as [|k]; cbn in Hk; [injection Hk as <-; lia|]. apply IH in Hk. lia. }
    rewrite (Hs _ _ _ Ei), (Hs _ _ _ Ej). lia.
  - rewrite map_map. apply (recombination_depths _ _ H).
Qed.

(* ------------------------------------------------------------------ E. one step of the chunked table *)

Definition code_at (codes : list code) (s : N) : option code := nth_error codes (N.to_nat s).

(* a populated entry is consistent with the code: its symbols' codewords, concatenated, are the first
   [ebits] bits of the chunk index; a subtree entry is the part of the code tree below that k-bit prefix *)
Definition entry_ok (codes : list code) (k : nat) (idx : N) (e : entry) : Prop :=
  match e with
  | ESyms syms eb => exists enc, encode_with (code_at codes) syms = Some enc /\
                                 N.of_nat (length enc) = eb /\ is_prefix enc (bits_of k idx)
  | ETree sub => forall s c, In (s, c) (codes_of_tree sub) -> code_at codes s = Some (bits_of k idx ++ c)
  end.

Definition entry_count (e : entry) : nat :=
  match e with ESyms syms _ => length syms | ETree _ => 1%nat end.

Lemma bit_steps_encode codes syms : prefix_free codes ->
  forall enc rest, encode_with (code_at codes) syms = Some enc ->
  bit_steps codes (length syms) (enc ++ rest) = Some (syms, rest).
Proof.
  intros PF. induction syms as [|s syms IH]; intros enc rest E.
  - cbn in E. injection E as <-. reflexivity.
  - cbn [encode_with] in E. destruct (code_at codes s) as [c|] eqn:Hc; [|discriminate].
    destruct (encode_with (code_at codes) syms) as [enc'|]; [|discriminate]. injection E as <-.
    cbn [length bit_steps]. rewrite <- app_assoc.
    rewrite (match_first_code codes (N.to_nat s) c (enc' ++ rest) PF Hc), N2Nat.id.
    rewrite (IH enc' rest eq_refl). reflexivity.
Qed.

Lemma tree_walk_inv t : forall bs s rest, tree_walk t bs = Some (s, rest) ->
  exists c, In (s, c) (codes_of_tree t) /\ bs = c ++ rest.
Proof.
  induction t as [s'|l IHl r IHr]; intros bs s rest H.
  - cbn in H. injection H as <- <-. exists []. split; [left; reflexivity | reflexivity].
  - cbn [tree_walk] in H. destruct bs as [|b bs]; [discriminate|]. destruct b.
    + destruct (IHr _ _ _ H) as [c [Hin ->]]. exists (true :: c). split; [|reflexivity].
      apply in_codes_node. right. eauto.
    + destruct (IHl _ _ _ H) as [c [Hin ->]]. exists (false :: c). split; [|reflexivity].
      apply in_codes_node. left. eauto.
Qed.

Lemma chunk_index_bits k bs : (k <= length bs)%nat -> bits_of k (chunk_index k bs) = firstn k bs.
Proof.
  intros H. unfold chunk_index. rewrite firstn_app. replace (k - length bs)%nat with 0%nat by lia.
  cbn [firstn]. rewrite app_nil_r.
  rewrite <- (firstn_length_le bs H) at 1. apply bits_of_code_val.
Qed.

(* E1: whenever the consulted entry is consistent with the code, one table step is exactly
   [entry_count] bit-level decoding steps (same symbols, same remaining bits) *)
Theorem chunk_step_sound codes k tab bs e r :
  prefix_free codes -> (k <= length bs)%nat ->
  tab (chunk_index k bs) = Some e -> entry_ok codes k (chunk_index k bs) e ->
  chunk_step k tab bs = Some r -> bit_steps codes (entry_count e) bs = Some r.
Proof.
  intros PF Hk Ht Hok. unfold chunk_step. rewrite Ht. unfold entry_ok in Hok.
  rewrite (chunk_index_bits k bs Hk) in Hok. destruct e as [syms eb|sub]; cbn [entry_count].
  - destruct Hok as [enc [E [Hl [r1 Hp]]]]. intros H. injection H as <-.
    assert (Hbs : bs = enc ++ (r1 ++ skipn k bs)).
    { rewrite app_assoc, <- Hp. symmetry. apply firstn_skipn. }
    rewrite Hbs at 1. rewrite (bit_steps_encode codes syms PF enc _ E). do 2 f_equal.
    rewrite <- Hl, Nat2N.id. rewrite Hbs at 2. rewrite skipn_app_len. reflexivity.
  - destruct (tree_walk sub (skipn k bs)) as [[s rest]|] eqn:W; [|discriminate].
    intros H. injection H as <-. destruct (tree_walk_inv _ _ _ _ W) as [c [Hin Hs]].
    specialize (Hok s c Hin). cbn [bit_steps].
    assert (Hbs : bs = (firstn k bs ++ c) ++ rest).
    { rewrite <- app_assoc, <- Hs. symmetry. apply firstn_skipn. }
    rewrite Hbs at 1. rewrite (match_first_code codes (N.to_nat s) _ rest PF Hok), N2Nat.id. reflexivity.
Qed.

(* a regular entry never fails *)
Lemma chunk_step_syms k tab bs syms eb :
  tab (chunk_index k bs) = Some (ESyms syms eb) -> chunk_step k tab bs = Some (syms, skipn (N.to_nat eb) bs).
Proof. intros H. unfold chunk_step. rewrite H. reflexivity. Qed.

(* ------------------------------------------------------------------ order of encoded strings *)
(* What HTFC relies on when it compares Hu-Tucker encoded headers bytewise: for an alphabetic prefix-free
   code, two symbol strings that first differ in a < b encode to bit strings in the same order. *)

Lemma encode_with_app f p r encp encr :
  encode_with f p = Some encp -> encode_with f r = Some encr -> encode_with f (p ++ r) = Some (encp ++ encr).
Proof.
  revert encp; induction p as [|x p IH]; intros encp Hp Hr.
  - cbn in Hp. injection Hp as <-. exact Hr.
  - cbn [encode_with app] in *. destruct (f x) as [c|]; [|discriminate].
    destruct (encode_with f p) as [e|]; [|discriminate]. injection Hp as <-.
    rewrite (IH e eq_refl Hr), app_assoc. reflexivity.
Qed.

Lemma encode_with_app_inv f p r enc :
  encode_with f (p ++ r) = Some enc ->
  exists encp encr, encode_with f p = Some encp /\ encode_with f r = Some encr /\ enc = encp ++ encr.
Proof.
  revert enc; induction p as [|x p IH]; intros enc H.
  - exists [], enc. auto.
  - cbn [encode_with app] in *. destruct (f x) as [c|]; [|discriminate].
    destruct (encode_with f (p ++ r)) as [e|] eqn:E; [|discriminate]. injection H as <-.
    destruct (IH e eq_refl) as [encp [encr [Hp [Hr ->]]]]. rewrite Hp.
    exists (c ++ encp), encr. rewrite app_assoc. auto.
Qed.

Lemma bits_ltb_app_common p x y : bits_ltb (p ++ x) (p ++ y) = bits_ltb x y.
Proof. induction p as [|b p IH]; [reflexivity|]. cbn [app]. rewrite bits_ltb_cons. exact IH. Qed.

Lemma bits_ltb_app_decided c : forall d x y,
  bits_ltb c d = true -> ~ is_prefix c d -> bits_ltb (c ++ x) (d ++ y) = true.
Proof.
  induction c as [|h c IH]; intros d x y L NP.
  - exfalso. apply NP. exists d. reflexivity.
  - destruct d as [|h' d]; [discriminate|]. cbn [app bits_ltb] in *.
    destruct (Bool.eqb h h') eqn:E.
    + apply Bool.eqb_prop in E. subst h'. apply IH; [exact L|].
      intros P. apply NP. apply is_prefix_cons. auto.
    + exact L.
Qed.

Theorem alphabetic_encode_monotone codes p a b u v encu encv :
  prefix_free codes -> alphabetic codes -> a < b ->
  encode_with (code_at codes) (p ++ a :: u) = Some encu ->
  encode_with (code_at codes) (p ++ b :: v) = Some encv ->
  bits_lt encu encv.
Proof.
  intros PF AL Hab Hu Hv.
  destruct (encode_with_app_inv _ _ _ _ Hu) as [ep [eu [Hp [Hu' ->]]]].
  destruct (encode_with_app_inv _ _ _ _ Hv) as [ep' [ev [Hp' [Hv' ->]]]].
  rewrite Hp in Hp'. injection Hp' as <-.
  cbn [encode_with] in Hu', Hv'.
  destruct (code_at codes a) as [ca|] eqn:Ha; [|discriminate].
  destruct (code_at codes b) as [cb|] eqn:Hb; [|discriminate].
  destruct (encode_with (code_at codes) u) as [eu'|]; [|discriminate].
  destruct (encode_with (code_at codes) v) as [ev'|]; [|discriminate].
  injection Hu' as <-. injection Hv' as <-.
  unfold bits_lt. rewrite bits_ltb_app_common. apply bits_ltb_app_decided.
  - apply (AL (N.to_nat a) (N.to_nat b) ca cb Ha Hb). lia.
  - intros P. pose proof (PF _ _ _ _ Ha Hb P). lia.
Qed.

(* ------------------------------------------------------------------ D'. the array-level recombination
   (seq[], levels[], stack[] exactly as in HuTucker::recombination) computes the pair-stack model *)

Definition alpha (s : rarr) : rstack :=
  map (fun i => (nth (N.to_nat i) (ra_seq s) (Leaf 0), nth (N.to_nat i) (ra_lev s) 0%Z)) (ra_stack s).

Definition rwf (s : rarr) : Prop :=
  length (ra_seq s) = length (ra_lev s) /\ NoDup (ra_stack s) /\
  Forall (fun i => (N.to_nat i < length (ra_seq s))%nat) (ra_stack s).

Lemma updN_length {A} (l : list A) i v : length (updN l i v) = length l.
Proof. revert i; induction l as [|x l IH]; intros [|i]; cbn; auto. Qed.

Lemma nth_updN_same {A} (l : list A) i v d : (i < length l)%nat -> nth i (updN l i v) d = v.
Proof. revert i; induction l as [|x l IH]; intros [|i] H; cbn in *; try lia; auto. apply IH. lia. Qed.

Lemma nth_updN_other {A} (l : list A) i j v d : i <> j -> nth j (updN l i v) d = nth j l d.
Proof.
  revert i j; induction l as [|x l IH]; intros [|i] [|j] H; cbn; auto; try congruence.
Qed.

Lemma nthN_nth {A} (l : list A) i x d : nthN l i = Some x -> nth (N.to_nat i) l d = x.
Proof. unfold nthN. intros H. apply nth_error_nth. exact H. Qed.

Lemma reduce_arr_refines fuel : forall s, rwf s ->
  exists s', reduce_arr fuel s = Some s' /\ alpha s' = reduce fuel (alpha s) /\ rwf s' /\
             length (ra_seq s') = length (ra_seq s) /\ incl (ra_stack s') (ra_stack s) /\
             (forall k, ~ In (N.of_nat k) (ra_stack s) ->
                        nth k (ra_seq s') (Leaf 0) = nth k (ra_seq s) (Leaf 0) /\
                        nth k (ra_lev s') 0%Z = nth k (ra_lev s) 0%Z).
Proof.
  induction fuel as [|fuel IH]; intros s W.
  - exists s. split; [reflexivity|]. split; [reflexivity|]. split; [exact W|]. split; [reflexivity|]. split; [apply incl_refl|auto].
  - destruct s as [sq lv stk]. destruct W as [WL [WN WF]]. cbn [ra_seq ra_lev ra_stack] in *.
    destruct stk as [|j [|i r]].
    + exists {| ra_seq := sq; ra_lev := lv; ra_stack := [] |}. split; [reflexivity|]. split; [reflexivity|]. split; [repeat split; assumption|]. split; [reflexivity|]. split; [apply incl_refl|auto].
    + exists {| ra_seq := sq; ra_lev := lv; ra_stack := [j] |}. split; [reflexivity|]. split; [reflexivity|]. split; [repeat split; assumption|]. split; [reflexivity|]. split; [apply incl_refl|auto].
    + inversion WF as [|? ? Hj WF']; subst. inversion WF' as [|? ? Hi WF'']; subst.
      inversion WN as [|? ? Nj WN']; subst. inversion WN' as [|? ? Ni WN'']; subst.
      assert (Hjl : j < lenN lv) by (unfold lenN; lia). assert (Hil : i < lenN lv) by (unfold lenN; lia).
      assert (Hjs : j < lenN sq) by (unfold lenN; lia). assert (His : i < lenN sq) by (unfold lenN; lia).
      destruct (nthN_lt_Some lv j Hjl) as [lj Elj]. destruct (nthN_lt_Some lv i Hil) as [li Eli].
      destruct (nthN_lt_Some sq i His) as [ti Eti]. destruct (nthN_lt_Some sq j Hjs) as [tj Etj].
      cbn [reduce_arr ra_stack ra_lev ra_seq]. rewrite Elj, Eli, Eti, Etj.
      unfold alpha at 2. cbn [ra_stack ra_seq ra_lev map reduce].
      rewrite (nthN_nth lv j lj 0%Z Elj), (nthN_nth lv i li 0%Z Eli),
              (nthN_nth sq i ti (Leaf 0) Eti), (nthN_nth sq j tj (Leaf 0) Etj).
      destruct (Z.eqb lj li).
      * set (s1 := {| ra_seq := updN sq (N.to_nat i) (Node ti tj);
                      ra_lev := updN lv (N.to_nat i) (li - 1)%Z; ra_stack := i :: r |}).
        assert (W1 : rwf s1).
        { unfold rwf, s1. cbn [ra_seq ra_lev ra_stack]. rewrite !updN_length. repeat split; auto. }
        destruct (IH s1 W1) as [s' [R [A [W' [L' [I' F']]]]]].
        exists s'. split; [exact R|]. split; [|split; [exact W'|split; [|split]]].
        -- rewrite A. f_equal. unfold alpha, s1. cbn [ra_seq ra_lev ra_stack map].
           rewrite !nth_updN_same by lia. f_equal.
           apply map_ext_in. intros k Hk.
           assert (N.to_nat i <> N.to_nat k) by (intros E; apply Ni; apply N2Nat.inj in E; subst; exact Hk).
           rewrite !nth_updN_other by assumption. reflexivity.
        -- rewrite L'. unfold s1. cbn [ra_seq]. apply updN_length.
        -- intros x Hx. apply I' in Hx. unfold s1 in Hx. cbn [ra_stack] in Hx. right. exact Hx.
        -- intros k Hk. destruct (F' k) as [Fs Fl].
           { unfold s1. cbn [ra_stack]. intros H. apply Hk. right. exact H. }
           rewrite Fs, Fl. unfold s1. cbn [ra_seq ra_lev].
           assert (N.to_nat i <> k) by (intros E; apply Hk; right; left; lia).
           rewrite !nth_updN_other by assumption. auto.
      * exists {| ra_seq := sq; ra_lev := lv; ra_stack := j :: i :: r |}.
        split; [reflexivity|]. split.
        { unfold alpha. cbn [ra_stack ra_seq ra_lev map].
          rewrite (nthN_nth lv j lj 0%Z Elj), (nthN_nth lv i li 0%Z Eli),
                  (nthN_nth sq i ti (Leaf 0) Eti), (nthN_nth sq j tj (Leaf 0) Etj). reflexivity. }
        split; [repeat split; assumption|].
        split; [reflexivity|]. split; [apply incl_refl|auto].
Qed.

Lemma skipn_nth_cons {A} (l : list A) n d : (n < length l)%nat -> skipn n l = nth n l d :: skipn (S n) l.
Proof.
  revert n; induction l as [|x l IH]; intros n H; [cbn in H; lia|].
  destruct n as [|n]; [reflexivity|]. cbn [skipn nth]. apply IH. cbn in H. lia.
Qed.

Lemma recombine_arr_loop_refines levels : forall todo cont s,
  rwf s -> length (ra_seq s) = length levels ->
  (N.to_nat cont + todo = length levels)%nat ->
  Forall (fun i => i < cont) (ra_stack s) ->
  (forall k, (N.to_nat cont <= k < length levels)%nat ->
             nth k (ra_seq s) (Leaf 0) = Leaf (N.of_nat k) /\ nth k (ra_lev s) 0%Z = nth k levels 0%Z) ->
  exists s', recombine_arr_loop todo cont s = Some s' /\ rwf s' /\
             alpha s' = recombine_loop (skipn (N.to_nat cont) levels) cont (alpha s).
Proof.
  induction todo as [|todo IH]; intros cont s W L T B U.
  - exists s. split; [reflexivity|]. split; [exact W|].
    replace (N.to_nat cont) with (length levels) by lia. rewrite skipn_all. reflexivity.
  - cbn [recombine_arr_loop].
    set (sp := {| ra_seq := ra_seq s; ra_lev := ra_lev s; ra_stack := cont :: ra_stack s |}).
    destruct W as [WL [WN WF]].
    assert (Wp : rwf sp).
    { unfold rwf, sp. cbn [ra_seq ra_lev ra_stack]. split; [exact WL|]. split.
      - constructor; [|exact WN]. intros H. rewrite Forall_forall in B. specialize (B _ H). lia.
      - constructor; [lia | exact WF]. }
    destruct (reduce_arr_refines (S (length (ra_stack s))) sp Wp) as [s1 [R [A [W1 [L1 [I1 F1]]]]]].
    rewrite R.
    destruct (IH (cont + 1) s1) as [s' [R' [W' A']]]; auto.
    + rewrite L1. exact L.
    + lia.
    + apply Forall_forall. intros x Hx. apply I1 in Hx. unfold sp in Hx. cbn [ra_stack] in Hx.
      destruct Hx as [<-|Hx]; [lia|]. rewrite Forall_forall in B. specialize (B _ Hx). lia.
    + intros k Hk. destruct (F1 k) as [Fs Fl].
      { unfold sp. cbn [ra_stack]. intros [E|H]; [lia|]. rewrite Forall_forall in B. specialize (B _ H). lia. }
      rewrite Fs, Fl. unfold sp. cbn [ra_seq ra_lev]. apply U. lia.
    + exists s'. split; [exact R'|]. split; [exact W'|]. rewrite A'.
      rewrite (skipn_nth_cons levels (N.to_nat cont) 0%Z) by lia. cbn [recombine_loop].
      replace (N.to_nat (cont + 1)) with (S (N.to_nat cont)) by lia. f_equal.
      assert (Ap : alpha sp = (Leaf cont, nth (N.to_nat cont) levels 0%Z) :: alpha s).
      { unfold alpha, sp. cbn [ra_stack ra_seq ra_lev map].
        destruct (U (N.to_nat cont)) as [Us Ul]; [lia|]. rewrite Us, Ul, N2Nat.id. reflexivity. }
      rewrite A, Ap. unfold alpha. rewrite map_length. reflexivity.
Qed.

Lemma nth_leaf_seq n : forall a k d, (k < n)%nat -> nth k (leaf_seq a n) d = Leaf (a + N.of_nat k).
Proof.
  induction n as [|n IH]; intros a k d H; [lia|]. destruct k as [|k]; cbn [leaf_seq nth].
  - f_equal. lia.
  - rewrite IH by lia. f_equal. lia.
Qed.

Lemma leaf_seq_length a n : length (leaf_seq a n) = n.
Proof. revert a; induction n; intros; cbn; auto. Qed.

(* D3: the array algorithm never reads out of bounds and computes exactly the stack of the pair model *)
Theorem recombine_arr_refines levels : levels <> [] ->
  exists s, recombine_arr levels = Some s /\ rwf s /\ alpha s = recombine_stack levels.
Proof.
  destruct levels as [|l0 r]; [congruence|]. intros _. unfold recombine_arr, recombine_stack.
  set (levels := l0 :: r).
  set (s0 := {| ra_seq := leaf_seq 0 (length levels); ra_lev := levels; ra_stack := [0] |}).
  destruct (recombine_arr_loop_refines levels (length r) 1 s0) as [s' [R [W A]]].
  - unfold rwf, s0. cbn [ra_seq ra_lev ra_stack]. rewrite leaf_seq_length. split; [reflexivity|].
    split; [repeat constructor; intros []|]. constructor; [|constructor]. unfold levels. cbn [length N.to_nat]. lia.
  - unfold s0. cbn [ra_seq]. apply leaf_seq_length.
  - unfold levels. cbn [length]. lia.
  - repeat constructor.
  - intros k Hk. unfold s0. cbn [ra_seq ra_lev]. rewrite nth_leaf_seq by lia. split; [f_equal; lia | reflexivity].
  - exists s'. split; [exact R|]. split; [exact W|]. rewrite A. reflexivity.
Qed.

Corollary recombine_arr_root_eq levels : levels <> [] -> recombine_arr_root levels = recombine_root levels.
Proof.
  intros H. destruct (recombine_arr_refines levels H) as [s [R [W A]]].
  unfold recombine_arr_root, recombine_root. rewrite R, <- A. unfold alpha.
  destruct W as [_ [_ WF]]. destruct (ra_stack s) as [|top rest]; [reflexivity|]. cbn [map].
  inversion WF as [|? ? Ht _]; subst. unfold nthN.
  apply nth_error_nth' with (d := Leaf 0) in Ht. exact Ht.
Qed.
