(* StringDictionaryHTFC (model HTFCDefs.v: the LOADED object, the chunked DecodingTable decoder, the
   advanced/extracted protocol of StatCoder::decodeString, locateBucket's memcmp on Hu-Tucker encoded headers)
   answers extract / locate / locatePrefix as the specification does, on every object certified by the
   verified checker [htfc_check]; the memory-error / fuel results [None] of the model are unreachable.

   Flat view (as in the PFC / RPFC proofs): string number i (0-based) is a bucket header iff i mod b = 0;
   [St i] is the ChunkScan state after string i has been produced (for a header: after decodeHeader +
   resetScan).  Facts that drive everything (certified per object by the checker):
     header : blStrings[k] points at encodeString(h, |h|+1), decodeHeader(k) hands out h
     step   : decodeString in state St i hands out string i+1, returns lcp, and leaves St (i+1). *)
From LibCSD Require Import Base VByteDefs VByteProofs CodesDefs CodesProofs HTCompareProofs.
From LibCSD Require Import Spec SpecProofs PFCDefs PFCLayout LexLemmas PFCBuildProofs PFCExtractProofs
  PFCLocateProofs PFCTheorems PFCPrefixProofs HTFCDefs.
From Coq Require Import Lia ZifyBool ZifyNat ZifyN.
Ltac Zify.zify_post_hook ::= Z.to_euclidean_division_equations.
Local Open Scope N_scope.

(* ====================================================================== *)
(* A. small facts about the model's primitives                             *)
(* ====================================================================== *)
Lemma rdN_nthN {A} (l : list A) i : rdN l i = nthN l i.
Proof.
  unfold rdN. destruct (N.ltb_spec i (lenN l)) as [H|H]; [reflexivity|].
  symmetry. unfold nthN. apply nth_error_None. unfold lenN in H. lia.
Qed.

Lemma hprefix_eqb_sound : forall a t, hprefix_eqb a t = true -> exists r, t = a ++ r.
Proof.
  induction a as [|x a IH]; intros t H; cbn [hprefix_eqb] in H; [exists t; reflexivity|].
  destruct t as [|y t]; [discriminate|]. apply andb_true_iff in H. destruct H as [H1 H2].
  apply N.eqb_eq in H1. subst y. destruct (IH _ H2) as [r ->]. exists r. reflexivity.
Qed.

Lemma hlist_eqb_eq : forall a b, hlist_eqb a b = true -> a = b.
Proof.
  induction a as [|x a IH]; intros [|y b] H; cbn [hlist_eqb] in H; try discriminate; [reflexivity|].
  apply andb_true_iff in H. destruct H as [H1 H2]. apply N.eqb_eq in H1. subst y. f_equal. auto.
Qed.

(* the ChunkScan holds the C string s *)
Definition holds (a : ast) (s : str) : Prop :=
  a_len a = lenN s + 1 /\ lenN s + 1 < 2 ^ 32 /\ exists r, a_buf a = s ++ 0 :: r.

Lemma ast_is_sound a s : ast_is a s = true -> holds a s.
Proof.
  unfold ast_is, holds. intros H. apply andb_true_iff in H. destruct H as [H1 H2].
  apply andb_true_iff in H1. destruct H1 as [H1 H3].
  apply N.eqb_eq in H1. apply N.ltb_lt in H3. split; [exact H1|]. split; [lia|].
  destruct (hprefix_eqb_sound _ _ H2) as [r Hr]. exists r. rewrite Hr, <- app_assoc. reflexivity.
Qed.

Lemma lcp_cmp_app : forall a r b n acc, n <= lenN a -> lcp_cmp (a ++ r) b n acc = lcp_cmp a b n acc.
Proof.
  induction a as [|x a IH]; intros r b n acc Hn.
  - change (lenN (@nil N)) with 0 in Hn. assert (n = 0) by lia. subst n.
    cbn [app]. destruct r; reflexivity.
  - cbn [app lcp_cmp]. destruct (n =? 0) eqn:E0; [reflexivity|].
    destruct b as [|y b]; [reflexivity|]. destruct (x =? y); [|reflexivity].
    apply IH. rewrite lenN_cons in Hn. apply N.eqb_neq in E0. lia.
Qed.

Lemma skipN_app_le {A} (n : N) (a r : list A) : n <= lenN a -> skipN n (a ++ r) = skipN n a ++ r.
Proof.
  intros H. unfold skipN, lenN in *. rewrite skipn_app.
  replace (N.to_nat n - length a)%nat with 0%nat by lia. reflexivity.
Qed.

Lemma lenN_skipN {A} (n : N) (a : list A) : lenN (skipN n a) = lenN a - n.
Proof. unfold lenN, skipN. rewrite skipn_length. lia. Qed.

(* the comparisons of locate / searchPrefix on the scratch buffer = the PFC ones on the string *)
Lemma hcmp_from_cmp_from a s q sh ex : holds a s -> ex <= 1 -> sh <= lenN s ->
  hcmp_from a q sh ex = cmp_from s q sh ex.
Proof.
  intros [Hl [_ [r Hb]]] Hex Hsh. unfold hcmp_from, cmp_from. rewrite Hl, Hb.
  assert (Hlen : lenN (s ++ 0 :: r) = lenN s + 1 + lenN r).
  { rewrite lenN_app, lenN_cons. lia. }
  rewrite Hlen.
  destruct (N.leb_spec (sh + (1 - ex)) (lenN s + 1)); [|lia].
  destruct (N.leb_spec (lenN s + 1) (lenN s + 1 + lenN r)); [|lia].
  destruct (N.leb_spec sh (lenN s)); [|lia]. cbn [andb].
  destruct (sh <=? lenN q); [|reflexivity].
  replace (s ++ 0 :: r) with ((s ++ [0]) ++ r) by (rewrite <- app_assoc; reflexivity).
  rewrite skipN_app_le by (rewrite lenN_app; change (lenN [0]) with 1; lia).
  replace (lenN s + 1 - sh - (1 - ex)) with (lenN s - sh + ex) by lia.
  apply lcp_cmp_app. rewrite lenN_skipN, lenN_app. change (lenN [0]) with 1. lia.
Qed.

(* ====================================================================== *)
(* B. memcmp on the bytes that exist                                       *)
(* ====================================================================== *)
Lemma memcmp_zeros_not_gt : forall m b n r, Forall (fun x => x < 256) b ->
  memcmp_bytes (repeat 0 m) b n = Some r -> r <> Gt.
Proof.
  induction m as [|m IH]; intros b n r Fb H.
  - destruct n; cbn in H; [inversion H; discriminate|discriminate].
  - destruct n as [|n]; [cbn in H; inversion H; discriminate|].
    destruct b as [|y b]; [cbn in H; discriminate|]. cbn [repeat memcmp_bytes] in H.
    inversion Fb as [|? ? Hy Fb']; subst.
    destruct (memcmp_bytes (repeat 0 m) b n) as [r'|] eqn:E; [|discriminate].
    specialize (IH _ _ _ Fb' E).
    destruct (N.compare_spec 0 y) as [e|l|g]; inversion H; subst; [exact IH|discriminate|lia].
Qed.

Lemma memcmp_ffs_not_lt : forall m b n r, Forall (fun x => x < 256) b ->
  memcmp_bytes (repeat 255 m) b n = Some r -> r <> Lt.
Proof.
  induction m as [|m IH]; intros b n r Fb H.
  - destruct n; cbn in H; [inversion H; discriminate|discriminate].
  - destruct n as [|n]; [cbn in H; inversion H; discriminate|].
    destruct b as [|y b]; [cbn in H; discriminate|]. cbn [repeat memcmp_bytes] in H.
    inversion Fb as [|? ? Hy Fb']; subst.
    destruct (memcmp_bytes (repeat 255 m) b n) as [r'|] eqn:E; [|discriminate].
    specialize (IH _ _ _ Fb' E).
    destruct (N.compare_spec 255 y) as [e|l|g]; inversion H; subst; [exact IH|lia|discriminate].
Qed.

Lemma cmp0_cases y : ((0 ?= y) = Eq /\ y = 0) \/ ((0 ?= y) = Lt /\ 0 < y).
Proof. destruct (N.compare_spec 0 y); [left|right|lia]; split; auto. Qed.

Lemma cmpff_cases y : y < 256 -> ((255 ?= y) = Eq /\ y = 255) \/ ((255 ?= y) = Gt /\ y < 255).
Proof. intros H. destruct (N.compare_spec 255 y); [left|lia|right]; split; auto. Qed.

(* if the strict memcmp gives the same answer whether the text is continued with 00.. or with FF.., the
   first difference lies inside the text: the comparison on the existing bytes is decided *)
Lemma memcmp_avail_decided : forall b a m c, Forall (fun x => x < 256) b ->
  memcmp_bytes (a ++ repeat 0 m) b (length b) = Some c ->
  memcmp_bytes (a ++ repeat 255 m) b (length b) = Some c ->
  memcmp_avail a b = Some c.
Proof.
  induction b as [|y b IH]; intros a m c Fb H0 H1.
  - cbn in H0. destruct a; exact H0.
  - inversion Fb as [|? ? Hy Fb']; subst. cbn [length] in H0, H1.
    destruct a as [|x a].
    + exfalso. cbn [app] in H0, H1.
      destruct m as [|m]; [cbn in H0; discriminate|]. cbn [repeat memcmp_bytes] in H0, H1.
      destruct (memcmp_bytes (repeat 0 m) b (length b)) as [r0|] eqn:E0; [|discriminate].
      destruct (memcmp_bytes (repeat 255 m) b (length b)) as [r1|] eqn:E1; [|discriminate].
      pose proof (memcmp_zeros_not_gt _ _ _ _ Fb' E0) as M0.
      pose proof (memcmp_ffs_not_lt _ _ _ _ Fb' E1) as M1.
      destruct (cmp0_cases y) as [[Ez e]|[Ez l]]; rewrite Ez in H0;
        (destruct (cmpff_cases y Hy) as [[Ef e']|[Ef g']]; rewrite Ef in H1);
        injection H0 as A0; injection H1 as A1; try lia; congruence.
    + cbn [app memcmp_bytes memcmp_avail] in *.
      destruct (memcmp_bytes (a ++ repeat 0 m) b (length b)) as [r0|] eqn:E0; [|discriminate].
      destruct (memcmp_bytes (a ++ repeat 255 m) b (length b)) as [r1|] eqn:E1; [|discriminate].
      destruct (x ?= y) eqn:Exy; [|exact H0|exact H0].
      inversion H0; subst. inversion H1; subst. apply (IH a m c Fb' E0 E1).
Qed.

(* the comparison of locateBucket on the bytes that exist: header bytes followed by anything *)
Lemma memcmp_avail_header cws h q bh oh bq oq rest :
  check_prefix_free cws = true -> check_alphabetic cws = true -> check_lengths cws = true ->
  Forall (fun b => b <> 0) h -> Forall (fun b => b <> 0) q ->
  pack_string cws (h ++ [0]) = Some (bh, oh) -> pack_string cws (q ++ [0]) = Some (bq, oq) ->
  Forall (fun x => x < 256) rest ->
  memcmp_avail (bh ++ rest) bq = Some (lex_compare h q).
Proof.
  intros CP CA CL Fh Fq Ph Pq Fr.
  apply (memcmp_avail_decided bq (bh ++ rest) (length bq)).
  - exact (pack_string_bytes _ _ _ _ Pq).
  - rewrite <- app_assoc.
    apply (ht_header_memcmp_cmp cws h q bh oh bq oq (rest ++ repeat 0 (length bq))); auto.
    + apply Forall_app. split; [exact Fr|]. apply Forall_forall. intros x Hx.
      apply repeat_spec in Hx. subst x. lia.
    + rewrite !app_length, repeat_length. lia.
  - rewrite <- app_assoc.
    apply (ht_header_memcmp_cmp cws h q bh oh bq oq (rest ++ repeat 255 (length bq))); auto.
    + apply Forall_app. split; [exact Fr|]. apply Forall_forall. intros x Hx.
      apply repeat_spec in Hx. subst x. lia.
    + rewrite !app_length, repeat_length. lia.
Qed.

(* ====================================================================== *)
(* C. what the checker certifies                                           *)
(* ====================================================================== *)
(* string number i, whose predecessor is [prev] and was produced in state [pst]; [est] = state after it *)
Definition hitem_ok (d : htfc) (b i : N) (prev cur : str) (pst est : bst * ast) : Prop :=
  holds (snd est) cur /\
  if i mod b =? 0 then
    exists off enc o rest st0,
      nthN (h_bl d) (i / b + 1) = Some off /\ pack_string (h_cw d) (cur ++ [0]) = Some (enc, o) /\
      off <= lenN (h_text d) /\ skipN off (h_text d) = enc ++ rest /\
      decode_header d (i / b + 1) = Some st0 /\ reset_scan d (i / b + 1) st0 = Some est
  else decode_string d (str_cap d) (fst pst) (snd pst) = Some (fst est, snd est, lcp prev cur).

Definition hstream_ok (d : htfc) (b : N) (S : list str) (St : N -> bst * ast) : Prop :=
  forall i, i < lenN S -> hitem_ok d b i (snth S (i - 1)) (snth S i) (St (i - 1)) (St i).

Definition code_ok (cws : list cw) : Prop :=
  lenN cws = 256 /\ check_prefix_free cws = true /\ check_alphabetic cws = true /\ check_lengths cws = true /\
  Forall (fun c => snd c < 32) cws.

Definition htfc_ok (d : htfc) (b : N) (S : list str) : Prop :=
  h_bsize d = b /\ 2 <= b /\ b < 2 ^ 32 /\ h_elements d = lenN S /\ lenN S < 2 ^ 32 /\
  h_buckets d = (lenN S + b - 1) / b /\ h_k d = 16 /\ code_ok (h_cw d) /\
  Forall (fun x => x < 256) (h_text d) /\ exists St, hstream_ok d b S St.

Lemma reset_scan_holds d k st0 st1 s : reset_scan d k st0 = Some st1 -> holds (snd st0) s -> holds (snd st1) s.
Proof.
  unfold reset_scan. destruct st0 as [b0 a0]. destruct (rdN (h_bl d) (k + 1)); [|discriminate].
  intros H. inversion H; subst. cbn [snd]. unfold holds. cbn [a_len a_buf]. auto.
Qed.

Lemma htrace_from_sound d b : forall ss i prev pst tr,
  htrace_from d b i prev pst ss = Some tr ->
  length tr = length ss /\
  forall j, (j < length ss)%nat ->
    hitem_ok d b (i + N.of_nat j) (nth j (prev :: ss) []) (nth j ss []) (nth j (pst :: tr) st0_dummy) (nth j tr st0_dummy).
Proof.
  induction ss as [|s r IH]; intros i prev pst tr H; cbn [htrace_from] in H.
  - inversion H; subst. split; [reflexivity|]. intros j Hj. cbn [length] in Hj. lia.
  - assert (Hgen : forall e, hitem_ok d b i prev s pst e ->
              option_map (cons e) (htrace_from d b (i + 1) s e r) = Some tr ->
              length tr = length (s :: r) /\
              forall j, (j < length (s :: r))%nat ->
                hitem_ok d b (i + N.of_nat j) (nth j (prev :: s :: r) []) (nth j (s :: r) [])
                        (nth j (pst :: tr) st0_dummy) (nth j tr st0_dummy)).
    { intros e He Hm. destruct (htrace_from d b (i + 1) s e r) as [tr'|] eqn:Et; [|discriminate].
      cbn [option_map] in Hm. inversion Hm; subst tr. destruct (IH _ _ _ _ Et) as [Hl Hit].
      split; [cbn [length]; lia|]. intros j Hj. destruct j as [|j].
      - cbn [nth]. rewrite N.add_0_r. exact He.
      - cbn [length] in Hj. specialize (Hit j ltac:(lia)).
        replace (i + N.of_nat (Datatypes.S j)) with (i + 1 + N.of_nat j) by lia.
        change (nth (Datatypes.S j) (prev :: s :: r) []) with (nth j (s :: r) []).
        change (nth (Datatypes.S j) (s :: r) []) with (nth j r []).
        change (nth (Datatypes.S j) (pst :: e :: tr') st0_dummy) with (nth j (e :: tr') st0_dummy).
        change (nth (Datatypes.S j) (e :: tr') st0_dummy) with (nth j tr' st0_dummy).
        exact Hit. }
    destruct (i mod b =? 0) eqn:Em.
    + rewrite rdN_nthN in H.
      destruct (nthN (h_bl d) (i / b + 1)) as [off|] eqn:Eo; [|discriminate].
      destruct (pack_string (h_cw d) (s ++ [0])) as [[enc o]|] eqn:Ep; [|discriminate].
      destruct (decode_header d (i / b + 1)) as [st0|] eqn:Eh; [|discriminate].
      destruct (reset_scan d (i / b + 1) st0) as [st1|] eqn:Er; [|discriminate].
      destruct ((off <=? lenN (h_text d)) && hprefix_eqb enc (skipN off (h_text d)) && ast_is (snd st0) s) eqn:Ec;
        [|discriminate].
      apply andb_true_iff in Ec. destruct Ec as [Ec Hast]. apply andb_true_iff in Ec. destruct Ec as [Hle Hpre].
      apply N.leb_le in Hle. destruct (hprefix_eqb_sound _ _ Hpre) as [rest Hrest].
      apply ast_is_sound in Hast.
      refine (Hgen _ _ H). unfold hitem_ok. rewrite Em. split; [exact (reset_scan_holds _ _ _ _ _ Er Hast)|].
      exists off, enc, o, rest, st0. repeat split; assumption.
    + destruct (decode_string d (str_cap d) (fst pst) (snd pst)) as [[[b' a'] shared]|] eqn:Ed; [|discriminate].
      destruct ((shared =? lcp prev s) && ast_is a' s) eqn:Ec; [|discriminate].
      apply andb_true_iff in Ec. destruct Ec as [Hsh Hast]. apply N.eqb_eq in Hsh. subst shared.
      apply ast_is_sound in Hast.
      refine (Hgen _ _ H). unfold hitem_ok. rewrite Em. cbn [fst snd]. split; [exact Hast|exact Ed].
Qed.

Lemma hitem_ok_first d b prev prev' cur pst pst' e :
  hitem_ok d b 0 prev cur pst e -> hitem_ok d b 0 prev' cur pst' e.
Proof.
  unfold hitem_ok. assert (E0 : 0 mod b = 0) by (destruct b; reflexivity).
  rewrite E0. cbn [N.eqb]. auto.
Qed.

Theorem htfc_check_sound S d : htfc_check S d = true -> htfc_ok d (h_bsize d) S.
Proof.
  unfold htfc_check. intros H.
  repeat (apply andb_true_iff in H; let H' := fresh "C" in destruct H as [H H']).
  destruct (htrace_from d (h_bsize d) 0 [] st0_dummy S) as [tr|] eqn:Et; [|discriminate].
  apply N.leb_le in H. apply N.ltb_lt in C6, C4. apply N.eqb_eq in C5, C3, C2.
  unfold code_chk in C1.
  repeat (apply andb_true_iff in C1; let H' := fresh "K" in destruct C1 as [C1 H']).
  apply N.eqb_eq in C1.
  split; [reflexivity|]. split; [exact H|]. split; [exact C6|]. split; [exact C5|]. split; [exact C4|].
  split; [exact C3|]. split; [exact C2|].
  split.
  { split; [exact C1|]. split; [exact K2|]. split; [exact K1|]. split; [exact K0|].
    apply Forall_forall. intros c Hc. rewrite forallb_forall in K. specialize (K c Hc). apply N.ltb_lt in K. exact K. }
  split.
  { apply Forall_forall. intros x Hx. rewrite forallb_forall in C0. specialize (C0 x Hx). apply N.ltb_lt in C0. exact C0. }
  destruct (htrace_from_sound _ _ _ _ _ _ _ Et) as [Hl Hit].
  exists (fun k => nth (N.to_nat k) tr st0_dummy). intros i Hi.
  specialize (Hit (N.to_nat i) ltac:(unfold lenN in Hi; lia)).
  rewrite N.add_0_l, N2Nat.id in Hit. fold (snth S i) in Hit.
  destruct (N.eq_dec i 0) as [->|Hne].
  - eapply hitem_ok_first. exact Hit.
  - replace (N.to_nat i) with (Datatypes.S (N.to_nat (i - 1))) in Hit at 1 2 by lia.
    cbn [nth] in Hit. exact Hit.
Qed.

(* ====================================================================== *)
(* D. encodeString on a query                                              *)
(* ====================================================================== *)
Lemma encode_bits_len31 cws : Forall (fun c : cw => snd c < 32) cws -> forall s enc,
  encode_bits cws s = Some enc -> N.of_nat (length enc) <= 31 * lenN s.
Proof.
  intros F. induction s as [|x s IH]; intros enc E.
  - cbn in E. inversion E; subst. cbn. lia.
  - rewrite encode_bits_cons in E. destruct (nthN cws x) as [c|] eqn:Hc; [|discriminate].
    cbn [option_map] in E. destruct (encode_bits cws s) as [e|]; [|discriminate]. inversion E; subst.
    specialize (IH _ eq_refl). rewrite app_length, cw_bits_length, lenN_cons.
    rewrite Forall_forall in F. assert (snd c < 32) by (apply F; eapply nth_error_In; exact Hc). lia.
Qed.

Lemma encode_string_pack d s : code_ok (h_cw d) -> Forall (fun x => x < 256) s ->
  exists bytes off, encode_string d s = Some (bytes, off) /\ pack_string (h_cw d) s = Some (bytes, off).
Proof.
  intros (Hlen & CP & CA & CL & F31) Fs.
  assert (Fs' : Forall (fun x => x < lenN (h_cw d)) s) by (rewrite Hlen; exact Fs).
  destruct (pack_symbols_total (h_cw d) s ([], 0, 0) Fs') as [st' E].
  destruct (pack_bits_bytes (h_cw d) s _ st' [] (check_lengths_sound _ CL) pinv_init E) as [enc [Ee [_ Hl]]].
  pose proof (encode_bits_len31 _ F31 _ _ Ee) as H31.
  exists (final_bytes st'), (snd st'). unfold encode_string, pack_string. rewrite E.
  destruct (N.ltb_spec (lenN (fst (fst st'))) (4 * lenN s + 1)) as [_|Hbad]; [split; reflexivity|].
  exfalso. cbn [length Nat.add] in Hl. lia.
Qed.

(* ====================================================================== *)
(* E. the flat stream view of a certified object                           *)
(* ====================================================================== *)
Lemma hbuckets_div n b k : 1 <= b -> 1 <= k -> (k <= (n + b - 1) / b <-> (k - 1) * b < n).
Proof.
  intros Hb Hk. assert (Hb0 : b <> 0) by lia.
  pose proof (N.div_mod (n + b - 1) b Hb0) as Hd.
  pose proof (N.mod_lt (n + b - 1) b Hb0) as Hm.
  set (q := (n + b - 1) / b) in *. set (r := (n + b - 1) mod b) in *.
  assert (Ek : k * b = (k - 1) * b + b) by (apply mul_pred_succ; lia).
  split; intros H.
  - assert (k * b <= q * b) by (apply N.mul_le_mono_r; exact H). nia.
  - destruct (N.le_gt_cases k q) as [|Hgt]; [assumption|exfalso].
    assert ((q + 1) * b <= k * b) by (apply N.mul_le_mono_r; lia). nia.
Qed.

Section Stream.
  Variables (d : htfc) (b : N) (S : list str) (St : N -> bst * ast).
  Hypothesis Hbs : h_bsize d = b.
  Hypothesis Hb2 : 2 <= b.
  Hypothesis Hb32 : b < 2 ^ 32.
  Hypothesis Hel : h_elements d = lenN S.
  Hypothesis Hn32 : lenN S < 2 ^ 32.
  Hypothesis Hbk : h_buckets d = (lenN S + b - 1) / b.
  Hypothesis Hcode : code_ok (h_cw d).
  Hypothesis Htext : Forall (fun x => x < 256) (h_text d).
  Hypothesis HSt : hstream_ok d b S St.
  Hypothesis Hnf : Forall nul_free S.
  Hypothesis Hsort : sorted_lt S.
  Hypothesis Hne : S <> [].

  Lemma hs_nul_free i : i < lenN S -> nul_free (snth S i).
  Proof. intros H. pose proof Hnf as F. rewrite Forall_forall in F. apply F, snth_In, H. Qed.

  Lemma hs_holds i : i < lenN S -> holds (snd (St i)) (snth S i).
  Proof. intros H. destruct (HSt i H) as [Hh _]. exact Hh. Qed.

  Lemma hbuckets_iff k : 1 <= k -> (k <= h_buckets d <-> (k - 1) * b < lenN S).
  Proof. intros Hk. rewrite Hbk. apply hbuckets_div; [lia|assumption]. Qed.

  Lemma hbuckets_pos : 1 <= h_buckets d.
  Proof.
    apply (hbuckets_iff 1); [lia|]. pose proof Hne. destruct S; [congruence|]. rewrite lenN_cons. lia.
  Qed.

  (* one decodeString call moves from string i to string i+1 *)
  Lemma hstream_dstep i : i + 1 < lenN S -> (i + 1) mod b <> 0 ->
    decode_string d (str_cap d) (fst (St i)) (snd (St i)) =
    Some (fst (St (i + 1)), snd (St (i + 1)), lcp (snth S i) (snth S (i + 1))).
  Proof.
    intros Hi Hm. destruct (HSt (i + 1) Hi) as [_ Hit].
    destruct (N.eqb_spec ((i + 1) mod b) 0) as [|_]; [contradiction|].
    rewrite N.add_sub in Hit. exact Hit.
  Qed.

  Lemma hstream_dstep' i : i + 1 < lenN S -> (i + 1) mod b <> 0 -> dstep d (St i) = Some (St (i + 1)).
  Proof.
    intros Hi Hm. unfold dstep. rewrite (hstream_dstep i Hi Hm). destruct (St (i + 1)); reflexivity.
  Qed.

  (* the header of bucket k *)
  Lemma hstream_header k : 1 <= k -> k <= h_buckets d ->
    exists off enc o rest st0, (k - 1) * b < lenN S /\
      nthN (h_bl d) k = Some off /\ pack_string (h_cw d) (snth S ((k - 1) * b) ++ [0]) = Some (enc, o) /\
      off <= lenN (h_text d) /\ skipN off (h_text d) = enc ++ rest /\
      decode_header d k = Some st0 /\ reset_scan d k st0 = Some (St ((k - 1) * b)) /\
      holds (snd st0) (snth S ((k - 1) * b)).
  Proof.
    intros Hk1 Hk2. pose proof (proj1 (hbuckets_iff k Hk1) Hk2) as Hlt.
    destruct (HSt _ Hlt) as [Hh Hit].
    rewrite (bucket_base_mod k b ltac:(lia)) in Hit. cbn [N.eqb] in Hit.
    rewrite N.div_mul in Hit by lia. replace (k - 1 + 1) with k in Hit by lia.
    destruct Hit as (off & enc & o & rest & st0 & E1 & E2 & E3 & E4 & E5 & E6).
    exists off, enc, o, rest, st0. repeat split; try assumption.
    - unfold reset_scan in E6. destruct st0 as [b0 a0]. destruct (rdN (h_bl d) (k + 1)); [|discriminate].
      inversion E6 as [E7]. rewrite <- E7 in Hh. cbn [snd a_len a_buf] in *. destruct Hh as [H1 _]. exact H1.
    - destruct Hh as [_ [H2 _]]. exact H2.
    - unfold reset_scan in E6. destruct st0 as [b0 a0]. destruct (rdN (h_bl d) (k + 1)); [|discriminate].
      inversion E6 as [E7]. rewrite <- E7 in Hh. cbn [snd a_len a_buf] in *. destruct Hh as [_ [_ H3]]. exact H3.
  Qed.

  Let H (k : N) : str := snth S ((k - 1) * b).

  (* the memcmp of locateBucket against the header of bucket k *)
  Lemma hdr_memcmp_stream k q bq oq : 1 <= k -> k <= h_buckets d -> nul_free q ->
    pack_string (h_cw d) (q ++ [0]) = Some (bq, oq) ->
    hdr_memcmp d k bq = Some (lex_compare (H k) q).
  Proof.
    intros Hk1 Hk2 Hq Pq.
    destruct (hstream_header k Hk1 Hk2) as (off & enc & o & rest & st0 & Hlt & Ebl & Ep & Hle & Hs & _).
    destruct Hcode as (_ & CP & CA & CL & _).
    unfold hdr_memcmp. rewrite rdN_nthN, Ebl. destruct (N.leb_spec off (lenN (h_text d))); [|lia].
    rewrite Hs. apply (memcmp_avail_header (h_cw d) (H k) q enc o bq oq rest); auto.
    - apply hs_nul_free. exact Hlt.
    - assert (F : Forall (fun x => x < 256) (skipN off (h_text d))).
      { unfold skipN. apply Forall_forall. intros x Hx. rewrite Forall_forall in Htext. apply Htext.
        rewrite <- (firstn_skipn (N.to_nat off)). apply in_or_app. right. exact Hx. }
      rewrite Hs in F. apply Forall_app in F. apply F.
  Qed.

  (* everything the scans need to know about bucket k, with the multiplication hidden:
     the bucket holds the strings number base .. Eb-1 *)
  Lemma hbucket_facts k : 1 <= k -> k <= h_buckets d ->
    exists base Eb st0, base = (k - 1) * b /\ base mod b = 0 /\ base < Eb /\ Eb <= base + b /\ Eb <= lenN S /\
      hscanneable d k = Eb - base /\
      decode_header d k = Some st0 /\ reset_scan d k st0 = Some (St base) /\ holds (snd st0) (snth S base) /\
      (Eb < lenN S -> Eb = base + b /\ k + 1 <= h_buckets d) /\
      (k < h_buckets d -> Eb = base + b /\ Eb < lenN S).
  Proof.
    intros Hk1 Hk2. pose proof (proj1 (hbuckets_iff k Hk1) Hk2) as Hlt.
    pose proof (hbuckets_iff (k + 1) ltac:(lia)) as Hnext. rewrite N.add_sub in Hnext.
    pose proof (mul_pred_succ k b Hk1) as Ekb.
    pose proof (bucket_base_mod k b ltac:(lia)) as Hmod.
    destruct (hstream_header k Hk1 Hk2) as (off & enc & o & rest & st0 & _ & _ & _ & _ & _ & Edh & Ers & Hh0).
    assert (Hb0 : b <> 0) by lia.
    pose proof (N.div_mod (lenN S) b Hb0) as Hdm. pose proof (N.mod_lt (lenN S) b Hb0) as Hml.
    assert (Hlast : k = h_buckets d -> lenN S - (k - 1) * b = (if lenN S mod b =? 0 then b else lenN S mod b)).
    { intros ->. pose proof (hbuckets_iff (h_buckets d + 1) ltac:(lia)) as Hn2. rewrite N.add_sub in Hn2.
      assert (Hnot : ~ h_buckets d * b < lenN S) by (intros Hc; apply Hn2 in Hc; lia).
      clear Hn2 Hnext Edh Ers Hh0.
      assert (Hdiv : (h_buckets d - 1) * b mod b = 0) by exact Hmod.
      pose proof (N.div_mod ((h_buckets d - 1) * b) b Hb0) as Hd2. rewrite Hdiv, N.div_mul in Hd2 by lia.
      set (base := (h_buckets d - 1) * b) in *.
      assert (Hx : lenN S - base <= b) by lia.
      destruct (N.eqb_spec (lenN S mod b) 0) as [E0|E0].
      - assert (Hm2 : (lenN S - base) mod b = 0).
        { replace (lenN S) with (base + (lenN S - base)) in E0 by lia.
          rewrite N.add_mod, Hmod, N.add_0_l, N.mod_mod in E0 by lia. exact E0. }
        destruct (N.eq_dec (lenN S - base) b) as [|Hneq]; [assumption|].
        rewrite N.mod_small in Hm2 by lia. lia.
      - destruct (N.eq_dec (lenN S - base) b) as [Heq|Hneq].
        + exfalso. apply E0. replace (lenN S) with (base + b) by lia.
          rewrite N.add_mod, Hmod, N.mod_same, N.add_0_l by lia. apply N.mod_0_l. lia.
        + replace (lenN S) with (base + (lenN S - base)) at 2 by lia.
          rewrite N.add_mod, Hmod, N.add_0_l, N.mod_mod by lia. symmetry. apply N.mod_small. lia. }
    unfold hscanneable. rewrite Hbs, Hel.
    revert Hlt Hnext Ekb Hmod Edh Ers Hh0 Hlast. generalize ((k - 1) * b).
    intros base Hlt Hnext Ekb Hmod Edh Ers Hh0 Hlast.
    exists base, (base + N.min b (lenN S - base)), st0.
    split; [reflexivity|]. split; [exact Hmod|]. split; [lia|]. split; [lia|]. split; [lia|].
    split.
    { destruct (N.eqb_spec k (h_buckets d)) as [Ek|Ek].
      - specialize (Hlast Ek). cbn [andb]. destruct (N.eqb_spec (lenN S mod b) 0); cbn [negb]; lia.
      - cbn [andb]. assert (k * b < lenN S) by (apply Hnext; lia). lia. }
    split; [exact Edh|]. split; [exact Ers|]. split; [exact Hh0|]. split.
    - intros Hx. assert (k * b < lenN S) by lia. split; [lia|]. apply Hnext. assumption.
    - intros Hx. assert (k * b < lenN S) by (apply Hnext; lia). lia.
  Qed.

  (* ---------------------------------------------------------------- *)
  (* extract                                                           *)
  (* ---------------------------------------------------------------- *)
  Lemma hin_bucket_mod base i : base mod b = 0 -> base <= i -> i + 1 < base + b -> (i + 1) mod b <> 0.
  Proof.
    intros H0 H1 H2. replace (i + 1) with (base + (i + 1 - base)) by lia.
    rewrite mod_of_zero_plus by (auto; lia). lia.
  Qed.

  Lemma hiter_dstep base : base mod b = 0 -> forall j, j < b -> base + j < lenN S ->
    N.iter j (fun o => opt_bind o (dstep d)) (Some (St base)) = Some (St (base + j)).
  Proof.
    intros H0 j. induction j as [|j IH] using N.peano_ind; intros Hj Hn.
    - rewrite N.add_0_r. reflexivity.
    - rewrite N.iter_succ, IH by lia. cbn [opt_bind].
      replace (base + N.succ j) with (base + j + 1) by lia.
      apply hstream_dstep'; [lia|]. apply (hin_bucket_mod base); [exact H0|lia|lia].
  Qed.

  Lemma holds_result a s : holds a s -> nul_free s ->
    take0 (a_buf a) = Some s /\ wsub32 (a_len a) 1 = lenN s.
  Proof.
    intros (Hl & Hlt & r & Hb) Hn. split.
    - rewrite Hb. apply take0_spec. exact Hn.
    - rewrite Hl. unfold wsub32. change (1 mod 2 ^ 32) with 1.
      replace (lenN s + 1 + 2 ^ 32 - 1) with (lenN s + 1 * 2 ^ 32) by lia.
      rewrite N.mod_add by lia. apply N.mod_small. lia.
  Qed.

  Theorem htfc_extract_stream id : htfc_extract d id = Some (spec_extract S id).
  Proof.
    unfold htfc_extract, htfc_extract_raw, spec_extract. rewrite Hel, Hbs.
    destruct (N.ltb_spec 0 id) as [Hid|Hid]; cbn [andb].
    2:{ assert (id = 0) by lia. subst id. reflexivity. }
    destruct (N.eqb_spec id 0) as [|_]; [lia|].
    destruct (N.leb_spec id (lenN S)) as [Hle|Hgt].
    2:{ f_equal. symmetry. unfold nthN. apply nth_error_None. unfold lenN in Hgt. lia. }
    assert (Hb0 : b <> 0) by lia. pose proof Hn32 as H32.
    pose proof (N.div_mod (id - 1) b Hb0) as Hdm. pose proof (N.mod_lt (id - 1) b Hb0) as Hml.
    assert (Hq : (id - 1) / b <= id - 1).
    { apply N.div_le_upper_bound; [lia|]. rewrite <- (N.mul_1_l (id - 1)) at 1. apply N.mul_le_mono_r. lia. }
    pose proof (N.mod_le (id - 1) b Hb0) as Hmle.
    rewrite !W32m_small by lia.
    set (k := 1 + (id - 1) / b).
    assert (Hbase : (k - 1) * b = id - 1 - (id - 1) mod b).
    { unfold k. replace (1 + (id - 1) / b - 1) with ((id - 1) / b) by lia.
      rewrite (N.mul_comm _ b). revert Hdm. generalize (b * ((id - 1) / b)). intros; lia. }
    assert (Hk1 : 1 <= k) by (unfold k; lia).
    clearbody k.
    assert (Hk2 : k <= h_buckets d) by (apply hbuckets_iff; [exact Hk1|rewrite Hbase; lia]).
    destruct (hbucket_facts k Hk1 Hk2) as (base & Eb & st0 & Ebase & Hmod0 & _ & _ & _ & _ & Edh & Ers & Hh0 & _).
    rewrite Edh. rewrite <- Ebase in Hbase. clear Hdm Hq.
    set (m := (id - 1) mod b) in *. clearbody m.
    assert (Hres : forall a, holds a (snth S (id - 1)) ->
              match take0 (a_buf a) with
              | Some s => Some (Some (s, wsub32 (a_len a) 1))
              | None => None
              end = Some (Some (snth S (id - 1), lenN (snth S (id - 1))))).
    { intros a Ha. destruct (holds_result a _ Ha (hs_nul_free (id - 1) ltac:(lia))) as [-> ->]. reflexivity. }
    destruct (N.ltb_spec 0 m) as [Hpos|Hpos].
    - rewrite Ers, (hiter_dstep base Hmod0 _ Hml ltac:(lia)).
      replace (base + m) with (id - 1) by lia.
      destruct (St (id - 1)) as [bb aa] eqn:Est.
      pose proof (hs_holds (id - 1) ltac:(lia)) as Hh. rewrite Est in Hh. cbn [snd] in Hh.
      rewrite (Hres aa Hh), N.eqb_refl. rewrite (nthN_snth S (id - 1)) by lia. reflexivity.
    - assert (Eid : id - 1 = base) by lia. destruct st0 as [bb aa]. cbn [snd] in Hh0. rewrite <- Eid in Hh0.
      rewrite (Hres aa Hh0), N.eqb_refl. rewrite (nthN_snth S (id - 1)) by lia. reflexivity.
  Qed.

  (* ---------------------------------------------------------------- *)
  (* locateBucket and locate                                           *)
  (* ---------------------------------------------------------------- *)
  Lemma H_lt j j' : 1 <= j -> j < j' -> j' <= h_buckets d -> lex_lt (H j) (H j').
  Proof.
    intros H1 H2 H3. unfold H. apply snth_lt; [exact Hsort| |apply hbuckets_iff; lia].
    apply N.mul_lt_mono_pos_r; lia.
  Qed.

  Definition hbucket_post (q : str) (found : bool) (k : N) : Prop :=
    k <= h_buckets d /\
    if found then 1 <= k /\ H k = q
    else (forall j, 1 <= j -> j <= k -> lex_lt (H j) q) /\
         (forall j, k < j -> j <= h_buckets d -> lex_lt q (H j)).

  Lemma hlocate_bucket_loop_spec q bq oq : nul_free q -> pack_string (h_cw d) (q ++ [0]) = Some (bq, oq) ->
    forall fuel l r center cmp,
    1 <= l -> r <= h_buckets d -> l <= r + 1 ->
    (N.to_nat (r + 1 - l) < fuel)%nat ->
    (forall j, 1 <= j -> j < l -> lex_lt (H j) q) ->
    (forall j, r < j -> j <= h_buckets d -> lex_lt q (H j)) ->
    (r < l -> match cmp with Lt => center | _ => center - 1 end = r) ->
    exists found k, hlocate_bucket_loop fuel d bq l r center cmp = Some (found, k) /\
                    hbucket_post q found k.
  Proof.
    intros Hnq Pq. induction fuel as [|f IH]; intros l r center cmp Hl Hr Hlr Hfuel Hlo Hhi Hexit; [lia|].
    cbn [hlocate_bucket_loop]. destruct (N.leb_spec l r) as [Hle|Hgt].
    - set (c := (l + r) / 2).
      assert (Hc : l <= c <= r) by (unfold c; lia).
      rewrite (hdr_memcmp_stream c q bq oq ltac:(lia) ltac:(lia) Hnq Pq).
      destruct (lex_compare (H c) q) eqn:Ecmp.
      + exists true, c. split; [reflexivity|]. split; [lia|]. split; [lia|].
        apply lex_compare_eq in Ecmp. exact Ecmp.
      + apply IH; try lia.
        * intros j Hj1 Hj2. destruct (N.eq_dec j c) as [->|Hjc]; [exact Ecmp|].
          apply (lex_lt_trans _ (H c)); [|exact Ecmp]. apply H_lt; lia.
        * intros j Hj1 Hj2. apply Hhi; lia.
      + apply lex_gt_lt in Ecmp. apply IH; try lia.
        * intros j Hj1 Hj2. apply Hlo; lia.
        * intros j Hj1 Hj2. destruct (N.eq_dec j c) as [->|Hjc]; [exact Ecmp|].
          apply (lex_lt_trans _ (H c)); [exact Ecmp|]. apply H_lt; lia.
    - exists false, r. split; [rewrite (Hexit Hgt); reflexivity|].
      split; [exact Hr|]. split.
      + intros j Hj1 Hj2. apply Hlo; lia.
      + intros j Hj1 Hj2. apply Hhi; lia.
  Qed.

  Lemma hlocate_bucket_spec q bq oq : nul_free q -> pack_string (h_cw d) (q ++ [0]) = Some (bq, oq) ->
    exists found k, hlocate_bucket d bq = Some (found, k) /\ hbucket_post q found k.
  Proof.
    intros Hnq Pq. unfold hlocate_bucket.
    apply (hlocate_bucket_loop_spec q bq oq Hnq Pq); try lia.
  Qed.

  Lemma hlocate_cert_none q : (forall j, j < lenN S -> snth S j <> q) -> spec_locate S q = 0.
  Proof.
    intros Hall. apply spec_locate_absent. intros Hin'.
    destruct (In_nth _ _ [] Hin') as (j & Hj & Ej).
    apply (Hall (N.of_nat j)).
    { unfold lenN, N.lt. rewrite <- Nat2N.inj_compare. apply Nat.compare_lt_iff. exact Hj. }
    unfold snth. rewrite Nat2N.id. exact Ej.
  Qed.

  Lemma hlocate_cert_some q j : j < lenN S -> snth S j = q -> spec_locate S q = j + 1.
  Proof.
    intros Hj Ej. unfold spec_locate.
    rewrite (nth_index_from S 1 j q ltac:(lia) (sorted_NoDup _ Hsort)); [lia|].
    rewrite <- Ej. apply nthN_snth. exact Hj.
  Qed.

  Lemma hs_lt i j : i < j -> j < lenN S -> lex_lt (snth S i) (snth S j).
  Proof. intros. apply snth_lt; [exact Hsort|assumption|assumption]. Qed.

  Lemma hlt_neq a c : lex_lt a c -> a <> c.
  Proof. intros Hlt ->. exact (lex_lt_irrefl _ Hlt). Qed.

  (* the comparison of locate on the state after string i *)
  Lemma hcmp_stream i q sh : i < lenN S -> nul_free q -> sh <= lcp (snth S i) q ->
    exists z m, hcmp_from (snd (St i)) q sh 1 = Some (z, m) /\ cmp_agrees (snth S i) q 0 z m.
  Proof.
    intros Hi Hnq Hs. pose proof (lcp_le_l (snth S i) q).
    rewrite (hcmp_from_cmp_from _ (snth S i) q sh 1 (hs_holds i Hi)) by lia.
    apply cmp_from_spec; [apply hs_nul_free; exact Hi|exact Hnq|exact Hs].
  Qed.

  (* the for-loop of locate, entered after string i of the bucket (decoded, different from q) *)
  Lemma hscan_spec q k base Eb : nul_free q -> base = (k - 1) * b -> base mod b = 0 ->
    Eb <= base + b -> Eb <= lenN S ->
    (Eb < lenN S -> lex_lt q (snth S Eb)) ->
    forall (n : nat) i fuel,
    base <= i -> i < Eb -> N.to_nat (Eb - 1 - i) = n -> (n < fuel)%nat ->
    snth S i <> q ->
    exists r, hscan_loop fuel d q k (Eb - base) (i - base + 1) (fst (St i)) (snd (St i)) (lcp (snth S i) q) = Some r /\
      ((r = 0 /\ forall j, i < j -> j < lenN S -> snth S j <> q) \/
       (exists j, i < j /\ j < Eb /\ snth S j = q /\ r = j + 1)).
  Proof.
    intros Hnq Ebase Hmod HE1 HE2 Hafter.
    assert (Habove : forall i, i < lenN S -> lex_lt q (snth S i) -> forall j, i < j -> j < lenN S -> snth S j <> q).
    { intros i Hi Hq j Hj1 Hj2 Ej. pose proof (hs_lt i j Hj1 Hj2) as Hlt. rewrite Ej in Hlt.
      exact (lex_lt_asym _ _ Hq Hlt). }
    induction n as [|n IH]; intros i fuel Hi1 Hi2 Hn Hf Hneq;
      (destruct fuel as [|f]; [lia|]); cbn [hscan_loop].
    - destruct (N.ltb_spec (i - base + 1) (Eb - base)); [lia|].
      exists 0. split; [reflexivity|]. left. split; [reflexivity|].
      intros j Hj1 Hj2. assert (Eb < lenN S) by lia. destruct (N.eq_dec j Eb) as [->|Hne'].
      + apply not_eq_sym, hlt_neq, Hafter. assumption.
      + apply (Habove Eb); [assumption|apply Hafter; assumption|lia|assumption].
    - destruct (N.ltb_spec (i - base + 1) (Eb - base)); [|lia].
      assert (Hi3 : i + 1 < Eb) by lia.
      rewrite (hstream_dstep i ltac:(lia) (hin_bucket_mod base i Hmod Hi1 ltac:(lia))).
      assert (Hii : lex_lt (snth S i) (snth S (i + 1))) by (apply hs_lt; lia).
      destruct (N.ltb_spec (lcp (snth S i) (snth S (i + 1))) (lcp (snth S i) q)) as [Hsh|Hsh].
      + exists 0. split; [reflexivity|]. left. split; [reflexivity|].
        assert (Hq1 : lex_lt q (snth S (i + 1))).
        { destruct (lex_total (snth S i) q) as [Hlt|[Heq|Hgt]]; [|contradiction|].
          - apply (scan_trick_lt (snth S i)); assumption.
          - apply (lex_lt_trans _ (snth S i)); assumption. }
        intros j Hj1 Hj2. destruct (N.eq_dec j (i + 1)) as [->|Hne'].
        * apply not_eq_sym, hlt_neq. exact Hq1.
        * apply (Habove (i + 1)); [lia|exact Hq1|lia|assumption].
      + assert (Hs : lcp (snth S i) q <= lcp (snth S (i + 1)) q).
        { pose proof (lcp_min (snth S i) (snth S (i + 1)) q). lia. }
        destruct (hcmp_stream (i + 1) q _ ltac:(lia) Hnq Hs) as (z & m & Ec & Hag).
        rewrite Ec. unfold cmp_agrees in Hag.
        destruct (lex_compare (snth S (i + 1)) q) eqn:Ecmp.
        * subst z. cbn [Z.eqb]. eexists. split; [reflexivity|]. right. exists (i + 1).
          apply lex_compare_eq in Ecmp. split; [lia|]. split; [lia|]. split; [exact Ecmp|].
          rewrite Hbs, <- Ebase. lia.
        * destruct Hag as [Hz ->]. destruct (Z.eqb_spec z 0); [lia|]. destruct (Z.ltb_spec 0 z); [lia|].
          rewrite N.add_0_l.
          assert (Hne1 : snth S (i + 1) <> q) by (apply hlt_neq; exact Ecmp).
          destruct (IH (i + 1) f ltac:(lia) Hi3 ltac:(lia) ltac:(lia) Hne1) as (r & Er & Hr).
          replace (i + 1 - base + 1) with (i - base + 1 + 1) in Er by lia. rewrite Er.
          exists r. split; [reflexivity|]. destruct Hr as [[-> Hr]|(j & Hj1 & Hj2 & Hj3 & Hj4)].
          -- left. split; [reflexivity|]. intros j Hj1 Hj2. destruct (N.eq_dec j (i + 1)) as [->|Hne'];
               [exact Hne1|apply Hr; lia].
          -- right. exists j. repeat split; auto. lia.
        * destruct Hag as [Hz _]. destruct (Z.eqb_spec z 0); [lia|]. destruct (Z.ltb_spec 0 z); [|lia].
          exists 0. split; [reflexivity|]. left. split; [reflexivity|].
          apply lex_gt_lt in Ecmp.
          intros j Hj1 Hj2. destruct (N.eq_dec j (i + 1)) as [->|Hne'].
          -- apply not_eq_sym, hlt_neq. exact Ecmp.
          -- apply (Habove (i + 1)); [lia|exact Ecmp|lia|assumption].
  Qed.

  Theorem htfc_locate_stream q : nul_free q -> Forall (fun c => c < 256) q ->
    htfc_locate d q = Some (spec_locate S q).
  Proof.
    intros Hnq Hq256. unfold htfc_locate.
    destruct (encode_string_pack d (q ++ [0]) Hcode) as (bq & oq & Ees & Pq).
    { apply Forall_app. split; [exact Hq256|]. constructor; [lia|constructor]. }
    rewrite Ees.
    destruct (hlocate_bucket_spec q bq oq Hnq Pq) as (found & k & Elb & Hk & Hpost). rewrite Elb.
    destruct found.
    - destruct Hpost as [Hk1 Hq]. rewrite Hbs. f_equal. symmetry.
      apply hlocate_cert_some; [apply hbuckets_iff; assumption|exact Hq].
    - destruct Hpost as [Hlo Hhi].
      destruct (N.eqb_spec k 0) as [->|Hk0].
      + f_equal. symmetry. apply hlocate_cert_none. intros j Hj.
        pose proof (Hhi 1 ltac:(lia) hbuckets_pos) as H1. unfold H in H1.
        replace ((1 - 1) * b) with 0 in H1 by lia.
        destruct (N.eq_dec j 0) as [->|Hj0]; [apply not_eq_sym, hlt_neq; exact H1|].
        apply not_eq_sym, hlt_neq. apply (lex_lt_trans _ (snth S 0)); [exact H1|apply hs_lt; lia].
      + destruct (hbucket_facts k ltac:(lia) Hk)
          as (base & Eb & st0 & Ebase & Hmod & HbE & HE1 & HE2 & Esc & Edh & Ers & _ & Hnext & _).
        rewrite Edh. cbn [opt_bind]. rewrite Ers, Esc.
        destruct (St base) as [bb0 aa0] eqn:Est0.
        pose proof (Hlo k ltac:(lia) ltac:(lia)) as Hhk. unfold H in Hhk. rewrite <- Ebase in Hhk.
        assert (Hafter : Eb < lenN S -> lex_lt q (snth S Eb)).
        { intros Hlt. destruct (Hnext Hlt) as [EE Hk1]. pose proof (Hhi (k + 1) ltac:(lia) Hk1) as H2.
          unfold H in H2. rewrite N.add_sub in H2. rewrite (mul_pred_succ k b ltac:(lia)), <- Ebase, <- EE in H2.
          exact H2. }
        assert (Hbelow : forall j, j <= base -> snth S j <> q).
        { intros j Hj. apply hlt_neq. destruct (N.eq_dec j base) as [->|Hne']; [exact Hhk|].
          apply (lex_lt_trans _ (snth S base)); [apply hs_lt; lia|exact Hhk]. }
        assert (Habove : forall j, Eb <= j -> j < lenN S -> snth S j <> q).
        { intros j Hj1 Hj2. apply not_eq_sym, hlt_neq. pose proof (Hafter ltac:(lia)) as Hq.
          destruct (N.eq_dec j Eb) as [->|Hne']; [exact Hq|].
          apply (lex_lt_trans _ (snth S Eb)); [exact Hq|apply hs_lt; lia]. }
        destruct (N.ltb_spec 1 (Eb - base)) as [Hsc|Hsc].
        * assert (Hm1 : (base + 1) mod b <> 0) by (apply (hin_bucket_mod base base Hmod); lia).
          pose proof (hstream_dstep base ltac:(lia) Hm1) as Eds. rewrite Est0 in Eds. cbn [fst snd] in Eds.
          rewrite Eds.
          destruct (hcmp_stream (base + 1) q 0 ltac:(lia) Hnq ltac:(lia)) as (z & m & Ec & Hag).
          rewrite Ec. unfold cmp_agrees in Hag.
          destruct (lex_compare (snth S (base + 1)) q) eqn:Ecmp.
          -- subst z. cbn [Z.eqb]. rewrite Hbs, <- Ebase. f_equal. symmetry.
             apply lex_compare_eq in Ecmp. rewrite (hlocate_cert_some q (base + 1)); [lia|lia|exact Ecmp].
          -- destruct Hag as [Hz ->]. destruct (Z.eqb_spec z 0); [lia|]. rewrite N.add_0_l.
             assert (Hne1 : snth S (base + 1) <> q) by (apply hlt_neq; exact Ecmp).
             destruct (hscan_spec q k base Eb Hnq Ebase Hmod HE1 HE2 Hafter
                         (N.to_nat (Eb - 1 - (base + 1))) (base + 1) (N.to_nat (Eb - base))
                         ltac:(lia) ltac:(lia) eq_refl ltac:(lia) Hne1) as (r & Er & Hr).
             replace (base + 1 - base + 1) with 2 in Er by lia. rewrite Er. f_equal.
             destruct Hr as [[-> Hr]|(j & Hj1 & Hj2 & Hj3 & ->)].
             ++ symmetry. apply hlocate_cert_none. intros j Hj.
                destruct (N.le_gt_cases j base); [apply Hbelow; assumption|].
                destruct (N.eq_dec j (base + 1)) as [->|]; [exact Hne1|apply Hr; lia].
             ++ symmetry. apply hlocate_cert_some; [lia|exact Hj3].
          -- destruct Hag as [Hz ->]. destruct (Z.eqb_spec z 0); [lia|]. rewrite N.add_0_l.
             apply lex_gt_lt in Ecmp.
             assert (Hne1 : snth S (base + 1) <> q) by (apply not_eq_sym, hlt_neq; exact Ecmp).
             destruct (hscan_spec q k base Eb Hnq Ebase Hmod HE1 HE2 Hafter
                         (N.to_nat (Eb - 1 - (base + 1))) (base + 1) (N.to_nat (Eb - base))
                         ltac:(lia) ltac:(lia) eq_refl ltac:(lia) Hne1) as (r & Er & Hr).
             replace (base + 1 - base + 1) with 2 in Er by lia. rewrite Er. f_equal.
             destruct Hr as [[-> Hr]|(j & Hj1 & Hj2 & Hj3 & ->)].
             ++ symmetry. apply hlocate_cert_none. intros j Hj.
                destruct (N.le_gt_cases j base); [apply Hbelow; assumption|].
                destruct (N.eq_dec j (base + 1)) as [->|]; [exact Hne1|apply Hr; lia].
             ++ symmetry. apply hlocate_cert_some; [lia|exact Hj3].
        * f_equal. symmetry. apply hlocate_cert_none. intros j Hj.
          destruct (N.le_gt_cases j base); [apply Hbelow; assumption|apply Habove; lia].
  Qed.
End Stream.

(* ====================================================================== *)
(* G. the scratch buffer, positionally                                     *)
(* ====================================================================== *)
(* the buffer holds l at position i *)
Definition buf_at (buf : list N) (i : N) (l : list N) : Prop :=
  forall j x, nthN l j = Some x -> nthN buf (i + j) = Some x.

Lemma buf_at_nil buf i : buf_at buf i [].
Proof. intros j x H. unfold nthN in H. destruct (N.to_nat j); discriminate. Qed.

Lemma buf_at_app buf i x y : buf_at buf i (x ++ y) <-> buf_at buf i x /\ buf_at buf (i + lenN x) y.
Proof.
  split.
  - intros H. split.
    + intros j v Hj. apply H. rewrite nthN_app_l; [exact Hj|]. apply nthN_Some_lt in Hj. exact Hj.
    + intros j v Hj. replace (i + lenN x + j) with (i + (lenN x + j)) by lia. apply H.
      rewrite nthN_app_r by lia. replace (lenN x + j - lenN x) with j by lia. exact Hj.
  - intros [H1 H2] j v Hj. destruct (N.lt_ge_cases j (lenN x)) as [Hlt|Hge].
    + apply H1. rewrite nthN_app_l in Hj by exact Hlt. exact Hj.
    + rewrite nthN_app_r in Hj by exact Hge. specialize (H2 _ _ Hj).
      replace (i + lenN x + (j - lenN x)) with (i + j) in H2 by lia. exact H2.
Qed.

Lemma buf_at_cons buf i v l : buf_at buf i (v :: l) <-> nthN buf i = Some v /\ buf_at buf (i + 1) l.
Proof.
  change (v :: l) with ([v] ++ l). rewrite buf_at_app. change (lenN [v]) with 1.
  split; intros [H1 H2]; split; try exact H2.
  - specialize (H1 0 v eq_refl). rewrite N.add_0_r in H1. exact H1.
  - intros j x Hj. unfold nthN in Hj. destruct (N.to_nat j) as [|k] eqn:Ej.
    + cbn in Hj. inversion Hj; subst. replace j with 0 by lia. rewrite N.add_0_r. exact H1.
    + cbn in Hj. destruct k; discriminate.
Qed.

Lemma skipn_nth_error_cons {A} : forall (l : list A) n x, nth_error l n = Some x -> skipn n l = x :: skipn (S n) l.
Proof.
  induction l as [|y l IH]; intros [|n] x H; cbn in H; try discriminate.
  - inversion H; subst. reflexivity.
  - cbn [skipn]. rewrite (IH n x H). reflexivity.
Qed.

(* the positional view gives the list view *)
Lemma buf_at_skipN buf : forall l i, buf_at buf i l -> exists rest, skipN i buf = l ++ rest.
Proof.
  induction l as [|x l IH]; intros i H.
  - exists (skipN i buf). reflexivity.
  - apply buf_at_cons in H. destruct H as [Hx Hl]. destruct (IH _ Hl) as [rest Hr].
    exists rest. unfold skipN in *. unfold nthN in Hx. rewrite (skipn_nth_error_cons _ _ _ Hx).
    replace (S (N.to_nat i)) with (N.to_nat (i + 1)) by lia. rewrite Hr. reflexivity.
Qed.

Lemma buf_at_len buf i l : buf_at buf i l -> i + lenN l <= lenN buf \/ l = [].
Proof.
  intros H. destruct l as [|x l] using rev_ind; [right; reflexivity|]. left.
  specialize (H (lenN l) x). rewrite nthN_app_r in H by lia. rewrite N.sub_diag in H. specialize (H eq_refl).
  apply nthN_Some_lt in H. rewrite lenN_app. change (lenN [x]) with 1. lia.
Qed.

Lemma buf_at_0_prefix buf l : buf_at buf 0 l -> exists rest, buf = l ++ rest.
Proof. intros H. destruct (buf_at_skipN _ _ _ H) as [r Hr]. exists r. exact Hr. Qed.

(* ---- single write *)
Lemma set_nth_nth : forall l i v k, (i < length l)%nat ->
  nth_error (set_nth l i v) k = if Nat.eqb k i then Some v else nth_error l k.
Proof.
  induction l as [|x l IH]; intros i v k Hi; [cbn in Hi; lia|].
  destruct i as [|i]; cbn [set_nth].
  - destruct k; reflexivity.
  - destruct k as [|k]; [reflexivity|]. cbn [nth_error Nat.eqb]. apply IH. cbn in Hi. lia.
Qed.

Lemma set_nth_length : forall l i v, length (set_nth l i v) = length l.
Proof. induction l as [|x l IH]; intros [|i] v; cbn; auto. Qed.

Lemma buf_write_spec buf cap i v : i <= lenN buf -> i < cap ->
  exists buf', buf_write buf cap i v = Some buf' /\ nthN buf' i = Some v /\
    (forall k, k <> i -> nthN buf' k = nthN buf k) /\ lenN buf' = N.max (lenN buf) (i + 1).
Proof.
  intros Hi Hc. unfold buf_write. destruct (N.ltb_spec i cap); [|lia].
  destruct (N.ltb_spec i (lenN buf)) as [Hlt|Hge].
  - eexists. split; [reflexivity|]. split; [|split].
    + unfold nthN. rewrite set_nth_nth by (unfold lenN in Hlt; lia). rewrite Nat.eqb_refl. reflexivity.
    + intros k Hk. unfold nthN. rewrite set_nth_nth by (unfold lenN in Hlt; lia).
      destruct (Nat.eqb_spec (N.to_nat k) (N.to_nat i)); [lia|reflexivity].
    + unfold lenN. rewrite set_nth_length. unfold lenN in Hlt. lia.
  - assert (i = lenN buf) by lia. subst i. rewrite N.eqb_refl.
    eexists. split; [reflexivity|]. split; [|split].
    + rewrite nthN_app_r by lia. rewrite N.sub_diag. reflexivity.
    + intros k Hk. destruct (N.lt_ge_cases k (lenN buf)).
      * apply nthN_app_l. assumption.
      * unfold nthN. transitivity (@None N); [|symmetry]; apply nth_error_None.
        -- rewrite app_length. cbn [length]. unfold lenN in *. lia.
        -- unfold lenN in *. lia.
    + rewrite lenN_app. change (lenN [v]) with 1. lia.
Qed.

(* ---- writing a list *)
Lemma buf_write_list_spec : forall l buf cap i, i <= lenN buf -> i + lenN l <= cap ->
  exists buf', buf_write_list buf cap i l = Some buf' /\ buf_at buf' i l /\
    (forall k, k < i \/ i + lenN l <= k -> nthN buf' k = nthN buf k) /\
    lenN buf' = N.max (lenN buf) (i + lenN l).
Proof.
  induction l as [|v l IH]; intros buf cap i Hi Hc.
  - exists buf. split; [reflexivity|]. split; [apply buf_at_nil|]. split; [reflexivity|].
    change (lenN (@nil N)) with 0. lia.
  - rewrite lenN_cons in Hc. cbn [buf_write_list].
    destruct (buf_write_spec buf cap i v Hi ltac:(lia)) as (buf1 & E1 & Hv & Hfr & Hl1). rewrite E1.
    destruct (IH buf1 cap (i + 1) ltac:(lia) ltac:(lia)) as (buf2 & E2 & Hat & Hfr2 & Hl2). rewrite E2.
    exists buf2. split; [reflexivity|]. split; [|split].
    + apply buf_at_cons. split; [|exact Hat]. rewrite Hfr2 by lia. exact Hv.
    + intros k Hk. rewrite lenN_cons in Hk. rewrite Hfr2 by lia. apply Hfr. lia.
    + rewrite lenN_cons. lia.
Qed.

(* ---- the copy loops (forward, destination not after the source) *)
Lemma buf_copy_f_spec : forall fuel n buf cap src dst,
  (N.to_nat n <= fuel)%nat -> dst <= src -> src + n <= lenN buf -> dst + n <= cap ->
  exists buf', buf_copy_f fuel n buf cap src dst = Some buf' /\
    (forall j, j < n -> nthN buf' (dst + j) = nthN buf (src + j)) /\
    (forall k, k < dst \/ dst + n <= k -> nthN buf' k = nthN buf k) /\ lenN buf' = lenN buf.
Proof.
  induction fuel as [|f IH]; intros n buf cap src dst Hf Hds Hsrc Hcap.
  - assert (n = 0) by lia. subst n. cbn [buf_copy_f N.eqb]. exists buf. split; [reflexivity|].
    split; [intros j Hj; lia|]. split; reflexivity.
  - cbn [buf_copy_f]. destruct (N.eqb_spec n 0) as [->|Hn].
    + exists buf. split; [reflexivity|]. split; [intros j Hj; lia|]. split; reflexivity.
    + destruct (nthN_lt_Some buf src ltac:(lia)) as [v Ev]. rewrite rdN_nthN, Ev.
      destruct (buf_write_spec buf cap dst v ltac:(lia) ltac:(lia)) as (buf1 & E1 & Hv & Hfr & Hl1). rewrite E1.
      assert (Hl1' : lenN buf1 = lenN buf) by lia.
      destruct (IH (n - 1) buf1 cap (src + 1) (dst + 1) ltac:(lia) ltac:(lia) ltac:(lia) ltac:(lia))
        as (buf2 & E2 & Hcp & Hfr2 & Hl2). rewrite E2.
      exists buf2. split; [reflexivity|]. split; [|split].
      * intros j Hj. destruct (N.eq_dec j 0) as [->|Hj0].
        -- rewrite !N.add_0_r. rewrite Hfr2 by lia. rewrite Hv, Ev. reflexivity.
        -- specialize (Hcp (j - 1) ltac:(lia)).
           replace (dst + 1 + (j - 1)) with (dst + j) in Hcp by lia.
           replace (src + 1 + (j - 1)) with (src + j) in Hcp by lia.
           rewrite Hcp. apply Hfr. lia.
      * intros k Hk. rewrite Hfr2 by lia. apply Hfr. lia.
      * lia.
Qed.

Lemma buf_copy_spec n buf cap src dst data :
  dst <= src -> buf_at buf src data -> lenN data = n -> dst + n <= cap ->
  exists buf', buf_copy n buf cap src dst = Some buf' /\ buf_at buf' dst data /\
    (forall k, k < dst \/ dst + n <= k -> nthN buf' k = nthN buf k) /\ lenN buf' = lenN buf.
Proof.
  intros Hds Hat Hn Hcap. unfold buf_copy.
  destruct (N.eq_dec n 0) as [->|Hn0].
  { cbn [buf_copy_f N.eqb]. exists buf. split; [reflexivity|]. split; [|split; reflexivity].
    destruct data; [apply buf_at_nil|rewrite lenN_cons in Hn; lia]. }
  assert (Hsrc : src + n <= lenN buf).
  { destruct (buf_at_len _ _ _ Hat) as [H|H]; [lia|]. subst data. change (lenN (@nil N)) with 0 in Hn. lia. }
  destruct (buf_copy_f_spec (S (N.to_nat cap)) n buf cap src dst ltac:(lia) Hds Hsrc Hcap)
    as (buf' & E & Hcp & Hfr & Hl).
  exists buf'. split; [exact E|]. split; [|split; assumption].
  intros j x Hj. rewrite Hcp by (apply nthN_Some_lt in Hj; lia). apply Hat. exact Hj.
Qed.

(* ====================================================================== *)
(* H. the chunk chain                                                      *)
(* ====================================================================== *)
Lemma has0_nul_free l : nul_free l -> has0 l = false.
Proof.
  induction l as [|x l IH]; intros H; [reflexivity|]. apply nul_free_cons in H. destruct H as [Hx Hl].
  cbn [has0]. destruct (N.eqb_spec x 0); [contradiction|]. cbn [orb]. auto.
Qed.

Lemma has0_mid a r : has0 (a ++ 0 :: r) = true.
Proof. induction a as [|x a IH]; cbn [app has0]; [reflexivity|]. rewrite IH. apply orb_true_r. Qed.

Lemma idx0_mid a r : nul_free a -> idx0 (a ++ 0 :: r) = lenN a.
Proof.
  induction a as [|x a IH]; intros H; cbn [app idx0]; [reflexivity|].
  apply nul_free_cons in H. destruct H as [Hx Hl]. destruct (N.eqb_spec x 0); [contradiction|].
  rewrite IH by exact Hl. rewrite lenN_cons. reflexivity.
Qed.

Lemma nul_free_app a b : nul_free (a ++ b) <-> nul_free a /\ nul_free b.
Proof. unfold nul_free. apply Forall_app. Qed.

(* table entries read from bit state bs until [need] symbols are there *)
Inductive reads (d : htfc) : bst -> list N -> N -> bst -> list N -> Prop :=
| reads_done bs A need : need <= lenN A -> reads d bs A need bs A
| reads_step bs A need pos syms bs1 bs' A' :
    lenN A < need -> bstep d bs = Some (CReg pos syms (has0 syms), bs1) -> syms <> [] ->
    (has0 syms = true -> buf_strlen (h_stream d) pos = Some (idx0 syms)) ->
    reads d bs1 (A ++ syms) need bs' A' -> reads d bs A need bs' A'.

Lemma item_walk_sound d : forall fuel bs A need bs' A',
  item_walk fuel d bs A need = Some (bs', A') -> reads d bs A need bs' A'.
Proof.
  induction fuel as [|f IH]; intros bs A need bs' A' H.
  - cbn [item_walk] in H. destruct (N.leb_spec need (lenN A)); [|discriminate].
    inversion H; subst. constructor. assumption.
  - cbn [item_walk] in H. destruct (N.leb_spec need (lenN A)) as [Hle|Hlt].
    + inversion H; subst. constructor. assumption.
    + destruct (bstep d bs) as [[e bs1]|] eqn:Eb; [|discriminate].
      destruct e as [pos syms ending|]; [|discriminate].
      destruct (negb (lenN syms =? 0) && Bool.eqb ending (has0 syms) &&
                (if ending then match buf_strlen (h_stream d) pos with Some sl => sl =? idx0 syms | None => false end
                 else true)) eqn:Ec; [|discriminate].
      apply andb_true_iff in Ec. destruct Ec as [Ec Hs]. apply andb_true_iff in Ec. destruct Ec as [Hn He].
      apply Bool.eqb_prop in He. subst ending.
      apply (reads_step d bs A need pos syms bs1 bs' A'); auto.
      * destruct syms; [discriminate|]. discriminate.
      * intros Hh. rewrite Hh in Hs. destruct (buf_strlen (h_stream d) pos) as [sl|]; [|discriminate].
        apply N.eqb_eq in Hs. subst sl. reflexivity.
Qed.

Lemma reads_extends d bs A need bs' A' : reads d bs A need bs' A' -> exists X, A' = A ++ X.
Proof.
  induction 1 as [bs A need Hle|bs A need pos syms bs1 bs' A' Hlt Eb Hne Hs Hr [X HX]].
  - exists []. rewrite app_nil_r. reflexivity.
  - exists (syms ++ X). rewrite HX, app_assoc. reflexivity.
Qed.

(* ====================================================================== *)
(* I. one processChunk step of the string assembly                         *)
(* ====================================================================== *)
Lemma wu32_small x : x < 2 ^ 32 -> wu32 x = x.
Proof. intros H. unfold wu32. apply N.mod_small. exact H. Qed.

Lemma wsub32_small a b : b <= a -> a < 2 ^ 32 -> wsub32 a b = a - b.
Proof.
  intros H1 H2. unfold wsub32. rewrite (N.mod_small b) by lia.
  replace (a + 2 ^ 32 - b) with (a - b + 1 * 2 ^ 32) by lia.
  rewrite N.mod_add by lia. apply N.mod_small. lia.
Qed.

(* the upcoming symbols are R (NUL-free), the NUL, then A' *)
Lemma upcoming_split (syms X R A' : list N) : syms ++ X = R ++ 0 :: A' -> nul_free R ->
  (lenN syms <= lenN R /\ exists R', R = syms ++ R' /\ X = R' ++ 0 :: A' /\ nul_free syms) \/
  (lenN R < lenN syms /\ exists s2, syms = R ++ 0 :: s2 /\ A' = s2 ++ X).
Proof.
  intros E HR. destruct (app_eq_app _ _ _ _ E) as [w [[E1 E2]|[E1 E2]]].
  - (* syms = R ++ w *) destruct w as [|z w].
    + rewrite app_nil_r in E1. subst syms. left. split; [lia|]. exists []. rewrite app_nil_r.
      cbn [app] in E2. split; [reflexivity|]. split; [symmetry; exact E2|exact HR].
    + cbn [app] in E2. inversion E2; subst. right. split.
      * rewrite lenN_app, lenN_cons. lia.
      * exists w. split; reflexivity.
  - (* R = syms ++ w *) left. subst R. apply nul_free_app in HR. destruct HR as [Hs Hw].
    split; [rewrite lenN_app; lia|]. exists w. split; [reflexivity|]. split; [exact E2|exact Hs].
Qed.

Section Step.
  Variables (d : htfc) (cap : N).
  Hypothesis Hcap : cap < 2 ^ 32.

  Lemma pc_step bs a pos syms bs1 X R A' L n :
    a_len a = L -> L <= lenN (a_buf a) -> a_ext a = n ->
    bstep d bs = Some (CReg pos syms (has0 syms), bs1) -> syms <> [] ->
    (has0 syms = true -> buf_strlen (h_stream d) pos = Some (idx0 syms)) ->
    nul_free R -> syms ++ X = R ++ 0 :: A' ->
    (lenN R < lenN syms -> 2 < n + lenN syms) ->
    L + lenN syms <= cap -> n + lenN syms < 2 ^ 32 ->
    exists a', process_chunk d cap bs a = Some (bs1, a', negb (lenN syms <=? lenN R)) /\
      buf_at (a_buf a') L syms /\ (forall k, k < L -> nthN (a_buf a') k = nthN (a_buf a) k) /\
      a_ext a' = n + lenN syms /\ a_len a' <= lenN (a_buf a') /\
      (lenN syms <= lenN R -> a_len a' = L + lenN syms) /\
      (lenN R < lenN syms -> a_len a' = L + lenN R + 1 /\ a_adv a' = lenN syms - lenN R - 1).
  Proof.
    intros HL HLb Hn Eb Hne Hs HR Eup Hext HcapL Hn32.
    unfold process_chunk. rewrite Eb. cbn [asm_step]. rewrite HL, Hn.
    destruct (buf_write_list_spec syms (a_buf a) cap L HLb HcapL) as (buf' & Ew & Hat & Hfr & Hlen).
    rewrite Ew. rewrite (wu32_small (n + lenN syms)) by exact Hn32.
    destruct (upcoming_split _ _ _ _ Eup HR) as [[Hle (R' & ER & EX & Hnf)]|[Hlt (s2 & Es & EA)]].
    - (* no NUL in this entry *)
      destruct (N.leb_spec (lenN syms) (lenN R)); [|lia]. cbn [negb].
      rewrite (has0_nul_free _ Hnf).
      destruct (n + lenN syms <=? 2).
      + eexists. split; [reflexivity|]. cbn [a_buf a_len a_ext a_adv].
        rewrite (wu32_small (L + lenN syms)) by lia.
        split; [exact Hat|]. split; [intros k Hk; apply Hfr; lia|]. split; [reflexivity|].
        split; [lia|]. split; [reflexivity|lia].
      + eexists. split; [reflexivity|]. cbn [a_buf a_len a_ext a_adv].
        rewrite (wu32_small (L + lenN syms)) by lia.
        split; [exact Hat|]. split; [intros k Hk; apply Hfr; lia|]. split; [reflexivity|].
        split; [lia|]. split; [reflexivity|lia].
    - (* the entry holds the NUL *)
      destruct (N.leb_spec (lenN syms) (lenN R)); [lia|]. cbn [negb].
      specialize (Hext Hlt). destruct (N.leb_spec (n + lenN syms) 2); [lia|].
      assert (Hh : has0 syms = true) by (rewrite Es; apply has0_mid).
      rewrite Hh. rewrite (Hs Hh). assert (Ei : idx0 syms = lenN R) by (rewrite Es; apply idx0_mid; exact HR).
      rewrite Ei. rewrite (wu32_small (lenN R + 1)) by lia.
      eexists. split; [reflexivity|]. cbn [a_buf a_len a_ext a_adv].
      rewrite (wu32_small (L + (lenN R + 1))) by lia. rewrite wsub32_small by lia.
      split; [exact Hat|]. split; [intros k Hk; apply Hfr; lia|]. split; [reflexivity|].
      split; [lia|]. split; [lia|]. intros _. split; lia.
  Qed.
End Step.

(* ====================================================================== *)
(* J. the loops of decodeString                                            *)
(* ====================================================================== *)
Lemma ds_rest_eq fuel d cap b a fin :
  ds_rest fuel d cap b a fin =
  if fin then Some (b, a)
  else match fuel with
       | O => None
       | S f => match process_chunk d cap b a with
                | None => None
                | Some (b', a', fin') => ds_rest f d cap b' a' fin'
                end
       end.
Proof. destruct fuel; reflexivity. Qed.

Lemma ds_first_eq fuel d cap prevLen b a fin :
  ds_first fuel d cap prevLen b a fin =
  if wsub32 (a_len a) prevLen <? 2 then
    match fuel with
    | O => None
    | S f => match process_chunk d cap b a with
             | None => None
             | Some (b', a', fin') => ds_first f d cap prevLen b' a' fin'
             end
    end
  else Some (b, a, fin).
Proof. destruct fuel; reflexivity. Qed.

Lemma buf_at_frame buf buf' i l :
  buf_at buf i l -> (forall k, i <= k -> k < i + lenN l -> nthN buf' k = nthN buf k) -> buf_at buf' i l.
Proof.
  intros H Hfr j x Hj. rewrite Hfr; [apply H; exact Hj|lia|]. apply nthN_Some_lt in Hj. lia.
Qed.

Lemma reads_done_inv d bs A need bs' A' : reads d bs A need bs' A' -> need <= lenN A -> bs' = bs /\ A' = A.
Proof. intros H Hle. inversion H; subst; [split; reflexivity|lia]. Qed.

Section Loops.
  Variables (d : htfc) (cap : N).
  Hypothesis Hcap : cap < 2 ^ 32.

  (* `while (!end) end = processChunk(c)` once at least two symbols of the item have been seen:
     Acc = the symbols of the item seen so far, R = the rest of its body, then the NUL, then A' *)
  Lemma ds_rest_spec bs Acc need bs' Afull : reads d bs Acc need bs' Afull ->
    forall R A' a L fuel,
    Afull = Acc ++ R ++ 0 :: A' -> need = lenN Acc + lenN R + 1 -> nul_free R -> 2 <= lenN Acc ->
    a_len a = L -> L <= lenN (a_buf a) -> a_ext a = lenN Acc ->
    L + lenN R + 1 + lenN A' <= cap -> lenN Afull < 2 ^ 32 ->
    (N.to_nat (lenN R) < fuel)%nat ->
    exists a', ds_rest fuel d cap bs a false = Some (bs', a') /\
      buf_at (a_buf a') L (R ++ 0 :: A') /\ (forall k, k < L -> nthN (a_buf a') k = nthN (a_buf a) k) /\
      a_len a' = L + lenN R + 1 /\ a_adv a' = lenN A' /\ a_len a' <= lenN (a_buf a').
  Proof.
    induction 1 as [bs Acc need Hle|bs Acc need pos syms bs1 bs' Afull Hlt Eb Hne Hs Hr IH];
      intros R A' a L fuel EA En HR H2 HL HLb Hext Hcp H32 Hf.
    - lia.
    - destruct (reads_extends _ _ _ _ _ _ Hr) as [X EX].
      assert (Eup : syms ++ X = R ++ 0 :: A').
      { rewrite EA, <- app_assoc in EX. apply app_inv_head in EX. symmetry. exact EX. }
      assert (Hlens : lenN Afull = lenN Acc + lenN syms + lenN X) by (rewrite EX, !lenN_app; lia).
      assert (Hlens2 : lenN syms + lenN X = lenN R + 1 + lenN A').
      { apply (f_equal lenN) in Eup. rewrite !lenN_app, lenN_cons in Eup. lia. }
      destruct fuel as [|f]; [lia|]. rewrite ds_rest_eq.
      assert (Hsl : 1 <= lenN syms) by (destruct syms; [congruence|rewrite lenN_cons; lia]).
      destruct (upcoming_split _ _ _ _ Eup HR) as [[Hle (R' & ER & EX' & Hnf)]|[Hlt' (s2 & Es & EA')]].
      + destruct (pc_step d cap Hcap bs a pos syms bs1 X R A' L (lenN Acc) HL HLb Hext Eb Hne Hs HR Eup
                    ltac:(lia) ltac:(lia) ltac:(lia))
          as (a1 & Ep & Hat & Hfr & Hex & Hlb & Hl1 & _).
        rewrite Ep. destruct (N.leb_spec (lenN syms) (lenN R)); [|lia]. cbn [negb].
        specialize (Hl1 Hle).
        assert (ElR : lenN R = lenN syms + lenN R') by (rewrite ER, lenN_app; reflexivity).
        destruct (IH R' A' a1 (L + lenN syms) f) as (a' & Ed & Hat' & Hfr' & Hl' & Had' & Hlb');
          try assumption; try lia.
        * rewrite EA, ER, <- !app_assoc. reflexivity.
        * rewrite lenN_app. lia.
        * rewrite ER in HR. apply nul_free_app in HR. apply HR.
        * rewrite lenN_app. lia.
        * rewrite lenN_app. lia.
        * exists a'. split; [exact Ed|]. split; [|split; [|split; [|split]]]; try lia; try assumption.
          -- rewrite ER, <- app_assoc. apply buf_at_app. split; [|exact Hat'].
             apply (buf_at_frame (a_buf a1)); [exact Hat|]. intros k Hk1 Hk2. apply Hfr'. lia.
          -- intros k Hk. rewrite Hfr' by lia. apply Hfr. exact Hk.
      + destruct (pc_step d cap Hcap bs a pos syms bs1 X R A' L (lenN Acc) HL HLb Hext Eb Hne Hs HR Eup
                    ltac:(lia) ltac:(lia) ltac:(lia))
          as (a1 & Ep & Hat & Hfr & Hex & Hlb & _ & Hl2).
        rewrite Ep. destruct (N.leb_spec (lenN syms) (lenN R)); [lia|]. cbn [negb].
        destruct (Hl2 Hlt') as [Hl2a Hl2b]. rewrite ds_rest_eq.
        (* the sub-derivation is finished: Afull = Acc ++ syms *)
        destruct (reads_done_inv _ _ _ _ _ _ Hr) as [Ebs EAf].
        { rewrite lenN_app. lia. }
        assert (HX : X = []).
        { rewrite EAf in EX. rewrite <- (app_nil_r (Acc ++ syms)) in EX at 1. apply app_inv_head in EX. auto. }
        subst X. rewrite app_nil_r in EA'. subst s2.
        subst bs'. exists a1. split; [reflexivity|]. rewrite <- Es.
        split; [exact Hat|]. split; [exact Hfr|]. split; [exact Hl2a|]. split; [|exact Hlb].
        rewrite Hl2b, Es, lenN_app, lenN_cons. lia.
  Qed.

  (* `while ((c->strLen - prevLen) < 2) end = processChunk(c)`: Acc = the symbols of the item already there
     (handed out in advance), stored at str[P ..] *)
  Lemma ds_first_spec bs Acc need bs' Afull : reads d bs Acc need bs' Afull ->
    forall R A' a P fuel,
    Afull = Acc ++ R ++ 0 :: A' -> need = lenN Acc + lenN R + 1 -> nul_free R -> 2 <= lenN Acc + lenN R ->
    a_len a = P + lenN Acc -> a_len a <= lenN (a_buf a) -> a_ext a = lenN Acc ->
    P + lenN Afull <= cap ->
    (N.to_nat (2 - lenN Acc) < fuel)%nat ->
    exists bs1 a1 fin1, ds_first fuel d cap P bs a false = Some (bs1, a1, fin1) /\
      (forall k, k < P + lenN Acc -> nthN (a_buf a1) k = nthN (a_buf a) k) /\ a_len a1 <= lenN (a_buf a1) /\
      ((fin1 = false /\ exists New, 2 <= lenN (Acc ++ New) /\ lenN (Acc ++ New) < need /\
          reads d bs1 (Acc ++ New) need bs' Afull /\ a_len a1 = P + lenN (Acc ++ New) /\
          a_ext a1 = lenN (Acc ++ New) /\ buf_at (a_buf a1) (P + lenN Acc) New) \/
       (fin1 = true /\ bs1 = bs' /\ a_len a1 = P + need /\ a_adv a1 = lenN A' /\
          buf_at (a_buf a1) (P + lenN Acc) (R ++ 0 :: A'))).
  Proof.
    induction 1 as [bs Acc need Hle|bs Acc need pos syms bs1 bs' Afull Hlt Eb Hne Hs Hr IH];
      intros R A' a P fuel EA En HR H2 HL HLb Hext Hcp Hf.
    - lia.
    - assert (HlenA : lenN Afull = lenN Acc + lenN R + 1 + lenN A').
      { rewrite EA, !lenN_app, lenN_cons. lia. }
      rewrite ds_first_eq. rewrite HL. rewrite wsub32_small by lia. replace (P + lenN Acc - P) with (lenN Acc) by lia.
      destruct (N.ltb_spec (lenN Acc) 2) as [Hsmall|Hbig].
      2:{ exists bs, a, false. split; [reflexivity|]. split; [reflexivity|]. split; [lia|].
          left. split; [reflexivity|]. exists []. rewrite app_nil_r.
          split; [lia|]. split; [lia|]. split; [|split; [exact HL|split; [exact Hext|apply buf_at_nil]]].
          apply (reads_step d bs Acc need pos syms bs1 bs' Afull); assumption. }
      destruct fuel as [|f]; [lia|].
      destruct (reads_extends _ _ _ _ _ _ Hr) as [X EX].
      assert (Eup : syms ++ X = R ++ 0 :: A').
      { rewrite EA, <- app_assoc in EX. apply app_inv_head in EX. symmetry. exact EX. }
      assert (Hlens2 : lenN syms + lenN X = lenN R + 1 + lenN A').
      { apply (f_equal lenN) in Eup. rewrite !lenN_app, lenN_cons in Eup. lia. }
      assert (Hsl : 1 <= lenN syms) by (destruct syms; [congruence|rewrite lenN_cons; lia]).
      destruct (pc_step d cap Hcap bs a pos syms bs1 X R A' (P + lenN Acc) (lenN Acc) HL ltac:(lia) Hext Eb Hne Hs HR Eup
                  ltac:(lia) ltac:(lia) ltac:(lia))
        as (a1 & Ep & Hat & Hfr & Hex & Hlb & Hl1 & Hl2).
      rewrite Ep.
      destruct (upcoming_split _ _ _ _ Eup HR) as [[Hle (R' & ER & EX' & Hnf)]|[Hlt' (s2 & Es & EA')]].
      + destruct (N.leb_spec (lenN syms) (lenN R)); [|lia]. cbn [negb]. specialize (Hl1 Hle).
        assert (ElR : lenN R = lenN syms + lenN R') by (rewrite ER, lenN_app; reflexivity).
        destruct (IH R' A' a1 P f) as (bs2 & a2 & fin2 & Ed & Hfr2 & Hlb2 & Hcase);
          try assumption; try (rewrite ?lenN_app; lia).
        * rewrite EA, ER, <- !app_assoc. reflexivity.
        * rewrite ER in HR. apply nul_free_app in HR. apply HR.
        * exists bs2, a2, fin2. split; [exact Ed|]. split; [|split; [exact Hlb2|]].
          { intros k Hk. rewrite Hfr2 by (rewrite lenN_app; lia). apply Hfr. exact Hk. }
          assert (Hsy : buf_at (a_buf a2) (P + lenN Acc) syms).
          { apply (buf_at_frame (a_buf a1)); [exact Hat|]. intros k Hk1 Hk2. apply Hfr2. rewrite lenN_app. lia. }
          destruct Hcase as [(-> & New & N1 & N2 & N3 & N4 & N5 & N6)|(-> & -> & F2 & F3 & F4)].
          -- left. split; [reflexivity|]. exists (syms ++ New). rewrite app_assoc.
             split; [exact N1|]. split; [exact N2|]. split; [exact N3|]. split; [exact N4|]. split; [exact N5|].
             apply buf_at_app. split; [exact Hsy|]. rewrite lenN_app in N6.
             replace (P + lenN Acc + lenN syms) with (P + (lenN Acc + lenN syms)) by lia. exact N6.
          -- right. split; [reflexivity|]. split; [reflexivity|]. split; [exact F2|]. split; [exact F3|].
             rewrite ER, <- app_assoc. apply buf_at_app. split; [exact Hsy|]. rewrite lenN_app in F4.
             replace (P + lenN Acc + lenN syms) with (P + (lenN Acc + lenN syms)) by lia. exact F4.
      + destruct (N.leb_spec (lenN syms) (lenN R)); [lia|]. cbn [negb].
        destruct (Hl2 Hlt') as [Hl2a Hl2b]. rewrite ds_first_eq. rewrite Hl2a.
        rewrite wsub32_small by lia.
        destruct (N.ltb_spec (P + lenN Acc + lenN R + 1 - P) 2); [lia|].
        destruct (reads_done_inv _ _ _ _ _ _ Hr) as [Ebs EAf].
        { rewrite lenN_app. lia. }
        assert (HX : X = []).
        { rewrite EAf in EX. rewrite <- (app_nil_r (Acc ++ syms)) in EX at 1. apply app_inv_head in EX. auto. }
        subst X. rewrite app_nil_r in EA'. subst s2.
        exists bs1, a1, true. split; [reflexivity|]. split; [exact Hfr|]. split; [exact Hlb|].
        right. split; [reflexivity|]. split; [symmetry; exact Ebs|]. split; [lia|]. split.
        * rewrite Hl2b, Es, lenN_app, lenN_cons. lia.
        * rewrite <- Es. exact Hat.
  Qed.
End Loops.

(* ====================================================================== *)
(* K. decodeString on one front-coded item                                 *)
(* ====================================================================== *)
(* the ChunkScan holds the C string s, followed by the symbols A handed out in advance *)
Definition holds_adv (a : ast) (s : str) (A : list N) : Prop :=
  a_len a = lenN s + 1 /\ a_adv a = lenN A /\ buf_at (a_buf a) 0 (s ++ 0 :: A).

Lemma vb_decode_single l rest : l < 128 -> vb_decode ((l + 128) :: rest) = Some (l, 1).
Proof.
  intros H. unfold vb_decode. cbn [vb_decode_from].
  rewrite (testbit7_big l H), (land127_of_flagged l H), N.shiftl_0_r.
  unfold W32. rewrite N.mod_small by (assert (2 ^ 7 < 2 ^ 32) by (apply N.pow_lt_mono_r; lia); change (2 ^ 7) with 128 in *; lia).
  rewrite N.lor_0_l. reflexivity.
Qed.

Lemma firstN_length_le {A} (n : N) (l : list A) : n <= lenN l -> lenN (firstN n l) = n.
Proof. intros H. unfold lenN, firstN in *. rewrite firstn_length. lia. Qed.

Lemma buf_at_firstN buf i n l : buf_at buf i l -> buf_at buf i (firstN n l).
Proof.
  intros H j x Hj. apply H. unfold nthN, firstN in *.
  destruct (Nat.lt_ge_cases (N.to_nat j) (N.to_nat n)) as [Hlt|Hge].
  - rewrite <- (firstn_skipn (N.to_nat n) l). rewrite nth_error_app1; [exact Hj|].
    assert (nth_error (firstn (N.to_nat n) l) (N.to_nat j) <> None) by congruence.
    apply nth_error_Some in H0. exact H0.
  - assert (nth_error (firstn (N.to_nat n) l) (N.to_nat j) = None).
    { apply nth_error_None. rewrite firstn_length. lia. }
    congruence.
Qed.

(* a proper prefix of body ++ [0] ++ A' that is shorter than body ++ [0] is a prefix of body *)
Lemma prefix_of_body (Acc X body A' : list N) : Acc ++ X = body ++ 0 :: A' -> lenN Acc <= lenN body ->
  exists R, body = Acc ++ R /\ X = R ++ 0 :: A'.
Proof.
  intros E Hl. destruct (app_eq_app _ _ _ _ E) as [w [[E1 E2]|[E1 E2]]].
  - destruct w as [|z w].
    + rewrite app_nil_r in E1. subst Acc. exists []. rewrite app_nil_r. split; [reflexivity|]. symmetry. exact E2.
    + subst Acc. rewrite lenN_app, lenN_cons in Hl. lia.
  - exists w. split; [exact E1|exact E2].
Qed.

Section Item.
  Variables (d : htfc) (cap : N).
  Hypothesis Hcap : cap < 2 ^ 32.
  Variables (prev : str) (l : N) (suf : list N).
  Hypothesis Hprev : nul_free prev.
  Hypothesis Hl : l <= lenN prev.
  Hypothesis Hl128 : l < 128.
  Hypothesis Hsuf : nul_free suf.
  Hypothesis Hsne : suf <> [].

  Let P := lenN prev + 1.
  Let body := (l + 128) :: suf.
  Let item := body ++ [0].
  Let cur := firstN l prev ++ suf.

  Lemma body_nul_free : nul_free body.
  Proof. unfold body. apply nul_free_cons. split; [lia|exact Hsuf]. Qed.

  Lemma lenN_suf : 1 <= lenN suf.
  Proof. destruct suf; [congruence|rewrite lenN_cons; lia]. Qed.

  Lemma lenN_cur : lenN cur = l + lenN suf.
  Proof. unfold cur. rewrite lenN_app, firstN_length_le by exact Hl. reflexivity. Qed.

  (* the three pieces of the result *)
  Lemma holds_adv_pieces a A' : a_len a = l + lenN suf + 1 -> a_adv a = lenN A' ->
    buf_at (a_buf a) 0 (firstN l prev) -> buf_at (a_buf a) l (suf ++ [0]) ->
    buf_at (a_buf a) (l + lenN suf + 1) A' -> holds_adv a cur A'.
  Proof.
    intros H1 H2 H3 H4 H5. unfold holds_adv. rewrite lenN_cur. split; [exact H1|]. split; [exact H2|].
    unfold cur. rewrite <- app_assoc. apply buf_at_app. split; [exact H3|].
    rewrite firstN_length_le by exact Hl. rewrite N.add_0_l.
    change (suf ++ 0 :: A') with (suf ++ [0] ++ A'). rewrite app_assoc. apply buf_at_app. split; [exact H4|].
    rewrite lenN_app. change (lenN [0]) with 1. replace (l + (lenN suf + 1)) with (l + lenN suf + 1) by lia. exact H5.
  Qed.

  (* the part of decodeString after the `advanced` test: A (NUL-free, shorter than the item) sits at str[P ..] *)
  Lemma ds_main_item bs a1 A bs' Afull A' :
    reads d bs A (lenN item) bs' Afull -> Afull = item ++ A' -> lenN A < lenN item ->
    a_len a1 = P + lenN A -> a_len a1 <= lenN (a_buf a1) -> a_ext a1 = lenN A ->
    buf_at (a_buf a1) 0 (prev ++ [0]) -> buf_at (a_buf a1) P A ->
    P + lenN Afull < cap ->
    exists a', ds_main d cap P bs a1 = Some (bs', a', l) /\ holds_adv a' cur A'.
  Proof.
    intros Hr EA HlA HL HLb Hext Hb0 HbA Hcp.
    pose proof lenN_suf as Hs1.
    assert (Hitem : lenN item = lenN suf + 2).
    { unfold item, body. rewrite lenN_app, lenN_cons. change (lenN [0]) with 1. lia. }
    assert (HAf : lenN Afull = lenN suf + 2 + lenN A') by (rewrite EA, lenN_app, Hitem; reflexivity).
    destruct (reads_extends _ _ _ _ _ _ Hr) as [X EX].
    assert (EX2 : A ++ X = body ++ 0 :: A').
    { rewrite <- EX, EA. unfold item. rewrite <- app_assoc. reflexivity. }
    destruct (prefix_of_body A X body A' EX2) as (R & EbR & EXR).
    { unfold body. rewrite lenN_cons. lia. }
    assert (HR : nul_free R).
    { pose proof body_nul_free as Hb. rewrite EbR in Hb. apply nul_free_app in Hb. apply Hb. }
    assert (Hlb : lenN body = lenN A + lenN R) by (rewrite EbR, lenN_app; reflexivity).
    assert (Hbl : lenN body = lenN suf + 1) by (unfold body; rewrite lenN_cons; lia).
    unfold ds_main.
    destruct (ds_first_spec d cap Hcap bs A (lenN item) bs' Afull Hr R A' a1 P 3)
      as (bs1 & a2 & fin1 & Ed & Hfr & Hlb2 & Hcase); try assumption; try lia.
    { rewrite EX, EXR. reflexivity. }
    rewrite Ed.
    assert (Hb0' : buf_at (a_buf a2) 0 (prev ++ [0])).
    { apply (buf_at_frame (a_buf a1)); [exact Hb0|]. intros k _ Hk. apply Hfr.
      rewrite lenN_app in Hk. change (lenN [0]) with 1 in Hk. unfold P. lia. }
    assert (HbA' : buf_at (a_buf a2) P A).
    { apply (buf_at_frame (a_buf a1)); [exact HbA|]. intros k _ Hk. apply Hfr. lia. }
    assert (Hpre : buf_at (a_buf a2) 0 (firstN l prev)).
    { apply buf_at_firstN. apply buf_at_app in Hb0'. apply Hb0'. }
    destruct Hcase as [(-> & New & N1 & N2 & N3 & N4 & N5 & N6)|(-> & -> & F2 & F3 & F4)].
    - (* the NUL has not been seen yet *)
      set (Seen := A ++ New) in *.
      assert (HbS : buf_at (a_buf a2) P Seen).
      { unfold Seen. apply buf_at_app. split; assumption. }
      destruct (reads_extends _ _ _ _ _ _ N3) as [X1 EX1].
      assert (EX3 : Seen ++ X1 = body ++ 0 :: A').
      { rewrite <- EX1, EA. unfold item. rewrite <- app_assoc. reflexivity. }
      destruct (prefix_of_body Seen X1 body A' EX3) as (R1 & EbR1 & EXR1); [lia|].
      assert (HR1 : nul_free R1).
      { pose proof body_nul_free as Hb. rewrite EbR1 in Hb. apply nul_free_app in Hb. apply Hb. }
      (* Seen = (l + 128) :: S1 *)
      destruct Seen as [|v S1] eqn:ESeen; [change (lenN (@nil N)) with 0 in N1; lia|].
      unfold body in EbR1. cbn [app] in EbR1. inversion EbR1 as [[Ev ES1]]. subst v.
      rewrite lenN_cons in N1, N2, N4, N5.
      rewrite N4. rewrite wsub32_small by lia. replace (P + (1 + lenN S1) - P) with (1 + lenN S1) by lia.
      destruct (N.leb_spec P (lenN (a_buf a2))); [|lia].
      destruct (buf_at_skipN _ _ _ HbS) as [rest Hrest]. rewrite Hrest. cbn [app].
      rewrite (vb_decode_single l _ Hl128).
      replace (1 + lenN S1 - 1) with (lenN S1) by lia.
      apply buf_at_cons in HbS. destruct HbS as [_ HbS1].
      assert (HlS : lenN suf = lenN S1 + lenN R1) by (rewrite ES1, lenN_app; reflexivity).
      destruct (buf_copy_spec (lenN S1) (a_buf a2) cap (P + 1) l S1 ltac:(unfold P; lia) HbS1 eq_refl ltac:(unfold P in *; lia))
        as (buf2 & Ec & Hat2 & Hfr2 & Hlen2).
      rewrite Ec. cbn [andb]. rewrite (wu32_small (l + lenN S1)) by (unfold P in *; lia).
      destruct (ds_rest_spec d cap Hcap bs1 (l + 128 :: S1) (lenN item) bs' Afull N3 R1 A'
                  {| a_buf := buf2; a_len := l + lenN S1; a_adv := a_adv a2; a_ext := a_ext a2 |}
                  (l + lenN S1) (S (N.to_nat cap)))
        as (a' & Er & Hat' & Hfr' & Hl' & Had' & Hlb');
        try (cbn [a_buf a_len a_ext a_adv]); try assumption; try (rewrite ?lenN_cons; unfold P in *; lia).
      { rewrite EX1, EXR1. reflexivity. }
      rewrite Er. exists a'. split; [reflexivity|].
      apply holds_adv_pieces.
      + rewrite Hl'. lia.
      + exact Had'.
      + apply (buf_at_frame buf2).
        * apply (buf_at_frame (a_buf a2)); [exact Hpre|]. intros k _ Hk. apply Hfr2.
          rewrite firstN_length_le in Hk by exact Hl. lia.
        * intros k _ Hk. apply Hfr'. cbn [a_len]. rewrite firstN_length_le in Hk by exact Hl. lia.
      + rewrite ES1, <- app_assoc. apply buf_at_app. split.
        * apply (buf_at_frame buf2); [exact Hat2|]. intros k _ Hk. apply Hfr'. lia.
        * change (R1 ++ 0 :: A') with (R1 ++ [0] ++ A') in Hat'. rewrite app_assoc in Hat'.
          apply buf_at_app in Hat'. apply Hat'.
      + replace (l + lenN suf + 1) with (l + lenN S1 + lenN (R1 ++ [0])) by (rewrite lenN_app; change (lenN [0]) with 1; lia).
        change (R1 ++ 0 :: A') with (R1 ++ [0] ++ A') in Hat'. rewrite app_assoc in Hat'.
        apply buf_at_app in Hat'. apply Hat'.
    - (* the first loop already reached the NUL *)
      assert (HbI : buf_at (a_buf a2) P (body ++ 0 :: A')).
      { rewrite EbR, <- app_assoc. apply buf_at_app. split; assumption. }
      rewrite F2. rewrite wsub32_small by lia. replace (P + lenN item - P) with (lenN item) by lia.
      destruct (N.leb_spec P (lenN (a_buf a2))); [|lia].
      destruct (buf_at_skipN _ _ _ HbI) as [rest Hrest]. rewrite Hrest. unfold body at 1. cbn [app].
      rewrite (vb_decode_single l _ Hl128). rewrite Hitem.
      replace (lenN suf + 2 - 1) with (lenN (suf ++ [0])) by (rewrite lenN_app; change (lenN [0]) with 1; lia).
      unfold body in HbI. cbn [app] in HbI. apply buf_at_cons in HbI. destruct HbI as [_ HbI].
      change (suf ++ 0 :: A') with (suf ++ [0] ++ A') in HbI. rewrite app_assoc in HbI.
      apply buf_at_app in HbI. destruct HbI as [HbS HbA2].
      assert (Hls0 : lenN (suf ++ [0]) = lenN suf + 1) by (rewrite lenN_app; reflexivity).
      destruct (buf_copy_spec (lenN (suf ++ [0])) (a_buf a2) cap (P + 1) l (suf ++ [0]) ltac:(unfold P; lia) HbS eq_refl
                  ltac:(unfold P in *; lia)) as (buf2 & Ec & Hat2 & Hfr2 & Hlen2).
      rewrite Ec. cbn [andb]. rewrite Hls0. rewrite (wu32_small (l + (lenN suf + 1))) by (unfold P in *; lia).
      rewrite F3.
      assert (HbA3 : buf_at buf2 (P + 1 + (lenN suf + 1)) A').
      { rewrite Hls0 in HbA2. apply (buf_at_frame (a_buf a2)); [exact HbA2|]. intros k Hk _. apply Hfr2. unfold P in *. lia. }
      destruct (N.ltb_spec 0 (lenN A')) as [Hpos|Hzero].
      + replace (P + (lenN suf + 2)) with (P + 1 + (lenN suf + 1)) by lia.
        destruct (buf_copy_spec (lenN A') buf2 cap (P + 1 + (lenN suf + 1)) (l + (lenN suf + 1)) A'
                    ltac:(unfold P; lia) HbA3 eq_refl ltac:(unfold P in *; lia)) as (buf3 & Ec3 & Hat3 & Hfr3 & Hlen3).
        rewrite Ec3. rewrite ds_rest_eq. eexists. split; [reflexivity|].
        apply holds_adv_pieces; cbn [a_buf a_len a_adv].
        * lia.
        * reflexivity.
        * apply (buf_at_frame buf2).
          -- apply (buf_at_frame (a_buf a2)); [exact Hpre|]. intros k _ Hk. apply Hfr2.
             rewrite firstN_length_le in Hk by exact Hl. lia.
          -- intros k _ Hk. apply Hfr3. rewrite firstN_length_le in Hk by exact Hl. lia.
        * apply (buf_at_frame buf2); [exact Hat2|]. intros k _ Hk. apply Hfr3. lia.
        * replace (l + lenN suf + 1) with (l + (lenN suf + 1)) by lia. exact Hat3.
      + rewrite ds_rest_eq. eexists. split; [reflexivity|].
        assert (A' = []) by (destruct A'; [reflexivity|rewrite lenN_cons in Hzero; lia]). subst A'.
        apply holds_adv_pieces; cbn [a_buf a_len a_adv].
        * lia.
        * reflexivity.
        * apply (buf_at_frame (a_buf a2)); [exact Hpre|]. intros k _ Hk. apply Hfr2.
          rewrite firstN_length_le in Hk by exact Hl. lia.
        * exact Hat2.
        * apply buf_at_nil.
  Qed.
End Item.

Lemma take0_app_nul_free a r : nul_free a -> take0 (a ++ 0 :: r) = Some a.
Proof. apply take0_spec. Qed.

(* StatCoder::decodeString on the item  VByte(l) ++ suf ++ NUL  (l < 128):  the table entries read from bit
   state bs, together with the symbols A handed out in advance, start with the item; the rest A' is handed
   out in advance to the next call *)
Theorem decode_string_item d cap prev l suf bs a A bs' Afull A' :
  cap < 2 ^ 32 -> nul_free prev -> l <= lenN prev -> l < 128 -> nul_free suf -> suf <> [] ->
  holds_adv a prev A ->
  reads d bs A (lenN (((l + 128) :: suf) ++ [0])) bs' Afull -> Afull = (((l + 128) :: suf) ++ [0]) ++ A' ->
  lenN prev + 1 + lenN Afull < cap ->
  exists a', decode_string d cap bs a = Some (bs', a', l) /\ holds_adv a' (firstN l prev ++ suf) A'.
Proof.
  intros Hcap Hprev Hl Hl128 Hsuf Hsne (HL & Hadv & Hbuf) Hr EA Hcp.
  set (P := lenN prev + 1) in *.
  assert (Hs1 : 1 <= lenN suf) by (destruct suf; [congruence|rewrite lenN_cons; lia]).
  assert (Hitem : lenN (((l + 128) :: suf) ++ [0]) = lenN suf + 2).
  { rewrite lenN_app, lenN_cons. change (lenN [0]) with 1. lia. }
  assert (HAf : lenN Afull = lenN suf + 2 + lenN A') by (rewrite EA, lenN_app, Hitem; reflexivity).
  destruct (reads_extends _ _ _ _ _ _ Hr) as [X EX].
  assert (HlA : lenN A <= lenN Afull) by (rewrite EX, lenN_app; lia).
  change (prev ++ 0 :: A) with (prev ++ [0] ++ A) in Hbuf. rewrite app_assoc in Hbuf.
  apply buf_at_app in Hbuf. destruct Hbuf as [Hb0 HbA]. rewrite lenN_app in HbA. change (lenN [0]) with 1 in HbA.
  rewrite N.add_0_l in HbA. fold P in HbA.
  assert (Hblen : P <= lenN (a_buf a)).
  { destruct (buf_at_len _ _ _ Hb0) as [H|H]; [rewrite lenN_app in H; change (lenN [0]) with 1 in H; unfold P; lia|].
    destruct prev; discriminate. }
  unfold decode_string. rewrite HL, Hadv. fold P.
  destruct (N.eqb_spec (lenN A) 0) as [EA0|NA0]; cbn [negb].
  - (* nothing was handed out in advance *)
    assert (A = []) by (destruct A; [reflexivity|rewrite lenN_cons in EA0; lia]). subst A.
    apply (ds_main_item d cap Hcap prev l suf Hl Hl128 Hsuf Hsne bs _ [] bs' Afull A'); cbn [a_buf a_len a_ext];
      try assumption; try (change (lenN (@nil N)) with 0; lia).
  - (* c->str[prevLen + c->advanced] = 0 *)
    assert (HAlen : P + lenN A <= lenN (a_buf a)).
    { destruct (buf_at_len _ _ _ HbA) as [H|H]; [exact H|]. subst A. change (lenN (@nil N)) with 0 in NA0. lia. }
    destruct (buf_write_spec (a_buf a) cap (P + lenN A) 0 HAlen ltac:(lia)) as (buf1 & Ew & Hz & Hfr1 & Hlen1).
    rewrite Ew.
    assert (Hb0' : buf_at buf1 0 (prev ++ [0])).
    { apply (buf_at_frame (a_buf a)); [exact Hb0|]. intros k _ Hk. apply Hfr1.
      rewrite lenN_app in Hk. change (lenN [0]) with 1 in Hk. unfold P. lia. }
    assert (HbA' : buf_at buf1 P (A ++ [0])).
    { apply buf_at_app. split.
      - apply (buf_at_frame (a_buf a)); [exact HbA|]. intros k _ Hk. apply Hfr1. lia.
      - apply buf_at_cons. split; [exact Hz|apply buf_at_nil]. }
    destruct (buf_at_skipN _ _ _ HbA') as [rest Hrest].
    unfold buf_strlen. destruct (N.leb_spec P (lenN buf1)); [|lia]. rewrite Hrest.
    destruct (N.le_gt_cases (lenN suf + 2) (lenN A)) as [Hin|Hout].
    + (* the whole item was handed out in advance *)
      destruct (reads_done_inv _ _ _ _ _ _ Hr ltac:(lia)) as [Ebs EAA]. subst bs'. rewrite EAA in EA. subst A.
      clear Hr EX HlA EAA.
      assert (Hnb : nul_free ((l + 128) :: suf)) by (apply nul_free_cons; split; [lia|exact Hsuf]).
      assert (Hlb : lenN ((l + 128) :: suf) = lenN suf + 1) by (rewrite lenN_cons; lia).
      assert (Enorm : ((((l + 128 :: suf) ++ [0]) ++ A') ++ [0]) ++ rest = (l + 128 :: suf) ++ 0 :: (A' ++ [0] ++ rest))
        by (rewrite <- !app_assoc; reflexivity).
      rewrite Enorm in Hrest. rewrite Enorm. clear Enorm.
      rewrite (take0_app_nul_free _ _ Hnb). cbn [option_map]. rewrite Hlb.
      assert (HlAA : lenN (((l + 128 :: suf) ++ [0]) ++ A') = lenN suf + 2 + lenN A') by (rewrite lenN_app, Hitem; reflexivity).
      rewrite HlAA in *.
      destruct (N.ltb_spec (lenN suf + 1) (lenN suf + 2 + lenN A')); [|lia].
      destruct (N.ltb_spec 0 (lenN suf + 1)); [|lia]. cbn [andb].
      cbn [app]. rewrite (vb_decode_single l _ Hl128).
      assert (Hls0 : lenN (suf ++ [0]) = lenN suf + 1) by (rewrite lenN_app; reflexivity).
      replace (P + (lenN suf + 1) + 1 - (P + 1)) with (lenN (suf ++ [0])) by lia.
      (* the pieces of buf1 *)
      assert (Epieces : (((l + 128 :: suf) ++ [0]) ++ A') ++ [0] = [l + 128] ++ (suf ++ [0]) ++ A' ++ [0])
        by (cbn [app]; rewrite <- !app_assoc; reflexivity).
      rewrite Epieces in HbA'. clear Epieces.
      apply buf_at_app in HbA'. destruct HbA' as [_ HbA'].
      change (lenN [l + 128]) with 1 in HbA'.
      apply buf_at_app in HbA'. destruct HbA' as [HbS HbA2].
      apply buf_at_app in HbA2. destruct HbA2 as [HbA2 _].
      destruct (buf_copy_spec (lenN (suf ++ [0])) buf1 cap (P + 1) l (suf ++ [0]) ltac:(unfold P; lia) HbS eq_refl
                  ltac:(unfold P in *; lia)) as (buf2 & Ec & Hat2 & Hfr2 & Hlen2).
      rewrite Ec. rewrite Hls0. rewrite (wu32_small (l + (lenN suf + 1))) by (unfold P in *; lia).
      assert (Hpre : buf_at buf2 0 (firstN l prev)).
      { apply (buf_at_frame buf1).
        - apply buf_at_firstN. apply buf_at_app in Hb0'. apply Hb0'.
        - intros k _ Hk. apply Hfr2. rewrite firstN_length_le in Hk by exact Hl. lia. }
      destruct (N.eqb_spec (lenN suf + 1 + 1) (lenN suf + 2 + lenN A')) as [Eeq|Eneq]; cbn [negb].
      * assert (A' = []) by (destruct A'; [reflexivity|rewrite lenN_cons in Eeq; lia]). subst A'.
        eexists. split; [reflexivity|].
        apply (holds_adv_pieces cap Hcap prev l suf Hl Hl128); cbn [a_buf a_len a_adv]; try assumption; try lia.
        apply buf_at_nil.
      * replace (lenN suf + 2 + lenN A' - (lenN suf + 1 + 1)) with (lenN A') by lia.
        assert (HbA3 : buf_at buf2 (P + (lenN suf + 1) + 1) A').
        { apply (buf_at_frame buf1).
          - rewrite Hls0 in HbA2. replace (P + (lenN suf + 1) + 1) with (P + 1 + (lenN suf + 1)) by lia. exact HbA2.
          - intros k Hk _. apply Hfr2. unfold P in *. lia. }
        destruct (buf_copy_spec (lenN A') buf2 cap (P + (lenN suf + 1) + 1) (l + (lenN suf + 1)) A'
                    ltac:(unfold P; lia) HbA3 eq_refl ltac:(unfold P in *; lia)) as (buf3 & Ec3 & Hat3 & Hfr3 & Hlen3).
        rewrite Ec3. eexists. split; [reflexivity|].
        apply (holds_adv_pieces cap Hcap prev l suf Hl Hl128); cbn [a_buf a_len a_adv]; try lia.
        -- apply (buf_at_frame buf2); [exact Hpre|]. intros k _ Hk. apply Hfr3.
           rewrite firstN_length_le in Hk by exact Hl. lia.
        -- apply (buf_at_frame buf2); [exact Hat2|]. intros k _ Hk. apply Hfr3. lia.
        -- replace (l + lenN suf + 1) with (l + (lenN suf + 1)) by lia. exact Hat3.
    + (* A is a proper prefix of the item: NUL-free *)
      assert (EX2 : A ++ X = ((l + 128) :: suf) ++ 0 :: A').
      { rewrite <- EX, EA. rewrite <- app_assoc. reflexivity. }
      destruct (prefix_of_body A X ((l + 128) :: suf) A' EX2) as (R & EbR & EXR); [rewrite lenN_cons; lia|].
      assert (HnA : nul_free A).
      { assert (Hb : nul_free ((l + 128) :: suf)) by (apply nul_free_cons; split; [lia|exact Hsuf]).
        rewrite EbR in Hb. apply nul_free_app in Hb. apply Hb. }
      rewrite <- app_assoc. cbn [app]. rewrite take0_app_nul_free by exact HnA. cbn [option_map].
      rewrite N.ltb_irrefl. cbn [andb].
      rewrite (wu32_small (P + lenN A)) by lia.
      apply (ds_main_item d cap Hcap prev l suf Hl Hl128 Hsuf Hsne bs _ A bs' Afull A'); cbn [a_buf a_len a_ext];
        try assumption; try lia.
      * apply buf_at_app in HbA'. apply HbA'.
Qed.

(* ====================================================================== *)
(* L. the second checker is sound                                          *)
(* ====================================================================== *)
Lemma hprefix_eqb_skip a t : hprefix_eqb a t = true -> t = a ++ skipN (lenN a) t.
Proof.
  intros H. destruct (hprefix_eqb_sound _ _ H) as [r Hr]. rewrite Hr at 1. f_equal.
  rewrite Hr. unfold skipN, lenN. rewrite Nat2N.id, skipn_app, skipn_all, Nat.sub_diag. reflexivity.
Qed.

Lemma nul_free_b_sound s : forallb (fun c => negb (c =? 0)) s = true -> nul_free s.
Proof.
  intros H. apply Forall_forall. intros c Hc. rewrite forallb_forall in H. specialize (H c Hc).
  apply negb_true_iff, N.eqb_neq in H. exact H.
Qed.

Lemma holds_adv_holds a s A : holds_adv a s A -> lenN s + 1 < 2 ^ 32 -> holds a s.
Proof.
  intros (H1 & H2 & H3) Hlt. split; [exact H1|]. split; [exact Hlt|].
  destruct (buf_at_0_prefix _ _ H3) as [rest Hr]. exists (A ++ rest). rewrite Hr, <- app_assoc. reflexivity.
Qed.

Lemma holds_holds_adv a s : holds a s -> a_adv a = 0 -> holds_adv a s [].
Proof.
  intros (H1 & H2 & r & H3) Ha. split; [exact H1|]. split; [exact Ha|].
  rewrite H3. intros j x Hj. rewrite N.add_0_l.
  replace (s ++ 0 :: r) with ((s ++ [0]) ++ r) by (rewrite <- app_assoc; reflexivity).
  rewrite nthN_app_l; [exact Hj|]. apply nthN_Some_lt in Hj. exact Hj.
Qed.

Lemma hitem_chain_cons d b i prev s r pst e :
  hitem_ok d b i prev s pst e ->
  (exists tr', length tr' = length r /\
     forall j, (j < length r)%nat ->
       hitem_ok d b (i + 1 + N.of_nat j) (nth j (s :: r) []) (nth j r []) (nth j (e :: tr') st0_dummy) (nth j tr' st0_dummy)) ->
  exists tr, length tr = length (s :: r) /\
     forall j, (j < length (s :: r))%nat ->
       hitem_ok d b (i + N.of_nat j) (nth j (prev :: s :: r) []) (nth j (s :: r) []) (nth j (pst :: tr) st0_dummy) (nth j tr st0_dummy).
Proof.
  intros He (tr' & Hl & Hit). exists (e :: tr'). split; [cbn [length]; lia|].
  intros j Hj. destruct j as [|j].
  - cbn [nth]. rewrite N.add_0_r. exact He.
  - cbn [length] in Hj. specialize (Hit j ltac:(lia)).
    replace (i + N.of_nat (Datatypes.S j)) with (i + 1 + N.of_nat j) by lia.
    change (nth (Datatypes.S j) (prev :: s :: r) []) with (nth j (s :: r) []).
    change (nth (Datatypes.S j) (s :: r) []) with (nth j r []).
    change (nth (Datatypes.S j) (pst :: e :: tr') st0_dummy) with (nth j (e :: tr') st0_dummy).
    change (nth (Datatypes.S j) (e :: tr') st0_dummy) with (nth j tr' st0_dummy).
    exact Hit.
Qed.

Lemma lcp_lt_suffix_ne (prev s : str) : lcp prev s < lenN s -> skipN (lcp prev s) s <> [].
Proof.
  intros H E. apply (f_equal lenN) in E. rewrite lenN_skipN in E. change (lenN (@nil N)) with 0 in E. lia.
Qed.

Lemma hchain_from_sound d b : str_cap d < 2 ^ 32 -> h_maxlength d < 2 ^ 29 -> forall ss i prev bs A pst,
  hchain_from d b i prev bs A ss = true ->
  (i mod b <> 0 -> fst pst = bs /\ holds_adv (snd pst) prev A /\ nul_free prev) ->
  exists tr, length tr = length ss /\
    forall j, (j < length ss)%nat ->
      hitem_ok d b (i + N.of_nat j) (nth j (prev :: ss) []) (nth j ss []) (nth j (pst :: tr) st0_dummy) (nth j tr st0_dummy).
Proof.
  intros Hcap Hml. induction ss as [|s r IH]; intros i prev bs A pst H Hpst; cbn [hchain_from] in H.
  - exists []. split; [reflexivity|]. intros j Hj. cbn [length] in Hj. lia.
  - apply andb_true_iff in H. destruct H as [H0 H]. apply andb_true_iff in H0. destruct H0 as [Hlen Hnf].
    apply N.ltb_lt in Hlen. apply nul_free_b_sound in Hnf.
    destruct (i mod b =? 0) eqn:Em.
    + rewrite rdN_nthN in H.
      destruct (nthN (h_bl d) (i / b + 1)) as [off|] eqn:Eo; [|discriminate].
      destruct (pack_string (h_cw d) (s ++ [0])) as [[enc o]|] eqn:Ep; [|discriminate].
      destruct (decode_header d (i / b + 1)) as [st0|] eqn:Eh; [|discriminate].
      destruct (reset_scan d (i / b + 1) st0) as [st1|] eqn:Er; [|discriminate].
      apply andb_true_iff in H. destruct H as [Hc Hrec]. apply andb_true_iff in Hc. destruct Hc as [Hc Hast].
      apply andb_true_iff in Hc. destruct Hc as [Hle Hpre].
      apply N.leb_le in Hle. destruct (hprefix_eqb_sound _ _ Hpre) as [rest Hrest].
      apply ast_is_sound in Hast.
      pose proof (reset_scan_holds _ _ _ _ _ Er Hast) as Hh1.
      apply (hitem_chain_cons d b i prev s r pst st1).
      * unfold hitem_ok. rewrite Em. split; [exact Hh1|].
        exists off, enc, o, rest, st0. repeat split; assumption.
      * apply (IH (i + 1) s (fst st1) [] st1 Hrec). intros _. split; [reflexivity|]. split; [|exact Hnf].
        apply holds_holds_adv; [exact Hh1|].
        unfold reset_scan in Er. destruct st0 as [b0 a0]. destruct (rdN (h_bl d) (i / b + 1 + 1)); [|discriminate].
        inversion Er; subst. reflexivity.
    + apply N.eqb_neq in Em. destruct (Hpst Em) as (Ebs & Hha & Hnp). subst bs.
      set (l := lcp prev s) in *. set (suf := skipN l s) in *.
      apply andb_true_iff in H. destruct H as [Hc H]. apply andb_true_iff in Hc. destruct Hc as [Hl128 Hlt].
      apply N.ltb_lt in Hl128, Hlt.
      destruct (item_walk (S (length ((l + 128) :: suf ++ [0]))) d (fst pst) A (lenN ((l + 128) :: suf ++ [0])))
        as [[bs' Afull]|] eqn:Ew; [|discriminate].
      apply andb_true_iff in H. destruct H as [Hc Hrec]. apply andb_true_iff in Hc. destruct Hc as [Hpre Hcp].
      apply N.ltb_lt in Hcp. apply item_walk_sound in Ew.
      pose proof (hprefix_eqb_skip _ _ Hpre) as EAf.
      set (A' := skipN (lenN ((l + 128) :: suf ++ [0])) Afull) in *.
      destruct (decode_string_item d (str_cap d) prev l suf (fst pst) (snd pst) A bs' Afull A' Hcap Hnp
                  (lcp_le_l prev s) Hl128 (nul_free_skipn _ _ Hnf) (lcp_lt_suffix_ne prev s Hlt) Hha Ew EAf Hcp)
        as (a' & Ed & Hh').
      assert (Ecur : firstN l prev ++ suf = s) by (unfold suf, l; apply lcp_rebuild).
      rewrite Ecur in Hh'.
      apply (hitem_chain_cons d b i prev s r pst (bs', a')).
      * unfold hitem_ok. destruct (N.eqb_spec (i mod b) 0); [contradiction|]. cbn [fst snd].
        split; [|exact Ed]. apply (holds_adv_holds _ _ _ Hh'). lia.
      * apply (IH (i + 1) s bs' A' (bs', a') Hrec). intros _. cbn [fst snd]. split; [reflexivity|]. split; assumption.
Qed.

Theorem htfc_check2_sound S d : htfc_check2 S d = true -> htfc_ok d (h_bsize d) S.
Proof.
  unfold htfc_check2. intros H.
  repeat (apply andb_true_iff in H; let H' := fresh "C" in destruct H as [H H']).
  apply N.leb_le in H. apply N.ltb_lt in C7, C5, C2. apply N.eqb_eq in C6, C4, C3.
  unfold code_chk in C1.
  repeat (apply andb_true_iff in C1; let H' := fresh "K" in destruct C1 as [C1 H']).
  apply N.eqb_eq in C1.
  split; [reflexivity|]. split; [exact H|]. split; [exact C7|]. split; [exact C6|]. split; [exact C5|].
  split; [exact C4|]. split; [exact C3|].
  split.
  { split; [exact C1|]. split; [exact K2|]. split; [exact K1|]. split; [exact K0|].
    apply Forall_forall. intros c Hc. rewrite forallb_forall in K. specialize (K c Hc). apply N.ltb_lt in K. exact K. }
  split.
  { apply Forall_forall. intros x Hx. rewrite forallb_forall in C0. specialize (C0 x Hx). apply N.ltb_lt in C0. exact C0. }
  assert (Hcap : str_cap d < 2 ^ 32).
  { unfold str_cap. rewrite C3. assert (E32 : 2 ^ 32 = 4294967296) by reflexivity.
    assert (E30 : 2 ^ 29 = 536870912) by reflexivity. rewrite E30 in C2. rewrite E32. lia. }
  destruct (hchain_from_sound d (h_bsize d) Hcap C2 S 0 [] (fst st0_dummy) [] st0_dummy C) as (tr & Hl & Hit).
  { intros Hne. exfalso. apply Hne. destruct (h_bsize d); reflexivity. }
  exists (fun k => nth (N.to_nat k) tr st0_dummy). intros i Hi.
  specialize (Hit (N.to_nat i) ltac:(unfold lenN in Hi; lia)).
  rewrite N.add_0_l, N2Nat.id in Hit. fold (snth S i) in Hit.
  destruct (N.eq_dec i 0) as [->|Hne].
  - eapply hitem_ok_first. exact Hit.
  - replace (N.to_nat i) with (Datatypes.S (N.to_nat (i - 1))) in Hit at 1 2 by lia.
    cbn [nth] in Hit. exact Hit.
Qed.

(* ====================================================================== *)
(* N. the masked memcmp of locateBoundaryBuckets, at the bit level         *)
(* ====================================================================== *)
Lemma bits_of8_inj x y : x < 256 -> y < 256 -> bits_of 8 x = bits_of 8 y -> x = y.
Proof.
  intros Hx Hy E. apply N.compare_eq_iff.
  rewrite (compare_bits_of 8 x y Hx Hy), E. apply bits_cmp_refl.
Qed.

Lemma bits_cmp_decided m : forall x y,
  bits_cmp (m ++ false :: x) (m ++ true :: y) = Lt /\ bits_cmp (m ++ true :: x) (m ++ false :: y) = Gt.
Proof.
  induction m as [|b m IH]; intros x y; cbn [app bits_cmp]; [auto|].
  rewrite Bool.eqb_reflx. apply IH.
Qed.

Lemma app_split_len {A} (a1 a2 b1 b2 : list A) : a1 ++ a2 = b1 ++ b2 -> length a1 = length b1 -> a1 = b1 /\ a2 = b2.
Proof.
  revert b1. induction a1 as [|x a1 IH]; intros [|y b1] E L; cbn in *; try discriminate; [auto|].
  inversion E; subst. destruct (IH b1 H1 ltac:(lia)) as [-> ->]. auto.
Qed.

(* a byte string whose bits continue m with [bx] against one whose bits continue m with the other bit *)
Lemma memcmp_avail_bits_decided : forall a b m bx x y,
  Forall (fun v => v < 256) a -> Forall (fun v => v < 256) b ->
  bits_of_bytes a = m ++ bx :: x -> bits_of_bytes b = m ++ negb bx :: y ->
  memcmp_avail a b = Some (if bx then Gt else Lt).
Proof.
  induction a as [|u a IH]; intros b m bx x y Fa Fb Ea Eb.
  - destruct m; discriminate.
  - destruct b as [|v b]; [destruct m; discriminate|].
    inversion Fa as [|? ? Hu Fa']; subst. inversion Fb as [|? ? Hv Fb']; subst.
    rewrite bits_of_bytes_cons in Ea, Eb. cbn [memcmp_avail].
    destruct (Nat.le_gt_cases 8 (length m)) as [Hm|Hm].
    + (* the first bytes agree *)
      rewrite <- (firstn_skipn 8 m) in Ea, Eb. rewrite <- app_assoc in Ea, Eb.
      destruct (app_split_len _ _ _ _ Ea) as [E1 E2]; [rewrite bits_of_length, firstn_length; lia|].
      destruct (app_split_len _ _ _ _ Eb) as [E3 E4]; [rewrite bits_of_length, firstn_length; lia|].
      assert (u = v) by (apply bits_of8_inj; auto; congruence). subst v.
      rewrite N.compare_refl. apply (IH b (skipn 8 m) bx x y Fa' Fb' E2 E4).
    + (* the difference is inside the first bytes *)
      assert (Eu : exists x1, bits_of 8 u = m ++ bx :: x1).
      { destruct (app_eq_app _ _ _ _ Ea) as [w [[E1 E2]|[E1 E2]]].
        - destruct w as [|b0 w]; [apply (f_equal (@length bool)) in E1; rewrite bits_of_length, app_length in E1; cbn in E1; lia|].
          cbn [app] in E2. inversion E2; subst. exists w. exact E1.
        - apply (f_equal (@length bool)) in E1. rewrite app_length, bits_of_length in E1. lia. }
      assert (Ev : exists y1, bits_of 8 v = m ++ negb bx :: y1).
      { destruct (app_eq_app _ _ _ _ Eb) as [w [[E1 E2]|[E1 E2]]].
        - destruct w as [|b0 w]; [apply (f_equal (@length bool)) in E1; rewrite bits_of_length, app_length in E1; cbn in E1; lia|].
          cbn [app] in E2. inversion E2; subst. exists w. exact E1.
        - apply (f_equal (@length bool)) in E1. rewrite app_length, bits_of_length in E1. lia. }
      destruct Eu as [x1 Eu]. destruct Ev as [y1 Ev].
      rewrite (compare_bits_of 8 u v Hu Hv), Eu, Ev.
      destruct bx; cbn [negb].
      * rewrite (proj2 (bits_cmp_decided m x1 y1)). reflexivity.
      * rewrite (proj1 (bits_cmp_decided m x1 y1)). reflexivity.
Qed.

Lemma memcmp_avail_bits_eq : forall a b, Forall (fun v => v < 256) a -> Forall (fun v => v < 256) b ->
  length a = length b -> bits_of_bytes a = bits_of_bytes b -> memcmp_avail a b = Some Eq.
Proof.
  induction a as [|u a IH]; intros [|v b] Fa Fb L E; try discriminate; [reflexivity|].
  inversion Fa as [|? ? Hu Fa']; subst. inversion Fb as [|? ? Hv Fb']; subst.
  rewrite !bits_of_bytes_cons in E. destruct (app_split_len _ _ _ _ E) as [E1 E2]; [rewrite !bits_of_length; reflexivity|].
  assert (u = v) by (apply bits_of8_inj; auto). subst v. cbn [memcmp_avail]. rewrite N.compare_refl.
  apply IH; auto.
Qed.

Lemma memcmp_avail_nil a : memcmp_avail a [] = Some Eq.
Proof. destruct a; reflexivity. Qed.

Lemma memcmp_avail_app_l : forall b a r, (length b <= length a)%nat -> memcmp_avail (a ++ r) b = memcmp_avail a b.
Proof.
  induction b as [|y b IH]; intros a r L; [rewrite !memcmp_avail_nil; reflexivity|].
  destruct a as [|x a]; [cbn in L; lia|]. cbn [app memcmp_avail]. destruct (x ?= y); try reflexivity.
  apply IH. cbn in L. lia.
Qed.

(* ---- masking the last byte *)
Lemma land_cmask_bits o x : 1 <= o <= 7 ->
  bits_of 8 (N.land x (cmask o)) = firstn (N.to_nat o) (bits_of 8 x) ++ repeat false (8 - N.to_nat o).
Proof.
  intros Ho.
  assert (C : o = 1 \/ o = 2 \/ o = 3 \/ o = 4 \/ o = 5 \/ o = 6 \/ o = 7) by lia.
  destruct C as [->|[->|[->|[->|[->|[->| ->]]]]]]; cbn [bits_of N.to_nat Pos.to_nat Pos.iter_op Nat.add firstn repeat Nat.sub app N.of_nat];
    rewrite !N.land_spec; vm_compute (cmask _);
    repeat match goal with |- context [N.testbit (N.pos ?p) ?k] => let v := eval vm_compute in (N.testbit (N.pos p) k) in change (N.testbit (N.pos p) k) with v end;
    rewrite ?andb_true_r, ?andb_false_r; reflexivity.
Qed.

Lemma mask_last_spec : forall (l : list N) n m,
  mask_last l n m = match nth_error l n with
                    | Some x => firstn n l ++ N.land x m :: skipn (S n) l
                    | None => l
                    end.
Proof.
  induction l as [|x l IH]; intros [|n] m; cbn [mask_last nth_error firstn skipn app]; try reflexivity.
  rewrite IH. destruct (nth_error l n); reflexivity.
Qed.

Lemma firstn_bits_of_bytes k l : firstn (8 * k) (bits_of_bytes l) = bits_of_bytes (firstn k l).
Proof.
  revert l. induction k as [|k IH]; intros l; [reflexivity|].
  destruct l as [|x l]; [reflexivity|]. rewrite bits_of_bytes_cons. cbn [firstn].
  rewrite bits_of_bytes_cons. replace (8 * S k)%nat with (length (bits_of 8 x) + 8 * k)%nat by (rewrite bits_of_length; lia).
  rewrite firstn_app_2, IH. reflexivity.
Qed.

(* the bits of the masked copy: the first L bits of the text, zero padded to the byte *)
Lemma masked_header_bits hb n o : Forall (fun v => v < 256) hb -> (1 <= n)%nat -> (n <= length hb)%nat -> o <= 7 ->
  let L := if o =? 0 then (8 * n)%nat else (8 * (n - 1) + N.to_nat o)%nat in
  bits_of_bytes (if negb (o =? 0) then mask_last (firstn n hb) (n - 1) (cmask o) else firstn n hb) =
  firstn L (bits_of_bytes hb) ++ repeat false (8 * n - L).
Proof.
  intros F Hn Hl Ho L. unfold L. destruct (N.eqb_spec o 0) as [->|Ho0]; cbn [negb].
  - rewrite firstn_bits_of_bytes, Nat.sub_diag. cbn [repeat]. rewrite app_nil_r. reflexivity.
  - rewrite mask_last_spec.
    assert (Hnth : exists x, nth_error (firstn n hb) (n - 1) = Some x /\ nth_error hb (n - 1) = Some x).
    { destruct (nth_error hb (n - 1)) as [x|] eqn:E; [|apply nth_error_None in E; lia].
      exists x. split; [|reflexivity]. rewrite <- (firstn_skipn n hb) in E.
      rewrite nth_error_app1 in E by (rewrite firstn_length; lia). exact E. }
    destruct Hnth as (x & E1 & E2). rewrite E1.
    rewrite firstn_firstn. replace (Nat.min (n - 1) n) with (n - 1)%nat by lia.
    replace (skipn (S (n - 1)) (firstn n hb)) with (@nil N).
    2:{ symmetry. apply skipn_all2. rewrite firstn_length. lia. }
    rewrite bits_of_bytes_app, bits_of_bytes_cons. cbn [bits_of_bytes flat_map]. rewrite app_nil_r.
    rewrite land_cmask_bits by lia.
    (* the text: pre ++ x :: post *)
    assert (Ehb : hb = firstn (n - 1) hb ++ x :: skipn (S (n - 1)) hb).
    { rewrite <- (firstn_skipn (n - 1) hb) at 1. f_equal. apply skipn_nth_error_cons. exact E2. }
    assert (Lp : length (bits_of_bytes (firstn (n - 1) hb)) = (8 * (n - 1))%nat).
    { rewrite bits_of_bytes_length, firstn_length. lia. }
    set (pre := firstn (n - 1) hb) in *. set (post := skipn (S (n - 1)) hb) in *.
    rewrite Ehb. rewrite bits_of_bytes_app, bits_of_bytes_cons.
    rewrite firstn_app, Lp. replace (8 * (n - 1) + N.to_nat o - 8 * (n - 1))%nat with (N.to_nat o) by lia.
    rewrite (firstn_all2 (n := (8 * (n - 1) + N.to_nat o)%nat) (bits_of_bytes pre)) by lia. rewrite firstn_app, bits_of_length.
    replace (N.to_nat o - 8)%nat with 0%nat by lia. cbn [firstn]. rewrite app_nil_r.
    rewrite <- app_assoc. do 2 f_equal. f_equal. lia.
Qed.

(* the encoding of h followed by its NUL against the encoding of a pattern p (no NUL) that is not a prefix of
   h: the first differing bit lies inside both, in the direction of the string order *)
Lemma enc_prefix_diff cws :
  prefix_free (table_codes cws) -> alphabetic (table_codes cws) ->
  forall h p eh ep, Forall (fun b => b <> 0) h -> Forall (fun b => b <> 0) p -> Spec.is_prefix p h = false ->
  encode_bits cws (h ++ [0]) = Some eh -> encode_bits cws p = Some ep ->
  exists m x y,
    (lex_compare h p = Lt /\ eh = m ++ false :: x /\ ep = m ++ true :: y) \/
    (lex_compare h p = Gt /\ eh = m ++ true :: x /\ ep = m ++ false :: y).
Proof.
  intros PF AL. induction h as [|a h IH]; intros p eh ep Fh Fp Hnp Hs Ht.
  - destruct p as [|b q]; [discriminate|]. inversion Fp as [|? ? Hb _]; subst.
    cbn [app] in Hs.
    apply encode_bits_cons_inv in Hs. destruct Hs as [c0 [e0 [H0 [_ ->]]]].
    apply encode_bits_cons_inv in Ht. destruct Ht as [cb [eb [Hcb [_ ->]]]].
    destruct (nul_code_least cws b c0 cb PF AL Hb H0 Hcb) as [m [x [y [-> ->]]]].
    exists m, (x ++ e0), (y ++ eb). left. rewrite <- !app_assoc. cbn [app]. auto.
  - inversion Fh as [|? ? Ha Fh']; subst.
    destruct p as [|b q]; [discriminate|].
    inversion Fp as [|? ? Hb Fq']; subst.
    rewrite <- app_comm_cons in Hs.
    apply encode_bits_cons_inv in Hs. destruct Hs as [ca [ea [Hca [Hea ->]]]].
    apply encode_bits_cons_inv in Ht. destruct Ht as [cb [eb [Hcb [Heb ->]]]].
    cbn [lex_compare]. cbn [Spec.is_prefix] in Hnp. destruct (N.compare_spec a b) as [E|L|G].
    + subst b. rewrite N.eqb_refl in Hnp. cbn [andb] in Hnp. rewrite Hca in Hcb. injection Hcb as <-.
      destruct (IH q ea eb Fh' Fq' Hnp Hea Heb) as [m [x [y [[Hc [-> ->]]|[Hc [-> ->]]]]]].
      * exists (cw_bits ca ++ m), x, y. left. rewrite <- !app_assoc. auto.
      * exists (cw_bits ca ++ m), x, y. right. rewrite <- !app_assoc. auto.
    + destruct (codes_decided cws a b ca cb PF AL L Hca Hcb) as [m [x [y [-> ->]]]].
      exists m, (x ++ ea), (y ++ eb). left. rewrite <- !app_assoc. cbn [app]. auto.
    + destruct (codes_decided cws b a cb ca PF AL G Hcb Hca) as [m [x [y [-> ->]]]].
      exists m, (y ++ ea), (x ++ eb). right. rewrite <- !app_assoc. cbn [app]. auto.
Qed.

Lemma length_firstn_le {A} n (l : list A) : (length (firstn n l) <= n)%nat.
Proof. rewrite firstn_length. lia. Qed.

Lemma Forall_firstn {A} (P : A -> Prop) : forall n l, Forall P l -> Forall P (firstn n l).
Proof.
  induction n as [|n IH]; intros l H; [constructor|]. destruct l as [|x l]; [constructor|].
  inversion H; subst. cbn [firstn]. constructor; [assumption|apply IH; assumption].
Qed.

Lemma land_lt256 x m : x < 256 -> N.land x m < 256.
Proof.
  intros Hx. change 256 with (2 ^ 8) in *. apply lt_pow2_of_bits. intros k Hk.
  rewrite N.land_spec, (testbit_lt_pow2_false x k 8 Hx Hk). reflexivity.
Qed.

Lemma mask_last_bytes : forall l n m, Forall (fun v => v < 256) l -> Forall (fun v => v < 256) (mask_last l n m).
Proof.
  induction l as [|x l IH]; intros [|n] m F; cbn [mask_last]; auto.
  - inversion F; subst. constructor; [apply land_lt256; assumption|assumption].
  - inversion F; subst. constructor; [assumption|]. apply IH; assumption.
Qed.

Lemma encode_bits_nil_inv cws p : lengths_ok cws -> encode_bits cws p = Some [] -> p = [].
Proof.
  intros LO E. destruct p as [|x p]; [reflexivity|exfalso].
  apply encode_bits_cons_inv in E. destruct E as (c & e & Hc & _ & E).
  unfold lengths_ok in LO. rewrite Forall_forall in LO.
  assert (Hb : 1 <= snd c <= 32 /\ fst c < 2 ^ snd c) by (apply LO; eapply nth_error_In; exact Hc).
  apply (f_equal (@length bool)) in E. rewrite app_length, cw_bits_length in E. cbn [length] in E. lia.
Qed.

Lemma firstn_app_decided {A} (m : list A) bx X L : (length m < L)%nat ->
  firstn L (m ++ bx :: X) = m ++ bx :: firstn (L - length m - 1) X.
Proof.
  intros H. rewrite firstn_app. rewrite firstn_all2 by lia. f_equal.
  destruct (L - length m)%nat as [|k] eqn:E; [lia|]. cbn [firstn]. f_equal. f_equal. lia.
Qed.

(* the comparison of locateBoundaryBuckets against a header = the prefix classification of the header string *)
Lemma masked_memcmp_pcls cws h p bh oh enc o rest :
  check_prefix_free cws = true -> check_alphabetic cws = true -> check_lengths cws = true ->
  Forall (fun b => b <> 0) h -> Forall (fun b => b <> 0) p ->
  pack_string cws (h ++ [0]) = Some (bh, oh) -> pack_string cws p = Some (enc, o) ->
  Forall (fun x => x < 256) rest ->
  memcmp_avail (if negb (o =? 0) && negb (lenN enc =? 0)
                then mask_last (firstn (length enc) (bh ++ rest)) (length enc - 1) (cmask o)
                else firstn (length enc) (bh ++ rest)) enc
  = Some (pcls p h).
Proof.
  intros CP CA CL Fh Fp Ph Pp Fr.
  pose proof (check_prefix_free_sound _ CP) as PF.
  pose proof (check_alphabetic_sound _ CA) as AL.
  pose proof (check_lengths_sound _ CL) as LO.
  destruct (pack_string_bits cws _ bh oh LO Ph) as (eh & Eeh & Bh & _).
  destruct (pack_string_bits cws _ enc o LO Pp) as (ep & Eep & Bp & Eo).
  pose proof (pack_string_bytes _ _ _ _ Ph) as Fbh. pose proof (pack_string_bytes _ _ _ _ Pp) as Fenc.
  assert (Fhb : Forall (fun x => x < 256) (bh ++ rest)) by (apply Forall_app; split; assumption).
  set (hb := bh ++ rest) in *. set (n := length enc) in *.
  assert (Ho : o < 8) by (rewrite Eo; apply N.mod_lt; lia).
  assert (Hlen : (8 * n = length ep + N.to_nat ((8 - o) mod 8))%nat).
  { apply (f_equal (@length bool)) in Bp. rewrite bits_of_bytes_length, app_length, repeat_length in Bp. exact Bp. }
  destruct (Nat.eq_dec n 0) as [Hn0|Hn0].
  - (* the empty pattern *)
    assert (enc = []) by (destruct enc; [reflexivity|cbn in n; lia]). subst enc.
    rewrite memcmp_avail_nil. f_equal. symmetry. apply pcls_Eq.
    assert (ep = []) by (destruct ep; [reflexivity|cbn [length] in Hlen; lia]). subst ep.
    rewrite (encode_bits_nil_inv cws p LO Eep). reflexivity.
  - assert (Hlenc : lenN enc =? 0 = false) by (apply N.eqb_neq; unfold lenN; fold n; lia).
    rewrite Hlenc. cbn [negb]. rewrite andb_true_r.
    set (L := if o =? 0 then (8 * n)%nat else (8 * (n - 1) + N.to_nat o)%nat).
    assert (HL : L = length ep).
    { unfold L. destruct (N.eqb_spec o 0) as [->|Ho0].
      - change ((8 - 0) mod 8) with 0 in Hlen. cbn in Hlen. lia.
      - rewrite (N.mod_small (8 - o) 8) in Hlen by lia. lia. }
    assert (Hpad : (8 * n - L)%nat = N.to_nat ((8 - o) mod 8)) by lia.
    assert (Hbhl : (8 * length bh = length eh + N.to_nat ((8 - oh) mod 8))%nat).
    { apply (f_equal (@length bool)) in Bh. rewrite bits_of_bytes_length, app_length, repeat_length in Bh. exact Bh. }
    assert (Bhb : bits_of_bytes hb = eh ++ (repeat false (N.to_nat ((8 - oh) mod 8)) ++ bits_of_bytes rest)).
    { unfold hb. rewrite bits_of_bytes_app, Bh, <- app_assoc. reflexivity. }
    destruct (Spec.is_prefix p h) eqn:Epre.
    + (* p is a prefix of h: the first L bits of the header are the bits of p *)
      assert (Ecl : pcls p h = Eq) by (apply pcls_Eq; exact Epre). rewrite Ecl.
      apply is_prefix_app in Epre. destruct Epre as [r Er]. subst h.
      rewrite <- app_assoc in Eeh. apply encode_with_app_inv in Eeh.
      destruct Eeh as (ep' & er & E1 & E2 & E3). unfold encode_bits in Eep. rewrite Eep in E1. inversion E1; subst ep'. clear E1.
      assert (Hn : (n <= length hb)%nat).
      { unfold hb. rewrite app_length. rewrite E3, app_length in Hbhl. lia. }
      pose proof (masked_header_bits hb n o Fhb ltac:(lia) Hn ltac:(lia)) as Hm. cbn zeta in Hm. fold L in Hm.
      apply memcmp_avail_bits_eq.
      * destruct (negb (o =? 0)); [apply mask_last_bytes|]; apply Forall_firstn; exact Fhb.
      * exact Fenc.
      * destruct (negb (o =? 0)).
        -- rewrite mask_last_spec. destruct (nth_error (firstn n hb) (n - 1)) eqn:En.
           ++ rewrite app_length. cbn [length]. rewrite firstn_length, skipn_length, firstn_length. fold n. lia.
           ++ rewrite firstn_length. fold n. lia.
        -- rewrite firstn_length. fold n. lia.
      * rewrite Hm, Bp, Hpad. f_equal. rewrite Bhb, E3, <- app_assoc, HL.
        rewrite firstn_app, Nat.sub_diag, firstn_all. cbn [firstn]. rewrite app_nil_r. reflexivity.
    + (* p is not a prefix of h: the first differing bit *)
      assert (Ecl : pcls p h = lex_compare h p) by (unfold pcls; rewrite Epre; reflexivity). rewrite Ecl.
      destruct (enc_prefix_diff cws PF AL h p eh ep Fh Fp Epre Eeh Eep) as (m & x & y & Hcase).
      assert (Hd : exists bx : bool, lex_compare h p = (if bx then Gt else Lt) /\ eh = m ++ bx :: x /\ ep = m ++ negb bx :: y).
      { destruct Hcase as [(H1 & H2 & H3)|(H1 & H2 & H3)]; [exists false|exists true]; cbn [negb]; auto. }
      destruct Hd as (bx & Hc & Heh & Hep). rewrite Hc.
      assert (HmL : (length m < L)%nat) by (rewrite HL, Hep, app_length; cbn [length]; lia).
      assert (Benc : bits_of_bytes enc = m ++ negb bx :: (y ++ repeat false (N.to_nat ((8 - o) mod 8)))).
      { rewrite Bp, Hep, <- app_assoc. reflexivity. }
      assert (Bhb2 : bits_of_bytes hb = m ++ bx :: (x ++ repeat false (N.to_nat ((8 - oh) mod 8)) ++ bits_of_bytes rest)).
      { rewrite Bhb, Heh, <- app_assoc. reflexivity. }
      destruct (Nat.le_gt_cases n (length hb)) as [Hn|Hn].
      * pose proof (masked_header_bits hb n o Fhb ltac:(lia) Hn ltac:(lia)) as Hm. cbn zeta in Hm. fold L in Hm.
        rewrite Bhb2, (firstn_app_decided m bx _ L HmL), <- app_assoc in Hm. cbn [app] in Hm.
        eapply memcmp_avail_bits_decided; [| exact Fenc | exact Hm | exact Benc].
        destruct (negb (o =? 0)); [apply mask_last_bytes|]; apply Forall_firstn; exact Fhb.
      * (* fewer bytes than the pattern needs remain: the copy is the rest of the text, unmasked *)
        assert (Efn : firstn n hb = hb) by (apply firstn_all2; lia). rewrite Efn.
        assert (Eml : mask_last hb (n - 1) (cmask o) = hb).
        { rewrite mask_last_spec. destruct (nth_error hb (n - 1)) eqn:En; [|reflexivity].
          assert (nth_error hb (n - 1) <> None) by congruence. apply nth_error_Some in H. lia. }
        rewrite Eml. destruct (negb (o =? 0));
          (eapply memcmp_avail_bits_decided; [exact Fhb | exact Fenc | exact Bhb2 | exact Benc]).
Qed.

(* ====================================================================== *)
(* O. locateBoundaryBuckets: the three binary searches over an abstract     *)
(*    classification of the bucket numbers (port of PFCPrefixProofs.BoundarySearch) *)
(* ====================================================================== *)
Section HBoundarySearch.
  Variables (d : htfc) (enc : list N) (o : N) (m : N) (cl : N -> comparison).
  Hypothesis Hm : h_buckets d = m.
  Hypothesis Hm32 : m + 1 < 2 ^ 32.
  Hypothesis Hcmp : forall k, 1 <= k -> k <= m -> hdr_memcmp_masked d k enc o = Some (cl k).
  Hypothesis HLt : forall j k, 1 <= j -> j < k -> k <= m -> cl k = Lt -> cl j = Lt.
  Hypothesis HGt : forall j k, 1 <= j -> j < k -> k <= m -> cl j = Gt -> cl k = Gt.

  (* between two Eq everything is Eq *)
  Lemma hcl_between i j k : 1 <= i -> i <= j -> j <= k -> k <= m -> cl i = Eq -> cl k = Eq -> cl j = Eq.
  Proof.
    intros H1 H2 H3 H4 Ei Ek.
    destruct (N.eq_dec i j) as [<-|N1]; [exact Ei|]. destruct (N.eq_dec j k) as [->|N2]; [exact Ek|].
    destruct (cl j) eqn:Ej; [reflexivity| |].
    - rewrite (HLt i j ltac:(lia) ltac:(lia) ltac:(lia) Ej) in Ei. discriminate.
    - rewrite (HGt j k ltac:(lia) ltac:(lia) ltac:(lia) Ej) in Ek. discriminate.
  Qed.

  Definition hmain_post (r : N * N * N * comparison) : Prop :=
    let '(l', r', c', cmp') := r in
    match cmp' with
    | Eq => 1 <= l' /\ l' <= c' /\ c' <= r' /\ r' <= m /\ cl c' = Eq /\
            (forall j, 1 <= j -> j < l' -> cl j = Lt) /\ (forall j, r' < j -> j <= m -> cl j = Gt)
    | Lt => c' <= m /\ (forall j, 1 <= j -> j <= c' -> cl j = Lt) /\ (forall j, c' < j -> j <= m -> cl j = Gt)
    | Gt => 1 <= c' /\ c' - 1 <= m /\
            (forall j, 1 <= j -> j <= c' - 1 -> cl j = Lt) /\ (forall j, c' - 1 < j -> j <= m -> cl j = Gt)
    end.

  Lemma hlbb_main_spec : forall fuel l r center cmp,
    1 <= l -> r <= m -> l <= r + 1 -> (N.to_nat (r + 1 - l) < fuel)%nat ->
    (forall j, 1 <= j -> j < l -> cl j = Lt) ->
    (forall j, r < j -> j <= m -> cl j = Gt) ->
    (r < l -> (cmp = Lt /\ center = r) \/ (cmp = Gt /\ center = r + 1)) ->
    exists res, hlbb_main fuel d enc o l r center cmp = Some res /\ hmain_post res.
  Proof.
    induction fuel as [|f IH]; intros l r center cmp Hl Hr Hlr Hfuel Hlo Hhi Hexit; [lia|].
    cbn [hlbb_main]. destruct (N.leb_spec l r) as [Hle|Hgt].
    - set (c := (l + r) / 2).
      assert (Hc : l <= c <= r) by (unfold c; lia).
      rewrite (Hcmp c ltac:(lia) ltac:(lia)).
      destruct (cl c) eqn:Ec.
      + eexists. split; [reflexivity|]. cbn. repeat split; auto; lia.
      + apply IH; try lia.
        * intros j Hj1 Hj2. destruct (N.eq_dec j c) as [->|Hne]; [exact Ec|].
          apply (HLt j c); auto; lia.
        * intros j Hj1 Hj2. apply Hhi; lia.
        * intros Hx. left. split; [reflexivity|lia].
      + apply IH; try lia.
        * intros j Hj1 Hj2. apply Hlo; lia.
        * intros j Hj1 Hj2. destruct (N.eq_dec j c) as [->|Hne]; [exact Ec|].
          apply (HGt c j); auto; lia.
        * intros Hx. right. split; [reflexivity|lia].
    - eexists. split; [reflexivity|]. cbn.
      destruct (Hexit Hgt) as [[-> ->]|[-> ->]].
      + repeat split; auto. intros j Hj1 Hj2. apply Hlo; lia.
      + rewrite N.add_sub. repeat split; auto; try lia. intros j Hj1 Hj2. apply Hlo; lia.
  Qed.

  (* left boundary: c is a bucket of class Eq *)
  Lemma hlbb_left_spec c : c <= m -> cl c = Eq -> forall fuel ll lr,
    1 <= ll -> ll <= lr + 1 -> lr < c -> (N.to_nat (lr + 1 - ll) < fuel)%nat ->
    (forall j, 1 <= j -> j < ll -> cl j = Lt) ->
    (forall j, lr < j -> j <= c -> cl j = Eq) ->
    exists res, hlbb_left fuel d enc o ll lr = Some res /\ res < c /\
      (forall j, 1 <= j -> j <= res -> cl j = Lt) /\ (forall j, res < j -> j <= c -> cl j = Eq).
  Proof.
    intros Hcm Ec. induction fuel as [|f IH]; intros ll lr Hl Hlr Hr Hfuel Hlo Hhi; [lia|].
    cbn [hlbb_left]. destruct (N.leb_spec ll lr) as [Hle|Hgt].
    - set (lc := (ll + lr) / 2).
      assert (Hc : ll <= lc <= lr) by (unfold lc; lia).
      rewrite (Hcmp lc ltac:(lia) ltac:(lia)).
      assert (Hnotgt : cl lc <> Gt).
      { intros E. rewrite (HGt lc c ltac:(lia) ltac:(lia) Hcm E) in Ec. discriminate. }
      assert (HEq : cl lc = Eq -> exists res, hlbb_left f d enc o ll (lc - 1) = Some res /\ res < c /\
                (forall j, 1 <= j -> j <= res -> cl j = Lt) /\ (forall j, res < j -> j <= c -> cl j = Eq)).
      { intros E. apply IH; try lia. exact Hlo.
        intros j Hj1 Hj2. apply (hcl_between lc j c); auto; lia. }
      assert (HNe : cl lc = Lt -> exists res, hlbb_left f d enc o (lc + 1) lr = Some res /\ res < c /\
                (forall j, 1 <= j -> j <= res -> cl j = Lt) /\ (forall j, res < j -> j <= c -> cl j = Eq)).
      { intros E. apply IH; try lia; [|exact Hhi].
        intros j Hj1 Hj2. destruct (N.eq_dec j lc) as [->|Hne]; [exact E|].
        apply (HLt j lc); auto; lia. }
      destruct (cl lc); [apply HEq; reflexivity|apply HNe; reflexivity|congruence].
    - exists lr. split; [reflexivity|]. split; [exact Hr|]. split.
      + intros j Hj1 Hj2. apply Hlo; lia.
      + exact Hhi.
  Qed.

  (* right boundary *)
  Lemma hlbb_right_spec : forall fuel rl rr,
    1 <= rl -> rl < rr -> rr <= m + 1 -> (N.to_nat (rr - rl) < fuel)%nat ->
    cl rl = Eq -> (forall j, rr <= j -> j <= m -> cl j = Gt) ->
    exists res, hlbb_right fuel d enc o rl rr = Some res /\ rl <= res /\ res <= m /\ cl res = Eq /\
      (forall j, res < j -> j <= m -> cl j = Gt).
  Proof.
    induction fuel as [|f IH]; intros rl rr Hl Hlr Hr Hfuel Erl Hhi; [lia|].
    cbn [hlbb_right]. destruct (N.ltb_spec rl (rr - 1)) as [Hlt|Hge].
    - set (rc := (rl + rr) / 2).
      assert (Hc : rl < rc < rr) by (unfold rc; lia).
      rewrite (Hcmp rc ltac:(lia) ltac:(lia)).
      assert (Hnotlt : cl rc <> Lt).
      { intros E. rewrite (HLt rl rc ltac:(lia) ltac:(lia) ltac:(lia) E) in Erl. discriminate. }
      assert (HEq : cl rc = Eq -> exists res, hlbb_right f d enc o rc rr = Some res /\ rl <= res /\ res <= m /\
                cl res = Eq /\ (forall j, res < j -> j <= m -> cl j = Gt)).
      { intros E. destruct (IH rc rr ltac:(lia) ltac:(lia) Hr ltac:(lia) E Hhi) as (res & H1 & H2 & H3).
        exists res. split; [exact H1|]. split; [lia|exact H3]. }
      assert (HNe : cl rc = Gt -> exists res, hlbb_right f d enc o rl rc = Some res /\ rl <= res /\ res <= m /\
                cl res = Eq /\ (forall j, res < j -> j <= m -> cl j = Gt)).
      { intros E. apply IH; try lia; [exact Erl|].
        intros j Hj1 Hj2. destruct (N.eq_dec j rc) as [->|Hne]; [exact E|].
        apply (HGt rc j); auto; lia. }
      destruct (cl rc); [apply HEq; reflexivity|congruence|apply HNe; reflexivity].
    - exists rl. split; [reflexivity|]. repeat split; auto; try lia.
      intros j Hj1 Hj2. apply Hhi; lia.
  Qed.

  (* the outcome: either some header has the prefix (fE .. lE are exactly the buckets whose
     header has it; left = the bucket before fE, or 1; right = lE), or none has and
     left = right = the last bucket whose header is below p (0 if none) *)
  Definition hlbb_post (L R : N) : Prop :=
    (exists fE lE, 1 <= fE /\ fE <= lE /\ lE <= m /\
       (forall j, 1 <= j -> j < fE -> cl j = Lt) /\ (forall j, fE <= j -> j <= lE -> cl j = Eq) /\
       (forall j, lE < j -> j <= m -> cl j = Gt) /\
       L = (if fE =? 1 then 1 else fE - 1) /\ R = lE) \/
    (L = R /\ R <= m /\ (forall j, 1 <= j -> j <= R -> cl j = Lt) /\ (forall j, R < j -> j <= m -> cl j = Gt)).

  Theorem hlocate_boundary_buckets_abs : 1 <= m ->
    exists L R, hlocate_boundary_buckets d enc o = Some (L, R) /\ hlbb_post L R.
  Proof.
    intros Hm1. unfold hlocate_boundary_buckets. rewrite Hm.
    destruct (hlbb_main_spec (Datatypes.S (Datatypes.S (N.to_nat m))) 1 m 0 Eq) as ([[[l r] c] cmp] & Em & Hpost);
      try lia.
    rewrite Em. unfold hmain_post in Hpost. destruct cmp.
    - destruct Hpost as (H1 & H2 & H3 & H4 & Ec & Hlo & Hhi).
      (* left boundary *)
      assert (HLeft : exists lb fE, (if 1 <? c then
                 match hlbb_left (Datatypes.S (Datatypes.S (N.to_nat m))) d enc o (W32m l) (c - 1) with
                 | None => None | Some lr => Some (if 0 <? lr then lr else 1) end
               else Some l) = Some lb /\ 1 <= fE /\ fE <= c /\
               (forall j, 1 <= j -> j < fE -> cl j = Lt) /\ (forall j, fE <= j -> j <= c -> cl j = Eq) /\
               lb = (if fE =? 1 then 1 else fE - 1)).
      { destruct (N.ltb_spec 1 c) as [Hc1|Hc1].
        - rewrite (W32m_small l) by lia.
          destruct (hlbb_left_spec c ltac:(lia) Ec (Datatypes.S (Datatypes.S (N.to_nat m))) l (c - 1))
            as (res & Er & Hres & Hl1 & Hl2); try lia; auto.
          { intros j Hj1 Hj2. assert (j = c) by lia. subst j. exact Ec. }
          rewrite Er. eexists. exists (res + 1). split; [reflexivity|].
          split; [lia|]. split; [lia|]. split; [intros j Hj1 Hj2; apply Hl1; lia|].
          split; [intros j Hj1 Hj2; apply Hl2; lia|].
          destruct (N.ltb_spec 0 res); destruct (N.eqb_spec (res + 1) 1); lia.
        - eexists. exists 1. split; [reflexivity|]. assert (c = 1) by lia. assert (l = 1) by lia. subst c l.
          split; [lia|]. split; [lia|]. split; [intros; lia|].
          split; [intros j Hj1 Hj2; assert (j = 1) by lia; subst j; exact Ec|reflexivity]. }
      assert (HRight : exists lE, (if c <? m then hlbb_right (Datatypes.S (Datatypes.S (N.to_nat m))) d enc o c (W32m (r + 1))
                                   else Some r) = Some lE /\ c <= lE /\ lE <= m /\ cl lE = Eq /\
                                  (forall j, lE < j -> j <= m -> cl j = Gt)).
      { destruct (N.ltb_spec c m) as [Hcm|Hcm].
        - rewrite (W32m_small (r + 1)) by lia. apply hlbb_right_spec; try lia; auto. intros j Hj1 Hj2. apply Hhi; lia.
        - exists r. split; [reflexivity|]. assert (c = m) by lia. assert (r = m) by lia. subst c r.
          repeat split; auto; try lia. }
      destruct HLeft as (lb & fE & El & Hf1 & Hf2 & Hf3 & Hf4 & Hlb).
      destruct HRight as (lE & Er & Hr1 & Hr2 & Hr3 & Hr4).
      rewrite El, Er. exists lb, lE. split; [reflexivity|]. left. exists fE, lE.
      repeat split; auto; try lia.
      intros j Hj1 Hj2. destruct (N.le_gt_cases j c) as [Hjc|Hjc]; [apply Hf4; assumption|].
      apply (hcl_between c j lE); auto; lia.
    - destruct Hpost as (H1 & H2 & H3). exists c, c. split; [reflexivity|]. right. repeat split; auto.
    - destruct Hpost as (H1 & H2 & H3 & H4). exists (c - 1), (c - 1). split; [reflexivity|]. right.
      repeat split; auto.
  Qed.
End HBoundarySearch.

(* ====================================================================== *)
(* P. locatePrefix on a certified object                                   *)
(* ====================================================================== *)
Section Prefix.
  Variables (d : htfc) (b : N) (S : list str) (St : N -> bst * ast).
  Hypothesis Hbs : h_bsize d = b.
  Hypothesis Hb2 : 2 <= b.
  Hypothesis Hb32 : b < 2 ^ 32.
  Hypothesis Hel : h_elements d = lenN S.
  Hypothesis Hn32 : lenN S < 2 ^ 32.
  Hypothesis Hbk : h_buckets d = (lenN S + b - 1) / b.
  Hypothesis Hcode : code_ok (h_cw d).
  Hypothesis Htext : Forall (fun x => x < 256) (h_text d).
  Hypothesis HSt : hstream_ok d b S St.
  Hypothesis Hnf : Forall nul_free S.
  Hypothesis Hsort : sorted_lt S.
  Hypothesis Hne : S <> [].

  Let Hdstep i : i + 1 < lenN S -> (i + 1) mod b <> 0 ->
    decode_string d (str_cap d) (fst (St i)) (snd (St i)) =
    Some (fst (St (i + 1)), snd (St (i + 1)), lcp (snth S i) (snth S (i + 1))).
  Proof. apply (hstream_dstep d b S St HSt). Qed.

  Let Hholds i : i < lenN S -> holds (snd (St i)) (snth S i).
  Proof. apply (hs_holds d b S St HSt). Qed.

  Let Hnfi i : i < lenN S -> nul_free (snth S i).
  Proof. apply (hs_nul_free S Hnf). Qed.

  Let Hslt i j : i < j -> j < lenN S -> lex_lt (snth S i) (snth S j).
  Proof. apply (hs_lt S Hsort). Qed.

  Let Hbiff k : 1 <= k -> (k <= h_buckets d <-> (k - 1) * b < lenN S).
  Proof. apply (hbuckets_iff d b S); assumption. Qed.

  Let Hbpos : 1 <= h_buckets d.
  Proof. apply (hbuckets_pos d b S St); assumption. Qed.

  Let Hmod base i : base mod b = 0 -> base <= i -> i + 1 < base + b -> (i + 1) mod b <> 0.
  Proof. apply (hin_bucket_mod d b S); assumption. Qed.

  Let Hfacts k : 1 <= k -> k <= h_buckets d ->
    exists base Eb st0, base = (k - 1) * b /\ base mod b = 0 /\ base < Eb /\ Eb <= base + b /\ Eb <= lenN S /\
      hscanneable d k = Eb - base /\
      decode_header d k = Some st0 /\ reset_scan d k st0 = Some (St base) /\ holds (snd st0) (snth S base) /\
      (Eb < lenN S -> Eb = base + b /\ k + 1 <= h_buckets d) /\
      (k < h_buckets d -> Eb = base + b /\ Eb < lenN S).
  Proof. apply (hbucket_facts d b S St); assumption. Qed.

  (* the comparison of searchPrefix on the state after string i *)
  Lemma hcmp0_stream i p sh : i < lenN S -> nul_free p -> sh <= lcp (snth S i) p ->
    exists z, hcmp_from (snd (St i)) p sh 0 = Some (z, lcp (snth S i) p) /\
      (lcp (snth S i) p < lenN p ->
       ((0 < z)%Z /\ lex_compare (snth S i) p = Gt) \/ ((z <= 0)%Z /\ lex_compare (snth S i) p = Lt)).
  Proof.
    intros Hi Hnp Hs. pose proof (LexLemmas.lcp_le_l (snth S i) p).
    rewrite (hcmp_from_cmp_from _ (snth S i) p sh 0 (Hholds i Hi)) by lia.
    apply cmp_from0_spec; [apply Hnfi; exact Hi|exact Hnp|exact Hs].
  Qed.

  Section PrefixScan.
    Variable p : str.
    Hypothesis Hnp : nul_free p.
    Variables (base Eb : N).
    Hypothesis Hbase : base mod b = 0.
    Hypothesis HE1 : Eb <= base + b.
    Hypothesis HE2 : Eb <= lenN S.

    Let nomatch (j : N) : Prop := Spec.is_prefix p (snth S j) = false.

    Lemma hsearch_prefix_spec : forall (n : nat) i fuel s,
      base <= i -> i < Eb -> N.to_nat (Eb - 1 - i) = n -> (n < fuel)%nat ->
      s <= lcp (snth S i) p ->
      (forall j, base <= j -> j < i -> nomatch j) ->
      exists r b' a',
        hsearch_prefix fuel d p (Eb - base) (fst (St i)) (snd (St i)) s (i - base + 1) = Some (r, b', a') /\
        ((r = 0 /\ forall j, base <= j -> j < Eb -> nomatch j) \/
         (exists j, i <= j /\ j < Eb /\ r = j - base + 1 /\ (b', a') = St j /\
                    Spec.is_prefix p (snth S j) = true /\ forall j', base <= j' -> j' < j -> nomatch j')).
    Proof.
      induction n as [|n IH]; intros i fuel s Hi1 Hi2 Hn Hf Hs Hprev;
        (destruct fuel as [|f]; [lia|]); cbn [hsearch_prefix].
      all: pose proof (LexLemmas.lcp_le_l (snth S i) p) as Hl1;
           pose proof (LexLemmas.lcp_le_r (snth S i) p) as Hl2.
      all: destruct (hcmp0_stream i p s ltac:(lia) Hnp Hs) as (z & Ec & Hsgn); rewrite Ec.
      all: destruct (N.eqb_spec (lcp (snth S i) p) (lenN p)) as [Efound|Enf].
      1,3: (eexists _, _, _; split; [reflexivity|]; right; exists i;
            repeat split; auto; try lia; [destruct (St i); reflexivity|apply is_prefix_lcp'; exact Efound]).
      all: assert (Hnm : nomatch i)
             by (unfold nomatch; destruct (Spec.is_prefix p (snth S i)) eqn:Ei; [apply is_prefix_lcp' in Ei; contradiction|reflexivity]).
      all: specialize (Hsgn ltac:(lia)).
      - assert (Hor : ((0 <? z)%Z || (i - base + 1 =? Eb - base)) = true).
        { destruct (N.eqb_spec (i - base + 1) (Eb - base)); [apply orb_true_r|lia]. }
        rewrite Hor. eexists _, _, _; split; [reflexivity|]. left. split; [reflexivity|].
        intros j Hj1 Hj2. destruct (N.eq_dec j i) as [->|Hne']; [exact Hnm|apply Hprev; lia].
      - destruct (Z.ltb_spec 0 z) as [Hz|Hz]; cbn [orb].
        + destruct Hsgn as [[_ Hgt]|[Hz' _]]; [|lia].
          eexists _, _, _; split; [reflexivity|]. left. split; [reflexivity|].
          intros j Hj1 Hj2. destruct (N.lt_ge_cases j i) as [Hlt|Hge]; [apply Hprev; assumption|].
          apply (nomatch_after S p i j Hsort Hge ltac:(lia)).
          unfold pcls. unfold nomatch in Hnm. rewrite Hnm. exact Hgt.
        + destruct Hsgn as [[Hz' _]|[_ Hlt]]; [lia|].
          destruct (N.eqb_spec (i - base + 1) (Eb - base)); [lia|].
          assert (Hi3 : i + 1 < Eb) by lia.
          rewrite (Hdstep i ltac:(lia) (Hmod base i Hbase Hi1 ltac:(lia))).
          assert (Hii : lex_lt (snth S i) (snth S (i + 1))) by (apply Hslt; lia).
          destruct (N.ltb_spec (lcp (snth S i) (snth S (i + 1))) (lcp (snth S i) p)) as [Hsh|Hsh].
          * eexists _, _, _; split; [reflexivity|]. left. split; [reflexivity|].
            intros j Hj1 Hj2. destruct (N.lt_ge_cases j i) as [Hlti|Hge]; [apply Hprev; assumption|].
            destruct (N.eq_dec j i) as [->|Hne']; [exact Hnm|].
            apply (nomatch_after S p (i + 1) j Hsort ltac:(lia) ltac:(lia)).
            assert (Hnm1 : Spec.is_prefix p (snth S (i + 1)) = false).
            { destruct (Spec.is_prefix p (snth S (i + 1))) eqn:E1; [|reflexivity].
              apply is_prefix_lcp in E1.
              pose proof (lcp_min p (snth S i) (snth S (i + 1))) as Hmin.
              rewrite (lcp_comm p (snth S i)) in Hmin. lia. }
            unfold pcls. rewrite Hnm1. apply lex_gt_lt.
            apply (scan_trick_lt (snth S i) p (snth S (i + 1)) Hlt Hii Hsh).
          * destruct (IH (i + 1) f (lcp (snth S i) p) ltac:(lia) Hi3 ltac:(lia) ltac:(lia)) as (r & b' & a' & Er & Hr).
            { pose proof (lcp_min (snth S i) (snth S (i + 1)) p). lia. }
            { intros j Hj1 Hj2. destruct (N.eq_dec j i) as [->|Hne']; [exact Hnm|apply Hprev; lia]. }
            replace (i - base + 1 + 1) with (i + 1 - base + 1) by lia.
            rewrite Er.
            exists r, b', a'. split; [reflexivity|].
            destruct Hr as [Hr|(j & Hj1 & Hj2 & Hr)]; [left; exact Hr|].
            right. exists j. split; [lia|]. split; [exact Hj2|exact Hr].
    Qed.

    Lemma hsearch_distinct_spec : forall (n : nat) j fuel id sc,
      base <= j -> j < Eb -> N.to_nat (Eb - 1 - j) = n -> (n < fuel)%nat ->
      sc + j + 1 = Eb + id -> 1 <= id ->
      Spec.is_prefix p (snth S j) = true ->
      exists j', j <= j' /\ j' < Eb /\
        hsearch_distinct fuel d (lenN p) sc (fst (St j)) (snd (St j)) id = Some (id + (j' - j)) /\
        Spec.is_prefix p (snth S j') = true /\ (j' + 1 < Eb -> nomatch (j' + 1)).
    Proof.
      induction n as [|n IH]; intros j fuel id sc Hj1 Hj2 Hn Hf Hsc Hid Hm;
        (destruct fuel as [|f]; [lia|]); cbn [hsearch_distinct].
      - destruct (N.ltb_spec id sc); [lia|].
        exists j. repeat split; auto; try lia. f_equal. lia.
      - destruct (N.ltb_spec id sc); [|lia].
        assert (Hj3 : j + 1 < Eb) by lia.
        rewrite (Hdstep j ltac:(lia) (Hmod base j Hbase Hj1 ltac:(lia))).
        pose proof (prefix_next p (snth S j) (snth S (j + 1)) Hm) as Hnext.
        destruct (N.ltb_spec (lcp (snth S j) (snth S (j + 1))) (lenN p)) as [Hsh|Hsh].
        + exists j. repeat split; auto; try lia; [f_equal; lia|].
          intros _. unfold nomatch. destruct (Spec.is_prefix p (snth S (j + 1))); [|reflexivity].
          pose proof (proj1 Hnext eq_refl). lia.
        + destruct (IH (j + 1) f (id + 1) sc ltac:(lia) Hj3 ltac:(lia) ltac:(lia) ltac:(lia) ltac:(lia)
                      (proj2 Hnext Hsh)) as (j' & H1 & H2 & Er & H3 & H4).
          exists j'. split; [lia|]. split; [exact H2|]. split; [rewrite Er; f_equal; lia|]. split; assumption.
    Qed.
  End PrefixScan.

  Let H (k : N) : str := snth S ((k - 1) * b).

  (* the masked memcmp of locateBoundaryBuckets against the header of bucket k *)
  Lemma hdr_memcmp_masked_stream k p enc o : 1 <= k -> k <= h_buckets d -> nul_free p ->
    pack_string (h_cw d) p = Some (enc, o) ->
    hdr_memcmp_masked d k enc o = Some (pcls p (H k)).
  Proof.
    intros Hk1 Hk2 Hp Pp.
    destruct (hstream_header d b S St Hbs Hb2 Hb32 Hel Hn32 Hbk HSt k Hk1 Hk2)
      as (off & ench & oh & rest & st0 & Hlt & Ebl & Ep & Hle & Hs & _).
    destruct Hcode as (_ & CP & CA & CL & _).
    unfold hdr_memcmp_masked. rewrite rdN_nthN, Ebl. destruct (N.leb_spec off (lenN (h_text d))); [|lia].
    rewrite Hs.
    assert (F : Forall (fun x => x < 256) rest).
    { assert (F0 : Forall (fun x => x < 256) (skipN off (h_text d))).
      { unfold skipN. apply Forall_forall. intros x Hx. rewrite Forall_forall in Htext. apply Htext.
        rewrite <- (firstn_skipn (N.to_nat off)). apply in_or_app. right. exact Hx. }
      rewrite Hs in F0. apply Forall_app in F0. apply F0. }
    exact (masked_memcmp_pcls (h_cw d) (H k) p ench oh enc o rest CP CA CL (Hnfi _ Hlt) Hp Ep Pp F).
  Qed.

  Lemma hlbb_spec p enc o : nul_free p -> pack_string (h_cw d) p = Some (enc, o) ->
    exists L R, hlocate_boundary_buckets d enc o = Some (L, R) /\ hlbb_post (h_buckets d) (hcls b S p) L R.
  Proof.
    intros Hnp Pp.
    assert (Hidx : forall k, 1 <= k -> k <= h_buckets d -> (k - 1) * b < lenN S).
    { intros k H1 H2. apply (Hbiff k); lia. }
    apply (hlocate_boundary_buckets_abs d enc o (h_buckets d) (hcls b S p) eq_refl).
    - (* buckets + 1 < 2^32 *)
      assert (Hb0 : b <> 0) by lia.
      assert (E32 : 2 ^ 32 = 4294967296) by reflexivity. rewrite E32 in *.
      assert (H1 : (lenN S + b - 1) / b <= (lenN S + 1 * b) / b) by (apply N.div_le_mono; lia).
      rewrite N.div_add in H1 by lia.
      assert (H2 : lenN S / b <= lenN S / 2) by (apply N.div_le_compat_l; lia).
      rewrite Hbk. lia.
    - intros k H1 H2. apply (hdr_memcmp_masked_stream k p enc o H1 H2 Hnp Pp).
    - intros j k H1 H2 H3 Hc. unfold hcls in *.
      apply (cls_before S p ((k - 1) * b) ((j - 1) * b) Hsort);
        [apply N.mul_le_mono_r; lia|apply Hidx; lia|exact Hc].
    - intros j k H1 H2 H3 Hc. unfold hcls in *.
      apply (cls_after S p ((j - 1) * b) ((k - 1) * b) Hsort);
        [apply N.mul_le_mono_r; lia|apply Hidx; lia|exact Hc].
    - exact Hbpos.
  Qed.

  Section Glue.
    Variable p : str.
    Hypothesis Hnp : nul_free p.
    Variables (enc : list N) (o : N).
    Hypothesis Hes : encode_string d p = Some (enc, o).

    Lemma hsame_bucket_case k : 1 <= k -> k <= h_buckets d ->
      hlocate_boundary_buckets d enc o = Some (k, k) ->
      (forall j, j < (k - 1) * b -> Spec.is_prefix p (snth S j) = false) ->
      (k * b < lenN S -> pcls p (snth S (k * b)) = Gt) ->
      htfc_locate_prefix d p = Some (range_of (spec_prefix_ids S p)).
    Proof.
      intros Hk1 Hk2 Elbb Hbefore Hafter.
      unfold htfc_locate_prefix. rewrite Hes, Elbb, Hbs.
      destruct (N.ltb_spec 0 k); [|lia]. rewrite N.eqb_refl.
      rewrite (mul_pred_succ k b Hk1) in Hafter.
      destruct (Hfacts k Hk1 Hk2) as (base & Eb & st0 & Eb' & Hmod0 & HbE & HE1 & HE2 & Esc & Edh & Ers & _ & Hnext & _).
      rewrite <- Eb' in *. clear Eb'.
      rewrite Edh. cbn [opt_bind]. rewrite Ers, Esc.
      destruct (St base) as [bb0 aa0] eqn:Est0.
      destruct (hsearch_prefix_spec p Hnp base Eb Hmod0 HE1 HE2
                  (N.to_nat (Eb - 1 - base)) base (Datatypes.S (Datatypes.S (N.to_nat (Eb - base)))) 0)
        as (r & b' & a' & Esp & Hsp); try lia.
      replace (base - base + 1) with 1 in Esp by lia. rewrite Est0 in Esp. cbn [fst snd] in Esp. rewrite Esp.
      destruct Hsp as [[-> Hnone]|(j & Hj1 & Hj2 & -> & Est & Hmj & Hprev)].
      - cbn [N.eqb]. f_equal. symmetry. apply none_cert.
        intros j Hj. destruct (N.lt_ge_cases j base) as [H1|H1]; [apply Hbefore; exact H1|].
        destruct (N.lt_ge_cases j Eb) as [H2|H2]; [apply Hnone; assumption|].
        destruct (Hnext ltac:(lia)) as [EE _]. subst Eb.
        apply (nomatch_after S p (base + b) j Hsort H2 Hj). apply Hafter. lia.
      - destruct (N.eqb_spec (j - base + 1) 0); [lia|].
        assert (E32 : 2 ^ 32 = 4294967296) by reflexivity.
        destruct (hsearch_distinct_spec p base Eb Hmod0 HE1 HE2
                    (N.to_nat (Eb - 1 - j)) j (Datatypes.S (Datatypes.S (N.to_nat (Eb - base)))) 1
                    (Eb - base - (j - base + 1) + 1)) as (j' & H1 & H2 & Esd & Hmj' & Hnj'); try lia; auto.
        assert (Ew : W32m (Eb - base + 2 ^ 32 - (j - base + 1) + 1) = Eb - base - (j - base + 1) + 1).
        { unfold W32m. replace (Eb - base + 2 ^ 32 - (j - base + 1) + 1) with (Eb - base - (j - base + 1) + 1 + 1 * 2 ^ 32) by lia.
          rewrite N.mod_add by lia. apply N.mod_small. rewrite E32 in *. lia. }
        rewrite Ew. rewrite <- Est in Esd. cbn [fst snd] in Esd. rewrite Esd. f_equal.
        rewrite (range_cert S p j j' Hsort H1 ltac:(lia) Hmj Hmj').
        + f_equal; lia.
        + destruct (N.eq_dec j base) as [->|Hne'].
          * destruct (N.eq_dec base 0) as [->|Hb0]; [left; reflexivity|].
            right. apply Hbefore. lia.
          * right. apply Hprev; lia.
        + destruct (N.lt_ge_cases (j' + 1) Eb) as [H3|H3]; [right; apply Hnj'; exact H3|].
          assert (j' + 1 = Eb) by lia.
          destruct (N.eq_dec Eb (lenN S)) as [EE|NE]; [left; lia|].
          destruct (Hnext ltac:(lia)) as [EE _]. right.
          replace (j' + 1) with (base + b) by lia.
          apply (nomatch_after S p (base + b) (base + b) Hsort); [lia|lia|apply Hafter; lia].
    Qed.
  
    Lemma htwo_bucket_case L R : 1 <= L -> L < R -> R <= h_buckets d ->
      hlocate_boundary_buckets d enc o = Some (L, R) ->
      (L = 1 \/ hcls b S p L = Lt) ->
      hcls b S p (L + 1) = Eq -> hcls b S p R = Eq ->
      (R + 1 <= h_buckets d -> hcls b S p (R + 1) = Gt) ->
      htfc_locate_prefix d p = Some (range_of (spec_prefix_ids S p)).
    Proof.
      intros HL1 HLR HRm Elbb HcL HcL1 HcR HcR1.
      unfold htfc_locate_prefix. rewrite Hes, Elbb, Hbs.
      destruct (N.ltb_spec 0 L); [|lia]. destruct (N.eqb_spec L R); [lia|].
      unfold hcls in *. rewrite N.add_sub in HcL1, HcR1.
      apply pcls_Eq in HcL1, HcR.
      assert (HLb : L * b = (L - 1) * b + b) by (apply mul_pred_succ; lia).
      assert (HLRb : L * b <= (R - 1) * b) by (apply N.mul_le_mono_r; lia).
      assert (HRb : R * b = (R - 1) * b + b) by (apply mul_pred_succ; lia).
      destruct (Hfacts L ltac:(lia) ltac:(lia)) as (baseL & EL & st0L & EbL & HmodL & HbEL & HEL1 & HEL2 & EscL & EdhL & ErsL & _ & _ & HfullL).
      destruct (Hfacts R ltac:(lia) ltac:(lia)) as (baseR & ER & st0R & EbR & HmodR & HbER & HER1 & HER2 & EscR & EdhR & ErsR & _ & HnextR & _).
      destruct (HfullL ltac:(lia)) as [EEL HELn].
      assert (HbL0 : L = 1 -> baseL = 0) by (intros ->; rewrite EbL; reflexivity).
      rewrite <- EbL in *. rewrite <- EbR in *. clear EbL EbR.
      revert HcL1 HcR1 HLb HLRb HRb. generalize (L * b). generalize (R * b). intros Rb Lb HcL1 HcR1 HLb HLRb HRb.
      subst Lb Rb EL.
      rewrite EdhL. cbn [opt_bind]. rewrite ErsL, EscL.
      destruct (St baseL) as [bbL aaL] eqn:EstL.
      destruct (hsearch_prefix_spec p Hnp baseL (baseL + b) HmodL HEL1 HEL2
                  (N.to_nat (baseL + b - 1 - baseL)) baseL (Datatypes.S (Datatypes.S (N.to_nat (baseL + b - baseL)))) 0)
        as (r & b' & a' & Esp & Hsp); try lia.
      replace (baseL - baseL + 1) with 1 in Esp by lia. rewrite EstL in Esp. cbn [fst snd] in Esp. rewrite Esp.
      rewrite EdhR. cbn [opt_bind]. rewrite ErsR, EscR.
      destruct (St baseR) as [bbR aaR] eqn:EstR.
      destruct (hsearch_distinct_spec p baseR ER HmodR HER1 HER2
                  (N.to_nat (ER - 1 - baseR)) baseR (Datatypes.S (Datatypes.S (N.to_nat (ER - baseR)))) 1
                  (ER - baseR)) as (j' & H1 & H2 & Esd & Hmj' & Hnj'); try lia; auto.
      rewrite EstR in Esd. cbn [fst snd] in Esd. rewrite Esd. f_equal.
      clear HmodL HmodR EdhL EdhR ErsL ErsR EscL EscR Esp Esd Elbb.
      assert (Hhi : j' + 1 = lenN S \/ Spec.is_prefix p (snth S (j' + 1)) = false).
      { destruct (N.lt_ge_cases (j' + 1) ER) as [H3|H3]; [right; apply Hnj'; exact H3|].
        assert (j' + 1 = ER) by lia.
        destruct (N.eq_dec ER (lenN S)) as [EE|NE]; [left; lia|].
        destruct (HnextR ltac:(lia)) as [EE HR1]. right.
        replace (j' + 1) with (baseR + b) by lia.
        apply (nomatch_after S p (baseR + b) (baseR + b) Hsort); [lia|lia|apply HcR1; exact HR1]. }
      destruct Hsp as [[-> Hnone]|(j & Hj1 & Hj2 & -> & Est & Hmj & Hprev)].
      - cbn [N.eqb].
        rewrite (range_cert S p (baseL + b) j' Hsort ltac:(lia) ltac:(lia) HcL1 Hmj').
        + f_equal; lia.
        + right. apply Hnone; lia.
        + exact Hhi.
      - destruct (N.eqb_spec (j - baseL + 1) 0); [lia|].
        rewrite (range_cert S p j j' Hsort ltac:(lia) ltac:(lia) Hmj Hmj').
        + f_equal; lia.
        + destruct (N.eq_dec j baseL) as [->|Hne']; [|right; apply Hprev; lia].
          destruct HcL as [HcL|HcL].
          * left. apply HbL0. exact HcL.
          * apply pcls_Lt in HcL. destruct HcL as [HcL _]. congruence.
        + exact Hhi.
    Qed.

    Theorem htfc_locate_prefix_stream : pack_string (h_cw d) p = Some (enc, o) ->
      htfc_locate_prefix d p = Some (range_of (spec_prefix_ids S p)).
    Proof.
      intros Pp.
      pose proof Hbpos as Hm1.
      assert (Hidx : forall k, 1 <= k -> k <= h_buckets d -> (k - 1) * b < lenN S).
      { intros k H1 H2. apply (Hbiff k); lia. }
      pose proof (hlbb_spec p enc o Hnp Pp) as Hlbb.
      destruct Hlbb as (L & R & Elbb & [(fE & lE & Hf1 & Hf2 & Hf3 & HcLt & HcEq & HcGt & -> & ->)|(-> & HRm & HcLt & HcGt)]).
      - destruct (N.eqb_spec fE 1) as [->|Hf].
        + destruct (N.eq_dec lE 1) as [->|Hl].
          * apply (hsame_bucket_case 1); [lia|exact Hm1|exact Elbb|intros j Hj; lia|].
            intros Hn. rewrite N.mul_1_l in *.
            assert (H2 : 2 <= h_buckets d)
              by (apply (Hbiff 2); [lia|]; replace ((2 - 1) * b) with b by lia; exact Hn).
            pose proof (HcGt 2 ltac:(lia) H2) as Hc. unfold hcls in Hc.
            replace ((2 - 1) * b) with b in Hc by lia. exact Hc.
          * apply (htwo_bucket_case 1 lE);
              [lia|lia|lia|exact Elbb|left; reflexivity|apply HcEq; lia|apply HcEq; lia|intros H'; apply HcGt; lia].
        + apply (htwo_bucket_case (fE - 1) lE);
            [lia|lia|lia|exact Elbb|right; apply HcLt; lia| |apply HcEq; lia|intros H'; apply HcGt; lia].
          replace (fE - 1 + 1) with fE by lia. apply HcEq; lia.
      - destruct (N.eq_dec R 0) as [->|HR0].
        + unfold htfc_locate_prefix. rewrite Hes, Elbb. cbn [N.ltb N.compare]. f_equal. symmetry.
          apply none_cert. intros j Hj.
          pose proof (HcGt 1 ltac:(lia) Hm1) as Hc. unfold hcls in Hc.
          replace ((1 - 1) * b) with 0 in Hc by lia.
          apply (nomatch_after S p 0 j Hsort); auto. lia.
        + apply (hsame_bucket_case R); auto; try lia.
          * intros j Hj. pose proof (HcLt R ltac:(lia) ltac:(lia)) as Hc. unfold hcls in Hc.
            apply (nomatch_before S p ((R - 1) * b) j Hsort); auto; [lia|]. apply Hidx; lia.
          * intros Hn.
            assert (H2 : R + 1 <= h_buckets d) by (apply (Hbiff (R + 1)); [lia|]; rewrite N.add_sub; exact Hn).
            pose proof (HcGt (R + 1) ltac:(lia) H2) as Hc. unfold hcls in Hc.
            rewrite N.add_sub in Hc. exact Hc.
    Qed.
  End Glue.
End Prefix.

Lemma encode_string_pack_any d p : code_ok (h_cw d) -> Forall (fun x => x < 256) p ->
  exists enc o, encode_string d p = Some (enc, o) /\ pack_string (h_cw d) p = Some (enc, o).
Proof. apply encode_string_pack. Qed.

Theorem htfc_locate_prefix_ok d b S : htfc_ok d b S -> S <> [] -> Forall nul_free S -> sorted_lt S ->
  forall p, nul_free p -> Forall (fun c => c < 256) p ->
  htfc_locate_prefix d p = Some (range_of (spec_prefix_ids S p)).
Proof.
  intros (Hbs & Hb2 & Hb32 & Hel & Hn32 & Hbk & Hk & Hcode & Htext & St & HSt) Hne Hnf Hsort p Hp Hp256.
  destruct (encode_string_pack_any d p Hcode Hp256) as (enc & o & Ees & Pp).
  apply (htfc_locate_prefix_stream d b S St Hbs Hb2 Hb32 Hel Hn32 Hbk Hcode Htext HSt Hnf Hsort Hne p Hp enc o Ees Pp).
Qed.

(* ====================================================================== *)
(* F. the theorems in the form the harness instantiates                    *)
(* ====================================================================== *)
Lemma valid_set_facts S : valid_set S -> S <> [] /\ Forall nul_free S /\ sorted_lt S.
Proof.
  intros (Hne & Hv & Hs). split; [exact Hne|]. split; [|exact Hs].
  apply Forall_forall. intros s Hin. rewrite Forall_forall in Hv. destruct (Hv s Hin) as [_ Hb].
  unfold nul_free. eapply Forall_impl; [|exact Hb]. intros c [Hc _]. lia.
Qed.

Theorem htfc_extract_ok d b S : htfc_ok d b S -> S <> [] -> Forall nul_free S -> sorted_lt S ->
  forall id, htfc_extract d id = Some (spec_extract S id).
Proof.
  intros (Hbs & Hb2 & Hb32 & Hel & Hn32 & Hbk & Hk & Hcode & Htext & St & HSt) Hne Hnf Hsort id.
  apply (htfc_extract_stream d b S St); assumption.
Qed.

Theorem htfc_locate_ok d b S : htfc_ok d b S -> S <> [] -> Forall nul_free S -> sorted_lt S ->
  forall q, nul_free q -> Forall (fun c => c < 256) q -> htfc_locate d q = Some (spec_locate S q).
Proof.
  intros (Hbs & Hb2 & Hb32 & Hel & Hn32 & Hbk & Hk & Hcode & Htext & St & HSt) Hne Hnf Hsort q Hq Hq256.
  apply (htfc_locate_stream d b S St); assumption.
Qed.

(* every object certified by the checker answers extract / locate like the specification *)
Theorem htfc_extract_spec S d : valid_set S -> htfc_check S d = true ->
  forall id, htfc_extract d id = Some (spec_extract S id).
Proof.
  intros HV HC. destruct (valid_set_facts S HV) as (Hne & Hnf & Hsort).
  exact (htfc_extract_ok d _ S (htfc_check_sound S d HC) Hne Hnf Hsort).
Qed.

Theorem htfc_locate_spec S d : valid_set S -> htfc_check S d = true ->
  forall q, nul_free q -> Forall (fun c => c < 256) q -> htfc_locate d q = Some (spec_locate S q).
Proof.
  intros HV HC. destruct (valid_set_facts S HV) as (Hne & Hnf & Hsort).
  exact (htfc_locate_ok d _ S (htfc_check_sound S d HC) Hne Hnf Hsort).
Qed.

(* the same for objects certified by the second checker, which does not run decodeString *)
Theorem htfc_extract_spec2 S d : valid_set S -> htfc_check2 S d = true ->
  forall id, htfc_extract d id = Some (spec_extract S id).
Proof.
  intros HV HC. destruct (valid_set_facts S HV) as (Hne & Hnf & Hsort).
  exact (htfc_extract_ok d _ S (htfc_check2_sound S d HC) Hne Hnf Hsort).
Qed.

Theorem htfc_locate_spec2 S d : valid_set S -> htfc_check2 S d = true ->
  forall q, nul_free q -> Forall (fun c => c < 256) q -> htfc_locate d q = Some (spec_locate S q).
Proof.
  intros HV HC. destruct (valid_set_facts S HV) as (Hne & Hnf & Hsort).
  exact (htfc_locate_ok d _ S (htfc_check2_sound S d HC) Hne Hnf Hsort).
Qed.

Lemma valid_set_bytes S : valid_set S -> Forall (Forall (fun c => c < 256)) S.
Proof.
  intros (_ & Hv & _). apply Forall_forall. intros s Hin. rewrite Forall_forall in Hv. destruct (Hv s Hin) as [_ Hb].
  eapply Forall_impl; [|exact Hb]. intros c [_ Hc]. lia.
Qed.

(* round trips: locate (extract id) = id for every valid id, extract (locate s) = s for every member *)
Theorem htfc_roundtrip S d : valid_set S -> htfc_check S d = true \/ htfc_check2 S d = true ->
  (forall id, 1 <= id <= lenN S -> exists s, htfc_extract d id = Some (Some s) /\ htfc_locate d s = Some id) /\
  (forall s, In s S -> exists id, htfc_locate d s = Some id /\ htfc_extract d id = Some (Some s)).
Proof.
  intros HV HC. destruct (valid_set_facts S HV) as (Hne & Hnf & Hsort).
  pose proof (valid_set_bytes S HV) as Hby.
  assert (Hok : htfc_ok d (h_bsize d) S) by (destruct HC; [apply htfc_check_sound|apply htfc_check2_sound]; assumption).
  rewrite Forall_forall in Hnf, Hby.
  split.
  - intros id Hid. destruct (spec_extract_in_range S id Hid) as (s & Es & Hin).
    exists s. rewrite (htfc_extract_ok d _ S Hok Hne ltac:(apply Forall_forall; exact Hnf) Hsort id), Es.
    split; [reflexivity|].
    rewrite (htfc_locate_ok d _ S Hok Hne ltac:(apply Forall_forall; exact Hnf) Hsort s (Hnf s Hin) (Hby s Hin)).
    f_equal. apply spec_locate_extract; [apply sorted_NoDup; exact Hsort|exact Es].
  - intros s Hin. exists (spec_locate S s).
    rewrite (htfc_locate_ok d _ S Hok Hne ltac:(apply Forall_forall; exact Hnf) Hsort s (Hnf s Hin) (Hby s Hin)).
    split; [reflexivity|].
    rewrite (htfc_extract_ok d _ S Hok Hne ltac:(apply Forall_forall; exact Hnf) Hsort).
    rewrite (spec_extract_locate S s Hin). reflexivity.
Qed.

(* memory safety: no query of a certified object reads outside textStrings / stream / blStrings / codewords /
   the scratch buffer's initialised part, writes outside the scratch buffer, or runs out of fuel
   (every such event is [None] in the model) *)
Theorem htfc_no_oob S d : valid_set S -> htfc_check S d = true \/ htfc_check2 S d = true ->
  (forall id, htfc_extract d id <> None) /\
  (forall q, nul_free q -> Forall (fun c => c < 256) q -> htfc_locate d q <> None).
Proof.
  intros HV HC. destruct (valid_set_facts S HV) as (Hne & Hnf & Hsort).
  assert (Hok : htfc_ok d (h_bsize d) S) by (destruct HC; [apply htfc_check_sound|apply htfc_check2_sound]; assumption).
  split.
  - intros id. rewrite (htfc_extract_ok d _ S Hok Hne Hnf Hsort id). discriminate.
  - intros q Hq Hq2. rewrite (htfc_locate_ok d _ S Hok Hne Hnf Hsort q Hq Hq2). discriminate.
Qed.

(* prefix search: the (left, right) limits locatePrefix hands to IteratorDictIDContiguous, and the IDs it enumerates *)
Theorem htfc_locate_prefix_spec S d : valid_set S -> htfc_check S d = true \/ htfc_check2 S d = true ->
  forall p, nul_free p -> Forall (fun c => c < 256) p ->
  htfc_locate_prefix d p = Some (range_of (spec_prefix_ids S p)).
Proof.
  intros HV HC. destruct (valid_set_facts S HV) as (Hne & Hnf & Hsort).
  assert (Hok : htfc_ok d (h_bsize d) S) by (destruct HC; [apply htfc_check_sound|apply htfc_check2_sound]; assumption).
  exact (htfc_locate_prefix_ok d _ S Hok Hne Hnf Hsort).
Qed.

Theorem htfc_locate_prefix_ids S d : valid_set S -> htfc_check S d = true \/ htfc_check2 S d = true ->
  forall p, nul_free p -> Forall (fun c => c < 256) p ->
  exists r, htfc_locate_prefix d p = Some r /\ contig_ids (fst r) (snd r) = spec_prefix_ids S p.
Proof.
  intros HV HC p Hp Hp2. destruct (valid_set_facts S HV) as (Hne & Hnf & Hsort).
  exists (range_of (spec_prefix_ids S p)). split; [apply (htfc_locate_prefix_spec S d HV HC p Hp Hp2)|].
  assert (Hok : htfc_ok d (h_bsize d) S) by (destruct HC; [apply htfc_check_sound|apply htfc_check2_sound]; assumption).
  destruct Hok as (_ & _ & _ & _ & Hn32 & _).
  apply range_ids_spec; [exact Hsort|]. assert (2 ^ 32 < 2 ^ 64) by (apply N.pow_lt_mono_r; lia). lia.
Qed.

(* ====================================================================== *)
(* M. two objects dumped from the real constructor + save + load            *)
(* ====================================================================== *)
(* hx_usa: S = {alabama, alaska, arizona, arkansas, california, colorado, connecticut, delaware}, bucketsize 3
   hx_r128c: S = {a^128, a^129, a^130}, bucketsize 3: the in-bucket shared prefix 128 has the VByte 00 81, whose
   first byte the decoder takes for the end of a string (known finding ht-front-coding-lcp-ge-128) *)
Definition hx_usa_S : list str := [[97; 108; 97; 98; 97; 109; 97]; [97; 108; 97; 115; 107; 97]; [97; 114; 105; 122; 111; 110; 97]; [97; 114; 107; 97; 110; 115; 97; 115]; [99; 97; 108; 105; 102; 111; 114; 110; 105; 97]; [99; 111; 108; 111; 114; 97; 100; 111]; [99; 111; 110; 110; 101; 99; 116; 105; 99; 117; 116]; [100; 101; 108; 97; 119; 97; 114; 101]].
Definition hx_usa_d : htfc :=
  {| h_elements := 8; h_maxlength := 12; h_maxcomplength := 14; h_buckets := 3; h_bsize := 3;
     h_text := [66; 228; 36; 66; 244; 0; 131; 109; 106; 1; 1; 170; 175; 12; 176; 128; 0; 67; 85; 168; 97; 180; 54; 0; 126; 149; 11; 149; 80; 203; 86; 21; 64; 32; 50; 185; 150; 168; 76; 200; 0; 74; 203; 12; 39; 74; 225; 84; 174; 78; 0; 126; 153; 58; 228; 58; 67; 84; 224; 0];
     h_bl := [0; 0; 17; 41; 60];
     h_cw := [(0, 5); (16, 9); (17, 9); (18, 9); (19, 9); (20, 9); (21, 9); (22, 9); (23, 9); (24, 9); (25, 9); (26, 9); (27, 9); (28, 9); (29, 9); (30, 9); (31, 9); (32, 9); (33, 9); (34, 9); (35, 9); (36, 9); (37, 9); (38, 9); (39, 9); (40, 9); (41, 9); (42, 9); (43, 9); (44, 9); (45, 9); (46, 9); (47, 9); (48, 9); (49, 9); (50, 9); (51, 9); (52, 9); (53, 9); (54, 9); (55, 9); (56, 9); (57, 9); (58, 9); (59, 9); (60, 9); (61, 9); (62, 9); (63, 9); (64, 9); (65, 9); (66, 9); (67, 9); (68, 9); (69, 9); (70, 9); (71, 9); (72, 9); (73, 9); (74, 9); (75, 9); (76, 9); (77, 9); (78, 9); (79, 9); (80, 9); (81, 9); (82, 9); (83, 9); (84, 9); (85, 9); (86, 9); (87, 9); (88, 9); (89, 9); (90, 9); (91, 9); (92, 9); (93, 9); (94, 9); (95, 9); (48, 8); (49, 8); (50, 8); (51, 8); (52, 8); (53, 8); (54, 8); (55, 8); (56, 8); (57, 8); (58, 8); (59, 8); (60, 8); (61, 8); (62, 8); (63, 8); (8, 5); (36, 7); (37, 7); (38, 7); (39, 7); (40, 7); (82, 8); (83, 8); (21, 6); (44, 7); (45, 7); (46, 7); (47, 7); (24, 6); (25, 6); (104, 8); (105, 8); (53, 7); (27, 6); (56, 7); (114, 8); (115, 8); (58, 7); (118, 8); (119, 8); (120, 8); (121, 8); (122, 8); (123, 8); (124, 8); (125, 8); (63, 7); (64, 7); (130, 8); (131, 8); (132, 8); (133, 8); (134, 8); (135, 8); (136, 8); (137, 8); (138, 8); (139, 8); (140, 8); (141, 8); (142, 8); (143, 8); (144, 8); (145, 8); (146, 8); (147, 8); (148, 8); (149, 8); (150, 8); (151, 8); (152, 8); (153, 8); (154, 8); (155, 8); (156, 8); (157, 8); (158, 8); (159, 8); (160, 8); (161, 8); (162, 8); (163, 8); (164, 8); (165, 8); (166, 8); (167, 8); (168, 8); (169, 8); (170, 8); (171, 8); (172, 8); (173, 8); (174, 8); (175, 8); (176, 8); (177, 8); (178, 8); (179, 8); (180, 8); (181, 8); (182, 8); (183, 8); (184, 8); (185, 8); (186, 8); (187, 8); (188, 8); (189, 8); (190, 8); (191, 8); (192, 8); (193, 8); (194, 8); (195, 8); (196, 8); (197, 8); (198, 8); (199, 8); (200, 8); (201, 8); (202, 8); (203, 8); (204, 8); (205, 8); (206, 8); (207, 8); (208, 8); (209, 8); (210, 8); (211, 8); (212, 8); (213, 8); (214, 8); (215, 8); (216, 8); (217, 8); (218, 8); (219, 8); (220, 8); (221, 8); (222, 8); (223, 8); (224, 8); (225, 8); (226, 8); (227, 8); (228, 8); (229, 8); (230, 8); (231, 8); (232, 8); (233, 8); (234, 8); (235, 8); (236, 8); (237, 8); (238, 8); (239, 8); (240, 8); (241, 8); (242, 8); (243, 8); (244, 8); (245, 8); (246, 8); (247, 8); (248, 8); (249, 8); (250, 8); (251, 8); (252, 8); (253, 8); (254, 8); (255, 8)];
     h_k := 16;
     h_stream := [0; 16; 0; 43; 0; 129; 41; 97; 0; 43; 97; 98; 43; 97; 108; 43; 97; 109; 43; 97; 114; 63; 97; 115; 0; 43; 97; 119; 44; 99; 111; 46; 99; 117; 44; 100; 111; 32; 101; 0; 45; 101; 99; 45; 101; 108; 44; 105; 102; 43; 107; 97; 44; 108; 111; 63; 110; 97; 0; 43; 110; 105; 43; 110; 110; 43; 110; 115; 44; 111; 114; 43; 114; 97; 44; 114; 105; 32; 116; 0; 44; 116; 105; 45; 122; 111; 45; 128; 99; 45; 128; 100; 44; 129; 111; 45; 131; 115];
     h_tab := [(0, 1); (1030, 3); (16392, 6); (16416, 6); (16964, 9); (17124, 12); (17125, 12); (17140, 15); (17236, 18); (17237, 18); (17248, 21); (17316, 25); (19147, 28); (19172, 31); (19656, 34); (19968, 37); (20117, 40); (20153, 43); (21827, 46); (23168, 49); (23174, 49); (23755, 52); (24832, 55); (24916, 59); (24964, 62); (25012, 65); (26027, 68); (27268, 71); (27307, 74); (28675, 77); (28842, 80); (30821, 83); (32405, 86); (32409, 89); (32970, 92); (33645, 95)];
     h_endings := [0; 1030; 16392; 16416; 17248; 19968; 24832; 28675];
     h_trees := [] |}.
Definition hx_r128c_S : list str := [[97; 97; 97; 97; 97; 97; 97; 97; 97; 97; 97; 97; 97; 97; 97; 97; 97; 97; 97; 97; 97; 97; 97; 97; 97; 97; 97; 97; 97; 97; 97; 97; 97; 97; 97; 97; 97; 97; 97; 97; 97; 97; 97; 97; 97; 97; 97; 97; 97; 97; 97; 97; 97; 97; 97; 97; 97; 97; 97; 97; 97; 97; 97; 97; 97; 97; 97; 97; 97; 97; 97; 97; 97; 97; 97; 97; 97; 97; 97; 97; 97; 97; 97; 97; 97; 97; 97; 97; 97; 97; 97; 97; 97; 97; 97; 97; 97; 97; 97; 97; 97; 97; 97; 97; 97; 97; 97; 97; 97; 97; 97; 97; 97; 97; 97; 97; 97; 97; 97; 97; 97; 97; 97; 97; 97; 97; 97; 97]; [97; 97; 97; 97; 97; 97; 97; 97; 97; 97; 97; 97; 97; 97; 97; 97; 97; 97; 97; 97; 97; 97; 97; 97; 97; 97; 97; 97; 97; 97; 97; 97; 97; 97; 97; 97; 97; 97; 97; 97; 97; 97; 97; 97; 97; 97; 97; 97; 97; 97; 97; 97; 97; 97; 97; 97; 97; 97; 97; 97; 97; 97; 97; 97; 97; 97; 97; 97; 97; 97; 97; 97; 97; 97; 97; 97; 97; 97; 97; 97; 97; 97; 97; 97; 97; 97; 97; 97; 97; 97; 97; 97; 97; 97; 97; 97; 97; 97; 97; 97; 97; 97; 97; 97; 97; 97; 97; 97; 97; 97; 97; 97; 97; 97; 97; 97; 97; 97; 97; 97; 97; 97; 97; 97; 97; 97; 97; 97; 97]; [97; 97; 97; 97; 97; 97; 97; 97; 97; 97; 97; 97; 97; 97; 97; 97; 97; 97; 97; 97; 97; 97; 97; 97; 97; 97; 97; 97; 97; 97; 97; 97; 97; 97; 97; 97; 97; 97; 97; 97; 97; 97; 97; 97; 97; 97; 97; 97; 97; 97; 97; 97; 97; 97; 97; 97; 97; 97; 97; 97; 97; 97; 97; 97; 97; 97; 97; 97; 97; 97; 97; 97; 97; 97; 97; 97; 97; 97; 97; 97; 97; 97; 97; 97; 97; 97; 97; 97; 97; 97; 97; 97; 97; 97; 97; 97; 97; 97; 97; 97; 97; 97; 97; 97; 97; 97; 97; 97; 97; 97; 97; 97; 97; 97; 97; 97; 97; 97; 97; 97; 97; 97; 97; 97; 97; 97; 97; 97; 97; 97]].
Definition hx_r128c_d : htfc :=
  {| h_elements := 3; h_maxlength := 131; h_maxcomplength := 37; h_buckets := 1; h_bsize := 3;
     h_text := [85; 85; 85; 85; 85; 85; 85; 85; 85; 85; 85; 85; 85; 85; 85; 85; 85; 85; 85; 85; 85; 85; 85; 85; 85; 85; 85; 85; 85; 85; 85; 85; 0; 2; 66; 0; 36; 132; 0; 0];
     h_bl := [0; 0; 40];
     h_cw := [(0, 6); (4, 8); (10, 9); (11, 9); (12, 9); (13, 9); (14, 9); (15, 9); (16, 9); (17, 9); (18, 9); (19, 9); (20, 9); (21, 9); (22, 9); (23, 9); (24, 9); (25, 9); (26, 9); (27, 9); (28, 9); (29, 9); (30, 9); (31, 9); (32, 9); (33, 9); (34, 9); (35, 9); (36, 9); (37, 9); (38, 9); (39, 9); (40, 9); (41, 9); (42, 9); (43, 9); (44, 9); (45, 9); (46, 9); (47, 9); (48, 9); (49, 9); (50, 9); (51, 9); (52, 9); (53, 9); (54, 9); (55, 9); (56, 9); (57, 9); (58, 9); (59, 9); (60, 9); (61, 9); (62, 9); (63, 9); (64, 9); (65, 9); (66, 9); (67, 9); (68, 9); (69, 9); (70, 9); (71, 9); (72, 9); (73, 9); (74, 9); (75, 9); (76, 9); (77, 9); (78, 9); (79, 9); (80, 9); (81, 9); (41, 8); (42, 8); (43, 8); (44, 8); (45, 8); (46, 8); (47, 8); (48, 8); (49, 8); (50, 8); (51, 8); (52, 8); (53, 8); (54, 8); (55, 8); (56, 8); (57, 8); (58, 8); (59, 8); (60, 8); (61, 8); (62, 8); (63, 8); (1, 2); (256, 9); (257, 9); (258, 9); (259, 9); (260, 9); (261, 9); (262, 9); (263, 9); (264, 9); (265, 9); (266, 9); (267, 9); (268, 9); (269, 9); (270, 9); (271, 9); (272, 9); (273, 9); (274, 9); (275, 9); (276, 9); (277, 9); (278, 9); (279, 9); (280, 9); (281, 9); (282, 9); (283, 9); (284, 9); (285, 9); (143, 8); (72, 7); (292, 9); (293, 9); (294, 9); (295, 9); (296, 9); (297, 9); (298, 9); (299, 9); (300, 9); (301, 9); (302, 9); (303, 9); (304, 9); (305, 9); (306, 9); (307, 9); (308, 9); (309, 9); (310, 9); (311, 9); (312, 9); (313, 9); (314, 9); (315, 9); (316, 9); (317, 9); (318, 9); (319, 9); (320, 9); (321, 9); (322, 9); (323, 9); (162, 8); (163, 8); (164, 8); (165, 8); (166, 8); (167, 8); (168, 8); (169, 8); (170, 8); (171, 8); (172, 8); (173, 8); (174, 8); (175, 8); (176, 8); (177, 8); (178, 8); (179, 8); (180, 8); (181, 8); (182, 8); (183, 8); (184, 8); (185, 8); (186, 8); (187, 8); (188, 8); (189, 8); (190, 8); (191, 8); (192, 8); (193, 8); (194, 8); (195, 8); (196, 8); (197, 8); (198, 8); (199, 8); (200, 8); (201, 8); (202, 8); (203, 8); (204, 8); (205, 8); (206, 8); (207, 8); (208, 8); (209, 8); (210, 8); (211, 8); (212, 8); (213, 8); (214, 8); (215, 8); (216, 8); (217, 8); (218, 8); (219, 8); (220, 8); (221, 8); (222, 8); (223, 8); (224, 8); (225, 8); (226, 8); (227, 8); (228, 8); (229, 8); (230, 8); (231, 8); (232, 8); (233, 8); (234, 8); (235, 8); (236, 8); (237, 8); (238, 8); (239, 8); (240, 8); (241, 8); (242, 8); (243, 8); (244, 8); (245, 8); (246, 8); (247, 8); (248, 8); (249, 8); (250, 8); (251, 8); (252, 8); (253, 8); (254, 8); (255, 8)];
     h_k := 16;
     h_stream := [0; 16; 0; 45; 0; 1; 62; 0; 129; 97; 143; 97; 97; 97; 97; 97; 97; 97; 97; 48; 129; 97; 0];
     h_tab := [(2, 1); (18, 3); (578, 6); (21845, 10); (36992, 19)];
     h_endings := [2; 18; 578; 36992];
     h_trees := [] |}.

Lemma hx_usa_checked :
  htfc_check hx_usa_S hx_usa_d = true /\ htfc_check2 hx_usa_S hx_usa_d = true /\ valid_set_b hx_usa_S = true.
Proof. vm_compute. auto. Qed.

(* the faithful model reproduces the defect: the object of the real constructor for a valid set whose second
   string shares 128 bytes with the first one does not answer extract(2) (the real code crashes in
   StatCoder::decodeString: replayed by wip/htfc/one.py r128c); both checkers reject the object *)
Theorem htfc_lcp128_refuted :
  valid_set_b hx_r128c_S = true /\
  spec_extract hx_r128c_S 2 = Some (repeat 97 129) /\ htfc_extract hx_r128c_d 2 = None /\
  htfc_check hx_r128c_S hx_r128c_d = false /\ htfc_check2 hx_r128c_S hx_r128c_d = false.
Proof. vm_compute. auto 10. Qed.

Lemma hvalid_set_b_sound S : valid_set_b S = true -> valid_set S.
Proof.
  unfold valid_set_b, valid_set. rewrite !andb_true_iff. intros [[H1 H2] H3]. repeat split.
  - destruct S; [discriminate|congruence].
  - apply Forall_forall. intros s Hs. rewrite forallb_forall in H2. specialize (H2 s Hs).
    unfold valid_str_b in H2. apply andb_true_iff in H2. destruct H2 as [Hn Hb]. split.
    + destruct s; [discriminate|congruence].
    + apply Forall_forall. intros c Hc. rewrite forallb_forall in Hb. specialize (Hb c Hc).
      apply andb_true_iff in Hb. destruct Hb as [Ha Hb']. apply N.leb_le in Ha, Hb'. split; assumption.
  - apply sorted_lt_b_sound. exact H3.
Qed.

Lemma hx_usa_valid : valid_set hx_usa_S.
Proof. apply hvalid_set_b_sound. apply hx_usa_checked. Qed.

(* the hypotheses of [decode_string_item] on hx_usa: the second string of bucket 1 (alaska after alabama, lcp 3) *)
Definition hx_st1 : bst * ast :=
  match opt_bind (decode_header hx_usa_d 1) (reset_scan hx_usa_d 1) with Some st => st | None => st0_dummy end.
Definition hx_walk : bst * list N :=
  match item_walk 20 hx_usa_d (fst hx_st1) [] 5 with Some r => r | None => (fst st0_dummy, []) end.

Lemma buf_at_0_intro l rest : buf_at (l ++ rest) 0 l.
Proof. intros j x Hj. rewrite N.add_0_l. rewrite nthN_app_l; [exact Hj|]. apply nthN_Some_lt in Hj. exact Hj. Qed.

Lemma hx_item_hyps :
  holds_adv (snd hx_st1) [97; 108; 97; 98; 97; 109; 97] [] /\
  reads hx_usa_d (fst hx_st1) [] (lenN (((3 + 128) :: [115; 107; 97]) ++ [0])) (fst hx_walk) (snd hx_walk) /\
  snd hx_walk = (((3 + 128) :: [115; 107; 97]) ++ [0]) ++ skipN 5 (snd hx_walk) /\
  lenN [97; 108; 97; 98; 97; 109; 97] + 1 + lenN (snd hx_walk) < str_cap hx_usa_d.
Proof.
  split; [|split; [|split]].
  - split; [vm_compute; reflexivity|]. split; [vm_compute; reflexivity|].
    assert (E : exists rest, a_buf (snd hx_st1) = ([97; 108; 97; 98; 97; 109; 97] ++ [0]) ++ rest).
    { eexists. vm_compute. reflexivity. }
    destruct E as [rest E]. rewrite E. apply buf_at_0_intro.
  - apply (item_walk_sound hx_usa_d 20). vm_compute. reflexivity.
  - vm_compute. reflexivity.
  - vm_compute. reflexivity.
Qed.

(* the executable specification of the constructor's layout (HTFCDefs.htfc_layout) reproduces the dumped
   textStrings / blStrings of both objects *)
Lemma hx_layout : htfc_layout_chk hx_usa_S hx_usa_d = true /\ htfc_layout_chk hx_r128c_S hx_r128c_d = true.
Proof. vm_compute. auto. Qed.
