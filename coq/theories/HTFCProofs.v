(* StringDictionaryHTFC (model HTFCDefs.v: the LOADED object, the chunked DecodingTable decoder, the
   advanced/extracted protocol of StatCoder::decodeString, locateBucket's memcmp on Hu-Tucker encoded headers)
   answers extract / locate / locatePrefix as the specification does, on every object certified by the
   verified checker [htfc_check]; the memory-error / fuel results [None] of the model are unreachable.

   Flat view (as in the PFC / RPFC proofs): string number i (0-based) is a bucket header iff i mod b = 0;
   [St i] is the ChunkScan state after string i has been produced (for a header: after decodeHeader +
   resetScan).  Facts that drive everything (certified per object by the checker):
     header : blStrings[k] points at encodeString(h, |h|+1), decodeHeader(k) hands out h
     step   : decodeString in state St i hands out string i+1, returns lcp, and leaves St (i+1). *)
From LibCSD Require Import Base VByteDefs VByteProofs CodesDefs CodesProofs HTCompareProofs.
From LibCSD Require Import Spec SpecProofs PFCDefs PFCLayout LexLemmas PFCBuildProofs PFCExtractProofs
  PFCLocateProofs PFCTheorems PFCPrefixProofs HTFCDefs.
From Coq Require Import Lia ZifyBool ZifyNat ZifyN.
Ltac Zify.zify_post_hook ::= Z.to_euclidean_division_equations.
Local Open Scope N_scope.

(* ====================================================================== *)
(* A. small facts about the model's primitives                             *)
(* ====================================================================== *)
Lemma rdN_nthN {A} (l : list A) i : rdN l i = nthN l i.
Proof.
  unfold rdN. destruct (N.ltb_spec i (lenN l)) as [H|H]; [reflexivity|].
  symmetry. unfold nthN. apply nth_error_None. unfold lenN in H. lia.
Qed.

Lemma hprefix_eqb_sound : forall a t, hprefix_eqb a t = true -> exists r, t = a ++ r.
Proof.
  induction a as [|x a IH]; intros t H; cbn [hprefix_eqb] in H; [exists t; reflexivity|].
  destruct t as [|y t]; [discriminate|]. apply andb_true_iff in H. destruct H as [H1 H2].
  apply N.eqb_eq in H1. subst y. destruct (IH _ H2) as [r ->]. exists r. reflexivity.
Qed.

Lemma hlist_eqb_eq : forall a b, hlist_eqb a b = true -> a = b.
Proof.
  induction a as [|x a IH]; intros [|y b] H; cbn [hlist_eqb] in H; try discriminate; [reflexivity|].
  apply andb_true_iff in H. destruct H as [H1 H2]. apply N.eqb_eq in H1. subst y. f_equal. auto.
Qed.

(* the ChunkScan holds the C string s *)
Definition holds (a : ast) (s : str) : Prop :=
  a_len a = lenN s + 1 /\ lenN s + 1 < 2 ^ 32 /\ exists r, a_buf a = s ++ 0 :: r.

Lemma ast_is_sound a s : ast_is a s = true -> holds a s.
Proof.
  unfold ast_is, holds. intros H. apply andb_true_iff in H. destruct H as [H1 H2].
  apply andb_true_iff in H1. destruct H1 as [H1 H3].
  apply N.eqb_eq in H1. apply N.ltb_lt in H3. split; [exact H1|]. split; [lia|].
  destruct (hprefix_eqb_sound _ _ H2) as [r Hr]. exists r. rewrite Hr, <- app_assoc. reflexivity.
Qed.

Lemma lcp_cmp_app : forall a r b n acc, n <= lenN a -> lcp_cmp (a ++ r) b n acc = lcp_cmp a b n acc.
Proof.
  induction a as [|x a IH]; intros r b n acc Hn.
  - change (lenN (@nil N)) with 0 in Hn. assert (n = 0) by lia. subst n.
    cbn [app]. destruct r; reflexivity.
  - cbn [app lcp_cmp]. destruct (n =? 0) eqn:E0; [reflexivity|].
    destruct b as [|y b]; [reflexivity|]. destruct (x =? y); [|reflexivity].
    apply IH. rewrite lenN_cons in Hn. apply N.eqb_neq in E0. lia.
Qed.

Lemma skipN_app_le {A} (n : N) (a r : list A) : n <= lenN a -> skipN n (a ++ r) = skipN n a ++ r.
Proof.
  intros H. unfold skipN, lenN in *. rewrite skipn_app.
  replace (N.to_nat n - length a)%nat with 0%nat by lia. reflexivity.
Qed.

Lemma lenN_skipN {A} (n : N) (a : list A) : lenN (skipN n a) = lenN a - n.
Proof. unfold lenN, skipN. rewrite skipn_length. lia. Qed.

(* the comparisons of locate / searchPrefix on the scratch buffer = the PFC ones on the string *)
Lemma hcmp_from_cmp_from a s q sh ex : holds a s -> ex <= 1 -> sh <= lenN s ->
  hcmp_from a q sh ex = cmp_from s q sh ex.
Proof.
  intros [Hl [_ [r Hb]]] Hex Hsh. unfold hcmp_from, cmp_from. rewrite Hl, Hb.
  assert (Hlen : lenN (s ++ 0 :: r) = lenN s + 1 + lenN r).
  { rewrite lenN_app, lenN_cons. lia. }
  rewrite Hlen.
  destruct (N.leb_spec (sh + (1 - ex)) (lenN s + 1)); [|lia].
  destruct (N.leb_spec (lenN s + 1) (lenN s + 1 + lenN r)); [|lia].
  destruct (N.leb_spec sh (lenN s)); [|lia]. cbn [andb].
  destruct (sh <=? lenN q); [|reflexivity].
  replace (s ++ 0 :: r) with ((s ++ [0]) ++ r) by (rewrite <- app_assoc; reflexivity).
  rewrite skipN_app_le by (rewrite lenN_app; change (lenN [0]) with 1; lia).
  replace (lenN s + 1 - sh - (1 - ex)) with (lenN s - sh + ex) by lia.
  apply lcp_cmp_app. rewrite lenN_skipN, lenN_app. change (lenN [0]) with 1. lia.
Qed.

(* ====================================================================== *)
(* B. memcmp on the bytes that exist                                       *)
(* ====================================================================== *)
Lemma memcmp_zeros_not_gt : forall m b n r, Forall (fun x => x < 256) b ->
  memcmp_bytes (repeat 0 m) b n = Some r -> r <> Gt.
Proof.
  induction m as [|m IH]; intros b n r Fb H.
  - destruct n; cbn in H; [inversion H; discriminate|discriminate].
  - destruct n as [|n]; [cbn in H; inversion H; discriminate|].
    destruct b as [|y b]; [cbn in H; discriminate|]. cbn [repeat memcmp_bytes] in H.
    inversion Fb as [|? ? Hy Fb']; subst.
    destruct (memcmp_bytes (repeat 0 m) b n) as [r'|] eqn:E; [|discriminate].
    specialize (IH _ _ _ Fb' E).
    destruct (N.compare_spec 0 y) as [e|l|g]; inversion H; subst; [exact IH|discriminate|lia].
Qed.

Lemma memcmp_ffs_not_lt : forall m b n r, Forall (fun x => x < 256) b ->
  memcmp_bytes (repeat 255 m) b n = Some r -> r <> Lt.
Proof.
  induction m as [|m IH]; intros b n r Fb H.
  - destruct n; cbn in H; [inversion H; discriminate|discriminate].
  - destruct n as [|n]; [cbn in H; inversion H; discriminate|].
    destruct b as [|y b]; [cbn in H; discriminate|]. cbn [repeat memcmp_bytes] in H.
    inversion Fb as [|? ? Hy Fb']; subst.
    destruct (memcmp_bytes (repeat 255 m) b n) as [r'|] eqn:E; [|discriminate].
    specialize (IH _ _ _ Fb' E).
    destruct (N.compare_spec 255 y) as [e|l|g]; inversion H; subst; [exact IH|lia|discriminate].
Qed.

Lemma cmp0_cases y : ((0 ?= y) = Eq /\ y = 0) \/ ((0 ?= y) = Lt /\ 0 < y).
Proof. destruct (N.compare_spec 0 y); [left|right|lia]; split; auto. Qed.

Lemma cmpff_cases y : y < 256 -> ((255 ?= y) = Eq /\ y = 255) \/ ((255 ?= y) = Gt /\ y < 255).
Proof. intros H. destruct (N.compare_spec 255 y); [left|lia|right]; split; auto. Qed.

(* if the strict memcmp gives the same answer whether the text is continued with 00.. or with FF.., the
   first difference lies inside the text: the comparison on the existing bytes is decided *)
Lemma memcmp_avail_decided : forall b a m c, Forall (fun x => x < 256) b ->
  memcmp_bytes (a ++ repeat 0 m) b (length b) = Some c ->
  memcmp_bytes (a ++ repeat 255 m) b (length b) = Some c ->
  memcmp_avail a b = Some c.
Proof.
  induction b as [|y b IH]; intros a m c Fb H0 H1.
  - cbn in H0. destruct a; exact H0.
  - inversion Fb as [|? ? Hy Fb']; subst. cbn [length] in H0, H1.
    destruct a as [|x a].
    + exfalso. cbn [app] in H0, H1.
      destruct m as [|m]; [cbn in H0; discriminate|]. cbn [repeat memcmp_bytes] in H0, H1.
      destruct (memcmp_bytes (repeat 0 m) b (length b)) as [r0|] eqn:E0; [|discriminate].
      destruct (memcmp_bytes (repeat 255 m) b (length b)) as [r1|] eqn:E1; [|discriminate].
      pose proof (memcmp_zeros_not_gt _ _ _ _ Fb' E0) as M0.
      pose proof (memcmp_ffs_not_lt _ _ _ _ Fb' E1) as M1.
      destruct (cmp0_cases y) as [[Ez e]|[Ez l]]; rewrite Ez in H0;
        (destruct (cmpff_cases y Hy) as [[Ef e']|[Ef g']]; rewrite Ef in H1);
        injection H0 as A0; injection H1 as A1; try lia; congruence.
    + cbn [app memcmp_bytes memcmp_avail] in *.
      destruct (memcmp_bytes (a ++ repeat 0 m) b (length b)) as [r0|] eqn:E0; [|discriminate].
      destruct (memcmp_bytes (a ++ repeat 255 m) b (length b)) as [r1|] eqn:E1; [|discriminate].
      destruct (x ?= y) eqn:Exy; [|exact H0|exact H0].
      inversion H0; subst. inversion H1; subst. apply (IH a m c Fb' E0 E1).
Qed.

(* the comparison of locateBucket on the bytes that exist: header bytes followed by anything *)
Lemma memcmp_avail_header cws h q bh oh bq oq rest :
  check_prefix_free cws = true -> check_alphabetic cws = true -> check_lengths cws = true ->
  Forall (fun b => b <> 0) h -> Forall (fun b => b <> 0) q ->
  pack_string cws (h ++ [0]) = Some (bh, oh) -> pack_string cws (q ++ [0]) = Some (bq, oq) ->
  Forall (fun x => x < 256) rest ->
  memcmp_avail (bh ++ rest) bq = Some (lex_compare h q).
Proof.
  intros CP CA CL Fh Fq Ph Pq Fr.
  apply (memcmp_avail_decided bq (bh ++ rest) (length bq)).
  - exact (pack_string_bytes _ _ _ _ Pq).
  - rewrite <- app_assoc.
    apply (ht_header_memcmp_cmp cws h q bh oh bq oq (rest ++ repeat 0 (length bq))); auto.
    + apply Forall_app. split; [exact Fr|]. apply Forall_forall. intros x Hx.
      apply repeat_spec in Hx. subst x. lia.
    + rewrite !app_length, repeat_length. lia.
  - rewrite <- app_assoc.
    apply (ht_header_memcmp_cmp cws h q bh oh bq oq (rest ++ repeat 255 (length bq))); auto.
    + apply Forall_app. split; [exact Fr|]. apply Forall_forall. intros x Hx.
      apply repeat_spec in Hx. subst x. lia.
    + rewrite !app_length, repeat_length. lia.
Qed.

(* ====================================================================== *)
(* C. what the checker certifies                                           *)
(* ====================================================================== *)
(* string number i, whose predecessor is [prev] and was produced in state [pst]; [est] = state after it *)
Definition hitem_ok (d : htfc) (b i : N) (prev cur : str) (pst est : bst * ast) : Prop :=
  holds (snd est) cur /\
  if i mod b =? 0 then
    exists off enc o rest st0,
      nthN (h_bl d) (i / b + 1) = Some off /\ pack_string (h_cw d) (cur ++ [0]) = Some (enc, o) /\
      off <= lenN (h_text d) /\ skipN off (h_text d) = enc ++ rest /\
      decode_header d (i / b + 1) = Some st0 /\ reset_scan d (i / b + 1) st0 = Some est
  else decode_string d (str_cap d) (fst pst) (snd pst) = Some (fst est, snd est, lcp prev cur).

Definition hstream_ok (d : htfc) (b : N) (S : list str) (St : N -> bst * ast) : Prop :=
  forall i, i < lenN S -> hitem_ok d b i (snth S (i - 1)) (snth S i) (St (i - 1)) (St i).

Definition code_ok (cws : list cw) : Prop :=
  lenN cws = 256 /\ check_prefix_free cws = true /\ check_alphabetic cws = true /\ check_lengths cws = true /\
  Forall (fun c => snd c < 32) cws.

Definition htfc_ok (d : htfc) (b : N) (S : list str) : Prop :=
  h_bsize d = b /\ 2 <= b /\ b < 2 ^ 32 /\ h_elements d = lenN S /\ lenN S < 2 ^ 32 /\
  h_buckets d = (lenN S + b - 1) / b /\ h_k d = 16 /\ code_ok (h_cw d) /\
  Forall (fun x => x < 256) (h_text d) /\ exists St, hstream_ok d b S St.

Lemma reset_scan_holds d k st0 st1 s : reset_scan d k st0 = Some st1 -> holds (snd st0) s -> holds (snd st1) s.
Proof.
  unfold reset_scan. destruct st0 as [b0 a0]. destruct (rdN (h_bl d) (k + 1)); [|discriminate].
  intros H. inversion H; subst. cbn [snd]. unfold holds. cbn [a_len a_buf]. auto.
Qed.

Lemma htrace_from_sound d b : forall ss i prev pst tr,
  htrace_from d b i prev pst ss = Some tr ->
  length tr = length ss /\
  forall j, (j < length ss)%nat ->
    hitem_ok d b (i + N.of_nat j) (nth j (prev :: ss) []) (nth j ss []) (nth j (pst :: tr) st0_dummy) (nth j tr st0_dummy).
Proof.
  induction ss as [|s r IH]; intros i prev pst tr H; cbn [htrace_from] in H.
  - inversion H; subst. split; [reflexivity|]. intros j Hj. cbn [length] in Hj. lia.
  - assert (Hgen : forall e, hitem_ok d b i prev s pst e ->
              option_map (cons e) (htrace_from d b (i + 1) s e r) = Some tr ->
              length tr = length (s :: r) /\
              forall j, (j < length (s :: r))%nat ->
                hitem_ok d b (i + N.of_nat j) (nth j (prev :: s :: r) []) (nth j (s :: r) [])
                        (nth j (pst :: tr) st0_dummy) (nth j tr st0_dummy)).
    { intros e He Hm. destruct (htrace_from d b (i + 1) s e r) as [tr'|] eqn:Et; [|discriminate].
      cbn [option_map] in Hm. inversion Hm; subst tr. destruct (IH _ _ _ _ Et) as [Hl Hit].
      split; [cbn [length]; lia|]. intros j Hj. destruct j as [|j].
      - cbn [nth]. rewrite N.add_0_r. exact He.
      - cbn [length] in Hj. specialize (Hit j ltac:(lia)).
        replace (i + N.of_nat (Datatypes.S j)) with (i + 1 + N.of_nat j) by lia.
        change (nth (Datatypes.S j) (prev :: s :: r) []) with (nth j (s :: r) []).
        change (nth (Datatypes.S j) (s :: r) []) with (nth j r []).
        change (nth (Datatypes.S j) (pst :: e :: tr') st0_dummy) with (nth j (e :: tr') st0_dummy).
        change (nth (Datatypes.S j) (e :: tr') st0_dummy) with (nth j tr' st0_dummy).
        exact Hit. }
    destruct (i mod b =? 0) eqn:Em.
    + rewrite rdN_nthN in H.
      destruct (nthN (h_bl d) (i / b + 1)) as [off|] eqn:Eo; [|discriminate].
      destruct (pack_string (h_cw d) (s ++ [0])) as [[enc o]|] eqn:Ep; [|discriminate].
      destruct (decode_header d (i / b + 1)) as [st0|] eqn:Eh; [|discriminate].
      destruct (reset_scan d (i / b + 1) st0) as [st1|] eqn:Er; [|discriminate].
      destruct ((off <=? lenN (h_text d)) && hprefix_eqb enc (skipN off (h_text d)) && ast_is (snd st0) s) eqn:Ec;
        [|discriminate].
      apply andb_true_iff in Ec. destruct Ec as [Ec Hast]. apply andb_true_iff in Ec. destruct Ec as [Hle Hpre].
      apply N.leb_le in Hle. destruct (hprefix_eqb_sound _ _ Hpre) as [rest Hrest].
      apply ast_is_sound in Hast.
      refine (Hgen _ _ H). unfold hitem_ok. rewrite Em. split; [exact (reset_scan_holds _ _ _ _ _ Er Hast)|].
      exists off, enc, o, rest, st0. repeat split; assumption.
    + destruct (decode_string d (str_cap d) (fst pst) (snd pst)) as [[[b' a'] shared]|] eqn:Ed; [|discriminate].
      destruct ((shared =? lcp prev s) && ast_is a' s) eqn:Ec; [|discriminate].
      apply andb_true_iff in Ec. destruct Ec as [Hsh Hast]. apply N.eqb_eq in Hsh. subst shared.
      apply ast_is_sound in Hast.
      refine (Hgen _ _ H). unfold hitem_ok. rewrite Em. cbn [fst snd]. split; [exact Hast|exact Ed].
Qed.

Lemma hitem_ok_first d b prev prev' cur pst pst' e :
  hitem_ok d b 0 prev cur pst e -> hitem_ok d b 0 prev' cur pst' e.
Proof.
  unfold hitem_ok. assert (E0 : 0 mod b = 0) by (destruct b; reflexivity).
  rewrite E0. cbn [N.eqb]. auto.
Qed.

Theorem htfc_check_sound S d : htfc_check S d = true -> htfc_ok d (h_bsize d) S.
Proof.
  unfold htfc_check. intros H.
  repeat (apply andb_true_iff in H; let H' := fresh "C" in destruct H as [H H']).
  destruct (htrace_from d (h_bsize d) 0 [] st0_dummy S) as [tr|] eqn:Et; [|discriminate].
  apply N.leb_le in H. apply N.ltb_lt in C6, C4. apply N.eqb_eq in C5, C3, C2.
  unfold code_chk in C1.
  repeat (apply andb_true_iff in C1; let H' := fresh "K" in destruct C1 as [C1 H']).
  apply N.eqb_eq in C1.
  split; [reflexivity|]. split; [exact H|]. split; [exact C6|]. split; [exact C5|]. split; [exact C4|].
  split; [exact C3|]. split; [exact C2|].
  split.
  { split; [exact C1|]. split; [exact K2|]. split; [exact K1|]. split; [exact K0|].
    apply Forall_forall. intros c Hc. rewrite forallb_forall in K. specialize (K c Hc). apply N.ltb_lt in K. exact K. }
  split.
  { apply Forall_forall. intros x Hx. rewrite forallb_forall in C0. specialize (C0 x Hx). apply N.ltb_lt in C0. exact C0. }
  destruct (htrace_from_sound _ _ _ _ _ _ _ Et) as [Hl Hit].
  exists (fun k => nth (N.to_nat k) tr st0_dummy). intros i Hi.
  specialize (Hit (N.to_nat i) ltac:(unfold lenN in Hi; lia)).
  rewrite N.add_0_l, N2Nat.id in Hit. fold (snth S i) in Hit.
  destruct (N.eq_dec i 0) as [->|Hne].
  - eapply hitem_ok_first. exact Hit.
  - replace (N.to_nat i) with (Datatypes.S (N.to_nat (i - 1))) in Hit at 1 2 by lia.
    cbn [nth] in Hit. exact Hit.
Qed.

(* ====================================================================== *)
(* D. encodeString on a query                                              *)
(* ====================================================================== *)
Lemma encode_bits_len31 cws : Forall (fun c : cw => snd c < 32) cws -> forall s enc,
  encode_bits cws s = Some enc -> N.of_nat (length enc) <= 31 * lenN s.
Proof.
  intros F. induction s as [|x s IH]; intros enc E.
  - cbn in E. inversion E; subst. cbn. lia.
  - rewrite encode_bits_cons in E. destruct (nthN cws x) as [c|] eqn:Hc; [|discriminate].
    cbn [option_map] in E. destruct (encode_bits cws s) as [e|]; [|discriminate]. inversion E; subst.
    specialize (IH _ eq_refl). rewrite app_length, cw_bits_length, lenN_cons.
    rewrite Forall_forall in F. assert (snd c < 32) by (apply F; eapply nth_error_In; exact Hc). lia.
Qed.

Lemma encode_string_pack d s : code_ok (h_cw d) -> Forall (fun x => x < 256) s -> s <> [] ->
  exists bytes off, encode_string d s = Some (bytes, off) /\ pack_string (h_cw d) s = Some (bytes, off).
Proof.
  intros (Hlen & CP & CA & CL & F31) Fs Hne.
  assert (Fs' : Forall (fun x => x < lenN (h_cw d)) s) by (rewrite Hlen; exact Fs).
  destruct (pack_symbols_total (h_cw d) s ([], 0, 0) Fs') as [st' E].
  destruct (pack_bits_bytes (h_cw d) s _ st' [] (check_lengths_sound _ CL) pinv_init E) as [enc [Ee [_ Hl]]].
  pose proof (encode_bits_len31 _ F31 _ _ Ee) as H31.
  exists (final_bytes st'), (snd st'). unfold encode_string, pack_string. rewrite E.
  destruct s as [|x s]; [congruence|].
  destruct (N.ltb_spec (lenN (fst (fst st'))) (4 * lenN (x :: s))) as [_|Hbad]; [split; reflexivity|].
  exfalso. cbn [length Nat.add] in Hl. rewrite lenN_cons in *. lia.
Qed.

(* ====================================================================== *)
(* E. the flat stream view of a certified object                           *)
(* ====================================================================== *)
Lemma hbuckets_div n b k : 1 <= b -> 1 <= k -> (k <= (n + b - 1) / b <-> (k - 1) * b < n).
Proof.
  intros Hb Hk. assert (Hb0 : b <> 0) by lia.
  pose proof (N.div_mod (n + b - 1) b Hb0) as Hd.
  pose proof (N.mod_lt (n + b - 1) b Hb0) as Hm.
  set (q := (n + b - 1) / b) in *. set (r := (n + b - 1) mod b) in *.
  assert (Ek : k * b = (k - 1) * b + b) by (apply mul_pred_succ; lia).
  split; intros H.
  - assert (k * b <= q * b) by (apply N.mul_le_mono_r; exact H). nia.
  - destruct (N.le_gt_cases k q) as [|Hgt]; [assumption|exfalso].
    assert ((q + 1) * b <= k * b) by (apply N.mul_le_mono_r; lia). nia.
Qed.

Section Stream.
  Variables (d : htfc) (b : N) (S : list str) (St : N -> bst * ast).
  Hypothesis Hbs : h_bsize d = b.
  Hypothesis Hb2 : 2 <= b.
  Hypothesis Hb32 : b < 2 ^ 32.
  Hypothesis Hel : h_elements d = lenN S.
  Hypothesis Hn32 : lenN S < 2 ^ 32.
  Hypothesis Hbk : h_buckets d = (lenN S + b - 1) / b.
  Hypothesis Hcode : code_ok (h_cw d).
  Hypothesis Htext : Forall (fun x => x < 256) (h_text d).
  Hypothesis HSt : hstream_ok d b S St.
  Hypothesis Hnf : Forall nul_free S.
  Hypothesis Hsort : sorted_lt S.
  Hypothesis Hne : S <> [].

  Lemma hs_nul_free i : i < lenN S -> nul_free (snth S i).
  Proof. intros H. pose proof Hnf as F. rewrite Forall_forall in F. apply F, snth_In, H. Qed.

  Lemma hs_holds i : i < lenN S -> holds (snd (St i)) (snth S i).
  Proof. intros H. destruct (HSt i H) as [Hh _]. exact Hh. Qed.

  Lemma hbuckets_iff k : 1 <= k -> (k <= h_buckets d <-> (k - 1) * b < lenN S).
  Proof. intros Hk. rewrite Hbk. apply hbuckets_div; [lia|assumption]. Qed.

  Lemma hbuckets_pos : 1 <= h_buckets d.
  Proof.
    apply (hbuckets_iff 1); [lia|]. pose proof Hne. destruct S; [congruence|]. rewrite lenN_cons. lia.
  Qed.

  (* one decodeString call moves from string i to string i+1 *)
  Lemma hstream_dstep i : i + 1 < lenN S -> (i + 1) mod b <> 0 ->
    decode_string d (str_cap d) (fst (St i)) (snd (St i)) =
    Some (fst (St (i + 1)), snd (St (i + 1)), lcp (snth S i) (snth S (i + 1))).
  Proof.
    intros Hi Hm. destruct (HSt (i + 1) Hi) as [_ Hit].
    destruct (N.eqb_spec ((i + 1) mod b) 0) as [|_]; [contradiction|].
    rewrite N.add_sub in Hit. exact Hit.
  Qed.

  Lemma hstream_dstep' i : i + 1 < lenN S -> (i + 1) mod b <> 0 -> dstep d (St i) = Some (St (i + 1)).
  Proof.
    intros Hi Hm. unfold dstep. rewrite (hstream_dstep i Hi Hm). destruct (St (i + 1)); reflexivity.
  Qed.

  (* the header of bucket k *)
  Lemma hstream_header k : 1 <= k -> k <= h_buckets d ->
    exists off enc o rest st0, (k - 1) * b < lenN S /\
      nthN (h_bl d) k = Some off /\ pack_string (h_cw d) (snth S ((k - 1) * b) ++ [0]) = Some (enc, o) /\
      off <= lenN (h_text d) /\ skipN off (h_text d) = enc ++ rest /\
      decode_header d k = Some st0 /\ reset_scan d k st0 = Some (St ((k - 1) * b)) /\
      holds (snd st0) (snth S ((k - 1) * b)).
  Proof.
    intros Hk1 Hk2. pose proof (proj1 (hbuckets_iff k Hk1) Hk2) as Hlt.
    destruct (HSt _ Hlt) as [Hh Hit].
    rewrite (bucket_base_mod k b ltac:(lia)) in Hit. cbn [N.eqb] in Hit.
    rewrite N.div_mul in Hit by lia. replace (k - 1 + 1) with k in Hit by lia.
    destruct Hit as (off & enc & o & rest & st0 & E1 & E2 & E3 & E4 & E5 & E6).
    exists off, enc, o, rest, st0. repeat split; try assumption.
    - unfold reset_scan in E6. destruct st0 as [b0 a0]. destruct (rdN (h_bl d) (k + 1)); [|discriminate].
      inversion E6 as [E7]. rewrite <- E7 in Hh. cbn [snd a_len a_buf] in *. destruct Hh as [H1 _]. exact H1.
    - destruct Hh as [_ [H2 _]]. exact H2.
    - unfold reset_scan in E6. destruct st0 as [b0 a0]. destruct (rdN (h_bl d) (k + 1)); [|discriminate].
      inversion E6 as [E7]. rewrite <- E7 in Hh. cbn [snd a_len a_buf] in *. destruct Hh as [_ [_ H3]]. exact H3.
  Qed.

  Let H (k : N) : str := snth S ((k - 1) * b).

  (* the memcmp of locateBucket against the header of bucket k *)
  Lemma hdr_memcmp_stream k q bq oq : 1 <= k -> k <= h_buckets d -> nul_free q ->
    pack_string (h_cw d) (q ++ [0]) = Some (bq, oq) ->
    hdr_memcmp d k bq = Some (lex_compare (H k) q).
  Proof.
    intros Hk1 Hk2 Hq Pq.
    destruct (hstream_header k Hk1 Hk2) as (off & enc & o & rest & st0 & Hlt & Ebl & Ep & Hle & Hs & _).
    destruct Hcode as (_ & CP & CA & CL & _).
    unfold hdr_memcmp. rewrite rdN_nthN, Ebl. destruct (N.leb_spec off (lenN (h_text d))); [|lia].
    rewrite Hs. apply (memcmp_avail_header (h_cw d) (H k) q enc o bq oq rest); auto.
    - apply hs_nul_free. exact Hlt.
    - assert (F : Forall (fun x => x < 256) (skipN off (h_text d))).
      { unfold skipN. apply Forall_forall. intros x Hx. rewrite Forall_forall in Htext. apply Htext.
        rewrite <- (firstn_skipn (N.to_nat off)). apply in_or_app. right. exact Hx. }
      rewrite Hs in F. apply Forall_app in F. apply F.
  Qed.

  (* everything the scans need to know about bucket k, with the multiplication hidden:
     the bucket holds the strings number base .. Eb-1 *)
  Lemma hbucket_facts k : 1 <= k -> k <= h_buckets d ->
    exists base Eb st0, base = (k - 1) * b /\ base mod b = 0 /\ base < Eb /\ Eb <= base + b /\ Eb <= lenN S /\
      hscanneable d k = Eb - base /\
      decode_header d k = Some st0 /\ reset_scan d k st0 = Some (St base) /\ holds (snd st0) (snth S base) /\
      (Eb < lenN S -> Eb = base + b /\ k + 1 <= h_buckets d) /\
      (k < h_buckets d -> Eb = base + b /\ Eb < lenN S).
  Proof.
    intros Hk1 Hk2. pose proof (proj1 (hbuckets_iff k Hk1) Hk2) as Hlt.
    pose proof (hbuckets_iff (k + 1) ltac:(lia)) as Hnext. rewrite N.add_sub in Hnext.
    pose proof (mul_pred_succ k b Hk1) as Ekb.
    pose proof (bucket_base_mod k b ltac:(lia)) as Hmod.
    destruct (hstream_header k Hk1 Hk2) as (off & enc & o & rest & st0 & _ & _ & _ & _ & _ & Edh & Ers & Hh0).
    assert (Hb0 : b <> 0) by lia.
    pose proof (N.div_mod (lenN S) b Hb0) as Hdm. pose proof (N.mod_lt (lenN S) b Hb0) as Hml.
    assert (Hlast : k = h_buckets d -> lenN S - (k - 1) * b = (if lenN S mod b =? 0 then b else lenN S mod b)).
    { intros ->. pose proof (hbuckets_iff (h_buckets d + 1) ltac:(lia)) as Hn2. rewrite N.add_sub in Hn2.
      assert (Hnot : ~ h_buckets d * b < lenN S) by (intros Hc; apply Hn2 in Hc; lia).
      clear Hn2 Hnext Edh Ers Hh0.
      assert (Hdiv : (h_buckets d - 1) * b mod b = 0) by exact Hmod.
      pose proof (N.div_mod ((h_buckets d - 1) * b) b Hb0) as Hd2. rewrite Hdiv, N.div_mul in Hd2 by lia.
      set (base := (h_buckets d - 1) * b) in *.
      assert (Hx : lenN S - base <= b) by lia.
      destruct (N.eqb_spec (lenN S mod b) 0) as [E0|E0].
      - assert (Hm2 : (lenN S - base) mod b = 0).
        { replace (lenN S) with (base + (lenN S - base)) in E0 by lia.
          rewrite N.add_mod, Hmod, N.add_0_l, N.mod_mod in E0 by lia. exact E0. }
        destruct (N.eq_dec (lenN S - base) b) as [|Hneq]; [assumption|].
        rewrite N.mod_small in Hm2 by lia. lia.
      - destruct (N.eq_dec (lenN S - base) b) as [Heq|Hneq].
        + exfalso. apply E0. replace (lenN S) with (base + b) by lia.
          rewrite N.add_mod, Hmod, N.mod_same, N.add_0_l by lia. apply N.mod_0_l. lia.
        + replace (lenN S) with (base + (lenN S - base)) at 2 by lia.
          rewrite N.add_mod, Hmod, N.add_0_l, N.mod_mod by lia. symmetry. apply N.mod_small. lia. }
    unfold hscanneable. rewrite Hbs, Hel.
    revert Hlt Hnext Ekb Hmod Edh Ers Hh0 Hlast. generalize ((k - 1) * b).
    intros base Hlt Hnext Ekb Hmod Edh Ers Hh0 Hlast.
    exists base, (base + N.min b (lenN S - base)), st0.
    split; [reflexivity|]. split; [exact Hmod|]. split; [lia|]. split; [lia|]. split; [lia|].
    split.
    { destruct (N.eqb_spec k (h_buckets d)) as [Ek|Ek].
      - specialize (Hlast Ek). cbn [andb]. destruct (N.eqb_spec (lenN S mod b) 0); cbn [negb]; lia.
      - cbn [andb]. assert (k * b < lenN S) by (apply Hnext; lia). lia. }
    split; [exact Edh|]. split; [exact Ers|]. split; [exact Hh0|]. split.
    - intros Hx. assert (k * b < lenN S) by lia. split; [lia|]. apply Hnext. assumption.
    - intros Hx. assert (k * b < lenN S) by (apply Hnext; lia). lia.
  Qed.

  (* ---------------------------------------------------------------- *)
  (* extract                                                           *)
  (* ---------------------------------------------------------------- *)
  Lemma hin_bucket_mod base i : base mod b = 0 -> base <= i -> i + 1 < base + b -> (i + 1) mod b <> 0.
  Proof.
    intros H0 H1 H2. replace (i + 1) with (base + (i + 1 - base)) by lia.
    rewrite mod_of_zero_plus by (auto; lia). lia.
  Qed.

  Lemma hiter_dstep base : base mod b = 0 -> forall j, j < b -> base + j < lenN S ->
    N.iter j (fun o => opt_bind o (dstep d)) (Some (St base)) = Some (St (base + j)).
  Proof.
    intros H0 j. induction j as [|j IH] using N.peano_ind; intros Hj Hn.
    - rewrite N.add_0_r. reflexivity.
    - rewrite N.iter_succ, IH by lia. cbn [opt_bind].
      replace (base + N.succ j) with (base + j + 1) by lia.
      apply hstream_dstep'; [lia|]. apply (hin_bucket_mod base); [exact H0|lia|lia].
  Qed.

  Lemma holds_result a s : holds a s -> nul_free s ->
    take0 (a_buf a) = Some s /\ wsub32 (a_len a) 1 = lenN s.
  Proof.
    intros (Hl & Hlt & r & Hb) Hn. split.
    - rewrite Hb. apply take0_spec. exact Hn.
    - rewrite Hl. unfold wsub32. change (1 mod 2 ^ 32) with 1.
      replace (lenN s + 1 + 2 ^ 32 - 1) with (lenN s + 1 * 2 ^ 32) by lia.
      rewrite N.mod_add by lia. apply N.mod_small. lia.
  Qed.

  Theorem htfc_extract_stream id : htfc_extract d id = Some (spec_extract S id).
  Proof.
    unfold htfc_extract, htfc_extract_raw, spec_extract. rewrite Hel, Hbs.
    destruct (N.ltb_spec 0 id) as [Hid|Hid]; cbn [andb].
    2:{ assert (id = 0) by lia. subst id. reflexivity. }
    destruct (N.eqb_spec id 0) as [|_]; [lia|].
    destruct (N.leb_spec id (lenN S)) as [Hle|Hgt].
    2:{ f_equal. symmetry. unfold nthN. apply nth_error_None. unfold lenN in Hgt. lia. }
    assert (Hb0 : b <> 0) by lia. pose proof Hn32 as H32.
    pose proof (N.div_mod (id - 1) b Hb0) as Hdm. pose proof (N.mod_lt (id - 1) b Hb0) as Hml.
    assert (Hq : (id - 1) / b <= id - 1).
    { apply N.div_le_upper_bound; [lia|]. rewrite <- (N.mul_1_l (id - 1)) at 1. apply N.mul_le_mono_r. lia. }
    pose proof (N.mod_le (id - 1) b Hb0) as Hmle.
    rewrite !W32m_small by lia.
    set (k := 1 + (id - 1) / b).
    assert (Hbase : (k - 1) * b = id - 1 - (id - 1) mod b).
    { unfold k. replace (1 + (id - 1) / b - 1) with ((id - 1) / b) by lia.
      rewrite (N.mul_comm _ b). revert Hdm. generalize (b * ((id - 1) / b)). intros; lia. }
    assert (Hk1 : 1 <= k) by (unfold k; lia).
    clearbody k.
    assert (Hk2 : k <= h_buckets d) by (apply hbuckets_iff; [exact Hk1|rewrite Hbase; lia]).
    destruct (hbucket_facts k Hk1 Hk2) as (base & Eb & st0 & Ebase & Hmod0 & _ & _ & _ & _ & Edh & Ers & Hh0 & _).
    rewrite Edh. rewrite <- Ebase in Hbase.
    assert (Hres : forall a, holds a (snth S (id - 1)) ->
              match take0 (a_buf a) with
              | Some s => Some (Some (s, wsub32 (a_len a) 1))
              | None => None
              end = Some (Some (snth S (id - 1), lenN (snth S (id - 1))))).
    { intros a Ha. destruct (holds_result a _ Ha (hs_nul_free _ ltac:(lia))) as [-> ->]. reflexivity. }
    destruct (N.ltb_spec 0 ((id - 1) mod b)) as [Hpos|Hpos].
    - rewrite Ers, (hiter_dstep base Hmod0 _ Hml ltac:(lia)).
      replace (base + (id - 1) mod b) with (id - 1) by lia.
      destruct (St (id - 1)) as [bb aa] eqn:Est.
      pose proof (hs_holds (id - 1) ltac:(lia)) as Hh. rewrite Est in Hh. cbn [snd] in Hh.
      rewrite (Hres aa Hh), N.eqb_refl. rewrite (nthN_snth S (id - 1)) by lia. reflexivity.
    - assert (Eid : id - 1 = base) by lia. destruct st0 as [bb aa]. cbn [snd] in Hh0. rewrite <- Eid in Hh0.
      rewrite (Hres aa Hh0), N.eqb_refl. rewrite (nthN_snth S (id - 1)) by lia. reflexivity.
  Qed.
End Stream.
