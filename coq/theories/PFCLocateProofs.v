(* StringDictionaryPFC::locate is correct for EVERY query (member or not) and never
   touches memory outside the dictionary / the pattern buffer:
     pfc_locate_spec : layout_ok d b S -> 2 <= b -> pfc_input S -> nul_free q ->
                       pfc_locate d q = Some (spec_locate S q).
   Everything is derived from [layout_ok] (PFCLayout.v); nothing here depends on how the
   constructor establishes the layout. *)
From LibCSD Require Import Base VByteDefs VByteProofs Spec SpecProofs PFCDefs PFCLayout LexLemmas.
From Coq Require Import Lia ZifyBool ZifyNat ZifyN.
Ltac Zify.zify_post_hook ::= Z.to_euclidean_division_equations.
Local Open Scope N_scope.

(* ====================================================================== *)
(* A. reading the text array                                               *)
(* ====================================================================== *)
(* position p is inside the array and the array continues with r from there *)
Definition text_at (t : list N) (p : N) (r : list N) : Prop := p <= lenN t /\ skipN p t = r.

Lemma text_at_intro pre r : text_at (pre ++ r) (lenN pre) r.
Proof.
  split; [rewrite lenN_app; lia|].
  unfold skipN, lenN. rewrite Nat2N.id, skipn_app, skipn_all, Nat.sub_diag. reflexivity.
Qed.

Lemma text_at_app t p l r : text_at t p (l ++ r) -> text_at t (p + lenN l) r.
Proof.
  intros [Hp Hs]. unfold skipN in *.
  assert (Hl : lenN t = p + lenN (l ++ r)).
  { rewrite <- Hs. unfold lenN in *. rewrite skipn_length. lia. }
  rewrite lenN_app in Hl. split; [lia|]. unfold skipN.
  replace (N.to_nat (p + lenN l)) with (N.to_nat p + length l)%nat by (unfold lenN; lia).
  rewrite <- skipn_skipn', Hs, skipn_app, skipn_all, Nat.sub_diag. reflexivity.
Qed.

Lemma take0_spec s : forall r, nul_free s -> take0 (s ++ 0 :: r) = Some s.
Proof.
  induction s as [|x s IH]; intros r H; cbn [app take0]; [reflexivity|].
  apply nul_free_cons in H. destruct H as [Hx Hs].
  destruct (N.eqb_spec x 0); [contradiction|]. rewrite IH by assumption. reflexivity.
Qed.

Lemma cstr_at_spec t p s r : text_at t p (s ++ 0 :: r) -> nul_free s -> cstr_at t p = Some s.
Proof.
  intros [Hp Hs] Hn. unfold cstr_at. destruct (N.leb_spec p (lenN t)); [|lia].
  rewrite Hs. apply take0_spec; assumption.
Qed.

Lemma vb_at_spec t p c r : text_at t p (vb_encode c ++ r) -> c < 2 ^ 32 ->
  vb_at t p = Some (c, lenN (vb_encode c)).
Proof.
  intros [Hp Hs] Hc. unfold vb_at. destruct (N.leb_spec p (lenN t)); [|lia].
  rewrite Hs. apply vbyte_roundtrip. exact Hc.
Qed.

Lemma decode_next_spec t p lp dec suf r :
  text_at t p (suf ++ 0 :: r) -> nul_free suf -> lp <= lenN dec ->
  decode_next t p lp dec = Some (p + lenN suf + 1, firstN lp dec ++ suf).
Proof.
  intros Ht Hn Hl. unfold decode_next. destruct (N.leb_spec lp (lenN dec)); [|lia].
  rewrite (cstr_at_spec _ _ _ _ Ht Hn). reflexivity.
Qed.

(* one front-coded entry: the VByte, the suffix, and where the next entry starts *)
Lemma read_internal t p prev cur r :
  text_at t p (enc_internal prev cur ++ r) -> nul_free cur -> lenN cur < 2 ^ 32 ->
  exists p',
    vb_at t p = Some (lcp prev cur, lenN (vb_encode (lcp prev cur))) /\
    decode_next t (p + lenN (vb_encode (lcp prev cur))) (lcp prev cur) prev = Some (p', cur) /\
    text_at t p' r.
Proof.
  intros Ht Hn Hlen. unfold enc_internal in Ht.
  pose proof (lcp_le_l prev cur) as Hl1. pose proof (lcp_le_r prev cur) as Hl2.
  set (l := lcp prev cur) in *.
  rewrite <- app_assoc in Ht.
  pose proof (text_at_app _ _ _ _ Ht) as Ht2.
  rewrite <- app_assoc in Ht2. cbn [app] in Ht2.
  exists (p + lenN (vb_encode l) + lenN (skipN l cur) + 1). split; [|split].
  - eapply vb_at_spec; [exact Ht|lia].
  - rewrite (decode_next_spec _ _ l prev _ _ Ht2); [|apply nul_free_skipn; exact Hn|exact Hl1].
    unfold l. rewrite lcp_rebuild. reflexivity.
  - replace (skipN l cur ++ 0 :: r) with ((skipN l cur ++ [0]) ++ r) in Ht2
      by (rewrite <- app_assoc; reflexivity).
    apply text_at_app in Ht2. rewrite lenN_app in Ht2. change (lenN [0]) with 1 in Ht2.
    replace (p + lenN (vb_encode l) + lenN (skipN l cur) + 1)
      with (p + lenN (vb_encode l) + (lenN (skipN l cur) + 1)) by lia.
    exact Ht2.
Qed.

(* ====================================================================== *)
(* B. buckets of the layout                                                *)
(* ====================================================================== *)
Lemma chunks_fuel_nth b : (0 < b)%nat -> forall fuel S j, (length S <= fuel)%nat ->
  nth_error (chunks_fuel fuel b S) j =
  if (j * b <? length S)%nat then Some (firstn b (skipn (j * b) S)) else None.
Proof.
  intros Hb. induction fuel as [|f IH]; intros S j Hf.
  - destruct S; [|cbn [length] in Hf; lia]. cbn [chunks_fuel length].
    destruct (Nat.ltb_spec (j * b) 0); [lia|]. destruct j; reflexivity.
  - cbn [chunks_fuel]. destruct S as [|s S'].
    + cbn [length]. destruct (Nat.ltb_spec (j * b) 0); [lia|]. destruct j; reflexivity.
    + destruct j as [|j].
      * cbn [nth_error]. rewrite Nat.mul_0_l. cbn [length]. reflexivity.
      * cbn [nth_error]. rewrite IH by (rewrite skipn_length; cbn [length] in *; lia).
        rewrite skipn_length, skipn_skipn'.
        replace (b + j * b)%nat with (S j * b)%nat by lia.
        destruct (Nat.ltb_spec (j * b) (length (s :: S') - b));
          destruct (Nat.ltb_spec (S j * b) (length (s :: S'))); try lia; reflexivity.
Qed.

Lemma chunks_nth b S j : 1 <= b ->
  nth_error (chunks b S) (N.to_nat j) =
  if j * b <? lenN S then Some (firstn (N.to_nat b) (skipn (N.to_nat (j * b)) S)) else None.
Proof.
  intros Hb. unfold chunks. rewrite chunks_fuel_nth by lia.
  rewrite <- N2Nat.inj_mul.
  destruct (Nat.ltb_spec (N.to_nat (j * b)) (length S)); destruct (N.ltb_spec (j * b) (lenN S));
    unfold lenN in *; try lia; reflexivity.
Qed.

Lemma concat_nth : forall (cs : list (list N)) off j c, nth_error cs j = Some c ->
  exists pre post, concat cs = pre ++ c ++ post /\
                   nth_error (starts_from off cs) j = Some (off + lenN pre).
Proof.
  induction cs as [|a cs IH]; intros off j c H; [destruct j; discriminate|].
  destruct j as [|j]; cbn [nth_error concat starts_from] in *.
  - injection H as ->. exists [], (concat cs). split; [reflexivity|].
    rewrite lenN_nil, N.add_0_r. reflexivity.
  - destruct (IH (off + lenN a) j c H) as (pre & post & E1 & E2).
    exists (a ++ pre), post. split.
    + rewrite E1, app_assoc. reflexivity.
    + rewrite E2, lenN_app. f_equal. lia.
Qed.

Lemma nth_error_skipn_cons {A} : forall (i : nat) (l : list A) x,
  nth_error l i = Some x -> skipn i l = x :: skipn (S i) l.
Proof.
  induction i as [|i IH]; intros [|y l] x H; try discriminate.
  - injection H as ->. reflexivity.
  - cbn [nth_error] in H. cbn [skipn]. rewrite (IH l x H). reflexivity.
Qed.

(* header of bucket k (1-based) and the remaining strings of that bucket *)
Definition hdr (S : list str) (b k : N) : option str := nthN S ((k - 1) * b).
Definition chunk_rest (S : list str) (b k : N) : list str :=
  firstn (N.to_nat b - 1) (skipn (Datatypes.S (N.to_nat ((k - 1) * b))) S).

Lemma buckets_count d b S j : layout_ok d b S -> 1 <= b -> (j < p_buckets d <-> j * b < lenN S).
Proof.
  intros (_ & _ & Hm & _ & _) Hb. rewrite Hm. unfold lenN at 1. rewrite map_length.
  pose proof (chunks_nth b S j Hb) as Hn.
  pose proof (nth_error_Some (chunks b S) (N.to_nat j)) as Hs.
  destruct (N.ltb_spec (j * b) (lenN S)) as [Hlt|Hge].
  - split; [auto|]. intros _. assert (N.to_nat j < length (chunks b S))%nat by (apply Hs; congruence). lia.
  - split; [|lia]. intros Hj. exfalso. apply (proj2 Hs); [lia|exact Hn].
Qed.

Lemma hdr_exists d b S k : layout_ok d b S -> 1 <= b -> 1 <= k <= p_buckets d ->
  exists h, hdr S b k = Some h.
Proof.
  intros HL Hb Hk. unfold hdr. apply nthN_lt_Some.
  apply (buckets_count d b S (k - 1) HL Hb). lia.
Qed.

Lemma hdr_in S b k h : hdr S b k = Some h -> In h S.
Proof. unfold hdr, nthN. apply nth_error_In. Qed.

(* the offset array sends k to the start of bucket k; the text continues there with the
   header, its NUL and the front-coded remainder of the bucket *)
Lemma bucket_at d b S k h : layout_ok d b S -> 1 <= b -> 1 <= k -> hdr S b k = Some h ->
  exists off tail, nthN (p_bl d) k = Some off /\
    text_at (p_text d) off (h ++ 0 :: enc_rest h (chunk_rest S b k) ++ tail).
Proof.
  intros HL Hb Hk Hh. pose proof HL as (_ & _ & _ & Ht & Hbl).
  pose proof (nthN_Some_lt _ _ _ Hh) as Hlt.
  pose proof (chunks_nth b S (k - 1) Hb) as Hn.
  destruct (N.ltb_spec ((k - 1) * b) (lenN S)); [|lia].
  unfold hdr, nthN in Hh. rewrite (nth_error_skipn_cons _ _ _ Hh) in Hn.
  replace (N.to_nat b) with (Datatypes.S (N.to_nat b - 1)) in Hn by lia.
  cbn [firstn] in Hn. fold (chunk_rest S b k) in Hn.
  apply (map_nth_error enc_bucket) in Hn.
  destruct (concat_nth _ 0 _ _ Hn) as (pre & post & E1 & E2).
  exists (lenN pre), post. split.
  - rewrite Hbl. unfold nthN. replace (N.to_nat k) with (Datatypes.S (N.to_nat (k - 1))) by lia.
    cbn [nth_error]. rewrite nth_error_app1; [rewrite E2; f_equal; lia|].
    apply nth_error_Some. rewrite E2. discriminate.
  - rewrite Ht, E1. cbn [enc_bucket].
    replace ((h ++ [0] ++ enc_rest h (chunk_rest S b k)) ++ post)
      with (h ++ 0 :: enc_rest h (chunk_rest S b k) ++ post)
      by (rewrite <- app_assoc; reflexivity).
    apply text_at_intro.
Qed.

(* S is: everything before bucket k, its header, its remainder, everything after *)
Lemma split_at_bucket S b k h : 1 <= b -> 1 <= k -> hdr S b k = Some h ->
  S = firstn (N.to_nat ((k - 1) * b)) S ++ h :: chunk_rest S b k ++
      skipn (N.to_nat (k * b)) S.
Proof.
  intros Hb Hk Hh. unfold hdr, nthN in Hh.
  rewrite <- (firstn_skipn (N.to_nat ((k - 1) * b)) S) at 1. f_equal.
  rewrite (nth_error_skipn_cons _ _ _ Hh). f_equal.
  unfold chunk_rest.
  rewrite <- (firstn_skipn (N.to_nat b - 1) (skipn (Datatypes.S (N.to_nat ((k - 1) * b))) S)) at 1.
  f_equal. rewrite skipn_skipn'. f_equal.
  assert (E : k * b = (k - 1) * b + b) by nia. rewrite E. lia.
Qed.

(* ====================================================================== *)
(* C. locateBucket                                                         *)
(* ====================================================================== *)
Lemma strcmp_at_spec d b S k h q : layout_ok d b S -> 1 <= b -> 1 <= k ->
  hdr S b k = Some h -> nul_free h -> nul_free q ->
  strcmp_at d k q = Some (lex_compare h q).
Proof.
  intros HL Hb Hk Hh Hnh Hnq.
  destruct (bucket_at d b S k h HL Hb Hk Hh) as (off & tail & Eo & [Hle Hs]).
  unfold strcmp_at. rewrite Eo. destruct (N.leb_spec off (lenN (p_text d))); [|lia].
  rewrite Hs. apply c_strcmp_spec; assumption.
Qed.

Lemma hdr_sorted S b j j' h h' : sorted_lt S -> 1 <= b -> 1 <= j < j' ->
  hdr S b j = Some h -> hdr S b j' = Some h' -> lex_lt h h'.
Proof.
  intros Hs Hb Hj H1 H2. unfold hdr, nthN in *.
  assert ((j - 1) * b < (j' - 1) * b) by (apply N.mul_lt_mono_pos_r; lia).
  apply (sorted_nth_lt S Hs (N.to_nat ((j - 1) * b)) (N.to_nat ((j' - 1) * b)) h h'); auto. lia.
Qed.

(* what locateBucket hands to locate *)
Definition bucket_post (S : list str) (b m : N) (q : str) (found : bool) (k : N) : Prop :=
  k <= m /\
  if found then 1 <= k /\ hdr S b k = Some q
  else (forall j h, 1 <= j <= k -> hdr S b j = Some h -> lex_lt h q) /\
       (forall j h, k < j <= m -> hdr S b j = Some h -> lex_lt q h).

Lemma locate_bucket_loop_spec d b S q :
  layout_ok d b S -> 1 <= b -> pfc_input S -> nul_free q ->
  forall fuel l r center cmp,
  1 <= l -> r <= p_buckets d -> l <= r + 1 ->
  (N.to_nat (r + 1 - l) < fuel)%nat ->
  (forall j h, 1 <= j < l -> hdr S b j = Some h -> lex_lt h q) ->
  (forall j h, r < j <= p_buckets d -> hdr S b j = Some h -> lex_lt q h) ->
  (r < l -> match cmp with Lt => center | _ => center - 1 end = r) ->
  exists found k, locate_bucket_loop fuel d q l r center cmp = Some (found, k) /\
                  bucket_post S b (p_buckets d) q found k.
Proof.
  intros HL Hb (Hne & Hnf & Hsort & _ & _) Hnq.
  induction fuel as [|f IH]; intros l r center cmp Hl Hr Hlr Hfuel Hlo Hhi Hexit; [lia|].
  cbn [locate_bucket_loop]. destruct (N.leb_spec l r) as [Hle|Hgt].
  - set (c := (l + r) / 2).
    assert (Hc : l <= c <= r) by (unfold c; lia).
    destruct (hdr_exists d b S c HL Hb ltac:(lia)) as [h Hh].
    assert (Hnh : nul_free h).
    { rewrite Forall_forall in Hnf. apply Hnf. eapply hdr_in; eassumption. }
    rewrite (strcmp_at_spec d b S c h q HL Hb ltac:(lia) Hh Hnh Hnq).
    destruct (lex_compare h q) eqn:Ecmp.
    + exists true, c. split; [reflexivity|]. split; [lia|]. split; [lia|].
      apply lex_compare_eq in Ecmp. subst h. exact Hh.
    + apply IH; try lia.
      * intros j hj Hj Hhj. destruct (N.eq_dec j c) as [->|Hjc].
        -- rewrite Hh in Hhj. injection Hhj as <-. exact Ecmp.
        -- apply (lex_lt_trans _ h); [|exact Ecmp].
           apply (hdr_sorted S b j c); auto. lia.
      * intros j hj Hj. apply Hhi. lia.
    + apply lex_gt_lt in Ecmp. apply IH; try lia.
      * intros j hj Hj. apply Hlo. lia.
      * intros j hj Hj Hhj. destruct (N.eq_dec j c) as [->|Hjc].
        -- rewrite Hh in Hhj. injection Hhj as <-. exact Ecmp.
        -- apply (lex_lt_trans _ h); [exact Ecmp|].
           apply (hdr_sorted S b c j); auto. lia.
  - exists false, r. split; [rewrite (Hexit Hgt); reflexivity|].
    split; [exact Hr|]. split.
    + intros j h Hj. apply Hlo. lia.
    + intros j h Hj. apply Hhi. lia.
Qed.

Theorem locate_bucket_spec d b S q :
  layout_ok d b S -> 1 <= b -> pfc_input S -> nul_free q ->
  exists found k, locate_bucket d q = Some (found, k) /\ bucket_post S b (p_buckets d) q found k.
Proof.
  intros HL Hb Hin Hnq. unfold locate_bucket.
  apply (locate_bucket_loop_spec d b S q HL Hb Hin Hnq); try lia.
Qed.

(* ====================================================================== *)
(* D. the sequential scan of a bucket                                      *)
(* ====================================================================== *)
Lemma index_from_notin q : forall l i, ~ In q l -> index_from q l i = 0.
Proof.
  induction l as [|s l IH]; intros i H; cbn [index_from]; [reflexivity|].
  destruct (str_eqb s q) eqn:E.
  - apply str_eqb_eq in E. exfalso. apply H. left. exact E.
  - apply IH. intros Hin. apply H. right. exact Hin.
Qed.

(* q below the first string of a sorted run: q is not in the run *)
Lemma notin_above q c r : lex_lt q c -> sorted_lt (c :: r) -> ~ In q (c :: r).
Proof.
  intros Hq Hs [->|Hin]; [exact (lex_lt_irrefl _ Hq)|].
  pose proof (sorted_head_lt _ _ Hs) as Hf. rewrite Forall_forall in Hf.
  exact (lex_lt_asym _ _ Hq (Hf _ Hin)).
Qed.

Lemma str_eqb_of_cmp a b : str_eqb a b = match lex_compare a b with Eq => true | _ => false end.
Proof. reflexivity. Qed.

(* the for-loop, entered with the previous string strictly below q *)
Lemma scan_loop_lt d q k : nul_free q ->
  forall rest prev fuel i ptr cmp tail sc,
  text_at (p_text d) ptr (enc_rest prev rest ++ tail) ->
  Forall nul_free rest -> Forall (fun s => lenN s < 2 ^ 32) rest ->
  sorted_lt (prev :: rest) ->
  lex_lt prev q -> (cmp < 0)%Z -> sc = i + lenN rest -> (length rest < fuel)%nat ->
  scan_loop fuel d q k sc i ptr prev (lcp prev q) cmp =
  Some (index_from q rest ((k - 1) * p_bsize d + i + 1)).
Proof.
  intros Hnq. induction rest as [|cur rest IH];
    intros prev fuel i ptr cmp tail sc Ht Hnf Hlen Hsort Hlt Hcmp Hsc Hfuel.
  - destruct fuel as [|f]; [cbn [length] in Hfuel; lia|]. cbn [scan_loop].
    rewrite lenN_nil in Hsc. destruct (N.ltb_spec i sc); [lia|]. reflexivity.
  - destruct fuel as [|f]; [lia|]. cbn [scan_loop].
    rewrite lenN_cons in Hsc. destruct (N.ltb_spec i sc); [|lia].
    cbn [enc_rest] in Ht. rewrite <- app_assoc in Ht.
    pose proof (Forall_inv Hnf) as Hncur. pose proof (Forall_inv_tail Hnf) as Hnf'.
    pose proof (Forall_inv Hlen) as Hlcur. pose proof (Forall_inv_tail Hlen) as Hlen'.
    cbv beta in Hncur, Hlcur.
    pose proof (sorted_tail _ _ Hsort) as Hsort'.
    assert (Hpc : lex_lt prev cur) by (pose proof (sorted_head_lt _ _ Hsort) as Hf; exact (Forall_inv Hf)).
    destruct (read_internal _ _ prev cur _ Ht Hncur Hlcur) as (p' & Ev & Ed & Ht').
    rewrite Ev. destruct (N.ltb_spec (lcp prev cur) (lcp prev q)) as [Hps|Hps].
    + (* fewer shared symbols: q < cur, q is not in the rest of the bucket *)
      pose proof (scan_trick_lt prev q cur Hlt Hpc Hps) as Hqc.
      rewrite index_from_notin; [reflexivity|]. apply notin_above; assumption.
    + rewrite Ed. destruct (N.eqb_spec (lcp prev cur) (lcp prev q)) as [Heq|Hne].
      * destruct (cmp_from_spec cur q (lcp prev q) Hncur Hnq (scan_trick_eq _ _ _ Heq))
          as (z & n & Ec & Hag).
        rewrite Ec. unfold cmp_agrees in Hag. cbn [index_from]. rewrite str_eqb_of_cmp.
        destruct (lex_compare cur q) eqn:E.
        -- subst z. reflexivity.
        -- destruct Hag as [Hz ->]. destruct (Z.eqb_spec z 0); [lia|].
           destruct (Z.ltb_spec 0 z); [lia|]. rewrite N.add_0_l.
           rewrite (IH cur f (i + 1) p' z tail sc Ht' Hnf' Hlen' Hsort' E Hz); [|lia|cbn [length] in Hfuel; lia].
           f_equal. f_equal. lia.
        -- destruct Hag as [Hz ->]. destruct (Z.eqb_spec z 0); [lia|].
           destruct (Z.ltb_spec 0 z); [|lia].
           apply lex_gt_lt in E. rewrite index_from_notin; [reflexivity|].
           intros Hin. apply (notin_above q cur rest E Hsort'). right. exact Hin.
      * (* more shared symbols: outcome unchanged, no comparison *)
        destruct (scan_trick_gt prev q cur Hlt Hpc ltac:(lia)) as [Hl Hcq].
        destruct (Z.eqb_spec cmp 0); [lia|]. destruct (Z.ltb_spec 0 cmp); [lia|].
        rewrite <- Hl.
        rewrite (IH cur f (i + 1) p' cmp tail sc Ht' Hnf' Hlen' Hsort' Hcq Hcmp); [|lia|cbn [length] in Hfuel; lia].
        cbn [index_from]. rewrite str_eqb_of_cmp, Hcq. f_equal. f_equal. lia.
Qed.

(* the for-loop, entered with the previous string already above q: it stops with 0 *)
Lemma scan_loop_gt d q k : nul_free q ->
  forall rest prev fuel i ptr cmp tail sc,
  text_at (p_text d) ptr (enc_rest prev rest ++ tail) ->
  Forall nul_free rest -> Forall (fun s => lenN s < 2 ^ 32) rest ->
  sorted_lt (prev :: rest) ->
  lex_lt q prev -> (0 < cmp)%Z -> sc = i + lenN rest -> (length rest < fuel)%nat ->
  scan_loop fuel d q k sc i ptr prev (lcp prev q) cmp = Some 0.
Proof.
  intros Hnq rest prev fuel i ptr cmp tail sc Ht Hnf Hlen Hsort Hlt Hcmp Hsc Hfuel.
  destruct fuel as [|f]; [lia|]. cbn [scan_loop].
  destruct rest as [|cur rest].
  - rewrite lenN_nil in Hsc. destruct (N.ltb_spec i sc); [lia|]. reflexivity.
  - rewrite lenN_cons in Hsc. destruct (N.ltb_spec i sc); [|lia].
    cbn [enc_rest] in Ht. rewrite <- app_assoc in Ht.
    pose proof (Forall_inv Hnf) as Hncur. pose proof (Forall_inv_tail Hnf) as Hnf'.
    pose proof (Forall_inv Hlen) as Hlcur. pose proof (Forall_inv_tail Hlen) as Hlen'.
    cbv beta in Hncur, Hlcur.
    pose proof (sorted_tail _ _ Hsort) as Hsort'.
    assert (Hpc : lex_lt prev cur) by (pose proof (sorted_head_lt _ _ Hsort) as Hf; exact (Forall_inv Hf)).
    destruct (read_internal _ _ prev cur _ Ht Hncur Hlcur) as (p' & Ev & Ed & Ht').
    rewrite Ev. destruct (N.ltb_spec (lcp prev cur) (lcp prev q)) as [Hps|Hps]; [reflexivity|].
    rewrite Ed. destruct (N.eqb_spec (lcp prev cur) (lcp prev q)) as [Heq|Hne].
    + destruct (cmp_from_spec cur q (lcp prev q) Hncur Hnq (scan_trick_eq _ _ _ Heq))
        as (z & n & Ec & Hag).
      rewrite Ec. unfold cmp_agrees in Hag.
      pose proof (lex_lt_trans _ _ _ Hlt Hpc) as Hqc. apply lex_gt_lt in Hqc. rewrite Hqc in Hag.
      destruct Hag as [Hz _]. destruct (Z.eqb_spec z 0); [lia|].
      destruct (Z.ltb_spec 0 z); [reflexivity|lia].
    + destruct (Z.eqb_spec cmp 0); [lia|]. destruct (Z.ltb_spec 0 cmp); [reflexivity|lia].
Qed.

(* ====================================================================== *)
(* E. glue: the specification's ID in terms of the selected bucket          *)
(* ====================================================================== *)
Lemma index_from_app q : forall A R i, ~ In q A ->
  index_from q (A ++ R) i = index_from q R (i + lenN A).
Proof.
  induction A as [|a A IH]; intros R i H; cbn [app index_from].
  - rewrite lenN_nil, N.add_0_r. reflexivity.
  - destruct (str_eqb a q) eqn:E.
    + apply str_eqb_eq in E. exfalso. apply H. left. exact E.
    + rewrite IH by (intros Hin; apply H; right; exact Hin).
      rewrite lenN_cons. f_equal. lia.
Qed.

Lemma index_from_app_r q : forall C B i, ~ In q B -> index_from q (C ++ B) i = index_from q C i.
Proof.
  induction C as [|c C IH]; intros B i H; cbn [app index_from].
  - apply index_from_notin. exact H.
  - destruct (str_eqb c q); [reflexivity|]. apply IH. exact H.
Qed.

Lemma sorted_app_r : forall A R, sorted_lt (A ++ R) -> sorted_lt R.
Proof.
  induction A as [|a A IH]; intros R H; [exact H|]. apply IH. eapply sorted_tail. exact H.
Qed.

Lemma sorted_app_l : forall A B, sorted_lt (A ++ B) -> sorted_lt A.
Proof.
  induction A as [|a A IH]; intros B H; [constructor|].
  destruct A as [|a' A]; [constructor|]. cbn [app] in *.
  inversion H; subst. constructor; [assumption|]. apply (IH B). assumption.
Qed.

Lemma sorted_app_below : forall A h R, sorted_lt (A ++ h :: R) -> Forall (fun x => lex_lt x h) A.
Proof.
  induction A as [|a A IH]; intros h R H; constructor.
  - pose proof (sorted_head_lt _ _ H) as Hf. rewrite Forall_forall in Hf.
    apply Hf. apply in_or_app. right. left. reflexivity.
  - apply (IH h R). eapply sorted_tail. exact H.
Qed.

Lemma skipn_cons_nth {A} : forall (i : nat) (l : list A) x r,
  skipn i l = x :: r -> nth_error l i = Some x.
Proof.
  induction i as [|i IH]; intros [|y l] x r H; try discriminate.
  - injection H as -> _. reflexivity.
  - cbn [skipn] in H. cbn [nth_error]. exact (IH l x r H).
Qed.

(* q strictly between the header of bucket k and the header of bucket k+1 (if any):
   its ID, if it has one, is determined by the remainder of bucket k *)
Lemma spec_locate_bucket S b q k h : 1 <= b -> sorted_lt S -> 1 <= k ->
  hdr S b k = Some h -> lex_lt h q ->
  (forall h', hdr S b (k + 1) = Some h' -> lex_lt q h') ->
  spec_locate S q = index_from q (chunk_rest S b k) ((k - 1) * b + 2).
Proof.
  intros Hb Hsort Hk Hh Hhq Hnext.
  pose proof (split_at_bucket S b k h Hb Hk Hh) as HS.
  pose proof (nthN_Some_lt _ _ _ Hh) as Hlt.
  set (A := firstn (N.to_nat ((k - 1) * b)) S) in *.
  set (R := chunk_rest S b k) in *.
  remember (skipn (N.to_nat (k * b)) S) as B eqn:EB.
  assert (HlenA : lenN A = (k - 1) * b).
  { unfold A, lenN in *. rewrite firstn_length. lia. }
  pose proof Hsort as Hsort2. rewrite HS in Hsort2.
  assert (HqA : ~ In q A).
  { intros Hin. pose proof (sorted_app_below _ _ _ Hsort2) as Hf. rewrite Forall_forall in Hf.
    exact (lex_lt_asym _ _ (Hf _ Hin) Hhq). }
  assert (HqB : ~ In q B).
  { destruct B as [|h' B']; [intros []|].
    symmetry in EB. apply skipn_cons_nth in EB.
    apply notin_above.
    - apply Hnext. unfold hdr, nthN. rewrite N.add_sub. exact EB.
    - apply sorted_app_r in Hsort2. change (h :: R ++ h' :: B') with ((h :: R) ++ h' :: B') in Hsort2.
      apply sorted_app_r in Hsort2. exact Hsort2. }
  unfold spec_locate. rewrite HS at 1.
  rewrite index_from_app by exact HqA. rewrite HlenA.
  cbn [index_from]. rewrite str_eqb_of_cmp, Hhq.
  rewrite index_from_app_r by exact HqB. f_equal. lia.
Qed.

Lemma scanneable_spec d b S k : layout_ok d b S -> 1 <= b -> 1 <= k <= p_buckets d ->
  scanneable_of d k = 1 + lenN (chunk_rest S b k).
Proof.
  intros HL Hb Hk. pose proof HL as (Hel & Hbs & _).
  pose proof (proj1 (buckets_count d b S (k - 1) HL Hb) ltac:(lia)) as H1.
  pose proof (buckets_count d b S k HL Hb) as H2.
  assert (E : k * b = (k - 1) * b + b) by nia.
  assert (Hlen : lenN (chunk_rest S b k) = N.min (b - 1) (lenN S - ((k - 1) * b + 1))).
  { unfold chunk_rest, lenN. rewrite firstn_length, skipn_length. lia. }
  unfold scanneable_of. rewrite Hel, Hbs, Hlen.
  destruct (N.eqb_spec k (p_buckets d)) as [Ekm|Nkm].
  - assert (Hn : lenN S <= (k - 1) * b + b).
    { destruct (N.lt_ge_cases (k * b) (lenN S)) as [Hc|Hc]; [apply H2 in Hc; lia|lia]. }
    destruct (N.eq_dec (lenN S) ((k - 1) * b + b)) as [En|Nn].
    + assert (Hm : lenN S mod b = 0) by (rewrite En, <- E; apply N.mod_mul; lia).
      rewrite Hm. cbn [N.eqb negb andb]. lia.
    + assert (Hm : lenN S mod b = lenN S - (k - 1) * b).
      { symmetry. apply (N.mod_unique _ _ (k - 1)); lia. }
      rewrite Hm. destruct (N.eqb_spec (lenN S - (k - 1) * b) 0); [lia|].
      cbn [negb andb]. lia.
  - cbn [andb]. assert (k * b < lenN S) by (apply H2; lia). lia.
Qed.

Lemma get_header_layout d b S k h : layout_ok d b S -> 1 <= b -> 1 <= k ->
  hdr S b k = Some h -> nul_free h ->
  exists ptr tail, get_header d k = Some (ptr, h) /\
                   text_at (p_text d) ptr (enc_rest h (chunk_rest S b k) ++ tail).
Proof.
  intros HL Hb Hk Hh Hnh.
  destruct (bucket_at d b S k h HL Hb Hk Hh) as (off & tail & Eo & Ht).
  exists (off + lenN h + 1), tail. split.
  - unfold get_header. rewrite Eo, (cstr_at_spec _ _ _ _ Ht Hnh). reflexivity.
  - replace (h ++ 0 :: enc_rest h (chunk_rest S b k) ++ tail)
      with ((h ++ [0]) ++ enc_rest h (chunk_rest S b k) ++ tail) in Ht
      by (rewrite <- app_assoc; reflexivity).
    apply text_at_app in Ht. rewrite lenN_app in Ht. change (lenN [0]) with 1 in Ht.
    rewrite N.add_assoc in Ht. exact Ht.
Qed.

(* ====================================================================== *)
(* F. locate                                                               *)
(* ====================================================================== *)
(* slightly more general than required: any bucket size >= 1 *)
Theorem pfc_locate_spec_gen d b S q :
  layout_ok d b S -> 1 <= b -> pfc_input S -> nul_free q ->
  pfc_locate d q = Some (spec_locate S q).
Proof.
  intros HL Hb Hin Hnq.
  pose proof Hin as (Hne & Hnf & Hsort & Hlen & _).
  pose proof HL as (Hel & Hbs & _).
  rewrite Forall_forall in Hnf, Hlen.
  destruct (locate_bucket_spec d b S q HL Hb Hin Hnq) as (found & k & Elb & Hk & Hpost).
  unfold pfc_locate. rewrite Elb, Hbs. destruct found.
  - (* q is the header of bucket k *)
    destruct Hpost as [Hk1 Hh]. unfold spec_locate.
    rewrite (nth_index_from S 1 ((k - 1) * b) q ltac:(lia) (sorted_NoDup _ Hsort) Hh).
    f_equal. lia.
  - destruct Hpost as [Hlo Hhi]. destruct (N.eqb_spec k 0) as [->|Hk0].
    + (* q is below the first header, hence below every string *)
      assert (Hm : 1 <= p_buckets d).
      { assert (0 < p_buckets d); [|lia]. apply (buckets_count d b S 0 HL Hb).
        destruct S; [congruence|]. rewrite lenN_cons. lia. }
      destruct (hdr_exists d b S 1 HL Hb ltac:(lia)) as [h1 Hh1].
      pose proof (Hhi 1 h1 ltac:(lia) Hh1) as Hq1.
      f_equal. symmetry. apply spec_locate_absent.
      unfold hdr, nthN in Hh1. change (N.to_nat ((1 - 1) * b)) with O in Hh1.
      destruct S as [|s0 S']; [discriminate|]. injection Hh1 as ->.
      apply notin_above; assumption.
    + assert (Hk1 : 1 <= k) by lia.
      destruct (hdr_exists d b S k HL Hb ltac:(lia)) as [h Hh].
      assert (Hnh : nul_free h) by (apply Hnf; eapply hdr_in; eassumption).
      assert (Hhq : lex_lt h q) by (apply (Hlo k h); [lia|exact Hh]).
      destruct (get_header_layout d b S k h HL Hb Hk1 Hh Hnh) as (ptr & tail & Egh & Ht).
      rewrite Egh, (scanneable_spec d b S k HL Hb ltac:(lia)).
      rewrite (spec_locate_bucket S b q k h Hb Hsort Hk1 Hh Hhq).
      2:{ intros h' Hh'. apply (Hhi (k + 1) h'); [|exact Hh'].
          pose proof (nthN_Some_lt _ _ _ Hh') as Hlt. rewrite N.add_sub in Hlt.
          apply (buckets_count d b S k HL Hb) in Hlt. lia. }
      pose proof (split_at_bucket S b k h Hb Hk1 Hh) as HS.
      assert (Hsub : forall x, In x (chunk_rest S b k) -> In x S).
      { intros x Hx. rewrite HS. apply in_or_app. right. right. apply in_or_app. left. exact Hx. }
      assert (Hsr : sorted_lt (h :: chunk_rest S b k)).
      { pose proof Hsort as Hs2. rewrite HS in Hs2. apply sorted_app_r in Hs2.
        change (sorted_lt ((h :: chunk_rest S b k) ++ skipn (N.to_nat (k * b)) S)) in Hs2.
        apply sorted_app_l in Hs2. exact Hs2. }
      assert (Hnr : Forall nul_free (chunk_rest S b k)) by (apply Forall_forall; auto).
      assert (Hlr : Forall (fun s => lenN s < 2 ^ 32) (chunk_rest S b k)) by (apply Forall_forall; auto).
      clear HS Hsub.
      destruct (chunk_rest S b k) as [|d1 rest].
      * (* the bucket holds only its header *)
        rewrite lenN_nil. reflexivity.
      * rewrite lenN_cons. destruct (N.ltb_spec 1 (1 + (1 + lenN rest))); [|lia].
        cbn [enc_rest] in Ht. rewrite <- app_assoc in Ht.
        pose proof (Forall_inv Hnr) as Hn1. pose proof (Forall_inv_tail Hnr) as Hnr'.
        pose proof (Forall_inv Hlr) as Hl1. pose proof (Forall_inv_tail Hlr) as Hlr'.
        cbv beta in Hn1, Hl1.
        pose proof (sorted_tail _ _ Hsr) as Hsr'.
        destruct (read_internal _ _ h d1 _ Ht Hn1 Hl1) as (p1 & Ev & Ed & Ht1).
        unfold decode_step. rewrite Ev, Ed.
        destruct (cmp_from_spec d1 q 0 Hn1 Hnq ltac:(lia)) as (z & n & Ec & Hag).
        rewrite Ec. unfold cmp_agrees in Hag. cbn [index_from]. rewrite str_eqb_of_cmp.
        destruct (lex_compare d1 q) eqn:E.
        -- subst z. cbn [Z.eqb]. reflexivity.
        -- destruct Hag as [Hz ->]. destruct (Z.eqb_spec z 0); [lia|]. rewrite N.add_0_l.
           rewrite (scan_loop_lt d q k Hnq rest d1 _ 2 p1 z tail _ Ht1 Hnr' Hlr' Hsr' E Hz);
             [rewrite Hbs; f_equal; f_equal; lia|lia|unfold lenN; lia].
        -- destruct Hag as [Hz ->]. destruct (Z.eqb_spec z 0); [lia|]. rewrite N.add_0_l.
           apply lex_gt_lt in E.
           rewrite (scan_loop_gt d q k Hnq rest d1 _ 2 p1 z tail _ Ht1 Hnr' Hlr' Hsr' E Hz);
             [|lia|unfold lenN; lia].
           rewrite index_from_notin; [reflexivity|].
           intros Hi. apply (notin_above q d1 rest E Hsr'). right. exact Hi.
Qed.

Theorem pfc_locate_spec d b S q :
  layout_ok d b S -> 2 <= b -> pfc_input S -> nul_free q ->
  pfc_locate d q = Some (spec_locate S q).
Proof. intros HL Hb. apply (pfc_locate_spec_gen d b S q HL). lia. Qed.

Corollary pfc_locate_member d b S q :
  layout_ok d b S -> 2 <= b -> pfc_input S -> In q S ->
  exists id, pfc_locate d q = Some id /\ 1 <= id <= lenN S /\ spec_extract S id = Some q.
Proof.
  intros HL Hb Hin Hq. pose proof Hin as (_ & Hnf & _).
  rewrite Forall_forall in Hnf.
  exists (spec_locate S q). split; [apply (pfc_locate_spec d b S q HL Hb Hin (Hnf _ Hq))|].
  split; [apply spec_locate_member; exact Hq|apply spec_extract_locate; exact Hq].
Qed.

Corollary pfc_locate_absent d b S q :
  layout_ok d b S -> 2 <= b -> pfc_input S -> nul_free q -> ~ In q S ->
  pfc_locate d q = Some 0.
Proof.
  intros HL Hb Hin Hnq Hq. rewrite (pfc_locate_spec d b S q HL Hb Hin Hnq).
  f_equal. apply spec_locate_absent. exact Hq.
Qed.

(* locate never reports a memory error, whatever (NUL-free) pattern it is given *)
Corollary pfc_locate_safe d b S q :
  layout_ok d b S -> 2 <= b -> pfc_input S -> nul_free q -> pfc_locate d q <> None.
Proof. intros HL Hb Hin Hnq. rewrite (pfc_locate_spec d b S q HL Hb Hin Hnq). discriminate. Qed.

(* ====================================================================== *)
(* G. boolean checkers for the hypotheses (sound), and a concrete instance *)
(* ====================================================================== *)
Definition nul_free_chk (s : str) : bool := forallb (fun x => negb (x =? 0)) s.

Definition pfc_input_chk (S : list str) : bool :=
  negb (match S with [] => true | _ => false end) && forallb nul_free_chk S && sorted_lt_b S &&
  forallb (fun s => lenN s <? 2 ^ 32) S && (lenN S <? 2 ^ 32).

Lemma nul_free_chk_sound s : nul_free_chk s = true -> nul_free s.
Proof.
  unfold nul_free_chk, nul_free. rewrite forallb_forall, Forall_forall.
  intros H x Hx. specialize (H x Hx). destruct (N.eqb_spec x 0); [discriminate|assumption].
Qed.

Lemma pfc_input_chk_sound S : pfc_input_chk S = true -> pfc_input S.
Proof.
  unfold pfc_input_chk, pfc_input. rewrite !andb_true_iff.
  intros ((((H1 & H2) & H3) & H4) & H5). repeat split.
  - destruct S; [discriminate|congruence].
  - rewrite forallb_forall in H2. apply Forall_forall. intros s Hs. apply nul_free_chk_sound. auto.
  - apply sorted_lt_b_sound. exact H3.
  - rewrite forallb_forall in H4. apply Forall_forall. intros s Hs. apply N.ltb_lt. auto.
  - apply N.ltb_lt. exact H5.
Qed.

Definition listN_eqb (a b : list N) : bool := if list_eq_dec N.eq_dec a b then true else false.

Definition layout_ok_chk (d : pfc) (b : N) (S : list str) : bool :=
  let cs := map enc_bucket (chunks b S) in
  (p_elements d =? lenN S) && (p_bsize d =? b) && (p_buckets d =? lenN cs) &&
  listN_eqb (p_text d) (concat cs) &&
  listN_eqb (p_bl d) (0 :: starts_from 0 cs ++ [lenN (concat cs)]).

Lemma listN_eqb_sound a b : listN_eqb a b = true -> a = b.
Proof. unfold listN_eqb. destruct (list_eq_dec N.eq_dec a b); [auto|discriminate]. Qed.

Lemma layout_ok_chk_sound d b S : layout_ok_chk d b S = true -> layout_ok d b S.
Proof.
  unfold layout_ok_chk, layout_ok. cbv zeta. rewrite !andb_true_iff.
  intros ((((H1 & H2) & H3) & H4) & H5).
  repeat split; try (apply N.eqb_eq; assumption); apply listN_eqb_sound; assumption.
Qed.

(* the theorem with checkable hypotheses: for a dictionary image d (e.g. dumped from the
   real object) that passes the checks, locate is right for EVERY NUL-free pattern *)
Theorem pfc_locate_spec_chk d b S q :
  layout_ok_chk d b S = true -> (2 <=? b) = true -> pfc_input_chk S = true -> nul_free q ->
  pfc_locate d q = Some (spec_locate S q).
Proof.
  intros H1 H2 H3 Hq. apply (pfc_locate_spec d b S q); auto.
  - apply layout_ok_chk_sound; assumption.
  - apply N.leb_le; assumption.
  - apply pfc_input_chk_sound; assumption.
Qed.

(* concrete instance: 8 strings sharing prefixes, bucket size 3 (buckets of 3, 3, 2):
   "a" "ab" "abc" | "abd" "b" "ba" | "bab" "c" *)
Definition loc_ex_S : list str :=
  [[97]; [97;98]; [97;98;99]; [97;98;100]; [98]; [98;97]; [98;97;98]; [99]].

Example pfc_locate_example :
  let d := pfc_build 3 loc_ex_S in
  layout_ok d 3 loc_ex_S /\ 2 <= 3 /\ pfc_input loc_ex_S /\
  (forall q, nul_free q -> pfc_locate d q = Some (spec_locate loc_ex_S q)) /\
  (* members: header / first internal / later internal / last string *)
  pfc_locate d [97;98;100] = Some 4 /\ pfc_locate d [98] = Some 5 /\
  pfc_locate d [98;97] = Some 6 /\ pfc_locate d [99] = Some 8 /\
  (* non-members: empty string, below the first, proper prefix-extension "abcd", "aba",
     between buckets "az", extension of the last "ca", byte occurring nowhere *)
  pfc_locate d [] = Some 0 /\ pfc_locate d [65] = Some 0 /\
  pfc_locate d [97;98;99;100] = Some 0 /\ pfc_locate d [97;98;97] = Some 0 /\
  pfc_locate d [97;122] = Some 0 /\ pfc_locate d [99;97] = Some 0 /\
  pfc_locate d [200] = Some 0.
Proof.
  cbv zeta.
  assert (HL : layout_ok (pfc_build 3 loc_ex_S) 3 loc_ex_S) by (repeat split; reflexivity).
  assert (HI : pfc_input loc_ex_S) by (apply pfc_input_chk_sound; vm_compute; reflexivity).
  split; [exact HL|]. split; [lia|]. split; [exact HI|]. split.
  - intros q Hq. apply (pfc_locate_spec _ 3 loc_ex_S q HL ltac:(lia) HI Hq).
  - repeat split; vm_compute; reflexivity.
Qed.
