(* C02 — no false positives: absent strings give NORESULT, bad IDs give NULL. *)
From LibCSD Require Import Base Spec SpecProofs VByteDefs PFCDefs PFCLayout PFCBuildProofs PFCExtractProofs PFCLocateProofs PFCTheorems.
Local Open Scope N_scope.

Theorem C02_spec_locate_absent : forall S q, spec_locate S q = 0 <-> ~ In q S.
Proof. exact spec_locate_absent. Qed.
Print Assumptions C02_spec_locate_absent.

Theorem C02_spec_locate_range : forall S q, spec_locate S q = 0 \/ 1 <= spec_locate S q <= lenN S.
Proof. exact spec_locate_range. Qed.
Print Assumptions C02_spec_locate_range.

Theorem C02_spec_extract_out_of_range : forall S i, i = 0 \/ lenN S < i -> spec_extract S i = None.
Proof. exact spec_extract_out_of_range. Qed.
Print Assumptions C02_spec_extract_out_of_range.

Example C02_example : let S := [[97]; [97; 98]; [98; 2]] in
  spec_locate S [97; 98; 2] = 0 /\ spec_locate S [96] = 0 /\ spec_extract S 0 = None /\ spec_extract S 4 = None
  /\ spec_extract S (2 ^ 64 - 1) = None.
Proof. cbv zeta. repeat split; reflexivity. Qed.


(* ---- the byte-exact PFC model ---------------------------------------------------------- *)
Theorem C02_pfc_no_false_positive : forall S b0 q, pfc_input S -> nul_free q -> ~ In q S ->
  pfc_locate (pfc_build b0 S) q = Some 0.
Proof. exact pfc_no_false_positive. Qed.
Print Assumptions C02_pfc_no_false_positive.

Theorem C02_pfc_bad_id_null : forall S b0 id, pfc_input S -> id = 0 \/ lenN S < id ->
  pfc_extract (pfc_build b0 S) id = Some None.
Proof. exact pfc_bad_id_null. Qed.
Print Assumptions C02_pfc_bad_id_null.

(* "touches no memory outside the dictionary": every read of the model goes through checked
   accessors whose failure is the outcome None; it is unreachable for EVERY query / id, and the
   pattern is never read past its NUL *)
Theorem C02_pfc_locate_no_oob : forall d b S q, layout_ok d b S -> 2 <= b -> pfc_input S -> nul_free q ->
  pfc_locate d q <> None.
Proof. exact pfc_locate_safe. Qed.
Print Assumptions C02_pfc_locate_no_oob.

Theorem C02_pfc_extract_no_oob : forall d b S, layout_ok d b S -> 2 <= b -> pfc_input S ->
  forall id, pfc_extract d id <> None.
Proof. exact pfc_extract_safe. Qed.
Print Assumptions C02_pfc_extract_no_oob.

Example C02_pfc_example : pfc_locate (pfc_build 3 thm_ex_S) [97; 98; 101] = Some 0 /\
  pfc_locate (pfc_build 3 thm_ex_S) [97; 98; 99; 2] = Some 0 /\ pfc_locate (pfc_build 3 thm_ex_S) [96] = Some 0 /\
  pfc_extract (pfc_build 3 thm_ex_S) 8 = Some None /\ pfc_extract (pfc_build 3 thm_ex_S) (2 ^ 64 - 1) = Some None.
Proof. repeat split; vm_compute; reflexivity. Qed.
