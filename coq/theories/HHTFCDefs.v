(* Executable model of the LOADED StringDictionaryHHTFC object (Front-Coding whose bucket HEADERS are Hu-Tucker
   coded and whose INTERNAL strings VByte(lcp) ++ suffix ++ NUL are Huffman coded) and of the code it runs to
   answer queries, statement by statement:
     StringDictionaryHHTFC.cpp   getHeader, decodeHeader (tableHT / codewordsHT), resetScan, locateBucket (memcmp on the
                                 encodeString(coderHT) bytes), locate, extract, locateBoundaryBuckets, searchPrefix,
                                 searchDistinctPrefix, locatePrefix  (internal strings: coderHU->decodeString)
   The query code is the HTFC code with `coder` split into coderHT (headers, encodeString) and coderHU
   (decodeString); DecodingTable::processChunk / getSubstring and StatCoder::decodeString are shared with HTFC:
   HTFCDefs.process_chunk / decode_string / decode_header / reset_scan / hlocate_bucket / hlocate_boundary_buckets /
   encode_string are reused UNCHANGED, instantiated with one of two views of the object:
     [hh_ht d]  elements, maxlength, maxcomplength, buckets, bucketsize, textStrings, blStrings, codewordsHT, tableHT
     [hh_hu d]  the same shared members with codewordsHU and tableHU.
   Only the functions of HTFCDefs that hard-wire ONE table for both roles are restated here with two
   (extract, the scan loops of locate / searchPrefix / searchDistinctPrefix, locate, locatePrefix, the checker).
   The scratch buffer is the one decodeHeader allocates: new uchar[4 * maxlength + tableHT->getK()] = str_cap (hh_ht d).
   Definitions only; proofs are in HHTFCProofs.v. *)
From LibCSD Require Import Base VByteDefs Spec PFCDefs CodesDefs HTFCDefs.
Local Open Scope N_scope.

Record hhtfc := {
  hh_ht : htfc;                       (* shared members + codewordsHT[256] + tableHT (k, stream, table, endings, subtrees) *)
  hh_cwU : list cw;                   (* codewordsHU[256] = (codeword, bits) *)
  hh_kU : N;                          (* tableHU->k *)
  hh_streamU : list N;                (* tableHU->stream[0 .. bytesStream) *)
  hh_tabU : list (N * N);             (* non-zero entries (index, position) of tableHU->table[2^k] *)
  hh_endingsU : list N;               (* set bits of tableHU->endings *)
  hh_treesU : list (list (Z * Z * Z)) (* tableHU->subtrees[i]->tree[j] = (symbol, children[0], children[1]) *)
}.

(* the object as coderHU / tableHU see it *)
Definition hh_hu (d : hhtfc) : htfc :=
  {| h_elements := h_elements (hh_ht d); h_maxlength := h_maxlength (hh_ht d);
     h_maxcomplength := h_maxcomplength (hh_ht d); h_buckets := h_buckets (hh_ht d); h_bsize := h_bsize (hh_ht d);
     h_text := h_text (hh_ht d); h_bl := h_bl (hh_ht d);
     h_cw := hh_cwU d; h_k := hh_kU d; h_stream := hh_streamU d; h_tab := hh_tabU d; h_endings := hh_endingsU d;
     h_trees := hh_treesU d |}.

(* ---------------------------------------------------------------------- *)
(* extract                                                                 *)
(* ---------------------------------------------------------------------- *)
(* coderHU->decodeString(&c) on the buffer of capacity [cap] *)
Definition dstep2 (dU : htfc) (cap : N) (st : bst * ast) : option (bst * ast) :=
  match decode_string dU cap (fst st) (snd st) with
  | None => None
  | Some (b', a', _) => Some (b', a')
  end.

(* uchar *extract(size_t id, uint *strLen): as HTFCDefs.htfc_extract_raw; decodeHeader / resetScan on the HT view,
   decodeString on the HU view *)
Definition hh_extract_raw (dT dU : htfc) (id : N) : option (option (str * N)) :=
  if (0 <? id) && (id <=? h_elements dT) then
    let idbucket := W32m (1 + (id - 1) / h_bsize dT) in
    let pos := W32m ((id - 1) mod h_bsize dT) in
    match decode_header dT idbucket with
    | None => None
    | Some st0 =>
        match (if 0 <? pos
               then N.iter pos (fun o => opt_bind o (dstep2 dU (str_cap dT))) (reset_scan dT idbucket st0)
               else Some st0) with
        | None => None
        | Some (_, a) =>
            match take0 (a_buf a) with
            | None => None
            | Some s => Some (Some (s, wsub32 (a_len a) 1))
            end
        end
    end
  else Some None.

Definition hh_extract (dT dU : htfc) (id : N) : option (option str) :=
  match hh_extract_raw dT dU id with
  | None => None
  | Some None => Some None
  | Some (Some (s, l)) => if l =? lenN s then Some (Some s) else None
  end.

Definition hhtfc_extract_raw (d : hhtfc) (id : N) : option (option (str * N)) := hh_extract_raw (hh_ht d) (hh_hu d) id.
Definition hhtfc_extract (d : hhtfc) (id : N) : option (option str) := hh_extract (hh_ht d) (hh_hu d) id.

(* ---------------------------------------------------------------------- *)
(* locate                                                                  *)
(* ---------------------------------------------------------------------- *)
(* the for-loop of locate (HTFCDefs.hscan_loop with coderHU->decodeString) *)
Fixpoint hhscan_loop (fuel : nat) (dU : htfc) (cap bsize : N) (q : str) (idbucket scanneable i : N)
         (b : bst) (a : ast) (sharedCurr : N) : option N :=
  match fuel with
  | O => None
  | S f =>
      if i <? scanneable then
        match decode_string dU cap b a with
        | None => None
        | Some (b', a', sharedPrev) =>
            if sharedPrev <? sharedCurr then Some 0
            else
              match hcmp_from a' q sharedCurr 1 with
              | None => None
              | Some (cmp', sharedCurr') =>
                  if (cmp' =? 0)%Z then Some ((idbucket - 1) * bsize + i + 1)
                  else if (0 <? cmp')%Z then Some 0
                  else hhscan_loop f dU cap bsize q idbucket scanneable (i + 1) b' a' sharedCurr'
              end
        end
      else Some 0
  end.

(* unsigned long locate(uchar *str, uint strLen): coderHT->encodeString, locateBucket, decodeHeader, resetScan on the
   HT view; the scan with coderHU *)
Definition hh_locate (dT dU : htfc) (q : str) : option N :=
  match encode_string dT (q ++ [0]) with
  | None => None
  | Some (enc, _) =>
      match hlocate_bucket dT enc with
      | None => None
      | Some (true, idbucket) => Some ((idbucket - 1) * h_bsize dT + 1)
      | Some (false, idbucket) =>
          if idbucket =? 0 then Some 0
          else
            match opt_bind (decode_header dT idbucket) (reset_scan dT idbucket) with
            | None => None
            | Some (b, a) =>
                let scanneable := hscanneable dT idbucket in
                if 1 <? scanneable then
                  match decode_string dU (str_cap dT) b a with
                  | None => None
                  | Some (b1, a1, _) =>
                      match hcmp_from a1 q 0 1 with
                      | None => None
                      | Some (cmp, sharedCurr) =>
                          if (cmp =? 0)%Z then Some ((idbucket - 1) * h_bsize dT + 2)
                          else hhscan_loop (N.to_nat scanneable) dU (str_cap dT) (h_bsize dT) q idbucket scanneable 2
                                           b1 a1 sharedCurr
                      end
                  end
                else Some 0
            end
      end
  end.

Definition hhtfc_locate (d : hhtfc) (q : str) : option N := hh_locate (hh_ht d) (hh_hu d) q.

(* ---------------------------------------------------------------------- *)
(* prefix search                                                           *)
(* ---------------------------------------------------------------------- *)
(* searchPrefix(&c, scanneable, str, strLen): (id, state); id = 0 is NORESULT *)
Fixpoint hhsearch_prefix (fuel : nat) (dU : htfc) (cap : N) (p : str) (scanneable : N)
         (b : bst) (a : ast) (sharedCurr i : N) : option (N * bst * ast) :=
  match fuel with
  | O => None
  | S f =>
      match hcmp_from a p sharedCurr 0 with
      | None => None
      | Some (cmp, sharedCurr') =>
          if sharedCurr' =? lenN p then Some (i, b, a)
          else if (0 <? cmp)%Z || (i =? scanneable) then Some (0, b, a)
          else
            match decode_string dU cap b a with
            | None => None
            | Some (b', a', sharedPrev) =>
                if sharedPrev <? sharedCurr' then Some (0, b', a')
                else hhsearch_prefix f dU cap p scanneable b' a' sharedCurr' (i + 1)
            end
      end
  end.

(* searchDistinctPrefix: for (id = 1; id < scanneable; id++) if (coderHU->decodeString(c) < strLen) break; *)
Fixpoint hhsearch_distinct (fuel : nat) (dU : htfc) (cap : N) (plen : N) (scanneable : N)
         (b : bst) (a : ast) (id : N) : option N :=
  match fuel with
  | O => None
  | S f =>
      if id <? scanneable then
        match decode_string dU cap b a with
        | None => None
        | Some (b', a', shared) =>
            if shared <? plen then Some id
            else hhsearch_distinct f dU cap plen scanneable b' a' (id + 1)
        end
      else Some id
  end.

(* locatePrefix: the (left, right) limits handed to IteratorDictIDContiguous *)
Definition hh_locate_prefix (dT dU : htfc) (p : str) : option (N * N) :=
  match encode_string dT p with
  | None => None
  | Some (enc, o) =>
      match hlocate_boundary_buckets dT enc o with
      | None => None
      | Some (leftBucket, rightBucket) =>
          if 0 <? leftBucket then
            match opt_bind (decode_header dT leftBucket) (reset_scan dT leftBucket) with
            | None => None
            | Some (b, a) =>
                let scanneable := hscanneable dT leftBucket in
                let fuel := S (S (N.to_nat scanneable)) in
                match hhsearch_prefix fuel dU (str_cap dT) p scanneable b a 0 1 with
                | None => None
                | Some (leftID, b', a') =>
                    if leftBucket =? rightBucket then
                      if leftID =? 0 then Some (0, 0)
                      else
                        match hhsearch_distinct fuel dU (str_cap dT) (lenN p) (W32m (scanneable + 2 ^ 32 - leftID + 1)) b' a' 1 with
                        | None => None
                        | Some k =>
                            Some (leftID + (leftBucket - 1) * h_bsize dT,
                                  leftID + k - 1 + (rightBucket - 1) * h_bsize dT)
                        end
                    else
                      let leftID' := if leftID =? 0 then leftBucket * h_bsize dT + 1
                                     else leftID + (leftBucket - 1) * h_bsize dT in
                      match opt_bind (decode_header dT rightBucket) (reset_scan dT rightBucket) with
                      | None => None
                      | Some (bR, aR) =>
                          let scanR := hscanneable dT rightBucket in
                          match hhsearch_distinct (S (S (N.to_nat scanR))) dU (str_cap dT) (lenN p) scanR bR aR 1 with
                          | None => None
                          | Some k => Some (leftID', k + (rightBucket - 1) * h_bsize dT)
                          end
                      end
                end
            end
          else Some (0, 0)
      end
  end.

Definition hhtfc_locate_prefix (d : hhtfc) (p : str) : option (N * N) := hh_locate_prefix (hh_ht d) (hh_hu d) p.

(* ---------------------------------------------------------------------- *)
(* verified checker: the loaded object represents the string list S        *)
(* ---------------------------------------------------------------------- *)
(* one pass over the flat list of strings (HTFCDefs.htrace_from with the two views).  Headers: blStrings[k] points
   at the bytes coderHT->encodeString(h, |h|+1) produces (what locateBucket compares with memcmp), decodeHeader(k)
   (tableHT) hands out h, resetScan(k) succeeds.  Internal strings: coderHU->decodeString, called in the state the
   previous string left, hands out the string and returns its shared-prefix length. *)
Fixpoint hhtrace_from (dT dU : htfc) (b : N) (i : N) (prev : str) (pst : bst * ast) (ss : list str)
  : option (list (bst * ast)) :=
  match ss with
  | [] => Some []
  | s :: r =>
      if i mod b =? 0 then
        let k := i / b + 1 in
        match rdN (h_bl dT) k, pack_string (h_cw dT) (s ++ [0]), decode_header dT k with
        | Some off, Some (enc, _), Some st0 =>
            match reset_scan dT k st0 with
            | Some st1 =>
                if (off <=? lenN (h_text dT)) && hprefix_eqb enc (skipN off (h_text dT)) && ast_is (snd st0) s
                then option_map (cons st1) (hhtrace_from dT dU b (i + 1) s st1 r)
                else None
            | None => None
            end
        | _, _, _ => None
        end
      else
        match decode_string dU (str_cap dT) (fst pst) (snd pst) with
        | Some (b', a', shared) =>
            if (shared =? lcp prev s) && ast_is a' s
            then option_map (cons (b', a')) (hhtrace_from dT dU b (i + 1) s (b', a') r)
            else None
        | None => None
        end
  end.

Definition hh_check (S : list str) (dT dU : htfc) : bool :=
  let b := h_bsize dT in
  (2 <=? b) && (b <? 2 ^ 32) && (h_elements dT =? lenN S) && (lenN S <? 2 ^ 32) &&
  (h_buckets dT =? (lenN S + b - 1) / b) && (h_k dT =? 16) &&
  code_chk (h_cw dT) && forallb (fun x => x <? 256) (h_text dT) &&
  match hhtrace_from dT dU b 0 [] st0_dummy S with Some _ => true | None => false end.

Definition hhtfc_check (S : list str) (d : hhtfc) : bool := hh_check S (hh_ht d) (hh_hu d).

(* ---------------------------------------------------------------------- *)
(* second checker: the decodeString protocol is NOT run, only the chunk chain *)
(* ---------------------------------------------------------------------- *)
(* as HTFCDefs.htfc_check2: headers as in [hh_check]; along the internal strings only the bit machine (processChunk +
   lookup in tableHU) is run and the SYMBOLS the Huffman table hands out are compared with the front-coded items
   VByte(lcp) ++ suffix ++ NUL computed from S (in-bucket lcp < 128); HHTFCProofs.hhtfc_check2_sound proves (through
   HTFCProofs.decode_string_item on the Huffman view) that StatCoder::decodeString then reassembles the strings of S *)
Fixpoint hhchain_from (dT dU : htfc) (b : N) (i : N) (prev : str) (bs : bst) (A : list N) (ss : list str) : bool :=
  match ss with
  | [] => true
  | s :: r =>
      (lenN s <? h_maxlength dT) && forallb (fun c => negb (c =? 0)) s &&
      if i mod b =? 0 then
        let k := i / b + 1 in
        match rdN (h_bl dT) k, pack_string (h_cw dT) (s ++ [0]), decode_header dT k with
        | Some off, Some (enc, _), Some st0 =>
            match reset_scan dT k st0 with
            | Some st1 =>
                (off <=? lenN (h_text dT)) && hprefix_eqb enc (skipN off (h_text dT)) && ast_is (snd st0) s &&
                hhchain_from dT dU b (i + 1) s (fst st1) [] r
            | None => false
            end
        | _, _, _ => false
        end
      else
        let l := lcp prev s in
        let item := (l + 128) :: skipN l s ++ [0] in
        (l <? 128) && (l <? lenN s) &&
        match item_walk (S (length item)) dU bs A (lenN item) with
        | Some (bs', Afull) =>
            hprefix_eqb item Afull && (lenN prev + 1 + lenN Afull <? str_cap dT) &&
            hhchain_from dT dU b (i + 1) s bs' (skipN (lenN item) Afull) r
        | None => false
        end
  end.

Definition hh_check2 (S : list str) (dT dU : htfc) : bool :=
  let b := h_bsize dT in
  (2 <=? b) && (b <? 2 ^ 32) && (h_elements dT =? lenN S) && (lenN S <? 2 ^ 32) &&
  (h_buckets dT =? (lenN S + b - 1) / b) && (h_k dT =? 16) && (h_maxlength dT <? 2 ^ 29) &&
  code_chk (h_cw dT) && forallb (fun x => x <? 256) (h_text dT) &&
  hhchain_from dT dU b 0 [] (fst st0_dummy) [] S.

Definition hhtfc_check2 (S : list str) (d : hhtfc) : bool := hh_check2 S (hh_ht d) (hh_hu d).

(* ---------------------------------------------------------------------- *)
(* the layout the constructor defines (executable specification, no theorem depends on it) *)
(* ---------------------------------------------------------------------- *)
(* textStrings / blStrings as StringDictionaryHHTFC(it, bucketsize) writes them: every bucket = coderHT->encodeSymbol
   over header ++ NUL from offset 0, padded to the byte, then ONE continuous coderHU->encodeSymbol bit stream over the
   internal strings VByte(lcp) ++ suffix ++ NUL (the VByte bytes are Huffman coded as any other symbol), padded to the
   byte at the end of a full bucket; the final `bytesStrings++` adds a 0 byte unless the last bucket is not full, has
   internal strings and ends inside a byte; then the two zero bytes of commit 6619f37. *)
Definition hh_bucket_bytes (cwT cwU : list cw) (b : nat) (ss : list str) : option (list N * bool) :=
  match ss with
  | [] => None
  | h :: r =>
      match pack_string cwT (h ++ [0]) with
      | None => None
      | Some (hb, _) =>
          match r with
          | [] => Some (hb, true)
          | _ =>
              match pack_symbols cwU (bucket_items h r) ([], 0, 0) with
              | None => None
              | Some st =>
                  Some (hb ++ final_bytes st, (Nat.eqb (length ss) b) || (snd st =? 0))
              end
          end
      end
  end.

Fixpoint hh_layout_buckets (cwT cwU : list cw) (b : nat) (off : N) (bs : list (list str))
  : option (list N * list N * bool) :=
  match bs with
  | [] => Some ([], [], true)
  | ss :: r =>
      match hh_bucket_bytes cwT cwU b ss with
      | None => None
      | Some (bytes, extra) =>
          match hh_layout_buckets cwT cwU b (off + lenN bytes) r with
          | None => None
          | Some (text, offs, extra') =>
              Some (bytes ++ text, off :: offs, match r with [] => extra | _ => extra' end)
          end
      end
  end.

Definition hhtfc_layout (cwT cwU : list cw) (b : N) (S : list str) : option (list N * list N) :=
  match hh_layout_buckets cwT cwU (N.to_nat b) 0 (hchunks (length S) (N.to_nat b) S) with
  | None => None
  | Some (text, offs, extra) =>
      let text' := (if extra then text ++ [0] else text) ++ [0; 0] in
      Some (text', 0 :: offs ++ [lenN text'])
  end.

Definition hhtfc_layout_chk (S : list str) (d : hhtfc) : bool :=
  match hhtfc_layout (h_cw (hh_ht d)) (hh_cwU d) (h_bsize (hh_ht d)) S with
  | Some (text, bl) => hlist_eqb text (h_text (hh_ht d)) && hlist_eqb bl (h_bl (hh_ht d))
  | None => false
  end.
