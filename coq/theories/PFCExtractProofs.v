(* StringDictionaryPFC::extract, getHeader, decodeNextString and the table scan
   (IteratorDictStringPFC) are correct on every dictionary that has the layout of
   PFCLayout.v; the memory-error result [None] of the model is unreachable.

   All proofs go through the flat stream view of PFCBuildProofs.v:
     text          = enc_stream b 0 [] S
     soff b S i    = offset in the text at which the encoding of string number i starts
                     (i is 0-based; string i is a header iff i mod b = 0)
     snth S i      = string number i
   Two facts drive everything:
     [stream_header]: at soff i (i mod b = 0) a C-string read returns snth S i and ends at soff (i+1);
     [stream_step]  : at soff (i+1) ((i+1) mod b <> 0) one decode step with decoded = snth S i
                      returns snth S (i+1) and ends at soff (i+2). *)
From LibCSD Require Import Base VByteDefs VByteProofs Spec SpecProofs PFCDefs PFCLayout PFCBuildProofs.
Local Open Scope N_scope.

Ltac Zify.zify_post_hook ::= Z.to_euclidean_division_equations.

(* ---------------------------------------------------------------------- *)
(* list access by N index                                                  *)
(* ---------------------------------------------------------------------- *)
Definition snth (S : list str) (i : N) : str := nth (N.to_nat i) S [].
Definition soff (b : N) (S : list str) (i : N) : N := lenN (enc_stream b 0 [] (firstN i S)).

Lemma split_at_nat {A} (d : A) : forall (l : list A) i, (i < length l)%nat ->
  l = firstn i l ++ nth i l d :: skipn (Datatypes.S i) l.
Proof.
  induction l as [|x l IH]; intros i H; [cbn [length] in H; lia|].
  destruct i as [|i]; [reflexivity|].
  cbn [firstn nth skipn app]. f_equal. apply IH. cbn [length] in H. lia.
Qed.

Lemma split_atN S i : i < lenN S -> S = firstN i S ++ snth S i :: skipN (i + 1) S.
Proof.
  unfold lenN, firstN, skipN, snth. intros H.
  replace (N.to_nat (i + 1)) with (Datatypes.S (N.to_nat i)) by lia.
  apply split_at_nat. lia.
Qed.

Lemma skipN_cons_snth S i : i < lenN S -> skipN i S = snth S i :: skipN (i + 1) S.
Proof.
  intros H. rewrite (split_atN S i H) at 1.
  unfold skipN at 1. rewrite skipn_app.
  assert (E : length (firstN i S) = N.to_nat i).
  { unfold firstN. rewrite firstn_length. unfold lenN in H. lia. }
  rewrite E, Nat.sub_diag. rewrite skipn_all2 by lia. reflexivity.
Qed.

Lemma firstN_succ S i : i < lenN S -> firstN (i + 1) S = firstN i S ++ [snth S i].
Proof.
  intros H. rewrite (split_atN S i H) at 1.
  unfold firstN at 1. rewrite firstn_app.
  assert (E : length (firstN i S) = N.to_nat i).
  { unfold firstN. rewrite firstn_length. unfold lenN in H. lia. }
  rewrite E. replace (N.to_nat (i + 1) - N.to_nat i)%nat with 1%nat by lia.
  rewrite firstn_all2 by lia. reflexivity.
Qed.

Lemma last_firstN_succ S i d : i < lenN S -> last (firstN (i + 1) S) d = snth S i.
Proof. intros H. rewrite firstN_succ by exact H. apply last_last. Qed.

Lemma nthN_snth S i : i < lenN S -> nthN S i = Some (snth S i).
Proof. unfold nthN, snth, lenN. intros H. apply nth_error_nth'. lia. Qed.

Lemma snth_In S i : i < lenN S -> In (snth S i) S.
Proof. unfold snth, lenN. intros H. apply nth_In. lia. Qed.

Lemma nthN_cons_pos {A} (x : A) l k : 1 <= k -> nthN (x :: l) k = nthN l (k - 1).
Proof.
  unfold nthN. intros H. replace (N.to_nat k) with (Datatypes.S (N.to_nat (k - 1))) by lia. reflexivity.
Qed.

Lemma Forall_skipn {A} (P : A -> Prop) : forall n l, Forall P l -> Forall P (skipn n l).
Proof.
  induction n as [|n IH]; intros l H; [exact H|].
  destruct l as [|x l]; [constructor|]. cbn [skipn]. apply IH. inversion H; assumption.
Qed.

Lemma skipn_skipn' {A} : forall b a (l : list A), skipn a (skipn b l) = skipn (b + a) l.
Proof.
  induction b as [|b IH]; intros a l; [reflexivity|].
  destruct l as [|x l]; [rewrite !skipn_nil; reflexivity|]. cbn [skipn Nat.add]. apply IH.
Qed.

Lemma nul_free_skipN n s : nul_free s -> nul_free (skipN n s).
Proof. apply Forall_skipn. Qed.

(* ---------------------------------------------------------------------- *)
(* lcp                                                                     *)
(* ---------------------------------------------------------------------- *)
Lemma lcp_le_l : forall a b, lcp a b <= lenN a.
Proof.
  induction a as [|x a IH]; intros b; cbn [lcp]; [lia|].
  destruct b as [|y b]; [lia|]. rewrite lenN_cons.
  destruct (x =? y); [specialize (IH b)|]; lia.
Qed.

Lemma lcp_le_r : forall a b, lcp a b <= lenN b.
Proof.
  induction a as [|x a IH]; intros b; cbn [lcp]; [lia|].
  destruct b as [|y b]; [lia|]. rewrite lenN_cons.
  destruct (x =? y); [specialize (IH b)|]; lia.
Qed.

Lemma lcp_rebuild : forall a b, firstN (lcp a b) a ++ skipN (lcp a b) b = b.
Proof.
  induction a as [|x a IH]; intros b; cbn [lcp]; [reflexivity|].
  destruct b as [|y b]; [reflexivity|].
  destruct (N.eqb_spec x y) as [->|Hne]; [|reflexivity].
  rewrite firstN_succ_cons, skipN_succ_cons. cbn [app]. f_equal. apply IH.
Qed.

(* ---------------------------------------------------------------------- *)
(* reading lemmas                                                          *)
(* ---------------------------------------------------------------------- *)
Lemma take0_app s rest : nul_free s -> take0 (s ++ 0 :: rest) = Some s.
Proof.
  unfold nul_free. induction 1 as [|x s Hx Hs IH]; cbn [app take0].
  - reflexivity.
  - destruct (N.eqb_spec x 0); [contradiction|]. rewrite IH. reflexivity.
Qed.

Lemma cstr_at_app pre s post : nul_free s ->
  cstr_at (pre ++ s ++ 0 :: post) (lenN pre) = Some s.
Proof.
  intros H. unfold cstr_at. rewrite lenN_app.
  destruct (N.leb_spec (lenN pre) (lenN pre + lenN (s ++ 0 :: post))); [|lia].
  rewrite skipN_app_exact. apply take0_app. exact H.
Qed.

Lemma vb_at_app pre c post : c < 2 ^ 32 ->
  vb_at (pre ++ vb_encode c ++ post) (lenN pre) = Some (c, lenN (vb_encode c)).
Proof.
  intros H. unfold vb_at. rewrite lenN_app.
  destruct (N.leb_spec (lenN pre) (lenN pre + lenN (vb_encode c ++ post))); [|lia].
  rewrite skipN_app_exact. apply vbyte_roundtrip. exact H.
Qed.

(* one front-coded entry: decoded = prev gives cur and moves just past the entry *)
Lemma decode_step_app pre prev cur post : nul_free cur -> lenN cur < 2 ^ 32 ->
  decode_step (pre ++ enc_internal prev cur ++ post) (lenN pre, prev) =
  Some (lenN pre + lenN (enc_internal prev cur), cur).
Proof.
  intros Hnf Hlen.
  pose proof (lcp_le_l prev cur) as Hl1. pose proof (lcp_le_r prev cur) as Hl2.
  unfold decode_step, enc_internal. set (l := lcp prev cur) in *.
  rewrite <- !app_assoc.
  rewrite vb_at_app by lia.
  unfold decode_next.
  destruct (N.leb_spec l (lenN prev)); [|lia].
  replace (pre ++ vb_encode l ++ skipN l cur ++ [0] ++ post)
    with ((pre ++ vb_encode l) ++ skipN l cur ++ 0 :: post)
    by (rewrite <- app_assoc; reflexivity).
  rewrite <- lenN_app.
  rewrite cstr_at_app by (apply nul_free_skipN; exact Hnf).
  f_equal. f_equal.
  - rewrite !lenN_app, lenN_cons. change (@lenN N []) with 0. lia.
  - apply lcp_rebuild.
Qed.

(* ---------------------------------------------------------------------- *)
(* the two stream facts                                                    *)
(* ---------------------------------------------------------------------- *)
Lemma stream_split b S i : i < lenN S ->
  enc_stream b 0 [] S =
  enc_stream b 0 [] (firstN i S) ++
  enc_one b i (last (firstN i S) []) (snth S i) ++
  enc_stream b (i + 1) (snth S i) (skipN (i + 1) S).
Proof.
  intros H.
  transitivity (enc_stream b 0 [] (firstN i S ++ snth S i :: skipN (i + 1) S)).
  - f_equal. apply split_atN. exact H.
  - rewrite enc_stream_app. cbn [enc_stream].
    rewrite lenN_firstN, N.add_0_l by lia. reflexivity.
Qed.

Lemma soff_succ b S i : i < lenN S ->
  soff b S (i + 1) = soff b S i + lenN (enc_one b i (last (firstN i S) []) (snth S i)).
Proof.
  intros H. unfold soff. rewrite firstN_succ by exact H.
  rewrite enc_stream_app, lenN_app. cbn [enc_stream]. rewrite app_nil_r.
  rewrite lenN_firstN, N.add_0_l by lia. reflexivity.
Qed.

Lemma soff_0 b S : soff b S 0 = 0.
Proof. reflexivity. Qed.

Lemma soff_all b S : soff b S (lenN S) = lenN (enc_stream b 0 [] S).
Proof. unfold soff. rewrite firstN_all by lia. reflexivity. Qed.

Lemma stream_header b S i : Forall nul_free S -> i < lenN S -> i mod b = 0 ->
  cstr_at (enc_stream b 0 [] S) (soff b S i) = Some (snth S i) /\
  soff b S (i + 1) = soff b S i + lenN (snth S i) + 1.
Proof.
  intros Hnf Hi Hm. split.
  - rewrite (stream_split b S i Hi). unfold enc_one. rewrite Hm. cbn [N.eqb].
    rewrite <- app_assoc. cbn [app]. unfold soff. apply cstr_at_app.
    rewrite Forall_forall in Hnf. apply Hnf. apply snth_In. exact Hi.
  - rewrite soff_succ by exact Hi. unfold enc_one. rewrite Hm. cbn [N.eqb].
    rewrite lenN_app, lenN_cons. change (@lenN N []) with 0. lia.
Qed.

Lemma stream_step b S i :
  Forall nul_free S -> Forall (fun s => lenN s < 2 ^ 32) S ->
  i + 1 < lenN S -> (i + 1) mod b <> 0 ->
  decode_step (enc_stream b 0 [] S) (soff b S (i + 1), snth S i) =
  Some (soff b S (i + 1 + 1), snth S (i + 1)).
Proof.
  intros Hnf Hlen Hi Hm.
  assert (Hin : In (snth S (i + 1)) S) by (apply snth_In; exact Hi).
  rewrite Forall_forall in Hnf, Hlen.
  rewrite (soff_succ b S (i + 1) Hi).
  rewrite (stream_split b S (i + 1) Hi).
  rewrite last_firstN_succ by lia.
  unfold enc_one. destruct (N.eqb_spec ((i + 1) mod b) 0) as [E|_]; [contradiction|].
  unfold soff. apply decode_step_app; [apply Hnf|apply Hlen]; exact Hin.
Qed.

Lemma stream_step' b S i :
  Forall nul_free S -> Forall (fun s => lenN s < 2 ^ 32) S ->
  i < lenN S -> i mod b <> 0 ->
  decode_step (enc_stream b 0 [] S) (soff b S i, snth S (i - 1)) =
  Some (soff b S (i + 1), snth S i).
Proof.
  intros Hnf Hlen Hi Hm.
  assert (H0 : i <> 0).
  { intros ->. apply Hm. destruct b; reflexivity. }
  replace i with (i - 1 + 1) at 1 3 4 by lia.
  replace (i - 1 + 1 - 1) with (i - 1) by lia.
  apply stream_step; auto; replace (i - 1 + 1) with i by lia; assumption.
Qed.

(* j decode steps after the header of a bucket *)
Lemma iter_decode b S :
  Forall nul_free S -> Forall (fun s => lenN s < 2 ^ 32) S ->
  forall base, base mod b = 0 -> forall j, j < b -> base + j < lenN S ->
  N.iter j (fun o => opt_bind o (decode_step (enc_stream b 0 [] S)))
         (Some (soff b S (base + 1), snth S base)) =
  Some (soff b S (base + j + 1), snth S (base + j)).
Proof.
  intros Hnf Hlen base Hbase j. induction j as [|j IH] using N.peano_ind; intros Hj Hn.
  - unfold N.iter. rewrite N.add_0_r. reflexivity.
  - rewrite N.iter_succ. rewrite IH by lia. cbn [opt_bind].
    replace (base + N.succ j) with (base + j + 1) by lia.
    apply stream_step; auto; [lia|].
    replace (base + j + 1) with (base + (j + 1)) by lia.
    rewrite mod_of_zero_plus by (auto; lia). lia.
Qed.

(* ---------------------------------------------------------------------- *)
(* what [layout_ok] says in stream terms                                   *)
(* ---------------------------------------------------------------------- *)
Lemma layout_text d b S : layout_ok d b S -> 1 <= b -> p_text d = enc_stream b 0 [] S.
Proof.
  intros (_ & _ & _ & Et & _) Hb. rewrite Et. apply chunks_stream. exact Hb.
Qed.

Lemma layout_nbuckets d b S : layout_ok d b S -> 1 <= b ->
  p_buckets d = lenN (chunks b S) /\ p_buckets d = (lenN S + b - 1) / b.
Proof.
  intros (_ & _ & E & _) Hb.
  unfold lenN in E at 1. rewrite map_length in E. fold (lenN (chunks b S)) in E.
  split; [exact E|]. rewrite E. apply chunks_length. exact Hb.
Qed.

(* bucket k exists iff its first string exists *)
Lemma layout_buckets d b S : layout_ok d b S -> 1 <= b ->
  forall k, 1 <= k -> (k <= p_buckets d <-> (k - 1) * b < lenN S).
Proof.
  intros HL Hb k Hk. destruct (layout_nbuckets d b S HL Hb) as [_ E]. rewrite E. clear E.
  assert (Hb0 : b <> 0) by lia.
  pose proof (N.mul_div_le (lenN S + b - 1) b Hb0) as H1.
  split; intros H.
  - assert (b * k <= b * ((lenN S + b - 1) / b)) by (apply N.mul_le_mono_l; exact H). nia.
  - apply N.div_le_lower_bound; [exact Hb0|]. nia.
Qed.

Lemma starts_from_nth : forall cs off j, (j < length cs)%nat ->
  nth_error (starts_from off cs) j = Some (off + lenN (concat (firstn j cs))).
Proof.
  induction cs as [|c r IH]; intros off j H; [cbn [length] in H; lia|].
  destruct j as [|j]; cbn [starts_from nth_error firstn concat].
  - change (@lenN N []) with 0. rewrite N.add_0_r. reflexivity.
  - rewrite IH by (cbn [length] in H; lia). rewrite lenN_app, N.add_assoc. reflexivity.
Qed.

(* soff at a bucket boundary, in the vocabulary of PFCLayout.v *)
Lemma soff_chunks b S j : 1 <= b ->
  soff b S (j * b) = lenN (concat (firstN j (map enc_bucket (chunks b S)))).
Proof.
  intros Hb. unfold soff.
  unfold firstN at 2. rewrite firstn_map. fold (firstN j (chunks b S)).
  rewrite chunks_firstN by exact Hb.
  destruct (chunks_stream b (firstN (j * b) S) Hb) as [E _]. rewrite E. reflexivity.
Qed.

Lemma layout_bl d b S : layout_ok d b S -> 1 <= b ->
  forall k, 1 <= k <= p_buckets d -> nthN (p_bl d) k = Some (soff b S ((k - 1) * b)).
Proof.
  intros HL Hb k Hk. pose proof HL as (_ & _ & En & _ & Ebl).
  rewrite Ebl. rewrite nthN_cons_pos by lia.
  rewrite nthN_app_l by (rewrite starts_from_length; lia).
  unfold nthN. rewrite starts_from_nth by (unfold lenN in *; lia).
  rewrite N.add_0_l. f_equal. symmetry. apply soff_chunks. exact Hb.
Qed.

(* the entry after the last bucket is the text length *)
Lemma layout_bl_last d b S : layout_ok d b S ->
  nthN (p_bl d) (p_buckets d + 1) = Some (lenN (p_text d)).
Proof.
  intros (_ & _ & En & Et & Ebl). rewrite Ebl, Et, En.
  rewrite nthN_cons_pos by lia.
  rewrite nthN_app_r by (rewrite starts_from_length; lia).
  rewrite starts_from_length.
  replace (lenN (map enc_bucket (chunks b S)) + 1 - 1 - lenN (map enc_bucket (chunks b S))) with 0 by lia.
  reflexivity.
Qed.

Lemma layout_bl_0 d b S : layout_ok d b S -> nthN (p_bl d) 0 = Some 0.
Proof. intros (_ & _ & _ & _ & Ebl). rewrite Ebl. reflexivity. Qed.

Lemma bucket_base_mod k b : b <> 0 -> ((k - 1) * b) mod b = 0.
Proof. intros Hb. apply N.mod_mul. exact Hb. Qed.

(* ---------------------------------------------------------------------- *)
(* getHeader                                                               *)
(* ---------------------------------------------------------------------- *)
Theorem get_header_spec_gen d b S : layout_ok d b S -> 1 <= b -> Forall nul_free S ->
  forall k, 1 <= k <= p_buckets d ->
  (k - 1) * b < lenN S /\
  nthN (p_bl d) k = Some (soff b S ((k - 1) * b)) /\
  get_header d k = Some (soff b S ((k - 1) * b + 1), snth S ((k - 1) * b)) /\
  soff b S ((k - 1) * b + 1) = soff b S ((k - 1) * b) + lenN (snth S ((k - 1) * b)) + 1.
Proof.
  intros HL Hb Hnf k Hk.
  assert (Hlt : (k - 1) * b < lenN S) by (apply (layout_buckets d b S HL Hb k); lia).
  pose proof (layout_bl d b S HL Hb k Hk) as Ebl.
  destruct (stream_header b S ((k - 1) * b) Hnf Hlt (bucket_base_mod k b ltac:(lia))) as [Ec Eo].
  repeat split; try assumption.
  unfold get_header. rewrite Ebl, (layout_text d b S HL Hb), Ec, Eo. reflexivity.
Qed.

(* the statement in the vocabulary of PFCLayout.v: start of chunk k, header of chunk k *)
Lemma snth_chunk_head b S k : 1 <= b -> 1 <= k -> (k - 1) * b < lenN S ->
  nthN (chunks b S) (k - 1) = Some (firstN b (skipN ((k - 1) * b) S)) /\
  hd [] (firstN b (skipN ((k - 1) * b) S)) = snth S ((k - 1) * b).
Proof.
  intros Hb Hk Hlt. split.
  - generalize (k - 1) Hlt. clear k Hk Hlt. intros j. revert S.
    induction j as [|j IH] using N.peano_ind; intros S Hlt.
    + rewrite chunks_unfold by (try intros ->; cbn in *; lia). reflexivity.
    + rewrite chunks_unfold by (try intros ->; cbn in *; lia).
      rewrite nthN_cons_pos by lia. replace (N.succ j - 1) with j by lia.
      rewrite IH by (rewrite lenN_skipN; nia).
      do 2 f_equal. unfold skipN. rewrite skipn_skipn'. f_equal. lia.
  - rewrite skipN_cons_snth by exact Hlt.
    unfold firstN. destruct (N.to_nat b) eqn:E; [lia|]. reflexivity.
Qed.

Theorem get_header_spec d b S : layout_ok d b S -> 2 <= b -> pfc_input S ->
  forall k, 1 <= k <= p_buckets d ->
  exists off c h,
    nthN (p_bl d) k = Some off /\
    off = lenN (concat (firstN (k - 1) (map enc_bucket (chunks b S)))) /\
    nthN (chunks b S) (k - 1) = Some c /\ h = hd [] c /\
    get_header d k = Some (off + lenN h + 1, h).
Proof.
  intros HL Hb (_ & Hnf & _) k Hk.
  destruct (get_header_spec_gen d b S HL ltac:(lia) Hnf k Hk) as (Hlt & Ebl & Eh & Eo).
  destruct (snth_chunk_head b S k ltac:(lia) ltac:(lia) Hlt) as [Ec Ehd].
  exists (soff b S ((k - 1) * b)), (firstN b (skipN ((k - 1) * b) S)), (snth S ((k - 1) * b)).
  repeat split; auto.
  - apply soff_chunks. lia.
  - rewrite Eh, Eo. reflexivity.
Qed.

(* ---------------------------------------------------------------------- *)
(* extract                                                                 *)
(* ---------------------------------------------------------------------- *)
Lemma W32m_small x : x < 2 ^ 32 -> W32m x = x.
Proof. intros H. unfold W32m. apply N.mod_small. exact H. Qed.

Theorem pfc_extract_spec_gen d b S : layout_ok d b S -> 1 <= b ->
  Forall nul_free S -> Forall (fun s => lenN s < 2 ^ 32) S -> lenN S < 2 ^ 32 ->
  forall id, pfc_extract d id = Some (spec_extract S id).
Proof.
  intros HL Hb Hnf Hlen Hn id.
  pose proof HL as (Ee & Eb & _).
  unfold pfc_extract. rewrite Ee, Eb.
  destruct (N.ltb_spec 0 id) as [H0|H0]; cbn [andb].
  2:{ rewrite spec_extract_out_of_range by lia. reflexivity. }
  destruct (N.leb_spec id (lenN S)) as [H1|H1].
  2:{ rewrite spec_extract_out_of_range by lia. reflexivity. }
  assert (Hb0 : b <> 0) by lia.
  pose proof (N.div_mod (id - 1) b Hb0) as Hdm.
  pose proof (N.mod_lt (id - 1) b Hb0) as Hml.
  assert (Hq : (id - 1) / b <= id - 1) by (apply N.div_le_upper_bound; nia).
  pose proof (N.mod_le (id - 1) b Hb0) as Hr.
  rewrite (W32m_small (1 + (id - 1) / b)) by lia.
  rewrite (W32m_small ((id - 1) mod b)) by lia.
  set (q := (id - 1) / b) in *. set (r := (id - 1) mod b) in *.
  assert (Hbase : (1 + q - 1) * b + r = id - 1) by (replace (1 + q - 1) with q by lia; lia).
  assert (Hk : 1 <= 1 + q <= p_buckets d).
  { split; [lia|]. apply (layout_buckets d b S HL Hb); lia. }
  destruct (get_header_spec_gen d b S HL Hb Hnf (1 + q) Hk) as (Hlt & _ & Eh & _).
  rewrite Eh. rewrite (layout_text d b S HL Hb).
  rewrite (iter_decode b S Hnf Hlen ((1 + q - 1) * b) (bucket_base_mod (1 + q) b Hb0) r Hml)
    by lia.
  rewrite Hbase. unfold spec_extract.
  destruct (N.eqb_spec id 0); [lia|].
  rewrite nthN_snth by lia. reflexivity.
Qed.

Theorem pfc_extract_spec d b S : layout_ok d b S -> 2 <= b -> pfc_input S ->
  forall id, pfc_extract d id = Some (spec_extract S id).
Proof.
  intros HL Hb (_ & Hnf & _ & Hlen & Hn). apply (pfc_extract_spec_gen d b S); auto. lia.
Qed.

(* the memory-error result is unreachable; ids outside [1,n] give NULL *)
Corollary pfc_extract_safe d b S : layout_ok d b S -> 2 <= b -> pfc_input S ->
  forall id, pfc_extract d id <> None.
Proof. intros HL Hb HS id. rewrite (pfc_extract_spec d b S HL Hb HS). discriminate. Qed.

Corollary pfc_extract_in_range d b S : layout_ok d b S -> 2 <= b -> pfc_input S ->
  forall id, 1 <= id <= lenN S -> exists s, pfc_extract d id = Some (Some s) /\ nthN S (id - 1) = Some s.
Proof.
  intros HL Hb HS id Hid. rewrite (pfc_extract_spec d b S HL Hb HS).
  unfold spec_extract. destruct (N.eqb_spec id 0); [lia|].
  exists (snth S (id - 1)). rewrite nthN_snth by lia. auto.
Qed.

Corollary pfc_extract_out_of_range d b S : layout_ok d b S -> 2 <= b -> pfc_input S ->
  forall id, id = 0 \/ lenN S < id -> pfc_extract d id = Some None.
Proof.
  intros HL Hb HS id Hid. rewrite (pfc_extract_spec d b S HL Hb HS).
  rewrite spec_extract_out_of_range by exact Hid. reflexivity.
Qed.

(* ---------------------------------------------------------------------- *)
(* the iterator                                                            *)
(* ---------------------------------------------------------------------- *)
(* [i] = number of the string the next call to next() hands out; [c] = calls left *)
Record iter_inv (b : N) (S : list str) (it : pfc_iter) (i c : N) : Prop := {
  inv_ptr : i_ptr it = soff b S i;
  inv_pos : i_pos it mod b = i mod b;
  inv_cur : i mod b <> 0 -> i_cur it = snth S (i - 1);
  inv_bs : i_bsize it = b;
  inv_cnt : i_processed it + c = i_scanneable it }.

Lemma iter_next_inv b S it i c :
  1 <= b -> Forall nul_free S -> Forall (fun s => lenN s < 2 ^ 32) S ->
  iter_inv b S it i (c + 1) -> i < lenN S ->
  exists it', iter_next (enc_stream b 0 [] S) it = Some (snth S i, it') /\
              iter_inv b S it' (i + 1) c.
Proof.
  intros Hb Hnf Hlen [Hptr Hpos Hcur Hbs Hcnt] Hi.
  assert (Hb0 : b <> 0) by lia.
  unfold iter_next. rewrite Hbs, Hpos, Hptr.
  destruct (N.eqb_spec (i mod b) 0) as [Hm|Hm].
  - destruct (stream_header b S i Hnf Hi Hm) as [Ec Eo].
    rewrite Ec. eexists. split; [reflexivity|].
    constructor; cbn [i_ptr i_pos i_cur i_processed i_scanneable i_bsize].
    + rewrite Eo. reflexivity.
    + change (0 + 1) with 1.
      rewrite (N.add_mod i 1 b Hb0), Hm, N.add_0_l, N.mod_mod by exact Hb0. reflexivity.
    + intros _. f_equal. lia.
    + reflexivity.
    + lia.
  - rewrite (Hcur Hm). rewrite (stream_step' b S i Hnf Hlen Hi Hm).
    eexists. split; [reflexivity|].
    constructor; cbn [i_ptr i_pos i_cur i_processed i_scanneable i_bsize].
    + reflexivity.
    + rewrite (N.add_mod (i_pos it) 1 b Hb0), (N.add_mod i 1 b Hb0), Hpos. reflexivity.
    + intros _. f_equal. lia.
    + reflexivity.
    + lia.
Qed.

Lemma iter_drain_inv b S :
  1 <= b -> Forall nul_free S -> Forall (fun s => lenN s < 2 ^ 32) S ->
  forall c it i, iter_inv b S it i (N.of_nat c) -> i + N.of_nat c <= lenN S ->
  iter_drain c (enc_stream b 0 [] S) it = Some (firstn c (skipN i S)).
Proof.
  intros Hb Hnf Hlen. induction c as [|c IH]; intros it i Hinv Hi.
  - destruct Hinv as [_ _ _ _ Hcnt]. cbn [iter_drain firstn]. unfold iter_has_next.
    destruct (N.ltb_spec (i_processed it) (i_scanneable it)); [lia|reflexivity].
  - cbn [iter_drain]. unfold iter_has_next.
    destruct (N.ltb_spec (i_processed it) (i_scanneable it)) as [_|Hge];
      [|destruct Hinv as [_ _ _ _ Hcnt]; lia].
    replace (N.of_nat (Datatypes.S c)) with (N.of_nat c + 1) in Hinv by lia.
    destruct (iter_next_inv b S it i (N.of_nat c) Hb Hnf Hlen Hinv ltac:(lia)) as (it' & En & Hinv').
    rewrite En. rewrite (IH it' (i + 1) Hinv') by lia.
    rewrite (skipN_cons_snth S i) by lia. reflexivity.
Qed.

Lemma iter_init_inv d b S : layout_ok d b S -> 1 <= b ->
  Forall nul_free S -> Forall (fun s => lenN s < 2 ^ 32) S ->
  forall k offset count, 1 <= k <= p_buckets d -> offset < b ->
  (k - 1) * b + offset + count <= lenN S ->
  exists it, iter_init (enc_stream b 0 [] S) (soff b S ((k - 1) * b)) offset b count = Some it /\
             iter_inv b S it ((k - 1) * b + offset) count.
Proof.
  intros HL Hb Hnf Hlen k offset count Hk Hoff Hrange.
  assert (Hb0 : b <> 0) by lia.
  pose proof (bucket_base_mod k b Hb0) as Hbase.
  assert (Hlt : (k - 1) * b < lenN S) by (apply (layout_buckets d b S HL Hb k); lia).
  unfold iter_init. destruct (N.ltb_spec 0 offset) as [Hpos|Hz].
  - destruct (stream_header b S ((k - 1) * b) Hnf Hlt Hbase) as [Ec Eo].
    rewrite Ec, <- Eo.
    rewrite (iter_decode b S Hnf Hlen ((k - 1) * b) Hbase (offset - 1)) by lia.
    eexists. split; [reflexivity|].
    constructor; cbn [i_ptr i_pos i_cur i_processed i_scanneable i_bsize].
    + f_equal. lia.
    + rewrite mod_of_zero_plus by assumption. apply N.mod_small. exact Hoff.
    + intros _. f_equal. clear - Hpos. generalize ((k - 1) * b). intros. lia.
    + reflexivity.
    + lia.
  - assert (offset = 0) by lia. subst offset.
    eexists. split; [reflexivity|].
    constructor; cbn [i_ptr i_pos i_cur i_processed i_scanneable i_bsize].
    + rewrite N.add_0_r. reflexivity.
    + rewrite N.add_0_r, Hbase. apply N.mod_0_l. exact Hb0.
    + rewrite N.add_0_r. intros H. contradiction.
    + reflexivity.
    + lia.
Qed.

(* an iterator started in bucket k at in-bucket position `offset` and asked for
   `count` strings hands out exactly S[(k-1)b+offset .. (k-1)b+offset+count) *)
Theorem iter_scan_spec_gen d b S : layout_ok d b S -> 1 <= b ->
  Forall nul_free S -> Forall (fun s => lenN s < 2 ^ 32) S ->
  forall k offset count, 1 <= k <= p_buckets d -> offset < b ->
  (k - 1) * b + offset + count <= lenN S ->
  exists ptrS it,
    nthN (p_bl d) k = Some ptrS /\
    iter_init (p_text d) ptrS offset b count = Some it /\
    iter_drain (N.to_nat count) (p_text d) it =
      Some (firstN count (skipN ((k - 1) * b + offset) S)).
Proof.
  intros HL Hb Hnf Hlen k offset count Hk Hoff Hrange.
  destruct (iter_init_inv d b S HL Hb Hnf Hlen k offset count Hk Hoff Hrange) as (it & Ei & Hinv).
  exists (soff b S ((k - 1) * b)), it.
  rewrite (layout_text d b S HL Hb).
  split; [apply (layout_bl d b S HL Hb k Hk)|]. split; [exact Ei|].
  apply iter_drain_inv; auto; rewrite N2Nat.id; assumption.
Qed.

Theorem iter_scan_spec d b S : layout_ok d b S -> 2 <= b -> pfc_input S ->
  forall k offset count, 1 <= k <= p_buckets d -> offset < b ->
  (k - 1) * b + offset + count <= lenN S ->
  exists ptrS it,
    nthN (p_bl d) k = Some ptrS /\
    iter_init (p_text d) ptrS offset (p_bsize d) count = Some it /\
    iter_drain (N.to_nat count) (p_text d) it =
      Some (firstN count (skipN ((k - 1) * b + offset) S)).
Proof.
  intros HL Hb (_ & Hnf & _ & Hlen & _). pose proof HL as (_ & Eb & _). rewrite Eb.
  apply iter_scan_spec_gen; auto. lia.
Qed.

(* the iterator part of extractPrefix: for limits 1 <= lft <= rgt <= n handed over by
   locatePrefix, the iterator built there yields exactly the strings lft .. rgt *)
Theorem iter_range_spec d b S : layout_ok d b S -> 2 <= b -> pfc_input S ->
  forall lft rgt, 1 <= lft -> lft <= rgt -> rgt <= lenN S ->
  match nthN (p_bl d) (W32m (1 + (lft - 1) / p_bsize d)) with
  | None => None
  | Some ptrS =>
      match iter_init (p_text d) ptrS (W32m ((lft - 1) mod p_bsize d)) (p_bsize d) (rgt - lft + 1) with
      | None => None
      | Some it => option_map Some (iter_drain (N.to_nat (rgt - lft + 1)) (p_text d) it)
      end
  end = Some (Some (firstN (rgt - lft + 1) (skipN (lft - 1) S))).
Proof.
  intros HL Hb HS lft rgt H1 H2 H3.
  pose proof HS as (_ & _ & _ & _ & Hn). pose proof HL as (_ & Eb & _). rewrite Eb.
  assert (Hb0 : b <> 0) by lia.
  pose proof (N.div_mod (lft - 1) b Hb0) as Hdm.
  pose proof (N.mod_lt (lft - 1) b Hb0) as Hml.
  pose proof (N.mod_le (lft - 1) b Hb0) as Hr.
  assert (Hq : (lft - 1) / b <= lft - 1) by (apply N.div_le_upper_bound; nia).
  rewrite (W32m_small (1 + (lft - 1) / b)) by lia.
  rewrite (W32m_small ((lft - 1) mod b)) by lia.
  set (q := (lft - 1) / b) in *. set (r := (lft - 1) mod b) in *.
  assert (Hbase : (1 + q - 1) * b + r = lft - 1) by (replace (1 + q - 1) with q by lia; lia).
  assert (Hk : 1 <= 1 + q <= p_buckets d).
  { split; [lia|]. apply (layout_buckets d b S HL ltac:(lia)); lia. }
  destruct (iter_scan_spec d b S HL Hb HS (1 + q) r (rgt - lft + 1) Hk Hml ltac:(lia))
    as (ptrS & it & E1 & E2 & E3).
  rewrite Eb in E2. rewrite E1, E2, E3, Hbase. reflexivity.
Qed.

(* ---------------------------------------------------------------------- *)
(* extractTable                                                            *)
(* ---------------------------------------------------------------------- *)
Theorem pfc_extract_table_spec_gen d b S : layout_ok d b S -> 1 <= b -> S <> [] ->
  Forall nul_free S -> Forall (fun s => lenN s < 2 ^ 32) S ->
  pfc_extract_table d = Some S.
Proof.
  intros HL Hb HS Hnf Hlen. pose proof HL as (Ee & Eb & _).
  assert (Hn : 0 < lenN S) by (destruct S; [congruence|rewrite lenN_cons; lia]).
  assert (Hk : 1 <= 1 <= p_buckets d).
  { split; [lia|]. apply (layout_buckets d b S HL Hb 1); lia. }
  destruct (iter_scan_spec_gen d b S HL Hb Hnf Hlen 1 0 (lenN S) Hk ltac:(lia) ltac:(lia))
    as (ptrS & it & E1 & E2 & E3).
  unfold pfc_extract_table. rewrite E1, Eb, Ee, E2, E3.
  f_equal. replace ((1 - 1) * b + 0) with 0 by lia.
  rewrite skipN_0. apply firstN_all. lia.
Qed.

Theorem pfc_extract_table_spec d b S : layout_ok d b S -> 2 <= b -> pfc_input S ->
  pfc_extract_table d = Some S.
Proof.
  intros HL Hb (HS & Hnf & _ & Hlen & _). apply (pfc_extract_table_spec_gen d b S); auto. lia.
Qed.

(* ---------------------------------------------------------------------- *)
(* corollaries for the dictionary the constructor builds                   *)
(* ---------------------------------------------------------------------- *)
Theorem pfc_extract_built S : pfc_input S ->
  forall b0 id, pfc_extract (pfc_build b0 S) id = Some (spec_extract S id).
Proof.
  intros HS b0 id.
  apply (pfc_extract_spec _ (clamp_bsize b0) S); [apply pfc_build_layout_gen|apply clamp_bsize_ge2|exact HS].
Qed.

Theorem pfc_table_built S : pfc_input S ->
  forall b0, pfc_extract_table (pfc_build b0 S) = Some S.
Proof.
  intros HS b0.
  apply (pfc_extract_table_spec _ (clamp_bsize b0) S); [apply pfc_build_layout_gen|apply clamp_bsize_ge2|exact HS].
Qed.

Theorem get_header_built S : pfc_input S -> forall b0 k, 1 <= k <= p_buckets (pfc_build b0 S) ->
  exists off c h,
    nthN (p_bl (pfc_build b0 S)) k = Some off /\
    off = lenN (concat (firstN (k - 1) (map enc_bucket (chunks (clamp_bsize b0) S)))) /\
    nthN (chunks (clamp_bsize b0) S) (k - 1) = Some c /\ h = hd [] c /\
    get_header (pfc_build b0 S) k = Some (off + lenN h + 1, h).
Proof.
  intros HS b0 k Hk.
  apply (get_header_spec _ (clamp_bsize b0) S); [apply pfc_build_layout_gen|apply clamp_bsize_ge2|exact HS|exact Hk].
Qed.

Theorem iter_scan_built S : pfc_input S -> forall b0 k offset count,
  1 <= k <= p_buckets (pfc_build b0 S) -> offset < clamp_bsize b0 ->
  (k - 1) * clamp_bsize b0 + offset + count <= lenN S ->
  exists ptrS it,
    nthN (p_bl (pfc_build b0 S)) k = Some ptrS /\
    iter_init (p_text (pfc_build b0 S)) ptrS offset (p_bsize (pfc_build b0 S)) count = Some it /\
    iter_drain (N.to_nat count) (p_text (pfc_build b0 S)) it =
      Some (firstN count (skipN ((k - 1) * clamp_bsize b0 + offset) S)).
Proof.
  intros HS b0 k offset count Hk Ho Hr.
  apply (iter_scan_spec _ (clamp_bsize b0) S); auto; [apply pfc_build_layout_gen|apply clamp_bsize_ge2].
Qed.

(* ---------------------------------------------------------------------- *)
(* the hypotheses are satisfiable: the concrete input of PFCBuildProofs.v  *)
(* (7 strings sharing prefixes, b = 3: two full buckets and a partial one)  *)
(* ---------------------------------------------------------------------- *)
Example ex_extract : forall id, pfc_extract (pfc_build 3 ex_S) id = Some (spec_extract ex_S id).
Proof. exact (pfc_extract_spec (pfc_build 3 ex_S) 3 ex_S ex_S_layout ltac:(lia) ex_S_input). Qed.

Example ex_table : pfc_extract_table (pfc_build 3 ex_S) = Some ex_S.
Proof. exact (pfc_extract_table_spec (pfc_build 3 ex_S) 3 ex_S ex_S_layout ltac:(lia) ex_S_input). Qed.

(* the same by plain computation *)
Example ex_extract_compute :
  map (pfc_extract (pfc_build 3 ex_S)) [0; 1; 2; 3; 4; 5; 6; 7; 8] =
  map (fun id => Some (spec_extract ex_S id)) [0; 1; 2; 3; 4; 5; 6; 7; 8] /\
  pfc_extract_table (pfc_build 3 ex_S) = Some ex_S.
Proof. vm_compute. split; reflexivity. Qed.
