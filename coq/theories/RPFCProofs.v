(* StringDictionaryRPFC (model RPFCDefs.v) answers every query as the specification does, on every
   object that has the layout [rpfc_layout_ok] (certified per real object by the verified checker
   [rpfc_layout_chk]); the memory-error / fuel results [None] of the model are unreachable.

   Flat view (as in the PFC proofs): string number i (0-based) is a bucket header iff i mod b = 0;
   [E i] is the bit position at which the encoding of string i ENDS (for a header: the byte after its
   NUL, offset 0).  Two facts drive everything:
     header : a C-string read at the start of bucket k returns snth S ((k-1)*b) and ends at E ((k-1)*b);
     step   : decode_string at E i with decoded = snth S i returns snth S (i+1), lcp, and E (i+1)
              (theorem [rpfc_decode_string_spec]). *)
From LibCSD Require Import Base VByteDefs VByteProofs Spec SpecProofs PFCDefs PFCLayout LexLemmas
  PFCBuildProofs PFCExtractProofs PFCLocateProofs PFCTheorems PFCPrefixProofs
  RePairDefs RePairProofs RPDACDefs RPDACProofs RPFCDefs.
From Coq Require Import Lia ZifyBool ZifyNat ZifyN.
Ltac Zify.zify_post_hook ::= Z.to_euclidean_division_equations.
Local Open Scope N_scope.

(* ====================================================================== *)
(* A. the layout of a well-formed object                                   *)
(* ====================================================================== *)
(* the symbols decodeSymbol reads from p are exactly [syms]; the stream then stands at the result *)
Fixpoint read_syms (d : rpfc) (p : bpos) (syms : list N) : option bpos :=
  match syms with
  | [] => Some p
  | s :: r =>
      match decode_symbol d p with
      | Some (s', p1) => if s' =? s then read_syms d p1 r else None
      | None => None
      end
  end.

(* byte offset of a bucket header: the first bucket starts at 0, every other one at the next byte
   boundary after the last internal string of its predecessor (the constructor's
   `if (offset > 0) bytesStrings++`; the iterator relies on it) *)
Definition hdr_off (i : N) (ppos : bpos) : N := if i =? 0 then 0 else align_pos ppos.

(* string number i, whose predecessor is [prev] and whose predecessor's encoding ends at [ppos] *)
Definition item_ok (d : rpfc) (b i : N) (prev cur : str) (ppos epos : bpos) : Prop :=
  lenN cur < r_maxlength d /\
  if i mod b =? 0 then
    nthN (r_bl d) (i / b + 1) = Some (hdr_off i ppos) /\
    (exists rest, text_at (r_text d) (hdr_off i ppos) (cur ++ 0 :: rest)) /\
    epos = (hdr_off i ppos + lenN cur + 1, 0)
  else
    exists syms, read_syms d ppos syms = Some epos /\
      expand_list (r_rules d) (r_t d) (length (r_rules d)) syms = Some (enc_rp prev cur) /\
      vb_cap (r_rules d) (r_t d) (r_maxlength d) syms = true.

Definition grammar_ok (d : rpfc) : Prop :=
  1 <= r_t d <= 256 /\ rules_wf (r_t d) (r_rules d) /\ r_t d + lenN (r_rules d) < 2 ^ 31 /\ r_maxchar d = 255.

Definition stream_ok (d : rpfc) (b : N) (S : list str) (E : N -> bpos) : Prop :=
  forall i, i < lenN S -> item_ok d b i (snth S (i - 1)) (snth S i) (E (i - 1)) (E i).

Definition rpfc_layout_ok (d : rpfc) (b : N) (S : list str) : Prop :=
  r_bsize d = b /\ r_elements d = lenN S /\ r_buckets d = (lenN S + b - 1) / b /\
  grammar_ok d /\ exists E, stream_ok d b S E.

(* inputs: as for PFC, plus: no byte 255 (the end mark) and lengths below 2^14 (decodeString
   fetches only two bytes of the VByte of the shared-prefix length: see rpfc_vbyte3_refuted) *)
Definition rpfc_input (S : list str) : Prop :=
  pfc_input S /\ Forall (Forall (fun c => c <> 255)) S /\ Forall (fun s => lenN s < 2 ^ 14) S.

(* ====================================================================== *)
(* B. the checker is sound                                                 *)
(* ====================================================================== *)
Lemma read_until_eq fuel d p want acc syms :
  read_until fuel d p want acc syms =
  if want <=? lenN acc then Some (p, acc, syms)
  else match fuel with
       | O => None
       | S f =>
           match decode_symbol d p with
           | None => None
           | Some (sym, p') =>
               match expand_sym (r_rules d) (r_t d) (length (r_rules d)) sym with
               | None => None
               | Some x => read_until f d p' want (acc ++ x) (syms ++ [sym])
               end
           end
       end.
Proof. destruct fuel; reflexivity. Qed.

Lemma read_syms_app d : forall u v p,
  read_syms d p (u ++ v) = match read_syms d p u with Some p1 => read_syms d p1 v | None => None end.
Proof.
  induction u as [|a u IH]; intros v p; cbn [app read_syms]; [reflexivity|].
  destruct (decode_symbol d p) as [[s' p1]|]; [|reflexivity].
  destruct (s' =? a); [apply IH|reflexivity].
Qed.

Lemma read_until_spec d want : forall fuel p acc syms0 e bytes syms,
  read_until fuel d p want acc syms0 = Some (e, bytes, syms) ->
  exists new x, syms = syms0 ++ new /\ read_syms d p new = Some e /\
    expand_list (r_rules d) (r_t d) (length (r_rules d)) new = Some x /\ bytes = acc ++ x.
Proof.
  induction fuel as [|f IH]; intros p acc syms0 e bytes syms H; rewrite read_until_eq in H.
  - destruct (want <=? lenN acc); [|discriminate]. inversion H; subst.
    exists [], []. rewrite !app_nil_r. repeat split; reflexivity.
  - destruct (want <=? lenN acc).
    + inversion H; subst. exists [], []. rewrite !app_nil_r. repeat split; reflexivity.
    + destruct (decode_symbol d p) as [[sym p']|] eqn:Ed; [|discriminate].
      destruct (expand_sym (r_rules d) (r_t d) (length (r_rules d)) sym) as [x|] eqn:Ex; [|discriminate].
      destruct (IH _ _ _ _ _ _ H) as (new & y & E1 & E2 & E3 & E4).
      exists (sym :: new), (x ++ y). split; [rewrite E1, <- app_assoc; reflexivity|].
      split; [cbn [read_syms]; rewrite Ed, N.eqb_refl; exact E2|].
      split; [rewrite expand_list_cons, Ex, E3; reflexivity|].
      rewrite E4, app_assoc. reflexivity.
Qed.

Lemma prefix_eqb_sound : forall a t, prefix_eqb a t = true -> exists r, t = a ++ r.
Proof.
  induction a as [|x a IH]; intros t H; cbn [prefix_eqb] in H; [exists t; reflexivity|].
  destruct t as [|y t]; [discriminate|]. apply andb_true_iff in H. destruct H as [H1 H2].
  apply N.eqb_eq in H1. subst y. destruct (IH _ H2) as [r ->]. exists r. reflexivity.
Qed.

Lemma trace_from_sound d b : forall ss i prev ppos tr,
  trace_from d b i prev ppos ss = Some tr ->
  length tr = length ss /\
  forall j, (j < length ss)%nat ->
    item_ok d b (i + N.of_nat j) (nth j (prev :: ss) []) (nth j ss []) (nth j (ppos :: tr) (0, 0)) (nth j tr (0, 0)).
Proof.
  induction ss as [|s r IH]; intros i prev ppos tr H; cbn [trace_from] in H.
  - inversion H; subst. split; [reflexivity|]. intros j Hj. cbn [length] in Hj. lia.
  - assert (Hgen : forall e, item_ok d b i prev s ppos e ->
              option_map (cons e) (trace_from d b (i + 1) s e r) = Some tr ->
              length tr = length (s :: r) /\
              forall j, (j < length (s :: r))%nat ->
                item_ok d b (i + N.of_nat j) (nth j (prev :: s :: r) []) (nth j (s :: r) [])
                        (nth j (ppos :: tr) (0, 0)) (nth j tr (0, 0))).
    { intros e He Hm. destruct (trace_from d b (i + 1) s e r) as [tr'|] eqn:Et; [|discriminate].
      cbn [option_map] in Hm. inversion Hm; subst tr. destruct (IH _ _ _ _ Et) as [Hl Hit].
      split; [cbn [length]; lia|]. intros j Hj. destruct j as [|j].
      - cbn [nth]. rewrite N.add_0_r. exact He.
      - cbn [length] in Hj. specialize (Hit j ltac:(lia)).
        replace (i + N.of_nat (Datatypes.S j)) with (i + 1 + N.of_nat j) by lia.
        change (nth (Datatypes.S j) (prev :: s :: r) []) with (nth j (s :: r) []).
        change (nth (Datatypes.S j) (s :: r) []) with (nth j r []).
        change (nth (Datatypes.S j) (ppos :: e :: tr') (0, 0)) with (nth j (e :: tr') (0, 0)).
        change (nth (Datatypes.S j) (e :: tr') (0, 0)) with (nth j tr' (0, 0)).
        exact Hit. }
    destruct (i mod b =? 0) eqn:Em.
    + destruct (nthN (r_bl d) (i / b + 1)) as [off|] eqn:Eo; [|discriminate].
      destruct ((off =? (if i =? 0 then 0 else align_pos ppos)) && (off <=? lenN (r_text d)) &&
                prefix_eqb (s ++ [0]) (skipN off (r_text d)) && (lenN s <? r_maxlength d)) eqn:Ec; [|discriminate].
      apply andb_true_iff in Ec. destruct Ec as [Ec Hml]. apply andb_true_iff in Ec. destruct Ec as [Ec Hpre].
      apply andb_true_iff in Ec. destruct Ec as [Hoff Hle].
      apply N.eqb_eq in Hoff. apply N.leb_le in Hle. apply N.ltb_lt in Hml.
      fold (hdr_off i ppos) in Hoff. subst off.
      refine (Hgen _ _ H). unfold item_ok. rewrite Em. split; [exact Hml|].
      split; [exact Eo|]. split; [|reflexivity].
      destruct (prefix_eqb_sound _ _ Hpre) as [rest Er]. exists rest. split; [exact Hle|].
      rewrite Er, <- app_assoc. reflexivity.
    + destruct (read_until (length (enc_rp prev s)) d ppos (lenN (enc_rp prev s)) [] []) as [[[e bytes] syms]|] eqn:Er;
        [|discriminate].
      destruct (list_eqb bytes (enc_rp prev s) && vb_cap (r_rules d) (r_t d) (r_maxlength d) syms &&
                (lenN s <? r_maxlength d)) eqn:Ec; [|discriminate].
      apply andb_true_iff in Ec. destruct Ec as [Ec Hml]. apply andb_true_iff in Ec. destruct Ec as [Heq Hcap].
      apply list_eqb_eq in Heq. apply N.ltb_lt in Hml.
      destruct (read_until_spec _ _ _ _ _ _ _ _ _ Er) as (new & x & E1 & E2 & E3 & E4).
      cbn [app] in E1, E4. subst syms bytes x.
      refine (Hgen _ _ H). unfold item_ok. rewrite Em. split; [exact Hml|].
      exists new. repeat split; assumption.
Qed.

Lemma item_ok_first d b prev prev' cur ppos ppos' e :
  item_ok d b 0 prev cur ppos e -> item_ok d b 0 prev' cur ppos' e.
Proof.
  unfold item_ok. assert (E0 : 0 mod b = 0) by (destruct b; reflexivity).
  rewrite E0. cbn [N.eqb]. unfold hdr_off. cbn [N.eqb]. auto.
Qed.

Theorem rpfc_layout_chk_sound d S :
  rpfc_layout_chk d S = true -> rpfc_layout_ok d (r_bsize d) S /\ 1 <= r_bsize d.
Proof.
  unfold rpfc_layout_chk. intros H.
  repeat (apply andb_true_iff in H; let H' := fresh "C" in destruct H as [H H']).
  destruct (trace_from d (r_bsize d) 0 [] (0, 0) S) as [tr|] eqn:Et; [|discriminate].
  apply N.leb_le in H. apply N.eqb_eq in C6, C5, C0. apply N.leb_le in C4, C3. apply N.ltb_lt in C1.
  split; [|exact H]. split; [reflexivity|]. split; [exact C6|]. split; [exact C5|].
  split.
  { split; [lia|]. split; [|split; assumption].
    intros i a c Hi. pose proof (rules_ok_from_spec _ _ _ C2 _ _ _ Hi) as Hr.
    rewrite N.add_0_l in Hr. exact Hr. }
  destruct (trace_from_sound _ _ _ _ _ _ _ Et) as [Hl Hit].
  exists (fun k => nth (N.to_nat k) tr (0, 0)). intros i Hi.
  specialize (Hit (N.to_nat i) ltac:(unfold lenN in Hi; lia)).
  rewrite N.add_0_l, N2Nat.id in Hit. fold (snth S i) in Hit.
  destruct (N.eq_dec i 0) as [->|Hne].
  - eapply item_ok_first. exact Hit.
  - replace (N.to_nat i) with (Datatypes.S (N.to_nat (i - 1))) in Hit at 1 2 by lia.
    cbn [nth] in Hit. exact Hit.
Qed.

Lemma rpfc_inputb_sound S : rpfc_inputb S = true -> rpfc_input S.
Proof.
  unfold rpfc_inputb. intros H.
  repeat (apply andb_true_iff in H; let H' := fresh "C" in destruct H as [H H']).
  rewrite forallb_forall in C2, C0.
  split; [|split].
  - split; [destruct S; [discriminate|congruence]|].
    split; [apply Forall_forall; intros s Hs; apply Forall_forall; intros c Hc;
            pose proof (C2 s Hs) as H1; rewrite forallb_forall in H1; specialize (H1 c Hc);
            apply andb_true_iff in H1; destruct H1 as [H1 _]; apply negb_true_iff, N.eqb_neq in H1; exact H1|].
    split; [apply sorted_lt_b_sound; exact C1|].
    split; [apply Forall_forall; intros s Hs; specialize (C0 s Hs); apply N.ltb_lt in C0;
            assert (2 ^ 14 < 2 ^ 32) by (apply N.pow_lt_mono_r; lia); lia|].
    apply N.ltb_lt in C. exact C.
  - apply Forall_forall; intros s Hs; apply Forall_forall; intros c Hc.
    pose proof (C2 s Hs) as H1; rewrite forallb_forall in H1; specialize (H1 c Hc).
    apply andb_true_iff in H1; destruct H1 as [_ H1]. apply N.ltb_lt in H1. lia.
  - apply Forall_forall; intros s Hs. specialize (C0 s Hs). apply N.ltb_lt in C0. exact C0.
Qed.

(* ====================================================================== *)
(* C. decodeString                                                         *)
(* ====================================================================== *)
Lemma ds_vb_eq fuel d p vb :
  ds_vb fuel d p vb =
  if lenN vb <? 2 then
    match fuel with
    | O => None
    | S f =>
        match decode_symbol d p with
        | None => None
        | Some (rule, p') =>
            match expand_rule d rule with
            | None => None
            | Some x => let vb' := vb ++ x in if lenN vb' <=? r_maxlength d then ds_vb f d p' vb' else None
            end
        end
    end
  else Some (p, vb).
Proof. destruct fuel; reflexivity. Qed.

Lemma ds_body_eq fuel d p str :
  ds_body fuel d p str =
  match last_byte str with
  | None => None
  | Some c =>
      if c =? r_maxchar d then Some (p, str)
      else match fuel with
           | O => None
           | S f =>
               match decode_symbol d p with
               | None => None
               | Some (rule, p') =>
                   match expand_rule d rule with
                   | None => None
                   | Some x => let str' := str ++ x in
                               if lenN str' <=? r_maxlength d then ds_body f d p' str' else None
                   end
               end
           end
  end.
Proof. destruct fuel; reflexivity. Qed.

Lemma vb_len_le2 c : c < 2 ^ 14 -> (1 <= length (vb_encode c) <= 2)%nat.
Proof.
  intros H. unfold vb_encode. cbn [vb_encode_fuel].
  destruct (127 <? c) eqn:E1; [|cbn [length]; lia].
  assert (Hs : N.shiftr c 7 < 128).
  { rewrite N.shiftr_div_pow2. change (2 ^ 7) with 128. change (2 ^ 14) with 16384 in H. lia. }
  destruct (N.ltb_spec 127 (N.shiftr c 7)); [lia|]. cbn [length]. lia.
Qed.

Lemma lex_lt_lcp_lt : forall a b, lex_lt a b -> lcp a b < lenN b.
Proof.
  unfold lex_lt. induction a as [|x a IH]; intros [|y b] H; cbn [lex_compare lcp] in *; try discriminate.
  - rewrite lenN_cons. lia.
  - rewrite lenN_cons. destruct (N.eqb_spec x y) as [->|Hne]; [|lia].
    rewrite N.compare_refl in H. specialize (IH _ H). lia.
Qed.

Lemma last_byte_snoc l c : last_byte (l ++ [c]) = Some c.
Proof.
  unfold last_byte. rewrite lenN_app. change (lenN [c]) with 1.
  destruct (N.eqb_spec (lenN l + 1) 0); [lia|].
  rewrite nthN_app_r by lia. replace (lenN l + 1 - 1 - lenN l) with 0 by lia. reflexivity.
Qed.

Lemma last_byte_in l : l <> [] -> exists c, last_byte l = Some c /\ In c l.
Proof.
  intros H. destruct (exists_last H) as (l' & c & ->). exists c. split; [apply last_byte_snoc|].
  apply in_or_app. right. left. reflexivity.
Qed.

Lemma app_eq_prefix {A} : forall (v vb y r : list A), vb ++ y = v ++ r -> (length v <= length vb)%nat ->
  exists w, vb = v ++ w /\ r = w ++ y.
Proof.
  induction v as [|a v IH]; intros vb y r H Hl; cbn [app] in *.
  - exists vb. split; [reflexivity|]. symmetry. exact H.
  - destruct vb as [|c vb]; [cbn [length] in Hl; lia|]. cbn [app] in H. inversion H; subst.
    destruct (IH vb y r H2 ltac:(cbn [length] in Hl; lia)) as (w & -> & ->). exists w. split; reflexivity.
Qed.

Section DecodeString.
  Variable d : rpfc.
  Hypothesis Hg : grammar_ok d.

  Let rules := r_rules d.
  Let t := r_t d.

  Lemma expand_rule_of_sym s x : expand_sym rules t (length rules) s = Some x -> expand_rule d s = Some x.
  Proof.
    destruct Hg as (Ht & _ & Hsz & _). intros H. unfold expand_rule.
    apply (xsym_expand _ _ Ht Hsz). exact H.
  Qed.

  Lemma expand_list_len : forall syms y, expand_list rules t (length rules) syms = Some y ->
    (length syms <= length y)%nat.
  Proof.
    induction syms as [|a r IH]; intros y H; [cbn [length]; lia|].
    rewrite expand_list_cons in H.
    destruct (expand_sym rules t (length rules) a) as [x|] eqn:Ex; [|discriminate].
    destruct (expand_list rules t (length rules) r) as [y'|] eqn:Ey; [|discriminate].
    inversion H; subst. specialize (IH _ eq_refl).
    pose proof (expand_sym_nonempty _ _ _ _ _ Ex) as Hne.
    rewrite app_length. cbn [length]. destruct x; [congruence|cbn [length]; lia].
  Qed.

  (* the `while (read < 2)` loop: one or two symbols, at least two bytes *)
  Lemma ds_vb_spec syms target ppos epos :
    read_syms d ppos syms = Some epos ->
    expand_list rules t (length rules) syms = Some target ->
    vb_cap rules t (r_maxlength d) syms = true ->
    (3 <= length target)%nat ->
    exists p1 vb post y,
      ds_vb 2 d ppos [] = Some (p1, vb) /\ read_syms d p1 post = Some epos /\
      expand_list rules t (length rules) post = Some y /\ vb ++ y = target /\ (2 <= length vb)%nat.
  Proof.
    intros Hr He Hc Hl.
    destruct syms as [|a r]; [cbn [vb_cap] in Hc; discriminate|].
    cbn [read_syms] in Hr. destruct (decode_symbol d ppos) as [[s' p1]|] eqn:Ed; [|discriminate].
    destruct (N.eqb_spec s' a) as [->|]; [|discriminate].
    rewrite expand_list_cons in He.
    destruct (expand_sym rules t (length rules) a) as [xa|] eqn:Exa; [|discriminate].
    destruct (expand_list rules t (length rules) r) as [y|] eqn:Ey; [|discriminate].
    inversion He; subst target. clear He.
    cbn [vb_cap] in Hc. fold rules t in Hc. rewrite Exa in Hc.
    pose proof (expand_sym_nonempty _ _ _ _ _ Exa) as Hne.
    rewrite ds_vb_eq. change (lenN (@nil N) <? 2) with true. cbv iota.
    rewrite Ed, (expand_rule_of_sym _ _ Exa). cbn [app]. cbv zeta.
    destruct (N.leb_spec 2 (lenN xa)) as [H2|H2].
    - rewrite Hc. rewrite ds_vb_eq. destruct (N.ltb_spec (lenN xa) 2); [lia|].
      exists p1, xa, r, y. repeat split; auto. unfold lenN in H2. lia.
    - destruct r as [|a2 r2]; [discriminate|].
      destruct (expand_sym rules t (length rules) a2) as [x2|] eqn:Ex2; [|discriminate].
      assert (Hxa1 : lenN xa <=? r_maxlength d = true).
      { apply N.leb_le. apply N.leb_le in Hc. lia. }
      rewrite Hxa1. rewrite ds_vb_eq. destruct (N.ltb_spec (lenN xa) 2); [|lia].
      cbn [read_syms] in Hr. destruct (decode_symbol d p1) as [[s2 p2]|] eqn:Ed2; [|discriminate].
      destruct (N.eqb_spec s2 a2) as [->|]; [|discriminate].
      rewrite (expand_rule_of_sym _ _ Ex2). cbv zeta. rewrite lenN_app, Hc.
      pose proof (expand_sym_nonempty _ _ _ _ _ Ex2) as Hne2.
      rewrite ds_vb_eq.
      assert (Hl2 : 2 <= lenN (xa ++ x2)).
      { rewrite lenN_app. destruct xa; [congruence|]. destruct x2; [congruence|]. rewrite !lenN_cons. lia. }
      destruct (N.ltb_spec (lenN (xa ++ x2)) 2); [lia|].
      rewrite expand_list_cons, Ex2 in Ey.
      destruct (expand_list rules t (length rules) r2) as [y2|] eqn:Ey2; [|discriminate].
      inversion Ey; subst y.
      exists p2, (xa ++ x2), r2, y2. split; [reflexivity|]. split; [exact Hr|]. split; [exact Ey2|].
      split; [rewrite app_assoc; reflexivity|]. unfold lenN in Hl2. lia.
  Qed.

  (* the `while (str[*strLen - 1] != maxchar)` loop *)
  Lemma ds_body_spec (pre suf : list N) epos :
    Forall (fun c => c <> 255) pre -> Forall (fun c => c <> 255) suf ->
    lenN pre + lenN suf + 1 <= r_maxlength d ->
    forall post p w y fuel,
      read_syms d p post = Some epos ->
      expand_list rules t (length rules) post = Some y ->
      w ++ y = suf ++ [255] -> pre ++ w <> [] -> (length post < fuel)%nat ->
      ds_body fuel d p (pre ++ w) = Some (epos, pre ++ suf ++ [255]).
  Proof.
    intros Hpre Hsuf Hcap. destruct Hg as (_ & _ & _ & Hmc).
    induction post as [|a r IH]; intros p w y fuel Hr He Hw Hne Hf.
    - cbn [read_syms expand_list] in Hr, He. inversion Hr; inversion He; subst.
      rewrite app_nil_r in Hw. subst w. rewrite ds_body_eq.
      rewrite (app_assoc pre suf [255]), last_byte_snoc, Hmc, N.eqb_refl, <- app_assoc. reflexivity.
    - cbn [read_syms] in Hr. destruct (decode_symbol d p) as [[s' p1]|] eqn:Ed; [|discriminate].
      destruct (N.eqb_spec s' a) as [->|]; [|discriminate].
      rewrite expand_list_cons in He.
      destruct (expand_sym rules t (length rules) a) as [xa|] eqn:Exa; [|discriminate].
      destruct (expand_list rules t (length rules) r) as [y'|] eqn:Ey; [|discriminate].
      inversion He; subst y. clear He.
      pose proof (expand_sym_nonempty _ _ _ _ _ Exa) as Hxne.
      (* w is a proper prefix: w ++ z = suf *)
      assert (Hz : exists z, xa ++ y' = z ++ [255] /\ suf = w ++ z).
      { assert (Hn : xa ++ y' <> []) by (destruct xa; [congruence|discriminate]).
        destruct (exists_last Hn) as (z & c & Ez). rewrite Ez in Hw.
        rewrite app_assoc in Hw. apply app_inj_tail in Hw. destruct Hw as [Hw ->].
        exists z. split; [exact Ez|]. symmetry. exact Hw. }
      destruct Hz as (z & Ez & Es).
      rewrite ds_body_eq.
      destruct (last_byte_in _ Hne) as (c & Ec & Hin). rewrite Ec.
      assert (Hc : c <> 255).
      { apply in_app_or in Hin. destruct Hin as [Hin|Hin].
        - rewrite Forall_forall in Hpre. apply Hpre. exact Hin.
        - rewrite Forall_forall in Hsuf. apply Hsuf. rewrite Es. apply in_or_app. left. exact Hin. }
      rewrite Hmc. destruct (N.eqb_spec c 255); [contradiction|].
      destruct fuel as [|f]; [cbn [length] in Hf; lia|].
      rewrite Ed, (expand_rule_of_sym _ _ Exa). cbv zeta.
      assert (Hlen : lenN ((pre ++ w) ++ xa) <=? r_maxlength d = true).
      { apply N.leb_le. rewrite !lenN_app.
        assert (E : (w ++ xa) ++ y' = suf ++ [255])
          by (rewrite <- app_assoc, Ez, Es, <- app_assoc; reflexivity).
        apply (f_equal lenN) in E. rewrite !lenN_app in E. change (lenN [255]) with 1 in E. lia. }
      rewrite Hlen. rewrite <- app_assoc.
      apply (IH p1 (w ++ xa) y' f Hr eq_refl).
      + rewrite <- app_assoc, Ez, Es, <- app_assoc. reflexivity.
      + intros E. apply app_eq_nil in E. destruct E as [_ E]. apply app_eq_nil in E. destruct E as [_ E]. contradiction.
      + cbn [length] in Hf. lia.
  Qed.

  (* Theorem 1 in its local form: one internal string *)
  Lemma decode_string_item prev cur ppos epos syms :
    read_syms d ppos syms = Some epos ->
    expand_list rules t (length rules) syms = Some (enc_rp prev cur) ->
    vb_cap rules t (r_maxlength d) syms = true ->
    lenN cur < r_maxlength d -> lenN cur < 2 ^ 14 -> lex_lt prev cur ->
    Forall (fun c => c <> 255) prev -> Forall (fun c => c <> 255) cur ->
    decode_string d ppos prev = Some (epos, cur, lcp prev cur).
  Proof.
    intros Hr He Hc Hml H14 Hlt Hp255 Hc255.
    pose proof (LexLemmas.lcp_le_l prev cur) as Hl1. pose proof (LexLemmas.lcp_le_r prev cur) as Hl2.
    pose proof (lex_lt_lcp_lt _ _ Hlt) as Hl3.
    set (l := lcp prev cur) in *.
    pose proof (vb_len_le2 l ltac:(lia)) as HV.
    assert (Hsuflen : lenN (skipN l cur) = lenN cur - l) by apply lenN_skipN.
    assert (Htl : (3 <= length (enc_rp prev cur))%nat).
    { unfold enc_rp. fold l. rewrite !app_length. cbn [length]. unfold lenN in Hsuflen, Hl3. lia. }
    destruct (ds_vb_spec _ _ _ _ Hr He Hc Htl) as (p1 & vb & post & y & E1 & E2 & E3 & E4 & E5).
    unfold decode_string. rewrite E1.
    unfold enc_rp in E4. fold l in E4.
    destruct (app_eq_prefix _ _ _ _ E4 ltac:(lia)) as (w & -> & Ew).
    assert (H32 : l < W32).
    { unfold W32. assert (2 ^ 14 < 2 ^ 32) by (apply N.pow_lt_mono_r; lia). lia. }
    rewrite (vbyte_roundtrip l w H32).
    destruct (N.leb_spec l (lenN prev)); [|lia].
    rewrite skipN_app_exact.
    assert (Hpre : lenN (firstN l prev) = l) by (apply lenN_firstN; lia).
    assert (Hwl : lenN w + lenN y = lenN cur - l + 1).
    { rewrite <- lenN_app, <- Ew, lenN_app, Hsuflen. reflexivity. }
    destruct (N.leb_spec (lenN (firstN l prev ++ w)) (r_maxlength d)) as [_|Hbad];
      [|rewrite lenN_app in Hbad; lia].
    assert (Hne : firstN l prev ++ w <> []).
    { intros E. apply app_eq_nil in E. destruct E as [E1' E2']. subst w.
      rewrite E1' in Hpre. change (lenN (@nil N)) with 0 in Hpre.
      (* l = 0: the VByte is one byte, so vb = V ++ [] has length 1 < 2 *)
      rewrite app_nil_r in E5. assert (l < 128) by lia.
      rewrite (vb_encode_small l ltac:(lia)) in E5. cbn [length] in E5. lia. }
    assert (HF1 : Forall (fun c => c <> 255) (firstN l prev)).
    { unfold firstN. rewrite <- (firstn_skipn (N.to_nat l) prev) in Hp255.
      apply Forall_app in Hp255. tauto. }
    assert (HF2 : Forall (fun c => c <> 255) (skipN l cur)) by (apply Forall_skipn; exact Hc255).
    assert (Hfuel : (length post < Datatypes.S (N.to_nat (r_maxlength d)))%nat).
    { pose proof (expand_list_len _ _ E3). unfold lenN in Hwl, Hml. lia. }
    rewrite (ds_body_spec (firstN l prev) (skipN l cur) epos HF1 HF2 ltac:(lia) post p1 w y _ E2 E3 (eq_sym Ew) Hne Hfuel).
    rewrite app_assoc, removelast_last. unfold l. rewrite LexLemmas.lcp_rebuild. reflexivity.
  Qed.
End DecodeString.

(* ====================================================================== *)
(* D. the flat stream view of a well-formed object                         *)
(* ====================================================================== *)
Lemma buckets_div n b k : 1 <= b -> 1 <= k -> (k <= (n + b - 1) / b <-> (k - 1) * b < n).
Proof.
  intros Hb Hk. assert (Hb0 : b <> 0) by lia.
  pose proof (N.div_mod (n + b - 1) b Hb0) as Hd.
  pose proof (N.mod_lt (n + b - 1) b Hb0) as Hm.
  set (q := (n + b - 1) / b) in *. set (r := (n + b - 1) mod b) in *.
  assert (Ek : k * b = (k - 1) * b + b) by (apply mul_pred_succ; lia).
  split; intros H.
  - assert (k * b <= q * b) by (apply N.mul_le_mono_r; exact H). nia.
  - destruct (N.le_gt_cases k q) as [|Hgt]; [assumption|exfalso].
    assert ((q + 1) * b <= k * b) by (apply N.mul_le_mono_r; lia). nia.
Qed.

Section Stream.
  Variables (d : rpfc) (b : N) (S : list str) (E : N -> bpos).
  Hypothesis Hbs : r_bsize d = b.
  Hypothesis Hel : r_elements d = lenN S.
  Hypothesis Hbk : r_buckets d = (lenN S + b - 1) / b.
  Hypothesis Hg : grammar_ok d.
  Hypothesis HE : stream_ok d b S E.
  Hypothesis Hb : 1 <= b.
  Hypothesis Hin : rpfc_input S.

  Lemma Hnf : Forall nul_free S. Proof. destruct Hin as ((_ & H & _) & _). exact H. Qed.
  Lemma Hsort : sorted_lt S. Proof. destruct Hin as ((_ & _ & H & _) & _). exact H. Qed.
  Lemma Hne : S <> []. Proof. destruct Hin as ((H & _) & _). exact H. Qed.
  Lemma Hn32 : lenN S < 2 ^ 32. Proof. destruct Hin as ((_ & _ & _ & _ & H) & _). exact H. Qed.

  Lemma s_nul_free i : i < lenN S -> nul_free (snth S i).
  Proof. intros H. pose proof Hnf as F. rewrite Forall_forall in F. apply F, snth_In, H. Qed.

  Lemma s_no255 i : i < lenN S -> Forall (fun c => c <> 255) (snth S i).
  Proof. intros H. destruct Hin as (_ & F & _). rewrite Forall_forall in F. apply F, snth_In, H. Qed.

  Lemma s_len14 i : i < lenN S -> lenN (snth S i) < 2 ^ 14.
  Proof. intros H. destruct Hin as (_ & _ & F). rewrite Forall_forall in F. apply (F (snth S i)), snth_In, H. Qed.

  Lemma s_maxlen i : i < lenN S -> lenN (snth S i) < r_maxlength d.
  Proof. intros H. destruct (HE i H) as [Hm _]. exact Hm. Qed.

  Lemma buckets_iff k : 1 <= k -> (k <= r_buckets d <-> (k - 1) * b < lenN S).
  Proof. intros Hk. rewrite Hbk. apply buckets_div; assumption. Qed.

  Lemma buckets_pos : 1 <= r_buckets d.
  Proof.
    apply (buckets_iff 1); [lia|]. pose proof Hne. destruct S; [congruence|]. rewrite lenN_cons. lia.
  Qed.

  (* Theorem 1, flat form: one decodeString call moves from string i to string i+1 *)
  Lemma stream_dstep i : i + 1 < lenN S -> (i + 1) mod b <> 0 ->
    decode_string d (E i) (snth S i) = Some (E (i + 1), snth S (i + 1), lcp (snth S i) (snth S (i + 1))).
  Proof.
    intros Hi Hm. destruct (HE (i + 1) Hi) as [Hml Hit].
    destruct (N.eqb_spec ((i + 1) mod b) 0) as [|_]; [contradiction|].
    rewrite N.add_sub in Hit. destruct Hit as (syms & E1 & E2 & E3).
    apply (decode_string_item d Hg _ _ _ _ syms E1 E2 E3 Hml).
    - apply s_len14; exact Hi.
    - apply snth_lt; [exact Hsort|lia|exact Hi].
    - apply s_no255; lia.
    - apply s_no255; exact Hi.
  Qed.

  Lemma stream_dstep' i : i + 1 < lenN S -> (i + 1) mod b <> 0 ->
    dstep d (E i, snth S i) = Some (E (i + 1), snth S (i + 1)).
  Proof. intros Hi Hm. unfold dstep. cbn [fst snd]. rewrite (stream_dstep i Hi Hm). reflexivity. Qed.

  (* the header of bucket k *)
  Lemma stream_header k : 1 <= k -> k <= r_buckets d ->
    exists off rest, (k - 1) * b < lenN S /\
      nthN (r_bl d) k = Some off /\ text_at (r_text d) off (snth S ((k - 1) * b) ++ 0 :: rest) /\
      E ((k - 1) * b) = (off + lenN (snth S ((k - 1) * b)) + 1, 0) /\
      off = hdr_off ((k - 1) * b) (E ((k - 1) * b - 1)).
  Proof.
    intros Hk1 Hk2. pose proof (proj1 (buckets_iff k Hk1) Hk2) as Hlt.
    destruct (HE _ Hlt) as [_ Hit].
    rewrite (bucket_base_mod k b ltac:(lia)) in Hit. cbn [N.eqb] in Hit.
    rewrite N.div_mul in Hit by lia. replace (k - 1 + 1) with k in Hit by lia.
    destruct Hit as (Ebl & (rest & Ht) & Ee).
    exists (hdr_off ((k - 1) * b) (E ((k - 1) * b - 1))), rest.
    split; [exact Hlt|]. split; [exact Ebl|]. split; [exact Ht|]. split; [exact Ee|reflexivity].
  Qed.

  Lemma get_header_stream k : 1 <= k -> k <= r_buckets d ->
    rpfc_get_header d k = Some (E ((k - 1) * b), snth S ((k - 1) * b)).
  Proof.
    intros Hk1 Hk2. destruct (stream_header k Hk1 Hk2) as (off & rest & Hlt & Ebl & Ht & Ee & _).
    unfold rpfc_get_header, get_header. cbn [hdr_view p_bl p_text]. rewrite Ebl.
    rewrite (cstr_at_spec _ _ _ _ Ht (s_nul_free _ Hlt)).
    destruct (N.ltb_spec (lenN (snth S ((k - 1) * b))) (r_maxlength d)) as [_|Hbad].
    - rewrite Ee. reflexivity.
    - pose proof (s_maxlen _ Hlt). lia.
  Qed.

  Lemma strcmp_stream k q : 1 <= k -> k <= r_buckets d -> nul_free q ->
    strcmp_at (hdr_view d) k q = Some (lex_compare (snth S ((k - 1) * b)) q).
  Proof.
    intros Hk1 Hk2 Hq. destruct (stream_header k Hk1 Hk2) as (off & rest & Hlt & Ebl & [Hle Hs] & _).
    unfold strcmp_at. cbn [hdr_view p_bl p_text]. rewrite Ebl.
    destruct (N.leb_spec off (lenN (r_text d))); [|lia]. rewrite Hs.
    apply c_strcmp_spec; [apply s_nul_free; exact Hlt|exact Hq].
  Qed.

  Lemma strncmp_stream k p : 1 <= k -> k <= r_buckets d -> nul_free p ->
    strncmp_at (hdr_view d) k p = Some (pcls p (snth S ((k - 1) * b))).
  Proof.
    intros Hk1 Hk2 Hq. destruct (stream_header k Hk1 Hk2) as (off & rest & Hlt & Ebl & [Hle Hs] & _).
    unfold strncmp_at. cbn [hdr_view p_bl p_text]. rewrite Ebl.
    destruct (N.leb_spec off (lenN (r_text d))); [|lia]. rewrite Hs.
    apply c_strncmp_spec; [apply s_nul_free; exact Hlt|exact Hq].
  Qed.

  (* everything the scans need to know about bucket k, with the multiplication hidden:
     the bucket holds the strings number base .. Eb-1 *)
  Lemma rbucket_facts k : 1 <= k -> k <= r_buckets d ->
    exists base Eb, base = (k - 1) * b /\ base mod b = 0 /\ base < Eb /\ Eb <= base + b /\ Eb <= lenN S /\
      rpfc_scanneable d k = Eb - base /\
      rpfc_get_header d k = Some (E base, snth S base) /\
      (Eb < lenN S -> Eb = base + b /\ k + 1 <= r_buckets d) /\
      (k < r_buckets d -> Eb = base + b /\ Eb < lenN S).
  Proof.
    intros Hk1 Hk2. pose proof (proj1 (buckets_iff k Hk1) Hk2) as Hlt.
    pose proof (buckets_iff (k + 1) ltac:(lia)) as Hnext. rewrite N.add_sub in Hnext.
    pose proof (mul_pred_succ k b Hk1) as Ekb.
    pose proof (bucket_base_mod k b ltac:(lia)) as Hmod.
    pose proof (get_header_stream k Hk1 Hk2) as Egh.
    assert (Hb0 : b <> 0) by lia.
    pose proof (N.div_mod (lenN S) b Hb0) as Hdm. pose proof (N.mod_lt (lenN S) b Hb0) as Hml.
    (* the last bucket *)
    assert (Hlast : k = r_buckets d -> lenN S - (k - 1) * b = (if lenN S mod b =? 0 then b else lenN S mod b)).
    { intros ->. pose proof (buckets_iff (r_buckets d + 1) ltac:(lia)) as Hn2. rewrite N.add_sub in Hn2.
      assert (Hnot : ~ r_buckets d * b < lenN S) by (intros Hc; apply Hn2 in Hc; lia).
      clear Hn2 Hnext Egh.
      assert (Hdiv : (r_buckets d - 1) * b mod b = 0) by exact Hmod.
      pose proof (N.div_mod ((r_buckets d - 1) * b) b Hb0) as Hd2. rewrite Hdiv, N.div_mul in Hd2 by lia.
      set (base := (r_buckets d - 1) * b) in *.
      (* lenN S = base + x with 1 <= x <= b *)
      assert (Hx : lenN S - base <= b) by lia.
      destruct (N.eqb_spec (lenN S mod b) 0) as [E0|E0].
      - assert (Hm2 : (lenN S - base) mod b = 0).
        { replace (lenN S) with (base + (lenN S - base)) in E0 by lia.
          rewrite N.add_mod, Hmod, N.add_0_l, N.mod_mod in E0 by lia. exact E0. }
        destruct (N.eq_dec (lenN S - base) b) as [|Hneq]; [assumption|].
        rewrite N.mod_small in Hm2 by lia. lia.
      - destruct (N.eq_dec (lenN S - base) b) as [Heq|Hneq].
        + exfalso. apply E0. replace (lenN S) with (base + b) by lia.
          rewrite N.add_mod, Hmod, N.mod_same, N.add_0_l by lia. apply N.mod_0_l. lia.
        + replace (lenN S) with (base + (lenN S - base)) at 2 by lia.
          rewrite N.add_mod, Hmod, N.add_0_l, N.mod_mod by lia. symmetry. apply N.mod_small. lia. }
    unfold rpfc_scanneable, scanneable_of. cbn [hdr_view p_buckets p_elements p_bsize].
    rewrite Hbs, Hel.
    revert Hlt Hnext Ekb Hmod Egh Hlast. generalize ((k - 1) * b). intros base Hlt Hnext Ekb Hmod Egh Hlast.
    exists base, (base + N.min b (lenN S - base)).
    split; [reflexivity|]. split; [exact Hmod|]. split; [lia|]. split; [lia|]. split; [lia|].
    split.
    { destruct (N.eqb_spec k (r_buckets d)) as [Ek|Ek].
      - specialize (Hlast Ek). cbn [andb]. destruct (N.eqb_spec (lenN S mod b) 0); cbn [negb]; lia.
      - cbn [andb]. assert (k * b < lenN S) by (apply Hnext; lia). lia. }
    split; [exact Egh|]. split.
    - intros H. assert (k * b < lenN S) by lia. split; [lia|]. apply Hnext. assumption.
    - intros H. assert (k * b < lenN S) by (apply Hnext; lia). lia.
  Qed.

  (* ---------------------------------------------------------------- *)
  (* E. extract                                                        *)
  (* ---------------------------------------------------------------- *)
  Lemma in_bucket_mod' base i : base mod b = 0 -> base <= i -> i + 1 < base + b -> (i + 1) mod b <> 0.
  Proof.
    intros H0 H1 H2. replace (i + 1) with (base + (i + 1 - base)) by lia.
    rewrite mod_of_zero_plus by (auto; lia). lia.
  Qed.

  Lemma iter_dstep base : base mod b = 0 -> forall j, j < b -> base + j < lenN S ->
    N.iter j (fun o => opt_bind o (dstep d)) (Some (E base, snth S base)) = Some (E (base + j), snth S (base + j)).
  Proof.
    intros H0 j. induction j as [|j IH] using N.peano_ind; intros Hj Hn.
    - rewrite N.add_0_r. reflexivity.
    - rewrite N.iter_succ, IH by lia. cbn [opt_bind].
      replace (base + N.succ j) with (base + j + 1) by lia.
      apply stream_dstep'; [lia|]. apply (in_bucket_mod' base); [exact H0|lia|lia].
  Qed.

  Theorem rpfc_extract_stream id : rpfc_extract d id = Some (spec_extract S id).
  Proof.
    unfold rpfc_extract, spec_extract. rewrite Hel, Hbs.
    destruct (N.ltb_spec 0 id) as [Hid|Hid]; cbn [andb].
    2:{ assert (id = 0) by lia. subst id. reflexivity. }
    destruct (N.eqb_spec id 0) as [|_]; [lia|].
    destruct (N.leb_spec id (lenN S)) as [Hle|Hgt].
    2:{ f_equal. symmetry. unfold nthN. apply nth_error_None. unfold lenN in Hgt. lia. }
    assert (Hb0 : b <> 0) by lia. pose proof Hn32 as H32.
    pose proof (N.div_mod (id - 1) b Hb0) as Hdm. pose proof (N.mod_lt (id - 1) b Hb0) as Hml.
    assert (Hq : (id - 1) / b <= id - 1).
    { apply N.div_le_upper_bound; [lia|]. rewrite <- (N.mul_1_l (id - 1)) at 1. apply N.mul_le_mono_r. lia. }
    pose proof (N.mod_le (id - 1) b Hb0) as Hmle.
    rewrite !W32m_small by lia.
    set (k := 1 + (id - 1) / b).
    assert (Hbase : (k - 1) * b = id - 1 - (id - 1) mod b).
    { unfold k. replace (1 + (id - 1) / b - 1) with ((id - 1) / b) by lia.
      rewrite (N.mul_comm _ b). revert Hdm. generalize (b * ((id - 1) / b)). intros; lia. }
    assert (Hk1 : 1 <= k) by (unfold k; lia).
    clearbody k.
    assert (Hk2 : k <= r_buckets d) by (apply buckets_iff; [exact Hk1|rewrite Hbase; lia]).
    rewrite (get_header_stream k Hk1 Hk2).
    pose proof (bucket_base_mod k b Hb0) as Hmod0.
    revert Hbase Hmod0. generalize ((k - 1) * b). intros base Hbase Hmod0.
    rewrite (iter_dstep base Hmod0 _ Hml ltac:(lia)).
    replace (base + (id - 1) mod b) with (id - 1) by lia.
    rewrite (nthN_snth S (id - 1)) by lia. reflexivity.
  Qed.

  (* ---------------------------------------------------------------- *)
  (* F. locateBucket and locate                                        *)
  (* ---------------------------------------------------------------- *)
  Let H (k : N) : str := snth S ((k - 1) * b).

  Lemma H_lt j j' : 1 <= j -> j < j' -> j' <= r_buckets d -> lex_lt (H j) (H j').
  Proof.
    intros H1 H2 H3. unfold H. apply snth_lt; [exact Hsort| |apply buckets_iff; lia].
    apply N.mul_lt_mono_pos_r; lia.
  Qed.

  Definition rbucket_post (q : str) (found : bool) (k : N) : Prop :=
    k <= r_buckets d /\
    if found then 1 <= k /\ H k = q
    else (forall j, 1 <= j -> j <= k -> lex_lt (H j) q) /\
         (forall j, k < j -> j <= r_buckets d -> lex_lt q (H j)).

  Lemma rlocate_bucket_loop_spec q : nul_free q ->
    forall fuel l r center cmp,
    1 <= l -> r <= r_buckets d -> l <= r + 1 ->
    (N.to_nat (r + 1 - l) < fuel)%nat ->
    (forall j, 1 <= j -> j < l -> lex_lt (H j) q) ->
    (forall j, r < j -> j <= r_buckets d -> lex_lt q (H j)) ->
    (r < l -> match cmp with Lt => center | _ => center - 1 end = r) ->
    exists found k, locate_bucket_loop fuel (hdr_view d) q l r center cmp = Some (found, k) /\
                    rbucket_post q found k.
  Proof.
    intros Hnq. induction fuel as [|f IH]; intros l r center cmp Hl Hr Hlr Hfuel Hlo Hhi Hexit; [lia|].
    cbn [locate_bucket_loop]. destruct (N.leb_spec l r) as [Hle|Hgt].
    - set (c := (l + r) / 2).
      assert (Hc : l <= c <= r) by (unfold c; lia).
      rewrite (strcmp_stream c q ltac:(lia) ltac:(lia) Hnq). fold (H c).
      destruct (lex_compare (H c) q) eqn:Ecmp.
      + exists true, c. split; [reflexivity|]. split; [lia|]. split; [lia|].
        apply lex_compare_eq in Ecmp. exact Ecmp.
      + apply IH; try lia.
        * intros j Hj1 Hj2. destruct (N.eq_dec j c) as [->|Hjc]; [exact Ecmp|].
          apply (lex_lt_trans _ (H c)); [|exact Ecmp]. apply H_lt; lia.
        * intros j Hj1 Hj2. apply Hhi; lia.
      + apply lex_gt_lt in Ecmp. apply IH; try lia.
        * intros j Hj1 Hj2. apply Hlo; lia.
        * intros j Hj1 Hj2. destruct (N.eq_dec j c) as [->|Hjc]; [exact Ecmp|].
          apply (lex_lt_trans _ (H c)); [exact Ecmp|]. apply H_lt; lia.
    - exists false, r. split; [rewrite (Hexit Hgt); reflexivity|].
      split; [exact Hr|]. split.
      + intros j Hj1 Hj2. apply Hlo; lia.
      + intros j Hj1 Hj2. apply Hhi; lia.
  Qed.

  Lemma rlocate_bucket_spec q : nul_free q ->
    exists found k, rpfc_locate_bucket d q = Some (found, k) /\ rbucket_post q found k.
  Proof.
    intros Hnq. unfold rpfc_locate_bucket, locate_bucket. cbn [hdr_view p_buckets].
    apply (rlocate_bucket_loop_spec q Hnq); try lia.
  Qed.

  Lemma locate_cert_none q : (forall j, j < lenN S -> snth S j <> q) -> spec_locate S q = 0.
  Proof.
    intros Hall. apply spec_locate_absent. intros Hin'.
    destruct (In_nth _ _ [] Hin') as (j & Hj & Ej).
    apply (Hall (N.of_nat j)).
    { unfold lenN, N.lt. rewrite <- Nat2N.inj_compare. apply Nat.compare_lt_iff. exact Hj. }
    unfold snth. rewrite Nat2N.id. exact Ej.
  Qed.

  Lemma locate_cert_some q j : j < lenN S -> snth S j = q -> spec_locate S q = j + 1.
  Proof.
    intros Hj Ej. unfold spec_locate.
    rewrite (nth_index_from S 1 j q ltac:(lia) (sorted_NoDup _ Hsort)); [lia|].
    rewrite <- Ej. apply nthN_snth. exact Hj.
  Qed.

  Lemma s_lt i j : i < j -> j < lenN S -> lex_lt (snth S i) (snth S j).
  Proof. intros. apply snth_lt; [exact Hsort|assumption|assumption]. Qed.

  Lemma lt_neq a c : lex_lt a c -> a <> c.
  Proof. intros Hlt ->. exact (lex_lt_irrefl _ Hlt). Qed.

  (* the for-loop of locate, entered after string i of the bucket (decoded, different from q) *)
  Lemma rscan_spec q k base Eb : nul_free q -> base = (k - 1) * b -> base mod b = 0 ->
    Eb <= base + b -> Eb <= lenN S ->
    (Eb < lenN S -> lex_lt q (snth S Eb)) ->
    forall (n : nat) i fuel,
    base <= i -> i < Eb -> N.to_nat (Eb - 1 - i) = n -> (n < fuel)%nat ->
    snth S i <> q ->
    exists r, rscan_loop fuel d q k (Eb - base) (i - base + 1) (E i) (snth S i) (lcp (snth S i) q) = Some r /\
      ((r = 0 /\ forall j, i < j -> j < lenN S -> snth S j <> q) \/
       (exists j, i < j /\ j < Eb /\ snth S j = q /\ r = j + 1)).
  Proof.
    intros Hnq Ebase Hmod HE1 HE2 Hafter.
    assert (Habove : forall i, i < lenN S -> lex_lt q (snth S i) -> forall j, i < j -> j < lenN S -> snth S j <> q).
    { intros i Hi Hq j Hj1 Hj2 Ej. pose proof (s_lt i j Hj1 Hj2) as Hlt. rewrite Ej in Hlt.
      exact (lex_lt_asym _ _ Hq Hlt). }
    induction n as [|n IH]; intros i fuel Hi1 Hi2 Hn Hf Hneq;
      (destruct fuel as [|f]; [lia|]); cbn [rscan_loop].
    - (* i is the last string of the bucket *)
      destruct (N.ltb_spec (i - base + 1) (Eb - base)); [lia|].
      exists 0. split; [reflexivity|]. left. split; [reflexivity|].
      intros j Hj1 Hj2. assert (Eb < lenN S) by lia. destruct (N.eq_dec j Eb) as [->|Hne'].
      + apply not_eq_sym, lt_neq, Hafter. assumption.
      + apply (Habove Eb); [assumption|apply Hafter; assumption|lia|assumption].
    - destruct (N.ltb_spec (i - base + 1) (Eb - base)); [|lia].
      assert (Hi3 : i + 1 < Eb) by lia.
      rewrite (stream_dstep i ltac:(lia) (in_bucket_mod' base i Hmod Hi1 ltac:(lia))).
      assert (Hii : lex_lt (snth S i) (snth S (i + 1))) by (apply s_lt; lia).
      destruct (N.ltb_spec (lcp (snth S i) (snth S (i + 1))) (lcp (snth S i) q)) as [Hsh|Hsh].
      + (* fewer shared symbols: everything from i+1 on is above q *)
        exists 0. split; [reflexivity|]. left. split; [reflexivity|].
        assert (Hq1 : lex_lt q (snth S (i + 1))).
        { destruct (lex_total (snth S i) q) as [Hlt|[Heq|Hgt]]; [|contradiction|].
          - apply (scan_trick_lt (snth S i)); assumption.
          - apply (lex_lt_trans _ (snth S i)); assumption. }
        intros j Hj1 Hj2. destruct (N.eq_dec j (i + 1)) as [->|Hne'].
        * apply not_eq_sym, lt_neq. exact Hq1.
        * apply (Habove (i + 1)); [lia|exact Hq1|lia|assumption].
      + assert (Hs : lcp (snth S i) q <= lcp (snth S (i + 1)) q).
        { pose proof (lcp_min (snth S i) (snth S (i + 1)) q). lia. }
        destruct (cmp_from_spec (snth S (i + 1)) q _ (s_nul_free (i + 1) ltac:(lia)) Hnq Hs) as (z & m & Ec & Hag).
        rewrite Ec. unfold cmp_agrees in Hag.
        destruct (lex_compare (snth S (i + 1)) q) eqn:Ecmp.
        * subst z. cbn [Z.eqb]. eexists. split; [reflexivity|]. right. exists (i + 1).
          apply lex_compare_eq in Ecmp. split; [lia|]. split; [lia|]. split; [exact Ecmp|].
          rewrite Hbs, <- Ebase. lia.
        * destruct Hag as [Hz ->]. destruct (Z.eqb_spec z 0); [lia|]. destruct (Z.ltb_spec 0 z); [lia|].
          rewrite N.add_0_l.
          assert (Hne1 : snth S (i + 1) <> q) by (apply lt_neq; exact Ecmp).
          destruct (IH (i + 1) f ltac:(lia) Hi3 ltac:(lia) ltac:(lia) Hne1) as (r & Er & Hr).
          replace (i + 1 - base + 1) with (i - base + 1 + 1) in Er by lia. rewrite Er.
          exists r. split; [reflexivity|]. destruct Hr as [[-> Hr]|(j & Hj1 & Hj2 & Hj3 & Hj4)].
          -- left. split; [reflexivity|]. intros j Hj1 Hj2. destruct (N.eq_dec j (i + 1)) as [->|Hne'];
               [exact Hne1|apply Hr; lia].
          -- right. exists j. repeat split; auto. lia.
        * destruct Hag as [Hz _]. destruct (Z.eqb_spec z 0); [lia|]. destruct (Z.ltb_spec 0 z); [|lia].
          exists 0. split; [reflexivity|]. left. split; [reflexivity|].
          apply lex_gt_lt in Ecmp.
          intros j Hj1 Hj2. destruct (N.eq_dec j (i + 1)) as [->|Hne'].
          -- apply not_eq_sym, lt_neq. exact Ecmp.
          -- apply (Habove (i + 1)); [lia|exact Ecmp|lia|assumption].
  Qed.

  Theorem rpfc_locate_stream q : nul_free q -> rpfc_locate d q = Some (spec_locate S q).
  Proof.
    intros Hnq. unfold rpfc_locate.
    destruct (rlocate_bucket_spec q Hnq) as (found & k & Elb & Hk & Hpost). rewrite Elb.
    destruct found.
    - destruct Hpost as [Hk1 Hq]. rewrite Hbs. f_equal. symmetry.
      apply locate_cert_some; [apply buckets_iff; assumption|exact Hq].
    - destruct Hpost as [Hlo Hhi].
      destruct (N.eqb_spec k 0) as [->|Hk0].
      + f_equal. symmetry. apply locate_cert_none. intros j Hj.
        pose proof (Hhi 1 ltac:(lia) buckets_pos) as H1. unfold H in H1.
        replace ((1 - 1) * b) with 0 in H1 by lia.
        destruct (N.eq_dec j 0) as [->|Hj0]; [apply not_eq_sym, lt_neq; exact H1|].
        apply not_eq_sym, lt_neq. apply (lex_lt_trans _ (snth S 0)); [exact H1|apply s_lt; lia].
      + destruct (rbucket_facts k ltac:(lia) Hk) as (base & Eb & Ebase & Hmod & HbE & HE1 & HE2 & Esc & Egh & Hnext & _).
        rewrite Egh, Esc.
        pose proof (Hlo k ltac:(lia) ltac:(lia)) as Hhk. unfold H in Hhk. rewrite <- Ebase in Hhk.
        assert (Hafter : Eb < lenN S -> lex_lt q (snth S Eb)).
        { intros Hlt. destruct (Hnext Hlt) as [EE Hk1]. pose proof (Hhi (k + 1) ltac:(lia) Hk1) as H2.
          unfold H in H2. rewrite N.add_sub in H2. rewrite (mul_pred_succ k b ltac:(lia)), <- Ebase, <- EE in H2.
          exact H2. }
        assert (Hbelow : forall j, j <= base -> snth S j <> q).
        { intros j Hj. apply lt_neq. destruct (N.eq_dec j base) as [->|Hne']; [exact Hhk|].
          apply (lex_lt_trans _ (snth S base)); [apply s_lt; lia|exact Hhk]. }
        assert (Habove : forall j, Eb <= j -> j < lenN S -> snth S j <> q).
        { intros j Hj1 Hj2. apply not_eq_sym, lt_neq. pose proof (Hafter ltac:(lia)) as Hq.
          destruct (N.eq_dec j Eb) as [->|Hne']; [exact Hq|].
          apply (lex_lt_trans _ (snth S Eb)); [exact Hq|apply s_lt; lia]. }
        destruct (N.ltb_spec 1 (Eb - base)) as [Hsc|Hsc].
        * assert (Hm1 : (base + 1) mod b <> 0) by (apply (in_bucket_mod' base base Hmod); lia).
          rewrite (stream_dstep base ltac:(lia) Hm1).
          destruct (cmp_from_spec (snth S (base + 1)) q 0 (s_nul_free (base + 1) ltac:(lia)) Hnq ltac:(lia)) as (z & m & Ec & Hag).
          rewrite Ec. unfold cmp_agrees in Hag.
          destruct (lex_compare (snth S (base + 1)) q) eqn:Ecmp.
          -- subst z. cbn [Z.eqb]. rewrite Hbs, <- Ebase. f_equal. symmetry.
             apply lex_compare_eq in Ecmp. rewrite (locate_cert_some q (base + 1)); [lia|lia|exact Ecmp].
          -- destruct Hag as [Hz ->]. destruct (Z.eqb_spec z 0); [lia|]. rewrite N.add_0_l.
             assert (Hne1 : snth S (base + 1) <> q) by (apply lt_neq; exact Ecmp).
             destruct (rscan_spec q k base Eb Hnq Ebase Hmod HE1 HE2 Hafter
                         (N.to_nat (Eb - 1 - (base + 1))) (base + 1) (N.to_nat (Eb - base))
                         ltac:(lia) ltac:(lia) eq_refl ltac:(lia) Hne1) as (r & Er & Hr).
             replace (base + 1 - base + 1) with 2 in Er by lia. rewrite Er. f_equal.
             destruct Hr as [[-> Hr]|(j & Hj1 & Hj2 & Hj3 & ->)].
             ++ symmetry. apply locate_cert_none. intros j Hj.
                destruct (N.le_gt_cases j base); [apply Hbelow; assumption|].
                destruct (N.eq_dec j (base + 1)) as [->|]; [exact Hne1|apply Hr; lia].
             ++ symmetry. apply locate_cert_some; [lia|exact Hj3].
          -- destruct Hag as [Hz ->]. destruct (Z.eqb_spec z 0); [lia|]. rewrite N.add_0_l.
             apply lex_gt_lt in Ecmp.
             assert (Hne1 : snth S (base + 1) <> q) by (apply not_eq_sym, lt_neq; exact Ecmp).
             destruct (rscan_spec q k base Eb Hnq Ebase Hmod HE1 HE2 Hafter
                         (N.to_nat (Eb - 1 - (base + 1))) (base + 1) (N.to_nat (Eb - base))
                         ltac:(lia) ltac:(lia) eq_refl ltac:(lia) Hne1) as (r & Er & Hr).
             replace (base + 1 - base + 1) with 2 in Er by lia. rewrite Er. f_equal.
             destruct Hr as [[-> Hr]|(j & Hj1 & Hj2 & Hj3 & ->)].
             ++ symmetry. apply locate_cert_none. intros j Hj.
                destruct (N.le_gt_cases j base); [apply Hbelow; assumption|].
                destruct (N.eq_dec j (base + 1)) as [->|]; [exact Hne1|apply Hr; lia].
             ++ symmetry. apply locate_cert_some; [lia|exact Hj3].
        * f_equal. symmetry. apply locate_cert_none. intros j Hj.
          destruct (N.le_gt_cases j base); [apply Hbelow; assumption|apply Habove; lia].
  Qed.
End Stream.
