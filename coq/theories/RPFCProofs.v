(* StringDictionaryRPFC (model RPFCDefs.v) answers every query as the specification does, on every
   object that has the layout [rpfc_layout_ok] (certified per real object by the verified checker
   [rpfc_layout_chk]); the memory-error / fuel results [None] of the model are unreachable.

   Flat view (as in the PFC proofs): string number i (0-based) is a bucket header iff i mod b = 0;
   [E i] is the bit position at which the encoding of string i ENDS (for a header: the byte after its
   NUL, offset 0).  Two facts drive everything:
     header : a C-string read at the start of bucket k returns snth S ((k-1)*b) and ends at E ((k-1)*b);
     step   : decode_string at E i with decoded = snth S i returns snth S (i+1), lcp, and E (i+1)
              (theorem [rpfc_decode_string_spec]). *)
From LibCSD Require Import Base VByteDefs VByteProofs Spec SpecProofs PFCDefs PFCLayout LexLemmas
  PFCBuildProofs PFCExtractProofs PFCLocateProofs PFCTheorems PFCPrefixProofs
  RePairDefs RePairProofs RPDACDefs RPDACProofs RPFCDefs.
From Coq Require Import Lia ZifyBool ZifyNat ZifyN.
Ltac Zify.zify_post_hook ::= Z.to_euclidean_division_equations.
Local Open Scope N_scope.

(* ====================================================================== *)
(* A. the layout of a well-formed object                                   *)
(* ====================================================================== *)
(* the symbols decodeSymbol reads from p are exactly [syms]; the stream then stands at the result *)
Fixpoint read_syms (d : rpfc) (p : bpos) (syms : list N) : option bpos :=
  match syms with
  | [] => Some p
  | s :: r =>
      match decode_symbol d p with
      | Some (s', p1) => if s' =? s then read_syms d p1 r else None
      | None => None
      end
  end.

(* byte offset of a bucket header: the first bucket starts at 0, every other one at the next byte
   boundary after the last internal string of its predecessor (the constructor's
   `if (offset > 0) bytesStrings++`; the iterator relies on it) *)
Definition hdr_off (i : N) (ppos : bpos) : N := if i =? 0 then 0 else align_pos ppos.

(* string number i, whose predecessor is [prev] and whose predecessor's encoding ends at [ppos] *)
Definition item_ok (d : rpfc) (b i : N) (prev cur : str) (ppos epos : bpos) : Prop :=
  lenN cur < r_maxlength d /\
  if i mod b =? 0 then
    nthN (r_bl d) (i / b + 1) = Some (hdr_off i ppos) /\
    (exists rest, text_at (r_text d) (hdr_off i ppos) (cur ++ 0 :: rest)) /\
    epos = (hdr_off i ppos + lenN cur + 1, 0)
  else
    exists syms, read_syms d ppos syms = Some epos /\
      expand_list (r_rules d) (r_t d) (length (r_rules d)) syms = Some (enc_rp prev cur) /\
      vb_cap (r_rules d) (r_t d) (r_maxlength d) syms = true.

Definition grammar_ok (d : rpfc) : Prop :=
  1 <= r_t d <= 256 /\ rules_wf (r_t d) (r_rules d) /\ r_t d + lenN (r_rules d) < 2 ^ 31 /\ r_maxchar d = 255.

Definition stream_ok (d : rpfc) (b : N) (S : list str) (E : N -> bpos) : Prop :=
  forall i, i < lenN S -> item_ok d b i (snth S (i - 1)) (snth S i) (E (i - 1)) (E i).

Definition rpfc_layout_ok (d : rpfc) (b : N) (S : list str) : Prop :=
  r_bsize d = b /\ r_elements d = lenN S /\ r_buckets d = (lenN S + b - 1) / b /\
  grammar_ok d /\ exists E, stream_ok d b S E.

(* inputs: as for PFC, plus: no byte 255 (the end mark) and lengths below 2^14 (decodeString
   fetches only two bytes of the VByte of the shared-prefix length: see rpfc_vbyte3_refuted) *)
Definition rpfc_input (S : list str) : Prop :=
  pfc_input S /\ Forall (Forall (fun c => c <> 255)) S /\ Forall (fun s => lenN s < 2 ^ 14) S.

(* ====================================================================== *)
(* B. the checker is sound                                                 *)
(* ====================================================================== *)
Lemma read_until_eq fuel d p want acc syms :
  read_until fuel d p want acc syms =
  if want <=? lenN acc then Some (p, acc, syms)
  else match fuel with
       | O => None
       | S f =>
           match decode_symbol d p with
           | None => None
           | Some (sym, p') =>
               match expand_sym (r_rules d) (r_t d) (length (r_rules d)) sym with
               | None => None
               | Some x => read_until f d p' want (acc ++ x) (syms ++ [sym])
               end
           end
       end.
Proof. destruct fuel; reflexivity. Qed.

Lemma read_syms_app d : forall u v p,
  read_syms d p (u ++ v) = match read_syms d p u with Some p1 => read_syms d p1 v | None => None end.
Proof.
  induction u as [|a u IH]; intros v p; cbn [app read_syms]; [reflexivity|].
  destruct (decode_symbol d p) as [[s' p1]|]; [|reflexivity].
  destruct (s' =? a); [apply IH|reflexivity].
Qed.

Lemma read_until_spec d want : forall fuel p acc syms0 e bytes syms,
  read_until fuel d p want acc syms0 = Some (e, bytes, syms) ->
  exists new x, syms = syms0 ++ new /\ read_syms d p new = Some e /\
    expand_list (r_rules d) (r_t d) (length (r_rules d)) new = Some x /\ bytes = acc ++ x.
Proof.
  induction fuel as [|f IH]; intros p acc syms0 e bytes syms H; rewrite read_until_eq in H.
  - destruct (want <=? lenN acc); [|discriminate]. inversion H; subst.
    exists [], []. rewrite !app_nil_r. repeat split; reflexivity.
  - destruct (want <=? lenN acc).
    + inversion H; subst. exists [], []. rewrite !app_nil_r. repeat split; reflexivity.
    + destruct (decode_symbol d p) as [[sym p']|] eqn:Ed; [|discriminate].
      destruct (expand_sym (r_rules d) (r_t d) (length (r_rules d)) sym) as [x|] eqn:Ex; [|discriminate].
      destruct (IH _ _ _ _ _ _ H) as (new & y & E1 & E2 & E3 & E4).
      exists (sym :: new), (x ++ y). split; [rewrite E1, <- app_assoc; reflexivity|].
      split; [cbn [read_syms]; rewrite Ed, N.eqb_refl; exact E2|].
      split; [rewrite expand_list_cons, Ex, E3; reflexivity|].
      rewrite E4, app_assoc. reflexivity.
Qed.

Lemma prefix_eqb_sound : forall a t, prefix_eqb a t = true -> exists r, t = a ++ r.
Proof.
  induction a as [|x a IH]; intros t H; cbn [prefix_eqb] in H; [exists t; reflexivity|].
  destruct t as [|y t]; [discriminate|]. apply andb_true_iff in H. destruct H as [H1 H2].
  apply N.eqb_eq in H1. subst y. destruct (IH _ H2) as [r ->]. exists r. reflexivity.
Qed.

Lemma trace_from_sound d b : forall ss i prev ppos tr,
  trace_from d b i prev ppos ss = Some tr ->
  length tr = length ss /\
  forall j, (j < length ss)%nat ->
    item_ok d b (i + N.of_nat j) (nth j (prev :: ss) []) (nth j ss []) (nth j (ppos :: tr) (0, 0)) (nth j tr (0, 0)).
Proof.
  induction ss as [|s r IH]; intros i prev ppos tr H; cbn [trace_from] in H.
  - inversion H; subst. split; [reflexivity|]. intros j Hj. cbn [length] in Hj. lia.
  - assert (Hgen : forall e, item_ok d b i prev s ppos e ->
              option_map (cons e) (trace_from d b (i + 1) s e r) = Some tr ->
              length tr = length (s :: r) /\
              forall j, (j < length (s :: r))%nat ->
                item_ok d b (i + N.of_nat j) (nth j (prev :: s :: r) []) (nth j (s :: r) [])
                        (nth j (ppos :: tr) (0, 0)) (nth j tr (0, 0))).
    { intros e He Hm. destruct (trace_from d b (i + 1) s e r) as [tr'|] eqn:Et; [|discriminate].
      cbn [option_map] in Hm. inversion Hm; subst tr. destruct (IH _ _ _ _ Et) as [Hl Hit].
      split; [cbn [length]; lia|]. intros j Hj. destruct j as [|j].
      - cbn [nth]. rewrite N.add_0_r. exact He.
      - cbn [length] in Hj. specialize (Hit j ltac:(lia)).
        replace (i + N.of_nat (Datatypes.S j)) with (i + 1 + N.of_nat j) by lia.
        change (nth (Datatypes.S j) (prev :: s :: r) []) with (nth j (s :: r) []).
        change (nth (Datatypes.S j) (s :: r) []) with (nth j r []).
        change (nth (Datatypes.S j) (ppos :: e :: tr') (0, 0)) with (nth j (e :: tr') (0, 0)).
        change (nth (Datatypes.S j) (e :: tr') (0, 0)) with (nth j tr' (0, 0)).
        exact Hit. }
    destruct (i mod b =? 0) eqn:Em.
    + destruct (nthN (r_bl d) (i / b + 1)) as [off|] eqn:Eo; [|discriminate].
      destruct ((off =? (if i =? 0 then 0 else align_pos ppos)) && (off <=? lenN (r_text d)) &&
                prefix_eqb (s ++ [0]) (skipN off (r_text d)) && (lenN s <? r_maxlength d)) eqn:Ec; [|discriminate].
      apply andb_true_iff in Ec. destruct Ec as [Ec Hml]. apply andb_true_iff in Ec. destruct Ec as [Ec Hpre].
      apply andb_true_iff in Ec. destruct Ec as [Hoff Hle].
      apply N.eqb_eq in Hoff. apply N.leb_le in Hle. apply N.ltb_lt in Hml.
      fold (hdr_off i ppos) in Hoff. subst off.
      refine (Hgen _ _ H). unfold item_ok. rewrite Em. split; [exact Hml|].
      split; [exact Eo|]. split; [|reflexivity].
      destruct (prefix_eqb_sound _ _ Hpre) as [rest Er]. exists rest. split; [exact Hle|].
      rewrite Er, <- app_assoc. reflexivity.
    + destruct (read_until (length (enc_rp prev s)) d ppos (lenN (enc_rp prev s)) [] []) as [[[e bytes] syms]|] eqn:Er;
        [|discriminate].
      destruct (list_eqb bytes (enc_rp prev s) && vb_cap (r_rules d) (r_t d) (r_maxlength d) syms &&
                (lenN s <? r_maxlength d)) eqn:Ec; [|discriminate].
      apply andb_true_iff in Ec. destruct Ec as [Ec Hml]. apply andb_true_iff in Ec. destruct Ec as [Heq Hcap].
      apply list_eqb_eq in Heq. apply N.ltb_lt in Hml.
      destruct (read_until_spec _ _ _ _ _ _ _ _ _ Er) as (new & x & E1 & E2 & E3 & E4).
      cbn [app] in E1, E4. subst syms bytes x.
      refine (Hgen _ _ H). unfold item_ok. rewrite Em. split; [exact Hml|].
      exists new. repeat split; assumption.
Qed.

Lemma item_ok_first d b prev prev' cur ppos ppos' e :
  item_ok d b 0 prev cur ppos e -> item_ok d b 0 prev' cur ppos' e.
Proof.
  unfold item_ok. assert (E0 : 0 mod b = 0) by (destruct b; reflexivity).
  rewrite E0. cbn [N.eqb]. unfold hdr_off. cbn [N.eqb]. auto.
Qed.

Theorem rpfc_layout_chk_sound d S :
  rpfc_layout_chk d S = true -> rpfc_layout_ok d (r_bsize d) S /\ 1 <= r_bsize d.
Proof.
  unfold rpfc_layout_chk. intros H.
  repeat (apply andb_true_iff in H; let H' := fresh "C" in destruct H as [H H']).
  destruct (trace_from d (r_bsize d) 0 [] (0, 0) S) as [tr|] eqn:Et; [|discriminate].
  apply N.leb_le in H. apply N.eqb_eq in C6, C5, C0. apply N.leb_le in C4, C3. apply N.ltb_lt in C1.
  split; [|exact H]. split; [reflexivity|]. split; [exact C6|]. split; [exact C5|].
  split.
  { split; [lia|]. split; [|split; assumption].
    intros i a c Hi. pose proof (rules_ok_from_spec _ _ _ C2 _ _ _ Hi) as Hr.
    rewrite N.add_0_l in Hr. exact Hr. }
  destruct (trace_from_sound _ _ _ _ _ _ _ Et) as [Hl Hit].
  exists (fun k => nth (N.to_nat k) tr (0, 0)). intros i Hi.
  specialize (Hit (N.to_nat i) ltac:(unfold lenN in Hi; lia)).
  rewrite N.add_0_l, N2Nat.id in Hit. fold (snth S i) in Hit.
  destruct (N.eq_dec i 0) as [->|Hne].
  - eapply item_ok_first. exact Hit.
  - replace (N.to_nat i) with (Datatypes.S (N.to_nat (i - 1))) in Hit at 1 2 by lia.
    cbn [nth] in Hit. exact Hit.
Qed.

Lemma rpfc_inputb_sound S : rpfc_inputb S = true -> rpfc_input S.
Proof.
  unfold rpfc_inputb. intros H.
  repeat (apply andb_true_iff in H; let H' := fresh "C" in destruct H as [H H']).
  rewrite forallb_forall in C2, C0.
  split; [|split].
  - split; [destruct S; [discriminate|congruence]|].
    split; [apply Forall_forall; intros s Hs; apply Forall_forall; intros c Hc;
            pose proof (C2 s Hs) as H1; rewrite forallb_forall in H1; specialize (H1 c Hc);
            apply andb_true_iff in H1; destruct H1 as [H1 _]; apply negb_true_iff, N.eqb_neq in H1; exact H1|].
    split; [apply sorted_lt_b_sound; exact C1|].
    split; [apply Forall_forall; intros s Hs; specialize (C0 s Hs); apply N.ltb_lt in C0;
            assert (2 ^ 14 < 2 ^ 32) by (apply N.pow_lt_mono_r; lia); lia|].
    apply N.ltb_lt in C. exact C.
  - apply Forall_forall; intros s Hs; apply Forall_forall; intros c Hc.
    pose proof (C2 s Hs) as H1; rewrite forallb_forall in H1; specialize (H1 c Hc).
    apply andb_true_iff in H1; destruct H1 as [_ H1]. apply N.ltb_lt in H1. lia.
  - apply Forall_forall; intros s Hs. specialize (C0 s Hs). apply N.ltb_lt in C0. exact C0.
Qed.

(* ====================================================================== *)
(* C. decodeString                                                         *)
(* ====================================================================== *)
Lemma ds_vb_eq fuel d p vb :
  ds_vb fuel d p vb =
  if lenN vb <? 2 then
    match fuel with
    | O => None
    | S f =>
        match decode_symbol d p with
        | None => None
        | Some (rule, p') =>
            match expand_rule d rule with
            | None => None
            | Some x => let vb' := vb ++ x in if lenN vb' <=? r_maxlength d then ds_vb f d p' vb' else None
            end
        end
    end
  else Some (p, vb).
Proof. destruct fuel; reflexivity. Qed.

Lemma ds_body_eq fuel d p str :
  ds_body fuel d p str =
  match last_byte str with
  | None => None
  | Some c =>
      if c =? r_maxchar d then Some (p, str)
      else match fuel with
           | O => None
           | S f =>
               match decode_symbol d p with
               | None => None
               | Some (rule, p') =>
                   match expand_rule d rule with
                   | None => None
                   | Some x => let str' := str ++ x in
                               if lenN str' <=? r_maxlength d then ds_body f d p' str' else None
                   end
               end
           end
  end.
Proof. destruct fuel; reflexivity. Qed.

Lemma vb_len_le2 c : c < 2 ^ 14 -> (1 <= length (vb_encode c) <= 2)%nat.
Proof.
  intros H. unfold vb_encode. cbn [vb_encode_fuel].
  destruct (127 <? c) eqn:E1; [|cbn [length]; lia].
  assert (Hs : N.shiftr c 7 < 128).
  { rewrite N.shiftr_div_pow2. change (2 ^ 7) with 128. change (2 ^ 14) with 16384 in H. lia. }
  destruct (N.ltb_spec 127 (N.shiftr c 7)); [lia|]. cbn [length]. lia.
Qed.

Lemma lex_lt_lcp_lt : forall a b, lex_lt a b -> lcp a b < lenN b.
Proof.
  unfold lex_lt. induction a as [|x a IH]; intros [|y b] H; cbn [lex_compare lcp] in *; try discriminate.
  - rewrite lenN_cons. lia.
  - rewrite lenN_cons. destruct (N.eqb_spec x y) as [->|Hne]; [|lia].
    rewrite N.compare_refl in H. specialize (IH _ H). lia.
Qed.

Lemma last_byte_snoc l c : last_byte (l ++ [c]) = Some c.
Proof.
  unfold last_byte. rewrite lenN_app. change (lenN [c]) with 1.
  destruct (N.eqb_spec (lenN l + 1) 0); [lia|].
  rewrite nthN_app_r by lia. replace (lenN l + 1 - 1 - lenN l) with 0 by lia. reflexivity.
Qed.

Lemma last_byte_in l : l <> [] -> exists c, last_byte l = Some c /\ In c l.
Proof.
  intros H. destruct (exists_last H) as (l' & c & ->). exists c. split; [apply last_byte_snoc|].
  apply in_or_app. right. left. reflexivity.
Qed.

Lemma app_eq_prefix {A} : forall (v vb y r : list A), vb ++ y = v ++ r -> (length v <= length vb)%nat ->
  exists w, vb = v ++ w /\ r = w ++ y.
Proof.
  induction v as [|a v IH]; intros vb y r H Hl; cbn [app] in *.
  - exists vb. split; [reflexivity|]. symmetry. exact H.
  - destruct vb as [|c vb]; [cbn [length] in Hl; lia|]. cbn [app] in H. inversion H; subst.
    destruct (IH vb y r H2 ltac:(cbn [length] in Hl; lia)) as (w & -> & ->). exists w. split; reflexivity.
Qed.

Section DecodeString.
  Variable d : rpfc.
  Hypothesis Hg : grammar_ok d.

  Let rules := r_rules d.
  Let t := r_t d.

  Lemma expand_rule_of_sym s x : expand_sym rules t (length rules) s = Some x -> expand_rule d s = Some x.
  Proof.
    destruct Hg as (Ht & _ & Hsz & _). intros H. unfold expand_rule.
    apply (xsym_expand _ _ Ht Hsz). exact H.
  Qed.

  Lemma expand_list_len : forall syms y, expand_list rules t (length rules) syms = Some y ->
    (length syms <= length y)%nat.
  Proof.
    induction syms as [|a r IH]; intros y H; [cbn [length]; lia|].
    rewrite expand_list_cons in H.
    destruct (expand_sym rules t (length rules) a) as [x|] eqn:Ex; [|discriminate].
    destruct (expand_list rules t (length rules) r) as [y'|] eqn:Ey; [|discriminate].
    inversion H; subst. specialize (IH _ eq_refl).
    pose proof (expand_sym_nonempty _ _ _ _ _ Ex) as Hne.
    rewrite app_length. cbn [length]. destruct x; [congruence|cbn [length]; lia].
  Qed.

  (* the `while (read < 2)` loop: one or two symbols, at least two bytes *)
  Lemma ds_vb_spec syms target ppos epos :
    read_syms d ppos syms = Some epos ->
    expand_list rules t (length rules) syms = Some target ->
    vb_cap rules t (r_maxlength d) syms = true ->
    (3 <= length target)%nat ->
    exists p1 vb post y,
      ds_vb 2 d ppos [] = Some (p1, vb) /\ read_syms d p1 post = Some epos /\
      expand_list rules t (length rules) post = Some y /\ vb ++ y = target /\ (2 <= length vb)%nat.
  Proof.
    intros Hr He Hc Hl.
    destruct syms as [|a r]; [cbn [vb_cap] in Hc; discriminate|].
    cbn [read_syms] in Hr. destruct (decode_symbol d ppos) as [[s' p1]|] eqn:Ed; [|discriminate].
    destruct (N.eqb_spec s' a) as [->|]; [|discriminate].
    rewrite expand_list_cons in He.
    destruct (expand_sym rules t (length rules) a) as [xa|] eqn:Exa; [|discriminate].
    destruct (expand_list rules t (length rules) r) as [y|] eqn:Ey; [|discriminate].
    inversion He; subst target. clear He.
    cbn [vb_cap] in Hc. fold rules t in Hc. rewrite Exa in Hc.
    pose proof (expand_sym_nonempty _ _ _ _ _ Exa) as Hne.
    rewrite ds_vb_eq. change (lenN (@nil N) <? 2) with true. cbv iota.
    rewrite Ed, (expand_rule_of_sym _ _ Exa). cbn [app]. cbv zeta.
    destruct (N.leb_spec 2 (lenN xa)) as [H2|H2].
    - rewrite Hc. rewrite ds_vb_eq. destruct (N.ltb_spec (lenN xa) 2); [lia|].
      exists p1, xa, r, y. repeat split; auto. unfold lenN in H2. lia.
    - destruct r as [|a2 r2]; [discriminate|].
      destruct (expand_sym rules t (length rules) a2) as [x2|] eqn:Ex2; [|discriminate].
      assert (Hxa1 : lenN xa <=? r_maxlength d = true).
      { apply N.leb_le. apply N.leb_le in Hc. lia. }
      rewrite Hxa1. rewrite ds_vb_eq. destruct (N.ltb_spec (lenN xa) 2); [|lia].
      cbn [read_syms] in Hr. destruct (decode_symbol d p1) as [[s2 p2]|] eqn:Ed2; [|discriminate].
      destruct (N.eqb_spec s2 a2) as [->|]; [|discriminate].
      rewrite (expand_rule_of_sym _ _ Ex2). cbv zeta. rewrite lenN_app, Hc.
      pose proof (expand_sym_nonempty _ _ _ _ _ Ex2) as Hne2.
      rewrite ds_vb_eq.
      assert (Hl2 : 2 <= lenN (xa ++ x2)).
      { rewrite lenN_app. destruct xa; [congruence|]. destruct x2; [congruence|]. rewrite !lenN_cons. lia. }
      destruct (N.ltb_spec (lenN (xa ++ x2)) 2); [lia|].
      rewrite expand_list_cons, Ex2 in Ey.
      destruct (expand_list rules t (length rules) r2) as [y2|] eqn:Ey2; [|discriminate].
      inversion Ey; subst y.
      exists p2, (xa ++ x2), r2, y2. split; [reflexivity|]. split; [exact Hr|]. split; [exact Ey2|].
      split; [rewrite app_assoc; reflexivity|]. unfold lenN in Hl2. lia.
  Qed.

  (* the `while (str[*strLen - 1] != maxchar)` loop *)
  Lemma ds_body_spec (pre suf : list N) epos :
    Forall (fun c => c <> 255) pre -> Forall (fun c => c <> 255) suf ->
    lenN pre + lenN suf + 1 <= r_maxlength d ->
    forall post p w y fuel,
      read_syms d p post = Some epos ->
      expand_list rules t (length rules) post = Some y ->
      w ++ y = suf ++ [255] -> pre ++ w <> [] -> (length post < fuel)%nat ->
      ds_body fuel d p (pre ++ w) = Some (epos, pre ++ suf ++ [255]).
  Proof.
    intros Hpre Hsuf Hcap. destruct Hg as (_ & _ & _ & Hmc).
    induction post as [|a r IH]; intros p w y fuel Hr He Hw Hne Hf.
    - cbn [read_syms expand_list] in Hr, He. inversion Hr; inversion He; subst.
      rewrite app_nil_r in Hw. subst w. rewrite ds_body_eq.
      rewrite (app_assoc pre suf [255]), last_byte_snoc, Hmc, N.eqb_refl, <- app_assoc. reflexivity.
    - cbn [read_syms] in Hr. destruct (decode_symbol d p) as [[s' p1]|] eqn:Ed; [|discriminate].
      destruct (N.eqb_spec s' a) as [->|]; [|discriminate].
      rewrite expand_list_cons in He.
      destruct (expand_sym rules t (length rules) a) as [xa|] eqn:Exa; [|discriminate].
      destruct (expand_list rules t (length rules) r) as [y'|] eqn:Ey; [|discriminate].
      inversion He; subst y. clear He.
      pose proof (expand_sym_nonempty _ _ _ _ _ Exa) as Hxne.
      (* w is a proper prefix: w ++ z = suf *)
      assert (Hz : exists z, xa ++ y' = z ++ [255] /\ suf = w ++ z).
      { assert (Hn : xa ++ y' <> []) by (destruct xa; [congruence|discriminate]).
        destruct (exists_last Hn) as (z & c & Ez). rewrite Ez in Hw.
        rewrite app_assoc in Hw. apply app_inj_tail in Hw. destruct Hw as [Hw ->].
        exists z. split; [exact Ez|]. symmetry. exact Hw. }
      destruct Hz as (z & Ez & Es).
      rewrite ds_body_eq.
      destruct (last_byte_in _ Hne) as (c & Ec & Hin). rewrite Ec.
      assert (Hc : c <> 255).
      { apply in_app_or in Hin. destruct Hin as [Hin|Hin].
        - rewrite Forall_forall in Hpre. apply Hpre. exact Hin.
        - rewrite Forall_forall in Hsuf. apply Hsuf. rewrite Es. apply in_or_app. left. exact Hin. }
      rewrite Hmc. destruct (N.eqb_spec c 255); [contradiction|].
      destruct fuel as [|f]; [cbn [length] in Hf; lia|].
      rewrite Ed, (expand_rule_of_sym _ _ Exa). cbv zeta.
      assert (Hlen : lenN ((pre ++ w) ++ xa) <=? r_maxlength d = true).
      { apply N.leb_le. rewrite !lenN_app.
        assert (E : (w ++ xa) ++ y' = suf ++ [255])
          by (rewrite <- app_assoc, Ez, Es, <- app_assoc; reflexivity).
        apply (f_equal lenN) in E. rewrite !lenN_app in E. change (lenN [255]) with 1 in E. lia. }
      rewrite Hlen. rewrite <- app_assoc.
      apply (IH p1 (w ++ xa) y' f Hr eq_refl).
      + rewrite <- app_assoc, Ez, Es, <- app_assoc. reflexivity.
      + intros E. apply app_eq_nil in E. destruct E as [_ E]. apply app_eq_nil in E. destruct E as [_ E]. contradiction.
      + cbn [length] in Hf. lia.
  Qed.

  (* Theorem 1 in its local form: one internal string *)
  Lemma decode_string_item prev cur ppos epos syms :
    read_syms d ppos syms = Some epos ->
    expand_list rules t (length rules) syms = Some (enc_rp prev cur) ->
    vb_cap rules t (r_maxlength d) syms = true ->
    lenN cur < r_maxlength d -> lenN cur < 2 ^ 14 -> lex_lt prev cur ->
    Forall (fun c => c <> 255) prev -> Forall (fun c => c <> 255) cur ->
    decode_string d ppos prev = Some (epos, cur, lcp prev cur).
  Proof.
    intros Hr He Hc Hml H14 Hlt Hp255 Hc255.
    pose proof (LexLemmas.lcp_le_l prev cur) as Hl1. pose proof (LexLemmas.lcp_le_r prev cur) as Hl2.
    pose proof (lex_lt_lcp_lt _ _ Hlt) as Hl3.
    set (l := lcp prev cur) in *.
    pose proof (vb_len_le2 l ltac:(lia)) as HV.
    assert (Hsuflen : lenN (skipN l cur) = lenN cur - l) by apply lenN_skipN.
    assert (Htl : (3 <= length (enc_rp prev cur))%nat).
    { unfold enc_rp. fold l. rewrite !app_length. cbn [length]. unfold lenN in Hsuflen, Hl3. lia. }
    destruct (ds_vb_spec _ _ _ _ Hr He Hc Htl) as (p1 & vb & post & y & E1 & E2 & E3 & E4 & E5).
    unfold decode_string. rewrite E1.
    unfold enc_rp in E4. fold l in E4.
    destruct (app_eq_prefix _ _ _ _ E4 ltac:(lia)) as (w & -> & Ew).
    assert (H32 : l < W32).
    { unfold W32. assert (2 ^ 14 < 2 ^ 32) by (apply N.pow_lt_mono_r; lia). lia. }
    rewrite (vbyte_roundtrip l w H32).
    destruct (N.leb_spec l (lenN prev)); [|lia].
    rewrite skipN_app_exact.
    assert (Hpre : lenN (firstN l prev) = l) by (apply lenN_firstN; lia).
    assert (Hwl : lenN w + lenN y = lenN cur - l + 1).
    { rewrite <- lenN_app, <- Ew, lenN_app, Hsuflen. reflexivity. }
    destruct (N.leb_spec (lenN (firstN l prev ++ w)) (r_maxlength d)) as [_|Hbad];
      [|rewrite lenN_app in Hbad; lia].
    assert (Hne : firstN l prev ++ w <> []).
    { intros E. apply app_eq_nil in E. destruct E as [E1' E2']. subst w.
      rewrite E1' in Hpre. change (lenN (@nil N)) with 0 in Hpre.
      (* l = 0: the VByte is one byte, so vb = V ++ [] has length 1 < 2 *)
      rewrite app_nil_r in E5. assert (l < 128) by lia.
      rewrite (vb_encode_small l ltac:(lia)) in E5. cbn [length] in E5. lia. }
    assert (HF1 : Forall (fun c => c <> 255) (firstN l prev)).
    { unfold firstN. rewrite <- (firstn_skipn (N.to_nat l) prev) in Hp255.
      apply Forall_app in Hp255. tauto. }
    assert (HF2 : Forall (fun c => c <> 255) (skipN l cur)) by (apply Forall_skipn; exact Hc255).
    assert (Hfuel : (length post < Datatypes.S (N.to_nat (r_maxlength d)))%nat).
    { pose proof (expand_list_len _ _ E3). unfold lenN in Hwl, Hml. lia. }
    rewrite (ds_body_spec (firstN l prev) (skipN l cur) epos HF1 HF2 ltac:(lia) post p1 w y _ E2 E3 (eq_sym Ew) Hne Hfuel).
    rewrite app_assoc, removelast_last. unfold l. rewrite LexLemmas.lcp_rebuild. reflexivity.
  Qed.
End DecodeString.

(* ====================================================================== *)
(* D. the flat stream view of a well-formed object                         *)
(* ====================================================================== *)
Lemma buckets_div n b k : 1 <= b -> 1 <= k -> (k <= (n + b - 1) / b <-> (k - 1) * b < n).
Proof.
  intros Hb Hk. assert (Hb0 : b <> 0) by lia.
  pose proof (N.div_mod (n + b - 1) b Hb0) as Hd.
  pose proof (N.mod_lt (n + b - 1) b Hb0) as Hm.
  set (q := (n + b - 1) / b) in *. set (r := (n + b - 1) mod b) in *.
  assert (Ek : k * b = (k - 1) * b + b) by (apply mul_pred_succ; lia).
  split; intros H.
  - assert (k * b <= q * b) by (apply N.mul_le_mono_r; exact H). nia.
  - destruct (N.le_gt_cases k q) as [|Hgt]; [assumption|exfalso].
    assert ((q + 1) * b <= k * b) by (apply N.mul_le_mono_r; lia). nia.
Qed.

Section Stream.
  Variables (d : rpfc) (b : N) (S : list str) (E : N -> bpos).
  Hypothesis Hbs : r_bsize d = b.
  Hypothesis Hel : r_elements d = lenN S.
  Hypothesis Hbk : r_buckets d = (lenN S + b - 1) / b.
  Hypothesis Hg : grammar_ok d.
  Hypothesis HE : stream_ok d b S E.
  Hypothesis Hb : 1 <= b.
  Hypothesis Hin : rpfc_input S.

  Lemma Hnf : Forall nul_free S. Proof. destruct Hin as ((_ & H & _) & _). exact H. Qed.
  Lemma Hsort : sorted_lt S. Proof. destruct Hin as ((_ & _ & H & _) & _). exact H. Qed.
  Lemma Hne : S <> []. Proof. destruct Hin as ((H & _) & _). exact H. Qed.
  Lemma Hn32 : lenN S < 2 ^ 32. Proof. destruct Hin as ((_ & _ & _ & _ & H) & _). exact H. Qed.

  Lemma s_nul_free i : i < lenN S -> nul_free (snth S i).
  Proof. intros H. pose proof Hnf as F. rewrite Forall_forall in F. apply F, snth_In, H. Qed.

  Lemma s_no255 i : i < lenN S -> Forall (fun c => c <> 255) (snth S i).
  Proof. intros H. destruct Hin as (_ & F & _). rewrite Forall_forall in F. apply F, snth_In, H. Qed.

  Lemma s_len14 i : i < lenN S -> lenN (snth S i) < 2 ^ 14.
  Proof. intros H. destruct Hin as (_ & _ & F). rewrite Forall_forall in F. apply (F (snth S i)), snth_In, H. Qed.

  Lemma s_maxlen i : i < lenN S -> lenN (snth S i) < r_maxlength d.
  Proof. intros H. destruct (HE i H) as [Hm _]. exact Hm. Qed.

  Lemma buckets_iff k : 1 <= k -> (k <= r_buckets d <-> (k - 1) * b < lenN S).
  Proof. intros Hk. rewrite Hbk. apply buckets_div; assumption. Qed.

  Lemma buckets_pos : 1 <= r_buckets d.
  Proof.
    apply (buckets_iff 1); [lia|]. pose proof Hne. destruct S; [congruence|]. rewrite lenN_cons. lia.
  Qed.

  (* Theorem 1, flat form: one decodeString call moves from string i to string i+1 *)
  Lemma stream_dstep i : i + 1 < lenN S -> (i + 1) mod b <> 0 ->
    decode_string d (E i) (snth S i) = Some (E (i + 1), snth S (i + 1), lcp (snth S i) (snth S (i + 1))).
  Proof.
    intros Hi Hm. destruct (HE (i + 1) Hi) as [Hml Hit].
    destruct (N.eqb_spec ((i + 1) mod b) 0) as [|_]; [contradiction|].
    rewrite N.add_sub in Hit. destruct Hit as (syms & E1 & E2 & E3).
    apply (decode_string_item d Hg _ _ _ _ syms E1 E2 E3 Hml).
    - apply s_len14; exact Hi.
    - apply snth_lt; [exact Hsort|lia|exact Hi].
    - apply s_no255; lia.
    - apply s_no255; exact Hi.
  Qed.

  Lemma stream_dstep' i : i + 1 < lenN S -> (i + 1) mod b <> 0 ->
    dstep d (E i, snth S i) = Some (E (i + 1), snth S (i + 1)).
  Proof. intros Hi Hm. unfold dstep. cbn [fst snd]. rewrite (stream_dstep i Hi Hm). reflexivity. Qed.

  (* the header of bucket k *)
  Lemma stream_header k : 1 <= k -> k <= r_buckets d ->
    exists off rest, (k - 1) * b < lenN S /\
      nthN (r_bl d) k = Some off /\ text_at (r_text d) off (snth S ((k - 1) * b) ++ 0 :: rest) /\
      E ((k - 1) * b) = (off + lenN (snth S ((k - 1) * b)) + 1, 0) /\
      off = hdr_off ((k - 1) * b) (E ((k - 1) * b - 1)).
  Proof.
    intros Hk1 Hk2. pose proof (proj1 (buckets_iff k Hk1) Hk2) as Hlt.
    destruct (HE _ Hlt) as [_ Hit].
    rewrite (bucket_base_mod k b ltac:(lia)) in Hit. cbn [N.eqb] in Hit.
    rewrite N.div_mul in Hit by lia. replace (k - 1 + 1) with k in Hit by lia.
    destruct Hit as (Ebl & (rest & Ht) & Ee).
    exists (hdr_off ((k - 1) * b) (E ((k - 1) * b - 1))), rest.
    split; [exact Hlt|]. split; [exact Ebl|]. split; [exact Ht|]. split; [exact Ee|reflexivity].
  Qed.

  Lemma get_header_stream k : 1 <= k -> k <= r_buckets d ->
    rpfc_get_header d k = Some (E ((k - 1) * b), snth S ((k - 1) * b)).
  Proof.
    intros Hk1 Hk2. destruct (stream_header k Hk1 Hk2) as (off & rest & Hlt & Ebl & Ht & Ee & _).
    unfold rpfc_get_header, get_header. cbn [hdr_view p_bl p_text]. rewrite Ebl.
    rewrite (cstr_at_spec _ _ _ _ Ht (s_nul_free _ Hlt)).
    destruct (N.ltb_spec (lenN (snth S ((k - 1) * b))) (r_maxlength d)) as [_|Hbad].
    - rewrite Ee. reflexivity.
    - pose proof (s_maxlen _ Hlt). lia.
  Qed.

  Lemma strcmp_stream k q : 1 <= k -> k <= r_buckets d -> nul_free q ->
    strcmp_at (hdr_view d) k q = Some (lex_compare (snth S ((k - 1) * b)) q).
  Proof.
    intros Hk1 Hk2 Hq. destruct (stream_header k Hk1 Hk2) as (off & rest & Hlt & Ebl & [Hle Hs] & _).
    unfold strcmp_at. cbn [hdr_view p_bl p_text]. rewrite Ebl.
    destruct (N.leb_spec off (lenN (r_text d))); [|lia]. rewrite Hs.
    apply c_strcmp_spec; [apply s_nul_free; exact Hlt|exact Hq].
  Qed.

  Lemma strncmp_stream k p : 1 <= k -> k <= r_buckets d -> nul_free p ->
    strncmp_at (hdr_view d) k p = Some (pcls p (snth S ((k - 1) * b))).
  Proof.
    intros Hk1 Hk2 Hq. destruct (stream_header k Hk1 Hk2) as (off & rest & Hlt & Ebl & [Hle Hs] & _).
    unfold strncmp_at. cbn [hdr_view p_bl p_text]. rewrite Ebl.
    destruct (N.leb_spec off (lenN (r_text d))); [|lia]. rewrite Hs.
    apply c_strncmp_spec; [apply s_nul_free; exact Hlt|exact Hq].
  Qed.

  (* everything the scans need to know about bucket k, with the multiplication hidden:
     the bucket holds the strings number base .. Eb-1 *)
  Lemma rbucket_facts k : 1 <= k -> k <= r_buckets d ->
    exists base Eb, base = (k - 1) * b /\ base mod b = 0 /\ base < Eb /\ Eb <= base + b /\ Eb <= lenN S /\
      rpfc_scanneable d k = Eb - base /\
      rpfc_get_header d k = Some (E base, snth S base) /\
      (Eb < lenN S -> Eb = base + b /\ k + 1 <= r_buckets d) /\
      (k < r_buckets d -> Eb = base + b /\ Eb < lenN S).
  Proof.
    intros Hk1 Hk2. pose proof (proj1 (buckets_iff k Hk1) Hk2) as Hlt.
    pose proof (buckets_iff (k + 1) ltac:(lia)) as Hnext. rewrite N.add_sub in Hnext.
    pose proof (mul_pred_succ k b Hk1) as Ekb.
    pose proof (bucket_base_mod k b ltac:(lia)) as Hmod.
    pose proof (get_header_stream k Hk1 Hk2) as Egh.
    assert (Hb0 : b <> 0) by lia.
    pose proof (N.div_mod (lenN S) b Hb0) as Hdm. pose proof (N.mod_lt (lenN S) b Hb0) as Hml.
    (* the last bucket *)
    assert (Hlast : k = r_buckets d -> lenN S - (k - 1) * b = (if lenN S mod b =? 0 then b else lenN S mod b)).
    { intros ->. pose proof (buckets_iff (r_buckets d + 1) ltac:(lia)) as Hn2. rewrite N.add_sub in Hn2.
      assert (Hnot : ~ r_buckets d * b < lenN S) by (intros Hc; apply Hn2 in Hc; lia).
      clear Hn2 Hnext Egh.
      assert (Hdiv : (r_buckets d - 1) * b mod b = 0) by exact Hmod.
      pose proof (N.div_mod ((r_buckets d - 1) * b) b Hb0) as Hd2. rewrite Hdiv, N.div_mul in Hd2 by lia.
      set (base := (r_buckets d - 1) * b) in *.
      (* lenN S = base + x with 1 <= x <= b *)
      assert (Hx : lenN S - base <= b) by lia.
      destruct (N.eqb_spec (lenN S mod b) 0) as [E0|E0].
      - assert (Hm2 : (lenN S - base) mod b = 0).
        { replace (lenN S) with (base + (lenN S - base)) in E0 by lia.
          rewrite N.add_mod, Hmod, N.add_0_l, N.mod_mod in E0 by lia. exact E0. }
        destruct (N.eq_dec (lenN S - base) b) as [|Hneq]; [assumption|].
        rewrite N.mod_small in Hm2 by lia. lia.
      - destruct (N.eq_dec (lenN S - base) b) as [Heq|Hneq].
        + exfalso. apply E0. replace (lenN S) with (base + b) by lia.
          rewrite N.add_mod, Hmod, N.mod_same, N.add_0_l by lia. apply N.mod_0_l. lia.
        + replace (lenN S) with (base + (lenN S - base)) at 2 by lia.
          rewrite N.add_mod, Hmod, N.add_0_l, N.mod_mod by lia. symmetry. apply N.mod_small. lia. }
    unfold rpfc_scanneable, scanneable_of. cbn [hdr_view p_buckets p_elements p_bsize].
    rewrite Hbs, Hel.
    revert Hlt Hnext Ekb Hmod Egh Hlast. generalize ((k - 1) * b). intros base Hlt Hnext Ekb Hmod Egh Hlast.
    exists base, (base + N.min b (lenN S - base)).
    split; [reflexivity|]. split; [exact Hmod|]. split; [lia|]. split; [lia|]. split; [lia|].
    split.
    { destruct (N.eqb_spec k (r_buckets d)) as [Ek|Ek].
      - specialize (Hlast Ek). cbn [andb]. destruct (N.eqb_spec (lenN S mod b) 0); cbn [negb]; lia.
      - cbn [andb]. assert (k * b < lenN S) by (apply Hnext; lia). lia. }
    split; [exact Egh|]. split.
    - intros H. assert (k * b < lenN S) by lia. split; [lia|]. apply Hnext. assumption.
    - intros H. assert (k * b < lenN S) by (apply Hnext; lia). lia.
  Qed.

  (* ---------------------------------------------------------------- *)
  (* E. extract                                                        *)
  (* ---------------------------------------------------------------- *)
  Lemma in_bucket_mod' base i : base mod b = 0 -> base <= i -> i + 1 < base + b -> (i + 1) mod b <> 0.
  Proof.
    intros H0 H1 H2. replace (i + 1) with (base + (i + 1 - base)) by lia.
    rewrite mod_of_zero_plus by (auto; lia). lia.
  Qed.

  Lemma iter_dstep base : base mod b = 0 -> forall j, j < b -> base + j < lenN S ->
    N.iter j (fun o => opt_bind o (dstep d)) (Some (E base, snth S base)) = Some (E (base + j), snth S (base + j)).
  Proof.
    intros H0 j. induction j as [|j IH] using N.peano_ind; intros Hj Hn.
    - rewrite N.add_0_r. reflexivity.
    - rewrite N.iter_succ, IH by lia. cbn [opt_bind].
      replace (base + N.succ j) with (base + j + 1) by lia.
      apply stream_dstep'; [lia|]. apply (in_bucket_mod' base); [exact H0|lia|lia].
  Qed.

  Theorem rpfc_extract_stream id : rpfc_extract d id = Some (spec_extract S id).
  Proof.
    unfold rpfc_extract, spec_extract. rewrite Hel, Hbs.
    destruct (N.ltb_spec 0 id) as [Hid|Hid]; cbn [andb].
    2:{ assert (id = 0) by lia. subst id. reflexivity. }
    destruct (N.eqb_spec id 0) as [|_]; [lia|].
    destruct (N.leb_spec id (lenN S)) as [Hle|Hgt].
    2:{ f_equal. symmetry. unfold nthN. apply nth_error_None. unfold lenN in Hgt. lia. }
    assert (Hb0 : b <> 0) by lia. pose proof Hn32 as H32.
    pose proof (N.div_mod (id - 1) b Hb0) as Hdm. pose proof (N.mod_lt (id - 1) b Hb0) as Hml.
    assert (Hq : (id - 1) / b <= id - 1).
    { apply N.div_le_upper_bound; [lia|]. rewrite <- (N.mul_1_l (id - 1)) at 1. apply N.mul_le_mono_r. lia. }
    pose proof (N.mod_le (id - 1) b Hb0) as Hmle.
    rewrite !W32m_small by lia.
    set (k := 1 + (id - 1) / b).
    assert (Hbase : (k - 1) * b = id - 1 - (id - 1) mod b).
    { unfold k. replace (1 + (id - 1) / b - 1) with ((id - 1) / b) by lia.
      rewrite (N.mul_comm _ b). revert Hdm. generalize (b * ((id - 1) / b)). intros; lia. }
    assert (Hk1 : 1 <= k) by (unfold k; lia).
    clearbody k.
    assert (Hk2 : k <= r_buckets d) by (apply buckets_iff; [exact Hk1|rewrite Hbase; lia]).
    rewrite (get_header_stream k Hk1 Hk2).
    pose proof (bucket_base_mod k b Hb0) as Hmod0.
    revert Hbase Hmod0. generalize ((k - 1) * b). intros base Hbase Hmod0.
    rewrite (iter_dstep base Hmod0 _ Hml ltac:(lia)).
    replace (base + (id - 1) mod b) with (id - 1) by lia.
    rewrite (nthN_snth S (id - 1)) by lia. reflexivity.
  Qed.

  (* ---------------------------------------------------------------- *)
  (* F. locateBucket and locate                                        *)
  (* ---------------------------------------------------------------- *)
  Let H (k : N) : str := snth S ((k - 1) * b).

  Lemma H_lt j j' : 1 <= j -> j < j' -> j' <= r_buckets d -> lex_lt (H j) (H j').
  Proof.
    intros H1 H2 H3. unfold H. apply snth_lt; [exact Hsort| |apply buckets_iff; lia].
    apply N.mul_lt_mono_pos_r; lia.
  Qed.

  Definition rbucket_post (q : str) (found : bool) (k : N) : Prop :=
    k <= r_buckets d /\
    if found then 1 <= k /\ H k = q
    else (forall j, 1 <= j -> j <= k -> lex_lt (H j) q) /\
         (forall j, k < j -> j <= r_buckets d -> lex_lt q (H j)).

  Lemma rlocate_bucket_loop_spec q : nul_free q ->
    forall fuel l r center cmp,
    1 <= l -> r <= r_buckets d -> l <= r + 1 ->
    (N.to_nat (r + 1 - l) < fuel)%nat ->
    (forall j, 1 <= j -> j < l -> lex_lt (H j) q) ->
    (forall j, r < j -> j <= r_buckets d -> lex_lt q (H j)) ->
    (r < l -> match cmp with Lt => center | _ => center - 1 end = r) ->
    exists found k, locate_bucket_loop fuel (hdr_view d) q l r center cmp = Some (found, k) /\
                    rbucket_post q found k.
  Proof.
    intros Hnq. induction fuel as [|f IH]; intros l r center cmp Hl Hr Hlr Hfuel Hlo Hhi Hexit; [lia|].
    cbn [locate_bucket_loop]. destruct (N.leb_spec l r) as [Hle|Hgt].
    - set (c := (l + r) / 2).
      assert (Hc : l <= c <= r) by (unfold c; lia).
      rewrite (strcmp_stream c q ltac:(lia) ltac:(lia) Hnq). fold (H c).
      destruct (lex_compare (H c) q) eqn:Ecmp.
      + exists true, c. split; [reflexivity|]. split; [lia|]. split; [lia|].
        apply lex_compare_eq in Ecmp. exact Ecmp.
      + apply IH; try lia.
        * intros j Hj1 Hj2. destruct (N.eq_dec j c) as [->|Hjc]; [exact Ecmp|].
          apply (lex_lt_trans _ (H c)); [|exact Ecmp]. apply H_lt; lia.
        * intros j Hj1 Hj2. apply Hhi; lia.
      + apply lex_gt_lt in Ecmp. apply IH; try lia.
        * intros j Hj1 Hj2. apply Hlo; lia.
        * intros j Hj1 Hj2. destruct (N.eq_dec j c) as [->|Hjc]; [exact Ecmp|].
          apply (lex_lt_trans _ (H c)); [exact Ecmp|]. apply H_lt; lia.
    - exists false, r. split; [rewrite (Hexit Hgt); reflexivity|].
      split; [exact Hr|]. split.
      + intros j Hj1 Hj2. apply Hlo; lia.
      + intros j Hj1 Hj2. apply Hhi; lia.
  Qed.

  Lemma rlocate_bucket_spec q : nul_free q ->
    exists found k, rpfc_locate_bucket d q = Some (found, k) /\ rbucket_post q found k.
  Proof.
    intros Hnq. unfold rpfc_locate_bucket, locate_bucket. cbn [hdr_view p_buckets].
    apply (rlocate_bucket_loop_spec q Hnq); try lia.
  Qed.

  Lemma locate_cert_none q : (forall j, j < lenN S -> snth S j <> q) -> spec_locate S q = 0.
  Proof.
    intros Hall. apply spec_locate_absent. intros Hin'.
    destruct (In_nth _ _ [] Hin') as (j & Hj & Ej).
    apply (Hall (N.of_nat j)).
    { unfold lenN, N.lt. rewrite <- Nat2N.inj_compare. apply Nat.compare_lt_iff. exact Hj. }
    unfold snth. rewrite Nat2N.id. exact Ej.
  Qed.

  Lemma locate_cert_some q j : j < lenN S -> snth S j = q -> spec_locate S q = j + 1.
  Proof.
    intros Hj Ej. unfold spec_locate.
    rewrite (nth_index_from S 1 j q ltac:(lia) (sorted_NoDup _ Hsort)); [lia|].
    rewrite <- Ej. apply nthN_snth. exact Hj.
  Qed.

  Lemma s_lt i j : i < j -> j < lenN S -> lex_lt (snth S i) (snth S j).
  Proof. intros. apply snth_lt; [exact Hsort|assumption|assumption]. Qed.

  Lemma lt_neq a c : lex_lt a c -> a <> c.
  Proof. intros Hlt ->. exact (lex_lt_irrefl _ Hlt). Qed.

  (* the for-loop of locate, entered after string i of the bucket (decoded, different from q) *)
  Lemma rscan_spec q k base Eb : nul_free q -> base = (k - 1) * b -> base mod b = 0 ->
    Eb <= base + b -> Eb <= lenN S ->
    (Eb < lenN S -> lex_lt q (snth S Eb)) ->
    forall (n : nat) i fuel,
    base <= i -> i < Eb -> N.to_nat (Eb - 1 - i) = n -> (n < fuel)%nat ->
    snth S i <> q ->
    exists r, rscan_loop fuel d q k (Eb - base) (i - base + 1) (E i) (snth S i) (lcp (snth S i) q) = Some r /\
      ((r = 0 /\ forall j, i < j -> j < lenN S -> snth S j <> q) \/
       (exists j, i < j /\ j < Eb /\ snth S j = q /\ r = j + 1)).
  Proof.
    intros Hnq Ebase Hmod HE1 HE2 Hafter.
    assert (Habove : forall i, i < lenN S -> lex_lt q (snth S i) -> forall j, i < j -> j < lenN S -> snth S j <> q).
    { intros i Hi Hq j Hj1 Hj2 Ej. pose proof (s_lt i j Hj1 Hj2) as Hlt. rewrite Ej in Hlt.
      exact (lex_lt_asym _ _ Hq Hlt). }
    induction n as [|n IH]; intros i fuel Hi1 Hi2 Hn Hf Hneq;
      (destruct fuel as [|f]; [lia|]); cbn [rscan_loop].
    - (* i is the last string of the bucket *)
      destruct (N.ltb_spec (i - base + 1) (Eb - base)); [lia|].
      exists 0. split; [reflexivity|]. left. split; [reflexivity|].
      intros j Hj1 Hj2. assert (Eb < lenN S) by lia. destruct (N.eq_dec j Eb) as [->|Hne'].
      + apply not_eq_sym, lt_neq, Hafter. assumption.
      + apply (Habove Eb); [assumption|apply Hafter; assumption|lia|assumption].
    - destruct (N.ltb_spec (i - base + 1) (Eb - base)); [|lia].
      assert (Hi3 : i + 1 < Eb) by lia.
      rewrite (stream_dstep i ltac:(lia) (in_bucket_mod' base i Hmod Hi1 ltac:(lia))).
      assert (Hii : lex_lt (snth S i) (snth S (i + 1))) by (apply s_lt; lia).
      destruct (N.ltb_spec (lcp (snth S i) (snth S (i + 1))) (lcp (snth S i) q)) as [Hsh|Hsh].
      + (* fewer shared symbols: everything from i+1 on is above q *)
        exists 0. split; [reflexivity|]. left. split; [reflexivity|].
        assert (Hq1 : lex_lt q (snth S (i + 1))).
        { destruct (lex_total (snth S i) q) as [Hlt|[Heq|Hgt]]; [|contradiction|].
          - apply (scan_trick_lt (snth S i)); assumption.
          - apply (lex_lt_trans _ (snth S i)); assumption. }
        intros j Hj1 Hj2. destruct (N.eq_dec j (i + 1)) as [->|Hne'].
        * apply not_eq_sym, lt_neq. exact Hq1.
        * apply (Habove (i + 1)); [lia|exact Hq1|lia|assumption].
      + assert (Hs : lcp (snth S i) q <= lcp (snth S (i + 1)) q).
        { pose proof (lcp_min (snth S i) (snth S (i + 1)) q). lia. }
        destruct (cmp_from_spec (snth S (i + 1)) q _ (s_nul_free (i + 1) ltac:(lia)) Hnq Hs) as (z & m & Ec & Hag).
        rewrite Ec. unfold cmp_agrees in Hag.
        destruct (lex_compare (snth S (i + 1)) q) eqn:Ecmp.
        * subst z. cbn [Z.eqb]. eexists. split; [reflexivity|]. right. exists (i + 1).
          apply lex_compare_eq in Ecmp. split; [lia|]. split; [lia|]. split; [exact Ecmp|].
          rewrite Hbs, <- Ebase. lia.
        * destruct Hag as [Hz ->]. destruct (Z.eqb_spec z 0); [lia|]. destruct (Z.ltb_spec 0 z); [lia|].
          rewrite N.add_0_l.
          assert (Hne1 : snth S (i + 1) <> q) by (apply lt_neq; exact Ecmp).
          destruct (IH (i + 1) f ltac:(lia) Hi3 ltac:(lia) ltac:(lia) Hne1) as (r & Er & Hr).
          replace (i + 1 - base + 1) with (i - base + 1 + 1) in Er by lia. rewrite Er.
          exists r. split; [reflexivity|]. destruct Hr as [[-> Hr]|(j & Hj1 & Hj2 & Hj3 & Hj4)].
          -- left. split; [reflexivity|]. intros j Hj1 Hj2. destruct (N.eq_dec j (i + 1)) as [->|Hne'];
               [exact Hne1|apply Hr; lia].
          -- right. exists j. repeat split; auto. lia.
        * destruct Hag as [Hz _]. destruct (Z.eqb_spec z 0); [lia|]. destruct (Z.ltb_spec 0 z); [|lia].
          exists 0. split; [reflexivity|]. left. split; [reflexivity|].
          apply lex_gt_lt in Ecmp.
          intros j Hj1 Hj2. destruct (N.eq_dec j (i + 1)) as [->|Hne'].
          -- apply not_eq_sym, lt_neq. exact Ecmp.
          -- apply (Habove (i + 1)); [lia|exact Ecmp|lia|assumption].
  Qed.

  Theorem rpfc_locate_stream q : nul_free q -> rpfc_locate d q = Some (spec_locate S q).
  Proof.
    intros Hnq. unfold rpfc_locate.
    destruct (rlocate_bucket_spec q Hnq) as (found & k & Elb & Hk & Hpost). rewrite Elb.
    destruct found.
    - destruct Hpost as [Hk1 Hq]. rewrite Hbs. f_equal. symmetry.
      apply locate_cert_some; [apply buckets_iff; assumption|exact Hq].
    - destruct Hpost as [Hlo Hhi].
      destruct (N.eqb_spec k 0) as [->|Hk0].
      + f_equal. symmetry. apply locate_cert_none. intros j Hj.
        pose proof (Hhi 1 ltac:(lia) buckets_pos) as H1. unfold H in H1.
        replace ((1 - 1) * b) with 0 in H1 by lia.
        destruct (N.eq_dec j 0) as [->|Hj0]; [apply not_eq_sym, lt_neq; exact H1|].
        apply not_eq_sym, lt_neq. apply (lex_lt_trans _ (snth S 0)); [exact H1|apply s_lt; lia].
      + destruct (rbucket_facts k ltac:(lia) Hk) as (base & Eb & Ebase & Hmod & HbE & HE1 & HE2 & Esc & Egh & Hnext & _).
        rewrite Egh, Esc.
        pose proof (Hlo k ltac:(lia) ltac:(lia)) as Hhk. unfold H in Hhk. rewrite <- Ebase in Hhk.
        assert (Hafter : Eb < lenN S -> lex_lt q (snth S Eb)).
        { intros Hlt. destruct (Hnext Hlt) as [EE Hk1]. pose proof (Hhi (k + 1) ltac:(lia) Hk1) as H2.
          unfold H in H2. rewrite N.add_sub in H2. rewrite (mul_pred_succ k b ltac:(lia)), <- Ebase, <- EE in H2.
          exact H2. }
        assert (Hbelow : forall j, j <= base -> snth S j <> q).
        { intros j Hj. apply lt_neq. destruct (N.eq_dec j base) as [->|Hne']; [exact Hhk|].
          apply (lex_lt_trans _ (snth S base)); [apply s_lt; lia|exact Hhk]. }
        assert (Habove : forall j, Eb <= j -> j < lenN S -> snth S j <> q).
        { intros j Hj1 Hj2. apply not_eq_sym, lt_neq. pose proof (Hafter ltac:(lia)) as Hq.
          destruct (N.eq_dec j Eb) as [->|Hne']; [exact Hq|].
          apply (lex_lt_trans _ (snth S Eb)); [exact Hq|apply s_lt; lia]. }
        destruct (N.ltb_spec 1 (Eb - base)) as [Hsc|Hsc].
        * assert (Hm1 : (base + 1) mod b <> 0) by (apply (in_bucket_mod' base base Hmod); lia).
          rewrite (stream_dstep base ltac:(lia) Hm1).
          destruct (cmp_from_spec (snth S (base + 1)) q 0 (s_nul_free (base + 1) ltac:(lia)) Hnq ltac:(lia)) as (z & m & Ec & Hag).
          rewrite Ec. unfold cmp_agrees in Hag.
          destruct (lex_compare (snth S (base + 1)) q) eqn:Ecmp.
          -- subst z. cbn [Z.eqb]. rewrite Hbs, <- Ebase. f_equal. symmetry.
             apply lex_compare_eq in Ecmp. rewrite (locate_cert_some q (base + 1)); [lia|lia|exact Ecmp].
          -- destruct Hag as [Hz ->]. destruct (Z.eqb_spec z 0); [lia|]. rewrite N.add_0_l.
             assert (Hne1 : snth S (base + 1) <> q) by (apply lt_neq; exact Ecmp).
             destruct (rscan_spec q k base Eb Hnq Ebase Hmod HE1 HE2 Hafter
                         (N.to_nat (Eb - 1 - (base + 1))) (base + 1) (N.to_nat (Eb - base))
                         ltac:(lia) ltac:(lia) eq_refl ltac:(lia) Hne1) as (r & Er & Hr).
             replace (base + 1 - base + 1) with 2 in Er by lia. rewrite Er. f_equal.
             destruct Hr as [[-> Hr]|(j & Hj1 & Hj2 & Hj3 & ->)].
             ++ symmetry. apply locate_cert_none. intros j Hj.
                destruct (N.le_gt_cases j base); [apply Hbelow; assumption|].
                destruct (N.eq_dec j (base + 1)) as [->|]; [exact Hne1|apply Hr; lia].
             ++ symmetry. apply locate_cert_some; [lia|exact Hj3].
          -- destruct Hag as [Hz ->]. destruct (Z.eqb_spec z 0); [lia|]. rewrite N.add_0_l.
             apply lex_gt_lt in Ecmp.
             assert (Hne1 : snth S (base + 1) <> q) by (apply not_eq_sym, lt_neq; exact Ecmp).
             destruct (rscan_spec q k base Eb Hnq Ebase Hmod HE1 HE2 Hafter
                         (N.to_nat (Eb - 1 - (base + 1))) (base + 1) (N.to_nat (Eb - base))
                         ltac:(lia) ltac:(lia) eq_refl ltac:(lia) Hne1) as (r & Er & Hr).
             replace (base + 1 - base + 1) with 2 in Er by lia. rewrite Er. f_equal.
             destruct Hr as [[-> Hr]|(j & Hj1 & Hj2 & Hj3 & ->)].
             ++ symmetry. apply locate_cert_none. intros j Hj.
                destruct (N.le_gt_cases j base); [apply Hbelow; assumption|].
                destruct (N.eq_dec j (base + 1)) as [->|]; [exact Hne1|apply Hr; lia].
             ++ symmetry. apply locate_cert_some; [lia|exact Hj3].
        * f_equal. symmetry. apply locate_cert_none. intros j Hj.
          destruct (N.le_gt_cases j base); [apply Hbelow; assumption|apply Habove; lia].
  Qed.

  (* ---------------------------------------------------------------- *)
  (* G. prefix search (port of PFCPrefixProofs: BucketScan + Glue)     *)
  (* ---------------------------------------------------------------- *)
  Section PrefixScan.
    Variable p : str.
    Hypothesis Hnp : nul_free p.
    Variables (base Eb : N).
    Hypothesis Hbase : base mod b = 0.
    Hypothesis HE1 : Eb <= base + b.
    Hypothesis HE2 : Eb <= lenN S.

    Let nomatch (j : N) : Prop := is_prefix p (snth S j) = false.

    Lemma rsearch_prefix_spec : forall (n : nat) i fuel s,
      base <= i -> i < Eb -> N.to_nat (Eb - 1 - i) = n -> (n < fuel)%nat ->
      s <= lcp (snth S i) p ->
      (forall j, base <= j -> j < i -> nomatch j) ->
      exists r ptr' dec',
        rsearch_prefix fuel d p (Eb - base) (E i) (snth S i) s (i - base + 1) = Some (r, ptr', dec') /\
        ((r = 0 /\ forall j, base <= j -> j < Eb -> nomatch j) \/
         (exists j, i <= j /\ j < Eb /\ r = j - base + 1 /\ ptr' = E j /\ dec' = snth S j /\
                    is_prefix p (snth S j) = true /\ forall j', base <= j' -> j' < j -> nomatch j')).
    Proof.
      induction n as [|n IH]; intros i fuel s Hi1 Hi2 Hn Hf Hs Hprev;
        (destruct fuel as [|f]; [lia|]); cbn [rsearch_prefix].
      all: pose proof (LexLemmas.lcp_le_l (snth S i) p) as Hl1;
           pose proof (LexLemmas.lcp_le_r (snth S i) p) as Hl2.
      all: destruct (N.leb_spec s (lenN (snth S i))); [|lia].
      all: destruct (cmp_from0_spec (snth S i) p s (s_nul_free i ltac:(lia)) Hnp Hs) as (z & Ec & Hsgn);
           rewrite Ec.
      all: destruct (N.eqb_spec (lcp (snth S i) p) (lenN p)) as [Efound|Enf].
      1,3: (eexists _, _, _; split; [reflexivity|]; right; exists i;
            repeat split; auto; try lia; apply is_prefix_lcp'; exact Efound).
      all: assert (Hnm : nomatch i)
             by (unfold nomatch; destruct (is_prefix p (snth S i)) eqn:Ei; [apply is_prefix_lcp' in Ei; contradiction|reflexivity]).
      all: specialize (Hsgn ltac:(lia)).
      - (* last string of the bucket *)
        assert (Hor : ((0 <? z)%Z || (i - base + 1 =? Eb - base)) = true).
        { destruct (N.eqb_spec (i - base + 1) (Eb - base)); [apply orb_true_r|lia]. }
        rewrite Hor. eexists _, _, _; split; [reflexivity|]. left. split; [reflexivity|].
        intros j Hj1 Hj2. destruct (N.eq_dec j i) as [->|Hne']; [exact Hnm|apply Hprev; lia].
      - destruct (Z.ltb_spec 0 z) as [Hz|Hz]; cbn [orb].
        + (* the current string is already above the pattern *)
          destruct Hsgn as [[_ Hgt]|[Hz' _]]; [|lia].
          eexists _, _, _; split; [reflexivity|]. left. split; [reflexivity|].
          intros j Hj1 Hj2. destruct (N.lt_ge_cases j i) as [Hlt|Hge]; [apply Hprev; assumption|].
          apply (nomatch_after S p i j Hsort Hge ltac:(lia)).
          unfold pcls. unfold nomatch in Hnm. rewrite Hnm. exact Hgt.
        + destruct Hsgn as [[Hz' _]|[_ Hlt]]; [lia|].
          destruct (N.eqb_spec (i - base + 1) (Eb - base)); [lia|].
          assert (Hi3 : i + 1 < Eb) by lia.
          rewrite (stream_dstep i ltac:(lia) (in_bucket_mod' base i Hbase Hi1 ltac:(lia))).
          assert (Hii : lex_lt (snth S i) (snth S (i + 1))) by (apply s_lt; lia).
          destruct (N.ltb_spec (lcp (snth S i) (snth S (i + 1))) (lcp (snth S i) p)) as [Hsh|Hsh].
          * (* fewer shared symbols: the next string is above p and does not have the prefix *)
            eexists _, _, _; split; [reflexivity|]. left. split; [reflexivity|].
            intros j Hj1 Hj2. destruct (N.lt_ge_cases j i) as [Hlti|Hge]; [apply Hprev; assumption|].
            destruct (N.eq_dec j i) as [->|Hne']; [exact Hnm|].
            apply (nomatch_after S p (i + 1) j Hsort ltac:(lia) ltac:(lia)).
            assert (Hnm1 : is_prefix p (snth S (i + 1)) = false).
            { destruct (is_prefix p (snth S (i + 1))) eqn:E1; [|reflexivity].
              apply is_prefix_lcp in E1.
              pose proof (lcp_min p (snth S i) (snth S (i + 1))) as Hmin.
              rewrite (lcp_comm p (snth S i)) in Hmin. lia. }
            unfold pcls. rewrite Hnm1. apply lex_gt_lt.
            apply (scan_trick_lt (snth S i) p (snth S (i + 1)) Hlt Hii Hsh).
          * destruct (IH (i + 1) f (lcp (snth S i) p) ltac:(lia) Hi3 ltac:(lia) ltac:(lia)) as (r & ptr' & dec' & Er & Hr).
            { pose proof (lcp_min (snth S i) (snth S (i + 1)) p). lia. }
            { intros j Hj1 Hj2. destruct (N.eq_dec j i) as [->|Hne']; [exact Hnm|apply Hprev; lia]. }
            replace (i - base + 1 + 1) with (i + 1 - base + 1) by lia.
            rewrite Er.
            exists r, ptr', dec'. split; [reflexivity|].
            destruct Hr as [Hr|(j & Hj1 & Hj2 & Hr)]; [left; exact Hr|].
            right. exists j. split; [lia|]. split; [exact Hj2|exact Hr].
    Qed.

    Lemma rsearch_distinct_spec : forall (n : nat) j fuel id sc,
      base <= j -> j < Eb -> N.to_nat (Eb - 1 - j) = n -> (n < fuel)%nat ->
      sc + j + 1 = Eb + id -> 1 <= id ->
      is_prefix p (snth S j) = true ->
      exists j', j <= j' /\ j' < Eb /\
        rsearch_distinct fuel d (lenN p) sc (E j) (snth S j) id = Some (id + (j' - j)) /\
        is_prefix p (snth S j') = true /\ (j' + 1 < Eb -> nomatch (j' + 1)).
    Proof.
      induction n as [|n IH]; intros j fuel id sc Hj1 Hj2 Hn Hf Hsc Hid Hm;
        (destruct fuel as [|f]; [lia|]); cbn [rsearch_distinct].
      - destruct (N.ltb_spec id sc); [lia|].
        exists j. repeat split; auto; try lia. f_equal. lia.
      - destruct (N.ltb_spec id sc); [|lia].
        assert (Hj3 : j + 1 < Eb) by lia.
        rewrite (stream_dstep j ltac:(lia) (in_bucket_mod' base j Hbase Hj1 ltac:(lia))).
        pose proof (prefix_next p (snth S j) (snth S (j + 1)) Hm) as Hnext.
        destruct (N.ltb_spec (lcp (snth S j) (snth S (j + 1))) (lenN p)) as [Hsh|Hsh].
        + exists j. repeat split; auto; try lia; [f_equal; lia|].
          intros _. unfold nomatch. destruct (is_prefix p (snth S (j + 1))); [|reflexivity].
          pose proof (proj1 Hnext eq_refl). lia.
        + destruct (IH (j + 1) f (id + 1) sc ltac:(lia) Hj3 ltac:(lia) ltac:(lia) ltac:(lia) ltac:(lia)
                      (proj2 Hnext Hsh)) as (j' & H1 & H2 & Er & H3 & H4).
          exists j'. split; [lia|]. split; [exact H2|]. split; [rewrite Er; f_equal; lia|]. split; assumption.
    Qed.
  End PrefixScan.

  Lemma rlbb_spec p : nul_free p ->
    exists L R, rpfc_locate_boundary_buckets d p = Some (L, R) /\ lbb_post (r_buckets d) (hcls b S p) L R.
  Proof.
    intros Hnp.
    assert (Hidx : forall k, 1 <= k -> k <= r_buckets d -> (k - 1) * b < lenN S).
    { intros k H1 H2. apply (buckets_iff k); lia. }
    unfold rpfc_locate_boundary_buckets.
    apply (locate_boundary_buckets_abs (hdr_view d) p (r_buckets d) (hcls b S p) eq_refl).
    - intros k H1 H2. apply (strncmp_stream k p H1 H2 Hnp).
    - intros j k H1 H2 H3 Hc. unfold hcls in *.
      apply (cls_before S p ((k - 1) * b) ((j - 1) * b) Hsort);
        [apply N.mul_le_mono_r; lia|apply Hidx; lia|exact Hc].
    - intros j k H1 H2 H3 Hc. unfold hcls in *.
      apply (cls_after S p ((j - 1) * b) ((k - 1) * b) Hsort);
        [apply N.mul_le_mono_r; lia|apply Hidx; lia|exact Hc].
    - exact buckets_pos.
  Qed.

  Section Glue.
    Variable p : str.
    Hypothesis Hnp : nul_free p.

    Lemma rsame_bucket_case k : 1 <= k -> k <= r_buckets d ->
      rpfc_locate_boundary_buckets d p = Some (k, k) ->
      (forall j, j < (k - 1) * b -> is_prefix p (snth S j) = false) ->
      (k * b < lenN S -> pcls p (snth S (k * b)) = Gt) ->
      rpfc_locate_prefix d p = Some (range_of (spec_prefix_ids S p)).
    Proof.
      intros Hk1 Hk2 Elbb Hbefore Hafter.
      unfold rpfc_locate_prefix. rewrite Elbb, Hbs.
      destruct (N.ltb_spec 0 k); [|lia]. rewrite N.eqb_refl.
      rewrite (mul_pred_succ k b Hk1) in Hafter.
      destruct (rbucket_facts k Hk1 Hk2) as (base & Eb & Eb' & Hmod & HbE & HE1 & HE2 & Esc & Egh & Hnext & _).
      rewrite <- Eb' in *. clear Eb'.
      rewrite Egh, Esc.
      destruct (rsearch_prefix_spec p Hnp base Eb Hmod HE1 HE2
                  (N.to_nat (Eb - 1 - base)) base (Datatypes.S (Datatypes.S (N.to_nat (Eb - base)))) 0)
        as (r & ptr' & dec' & Esp & Hsp); try lia.
      replace (base - base + 1) with 1 in Esp by lia. rewrite Esp.
      destruct Hsp as [[-> Hnone]|(j & Hj1 & Hj2 & -> & -> & -> & Hmj & Hprev)].
      - cbn [N.eqb]. f_equal. symmetry. apply none_cert.
        intros j Hj. destruct (N.lt_ge_cases j base) as [H1|H1]; [apply Hbefore; exact H1|].
        destruct (N.lt_ge_cases j Eb) as [H2|H2]; [apply Hnone; assumption|].
        destruct (Hnext ltac:(lia)) as [EE _]. subst Eb.
        apply (nomatch_after S p (base + b) j Hsort H2 Hj). apply Hafter. lia.
      - destruct (N.eqb_spec (j - base + 1) 0); [lia|].
        destruct (rsearch_distinct_spec p base Eb Hmod HE1 HE2
                    (N.to_nat (Eb - 1 - j)) j (Datatypes.S (Datatypes.S (N.to_nat (Eb - base)))) 1
                    (Eb - base - (j - base + 1) + 1)) as (j' & H1 & H2 & Esd & Hmj' & Hnj'); try lia; auto.
        rewrite Esd. f_equal.
        rewrite (range_cert S p j j' Hsort H1 ltac:(lia) Hmj Hmj').
        + f_equal; lia.
        + destruct (N.eq_dec j base) as [->|Hne'].
          * destruct (N.eq_dec base 0) as [->|Hb0]; [left; reflexivity|].
            right. apply Hbefore. lia.
          * right. apply Hprev; lia.
        + destruct (N.lt_ge_cases (j' + 1) Eb) as [H3|H3]; [right; apply Hnj'; exact H3|].
          assert (j' + 1 = Eb) by lia.
          destruct (N.eq_dec Eb (lenN S)) as [EE|NE]; [left; lia|].
          destruct (Hnext ltac:(lia)) as [EE _]. right.
          replace (j' + 1) with (base + b) by lia.
          apply (nomatch_after S p (base + b) (base + b) Hsort); [lia|lia|apply Hafter; lia].
    Qed.

    Lemma rtwo_bucket_case L R : 1 <= L -> L < R -> R <= r_buckets d ->
      rpfc_locate_boundary_buckets d p = Some (L, R) ->
      (L = 1 \/ hcls b S p L = Lt) ->
      hcls b S p (L + 1) = Eq -> hcls b S p R = Eq ->
      (R + 1 <= r_buckets d -> hcls b S p (R + 1) = Gt) ->
      rpfc_locate_prefix d p = Some (range_of (spec_prefix_ids S p)).
    Proof.
      intros HL1 HLR HRm Elbb HcL HcL1 HcR HcR1.
      unfold rpfc_locate_prefix. rewrite Elbb, Hbs.
      destruct (N.ltb_spec 0 L); [|lia]. destruct (N.eqb_spec L R); [lia|].
      unfold hcls in *. rewrite N.add_sub in HcL1, HcR1.
      apply pcls_Eq in HcL1, HcR.
      assert (HLb : L * b = (L - 1) * b + b) by (apply mul_pred_succ; lia).
      assert (HLRb : L * b <= (R - 1) * b) by (apply N.mul_le_mono_r; lia).
      assert (HRb : R * b = (R - 1) * b + b) by (apply mul_pred_succ; lia).
      destruct (rbucket_facts L ltac:(lia) ltac:(lia)) as (baseL & EL & EbL & HmodL & HbEL & HEL1 & HEL2 & EscL & EghL & _ & HfullL).
      destruct (rbucket_facts R ltac:(lia) ltac:(lia)) as (baseR & ER & EbR & HmodR & HbER & HER1 & HER2 & EscR & EghR & HnextR & _).
      destruct (HfullL ltac:(lia)) as [EEL HELn].
      assert (HbL0 : L = 1 -> baseL = 0) by (intros ->; rewrite EbL; reflexivity).
      rewrite <- EbL in *. rewrite <- EbR in *. clear EbL EbR.
      revert HcL1 HcR1 HLb HLRb HRb. generalize (L * b). generalize (R * b). intros Rb Lb HcL1 HcR1 HLb HLRb HRb.
      subst Lb Rb EL.
      rewrite EghL, EscL.
      destruct (rsearch_prefix_spec p Hnp baseL (baseL + b) HmodL HEL1 HEL2
                  (N.to_nat (baseL + b - 1 - baseL)) baseL (Datatypes.S (Datatypes.S (N.to_nat (baseL + b - baseL)))) 0)
        as (r & ptr' & dec' & Esp & Hsp); try lia.
      replace (baseL - baseL + 1) with 1 in Esp by lia. rewrite Esp.
      rewrite EghR, EscR.
      destruct (rsearch_distinct_spec p baseR ER HmodR HER1 HER2
                  (N.to_nat (ER - 1 - baseR)) baseR (Datatypes.S (Datatypes.S (N.to_nat (ER - baseR)))) 1
                  (ER - baseR)) as (j' & H1 & H2 & Esd & Hmj' & Hnj'); try lia; auto.
      rewrite Esd. f_equal. clear HmodL HmodR EghL EghR EscL EscR Esp Esd Elbb.
      assert (Hhi : j' + 1 = lenN S \/ is_prefix p (snth S (j' + 1)) = false).
      { destruct (N.lt_ge_cases (j' + 1) ER) as [H3|H3]; [right; apply Hnj'; exact H3|].
        assert (j' + 1 = ER) by lia.
        destruct (N.eq_dec ER (lenN S)) as [EE|NE]; [left; lia|].
        destruct (HnextR ltac:(lia)) as [EE HR1]. right.
        replace (j' + 1) with (baseR + b) by lia.
        apply (nomatch_after S p (baseR + b) (baseR + b) Hsort); [lia|lia|apply HcR1; exact HR1]. }
      destruct Hsp as [[-> Hnone]|(j & Hj1 & Hj2 & -> & -> & -> & Hmj & Hprev)].
      - (* nothing in bucket L: the first match is the header of bucket L+1 *)
        cbn [N.eqb].
        rewrite (range_cert S p (baseL + b) j' Hsort ltac:(lia) ltac:(lia) HcL1 Hmj').
        + f_equal; lia.
        + right. apply Hnone; lia.
        + exact Hhi.
      - destruct (N.eqb_spec (j - baseL + 1) 0); [lia|].
        rewrite (range_cert S p j j' Hsort ltac:(lia) ltac:(lia) Hmj Hmj').
        + f_equal; lia.
        + destruct (N.eq_dec j baseL) as [->|Hne']; [|right; apply Hprev; lia].
          destruct HcL as [HcL|HcL].
          * left. apply HbL0. exact HcL.
          * apply pcls_Lt in HcL. destruct HcL as [HcL _]. congruence.
        + exact Hhi.
    Qed.

    Theorem rpfc_locate_prefix_stream : rpfc_locate_prefix d p = Some (range_of (spec_prefix_ids S p)).
    Proof.
      pose proof buckets_pos as Hm1.
      assert (Hidx : forall k, 1 <= k -> k <= r_buckets d -> (k - 1) * b < lenN S).
      { intros k H1 H2. apply (buckets_iff k); lia. }
      pose proof (rlbb_spec p Hnp) as Hlbb.
      destruct Hlbb as (L & R & Elbb & [(fE & lE & Hf1 & Hf2 & Hf3 & HcLt & HcEq & HcGt & -> & ->)|(-> & HRm & HcLt & HcGt)]).
      - (* some header has the prefix *)
        destruct (N.eqb_spec fE 1) as [->|Hf].
        + destruct (N.eq_dec lE 1) as [->|Hl].
          * apply (rsame_bucket_case 1); [lia|exact Hm1|exact Elbb|intros j Hj; lia|].
            intros Hn. rewrite N.mul_1_l in *.
            assert (H2 : 2 <= r_buckets d)
              by (apply (buckets_iff 2); [lia|]; replace ((2 - 1) * b) with b by lia; exact Hn).
            pose proof (HcGt 2 ltac:(lia) H2) as Hc. unfold hcls in Hc.
            replace ((2 - 1) * b) with b in Hc by lia. exact Hc.
          * apply (rtwo_bucket_case 1 lE);
              [lia|lia|lia|exact Elbb|left; reflexivity|apply HcEq; lia|apply HcEq; lia|intros H'; apply HcGt; lia].
        + apply (rtwo_bucket_case (fE - 1) lE);
            [lia|lia|lia|exact Elbb|right; apply HcLt; lia| |apply HcEq; lia|intros H'; apply HcGt; lia].
          replace (fE - 1 + 1) with fE by lia. apply HcEq; lia.
      - (* no header has the prefix: single candidate bucket R *)
        destruct (N.eq_dec R 0) as [->|HR0].
        + unfold rpfc_locate_prefix. rewrite Elbb. cbn [N.ltb N.compare]. f_equal. symmetry.
          apply none_cert. intros j Hj.
          pose proof (HcGt 1 ltac:(lia) Hm1) as Hc. unfold hcls in Hc.
          replace ((1 - 1) * b) with 0 in Hc by lia.
          apply (nomatch_after S p 0 j Hsort); auto. lia.
        + apply (rsame_bucket_case R); auto; try lia.
          * intros j Hj. pose proof (HcLt R ltac:(lia) ltac:(lia)) as Hc. unfold hcls in Hc.
            apply (nomatch_before S p ((R - 1) * b) j Hsort); auto; [lia|]. apply Hidx; lia.
          * intros Hn.
            assert (H2 : R + 1 <= r_buckets d) by (apply (buckets_iff (R + 1)); [lia|]; rewrite N.add_sub; exact Hn).
            pose proof (HcGt (R + 1) ltac:(lia) H2) as Hc. unfold hcls in Hc.
            rewrite N.add_sub in Hc. exact Hc.
    Qed.
  End Glue.
End Stream.

(* ====================================================================== *)
(* H. IteratorDictStringRPFC: extractTable and extractPrefix               *)
(* ====================================================================== *)
Section Iter.
  Variables (d : rpfc) (b : N) (S : list str) (E : N -> bpos).
  Hypothesis Hb : 1 <= b.
  Hypothesis Hbs : r_bsize d = b.
  Hypothesis Hstep : forall i, i + 1 < lenN S -> (i + 1) mod b <> 0 ->
    dstep d (E i, snth S i) = Some (E (i + 1), snth S (i + 1)).
  Hypothesis Hhdr : forall i, i < lenN S -> i mod b = 0 ->
    iter_header d (hdr_off i (E (i - 1))) = Some (E i, snth S i).

  (* the iterator is about to hand out string number i; c more strings are wanted *)
  Definition riter_inv (it : rpfc_iter) (i c : N) : Prop :=
    (i mod b <> 0 -> ri_pos it = E (i - 1) /\ ri_cur it = snth S (i - 1)) /\
    (i mod b = 0 -> align_pos (ri_pos it) = hdr_off i (E (i - 1))) /\
    ri_inb it mod b = i mod b /\
    ri_processed it + c = ri_scanneable it.

  Lemma succ_mod a i : a mod b = i mod b -> (a + 1) mod b = (i + 1) mod b.
  Proof.
    intros H. assert (Hb0 : b <> 0) by lia.
    rewrite (N.add_mod a 1 b Hb0), (N.add_mod i 1 b Hb0), H. reflexivity.
  Qed.

  Lemma riter_next_inv it i c : riter_inv it i (c + 1) -> i < lenN S ->
    exists it', riter_next d it = Some (snth S i, it') /\ riter_inv it' (i + 1) c.
  Proof.
    intros (H1 & H2 & H3 & H4) Hi. unfold riter_next. rewrite Hbs, H3.
    assert (Hnext : forall it', ri_pos it' = E i -> ri_cur it' = snth S i ->
              (ri_inb it' mod b = (i + 1) mod b) -> ri_processed it' + c = ri_scanneable it' ->
              riter_inv it' (i + 1) c).
    { intros it' P1 P2 P3 P4. unfold riter_inv. rewrite N.add_sub.
      split; [intros _; split; assumption|]. split; [|split; assumption].
      intros _. rewrite P1. unfold hdr_off. destruct (N.eqb_spec (i + 1) 0); [lia|reflexivity]. }
    destruct (N.eqb_spec (i mod b) 0) as [Em|Em].
    - specialize (H2 Em). fold (align_pos (ri_pos it)). rewrite H2, (Hhdr i Hi Em).
      eexists. split; [reflexivity|]. apply Hnext; cbn [ri_pos ri_cur ri_inb ri_processed ri_scanneable]; try reflexivity.
      + apply (succ_mod 0 i). rewrite Em. apply N.mod_0_l. lia.
      + lia.
    - destruct (H1 Em) as [P C]. rewrite P, C.
      assert (Hi1 : 1 <= i) by (destruct (N.eq_dec i 0) as [->|]; [rewrite N.mod_0_l in Em by lia; congruence|lia]).
      pose proof (Hstep (i - 1)) as Hs. replace (i - 1 + 1) with i in Hs by lia. rewrite (Hs Hi Em).
      eexists. split; [reflexivity|]. apply Hnext; cbn [ri_pos ri_cur ri_inb ri_processed ri_scanneable]; try reflexivity.
      + apply succ_mod. exact H3.
      + lia.
  Qed.

  Lemma riter_drain_inv : forall (m : nat) i it, riter_inv it i (N.of_nat m) -> i + N.of_nat m <= lenN S ->
    riter_drain m d it = Some (firstn m (skipN i S)).
  Proof.
    induction m as [|m IH]; intros i it Hinv Hle; cbn [riter_drain].
    - destruct Hinv as (_ & _ & _ & H4). unfold riter_has_next.
      destruct (N.ltb_spec (ri_processed it) (ri_scanneable it)); [lia|reflexivity].
    - pose proof Hinv as (_ & _ & _ & H4). unfold riter_has_next.
      destruct (N.ltb_spec (ri_processed it) (ri_scanneable it)); [|lia].
      replace (N.of_nat (Datatypes.S m)) with (N.of_nat m + 1) in Hinv by lia.
      destruct (riter_next_inv it i (N.of_nat m) Hinv ltac:(lia)) as (it' & En & Hinv').
      rewrite En, (IH (i + 1) it' Hinv' ltac:(lia)). cbn [option_map].
      rewrite (skipN_cons_snth S i ltac:(lia)). reflexivity.
  Qed.

  Hypothesis Hiter : forall base, base mod b = 0 -> forall j, j < b -> base + j < lenN S ->
    N.iter j (fun o => opt_bind o (dstep d)) (Some (E base, snth S base)) = Some (E (base + j), snth S (base + j)).

  (* the constructor, positioned on string base + offset of the bucket starting at string base *)
  Lemma riter_init_inv base offset count : base mod b = 0 -> base < lenN S -> offset < b ->
    base + offset <= lenN S ->
    exists it, riter_init d (hdr_off base (E (base - 1))) offset count = Some it /\
               riter_inv it (base + offset) count.
  Proof.
    intros Hm Hbase Ho Hn. unfold riter_init.
    destruct (N.ltb_spec 0 offset) as [Hpos|Hz].
    - rewrite (Hhdr base Hbase Hm).
      rewrite (Hiter base Hm (offset - 1) ltac:(lia) ltac:(lia)).
      eexists. split; [reflexivity|]. unfold riter_inv. cbn [ri_pos ri_cur ri_inb ri_processed ri_scanneable].
      rewrite (mod_of_zero_plus base offset b Hm Ho).
      replace (base + offset - 1) with (base + (offset - 1)) by lia.
      split; [intros _; split; reflexivity|]. split; [intros; lia|]. split; [apply N.mod_small; exact Ho|lia].
    - assert (offset = 0) by lia. subst offset. rewrite N.add_0_r.
      eexists. split; [reflexivity|]. unfold riter_inv. cbn [ri_pos ri_cur ri_inb ri_processed ri_scanneable].
      split; [intros Hc; congruence|]. split; [intros _; reflexivity|]. split; [rewrite Hm; apply N.mod_0_l; lia|lia].
  Qed.

  Theorem rtable_gen : S <> [] -> r_elements d = lenN S -> rpfc_extract_table d = Some S.
  Proof.
    intros Hne Hel. unfold rpfc_extract_table. rewrite Hel.
    assert (Hn : 0 < lenN S) by (destruct S; [congruence|rewrite lenN_cons; lia]).
    assert (H0 : 0 mod b = 0) by (apply N.mod_0_l; lia).
    destruct (riter_init_inv 0 0 (lenN S) H0 Hn ltac:(lia) ltac:(lia)) as (it & Ei & Hinv).
    change (hdr_off 0 (E (0 - 1))) with 0 in Ei. rewrite Ei.
    rewrite N.add_0_l in Hinv.
    replace (lenN S) with (N.of_nat (length S)) in Hinv at 1 by reflexivity.
    rewrite (riter_drain_inv (N.to_nat (lenN S)) 0 it); [|rewrite N2Nat.id; exact Hinv|lia].
    unfold skipN, lenN. cbn [N.to_nat skipn]. rewrite Nat2N.id, firstn_all. reflexivity.
  Qed.

  Hypothesis Hbl : forall k, 1 <= k -> (k - 1) * b < lenN S ->
    nthN (r_bl d) k = Some (hdr_off ((k - 1) * b) (E ((k - 1) * b - 1))).
  Hypothesis Hn32 : lenN S < 2 ^ 32.

  (* the tail of extractPrefix for a non-empty ID range *)
  Lemma riter_range lft rgt : 1 <= lft -> lft <= rgt -> rgt <= lenN S ->
    match nthN (r_bl d) (W32m (1 + (lft - 1) / r_bsize d)) with
    | None => None
    | Some ptrS =>
        match riter_init d ptrS (W32m ((lft - 1) mod r_bsize d)) (rgt - lft + 1) with
        | None => None
        | Some it => option_map Some (riter_drain (N.to_nat (rgt - lft + 1)) d it)
        end
    end = Some (Some (firstN (rgt - lft + 1) (skipN (lft - 1) S))).
  Proof.
    intros H1 H2 H3. rewrite Hbs.
    assert (Hb0 : b <> 0) by lia.
    pose proof (N.div_mod (lft - 1) b Hb0) as Hdm.
    pose proof (N.mod_lt (lft - 1) b Hb0) as Hml.
    pose proof (N.mod_le (lft - 1) b Hb0) as Hr.
    assert (Hq : (lft - 1) / b <= lft - 1).
    { apply N.div_le_upper_bound; [lia|]. rewrite <- (N.mul_1_l (lft - 1)) at 1. apply N.mul_le_mono_r. lia. }
    rewrite (W32m_small (1 + (lft - 1) / b)) by lia.
    rewrite (W32m_small ((lft - 1) mod b)) by lia.
    set (k := 1 + (lft - 1) / b).
    assert (Hbase : (k - 1) * b = lft - 1 - (lft - 1) mod b).
    { unfold k. replace (1 + (lft - 1) / b - 1) with ((lft - 1) / b) by lia.
      rewrite (N.mul_comm _ b). revert Hdm. generalize (b * ((lft - 1) / b)). intros; lia. }
    assert (Hk1 : 1 <= k) by (unfold k; lia). clearbody k.
    pose proof (bucket_base_mod k b Hb0) as Hmod0.
    pose proof (Hbl k Hk1) as Ebl.
    revert Hbase Hmod0 Ebl. generalize ((k - 1) * b). intros base Hbase Hmod0 Ebl.
    rewrite (Ebl ltac:(lia)).
    destruct (riter_init_inv base ((lft - 1) mod b) (rgt - lft + 1) Hmod0 ltac:(lia) Hml ltac:(lia)) as (it & Ei & Hinv).
    rewrite Ei.
    replace (base + (lft - 1) mod b) with (lft - 1) in Hinv by lia.
    rewrite (riter_drain_inv (N.to_nat (rgt - lft + 1)) (lft - 1) it); [reflexivity| |lia].
    rewrite N2Nat.id. exact Hinv.
  Qed.
End Iter.

(* ====================================================================== *)
(* I. the exported theorems                                                *)
(* ====================================================================== *)
Section Main.
  Variables (d : rpfc) (b : N) (S : list str).
  Hypothesis HL : rpfc_layout_ok d b S.
  Hypothesis Hb : 1 <= b.
  Hypothesis Hin : rpfc_input S.

  (* 1. decodeString: from the end of string i (inside a bucket) with decoded = string i it yields
        string i+1, the shared-prefix length and the position where string i+1 ends; getHeader
        yields the first string of a bucket and the position where the internal strings start.
        No out-of-bounds read, no scratch-buffer overflow, fuel suffices. *)
  Theorem rpfc_decode_string_spec_gen :
    exists E : N -> bpos,
      (forall k, 1 <= k -> k <= r_buckets d ->
         (k - 1) * b < lenN S /\ rpfc_get_header d k = Some (E ((k - 1) * b), snth S ((k - 1) * b))) /\
      (forall i, i + 1 < lenN S -> (i + 1) mod b <> 0 ->
         decode_string d (E i) (snth S i) =
         Some (E (i + 1), snth S (i + 1), lcp (snth S i) (snth S (i + 1)))).
  Proof.
    destruct HL as (Hbs & Hel & Hbk & Hg & E & HE). exists E. split.
    - intros k H1 H2. split; [apply (buckets_iff d b S Hbk Hb k H1); exact H2|].
      apply (get_header_stream d b S E Hbs Hel Hbk HE Hb Hin k H1 H2).
    - apply (stream_dstep d b S E Hbs Hel Hbk Hg HE Hb Hin).
  Qed.

  Theorem rpfc_extract_spec_gen id : rpfc_extract d id = Some (spec_extract S id).
  Proof.
    destruct HL as (Hbs & Hel & Hbk & Hg & E & HE).
    apply (rpfc_extract_stream d b S E Hbs Hel Hbk Hg HE Hb Hin).
  Qed.

  Theorem rpfc_locate_spec_gen q : nul_free q -> rpfc_locate d q = Some (spec_locate S q).
  Proof.
    destruct HL as (Hbs & Hel & Hbk & Hg & E & HE).
    apply (rpfc_locate_stream d b S E Hbs Hel Hbk Hg HE Hb Hin).
  Qed.

  Theorem rpfc_locate_prefix_spec_gen p : nul_free p ->
    rpfc_locate_prefix d p = Some (range_of (spec_prefix_ids S p)).
  Proof.
    destruct HL as (Hbs & Hel & Hbk & Hg & E & HE).
    apply (rpfc_locate_prefix_stream d b S E Hbs Hel Hbk Hg HE Hb Hin).
  Qed.

  Lemma iter_header_stream E : stream_ok d b S E -> forall i, i < lenN S -> i mod b = 0 ->
    iter_header d (hdr_off i (E (i - 1))) = Some (E i, snth S i).
  Proof.
    intros HE i Hi Hm. destruct (HE i Hi) as [Hml Hit]. rewrite Hm in Hit. cbn [N.eqb] in Hit.
    destruct Hit as (_ & (rest & Ht) & Ee). unfold iter_header.
    rewrite (cstr_at_spec _ _ _ _ Ht (s_nul_free S Hin i Hi)).
    destruct (N.ltb_spec (lenN (snth S i)) (r_maxlength d)); [|lia]. rewrite Ee. reflexivity.
  Qed.

  Theorem rpfc_table_spec_gen : rpfc_extract_table d = Some (spec_table S).
  Proof.
    destruct HL as (Hbs & Hel & Hbk & Hg & E & HE).
    apply (rtable_gen d b S E Hb Hbs).
    - apply (stream_dstep' d b S E Hbs Hel Hbk Hg HE Hb Hin).
    - apply (iter_header_stream E HE).
    - apply (iter_dstep d b S E Hbs Hel Hbk Hg HE Hb Hin).
    - destruct Hin as ((H & _) & _). exact H.
    - exact Hel.
  Qed.

  Theorem rpfc_extract_prefix_spec_gen p : nul_free p ->
    rpfc_extract_prefix d p = Some (match spec_prefix_strs S p with [] => None | l => Some l end).
  Proof.
    intros Hnp. unfold rpfc_extract_prefix. rewrite (rpfc_locate_prefix_spec_gen p Hnp).
    destruct HL as (Hbs & Hel & Hbk & Hg & E & HE).
    pose proof Hin as ((_ & _ & Hsort & _ & Hn32) & _).
    destruct (prefix_answer S p Hsort) as (A & M & B & EE & _ & Es & Er).
    rewrite Er, Es. destruct M as [|m0 M']; [reflexivity|].
    destruct (N.eqb_spec (1 + lenN A) 0); [lia|].
    assert (Hlen : lenN S = lenN A + (1 + lenN M') + lenN B) by (rewrite EE, !lenN_app, lenN_cons; lia).
    rewrite (riter_range d b S E Hb Hbs
               (stream_dstep' d b S E Hbs Hel Hbk Hg HE Hb Hin)
               (iter_header_stream E HE)
               (iter_dstep d b S E Hbs Hel Hbk Hg HE Hb Hin)) with (lft := 1 + lenN A) (rgt := 1 + lenN A + lenN M');
      try lia.
    - do 2 f_equal.
      replace (1 + lenN A - 1) with (lenN A) by lia.
      replace (1 + lenN A + lenN M' - (1 + lenN A) + 1) with (lenN (m0 :: M')) by (rewrite lenN_cons; lia).
      rewrite EE, skipN_app_exact, firstN_app_exact. reflexivity.
    - intros k Hk1 Hlt.
      destruct (stream_header d b S E Hbs Hel Hbk HE Hb k Hk1 ltac:(apply (buckets_iff d b S Hbk Hb k Hk1); exact Hlt))
        as (off & rest & _ & Ebl & _ & _ & Eoff).
      rewrite Ebl, Eoff. reflexivity.
  Qed.
End Main.

(* the statements with the hypotheses of the task: bucket size >= 2, non-empty pattern *)
Theorem rpfc_decode_string_spec d b S : rpfc_layout_ok d b S -> 2 <= b -> rpfc_input S ->
  exists E : N -> bpos,
    (forall k, 1 <= k -> k <= r_buckets d ->
       (k - 1) * b < lenN S /\ rpfc_get_header d k = Some (E ((k - 1) * b), snth S ((k - 1) * b))) /\
    (forall i, i + 1 < lenN S -> (i + 1) mod b <> 0 ->
       decode_string d (E i) (snth S i) = Some (E (i + 1), snth S (i + 1), lcp (snth S i) (snth S (i + 1)))).
Proof. intros HL Hb Hin. apply rpfc_decode_string_spec_gen; auto. lia. Qed.

Theorem rpfc_extract_spec d b S id : rpfc_layout_ok d b S -> 2 <= b -> rpfc_input S ->
  rpfc_extract d id = Some (spec_extract S id).
Proof. intros HL Hb Hin. apply (rpfc_extract_spec_gen d b S); auto. lia. Qed.

Theorem rpfc_locate_spec d b S q : rpfc_layout_ok d b S -> 2 <= b -> rpfc_input S -> nul_free q ->
  rpfc_locate d q = Some (spec_locate S q).
Proof. intros HL Hb Hin Hq. apply (rpfc_locate_spec_gen d b S); auto. lia. Qed.

Theorem rpfc_locate_prefix_spec d b S p : rpfc_layout_ok d b S -> 2 <= b -> rpfc_input S -> nul_free p ->
  rpfc_locate_prefix d p = Some (range_of (spec_prefix_ids S p)).
Proof. intros HL Hb Hin Hq. apply (rpfc_locate_prefix_spec_gen d b S); auto. lia. Qed.

Theorem rpfc_locate_prefix_ids d b S p : rpfc_layout_ok d b S -> 2 <= b -> rpfc_input S -> nul_free p ->
  exists r, rpfc_locate_prefix d p = Some r /\ contig_ids (fst r) (snd r) = spec_prefix_ids S p.
Proof.
  intros HL Hb Hin Hq. exists (range_of (spec_prefix_ids S p)).
  split; [apply (rpfc_locate_prefix_spec d b S); assumption|].
  destruct Hin as ((_ & _ & Hsort & _ & Hn) & _). apply range_ids_spec; [exact Hsort|].
  assert (2 ^ 32 < 2 ^ 64) by (apply N.pow_lt_mono_r; lia). lia.
Qed.

Theorem rpfc_extract_prefix_spec d b S p : rpfc_layout_ok d b S -> 2 <= b -> rpfc_input S -> nul_free p ->
  rpfc_extract_prefix d p = Some (match spec_prefix_strs S p with [] => None | l => Some l end).
Proof. intros HL Hb Hin Hq. apply (rpfc_extract_prefix_spec_gen d b S); auto. lia. Qed.

Theorem rpfc_table_spec d b S : rpfc_layout_ok d b S -> 2 <= b -> rpfc_input S ->
  rpfc_extract_table d = Some (spec_table S).
Proof. intros HL Hb Hin. apply (rpfc_table_spec_gen d b S); auto. lia. Qed.

(* the same for an object certified by the boolean checkers (what the harness runs on every real object) *)
Theorem rpfc_chk_theorems d S : rpfc_layout_chk d S = true -> rpfc_inputb S = true ->
  (forall id, rpfc_extract d id = Some (spec_extract S id)) /\
  (forall q, nul_free q -> rpfc_locate d q = Some (spec_locate S q)) /\
  (forall p, nul_free p -> rpfc_locate_prefix d p = Some (range_of (spec_prefix_ids S p))) /\
  (forall p, nul_free p -> rpfc_extract_prefix d p = Some (match spec_prefix_strs S p with [] => None | l => Some l end)) /\
  rpfc_extract_table d = Some (spec_table S).
Proof.
  intros Hc Hi. destruct (rpfc_layout_chk_sound d S Hc) as [HL Hb]. apply rpfc_inputb_sound in Hi.
  split; [intros id; apply (rpfc_extract_spec_gen d _ S HL Hb Hi)|].
  split; [intros q Hq; apply (rpfc_locate_spec_gen d _ S HL Hb Hi q Hq)|].
  split; [intros p Hp; apply (rpfc_locate_prefix_spec_gen d _ S HL Hb Hi p Hp)|].
  split; [intros p Hp; apply (rpfc_extract_prefix_spec_gen d _ S HL Hb Hi p Hp)|].
  apply (rpfc_table_spec_gen d _ S HL Hb Hi).
Qed.

(* ====================================================================== *)
(* J. the length hypothesis is necessary: 3-byte VBytes break decodeString *)
(* ====================================================================== *)
(* The object the REAL constructor builds for  S = { a^16512 b, a^16512 c },  bucket size 2
   (dumped from the implementation; no Re-Pair rule, 9-bit symbols 0 1 129 'c' 255 after the header):
   it passes the layout checker - the bit stream does expand to VByte(16512) ++ "c" ++ [255] - but
   decodeString fetches only two bytes of the three-byte VByte (`while (read < 2)`), so
   VByte::decode reads a byte of vb that was never written: the model returns None, the real
   code crashes (SEGV in decodeString under ASan).  Shared prefixes >= 2^14 are outside the theorems. *)
Definition vb3_pre : list N := N.iter 16512 (cons 97) [].
Definition vb3_S : list str := [vb3_pre ++ [98]; vb3_pre ++ [99]].
Definition vb3_d : rpfc :=
  {| r_elements := 2; r_maxlength := 16514; r_buckets := 1; r_bsize := 2; r_bitsrp := 9;
     r_text := vb3_pre ++ [98; 0; 0; 0; 80; 38; 55; 248]; r_bl := [0; 0; 16521];
     r_t := 256; r_maxchar := 255; r_rules := [] |}.

Theorem rpfc_vbyte3_refuted :
  rpfc_layout_chk vb3_d vb3_S = true /\ valid_set_b vb3_S = true /\
  rpfc_extract vb3_d 2 = None /\ spec_extract vb3_S 2 = Some (vb3_pre ++ [99]).
Proof. vm_compute. repeat split; reflexivity. Qed.

(* ====================================================================== *)
(* K. a concrete object (dumped from the real constructor) satisfying all hypotheses *)
(* ====================================================================== *)
(* S = ab abab ababab ababc abc c, bucket size 3: two buckets; rules 97:98, 256:256 *)
Definition rex_S : list str :=
  [[97;98]; [97;98;97;98]; [97;98;97;98;97;98]; [97;98;97;98;99]; [97;98;99]; [99]].
Definition rex_d : rpfc :=
  {| r_elements := 6; r_maxlength := 7; r_buckets := 2; r_bsize := 3; r_bitsrp := 9;
     r_text := [97; 98; 0; 65; 64; 144; 144; 32; 97; 98; 97; 98; 99; 0; 65; 64; 80; 16; 16];
     r_bl := [0; 0; 8; 20]; r_t := 256; r_maxchar := 255; r_rules := [(97, 98); (99, 255); (256, 255)] |}.

Example rex_checked : rpfc_layout_chk rex_d rex_S = true /\ rpfc_inputb rex_S = true.
Proof. vm_compute. split; reflexivity. Qed.

Example rex_hyps : rpfc_layout_ok rex_d 3 rex_S /\ 2 <= 3 /\ rpfc_input rex_S.
Proof.
  destruct rex_checked as [H1 H2]. split; [exact (proj1 (rpfc_layout_chk_sound _ _ H1))|].
  split; [lia|apply rpfc_inputb_sound; exact H2].
Qed.

Example rex_compute :
  map (rpfc_extract rex_d) [0; 1; 2; 3; 4; 5; 6; 7] = map (fun i => Some (spec_extract rex_S i)) [0; 1; 2; 3; 4; 5; 6; 7] /\
  map (rpfc_locate rex_d) ([[97]; [97;98;97]; [100]; []] ++ rex_S) = map (fun q => Some (spec_locate rex_S q)) ([[97]; [97;98;97]; [100]; []] ++ rex_S) /\
  map (rpfc_locate_prefix rex_d) [[97]; [97;98;97]; [97;98;99]; [99]; [98]; [100]] = [Some (1, 5); Some (2, 4); Some (5, 5); Some (6, 6); Some (0, 0); Some (0, 0)] /\
  rpfc_extract_prefix rex_d [97;98;97] = Some (Some [[97;98;97;98]; [97;98;97;98;97;98]; [97;98;97;98;99]]) /\
  rpfc_extract_table rex_d = Some rex_S.
Proof. vm_compute. repeat split; reflexivity. Qed.
