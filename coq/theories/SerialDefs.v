(* SerialDefs.v -- serialisation schemas (C06 / C08 / C16): datatype, byte-level semantics, boolean checkers.
   Definitions only (no proofs).  The per-class schemas themselves are NOT written by hand: they are regenerated
   from /repo's current source by wip/serial/translate_schema.py into gen/Schema_gen.v on every run.

   A schema is the ordered list of things a `save` method writes (or a `load` method reads):
     Scalar w e     saveValue<T>(out, e) / e = loadValue<T>(in)          (w = sizeof(T), little endian)
     Array  w c     saveValue<T>(out, p, c) / loadValue<T>(in, c)        (c = count expression, as normalised text)
     Nested C       member->save(out) / C::load(in) / new C(in)
     Loop   c body  for (i = 0; i < c; i++) body
     Cond   c a b   if (c) a else b        (c over scalars stored earlier)
     Opaque s       a statement touching the stream that the translator did not understand
   Count / condition texts are given a meaning by a generated table  text -> cexp  (per class).

   Values are positional (a tree parallel to the schema) so that the round trip is an exact equality.
   `write` evaluates count expressions in the environment of the WHOLE object (a saver sees every member), `read`
   only in the scope of the scalars read SO FAR (a loader knows nothing else): that the two agree is what
   well-formedness (`wf_*`: every count variable is a scalar stored earlier, no Opaque, nested classes known) buys. *)
From Coq Require Import List NArith String Bool.
From LibCSD Require Import Base Bytes.
Import ListNotations.
Local Open Scope string_scope.
Local Open Scope N_scope.
Local Open Scope list_scope.

Inductive item :=
| Scalar (bytes : N) (e : string)
| Array (elem : N) (cnt : string)
| Nested (cls : string)
| Loop (cnt : string) (body : list item)
| Cond (c : string) (a b : list item)
| Opaque (s : string).
Definition schema := list item.

Inductive cexp :=
| CLit (n : N)
| CVar (x : string)
| CBin (op : string) (a b : cexp)
| CPow2 (a : cexp)
| CIte (c a b : cexp).

Inductive tagsrc := TagMember | TagConst (c : string) | TagOther (e : string).
Inductive tagassign := AssignConst (c : string) | AssignLoaded | AssignOther (v : string) | AssignNone.

(* positional values *)
Inductive val :=
| VS (n : N)                         (* scalar *)
| VA (bs : list N)                   (* array, as bytes *)
| VN (cls : string) (vs : list val)  (* nested object of dynamic class cls *)
| VL (its : list (list val))         (* loop: one value list per iteration *)
| VC (vs : list val).                (* the taken branch of a Cond *)

Definition scope := list (string * N).

Fixpoint assoc {A} (k : string) (l : list (string * A)) : option A :=
  match l with
  | [] => None
  | (k', v) :: r => if String.eqb k k' then Some v else assoc k r
  end.

Fixpoint assocN {A} (k : N) (l : list (N * A)) : option A :=
  match l with
  | [] => None
  | (k', v) :: r => if N.eqb k k' then Some v else assocN k r
  end.

Fixpoint mem (x : string) (l : list string) : bool :=
  match l with [] => false | y :: r => String.eqb x y || mem x r end.

(* ---------- count expressions ---------- *)
Definition b2n (b : bool) : N := if b then 1 else 0.

Definition cbin (op : string) (a b : N) : option N :=
  if String.eqb op "+" then Some (a + b)
  else if String.eqb op "-" then (if b <=? a then Some (a - b) else None)
  else if String.eqb op "*" then Some (a * b)
  else if String.eqb op "/" then (if b =? 0 then None else Some (a / b))
  else if String.eqb op "%" then (if b =? 0 then None else Some (a mod b))
  else if String.eqb op "==" then Some (b2n (a =? b))
  else if String.eqb op "!=" then Some (b2n (negb (a =? b)))
  else if String.eqb op "<" then Some (b2n (a <? b))
  else if String.eqb op "<=" then Some (b2n (a <=? b))
  else if String.eqb op ">" then Some (b2n (b <? a))
  else if String.eqb op ">=" then Some (b2n (b <=? a))
  else if String.eqb op "&&" then Some (b2n (negb (a =? 0) && negb (b =? 0)))
  else if String.eqb op "||" then Some (b2n (negb (a =? 0) || negb (b =? 0)))
  else None.

Fixpoint ceval (e : cexp) (sc : scope) : option N :=
  match e with
  | CLit n => Some n
  | CVar x => assoc x sc
  | CBin op a b => match ceval a sc, ceval b sc with Some x, Some y => cbin op x y | _, _ => None end
  | CPow2 a => match ceval a sc with Some x => Some (2 ^ x) | None => None end
  | CIte c a b => match ceval c sc with
                  | Some x => if x =? 0 then ceval b sc else ceval a sc
                  | None => None
                  end
  end.

Fixpoint cvars (e : cexp) : list string :=
  match e with
  | CLit _ => []
  | CVar x => [x]
  | CBin _ a b => cvars a ++ cvars b
  | CPow2 a => cvars a
  | CIte c a b => cvars c ++ cvars a ++ cvars b
  end.

Definition cnt_table := list (string * cexp).

Definition cnt (tbl : cnt_table) (c : string) (sc : scope) : option N :=
  match assoc c tbl with Some e => ceval e sc | None => None end.

(* ---------- context: class table and polymorphic bases ---------- *)
Record ctx := mkCtx {
  cx_cls : list (string * (schema * cnt_table));       (* class -> (save schema, count table) *)
  cx_poly : list (string * list (N * string))          (* polymorphic base -> dispatch table (header word -> class) *)
}.

Definition take (k : nat) (bs : list N) : option (list N * list N) :=
  if (k <=? length bs)%nat then Some (firstn k bs, skipn k bs) else None.

Definition peek4 (bs : list N) : option N :=
  match take 4 bs with Some (a, _) => Some (le_value a) | None => None end.

(* top-level scalars of one level, in order *)
Fixpoint collect (sch : list item) (vs : list val) : scope :=
  match sch, vs with
  | Scalar _ e :: sch', VS x :: vs' => (e, x) :: collect sch' vs'
  | _ :: sch', _ :: vs' => collect sch' vs'
  | _, _ => []
  end.

(* may an object of dynamic class c sit in a field of static class B? *)
Definition nested_target (cx : ctx) (B c : string) : bool :=
  match assoc B (cx_poly cx) with
  | None => String.eqb B c
  | Some disp => existsb (fun p => String.eqb (snd p) c) disp
  end.

(* a polymorphic object must start with a header word that the base class's dispatcher routes back to its class *)
Definition poly_ok (cx : ctx) (B c : string) (out : list N) : bool :=
  match assoc B (cx_poly cx) with
  | None => true
  | Some disp => match peek4 out with
                 | Some t => match assocN t disp with Some k => String.eqb k c | None => false end
                 | None => false
                 end
  end.

Definition read_class (cx : ctx) (B : string) (bs : list N) : option string :=
  match assoc B (cx_poly cx) with
  | None => Some B
  | Some disp => match peek4 bs with Some t => assocN t disp | None => None end
  end.

(* ---------- write ---------- *)
Fixpoint wlist (W : item -> val -> option (list N)) (sch : list item) (vs : list val) : option (list N) :=
  match sch, vs with
  | [], [] => Some []
  | it :: sch', v :: vs' =>
      match W it v, wlist W sch' vs' with Some a, Some b => Some (a ++ b) | _, _ => None end
  | _, _ => None
  end.

Fixpoint wconcat (F : list val -> option (list N)) (its : list (list val)) : option (list N) :=
  match its with
  | [] => Some []
  | vs :: r => match F vs, wconcat F r with Some a, Some b => Some (a ++ b) | _, _ => None end
  end.

Definition scalar_ok (env : scope) (e : string) (x : N) : bool :=
  match assoc e env with Some y => y =? x | None => false end.

Fixpoint witem (cx : ctx) (fuel : nat) (tbl : cnt_table) (env : scope) (it : item) (v : val) : option (list N) :=
  match fuel with
  | O => None
  | S f =>
    match it, v with
    | Scalar b e, VS x =>
        if (x <? 256 ^ b) && scalar_ok env e x then Some (le_bytes (N.to_nat b) x) else None
    | Array el c, VA bs =>
        match cnt tbl c env with
        | Some n => if lenN bs =? el * n then Some bs else None
        | None => None
        end
    | Nested B, VN c vs =>
        if nested_target cx B c then
          match assoc c (cx_cls cx) with
          | Some (s, t) =>
              match wlist (witem cx f t (collect s vs)) s vs with
              | Some out => if poly_ok cx B c out then Some out else None
              | None => None
              end
          | None => None
          end
        else None
    | Loop c body, VL its =>
        match cnt tbl c env with
        | Some n => if lenN its =? n
                    then wconcat (fun vs => wlist (witem cx f tbl (env ++ collect body vs)) body vs) its
                    else None
        | None => None
        end
    | Cond c a b, VC vs =>
        match cnt tbl c env with
        | Some x => let br := if x =? 0 then b else a in
                    wlist (witem cx f tbl (env ++ collect br vs)) br vs
        | None => None
        end
    | _, _ => None
    end
  end.

Definition write (cx : ctx) (fuel : nat) (tbl : cnt_table) (sch : schema) (vs : list val) : option (list N) :=
  wlist (witem cx fuel tbl (collect sch vs)) sch vs.

(* ---------- read ---------- *)
Fixpoint rlist (R : item -> scope -> list N -> option (val * scope * list N))
         (sch : list item) (sc : scope) (bs : list N) : option (list val * scope * list N) :=
  match sch with
  | [] => Some ([], sc, bs)
  | it :: sch' =>
      match R it sc bs with
      | Some (v, sc1, bs1) =>
          match rlist R sch' sc1 bs1 with
          | Some (vs, sc2, bs2) => Some (v :: vs, sc2, bs2)
          | None => None
          end
      | None => None
      end
  end.

Fixpoint rrep (F : list N -> option (list val * list N)) (n : nat) (bs : list N) : option (list (list val) * list N) :=
  match n with
  | O => Some ([], bs)
  | S k => match F bs with
           | Some (vs, bs1) => match rrep F k bs1 with
                               | Some (r, bs2) => Some (vs :: r, bs2)
                               | None => None
                               end
           | None => None
           end
  end.

Definition drop_scope (r : option (list val * scope * list N)) : option (list val * list N) :=
  match r with Some (vs, _, rest) => Some (vs, rest) | None => None end.

Fixpoint ritem (cx : ctx) (fuel : nat) (tbl : cnt_table) (it : item) (sc : scope) (bs : list N)
  : option (val * scope * list N) :=
  match fuel with
  | O => None
  | S f =>
    match it with
    | Scalar b e =>
        match take (N.to_nat b) bs with
        | Some (a, r) => Some (VS (le_value a), (e, le_value a) :: sc, r)
        | None => None
        end
    | Array el c =>
        match cnt tbl c sc with
        | Some n => match take (N.to_nat (el * n)) bs with
                    | Some (a, r) => Some (VA a, sc, r)
                    | None => None
                    end
        | None => None
        end
    | Nested B =>
        match read_class cx B bs with
        | Some c =>
            match assoc c (cx_cls cx) with
            | Some (s, t) =>
                match drop_scope (rlist (ritem cx f t) s [] bs) with
                | Some (vs, r) => Some (VN c vs, sc, r)
                | None => None
                end
            | None => None
            end
        | None => None
        end
    | Loop c body =>
        match cnt tbl c sc with
        | Some n =>
            match rrep (fun bs => drop_scope (rlist (ritem cx f tbl) body sc bs)) (N.to_nat n) bs with
            | Some (its, r) => Some (VL its, sc, r)
            | None => None
            end
        | None => None
        end
    | Cond c a b =>
        match cnt tbl c sc with
        | Some x => let br := if x =? 0 then b else a in
                    match drop_scope (rlist (ritem cx f tbl) br sc bs) with
                    | Some (vs, r) => Some (VC vs, sc, r)
                    | None => None
                    end
        | None => None
        end
    | Opaque _ => None
    end
  end.

Definition read (cx : ctx) (fuel : nat) (tbl : cnt_table) (sch : schema) (bs : list N) : option (list val * list N) :=
  drop_scope (rlist (ritem cx fuel tbl) sch [] bs).

Definition fits (cx : ctx) (fuel : nat) (tbl : cnt_table) (sch : schema) (vs : list val) : bool :=
  match write cx fuel tbl sch vs with Some _ => true | None => false end.

(* ---------- well-formedness (boolean, run by vm_compute on the generated schemas) ---------- *)
Definition vars_in (dom : list string) (tbl : cnt_table) (c : string) : bool :=
  match assoc c tbl with
  | Some e => forallb (fun x => mem x dom) (cvars e)
  | None => false
  end.

Definition bind (it : item) (dom : list string) : list string :=
  match it with Scalar _ e => e :: dom | _ => dom end.

Fixpoint wf_list (Wf : list string -> item -> bool) (dom : list string) (sch : list item) : bool :=
  match sch with
  | [] => true
  | it :: r => Wf dom it && wf_list Wf (bind it dom) r
  end.

Definition known (cx : ctx) (B : string) : bool :=
  match assoc B (cx_poly cx) with
  | Some disp => existsb (fun p => match assoc (snd p) (cx_cls cx) with Some _ => true | None => false end) disp
  | None => match assoc B (cx_cls cx) with Some _ => true | None => false end
  end.

Fixpoint wf_item (cx : ctx) (fuel : nat) (tbl : cnt_table) (dom : list string) (it : item) : bool :=
  match fuel with
  | O => false
  | S f =>
    match it with
    | Scalar b e => (1 <=? b) && (b <=? 8)
    | Array el c => vars_in dom tbl c
    | Nested B => known cx B
    | Loop c body => vars_in dom tbl c && wf_list (wf_item cx f tbl) dom body
    | Cond c a b => vars_in dom tbl c && wf_list (wf_item cx f tbl) dom a && wf_list (wf_item cx f tbl) dom b
    | Opaque _ => false
    end
  end.

Definition wf_fuel : nat := 16.

Definition wf_schema (cx : ctx) (tbl : cnt_table) (sch : schema) : bool :=
  wf_list (wf_item cx wf_fuel tbl) [] sch.

Definition wf_ctx (cx : ctx) : bool :=
  forallb (fun p => wf_schema cx (snd (snd p)) (fst (snd p))) (cx_cls cx).

(* ---------- structural comparison of schemas ---------- *)
Fixpoint list_eqb {A} (eqb : A -> A -> bool) (l m : list A) : bool :=
  match l, m with
  | [], [] => true
  | x :: l', y :: m' => eqb x y && list_eqb eqb l' m'
  | _, _ => false
  end.

Fixpoint item_eqb (fuel : nat) (a b : item) : bool :=
  match fuel with
  | O => false
  | S f =>
    match a, b with
    | Scalar x e, Scalar y g => (x =? y) && String.eqb e g
    | Array x c, Array y d => (x =? y) && String.eqb c d
    | Nested c, Nested d => String.eqb c d
    | Loop c l, Loop d m => String.eqb c d && list_eqb (item_eqb f) l m
    | Cond c l1 l2, Cond d m1 m2 => String.eqb c d && list_eqb (item_eqb f) l1 m1 && list_eqb (item_eqb f) l2 m2
    | Opaque s, Opaque t => String.eqb s t
    | _, _ => false
    end
  end.

Definition schema_eq (a b : schema) : bool := list_eqb (item_eqb wf_fuel) a b.

(* ---------- adapters: the tolerated, documented differences between a save and its load ---------- *)
(* rename scalar names / count texts / nested classes through an association list (identity when absent) *)
Definition ren (r : list (string * string)) (s : string) : string :=
  match assoc s r with Some t => t | None => s end.

Fixpoint rename_item (fuel : nat) (r : list (string * string)) (it : item) : item :=
  match fuel with
  | O => it
  | S f =>
    match it with
    | Scalar b e => Scalar b (ren r e)
    | Array el c => Array el (ren r c)
    | Nested c => Nested (ren r c)
    | Loop c body => Loop (ren r c) (map (rename_item f r) body)
    | Cond c a b => Cond (ren r c) (map (rename_item f r) a) (map (rename_item f r) b)
    | Opaque s => Opaque s
    end
  end.
Definition rename (r : list (string * string)) (sch : schema) : schema := map (rename_item wf_fuel r) sch.

Fixpoint rename_cexp (r : list (string * string)) (e : cexp) : cexp :=
  match e with
  | CLit n => CLit n
  | CVar x => CVar (ren r x)
  | CBin op a b => CBin op (rename_cexp r a) (rename_cexp r b)
  | CPow2 a => CPow2 (rename_cexp r a)
  | CIte c a b => CIte (rename_cexp r c) (rename_cexp r a) (rename_cexp r b)
  end.
Definition rename_cnt (r : list (string * string)) (tbl : cnt_table) : cnt_table :=
  map (fun p => (ren r (fst p), rename_cexp r (snd p))) tbl.

(* the tag word: first item must be a 4-byte scalar; its NAME is not compared (the saver writes the member `type` or
   a constant, the loader reads into a local before the object exists); the tie between the two is the guard
   (C06_tag_guard / C16) *)
Definition norm_tag (sch : schema) : schema :=
  match sch with
  | Scalar 4 _ :: r => Scalar 4 "#tag" :: r
  | _ => sch
  end.

(* replace `Nested c` (top level) by the items of class c's own schema (a loader that delegates the tail of the image
   to a helper class's constructor, XBW) *)
Fixpoint inline_nested (c : string) (body : schema) (sch : schema) : schema :=
  match sch with
  | [] => []
  | Nested d :: r => if String.eqb c d then body ++ inline_nested c body r else Nested d :: inline_nested c body r
  | it :: r => it :: inline_nested c body r
  end.

(* does a schema contain an Opaque item? *)
Fixpoint has_opaque (fuel : nat) (sch : list item) : bool :=
  match fuel with
  | O => true
  | S f => existsb (fun it => match it with
                              | Opaque _ => true
                              | Loop _ b => has_opaque f b
                              | Cond _ a b => has_opaque f a || has_opaque f b
                              | _ => false
                              end) sch
  end.

(* ---------- loaders, dispatcher (C16) ---------- *)
(* a tagged loader: reads the first 4-byte word, refuses unless it is its own constant, then reads its schema *)
Definition loader (cx : ctx) (fuel : nat) (guard : N) (tbl : cnt_table) (sch : schema) (bs : list N)
  : option (list val * list N) :=
  match peek4 bs with
  | Some t => if t =? guard then read cx fuel tbl sch bs else None
  | None => None
  end.

(* the dispatcher: look the tag up in the generated table, otherwise the extracted default branch *)
Definition generic_load_result (disp : list (N * string)) (dflt : option string) (t : N) : option string :=
  match assocN t disp with Some c => Some c | None => dflt end.

Definition generic_load (cx : ctx) (fuel : nat) (disp : list (N * string)) (dflt : option string)
           (guards : list (string * N)) (bs : list N) : option (string * list val * list N) :=
  match peek4 bs with
  | Some t =>
      match generic_load_result disp dflt t with
      | Some c =>
          match assoc c guards, assoc c (cx_cls cx) with
          | Some g, Some (s, tb) =>
              match loader cx fuel g tb s bs with Some (vs, r) => Some (c, vs, r) | None => None end
          | _, _ => None
          end
      | None => None
      end
  | None => None
  end.

Definition guard_of (guards : list (string * N)) (c : string) : N :=
  match assoc c guards with Some g => g | None => 4294967296 (* 2^32: no 32-bit tag ever equals it *) end.

Fixpoint nodupN (l : list N) : bool :=
  match l with [] => true | x :: r => negb (existsb (N.eqb x) r) && nodupN r end.

(* ---------- tag stability (C08) ---------- *)
Definition const_value (consts : list (string * N)) (c : string) : option N := assoc c consts.

(* after load the member `type` holds the class's own tag again *)
Definition load_preserves_type (consts : list (string * N)) (guard : option N) (a : tagassign) : bool :=
  match a, guard with
  | AssignLoaded, Some _ => true                          (* assigned from the word that passed the guard *)
  | AssignConst c, Some g => match const_value consts c with Some v => v =? g | None => false end
  | _, _ => false
  end.

Definition tag_is_const (s : tagsrc) : bool := match s with TagConst _ => true | _ => false end.

Definition tag_stable (consts : list (string * N)) (guards : list (string * N))
           (srcs : list (string * tagsrc)) (asgs : list (string * tagassign)) (c : string) : bool :=
  match assoc c srcs with
  | Some s =>
      tag_is_const s ||
      match assoc c asgs with Some a => load_preserves_type consts (assoc c guards) a | None => false end
  | None => false
  end.
