(* pfc-d: exported theorems (C06 / C08 / C16 for the PFC kind, C07 capacity accounting of the
   PFC constructor).  Compile from /verif/coq:
     coqc -Q theories LibCSD ../wip/pfc-d/Properties_snippet.v          (after the three theory files) *)
From LibCSD Require Import Base Bytes VByteDefs Spec LogSeqDefs PFCDefs PFCLayout PFCBuildProofs PFCTheorems
  PFCSaveProofs CapacityDefs CapacityProofs.
Local Open Scope N_scope.

(* ---- C06 ---------------------------------------------------------------- *)
Theorem C06_pfc_save_defined : forall b0 S, pfc_input S -> exists img, pfc_save (pfc_build b0 S) = Some img.
Proof. exact pfc_save_defined. Qed.
Print Assumptions C06_pfc_save_defined.

Theorem C06_pfc_load_save : forall d img rest,
  pfc_wf d -> pfc_save d = Some img -> pfc_load (img ++ rest) = Some (d, rest).
Proof. exact pfc_load_save. Qed.
Print Assumptions C06_pfc_load_save.

Theorem C06_pfc_build_wf : forall b0 S,
  pfc_input S -> b0 < 2 ^ 32 -> Forall (fun s => lenN s + 1 < 2 ^ 32) S -> pfc_wf (pfc_build b0 S).
Proof. exact pfc_build_wf. Qed.
Print Assumptions C06_pfc_build_wf.

Theorem C06_pfc_reloaded_answers : forall b0 S img rest d' rest',
  pfc_input S -> b0 < 2 ^ 32 -> Forall (fun s => lenN s + 1 < 2 ^ 32) S ->
  pfc_save (pfc_build b0 S) = Some img -> pfc_load (img ++ rest) = Some (d', rest') ->
  rest' = rest /\
  (forall q, nul_free q ->
     pfc_locate d' q = pfc_locate (pfc_build b0 S) q /\ pfc_locate d' q = Some (spec_locate S q)) /\
  (forall id,
     pfc_extract d' id = pfc_extract (pfc_build b0 S) id /\ pfc_extract d' id = Some (spec_extract S id)) /\
  pfc_extract_table d' = pfc_extract_table (pfc_build b0 S) /\ pfc_extract_table d' = Some S /\
  p_elements d' = lenN S /\ p_maxlength d' = spec_maxlen S + 1.
Proof. exact pfc_reloaded_answers. Qed.
Print Assumptions C06_pfc_reloaded_answers.

Theorem C06_pfc_self_delimiting : forall d1 d2 img1 img2 rest,
  pfc_wf d1 -> pfc_wf d2 -> pfc_save d1 = Some img1 -> pfc_save d2 = Some img2 ->
  pfc_load (img1 ++ img2 ++ rest) = Some (d1, img2 ++ rest) /\ pfc_load (img2 ++ rest) = Some (d2, rest).
Proof. exact pfc_load_two_images. Qed.
Print Assumptions C06_pfc_self_delimiting.

Theorem C06_pfc_image_bytes : forall b0 S img,
  pfc_input S -> Forall bytes S -> pfc_save (pfc_build b0 S) = Some img -> bytes img.
Proof. exact pfc_build_image_bytes. Qed.
Print Assumptions C06_pfc_image_bytes.

(* ---- C08 ---------------------------------------------------------------- *)
Theorem C08_pfc_resave_identical : forall d img rest d' rest',
  pfc_wf d -> pfc_save d = Some img -> pfc_load (img ++ rest) = Some (d', rest') ->
  pfc_save d' = pfc_save d /\ pfc_save d' = Some img.
Proof. exact pfc_resave_identical. Qed.
Print Assumptions C08_pfc_resave_identical.

Theorem C08_pfc_build_image_deterministic : forall b0 b1 S S',
  b0 = b1 -> S = S' -> pfc_save (pfc_build b0 S) = pfc_save (pfc_build b1 S').
Proof. exact pfc_build_image_deterministic. Qed.
Print Assumptions C08_pfc_build_image_deterministic.

Theorem C08_pfc_save_injective : forall d1 d2 img,
  pfc_wf d1 -> pfc_wf d2 -> pfc_save d1 = Some img -> pfc_save d2 = Some img -> d1 = d2.
Proof. exact pfc_save_injective. Qed.
Print Assumptions C08_pfc_save_injective.

(* ---- C16 ---------------------------------------------------------------- *)
Theorem C16_pfc_load_rejects_foreign_tag : forall bs, le_value (firstn 4 bs) <> 211 -> pfc_load bs = None.
Proof. exact pfc_load_rejects_foreign_tag. Qed.
Print Assumptions C16_pfc_load_rejects_foreign_tag.

Theorem C16_pfc_load_rejects_short : forall bs, (length bs < 32)%nat -> pfc_load bs = None.
Proof. exact pfc_load_rejects_short. Qed.
Print Assumptions C16_pfc_load_rejects_short.

(* hypotheses satisfiable *)
Example C06_example : pfc_input sv_S /\ pfc_wf sv_d /\ pfc_save sv_d = Some sv_img /\
  pfc_load (sv_img ++ [1; 2; 3]) = Some (sv_d, [1; 2; 3]) /\ pfc_load (212 :: skipn 1 sv_img) = None.
Proof.
  split; [exact thm_ex_input|]. split; [exact sv_wf|]. split; [exact sv_save_some|].
  split; [exact sv_load_save|]. exact (proj1 sv_foreign_tag).
Qed.

(* ---- C07 (capacity accounting of the PFC constructor) ---------------------- *)
Theorem C07_cap_grow_terminates : forall need r, 1 <= r -> need <= cap_grow need r /\ r <= cap_grow need r.
Proof. exact cap_grow_spec. Qed.
Print Assumptions C07_cap_grow_terminates.

Theorem C07_cap_ok_if_len_ge_2 : forall R0 items,
  1 <= R0 -> Forall item_len_ge_2 items -> cap_safe chk_pinned R0 items = true.
Proof. exact cap_ok_if_len_ge_2. Qed.
Print Assumptions C07_cap_ok_if_len_ge_2.

Theorem C07_cap_ok_pinned_exact : forall R0 items,
  1 <= R0 -> Forall pinned_item_ok items -> cap_safe chk_pinned R0 items = true.
Proof. exact cap_ok_pinned_exact. Qed.
Print Assumptions C07_cap_ok_pinned_exact.

Theorem C07_cap_pinned_condition_necessary : forall R len l,
  len < 2 ^ 31 -> 2 * len <= R -> 2 * len < vb_len l + (len - l) + 1 ->
  let '(R', _, top) := cap_step chk_pinned (R, R - 2 * len) (len, l, false) in R' = R /\ R <= top.
Proof. exact cap_pinned_condition_necessary. Qed.
Print Assumptions C07_cap_pinned_condition_necessary.

Theorem C07_cap_refuted :
  exists R0 items, 1 <= R0 /\ cap_safe chk_pinned R0 items = false /\
                   cap_run chk_pinned (R0, 0) items = [(4, 1); (4, 4)].
Proof. exact cap_refuted. Qed.
Print Assumptions C07_cap_refuted.

Theorem C07_cap_refuted_strings :
  valid_set cap_witness_S /\ pfc_input cap_witness_S /\
  pfc_ctor_in_bounds chk_pinned 2 cap_witness_S = false /\
  last (cap_run chk_pinned (cap_reserved0 2, 0) (cap_items 2 cap_witness_S)) (0, 0) = (65536, 65536) /\
  pfc_ctor_in_bounds chk_pinned 2 (removelast cap_witness_S) = true /\
  snd (cap_final chk_pinned (cap_reserved0 2, 0) (cap_items 2 (removelast cap_witness_S))) = 65534 /\
  last cap_witness_S [] = [121] /\
  pfc_ctor_in_bounds chk_fixed 2 cap_witness_S = true.
Proof. exact cap_refuted_strings. Qed.
Print Assumptions C07_cap_refuted_strings.

Theorem C07_pfc_capacity_refuted' : ~ C07_pfc_capacity_full.
Proof. exact C07_pfc_capacity_refuted. Qed.
Print Assumptions C07_pfc_capacity_refuted'.

Theorem C07_cap_ok_fixed : forall R0 items,
  1 <= R0 -> Forall item_lcp32 items -> cap_safe chk_fixed R0 items = true.
Proof. exact cap_ok_fixed. Qed.
Print Assumptions C07_cap_ok_fixed.

Theorem C07_cap_ok_fixed32 : forall R0 items,
  1 <= R0 -> Forall item_fixed32_ok items -> cap_safe chk_fixed32 R0 items = true.
Proof. exact cap_ok_fixed32. Qed.
Print Assumptions C07_cap_ok_fixed32.

Theorem C07_cap_ok_min : forall R0 items,
  1 <= R0 -> Forall item_lcp_le items -> cap_safe chk_min R0 items = true.
Proof. exact cap_ok_min. Qed.
Print Assumptions C07_cap_ok_min.

Theorem C07_pfc_capacity_fixed' : forall b0 S, 1 <= b0 < 131072 ->
  pfc_input S -> pfc_ctor_in_bounds chk_fixed b0 S = true.
Proof. exact C07_pfc_capacity_fixed. Qed.
Print Assumptions C07_pfc_capacity_fixed'.

Theorem C07_pfc_capacity_partial' : forall b0 S, 1 <= b0 < 131072 ->
  valid_set S -> Forall (fun s => 2 <= lenN s < 2 ^ 31) S -> pfc_ctor_in_bounds chk_pinned b0 S = true.
Proof. exact C07_pfc_capacity_partial. Qed.
Print Assumptions C07_pfc_capacity_partial'.

Theorem C07_cap_cursor_is_text_length : forall chk b0 S, 2 <= b0 ->
  snd (cap_final chk (cap_reserved0 b0, 0) (cap_items b0 S)) = lenN (p_text (pfc_build b0 S)).
Proof. exact cap_cursor_is_text_length. Qed.
Print Assumptions C07_cap_cursor_is_text_length.

(* hypotheses satisfiable: the items of the sorted 7-string set ex_S = ab abc abcd ac b baa bab.
   With b = 4 its only 1-byte string "b" (index 4) is a header and the hypothesis of
   [cap_ok_if_len_ge_2] holds; with b = 3 it is an internal string with LCP 0 -- the critical
   shape: the hypothesis fails, although this particular run is still in bounds (the cursor is
   nowhere near the end of the 98304-byte buffer) *)
Example C07_example :
  Forall item_len_ge_2 (cap_items 4 ex_S) /\ pfc_ctor_in_bounds chk_pinned 4 ex_S = true /\
  forallb item_len_ge_2_b (cap_items 3 ex_S) = false /\ pfc_ctor_in_bounds chk_pinned 3 ex_S = true /\
  cap_run chk_pinned (cap_reserved0 3, 0) (cap_items 3 ex_S) =
    [(98304, 2); (98304, 5); (98304, 8); (98304, 11); (98304, 14); (98304, 18); (98304, 22)].
Proof.
  split; [apply items_len_ge_2_b_sound; vm_compute; reflexivity|].
  vm_compute. repeat split; reflexivity.
Qed.
