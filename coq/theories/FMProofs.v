(* Theorems about the FM-index model of FMDefs.v: the classical FM-index argument
   (LF mapping, backward search) over an abstract BWT, then the dictionary layer. *)
From LibCSD Require Import Base Spec SpecProofs IterDefs IterProofs FMDefs.
From Coq Require Import Lia ZifyBool ZifyNat ZifyN Permutation Sorted.
Ltac Zify.zify_post_hook ::= Z.to_euclidean_division_equations.
Local Open Scope N_scope.

(* ================================================================================ *)
(* Part 0: counting                                                                  *)
(* ================================================================================ *)
Definition cnt {A} (f : A -> bool) (l : list A) : nat := length (filter f l).

Lemma cnt_nil {A} (f : A -> bool) : cnt f [] = 0%nat.
Proof. reflexivity. Qed.
Lemma cnt_cons {A} (f : A -> bool) x l : cnt f (x :: l) = ((if f x then 1 else 0) + cnt f l)%nat.
Proof. unfold cnt. cbn [filter]. destruct (f x); reflexivity. Qed.
Lemma cnt_app {A} (f : A -> bool) l r : cnt f (l ++ r) = (cnt f l + cnt f r)%nat.
Proof. unfold cnt. rewrite filter_app, app_length. reflexivity. Qed.
Lemma cnt_le {A} (f : A -> bool) l : (cnt f l <= length l)%nat.
Proof. induction l as [|x l IH]; [apply le_n|]. rewrite cnt_cons. cbn [length]. destruct (f x); lia. Qed.
Lemma cnt_ext {A} (f g : A -> bool) l : (forall x, In x l -> f x = g x) -> cnt f l = cnt g l.
Proof.
  induction l as [|x l IH]; intros H; [reflexivity|]. rewrite !cnt_cons, (H x) by (left; reflexivity).
  rewrite IH; [reflexivity|]. intros y Hy. apply H. right; exact Hy.
Qed.
Lemma cnt_perm {A} (f : A -> bool) l r : Permutation l r -> cnt f l = cnt f r.
Proof.
  induction 1 as [|x l r _ IH|x y l|l m r _ IH1 _ IH2]; [reflexivity| | |congruence].
  - rewrite !cnt_cons, IH. reflexivity.
  - rewrite !cnt_cons. lia.
Qed.
Lemma cnt_map {A B} (g : A -> B) (f : B -> bool) l : cnt f (map g l) = cnt (fun x => f (g x)) l.
Proof. induction l as [|x l IH]; [reflexivity|]. cbn [map]. rewrite !cnt_cons, IH. reflexivity. Qed.
Lemma cnt_or {A} (f g : A -> bool) l : (forall x, In x l -> f x && g x = false) ->
  cnt (fun x => f x || g x) l = (cnt f l + cnt g l)%nat.
Proof.
  induction l as [|x l IH]; intros H; [reflexivity|]. rewrite !cnt_cons, IH by (intros y Hy; apply H; right; exact Hy).
  pose proof (H x (or_introl eq_refl)) as Hx. destruct (f x), (g x); cbn in *; try discriminate; lia.
Qed.
Lemma cnt_zero {A} (f : A -> bool) l : (forall x, In x l -> f x = false) -> cnt f l = 0%nat.
Proof.
  induction l as [|x l IH]; intros H; [reflexivity|]. rewrite cnt_cons, (H x) by (left; reflexivity).
  rewrite IH; [reflexivity|]. intros y Hy. apply H. right; exact Hy.
Qed.
Lemma cnt_pos_ex {A} (f : A -> bool) l : (0 < cnt f l)%nat -> exists x, In x l /\ f x = true.
Proof.
  induction l as [|x l IH]; [cbn; lia|]. rewrite cnt_cons. destruct (f x) eqn:E.
  - intros _. exists x. split; [left; reflexivity|exact E].
  - intros H. destruct IH as (y & Hy & Hf); [lia|]. exists y. split; [right; exact Hy|exact Hf].
Qed.
Lemma cnt_ex_pos {A} (f : A -> bool) l x : In x l -> f x = true -> (0 < cnt f l)%nat.
Proof.
  induction l as [|y l IH]; [intros []|]. intros [->|H] Hf; rewrite cnt_cons.
  - rewrite Hf. lia.
  - specialize (IH H Hf). lia.
Qed.

Definition ltc (c x : N) : bool := x <? c.
Definition eqc (c x : N) : bool := x =? c.
Lemma count_eq_cnt c l : count_eq c l = N.of_nat (cnt (eqc c) l).
Proof. induction l as [|x l IH]; [reflexivity|]. cbn [count_eq]. rewrite cnt_cons, IH. unfold eqc. destruct (x =? c); lia. Qed.
Lemma count_lt_cnt c l : count_lt c l = N.of_nat (cnt (ltc c) l).
Proof. induction l as [|x l IH]; [reflexivity|]. cbn [count_lt]. rewrite cnt_cons, IH. unfold ltc. destruct (x <? c); lia. Qed.

(* ================================================================================ *)
(* Part 1: order on strings as boolean "cuts"                                        *)
(* ================================================================================ *)
(* the cut  { x :: s | x < c  \/  x = c /\ cut s } + the empty string *)
Definition cut_c (c : N) (cut : list N -> bool) (s : list N) : bool :=
  match s with
  | [] => true
  | x :: s' => (x <? c) || ((x =? c) && cut s')
  end.

(* s < w *)
Fixpoint ltb (s w : list N) {struct w} : bool :=
  match w with
  | [] => false
  | c :: w' => match s with [] => true | x :: s' => (x <? c) || ((x =? c) && ltb s' w') end
  end.
(* s < w or w is a prefix of s *)
Fixpoint ltp (s w : list N) {struct w} : bool :=
  match w with
  | [] => true
  | c :: w' => match s with [] => true | x :: s' => (x <? c) || ((x =? c) && ltp s' w') end
  end.

Lemma ltb_cons c w s : ltb s (c :: w) = cut_c c (fun s' => ltb s' w) s.
Proof. destruct s; reflexivity. Qed.
Lemma ltp_cons c w s : ltp s (c :: w) = cut_c c (fun s' => ltp s' w) s.
Proof. destruct s; reflexivity. Qed.

Lemma ltb_lex s : forall w, ltb s w = true <-> lex_compare s w = Lt.
Proof.
  induction s as [|x s IH]; intros [|c w]; cbn [ltb lex_compare]; try (split; congruence).
  destruct (N.compare_spec x c) as [->|H|H].
  - rewrite N.ltb_irrefl, N.eqb_refl. cbn. apply IH.
  - assert (x <? c = true) as -> by (apply N.ltb_lt; exact H). cbn. tauto.
  - assert (x <? c = false) as -> by (apply N.ltb_ge; lia). assert (x =? c = false) as -> by (apply N.eqb_neq; lia).
    cbn. split; congruence.
Qed.

Lemma ltp_spec s : forall w, ltp s w = ltb s w || is_prefix w s.
Proof.
  induction s as [|x s IH]; intros [|c w]; cbn [ltp ltb is_prefix]; try reflexivity.
  rewrite IH. rewrite (N.eqb_sym c x).
  destruct (x <? c) eqn:E1, (x =? c) eqn:E2; cbn; try reflexivity.
Qed.

Definition down_closed (cut : list N -> bool) : Prop :=
  forall s t, lex_lt s t -> cut t = true -> cut s = true.

Lemma cut_c_down c cut : down_closed cut -> down_closed (cut_c c cut).
Proof.
  intros Hd s t Hst Ht. destruct s as [|x s]; [reflexivity|]. destruct t as [|y t]; [discriminate Hst|].
  unfold lex_lt in Hst. cbn [lex_compare] in Hst. cbn [cut_c] in *.
  destruct (N.compare_spec x y) as [->|H|H]; [|clear Hst|discriminate Hst].
  - apply orb_true_iff in Ht. apply orb_true_iff. destruct Ht as [Ht|Ht]; [left; exact Ht|right].
    apply andb_true_iff in Ht. destruct Ht as [E Hc]. rewrite E. cbn. eapply Hd; eassumption.
  - apply orb_true_iff. left. apply N.ltb_lt. apply orb_true_iff in Ht. destruct Ht as [Ht|Ht].
    + apply N.ltb_lt in Ht. lia.
    + apply andb_true_iff in Ht. destruct Ht as [E _]. apply N.eqb_eq in E. lia.
Qed.
Lemma ltb_down w : down_closed (fun s => ltb s w).
Proof.
  induction w as [|c w IH]; [intros s t _ H; discriminate H|].
  intros s t Hst Ht. rewrite ltb_cons in *. eapply (cut_c_down c _ IH); eassumption.
Qed.
Lemma ltp_down w : down_closed (fun s => ltp s w).
Proof.
  induction w as [|c w IH]; [intros s t _ _; reflexivity|].
  intros s t Hst Ht. rewrite ltp_cons in *. eapply (cut_c_down c _ IH); eassumption.
Qed.

(* ================================================================================ *)
(* Part 2: suffixes with their preceding symbol                                       *)
(* ================================================================================ *)
Fixpoint tails (l : list N) : list (list N) :=
  match l with [] => [[]] | x :: r => l :: tails r end.
(* (preceding symbol, suffix) for every suffix of l; [prev] precedes l itself *)
Fixpoint tailsP (prev : N) (l : list N) : list (N * list N) :=
  (prev, l) :: match l with [] => [] | x :: r => tailsP x r end.

Lemma tailsP_snd prev l : map snd (tailsP prev l) = tails l.
Proof. revert prev; induction l as [|x r IH]; intros prev; [reflexivity|]. cbn [tailsP tails map snd]. rewrite IH. reflexivity. Qed.

Lemma tails_tl l x s : In (x :: s) (tails l) -> In s (tails l).
Proof.
  induction l as [|y r IH]; cbn [tails].
  - intros [H|[]]; discriminate H.
  - intros [H|H].
    + inversion H; subst. right. destruct s; left; reflexivity.
    + right. apply IH. exact H.
Qed.
Lemma tails_self l : In l (tails l).
Proof. destruct l; left; reflexivity. Qed.
Lemma tails_app_r a b : In b (tails (a ++ b)).
Proof. induction a as [|x a IH]; [apply tails_self|]. cbn [app tails]. right. exact IH. Qed.
Lemma tails_In_app l s : In s (tails l) -> exists pre, l = pre ++ s.
Proof.
  induction l as [|x r IH]; cbn [tails].
  - intros [<-|[]]. exists []. reflexivity.
  - intros [<-|H]; [exists []; reflexivity|]. destruct (IH H) as (pre & ->). exists (x :: pre). reflexivity.
Qed.
Lemma tails_length l s : In s (tails l) -> (length s <= length l)%nat.
Proof. intros H. destruct (tails_In_app _ _ H) as (pre & ->). rewrite app_length. lia. Qed.

(* the pairs of a text: the pair of a non-empty suffix x :: s is (x, s) shifted by one *)
Lemma tailsP_In prev l b s : In (b, s) (tailsP prev l) -> (b = prev /\ s = l) \/ In (b :: s) (tails l).
Proof.
  revert prev; induction l as [|x r IH]; intros prev; cbn [tailsP].
  - intros [H|[]]. inversion H; subst. left. split; reflexivity.
  - intros [H|H]; [inversion H; subst; left; split; reflexivity|].
    right. destruct (IH _ H) as [[-> ->]|H']; [left; reflexivity|right; exact H'].
Qed.
Lemma tailsP_In_conv prev l b s : In (b :: s) (tails l) -> In (b, s) (tailsP prev l).
Proof.
  revert prev; induction l as [|x r IH]; intros prev; cbn [tails tailsP].
  - intros [H|[]]; discriminate H.
  - intros [H|H]; right.
    + inversion H; subst. destruct s; left; reflexivity.
    + apply IH. exact H.
Qed.
(* second components have pairwise different lengths: the preceding symbol is determined by the suffix *)
Lemma tailsP_fun prev l b b' s : In (b, s) (tailsP prev l) -> In (b', s) (tailsP prev l) -> b = b'.
Proof.
  revert prev; induction l as [|x r IH]; intros prev; cbn [tailsP].
  - intros [H|[]] [H'|[]]. congruence.
  - intros [H|H] [H'|H'].
    + congruence.
    + exfalso. inversion H; subst. apply in_map with (f := snd) in H'. rewrite tailsP_snd in H'. cbn in H'.
      apply tails_length in H'. cbn in H'. lia.
    + exfalso. inversion H'; subst. apply in_map with (f := snd) in H. rewrite tailsP_snd in H. cbn in H.
      apply tails_length in H. cbn in H. lia.
    + eapply IH; eassumption.
Qed.

(* counting a cut_c over all suffixes = 1 (empty suffix) + count over the pairs *)
Definition pcut (c : N) (cut : list N -> bool) (bs : N * list N) : bool :=
  (fst bs <? c) || ((fst bs =? c) && cut (snd bs)).
Lemma cnt_cut_tails c cut l prev :
  cnt (cut_c c cut) (tails l) = S (cnt (pcut c cut) (tl (tailsP prev l))).
Proof.
  revert prev; induction l as [|x r IH]; intros prev; [reflexivity|].
  cbn [tails tailsP tl]. rewrite cnt_cons. specialize (IH x). destruct r as [|y r'].
  - unfold pcut. cbn. destruct ((x <? c) || ((x =? c) && cut [])); reflexivity.
  - cbn [tails] in IH. cbn [tailsP tl] in IH. cbn [tailsP]. rewrite cnt_cons. unfold pcut at 1. cbn [fst snd cut_c].
    cbn [tails]. rewrite IH. lia.
Qed.

(* ================================================================================ *)
(* Part 3: the FM-index core over an abstract row table                              *)
(* ================================================================================ *)
(* P = the rows of the sorted suffix table with their BWT symbol *)
Definition is_bwt_table (T : list N) (P : list (N * list N)) : Prop :=
  Permutation P (tailsP 0 T) /\ StronglySorted lex_lt (map snd P).

Section Core.
  Variable T : list N.
  Variable P : list (N * list N).
  Hypothesis HP : is_bwt_table T P.
  Let bwt := map fst P.
  Let rows := map snd P.

  Lemma rows_perm : Permutation rows (tails T).
  Proof. unfold rows. rewrite <- (tailsP_snd 0 T). apply Permutation_map. apply HP. Qed.
  Lemma rows_sorted : StronglySorted lex_lt rows.
  Proof. apply HP. Qed.
  Lemma rows_len : length rows = S (length T).
  Proof.
    rewrite (Permutation_length rows_perm). clear. induction T as [|x r IH]; [reflexivity|]. cbn [tails length]. rewrite IH. reflexivity.
  Qed.
  Lemma bwt_len : length bwt = S (length T).
  Proof. unfold bwt. rewrite map_length. rewrite <- rows_len. unfold rows. rewrite map_length. reflexivity. Qed.
  Lemma rows_In s : In s rows <-> In s (tails T).
  Proof. split; apply Permutation_in; [|symmetry]; apply rows_perm. Qed.

  (* a down-closed cut selects an initial segment of the sorted rows *)
  Lemma cut_prefix_gen (cut : list N -> bool) (g : N -> bool) : down_closed cut ->
    forall Q : list (N * list N), StronglySorted lex_lt (map snd Q) ->
    cnt (fun bs => g (fst bs) && cut (snd bs)) Q = cnt g (firstn (cnt cut (map snd Q)) (map fst Q)).
  Proof.
    intros Hd. induction Q as [|[b s] Q IH]; intros Hs; [reflexivity|].
    cbn [map fst snd] in *. inversion Hs as [|? ? Hs' Hall]; subst. rewrite !cnt_cons. cbn [fst snd].
    destruct (cut s) eqn:E.
    - cbn [Nat.add firstn]. rewrite cnt_cons, IH by exact Hs'. rewrite andb_true_r. reflexivity.
    - assert (Z : cnt cut (map snd Q) = 0%nat).
      { apply cnt_zero. intros t Ht. destruct (cut t) eqn:Et; [|reflexivity].
        rewrite Forall_forall in Hall. rewrite (Hd s t (Hall _ Ht) Et) in E. discriminate E. }
      rewrite Z. cbn [Nat.add firstn]. rewrite andb_false_r, cnt_nil. cbn [Nat.add].
      apply cnt_zero. intros [b' t] Ht. cbn [fst snd]. destruct (cut t) eqn:Et; [|apply andb_false_r].
      rewrite Forall_forall in Hall. assert (In t (map snd Q)) as Hin by (apply in_map with (f := snd) in Ht; exact Ht).
      rewrite (Hd s t (Hall _ Hin) Et) in E. discriminate E.
  Qed.

  (* THE counting step: rows below the cut  c.cut  =  occ(c) + rank_c(rows below cut) *)
  Lemma step_count (c : N) (cut : list N -> bool) : 1 <= c -> down_closed cut ->
    cnt (cut_c c cut) rows = Nat.add (cnt (ltc c) bwt) (cnt (eqc c) (firstn (cnt cut rows) bwt)).
  Proof.
    intros Hc Hd.
    rewrite (cnt_perm _ _ _ rows_perm), (cnt_cut_tails c cut T 0).
    unfold bwt at 1. rewrite cnt_map.
    rewrite (cnt_perm (fun x : N * list N => ltc c (fst x)) _ _ (proj1 HP)).
    unfold bwt, rows. rewrite <- (cut_prefix_gen cut (eqc c) Hd P (proj2 HP)).
    rewrite (cnt_perm (fun bs : N * list N => eqc c (fst bs) && cut (snd bs)) _ _ (proj1 HP)).
    unfold ltc, eqc.
    destruct T as [|x r]; cbn [tailsP tl].
    - rewrite !cnt_cons, !cnt_nil. cbn [fst snd]. assert (0 <? c = true) as -> by (apply N.ltb_lt; lia).
      assert (0 =? c = false) as -> by (apply N.eqb_neq; lia). reflexivity.
    - rewrite (cnt_cons (fun x0 : N * list N => fst x0 <? c)), (cnt_cons (fun bs : N * list N => (fst bs =? c) && cut (snd bs))).
      cbn [fst snd]. assert (0 <? c = true) as -> by (apply N.ltb_lt; lia).
      assert (0 =? c = false) as -> by (apply N.eqb_neq; lia). cbn [andb].
      unfold pcut. rewrite cnt_or; [lia|]. intros [b s] _. cbn [fst snd].
      destruct (b <? c) eqn:E1; [|reflexivity]. destruct (b =? c) eqn:E2; [|reflexivity].
      apply N.ltb_lt in E1. apply N.eqb_eq in E2. lia.
  Qed.

  (* position of an element of a strictly sorted list = number of smaller elements *)
  Lemma sorted_nth_cnt : forall (L : list (list N)) r s, StronglySorted lex_lt L ->
    nth_error L r = Some s -> cnt (fun x => ltb x s) L = r.
  Proof.
    induction L as [|y L IH]; intros r s Hs Hn; [destruct r; discriminate Hn|].
    inversion Hs as [|? ? Hs' Hall]; subst. rewrite cnt_cons. destruct r as [|r]; cbn [nth_error] in Hn.
    - inversion Hn; subst. assert (ltb s s = false) as ->.
      { destruct (ltb s s) eqn:E; [|reflexivity]. apply ltb_lex in E. rewrite lex_compare_refl in E. discriminate E. }
      cbn [Nat.add]. apply cnt_zero. intros t Ht. rewrite Forall_forall in Hall. specialize (Hall _ Ht).
      destruct (ltb t s) eqn:E; [|reflexivity]. apply ltb_lex in E. exfalso. eapply lex_lt_asym; eassumption.
    - assert (In s L) as Hin by (eapply nth_error_In; eassumption).
      rewrite Forall_forall in Hall. assert (ltb y s = true) as -> by (apply ltb_lex; apply Hall; exact Hin).
      rewrite (IH r s Hs' Hn). reflexivity.
  Qed.
  Lemma sorted_cnt_nth : forall (L : list (list N)) s, StronglySorted lex_lt L -> In s L ->
    nth_error L (cnt (fun x => ltb x s) L) = Some s.
  Proof.
    intros L s Hs Hin. destruct (In_nth_error _ _ Hin) as (r & Hr). rewrite (sorted_nth_cnt L r s Hs Hr). exact Hr.
  Qed.

  Definition lo (w : list N) : nat := cnt (fun s => ltb s w) rows.
  Definition hi (w : list N) : nat := cnt (fun s => ltp s w) rows.
  Definition occs (w : list N) : nat := cnt (fun s => is_prefix w s) rows.
  Definition occN (c : N) : nat := cnt (ltc c) bwt.
  Definition rankx (c : N) (k : nat) : nat := cnt (eqc c) (firstn k bwt).

  Lemma hi_lo w : hi w = (lo w + occs w)%nat.
  Proof.
    unfold hi, lo, occs. rewrite <- cnt_or.
    - apply cnt_ext. intros s _. apply ltp_spec.
    - intros s _. destruct (ltb s w) eqn:E1; [|reflexivity]. cbn. destruct (is_prefix w s) eqn:E2; [|reflexivity].
      apply ltb_lex in E1. apply is_prefix_app in E2. destruct E2 as (r & ->). exfalso.
      clear - E1. revert E1. induction w as [|c w IH]; cbn; [destruct r; discriminate|].
      rewrite N.compare_refl. exact IH.
  Qed.
  Lemma lo_le_hi w : (lo w <= hi w)%nat.
  Proof. rewrite hi_lo. lia. Qed.
  Lemma hi_le w : (hi w <= S (length T))%nat.
  Proof. unfold hi. rewrite <- rows_len. apply cnt_le. Qed.

  Lemma lo_step c w : 1 <= c -> lo (c :: w) = (occN c + rankx c (lo w))%nat.
  Proof.
    intros Hc. unfold lo at 1. rewrite (cnt_ext _ (cut_c c (fun s' => ltb s' w))) by (intros; apply ltb_cons).
    apply step_count; [exact Hc|apply ltb_down].
  Qed.
  Lemma hi_step c w : 1 <= c -> hi (c :: w) = (occN c + rankx c (hi w))%nat.
  Proof.
    intros Hc. unfold hi at 1. rewrite (cnt_ext _ (cut_c c (fun s' => ltp s' w))) by (intros; apply ltp_cons).
    apply step_count; [exact Hc|apply ltp_down].
  Qed.

  (* rows lo w .. hi w - 1 are exactly the rows with prefix w *)
  Lemma row_range w r s : nth_error rows r = Some s ->
    (is_prefix w s = true <-> (lo w <= r < hi w)%nat).
  Proof.
    intros Hr. pose proof (sorted_nth_cnt rows r s rows_sorted Hr) as Hc.
    (* rows below r are < s, rows from r on are >= s *)
    assert (Hlt : forall cut, down_closed cut -> (cut s = true <-> (r < cnt cut rows)%nat)).
    { intros cut Hd. clear Hc. revert r Hr. generalize rows_sorted. generalize rows as L.
      induction L as [|y L IH]; intros Hs r Hr; [destruct r; discriminate Hr|].
      inversion Hs as [|? ? Hs' Hall]; subst. rewrite cnt_cons. rewrite Forall_forall in Hall.
      destruct r as [|r]; cbn [nth_error] in Hr.
      - inversion Hr; subst. destruct (cut s) eqn:E; [split; [lia|reflexivity]|].
        rewrite cnt_zero; [split; [discriminate|lia]|]. intros t Ht. destruct (cut t) eqn:Et; [|reflexivity].
        rewrite (Hd s t (Hall _ Ht) Et) in E. discriminate E.
      - assert (In s L) as Hin by (eapply nth_error_In; eassumption).
        rewrite (IH Hs' r Hr). destruct (cut y) eqn:E; [lia|]. split; [|lia]. intros H. exfalso.
        assert (cut s = true) as Hcs by (apply (IH Hs' r Hr); exact H).
        rewrite (Hd y s (Hall _ Hin) Hcs) in E. discriminate E. }
    pose proof (Hlt _ (ltb_down w)) as H1. pose proof (Hlt _ (ltp_down w)) as H2. cbn beta in H1, H2.
    fold (lo w) in H1. fold (hi w) in H2. rewrite ltp_spec in H2.
    split.
    - intros Hp. split.
      + destruct (Nat.le_gt_cases (lo w) r) as [|Hl]; [assumption|]. apply H1 in Hl. exfalso.
        apply ltb_lex in Hl. apply is_prefix_app in Hp. destruct Hp as (x & ->).
        clear - Hl. revert Hl. induction w as [|c w IH]; cbn; [destruct x; discriminate|]. rewrite N.compare_refl. exact IH.
      + apply H2. rewrite Hp. apply orb_true_r.
    - intros [Ha Hb]. apply H2 in Hb. apply orb_true_iff in Hb. destruct Hb as [Hb|Hb]; [|exact Hb].
      apply H1 in Hb. lia.
  Qed.

  (* Theorem 1 (LF): the row of suffix s with BWT symbol c >= 1 is mapped to the row of c :: s *)
  Lemma lf_row r b s : nth_error P r = Some (b, s) -> 1 <= b ->
    nth_error rows (occN b + rankx b r) = Some (b :: s).
  Proof.
    intros Hr Hb.
    assert (Hrs : nth_error rows r = Some s) by (unfold rows; rewrite nth_error_map, Hr; reflexivity).
    assert (Hin : In (b :: s) rows).
    { apply rows_In. assert (In (b, s) (tailsP 0 T)) as H.
      { eapply Permutation_in; [apply HP|]. eapply nth_error_In; eassumption. }
      destruct (tailsP_In _ _ _ _ H) as [[-> _]|H']; [lia|exact H']. }
    pose proof (sorted_cnt_nth rows (b :: s) rows_sorted Hin) as Hn.
    fold (lo (b :: s)) in Hn. rewrite lo_step in Hn by exact Hb.
    unfold lo at 1 in Hn. rewrite (sorted_nth_cnt rows r s rows_sorted Hrs) in Hn. exact Hn.
  Qed.

  (* occurrences: closed under extension to the left *)
  Lemma occs_zero_ext u w : occs w = 0%nat -> occs (u ++ w) = 0%nat.
  Proof.
    intros H. apply cnt_zero. intros s Hs. destruct (is_prefix (u ++ w) s) eqn:E; [|reflexivity]. exfalso.
    apply is_prefix_app in E. destruct E as (x & ->). rewrite <- app_assoc in Hs.
    assert (In (w ++ x) rows) as Hin.
    { apply rows_In. apply rows_In in Hs. clear - Hs. induction u as [|c u IH]; [exact Hs|]. apply IH. eapply tails_tl. exact Hs. }
    assert (0 < occs w)%nat; [|lia]. eapply cnt_ex_pos; [exact Hin|]. apply is_prefix_app. eexists; reflexivity.
  Qed.
  (* a symbol that does not occur in the BWT occurs in no row *)
  Lemma occs_absent c u w : 1 <= c -> ~ In c bwt -> occs (u ++ c :: w) = 0%nat.
  Proof.
    intros Hc Hn. apply occs_zero_ext. apply cnt_zero. intros s Hs. destruct (is_prefix (c :: w) s) eqn:E; [|reflexivity]. exfalso.
    apply is_prefix_app in E. destruct E as (x & ->). cbn [app] in Hs. apply rows_In in Hs.
    apply (tailsP_In_conv 0) in Hs. apply Hn. unfold bwt.
    apply (Permutation_in (l' := P)) in Hs; [|symmetry; apply HP]. apply in_map with (f := fst) in Hs. exact Hs.
  Qed.
End Core.

(* ================================================================================ *)
(* Part 4: shared vocabulary of the dictionary layer                                  *)
(* ================================================================================ *)
(* bytes >= 2: neither the terminator 0 nor the separator 1 *)
Definition vstr (s : list N) : Prop := Forall (fun b => 2 <= b) s.
(* the text after each separator: s_k ++ \1 s_{k+1} ... \1 \0 *)
Fixpoint sepsufs (S : list str) : list (list N) :=
  match S with [] => [] | s :: S' => (s ++ dict_text S') :: sepsufs S' end.
(* the row table a candidate suffix array describes *)
Definition table_of (T sa : list N) : list (N * list N) := map (fun i => (prev_sym T i, suffix T i)) sa.

(* ================================================================================ *)
(* Part 5: soundness of the boolean checkers *)
(* ================================================================================ *)
Lemma list_eqb_true a b : list_eqb a b = true -> a = b.
Proof.
  revert b; induction a as [|x a IH]; intros [|y b]; cbn [list_eqb]; try discriminate; [reflexivity|].
  intros H. apply andb_true_iff in H. destruct H as [H1 H2]. apply N.eqb_eq in H1. subst y. f_equal. apply IH. exact H2.
Qed.

(* ---- S1 ------------------------------------------------------------------------- *)
Lemma sorted_suffixes_b_sound T sa : sorted_suffixes_b T sa = true ->
  StronglySorted lex_lt (map (suffix T) sa).
Proof.
  intros H. apply Sorted_StronglySorted; [intros x y z; apply lex_lt_trans|].
  induction sa as [|a r IH]; [constructor|].
  cbn [sorted_suffixes_b] in H. destruct r as [|b r'].
  - cbn [map]. constructor; constructor.
  - apply andb_true_iff in H. destruct H as [H1 H2]. cbn [map]. constructor.
    + apply IH. exact H2.
    + constructor. unfold lex_lt. destruct (lex_compare (suffix T a) (suffix T b)); [discriminate|reflexivity|discriminate].
Qed.

Lemma ssorted_map_NoDup {A} (f : A -> list N) l : StronglySorted lex_lt (map f l) -> NoDup l.
Proof.
  induction l as [|x l IH]; intros H; [constructor|].
  cbn [map] in H. inversion H as [|? ? Hs Hall]; subst. constructor; [|apply IH; exact Hs].
  intros Hin. rewrite Forall_forall in Hall. apply (lex_lt_irrefl (f x)). apply Hall. apply in_map. exact Hin.
Qed.

Lemma suffix_app_len pre l : suffix (pre ++ l) (N.of_nat (length pre)) = l.
Proof.
  unfold suffix. rewrite Nat2N.id. induction pre as [|x pre IH]; [reflexivity|]. cbn [length app skipn]. exact IH.
Qed.

Lemma table_seq_tailsP : forall l pre c,
  prev_sym (pre ++ l) (N.of_nat (length pre)) = c ->
  map (fun i => (prev_sym (pre ++ l) i, suffix (pre ++ l) i)) (map N.of_nat (seq (length pre) (S (length l))))
  = tailsP c l.
Proof.
  induction l as [|x r IH]; intros pre c Hc.
  - cbn [length seq map tailsP]. rewrite Hc, suffix_app_len. reflexivity.
  - cbn [length]. rewrite <- cons_seq. cbn [map tailsP]. rewrite Hc, suffix_app_len. f_equal.
    assert (E : pre ++ x :: r = (pre ++ [x]) ++ r) by (rewrite <- app_assoc; reflexivity).
    assert (L : S (length pre) = length (pre ++ [x])) by (rewrite app_length; cbn [length]; lia).
    rewrite E, L. apply IH.
    unfold prev_sym. rewrite <- L.
    assert (N.of_nat (S (length pre)) =? 0 = false) as -> by (apply N.eqb_neq; lia).
    assert (N.to_nat (N.of_nat (S (length pre)) - 1) = length pre) as -> by lia.
    rewrite <- app_assoc. cbn [app]. apply nth_middle.
Qed.

Lemma table_seq_tailsP0 T :
  map (fun i => (prev_sym T i, suffix T i)) (map N.of_nat (seq 0 (S (length T)))) = tailsP 0 T.
Proof. apply (table_seq_tailsP T [] 0). reflexivity. Qed.

Theorem check_bwt_sound T sa bwt : check_bwt T sa bwt = true ->
  is_bwt_table T (table_of T sa) /\ bwt = map fst (table_of T sa) /\
  length sa = S (length T) /\ Forall (fun i => i <= lenN T) sa.
Proof.
  unfold check_bwt. intros H.
  apply andb_true_iff in H. destruct H as [H H4].
  apply andb_true_iff in H. destruct H as [H H3].
  apply andb_true_iff in H. destruct H as [H1 H2].
  apply N.eqb_eq in H1. unfold lenN in H1.
  assert (Hlen : length sa = S (length T)) by lia.
  assert (Hall : Forall (fun i => i <= lenN T) sa).
  { apply Forall_forall. intros i Hi. rewrite forallb_forall in H2. apply N.leb_le. apply H2. exact Hi. }
  pose proof (sorted_suffixes_b_sound T sa H3) as Hs.
  assert (Hsnd : map snd (table_of T sa) = map (suffix T) sa).
  { unfold table_of. rewrite map_map. reflexivity. }
  split; [|split; [|split; assumption]].
  - split.
    + rewrite <- table_seq_tailsP0. unfold table_of. apply Permutation_map.
      apply NoDup_Permutation_bis.
      * eapply ssorted_map_NoDup. exact Hs.
      * rewrite map_length, seq_length. lia.
      * intros i Hi. rewrite Forall_forall in Hall. specialize (Hall i Hi). unfold lenN in Hall.
        rewrite <- (N2Nat.id i). apply in_map. apply in_seq. lia.
    + rewrite Hsnd. exact Hs.
  - apply list_eqb_true in H4. rewrite H4. unfold table_of. rewrite map_map. reflexivity.
Qed.

(* ---- S2 ------------------------------------------------------------------------- *)
Lemma nthN_cons_0 {A} (x : A) l : nthN (x :: l) 0 = Some x.
Proof. reflexivity. Qed.
Lemma nthN_cons_pos {A} (x : A) l i : 0 < i -> nthN (x :: l) i = nthN l (i - 1).
Proof.
  intros H. unfold nthN. assert (N.to_nat i = S (N.to_nat (i - 1))) as -> by lia. reflexivity.
Qed.

Lemma check_occ_from_sound bwt : forall occ c, check_occ_from bwt c occ = true ->
  forall i, i < lenN occ -> nthN occ i = Some (count_lt (c + i) bwt).
Proof.
  induction occ as [|o r IH]; intros c H i Hi; [rewrite lenN_nil in Hi; lia|].
  cbn [check_occ_from] in H. apply andb_true_iff in H. destruct H as [H1 H2]. apply N.eqb_eq in H1.
  rewrite lenN_cons in Hi. destruct (N.eq_dec i 0) as [->|Hn].
  - rewrite nthN_cons_0, N.add_0_r, H1. reflexivity.
  - rewrite nthN_cons_pos by lia. rewrite (IH _ H2) by lia. do 2 f_equal. lia.
Qed.

Theorem check_occ_sound bwt occ : check_occ bwt occ = true ->
  lenN occ = max_sym bwt + 2 /\ forall c, c < lenN occ -> nthN occ c = Some (count_lt c bwt).
Proof.
  unfold check_occ. intros H. apply andb_true_iff in H. destruct H as [H1 H2]. apply N.eqb_eq in H1.
  split; [exact H1|]. intros c Hc. rewrite (check_occ_from_sound bwt occ 0 H2 c Hc). reflexivity.
Qed.

Lemma max_sym_ge l x : In x l -> x <= max_sym l.
Proof.
  unfold max_sym. induction l as [|y l IH]; [intros []|].
  cbn [fold_right]. intros [->|H]; [lia|]. specialize (IH H). lia.
Qed.

(* ---- S3 ------------------------------------------------------------------------- *)
Lemma check_alpha_from_sound bwt : forall al c, check_alpha_from bwt c al = true ->
  forall i, i < lenN al -> nthN al i = Some (existsb (N.eqb (c + i)) bwt).
Proof.
  induction al as [|a r IH]; intros c H i Hi; [rewrite lenN_nil in Hi; lia|].
  cbn [check_alpha_from] in H. apply andb_true_iff in H. destruct H as [H1 H2]. apply Bool.eqb_prop in H1.
  rewrite lenN_cons in Hi. destruct (N.eq_dec i 0) as [->|Hn].
  - rewrite nthN_cons_0, N.add_0_r, H1. reflexivity.
  - rewrite nthN_cons_pos by lia. rewrite (IH _ H2) by lia. do 3 f_equal. lia.
Qed.

Theorem check_alpha_sound bwt al : check_alpha bwt al = true ->
  forall c, c < 256 -> nthN al c = Some (existsb (N.eqb c) bwt).
Proof.
  unfold check_alpha. intros H c Hc. apply andb_true_iff in H. destruct H as [H1 H2]. apply N.eqb_eq in H1.
  rewrite (check_alpha_from_sound bwt al 0 H2 c) by lia. reflexivity.
Qed.

(* ---- S4 ------------------------------------------------------------------------- *)
Lemma combine_nth_error {A B} : forall (l : list A) (l' : list B) j a b,
  nth_error l j = Some a -> nth_error l' j = Some b -> nth_error (combine l l') j = Some (a, b).
Proof.
  induction l as [|x l IH]; intros l' j a b H1 H2; [destruct j; discriminate H1|].
  destruct l' as [|y l']; [destruct j; discriminate H2|].
  destruct j as [|j]; cbn [nth_error combine] in *; [congruence|]. apply IH; assumption.
Qed.

Lemma map_snd_combine {A B} : forall (l : list A) (l' : list B), length l = length l' ->
  map snd (combine l l') = l'.
Proof.
  induction l as [|x l IH]; intros [|y l'] H; cbn [length] in H; try discriminate; [reflexivity|].
  cbn [combine map snd]. f_equal. apply IH. lia.
Qed.

Lemma count_true_firstn_S : forall (l : list bool) j, nth_error l j = Some true ->
  count_true (firstn (S j) l) = count_true (firstn j l) + 1.
Proof.
  induction l as [|x l IH]; intros j H; [destruct j; discriminate H|].
  destruct j as [|j]; cbn [nth_error] in H.
  - inversion H; subst. destruct l; reflexivity.
  - change (firstn (S (S j)) (x :: l)) with (x :: firstn (S j) l).
    change (firstn (S j) (x :: l)) with (x :: firstn j l).
    cbn [count_true]. rewrite (IH j H). lia.
Qed.

Lemma check_samples_from_sound T step suff : forall rows k,
  check_samples_from T step suff rows k = true ->
  forall j p, nth_error rows j = Some (p, true) -> p < lenN T ->
    nthN suff (k + count_true (firstn j (map snd rows))) = Some (id_of_pos T p).
Proof.
  induction rows as [|[q b] rows IH]; intros k H j p Hj Hp; [destruct j; discriminate Hj|].
  cbn [check_samples_from] in H. apply andb_true_iff in H. destruct H as [H1 H2].
  destruct j as [|j]; cbn [nth_error] in Hj.
  - inversion Hj; subst. cbn [firstn count_true]. rewrite N.add_0_r.
    assert (p <? lenN T = true) as E by (apply N.ltb_lt; exact Hp). rewrite E in H1.
    apply andb_true_iff in H1. destruct H1 as [_ H1].
    destruct (nthN suff k) as [v|]; [|discriminate H1]. apply N.eqb_eq in H1. congruence.
  - cbn [map snd firstn count_true]. specialize (IH _ H2 j p Hj Hp).
    rewrite <- IH. f_equal. destruct b; lia.
Qed.

Theorem check_samples_sound T sa step sampled suff : check_samples T sa step sampled suff = true ->
  lenN sampled = lenN sa /\
  forall r p, nthN sa r = Some p -> p < lenN T -> nthN sampled r = Some true ->
    exists v, bit_rank1 sampled r = Some v /\ 1 <= v /\ nthN suff (v - 1) = Some (id_of_pos T p).
Proof.
  unfold check_samples. intros H. apply andb_true_iff in H. destruct H as [H1 H2]. apply N.eqb_eq in H1.
  split; [exact H1|]. intros r p Hr Hp Hb.
  pose proof (nthN_Some_lt _ _ _ Hb) as Hlt.
  unfold bit_rank1. assert (r <? lenN sampled = true) as -> by (apply N.ltb_lt; exact Hlt).
  eexists. split; [reflexivity|].
  unfold nthN in Hr, Hb.
  assert (N.to_nat (r + 1) = S (N.to_nat r)) as -> by lia.
  rewrite (count_true_firstn_S _ _ Hb). split; [lia|].
  pose proof (check_samples_from_sound T step suff _ _ H2 (N.to_nat r) p (combine_nth_error _ _ _ _ _ Hr Hb) Hp) as HH.
  rewrite map_snd_combine in HH by (unfold lenN in H1; lia).
  rewrite <- HH. f_equal. lia.
Qed.

(* ================================================================================ *)
(* Part 6: structure of the dictionary text *)
(* ================================================================================ *)
(* The text of a dictionary (FMDefs.dict_text): its suffixes, comparisons across separators,
   counting in sorted sets. *)

(* ================================================================================ *)
(* T1: shape of the text                                                             *)
(* ================================================================================ *)
Lemma dict_text_cons s S : dict_text (s :: S) = 1 :: s ++ dict_text S.
Proof. unfold dict_text. cbn [flat_map app]. rewrite <- app_assoc. reflexivity. Qed.

Lemma dict_text_cxx_aux (L : list str) :
  1 :: flat_map (fun s => s ++ [1]) L = flat_map (fun s => 1 :: s) L ++ [1].
Proof.
  induction L as [|s L IH]; [reflexivity|]. cbn [flat_map app]. rewrite <- !app_assoc. cbn [app].
  rewrite IH. reflexivity.
Qed.

Lemma dict_text_cxx_eq S : dict_text_cxx S = dict_text S.
Proof.
  unfold dict_text_cxx, dict_text.
  change (1 :: flat_map (fun s : list N => s ++ [1]) S ++ [0])
    with ((1 :: flat_map (fun s : list N => s ++ [1]) S) ++ [0]).
  rewrite dict_text_cxx_aux, <- app_assoc. reflexivity.
Qed.

Lemma dict_text_app S1 S2 : dict_text (S1 ++ S2) = flat_map (fun s => 1 :: s) S1 ++ dict_text S2.
Proof. unfold dict_text. rewrite flat_map_app, <- app_assoc. reflexivity. Qed.

Lemma dict_text_nil : dict_text [] = [1; 0].
Proof. reflexivity. Qed.

Lemma dict_text_head S : exists X, dict_text S = 1 :: X /\ X <> [].
Proof.
  destruct S as [|s S].
  - exists [0]. split; [reflexivity|discriminate].
  - rewrite dict_text_cons. exists (s ++ dict_text S). split; [reflexivity|].
    intros H. apply app_eq_nil in H. destruct H as [_ H]. unfold dict_text in H.
    apply app_eq_nil in H. destruct H as [_ H]. discriminate H.
Qed.

(* ================================================================================ *)
(* T2: counting over all suffixes of the text                                        *)
(* ================================================================================ *)
Lemma cnt_tails_vstr (g : list N -> bool) s X :
  (forall x t, 2 <= x -> g (x :: t) = false) -> vstr s -> cnt g (tails (s ++ X)) = cnt g (tails X).
Proof.
  intros Hg. induction s as [|x s IH]; intros Hv; [reflexivity|].
  inversion Hv as [|? ? Hx Hs]; subst. cbn [app tails]. rewrite cnt_cons, Hg by exact Hx.
  apply IH. exact Hs.
Qed.

Lemma cnt_tails_sep (g : list N -> bool) S :
  (forall x t, 2 <= x -> g (x :: t) = false) -> Forall vstr S ->
  cnt g (tails (dict_text S)) = Nat.add (cnt g (map (cons 1) (sepsufs S))) (cnt g [[1;0];[0];[]]).
Proof.
  intros Hg HS. induction S as [|s S IH].
  - reflexivity.
  - inversion HS as [|? ? Hs HS']; subst. rewrite dict_text_cons. cbn [tails sepsufs map].
    rewrite (cnt_cons g (1 :: s ++ dict_text S) (tails (s ++ dict_text S))).
    rewrite (cnt_cons g (1 :: s ++ dict_text S) (map (cons 1) (sepsufs S))).
    rewrite (cnt_tails_vstr g s _ Hg Hs). rewrite IH by exact HS'. lia.
Qed.

(* ================================================================================ *)
(* T3: comparing texts that continue with a separator                                *)
(* ================================================================================ *)
Lemma vstr_cons_inv x s : vstr (x :: s) -> 2 <= x /\ vstr s.
Proof. intros H. inversion H; subst. split; assumption. Qed.

Lemma ltb_sep s : forall q X Y, vstr s -> vstr q ->
  ltb (s ++ 1 :: X) (q ++ 1 :: Y) = ltb s q || (list_eqb s q && ltb X Y).
Proof.
  induction s as [|x s IH]; intros [|c q] X Y Hs Hq; cbn [app ltb list_eqb].
  - reflexivity.
  - apply vstr_cons_inv in Hq. destruct Hq as [Hc _].
    assert (1 <? c = true) as -> by (apply N.ltb_lt; lia). reflexivity.
  - apply vstr_cons_inv in Hs. destruct Hs as [Hx _].
    assert (x <? 1 = false) as -> by (apply N.ltb_ge; lia).
    assert (x =? 1 = false) as -> by (apply N.eqb_neq; lia). reflexivity.
  - apply vstr_cons_inv in Hs. destruct Hs as [_ Hs]. apply vstr_cons_inv in Hq. destruct Hq as [_ Hq].
    rewrite (IH q X Y Hs Hq).
    destruct (x <? c), (x =? c), (ltb s q), (list_eqb s q), (ltb X Y); reflexivity.
Qed.

Lemma ltp_sep s : forall q X Y, vstr s -> vstr q ->
  ltp (s ++ 1 :: X) (q ++ 1 :: Y) = ltb s q || (list_eqb s q && ltp X Y).
Proof.
  induction s as [|x s IH]; intros [|c q] X Y Hs Hq; cbn [app ltp ltb list_eqb].
  - reflexivity.
  - apply vstr_cons_inv in Hq. destruct Hq as [Hc _].
    assert (1 <? c = true) as -> by (apply N.ltb_lt; lia). reflexivity.
  - apply vstr_cons_inv in Hs. destruct Hs as [Hx _].
    assert (x <? 1 = false) as -> by (apply N.ltb_ge; lia).
    assert (x =? 1 = false) as -> by (apply N.eqb_neq; lia). reflexivity.
  - apply vstr_cons_inv in Hs. destruct Hs as [_ Hs]. apply vstr_cons_inv in Hq. destruct Hq as [_ Hq].
    rewrite (IH q X Y Hs Hq).
    destruct (x <? c), (x =? c), (ltb s q), (list_eqb s q), (ltp X Y); reflexivity.
Qed.

Lemma ltb_sep_pat s : forall p X, vstr p -> ltb (s ++ 1 :: X) p = ltb s p.
Proof.
  induction s as [|x s IH]; intros [|c p] X Hp; cbn [app ltb].
  - reflexivity.
  - apply vstr_cons_inv in Hp. destruct Hp as [Hc _].
    assert (1 <? c = true) as -> by (apply N.ltb_lt; lia). reflexivity.
  - reflexivity.
  - apply vstr_cons_inv in Hp. destruct Hp as [_ Hp]. rewrite (IH p X Hp). reflexivity.
Qed.

Lemma is_prefix_sep p : forall s X, vstr p -> is_prefix p (s ++ 1 :: X) = is_prefix p s.
Proof.
  induction p as [|c p IH]; intros s X Hp; [reflexivity|].
  apply vstr_cons_inv in Hp. destruct Hp as [Hc Hp]. destruct s as [|x s]; cbn [app is_prefix].
  - assert (c =? 1 = false) as -> by (apply N.eqb_neq; lia). reflexivity.
  - rewrite (IH s X Hp). reflexivity.
Qed.

Lemma list_eqb_refl a : list_eqb a a = true.
Proof. induction a as [|x a IH]; [reflexivity|]. cbn [list_eqb]. rewrite N.eqb_refl, IH. reflexivity. Qed.

Lemma list_eqb_eq a b : list_eqb a b = true <-> a = b.
Proof.
  split; [|intros ->; apply list_eqb_refl].
  revert b; induction a as [|x a IH]; intros [|y b]; cbn [list_eqb]; try discriminate; [reflexivity|].
  intros H. apply andb_true_iff in H. destruct H as [H1 H2]. apply N.eqb_eq in H1. subst y.
  rewrite (IH b H2). reflexivity.
Qed.

(* ================================================================================ *)
(* T4: classification of the suffixes of the text                                    *)
(* ================================================================================ *)
Lemma tails_app_inv a X t : In t (tails (a ++ X)) ->
  (exists a1 b, a = a1 ++ b /\ b <> [] /\ t = b ++ X) \/ In t (tails X).
Proof.
  induction a as [|x a IH]; [right; assumption|]. cbn [app tails]. intros [<-|H].
  - left. exists [], (x :: a). split; [reflexivity|]. split; [discriminate|reflexivity].
  - destruct (IH H) as [(a1 & b & -> & Hb & ->)|H']; [left|right; exact H'].
    exists (x :: a1), b. split; [reflexivity|]. split; [exact Hb|reflexivity].
Qed.

Lemma tails_dict_text_inv S t : Forall vstr S -> In t (tails (dict_text S)) ->
  t = [] \/ t = [0] \/ (exists S1 S2, S = S1 ++ S2 /\ t = dict_text S2) \/
  (exists S1 a b S2, S = S1 ++ (a ++ b) :: S2 /\ b <> [] /\ t = b ++ dict_text S2).
Proof.
  intros _. revert t. induction S as [|s S IH]; intros t Ht.
  - unfold dict_text in Ht. cbn [flat_map app tails In] in Ht. destruct Ht as [<-|[<-|[<-|[]]]].
    + right; right; left. exists [], []. split; reflexivity.
    + right; left; reflexivity.
    + left; reflexivity.
  - rewrite dict_text_cons in Ht. cbn [tails] in Ht. destruct Ht as [<-|Ht].
    + right; right; left. exists [], (s :: S). split; [reflexivity|]. symmetry. apply dict_text_cons.
    + destruct (tails_app_inv _ _ _ Ht) as [(a1 & b & -> & Hb & ->)|H'].
      * right; right; right. exists [], a1, b, S. split; [reflexivity|]. split; [exact Hb|reflexivity].
      * destruct (IH _ H') as [->|[->|[(S1 & S2 & -> & ->)|(S1 & a & b & S2 & -> & Hb & ->)]]].
        -- left; reflexivity.
        -- right; left; reflexivity.
        -- right; right; left. exists (s :: S1), S2. split; reflexivity.
        -- right; right; right. exists (s :: S1), a, b, S2. split; [reflexivity|]. split; [exact Hb|reflexivity].
Qed.

Lemma tails_dict_text_interior S1 a b S2 : In (b ++ dict_text S2) (tails (dict_text (S1 ++ (a ++ b) :: S2))).
Proof.
  rewrite dict_text_app, dict_text_cons.
  replace (flat_map (fun s : list N => 1 :: s) S1 ++ 1 :: (a ++ b) ++ dict_text S2)
    with ((flat_map (fun s : list N => 1 :: s) S1 ++ 1 :: a) ++ (b ++ dict_text S2)).
  - apply tails_app_r.
  - rewrite <- !app_assoc. cbn [app]. reflexivity.
Qed.

Lemma tails_dict_text_sep S1 S2 : In (dict_text S2) (tails (dict_text (S1 ++ S2))).
Proof. rewrite dict_text_app. apply tails_app_r. Qed.

Lemma sepsufs_In S t : In t (sepsufs S) <-> exists S1 s S2, S = S1 ++ s :: S2 /\ t = s ++ dict_text S2.
Proof.
  induction S as [|s0 S IH]; cbn [sepsufs In].
  - split; [intros []|]. intros (S1 & s & S2 & H & _). destruct S1; discriminate H.
  - split.
    + intros [<-|H].
      * exists [], s0, S. split; reflexivity.
      * apply IH in H. destruct H as (S1 & s & S2 & -> & ->). exists (s0 :: S1), s, S2. split; reflexivity.
    + intros (S1 & s & S2 & H & ->). destruct S1 as [|x S1]; cbn [app] in H; inversion H; subst.
      * left; reflexivity.
      * right. apply IH. exists S1, s, S2. split; reflexivity.
Qed.

(* ================================================================================ *)
(* T5: counting in a sorted set                                                      *)
(* ================================================================================ *)
Lemma ltb_irrefl s : ltb s s = false.
Proof.
  destruct (ltb s s) eqn:E; [|reflexivity]. apply ltb_lex in E. rewrite lex_compare_refl in E. discriminate E.
Qed.
Lemma ltb_lt s t : lex_lt s t -> ltb s t = true.
Proof. intros H. apply ltb_lex. exact H. Qed.
Lemma ltb_gt_false s t : lex_lt s t -> ltb t s = false.
Proof.
  intros H. destruct (ltb t s) eqn:E; [|reflexivity]. apply ltb_lex in E. exfalso.
  eapply lex_lt_asym; eassumption.
Qed.
Lemma sorted_head_In s r t : sorted_lt (s :: r) -> In t r -> lex_lt s t.
Proof. intros Hs Ht. pose proof (sorted_head_lt _ _ Hs) as Hf. rewrite Forall_forall in Hf. apply Hf. exact Ht. Qed.

Lemma cnt_ltb_sorted S1 s S2 : sorted_lt (S1 ++ s :: S2) ->
  cnt (fun t => ltb t s) (S1 ++ s :: S2) = length S1.
Proof.
  induction S1 as [|x S1 IH]; cbn [app length]; intros Hs; rewrite cnt_cons.
  - rewrite ltb_irrefl. rewrite cnt_zero; [reflexivity|]. intros t Ht. apply ltb_gt_false.
    eapply sorted_head_In; eassumption.
  - rewrite IH by (eapply sorted_tail; exact Hs). rewrite ltb_lt; [reflexivity|].
    eapply sorted_head_In; [exact Hs|]. apply in_elt.
Qed.

Lemma cnt_sepsufs_ltb S q Y : Forall vstr S -> vstr q -> sorted_lt S ->
  (forall S1 S2, S = S1 ++ q :: S2 -> ltb (tl (dict_text S2)) Y = false) ->
  cnt (fun t => ltb t (q ++ 1 :: Y)) (sepsufs S) = cnt (fun s => ltb s q) S.
Proof.
  intros HS Hq _. induction S as [|s S IH]; intros H; [reflexivity|].
  inversion HS as [|? ? Hs HS']; subst. cbn [sepsufs].
  rewrite (cnt_cons _ (s ++ dict_text S)), (cnt_cons _ s S).
  rewrite IH; [|exact HS'|intros S1 S2 ->; apply (H (s :: S1) S2); reflexivity].
  assert (E : ltb (s ++ dict_text S) (q ++ 1 :: Y) = ltb s q).
  { destruct (dict_text_head S) as (X & HX & _).
    assert (HY : tl (dict_text S) = X) by (rewrite HX; reflexivity). rewrite HX.
    rewrite (ltb_sep s q X Y Hs Hq). destruct (list_eqb s q) eqn:El.
    - apply list_eqb_eq in El. subst s. specialize (H [] S eq_refl). rewrite HY in H. rewrite H.
      destruct (ltb q q); reflexivity.
    - destruct (ltb s q); reflexivity. }
  cbn beta. rewrite E. reflexivity.
Qed.

Lemma index_from_cnt q : forall (L : list str) i, sorted_lt L -> In q L ->
  index_from q L i = i + N.of_nat (cnt (fun s => ltb s q) L).
Proof.
  induction L as [|s r IH]; intros i Hs Hin; [destruct Hin|].
  cbn [index_from]. rewrite cnt_cons. destruct (str_eqb s q) eqn:E.
  - apply str_eqb_eq in E. subst s. rewrite ltb_irrefl. rewrite cnt_zero; [cbn [Nat.add]; lia|].
    intros t Ht. apply ltb_gt_false. eapply sorted_head_In; eassumption.
  - apply str_eqb_neq in E. destruct Hin as [->|Hin]; [congruence|].
    rewrite IH; [|eapply sorted_tail; exact Hs|exact Hin]. rewrite ltb_lt; [cbn [Nat.add]; lia|].
    eapply sorted_head_In; eassumption.
Qed.

Lemma spec_locate_cnt S q : sorted_lt S -> In q S ->
  spec_locate S q = N.of_nat (Datatypes.S (cnt (fun s => ltb s q) S)).
Proof. intros Hs Hin. unfold spec_locate. rewrite index_from_cnt by assumption. lia. Qed.

Lemma spec_locate_notin S q : ~ In q S -> spec_locate S q = 0.
Proof. intros H. apply spec_locate_absent. exact H. Qed.

Lemma cnt_eqb_notin (L : list str) q : ~ In q L -> cnt (fun s => list_eqb s q) L = 0%nat.
Proof.
  intros Hn. apply cnt_zero. intros t Ht. destruct (list_eqb t q) eqn:Et; [|reflexivity].
  apply list_eqb_eq in Et. subst t. contradiction.
Qed.

Lemma cnt_eqb_sorted S q : sorted_lt S ->
  cnt (fun s => list_eqb s q) S = (if in_dec (list_eq_dec N.eq_dec) q S then 1%nat else 0%nat).
Proof.
  intros Hs. apply sorted_NoDup in Hs. destruct (in_dec (list_eq_dec N.eq_dec) q S) as [Hin|Hn].
  - revert Hs Hin. induction S as [|s r IH]; intros Hs Hin; [destruct Hin|].
    inversion Hs as [|? ? Hnin Hnd]; subst. rewrite cnt_cons. destruct (list_eqb s q) eqn:E.
    + apply list_eqb_eq in E. subst s. rewrite cnt_eqb_notin by exact Hnin. reflexivity.
    + destruct Hin as [->|Hin]; [rewrite list_eqb_refl in E; discriminate E|].
      cbn [Nat.add]. apply IH; assumption.
  - apply cnt_eqb_notin. exact Hn.
Qed.

(* ================================================================================ *)
(* T6: prefix ids of a sorted set are one run                                        *)
(* ================================================================================ *)
Lemma ltb_not_prefix p : forall s, ltb s p = true -> is_prefix p s = false.
Proof.
  induction p as [|c p IH]; intros s; cbn [ltb]; [discriminate|].
  destruct s as [|x s]; [reflexivity|]. cbn [is_prefix]. intros H.
  destruct (c =? x) eqn:E; [|reflexivity]. apply N.eqb_eq in E. subst x.
  rewrite N.ltb_irrefl, N.eqb_refl in H. cbn [orb andb] in H. cbn [andb]. apply IH. exact H.
Qed.

Lemma is_prefix_refl p : is_prefix p p = true.
Proof. apply is_prefix_app. exists []. rewrite app_nil_r. reflexivity. Qed.

Lemma ltb_false_above s r p t : sorted_lt (s :: r) -> ltb s p = false -> In t r -> ltb t p = false.
Proof.
  intros Hs E Ht. destruct (ltb t p) eqn:Et; [|reflexivity].
  pose proof (ltb_down p s t (sorted_head_In _ _ _ Hs Ht) Et) as C. cbn beta in C. congruence.
Qed.

Lemma ids_where_prefix_run p : forall (L : list str) i, sorted_lt L ->
  ids_where (is_prefix p) L i =
  seq_from (i + N.of_nat (cnt (fun s => ltb s p) L)) (cnt (fun s => is_prefix p s) L).
Proof.
  induction L as [|s r IH]; intros i Hs; [reflexivity|].
  pose proof (sorted_tail _ _ Hs) as Hs'.
  cbn [ids_where]. rewrite (cnt_cons (fun s0 => ltb s0 p)), (cnt_cons (fun s0 => is_prefix p s0)). cbn beta.
  destruct (ltb s p) eqn:E1.
  - rewrite (ltb_not_prefix _ _ E1). rewrite IH by exact Hs'. cbn [Nat.add]. f_equal. lia.
  - assert (Z1 : cnt (fun t => ltb t p) r = 0%nat).
    { apply cnt_zero. intros t Ht. eapply ltb_false_above; eassumption. }
    destruct (is_prefix p s) eqn:E2.
    + rewrite IH by exact Hs'. rewrite Z1. cbn [Nat.add seq_from]. f_equal; [lia|]. f_equal. lia.
    + assert (Z2 : forall t, In t r -> is_prefix p t = false).
      { intros t Ht. destruct (is_prefix p t) eqn:Et; [|reflexivity]. exfalso.
        pose proof (sorted_head_In _ _ _ Hs Ht) as Hst.
        destruct (lex_total s p) as [H|[H|H]].
        - apply ltb_lt in H. congruence.
        - subst s. rewrite is_prefix_refl in E2. discriminate E2.
        - rewrite (prefix_convex p p s t (is_prefix_refl p) Et H Hst) in E2. discriminate E2. }
      rewrite (ids_where_none _ r Z2). rewrite (cnt_zero (fun s0 => is_prefix p s0) r Z2). reflexivity.
Qed.

Lemma spec_prefix_ids_run S p : sorted_lt S ->
  spec_prefix_ids S p =
  seq_from (N.of_nat (Datatypes.S (cnt (fun s => ltb s p) S))) (cnt (fun s => is_prefix p s) S).
Proof.
  intros Hs. unfold spec_prefix_ids. rewrite ids_where_prefix_run by exact Hs. f_equal. lia.
Qed.

(* ================================================================================ *)
(* Part 7: the model's backward search computes lo / hi *)
(* ================================================================================ *)
(* ================================================================================ *)
(* Part 5: the model's backward search computes lo / hi                              *)
(* ================================================================================ *)
Lemma sub1W_small W x : 1 <= x -> x < W -> sub1W W x = x - 1.
Proof. intros H1 H2. unfold sub1W. replace (x + W - 1) with ((x - 1) + 1 * W) by lia. rewrite N.mod_add by lia. apply N.mod_small. lia. Qed.

Lemma firstn_S_nth {A} (l : list A) k x : nth_error l k = Some x -> firstn (S k) l = firstn k l ++ [x].
Proof.
  revert k; induction l as [|y l IH]; intros k H; [destruct k; discriminate H|].
  destruct k as [|k]; cbn [nth_error] in H; [inversion H; reflexivity|].
  cbn [firstn app]. rewrite <- IH by exact H. reflexivity.
Qed.

Section Model.
  Variable T : list N.
  Variable P : list (N * list N).
  Hypothesis HP : is_bwt_table T P.
  Variable d : fmidx.
  Hypothesis Hbwt : fm_bwt d = map fst P.
  Hypothesis Hocclen : lenN (fm_occ d) = max_sym (fm_bwt d) + 2.
  Hypothesis Hocc : forall c, c < lenN (fm_occ d) -> nthN (fm_occ d) c = Some (count_lt c (fm_bwt d)).
  Hypothesis Halpha : forall c, c < 256 -> nthN (fm_alpha d) c = Some (existsb (N.eqb c) (fm_bwt d)).
  Hypothesis Hsmall : lenN T + 1 < w32.
  Hypothesis Hmaxsym : forall x, In x (fm_bwt d) -> x <= max_sym (fm_bwt d).

  Let rows := map snd P.
  Notation lo := (lo P).
  Notation hi := (hi P).
  Notation occs := (occs P).
  Notation occN := (occN P).
  Notation rankx := (rankx P).

  Lemma bwt_lenN : lenN (fm_bwt d) = lenN T + 1.
  Proof. unfold lenN. rewrite Hbwt, (bwt_len T P HP). lia. Qed.

  Lemma occ_read c : c <= max_sym (fm_bwt d) + 1 -> nthN (fm_occ d) c = Some (N.of_nat (occN c)).
  Proof.
    intros H. rewrite Hocc by lia. rewrite count_lt_cnt, Hbwt. reflexivity.
  Qed.
  Lemma alpha_true c : c < 256 -> nthN (fm_alpha d) c = Some true -> In c (fm_bwt d).
  Proof.
    intros Hc H. rewrite Halpha in H by exact Hc. inversion H as [E]. apply existsb_exists in E.
    destruct E as (x & Hx & E). apply N.eqb_eq in E. subst. exact Hx.
  Qed.
  Lemma alpha_false c : c < 256 -> nthN (fm_alpha d) c = Some false -> ~ In c (map fst P).
  Proof.
    intros Hc H Hin. rewrite Halpha in H by exact Hc. inversion H as [E]. rewrite <- Hbwt in Hin.
    assert (existsb (N.eqb c) (fm_bwt d) = true) as E'; [|congruence].
    apply existsb_exists. exists c. split; [exact Hin|apply N.eqb_refl].
  Qed.
  Lemma alpha_total c : c < 256 -> exists b, nthN (fm_alpha d) c = Some b.
  Proof. intros Hc. rewrite Halpha by exact Hc. eauto. Qed.

  Lemma rank_excl_cnt c k : rank_excl (fm_bwt d) c (N.of_nat k) = N.of_nat (rankx c k).
  Proof. unfold rank_excl, FMProofs.rankx. rewrite Nat2N.id, count_eq_cnt, Hbwt. reflexivity. Qed.
  Lemma seq_rank_spec c k : (k < S (length T))%nat -> seq_rank (fm_bwt d) c (N.of_nat k) = Some (N.of_nat (rankx c (S k))).
  Proof.
    intros Hk. unfold seq_rank. rewrite bwt_lenN. assert (N.of_nat k <? lenN T + 1 = true) as -> by (apply N.ltb_lt; unfold lenN; lia).
    replace (N.of_nat k + 1) with (N.of_nat (S k)) by lia. rewrite rank_excl_cnt. reflexivity.
  Qed.

  Lemma lo_nil : lo [] = 0%nat.
  Proof. apply cnt_zero. reflexivity. Qed.
  Lemma hi_nil : hi [] = S (length T).
  Proof.
    unfold FMProofs.hi. rewrite <- (rows_len T P HP). generalize (map snd P) as L.
    induction L as [|x L IH]; [reflexivity|]. rewrite cnt_cons, IH. reflexivity.
  Qed.
  Lemma lo_pos w : w <> [] -> (1 <= lo w)%nat.
  Proof.
    intros Hw. apply (cnt_ex_pos _ _ []); [apply (rows_In T P HP); clear; induction T; [left; reflexivity|right; assumption]|].
    destruct w; [congruence|reflexivity].
  Qed.
  Lemma hi_pos w : (1 <= hi w)%nat.
  Proof.
    apply (cnt_ex_pos _ _ []); [apply (rows_In T P HP); clear; induction T; [left; reflexivity|right; assumption]|].
    destruct w; reflexivity.
  Qed.
  Lemma hi_bound w : (hi w <= S (length T))%nat.
  Proof. apply hi_le. exact HP. Qed.
  Lemma occN_succ c : occN (c + 1) = (occN c + rankx c (S (length T)))%nat.
  Proof.
    unfold FMProofs.occN, FMProofs.rankx. rewrite <- (bwt_len T P HP), firstn_all.
    generalize (map fst P) as l. clear. induction l as [|x l IH]; [reflexivity|]. rewrite !cnt_cons, IH. unfold ltc, eqc.
    destruct (N.ltb_spec x (c + 1)), (N.ltb_spec x c), (N.eqb_spec x c); lia.
  Qed.
  Lemma lo_single c : 1 <= c -> lo [c] = occN c.
  Proof. intros Hc. rewrite (lo_step T P HP) by exact Hc. rewrite lo_nil. unfold FMProofs.rankx. cbn [firstn]. rewrite cnt_nil. lia. Qed.
  Lemma hi_single c : 1 <= c -> hi [c] = occN (c + 1).
  Proof. intros Hc. rewrite (hi_step T P HP) by exact Hc. rewrite hi_nil, occN_succ. reflexivity. Qed.

  Definition okW (W : N) : Prop := W = w32 \/ W = sz64.
  Lemma okW_big W : okW W -> w32 <= W.
  Proof. intros [->| ->]; unfold w32, sz64; lia. Qed.

  Lemma occs_pos_iff w : (0 < occs w)%nat <-> (lo w < hi w)%nat.
  Proof. rewrite (hi_lo P). lia. Qed.

  Lemma bs_step_spec W c w : okW W -> 1 <= c -> In c (fm_bwt d) -> w <> [] -> (lo w < hi w)%nat ->
    bs_step W d c (N.of_nat (lo w)) (N.of_nat (hi w) - 1) =
    Some (N.of_nat (lo (c :: w)), N.of_nat (hi (c :: w)) - 1).
  Proof.
    intros HW Hc Hin Hw Hlt. pose proof (okW_big W HW) as HWb. pose proof (lo_pos w Hw) as Hl. pose proof (hi_bound w) as Hh.
    pose proof (hi_bound (c :: w)) as Hh'. pose proof (hi_pos (c :: w)) as Hp'. pose proof (lo_le_hi P (c :: w)) as Hlh.
    assert (HT : N.of_nat (S (length T)) < w32) by (unfold lenN in Hsmall; lia).
    unfold bs_step. rewrite occ_read by (specialize (Hmaxsym c Hin); lia).
    rewrite sub1W_small by lia.
    replace (N.of_nat (lo w) - 1) with (N.of_nat (lo w - 1)) by lia. rewrite seq_rank_spec by lia.
    replace (N.of_nat (hi w) - 1) with (N.of_nat (hi w - 1)) by lia. rewrite seq_rank_spec by lia.
    replace (S (lo w - 1)) with (lo w) by lia. replace (S (hi w - 1)) with (hi w) by lia.
    rewrite (lo_step T P HP c w Hc) in *. rewrite (hi_step T P HP c w Hc) in *.
    f_equal. f_equal.
    - rewrite N.mod_small by lia. lia.
    - rewrite N.mod_small by lia. rewrite sub1W_small by lia. lia.
  Qed.

  Definition symok (c : N) : Prop := 1 <= c /\ c < 256.

  (* Theorem 2 (backward search): the loop returns exactly the row range of the whole pattern,
     or reports (correctly) that the pattern does not occur; it never reads out of bounds *)
  Lemma bs_loop_spec W : okW W -> forall rp w, w <> [] -> Forall symok rp ->
    match bs_loop W d rp (N.of_nat (lo w)) (N.of_nat (hi w) - 1) with
    | BS_oob => False
    | BS_notalpha => occs (rev rp ++ w) = 0%nat
    | BS_range sp ep =>
        if sp <=? ep then sp = N.of_nat (lo (rev rp ++ w)) /\ ep = N.of_nat (hi (rev rp ++ w)) - 1 /\ (0 < occs (rev rp ++ w))%nat
        else occs (rev rp ++ w) = 0%nat
    end.
  Proof.
    intros HW. induction rp as [|c rp IH]; intros w Hw Hall.
    - cbn [bs_loop rev app]. pose proof (hi_pos w). pose proof (hi_lo P w).
      destruct (N.leb_spec (N.of_nat (lo w)) (N.of_nat (hi w) - 1)); [split; [reflexivity|split; [reflexivity|lia]]|lia].
    - inversion Hall as [|? ? [Hc1 Hc2] Hall']; subst. cbn [bs_loop rev]. rewrite <- app_assoc. cbn [app].
      pose proof (hi_pos w). pose proof (hi_lo P w).
      destruct (N.leb_spec (N.of_nat (lo w)) (N.of_nat (hi w) - 1)) as [Hle|Hgt].
      + destruct (alpha_total c Hc2) as ([|] & Ha); rewrite Ha.
        * rewrite (bs_step_spec W c w HW Hc1 (alpha_true c Hc2 Ha) Hw) by lia.
          apply (IH (c :: w)); [discriminate|exact Hall'].
        * apply (occs_absent T P HP); [exact Hc1|]. apply alpha_false; assumption.
      + assert (Hz : occs w = 0%nat) by lia.
        pose proof (occs_zero_ext T P HP (rev rp ++ [c]) w Hz) as Hz'. rewrite <- app_assoc in Hz'. cbn [app] in Hz'.
        destruct (N.leb_spec (N.of_nat (lo w)) (N.of_nat (hi w) - 1)); [lia|exact Hz'].
  Qed.

  (* the initial interval of locate_id / locateP / locate for last symbol c *)
  Lemma bs_init c : 1 <= c -> In c (fm_bwt d) ->
    nthN (fm_occ d) c = Some (N.of_nat (lo [c])) /\
    exists o1, nthN (fm_occ d) (c + 1) = Some o1 /\ sub1W w32 o1 = N.of_nat (hi [c]) - 1.
  Proof.
    intros Hc Hin. pose proof (Hmaxsym c Hin). rewrite lo_single, hi_single by exact Hc.
    split; [apply occ_read; lia|]. eexists. split; [apply occ_read; lia|].
    pose proof (hi_bound [c]) as Hh. pose proof (hi_pos [c]) as Hp. rewrite hi_single in Hh, Hp by exact Hc.
    apply sub1W_small; [lia|]. unfold lenN in Hsmall. lia.
  Qed.
End Model.

(* ================================================================================ *)
(* Part 8: the dictionary layer (theorems 3-5) *)
(* ================================================================================ *)
(* ================================================================================ *)
(* Part 6: the dictionary layer                                                      *)
(* ================================================================================ *)
Definition valid_query (q : str) : Prop := Forall (fun b => 2 <= b /\ b < 256) q.
Lemma valid_query_b_sound q : valid_query_b q = true -> valid_query q.
Proof.
  unfold valid_query_b, valid_query. rewrite forallb_forall, Forall_forall. intros H x Hx. specialize (H x Hx).
  apply andb_true_iff in H. destruct H as [H1 H2]. apply N.leb_le in H1. apply N.ltb_lt in H2. lia.
Qed.
Lemma valid_query_vstr q : valid_query q -> vstr q.
Proof. apply Forall_impl. intros; lia. Qed.
Lemma valid_query_symok q : valid_query q -> Forall symok q.
Proof. apply Forall_impl. unfold symok. intros; lia. Qed.
Lemma valid_str_vstr s : valid_str s -> vstr s.
Proof. intros [_ H]. revert H. apply Forall_impl. unfold valid_byte. intros; lia. Qed.

Lemma cnt_sepsufs_map (f : list N -> bool) (g : str -> bool) : forall S : list str, Forall vstr S ->
  (forall s X, vstr s -> f (s ++ 1 :: X) = g s) -> cnt f (sepsufs S) = cnt g S.
Proof.
  intros S HS Hfg. induction S as [|s S IH]; [reflexivity|]. inversion HS; subst. cbn [sepsufs]. rewrite !cnt_cons, IH by assumption.
  destruct (dict_text_head S) as (X & -> & _). rewrite Hfg by assumption. reflexivity.
Qed.

Lemma is_prefix_sep_full q : forall s X, vstr s -> vstr q -> is_prefix (q ++ [1]) (s ++ 1 :: X) = list_eqb s q.
Proof.
  induction q as [|y q IH]; intros [|x s] X Hs Hq; cbn [app is_prefix list_eqb].
  - reflexivity.
  - inversion Hs; subst. destruct (N.eqb_spec 1 x); [lia|reflexivity].
  - inversion Hq; subst. destruct (N.eqb_spec y 1); [lia|reflexivity].
  - inversion Hs; inversion Hq; subst. rewrite IH by assumption. rewrite (N.eqb_sym y x). reflexivity.
Qed.

Lemma split_unique {A} (l1 : list A) x r1 : forall l2 r2, NoDup (l1 ++ x :: r1) -> l1 ++ x :: r1 = l2 ++ x :: r2 -> l1 = l2 /\ r1 = r2.
Proof.
  induction l1 as [|a l1 IH]; intros [|b l2] r2 Hnd E; cbn [app] in *.
  - inversion E. split; reflexivity.
  - inversion E; subst. inversion Hnd as [|? ? Hn _]; subst. exfalso. apply Hn. apply in_elt.
  - inversion E; subst. inversion Hnd as [|? ? Hn _]; subst. exfalso. apply Hn. apply in_elt.
  - inversion E; subst. inversion Hnd; subst. destruct (IH l2 r2) as [-> ->]; [assumption|assumption|]. split; reflexivity.
Qed.


(* ---- sorting, ascending lists, infixes ---- *)
Lemma insertN_perm x l : Permutation (insertN x l) (x :: l).
Proof.
  induction l as [|y r IH]; cbn [insertN]; [reflexivity|]. destruct (x <=? y); [reflexivity|].
  rewrite IH. apply perm_swap.
Qed.
Lemma isortN_perm l : Permutation (isortN l) l.
Proof. induction l as [|x l IH]; [reflexivity|]. cbn [isortN fold_right]. fold (isortN l). rewrite insertN_perm, IH. reflexivity. Qed.
Lemma insertN_nd x l : nondecreasing l -> nondecreasing (insertN x l).
Proof.
  induction l as [|y r IH]; intros H; cbn [insertN]; [constructor|].
  destruct (N.leb_spec x y); [constructor; assumption|].
  destruct r as [|z r'].
  - cbn [insertN]. constructor; [lia|constructor].
  - inversion H as [| |? ? ? Hyz Hr]; subst. specialize (IH Hr). cbn [insertN] in *.
    destruct (N.leb_spec x z); constructor; try lia; assumption.
Qed.
Lemma isortN_nd l : nondecreasing (isortN l).
Proof. induction l as [|x l IH]; [constructor|]. cbn [isortN fold_right]. fold (isortN l). apply insertN_nd. exact IH. Qed.

Lemma ascending_ext : forall l1 l2 a b, ascending_from a l1 -> ascending_from b l2 ->
  (forall x, In x l1 <-> In x l2) -> l1 = l2.
Proof.
  induction l1 as [|x l1 IH]; intros [|y l2] a b H1 H2 Hx.
  - reflexivity.
  - exfalso. apply (Hx y). left; reflexivity.
  - exfalso. apply (Hx x). left; reflexivity.
  - inversion H1 as [|? ? ? Hax H1']; inversion H2 as [|? ? ? Hby H2']; subst.
    assert (x = y).
    { assert (In x (y :: l2)) as Ha by (apply Hx; left; reflexivity). assert (In y (x :: l1)) as Hb by (apply Hx; left; reflexivity).
      destruct Ha as [Ha|Ha]; [congruence|]. destruct Hb as [Hb|Hb]; [congruence|].
      pose proof (ascending_lb _ _ _ H2' Ha). pose proof (ascending_lb _ _ _ H1' Hb). lia. }
    subst y. f_equal. eapply IH; [exact H1'|exact H2'|]. intros z. split; intros Hz.
    + pose proof (ascending_lb _ _ _ H1' Hz). assert (In z (x :: l2)) as Hi by (apply Hx; right; exact Hz). destruct Hi as [Hi|Hi]; [lia|exact Hi].
    + pose proof (ascending_lb _ _ _ H2' Hz). assert (In z (x :: l1)) as Hi by (apply Hx; right; exact Hz). destruct Hi as [Hi|Hi]; [lia|exact Hi].
Qed.

Lemma is_infix_split p : forall s, is_infix p s = true -> exists a b, s = a ++ b /\ is_prefix p b = true.
Proof.
  induction s as [|x s IH]; cbn [is_infix]; intros H.
  - rewrite orb_false_r in H. exists [], []. split; [reflexivity|exact H].
  - apply orb_true_iff in H. destruct H as [H|H]; [exists [], (x :: s); split; [reflexivity|exact H]|].
    destruct (IH H) as (a & b & -> & Hb). exists (x :: a), b. split; [reflexivity|exact Hb].
Qed.
Lemma is_infix_app p a : forall b, is_prefix p b = true -> is_infix p (a ++ b) = true.
Proof.
  induction a as [|x a IH]; intros b H; cbn [app].
  - destruct b; cbn [is_infix]; rewrite H; reflexivity.
  - cbn [is_infix]. rewrite (IH b H). apply orb_true_r.
Qed.
Lemma ids_where_len f : forall (L : list str) i, (length (ids_where f L i) <= length L)%nat.
Proof. induction L as [|s L IH]; intros i; cbn [ids_where length]; [lia|]. destruct (f s); cbn [length]; specialize (IH (i + 1)); lia. Qed.
Lemma Forall2_len {A B} (R : A -> B -> Prop) l1 l2 : Forall2 R l1 l2 -> length l1 = length l2.
Proof. induction 1; cbn [length]; congruence. Qed.
Lemma Forall2_In_l {A B} (R : A -> B -> Prop) l1 l2 x : Forall2 R l1 l2 -> In x l1 -> exists y, In y l2 /\ R x y.
Proof. induction 1 as [|a b l1 l2 Hab _ IH]; intros []; [subst; exists b; split; [left; reflexivity|exact Hab]|]. destruct (IH H) as (y & Hy & Hr). exists y. split; [right; exact Hy|exact Hr]. Qed.
Lemma Forall2_In_r {A B} (R : A -> B -> Prop) l1 l2 y : Forall2 R l1 l2 -> In y l2 -> exists x, In x l1 /\ R x y.
Proof. induction 1 as [|a b l1 l2 Hab _ IH]; intros []; [subst; exists a; split; [left; reflexivity|exact Hab]|]. destruct (IH H) as (x & Hx & Hr). exists x. split; [right; exact Hx|exact Hr]. Qed.

Lemma last_seq_from : forall c a d0, last (seq_from a (S c)) d0 = a + N.of_nat c.
Proof.
  induction c as [|c IH]; intros a d0; [cbn; lia|]. change (seq_from a (S (S c))) with (a :: seq_from (a + 1) (S c)).
  change (last (a :: seq_from (a + 1) (S c)) d0) with (last (seq_from (a + 1) (S c)) d0). rewrite IH. lia.
Qed.

Lemma count_eq_app c l r : count_eq c (l ++ r) = count_eq c l + count_eq c r.
Proof. induction l as [|x l IH]; [reflexivity|]. cbn [app count_eq]. rewrite IH. lia. Qed.
Lemma count_one_vstr a : vstr a -> count_eq 1 a = 0.
Proof. induction 1 as [|x a Hx _ IH]; [reflexivity|]. cbn [count_eq]. rewrite IH. destruct (N.eqb_spec x 1); lia. Qed.
Lemma count_one_flat (L : list str) : Forall vstr L -> count_eq 1 (flat_map (fun s => 1 :: s) L) = lenN L.
Proof.
  induction 1 as [|s L Hs _ IH]; [reflexivity|]. cbn [flat_map]. change ((1 :: s) ++ flat_map (fun s0 => 1 :: s0) L) with (1 :: (s ++ flat_map (fun s0 => 1 :: s0) L)).
  cbn [count_eq]. rewrite count_eq_app, IH, (count_one_vstr s Hs), lenN_cons. cbn. lia.
Qed.


Lemma count_true_le l : count_true l <= lenN l.
Proof. induction l as [|x l IH]; [cbn; lia|]. cbn [count_true]. rewrite lenN_cons. destruct x; lia. Qed.


Section Dict.
  Variable S : list str.
  Hypothesis HS : valid_set S.
  Variable sa : list N.
  Variable d : fmidx.
  Hypothesis Hchk : fm_check S sa d = true.

  Let T := dict_text S.
  Let P := table_of T sa.

  Lemma HSv : Forall vstr S.
  Proof. destruct HS as (_ & H & _). revert H. apply Forall_impl. apply valid_str_vstr. Qed.
  Lemma HSs : sorted_lt S.
  Proof. apply HS. Qed.

  Lemma chk_parts :
    check_bwt T sa (fm_bwt d) = true /\ check_occ (fm_bwt d) (fm_occ d) = true /\ check_alpha (fm_bwt d) (fm_alpha d) = true /\
    (fm_samplesuff d <> 0 -> check_samples T sa (fm_samplesuff d) (fm_sampled d) (fm_suff d) = true) /\
    fm_elements d = lenN S /\ fm_maxlength d = spec_maxlen S + 1 /\ lenN T + 1 < w32.
  Proof.
    unfold fm_check in Hchk. fold T in Hchk.
    apply andb_true_iff in Hchk. destruct Hchk as [H6 H7]. apply andb_true_iff in H6. destruct H6 as [H5 H6].
    apply andb_true_iff in H5. destruct H5 as [H4 H5]. apply andb_true_iff in H4. destruct H4 as [H3 H4].
    apply andb_true_iff in H3. destruct H3 as [H2 H3]. apply andb_true_iff in H2. destruct H2 as [H1 H2].
    split; [exact H1|]. split; [exact H2|]. split; [exact H3|]. split.
    { intros Hn. destruct (N.eqb_spec (fm_samplesuff d) 0); [contradiction|exact H4]. }
    split; [apply N.eqb_eq; exact H5|]. split; [apply N.eqb_eq; exact H6|]. apply N.ltb_lt; exact H7.
  Qed.

  Lemma HP : is_bwt_table T P.
  Proof. destruct chk_parts as (H & _). apply (check_bwt_sound _ _ _ H). Qed.
  Lemma Hbwt : fm_bwt d = map fst P.
  Proof. destruct chk_parts as (H & _). apply (check_bwt_sound _ _ _ H). Qed.
  Lemma Hocclen : lenN (fm_occ d) = max_sym (fm_bwt d) + 2.
  Proof. destruct chk_parts as (_ & H & _). apply (check_occ_sound _ _ H). Qed.
  Lemma Hocc : forall c, c < lenN (fm_occ d) -> nthN (fm_occ d) c = Some (count_lt c (fm_bwt d)).
  Proof. destruct chk_parts as (_ & H & _). apply (check_occ_sound _ _ H). Qed.
  Lemma Halpha : forall c, c < 256 -> nthN (fm_alpha d) c = Some (existsb (N.eqb c) (fm_bwt d)).
  Proof. destruct chk_parts as (_ & _ & H & _). apply (check_alpha_sound _ _ H). Qed.
  Lemma Hsmall : lenN T + 1 < w32.
  Proof. apply chk_parts. Qed.
  Lemma Hmaxsym : forall x, In x (fm_bwt d) -> x <= max_sym (fm_bwt d).
  Proof. intros x. apply max_sym_ge. Qed.

  Notation lo := (lo P).
  Notation hi := (hi P).
  Notation occs := (occs P).
  Notation rows := (map snd P).

  Definition bs_spec W := bs_loop_spec T P HP d Hbwt Hocclen Hocc Halpha Hsmall Hmaxsym W.
  Definition bs_init' := bs_init T P HP d Hbwt Hocclen Hocc Halpha Hsmall Hmaxsym.

  Lemma lo_single' c : 1 <= c -> lo [c] = occN P c.
  Proof. apply (lo_single T P HP d Hocclen Hocc Halpha Hsmall Hmaxsym). Qed.
  Lemma occ_read' c : c <= max_sym (fm_bwt d) + 1 -> nthN (fm_occ d) c = Some (N.of_nat (occN P c)).
  Proof. apply (occ_read T P d Hbwt Hocclen Hocc Halpha Hsmall Hmaxsym). Qed.
  Lemma rank_excl' c k : rank_excl (fm_bwt d) c (N.of_nat k) = N.of_nat (rankx P c k).
  Proof. apply (rank_excl_cnt P d Hbwt). Qed.
  Lemma rankx_S c r : nth_error (map fst P) r = Some c -> rankx P c (Datatypes.S r) = Datatypes.S (rankx P c r).
  Proof.
    intros H. unfold FMProofs.rankx. rewrite (firstn_S_nth _ _ _ H), cnt_app, cnt_cons, cnt_nil. unfold eqc. rewrite N.eqb_refl. lia.
  Qed.
  Lemma seq_access' r x t : nth_error P r = Some (x, t) ->
    seq_access (fm_bwt d) (N.of_nat r) = Some (x, N.of_nat (Datatypes.S (rankx P x r))).
  Proof.
    intros H. assert (Hb : nth_error (map fst P) r = Some x) by (rewrite nth_error_map, H; reflexivity).
    unfold seq_access, nthN. rewrite Nat2N.id, Hbwt, Hb. rewrite <- Hbwt.
    replace (N.of_nat r + 1) with (N.of_nat (Datatypes.S r)) by lia. rewrite rank_excl', (rankx_S x r Hb). reflexivity.
  Qed.

  (* a symbol of the text is a symbol of the BWT *)
  Lemma text_sym_in_bwt pre c s : T = pre ++ c :: s -> In c (fm_bwt d).
  Proof.
    intros E. rewrite Hbwt. assert (In (c, s) (tailsP 0 T)) as H.
    { apply tailsP_In_conv. rewrite E. apply tails_app_r. }
    apply (Permutation_in (l' := P)) in H; [|symmetry; apply HP]. apply in_map with (f := fst) in H. exact H.
  Qed.
  Lemma one_in_bwt : In 1 (fm_bwt d).
  Proof. destruct (dict_text_head S) as (X & E & _). apply (text_sym_in_bwt [] 1 X). exact E. Qed.

  (* counting rows for patterns that start with the separator *)
  Lemma cnt_rows_sep (g : list N -> bool) : (forall x t, 2 <= x -> g (x :: t) = false) ->
    cnt g rows = Nat.add (cnt (fun t => g (1 :: t)) (sepsufs S)) (cnt g [[1;0];[0];[]]).
  Proof.
    intros Hg. rewrite (cnt_perm _ _ _ (rows_perm T P HP)). unfold T. rewrite (cnt_tails_sep g S Hg HSv), cnt_map. reflexivity.
  Qed.

  Lemma ltb_ge2 u x t : 2 <= x -> ltb (x :: t) (1 :: u) = false.
  Proof. intros H. cbn [ltb]. destruct (N.ltb_spec x 1), (N.eqb_spec x 1); try lia; reflexivity. Qed.
  Lemma ltp_ge2 u x t : 2 <= x -> ltp (x :: t) (1 :: u) = false.
  Proof. intros H. cbn [ltp]. destruct (N.ltb_spec x 1), (N.eqb_spec x 1); try lia; reflexivity. Qed.
  Lemma pre_ge2 u x t : 2 <= x -> is_prefix (1 :: u) (x :: t) = false.
  Proof. intros H. cbn [is_prefix]. destruct (N.eqb_spec 1 x); [lia|reflexivity]. Qed.

  Lemma ltb_11 t u : ltb (1 :: t) (1 :: u) = ltb t u.
  Proof. cbn [ltb]. reflexivity. Qed.

  (* ---------------- locate ---------------- *)
  Lemma lo_locate q : vstr q -> lo (1 :: q ++ [1]) = (3 + cnt (fun s => ltb s q) S)%nat.
  Proof.
    intros Hq. unfold FMProofs.lo. rewrite (cnt_rows_sep _ (ltb_ge2 _)).
    rewrite (cnt_ext _ (fun t => ltb t (q ++ [1]))) by (intros; apply ltb_11).
    rewrite (cnt_sepsufs_map _ (fun s => ltb s q) S HSv).
    - match goal with |- Nat.add _ ?x = _ => assert (x = 3%nat) as -> end; [|apply Nat.add_comm].
      rewrite !cnt_cons, cnt_nil. destruct q as [|y q]; [reflexivity|]. inversion Hq; subst. cbn [app ltb].
      destruct (N.ltb_spec 0 y); [reflexivity|lia].
    - intros s X Hs. rewrite (ltb_sep s q X [] Hs Hq). destruct X; cbn [ltb]; rewrite andb_false_r, orb_false_r; reflexivity.
  Qed.
  Lemma occs_locate q : vstr q -> occs (1 :: q ++ [1]) = cnt (fun s => list_eqb s q) S.
  Proof.
    intros Hq. unfold FMProofs.occs. rewrite (cnt_rows_sep _ (pre_ge2 _)).
    rewrite (cnt_sepsufs_map _ (fun s => list_eqb s q) S HSv).
    - match goal with |- Nat.add _ ?x = _ => assert (x = 0%nat) as -> end; [|apply Nat.add_0_r].
      rewrite !cnt_cons, cnt_nil. destruct q as [|y q]; [reflexivity|]. inversion Hq; subst. cbn [app is_prefix].
      destruct (N.eqb_spec y 0); [lia|]. reflexivity.
    - intros s X Hs. cbn [is_prefix]. rewrite N.eqb_refl. cbn [andb]. apply is_prefix_sep_full; assumption.
  Qed.

  Lemma rev_pat q : rev (1 :: q ++ [1]) = 1 :: (rev q ++ [1]).
  Proof. cbn [rev]. rewrite rev_app_distr. reflexivity. Qed.

  (* Theorem 3a (C01/C02/C03): locate returns the lexicographic rank of a member and 0 for a non-member *)
  Theorem fm_locate_spec q : valid_query q -> fm_locate d q = Some (spec_locate S q).
  Proof.
    intros Hq. pose proof (valid_query_vstr q Hq) as Hv. unfold fm_locate, ssa_locate_id. rewrite rev_pat.
    destruct (bs_init' 1 ltac:(lia) one_in_bwt) as (H0 & o1 & H1 & H1'). rewrite H0, H1, H1'.
    assert (Hall : Forall symok (rev q ++ [1])).
    { apply Forall_app. split; [apply Forall_rev, valid_query_symok; exact Hq|]. constructor; [unfold symok; lia|constructor]. }
    pose proof (bs_spec w32 (or_introl eq_refl) (rev q ++ [1]) [1] ltac:(discriminate) Hall) as Hb.
    rewrite rev_app_distr, rev_involutive in Hb. cbn [rev app] in Hb. change (1 :: q ++ [1]) with (1 :: (q ++ [1])) in *.
    rewrite (occs_locate q Hv) in Hb.
    assert (Hcases : (In q S /\ (0 < cnt (fun s => list_eqb s q) S)%nat) \/ (~ In q S /\ cnt (fun s => list_eqb s q) S = 0%nat)).
    { destruct (in_dec (list_eq_dec N.eq_dec) q S) as [Hin|Hn].
      - left. split; [exact Hin|]. eapply cnt_ex_pos; [exact Hin|]. apply list_eqb_eq. reflexivity.
      - right. split; [exact Hn|]. apply cnt_zero. intros s Hs. destruct (list_eqb s q) eqn:E; [|reflexivity].
        apply list_eqb_eq in E. subst. contradiction. }
    destruct (bs_loop w32 d (rev q ++ [1]) (N.of_nat (lo [1])) (N.of_nat (hi [1]) - 1)) as [| |sp ep]; [contradiction| |].
    - destruct Hcases as [[_ Hp]|[Hn _]]; [lia|]. rewrite (spec_locate_notin S q Hn). reflexivity.
    - destruct (N.leb_spec sp ep).
      + destruct Hb as (-> & _ & Hp). destruct Hcases as [[Hin _]|[_ Hz]]; [|lia].
        rewrite (lo_locate q Hv), (spec_locate_cnt S q HSs Hin).
        destruct (N.eqb_spec (N.of_nat (3 + cnt (fun s => ltb s q) S)) 0); [lia|].
        f_equal. pose proof (lo_le_hi P (1 :: q ++ [1])) as B1. pose proof (hi_le T P HP (1 :: q ++ [1])) as B2.
        rewrite (lo_locate q Hv) in B1. pose proof Hsmall as B3. unfold lenN in B3.
        unfold sub_sz, sz64. unfold w32 in B3. lia.
      + destruct Hcases as [[_ Hp]|[Hn _]]; [lia|]. rewrite (spec_locate_notin S q Hn). reflexivity.
  Qed.


  (* ---------------- locatePrefix ---------------- *)
  Lemma lo_prefix p : vstr p -> p <> [] -> lo (1 :: p) = (3 + cnt (fun s => ltb s p) S)%nat.
  Proof.
    intros Hq Hn. unfold FMProofs.lo. rewrite (cnt_rows_sep (fun s => ltb s (1 :: p)) (ltb_ge2 p)).
    rewrite (cnt_ext _ (fun t => ltb t p)) by (intros; apply ltb_11).
    rewrite (cnt_sepsufs_map _ (fun s => ltb s p) S HSv) by (intros s X _; apply ltb_sep_pat; exact Hq).
    match goal with |- Nat.add _ ?x = _ => assert (x = 3%nat) as -> end; [|apply Nat.add_comm].
    rewrite !cnt_cons, cnt_nil. destruct p as [|y p]; [congruence|]. inversion Hq as [|? ? Hy _]. cbn beta in Hy. cbn [ltb].
    destruct (N.ltb_spec 0 y); [reflexivity|lia].
  Qed.
  Lemma occs_prefix p : vstr p -> p <> [] -> occs (1 :: p) = cnt (fun s => is_prefix p s) S.
  Proof.
    intros Hq Hn. unfold FMProofs.occs. etransitivity; [apply (cnt_rows_sep (fun s => is_prefix (1 :: p) s) (pre_ge2 p))|].
    rewrite (cnt_sepsufs_map _ (fun s => is_prefix p s) S HSv).
    - match goal with |- Nat.add _ ?x = _ => assert (x = 0%nat) as -> end; [|apply Nat.add_0_r].
      rewrite !cnt_cons, cnt_nil. destruct p as [|y p]; [congruence|]. inversion Hq as [|? ? Hy _]. cbn beta in Hy. cbn [is_prefix].
      destruct (N.eqb_spec y 0); [lia|]. reflexivity.
    - intros s X _. cbn [is_prefix]. rewrite N.eqb_refl. cbn [andb]. apply is_prefix_sep. exact Hq.
  Qed.

  (* Theorem 4 (C04): locatePrefix hands the iterator the limits of the (contiguous) ID range of the members with prefix p *)
  Theorem fm_locatePrefix_spec p : p <> [] -> valid_query p -> fm_locatePrefix d p = Some (range_of (spec_prefix_ids S p)).
  Proof.
    intros Hpn Hq. pose proof (valid_query_vstr p Hq) as Hv.
    rewrite (spec_prefix_ids_run S p HSs). rewrite <- (occs_prefix p Hv Hpn).
    assert (Hzero : occs (1 :: p) = 0%nat -> Some (0, 0) = Some (range_of (seq_from (N.of_nat (Datatypes.S (cnt (fun s : list N => ltb s p) S))) (occs (1 :: p))))).
    { intros ->. reflexivity. }
    unfold fm_locatePrefix, ssa_locateP. cbn [rev].
    destruct (rev p) as [|c rp] eqn:Erev; [apply (f_equal (@rev N)) in Erev; rewrite rev_involutive in Erev; cbn in Erev; congruence|].
    assert (Ep : 1 :: p = rev (rp ++ [1]) ++ [c]).
    { rewrite rev_app_distr. cbn [rev app]. rewrite <- (rev_involutive p), Erev. reflexivity. }
    assert (Hsym : Forall symok (c :: rp)) by (rewrite <- Erev; apply Forall_rev, valid_query_symok; exact Hq).
    pose proof (Forall_inv Hsym) as [Hc1 Hc2]. pose proof (Forall_inv_tail Hsym) as Hrp.
    assert (Hrp1 : Forall symok (rp ++ [1])) by (apply Forall_app; split; [exact Hrp|constructor; [unfold symok; lia|constructor]]).
    cbn [app]. destruct (alpha_total d Halpha c Hc2) as ([|] & Ha); rewrite Ha.
    2:{ apply Hzero. rewrite Ep. apply (occs_absent T P HP); [exact Hc1|]. apply (alpha_false P d Hbwt Halpha); assumption. }
    pose proof (alpha_true d Halpha c Hc2 Ha) as Hin.
    destruct (bs_init' c Hc1 Hin) as (H0 & o1 & H1 & H1'). rewrite H0, H1, H1'.
    pose proof (bs_spec sz64 (or_intror eq_refl) (rp ++ [1]) [c] ltac:(discriminate) Hrp1) as Hb. rewrite <- Ep in Hb.
    destruct (bs_loop sz64 d (rp ++ [1]) (N.of_nat (lo [c])) (N.of_nat (hi [c]) - 1)) as [| |sp ep]; [contradiction|apply Hzero; exact Hb|].
    destruct (N.leb_spec sp ep); [|apply Hzero; exact Hb].
    destruct Hb as (-> & -> & Hpos). pose proof (hi_lo P (1 :: p)) as Hhl. pose proof (hi_le T P HP (1 :: p)) as Hhb.
    pose proof (lo_prefix p Hv Hpn) as Hlo. pose proof Hsmall as B. unfold lenN in B.
    assert (E1 : sub_sz (N.of_nat (lo (1 :: p))) 2 = N.of_nat (Datatypes.S (cnt (fun s : list N => ltb s p) S))).
    { unfold sub_sz, sz64. unfold w32 in B. rewrite Hlo. lia. }
    assert (E2 : sub_sz (N.of_nat (hi (1 :: p)) - 1) 2 = N.of_nat (Datatypes.S (cnt (fun s : list N => ltb s p) S)) + N.of_nat (occs (1 :: p) - 1)).
    { unfold sub_sz, sz64. unfold w32 in B. rewrite Hhl, Hlo. lia. }
    assert (E3 : wrap64 (sub_sz (N.of_nat (hi (1 :: p)) - 1) (N.of_nat (lo (1 :: p))) + 1) mod w32 = N.of_nat (occs (1 :: p))).
    { unfold wrap64, sub_sz, sz64, w32 in *. rewrite Hhl. lia. }
    rewrite E1, E2, E3. assert (0 <? N.of_nat (occs (1 :: p)) = true) as -> by (apply N.ltb_lt; lia).
    destruct (occs (1 :: p)) as [|k] eqn:Ek; [lia|]. f_equal.
    set (a := N.of_nat (Datatypes.S (cnt (fun s : list N => ltb s p) S))).
    change (range_of (seq_from a (Datatypes.S k))) with (a, last (seq_from a (Datatypes.S k)) a). rewrite last_seq_from. f_equal. lia.
  Qed.

  (* ---------------- rows of the separator suffixes ---------------- *)
  Lemma occN_one : occN P 1 = 2%nat.
  Proof.
    rewrite <- (lo_single' 1) by lia. unfold FMProofs.lo. rewrite (cnt_rows_sep (fun s => ltb s [1]) (ltb_ge2 [])).
    rewrite (cnt_zero (fun t => ltb (1 :: t) [1])); [reflexivity|]. intros t _. cbn [ltb]. destruct t; reflexivity.
  Qed.

  Lemma row_sep S1 s S2 : S = S1 ++ s :: S2 -> nth_error rows (length S1 + 3) = Some (dict_text (s :: S2)).
  Proof.
    intros E. assert (Hin : In (dict_text (s :: S2)) rows).
    { apply (rows_In T P HP). unfold T. rewrite E. apply tails_dict_text_sep. }
    pose proof (sorted_cnt_nth rows _ (rows_sorted T P HP) Hin) as Hn.
    assert (Hs : vstr s /\ s <> []).
    { destruct HS as (_ & Hv & _). rewrite Forall_forall in Hv. assert (In s S) as Hi by (rewrite E; apply in_elt).
      specialize (Hv s Hi). split; [apply valid_str_vstr; exact Hv|apply Hv]. }
    destruct Hs as [Hsv Hsn].
    assert (Hc : cnt (fun x => ltb x (dict_text (s :: S2))) rows = (length S1 + 3)%nat); [|rewrite Hc in Hn; exact Hn].
    rewrite dict_text_cons. destruct (dict_text_head S2) as (Y & EY & _). rewrite EY.
    rewrite (cnt_rows_sep _ (ltb_ge2 _)).
    rewrite (cnt_ext _ (fun t => ltb t (s ++ 1 :: Y))) by (intros; apply ltb_11).
    rewrite (cnt_sepsufs_ltb S s Y HSv Hsv HSs).
    - rewrite E at 1. rewrite (cnt_ltb_sorted S1 s S2) by (rewrite <- E; exact HSs).
      match goal with |- Nat.add _ ?x = _ => assert (x = 3%nat) as -> end; [|reflexivity].
      rewrite !cnt_cons, cnt_nil. destruct s as [|y s]; [congruence|]. inversion Hsv; subst. cbn [app ltb].
      destruct (N.ltb_spec 0 y); [reflexivity|lia].
    - intros S1' S2' E'. rewrite E in E'. pose proof (sorted_NoDup S HSs) as Hnd. rewrite E in Hnd.
      destruct (split_unique S1 s S2 S1' S2' Hnd E') as [_ <-]. rewrite EY. cbn [tl]. apply ltb_irrefl.
  Qed.

  (* ---------------- the LF walk of SSA::locate ---------------- *)
  Lemma P_nth_rows r t : nth_error rows r = Some t -> exists x, nth_error P r = Some (x, t).
  Proof.
    rewrite nth_error_map. destruct (nth_error P r) as [[x t']|]; [|discriminate]. cbn. intros H. inversion H; subst. eauto.
  Qed.
  Lemma P_nth_sa r x t : nth_error P r = Some (x, t) -> exists p, nth_error sa r = Some p /\ x = prev_sym T p /\ t = suffix T p.
  Proof.
    unfold P, table_of. rewrite nth_error_map. destruct (nth_error sa r) as [p|]; [|discriminate]. cbn. intros H. inversion H; subst. eauto.
  Qed.
  Lemma sa_bound p : In p sa -> p <= lenN T.
  Proof. destruct chk_parts as (H & _). destruct (check_bwt_sound _ _ _ H) as (_ & _ & _ & Hf). rewrite Forall_forall in Hf. apply Hf. Qed.
  Lemma sa_len : length sa = Datatypes.S (length T).
  Proof. destruct chk_parts as (H & _). apply (check_bwt_sound _ _ _ H). Qed.

  (* the symbol preceding an interior suffix *)
  Lemma prev_interior S1 a b S2 r x : S = S1 ++ (a ++ b) :: S2 -> nth_error P r = Some (x, b ++ dict_text S2) -> x = last (1 :: a) 0.
  Proof.
    intros E Hr. assert (H1 : In (x, b ++ dict_text S2) (tailsP 0 T)).
    { eapply Permutation_in; [apply HP|]. eapply nth_error_In; exact Hr. }
    assert (H2 : In (last (1 :: a) 0, b ++ dict_text S2) (tailsP 0 T)).
    { apply tailsP_In_conv. unfold T. rewrite E, dict_text_app, dict_text_cons.
      assert (1 :: (a ++ b) ++ dict_text S2 = removelast (1 :: a) ++ last (1 :: a) 0 :: b ++ dict_text S2) as ->.
      { rewrite <- app_assoc. change (1 :: a ++ b ++ dict_text S2) with ((1 :: a) ++ b ++ dict_text S2).
        rewrite (app_removelast_last (l := 1 :: a) 0) at 1 by discriminate. rewrite <- app_assoc. reflexivity. }
      rewrite app_assoc. apply tails_app_r. }
    eapply tailsP_fun; eassumption.
  Qed.

  (* string ID of the position of an interior suffix *)
  Lemma id_interior S1 a b S2 p : S = S1 ++ (a ++ b) :: S2 -> b <> [] -> p <= lenN T ->
    suffix T p = b ++ dict_text S2 -> id_of_pos T p = lenN S1 + 1.
  Proof.
    intros E Hb Hp Hs. pose proof HSv as Hv. rewrite E in Hv. apply Forall_app in Hv. destruct Hv as [Hv1 Hv2].
    inversion Hv2 as [|? ? Hab _]. apply Forall_app in Hab. destruct Hab as [Ha Hbv].
    set (pre := flat_map (fun s => 1 :: s) S1 ++ 1 :: a).
    assert (ET : T = pre ++ b ++ dict_text S2).
    { unfold T, pre. rewrite E, dict_text_app, dict_text_cons. rewrite <- (app_assoc _ (1 :: a)). cbn [app]. rewrite <- (app_assoc a b). reflexivity. }
    assert (Hlen : N.to_nat p = length pre).
    { unfold suffix in Hs. assert (length (skipn (N.to_nat p) T) = length (b ++ dict_text S2)) as HL by (rewrite Hs; reflexivity).
      rewrite skipn_length in HL. rewrite ET in HL at 1. rewrite app_length in HL. unfold lenN in Hp. rewrite ET in Hp. rewrite app_length in Hp. lia. }
    unfold id_of_pos. replace (N.to_nat (p + 1)) with (Datatypes.S (length pre)) by lia.
    destruct b as [|y b]; [congruence|]. rewrite ET. cbn [app].
    rewrite (firstn_app (Datatypes.S (length pre))). rewrite firstn_all2 by lia.
    replace (Datatypes.S (length pre) - length pre)%nat with 1%nat by lia. cbn [firstn].
    unfold pre. rewrite !count_eq_app. cbn [count_eq]. rewrite (count_one_flat S1 Hv1), (count_one_vstr a Ha).
    inversion Hbv as [|? ? Hy _]. cbn beta in Hy. rewrite N.eqb_refl. unfold lenN, str. destruct (N.eqb_spec y 1); lia.
  Qed.

  (* ---------------- extract ---------------- *)
  Lemma row_last : nth_error rows 2 = Some (dict_text []).
  Proof.
    assert (Hin : In (dict_text []) rows).
    { apply (rows_In T P HP). unfold T. rewrite <- (app_nil_r S) at 1. apply tails_dict_text_sep. }
    pose proof (sorted_cnt_nth rows _ (rows_sorted T P HP) Hin) as Hn.
    assert (Hc : cnt (fun x => ltb x (dict_text [])) rows = 2%nat); [|rewrite Hc in Hn; exact Hn].
    change (dict_text []) with [1; 0].
    etransitivity; [apply (cnt_rows_sep (fun s => ltb s [1; 0]) (ltb_ge2 [0]))|].
    rewrite (cnt_zero (fun t => ltb (1 :: t) [1; 0])); [reflexivity|].
    intros t Ht. apply sepsufs_In in Ht. destruct Ht as (S1 & s & S2 & E & ->).
    cbn [ltb]. destruct s as [|x s]; cbn [app].
    - destruct (dict_text_head S2) as (X & -> & _). reflexivity.
    - assert (2 <= x) as Hx2.
      { pose proof HSv as Hv. rewrite E in Hv. apply Forall_app in Hv. destruct Hv as [_ Hv]. inversion Hv as [|? ? Hxs _].
        inversion Hxs as [|? ? Hx0 _]. exact Hx0. }
      destruct (N.ltb_spec x 0), (N.eqb_spec x 0); try lia; reflexivity.
  Qed.

  Lemma extract_loop_spec S1 S2 : forall a fuel b r, S = S1 ++ (a ++ b) :: S2 ->
    nth_error rows r = Some (b ++ dict_text S2) -> (length a < fuel)%nat ->
    extract_loop d fuel (N.of_nat r) b (lenN b) = Some (a ++ b).
  Proof.
    induction a as [|c a IH] using rev_ind; intros fuel b r E Hr Hf; (destruct fuel as [|fuel]; [lia|]).
    - cbn [extract_loop]. destruct (P_nth_rows r _ Hr) as (x & HPr).
      pose proof (prev_interior S1 [] b S2 r x E HPr) as Hx. cbn in Hx. subst x.
      rewrite (seq_access' r 1 _ HPr). rewrite N.eqb_refl. reflexivity.
    - assert (E' : S = S1 ++ (a ++ (c :: b)) :: S2) by (rewrite E, <- app_assoc; reflexivity).
      cbn [extract_loop]. destruct (P_nth_rows r _ Hr) as (x & HPr).
      pose proof (prev_interior S1 (a ++ [c]) b S2 r x E HPr) as Hx.
      change (1 :: a ++ [c]) with ((1 :: a) ++ [c]) in Hx. rewrite last_last in Hx. subst x.
      assert (Hc : 2 <= c).
      { pose proof (HSv) as Hv. rewrite E in Hv. apply Forall_app in Hv. destruct Hv as [_ Hv]. inversion Hv as [|? ? Hab _].
        apply Forall_app in Hab. destruct Hab as [Hab _]. apply Forall_app in Hab. destruct Hab as [_ Hab]. inversion Hab as [|? ? Hc0 _]. exact Hc0. }
      rewrite (seq_access' r c _ HPr). destruct (N.eqb_spec c 1); [lia|].
      assert (Hml : fm_maxlength d <? lenN b = false).
      { apply N.ltb_ge. destruct (chk_parts) as (_ & _ & _ & _ & _ & -> & _).
        assert (In ((a ++ [c]) ++ b) S) as Hin by (rewrite E; apply in_elt).
        pose proof (spec_maxlen_bounds_aux S _ Hin) as B. rewrite lenN_app in B. lia. }
      rewrite Hml.
      assert (Hin : In c (fm_bwt d)).
      { rewrite Hbwt. apply nth_error_In in HPr. apply in_map with (f := fst) in HPr. exact HPr. }
      rewrite (occ_read') by (pose proof (Hmaxsym c Hin); lia).
      pose proof (lf_row T P HP r c _ HPr ltac:(lia)) as Hlf.
      assert (Hlt : (occN P c + rankx P c r < Datatypes.S (length T))%nat).
      { rewrite <- (rows_len T P HP). apply nth_error_Some. congruence. }
      replace ((sub_sz (N.of_nat (Datatypes.S (rankx P c r))) 1 + N.of_nat (occN P c)) mod w32) with (N.of_nat (occN P c + rankx P c r)).
      + replace (lenN b + 1) with (lenN (c :: b)) by (rewrite lenN_cons; lia).
        rewrite (IH fuel (c :: b) _ E' Hlf); [rewrite <- app_assoc; reflexivity|]. rewrite app_length in Hf. cbn in Hf. lia.
      + pose proof Hsmall as B3. unfold sub_sz, sz64, lenN in *. unfold w32 in *. lia.
  Qed.

  (* Theorem 3b (C01/C02/C03): extract(id) is the id-th smallest member; NULL outside [1,n] *)
  Theorem fm_extract_spec id : fm_extract d id = Some (spec_extract S id).
  Proof.
    unfold fm_extract. destruct (chk_parts) as (_ & _ & _ & _ & Hel & _ & _).
    destruct ((0 <? id) && (id <=? fm_elements d)) eqn:Hrange.
    2:{ rewrite spec_extract_out_of_range; [reflexivity|]. rewrite Hel in Hrange. apply andb_false_iff in Hrange.
        destruct Hrange as [H|H]; [left; apply N.ltb_ge in H; lia|right; apply N.leb_gt in H; exact H]. }
    apply andb_true_iff in Hrange. destruct Hrange as [H1 H2]. apply N.ltb_lt in H1. apply N.leb_le in H2. rewrite Hel in H2.
    destruct (split_at S (id - 1) ltac:(lia)) as (S1 & s & S2 & E & Hpre).
    assert (Hspec : spec_extract S id = Some s).
    { unfold spec_extract. destruct (N.eqb_spec id 0); [lia|]. rewrite E, <- Hpre. apply nthN_mid. }
    rewrite Hspec. unfold ssa_extract_id, row_of_id. rewrite Hel.
    assert (Hfuel : (length s < Datatypes.S (length (fm_bwt d)))%nat).
    { rewrite Hbwt, (bwt_len T P HP). unfold T. rewrite E, dict_text_app, dict_text_cons, !app_length. cbn [length]. rewrite app_length. lia. }
    assert (Hn : lenN S = lenN S1 + 1 + lenN S2) by (rewrite E, lenN_app, lenN_cons; lia).
    pose proof Hsmall as B. assert (HlS : lenN S + 3 < w32).
    { unfold T in B. rewrite E, dict_text_app, dict_text_cons in B. rewrite !lenN_app, lenN_cons, lenN_app in B.
      assert (lenN (flat_map (fun s0 : list N => 1 :: s0) S1) >= lenN S1).
      { clear. induction S1 as [|x l IH]; [cbn; lia|]. cbn [flat_map]. rewrite lenN_app, !lenN_cons. lia. }
      assert (lenN (dict_text S2) >= lenN S2 + 2).
      { clear. induction S2 as [|x l IH]; [cbn; lia|]. rewrite dict_text_cons, lenN_cons, lenN_app, !lenN_cons. lia. }
      rewrite Hn. lia. }
    destruct S2 as [|s' S2'].
    - assert (id =? lenN S = true) as -> by (apply N.eqb_eq; rewrite Hn, lenN_nil; lia).
      change (2 mod w32) with (N.of_nat 2).
      pose proof (extract_loop_spec S1 [] s (Datatypes.S (length (fm_bwt d))) [] 2) as HX. rewrite app_nil_r in HX. change (lenN (@nil N)) with 0 in HX.
      rewrite (HX E row_last Hfuel). reflexivity.
    - assert (id =? lenN S = false) as -> by (apply N.eqb_neq; rewrite Hn, lenN_cons; lia).
      assert (E2 : S = (S1 ++ [s]) ++ s' :: S2') by (rewrite E, <- app_assoc; reflexivity).
      pose proof (row_sep (S1 ++ [s]) s' S2' E2) as Hrs. rewrite app_length in Hrs. cbn [length] in Hrs.
      replace (wrap64 (id + 3) mod w32) with (N.of_nat (length S1 + 1 + 3)).
      + pose proof (extract_loop_spec S1 (s' :: S2') s (Datatypes.S (length (fm_bwt d))) [] (length S1 + 1 + 3)) as HX. rewrite app_nil_r in HX. change (lenN (@nil N)) with 0 in HX.
        rewrite (HX E Hrs Hfuel). reflexivity.
      + unfold wrap64, sz64. unfold lenN in *. unfold w32 in *. lia.
  Qed.

  Section Walk.
    Hypothesis Hstep : fm_samplesuff d <> 0.

    Lemma samples_ok : lenN (fm_sampled d) = lenN sa /\
      forall r p, nthN sa r = Some p -> p < lenN T -> nthN (fm_sampled d) r = Some true ->
        exists v, bit_rank1 (fm_sampled d) r = Some v /\ 1 <= v /\ nthN (fm_suff d) (v - 1) = Some (id_of_pos T p).
    Proof. destruct chk_parts as (_ & _ & _ & H & _). apply (check_samples_sound _ _ _ _ _ (H Hstep)). Qed.

    (* the sampled branch: the stored sample is the string ID *)
    Lemma walk_sampled S1 a b S2 r : S = S1 ++ (a ++ b) :: S2 -> b <> [] ->
      nth_error rows r = Some (b ++ dict_text S2) -> nthN (fm_sampled d) (N.of_nat r) = Some true ->
      match bit_rank1 (fm_sampled d) (N.of_nat r) with
      | Some v => nthN (fm_suff d) (sub_sz v 1)
      | None => None
      end = Some (lenN S1 + 1).
    Proof.
      intros E Hb Hr Hsb. destruct (P_nth_rows r _ Hr) as (x & HPr). destruct (P_nth_sa r _ _ HPr) as (p & Hsa & _ & Hsuf).
      destruct samples_ok as [Hsl Hsamp].
      assert (Hp : p <= lenN T) by (apply sa_bound; eapply nth_error_In; exact Hsa).
      assert (Hp' : p < lenN T).
      { destruct (N.eq_dec p (lenN T)) as [->|]; [|lia]. exfalso. unfold suffix, lenN in Hsuf. rewrite Nat2N.id, skipn_all in Hsuf.
        destruct b; [congruence|discriminate]. }
      destruct (Hsamp (N.of_nat r) p) as (v & Hv1 & Hv2 & Hv3); [unfold nthN; rewrite Nat2N.id; exact Hsa|exact Hp'|exact Hsb|].
      rewrite Hv1. assert (v < sz64).
      { unfold bit_rank1 in Hv1. destruct (N.of_nat r <? lenN (fm_sampled d)); [|discriminate]. inversion Hv1 as [Hveq]. clear Hv1 Hv3. subst v.
        pose proof (count_true_le (firstn (N.to_nat (N.of_nat r + 1)) (fm_sampled d))) as B.
        assert (lenN (firstn (N.to_nat (N.of_nat r + 1)) (fm_sampled d)) <= lenN (fm_sampled d)) as B2 by (unfold lenN; rewrite firstn_length; lia).
        rewrite Hsl in B2. unfold lenN in B2 at 2. rewrite sa_len in B2. pose proof Hsmall as B3. unfold lenN in B3. unfold w32, sz64 in *. lia. }
      replace (sub_sz v 1) with (v - 1) by (unfold sub_sz, sz64 in *; lia). rewrite Hv3.
      rewrite (id_interior S1 a b S2 p E Hb Hp (eq_sym Hsuf)). reflexivity.
    Qed.

    Lemma walk_spec S1 S2 : forall a fuel b r, S = S1 ++ (a ++ b) :: S2 -> b <> [] ->
      nth_error rows r = Some (b ++ dict_text S2) -> (length a < fuel)%nat ->
      ssa_walk d fuel (N.of_nat r) = Some (lenN S1 + 1).
    Proof.
      induction a as [|c a IH] using rev_ind; intros fuel b r E Hb Hr Hf; (destruct fuel as [|fuel]; [lia|]).
      - (* the suffix starts at the first symbol of its string *)
        cbn [ssa_walk]. destruct (P_nth_rows r _ Hr) as (x & HPr). pose proof (prev_interior S1 [] b S2 r x E HPr) as Hx. cbn in Hx. subst x.
        assert (Hrlt : (r < Datatypes.S (length T))%nat).
        { rewrite <- (rows_len T P HP). apply nth_error_Some. congruence. }
        destruct samples_ok as [Hsl _].
        destruct (nthN_lt_Some (fm_sampled d) (N.of_nat r)) as (sb & Hsb); [rewrite Hsl; unfold lenN; rewrite sa_len; lia|].
        rewrite Hsb. destruct sb; [apply (walk_sampled S1 [] b S2 r E Hb Hr Hsb)|].
        rewrite (seq_access' r 1 _ HPr). rewrite N.eqb_refl. f_equal.
        pose proof (lf_row T P HP r 1 _ HPr ltac:(lia)) as Hlf. rewrite occN_one in Hlf.
        pose proof (row_sep S1 ([] ++ b) S2 E) as Hrs. rewrite dict_text_cons in Hrs. cbn [app] in Hrs.
        pose proof (sorted_nth_cnt _ _ _ (rows_sorted T P HP) Hlf) as C1. pose proof (sorted_nth_cnt _ _ _ (rows_sorted T P HP) Hrs) as C2.
        assert (rankx P 1 r = (length S1 + 1)%nat) as -> by (rewrite C2 in C1; unfold str in *; lia).
        pose proof Hsmall as B3. unfold sub_sz, sz64, lenN, str in *. unfold w32 in B3.
        assert (length S1 + 3 < Datatypes.S (length T))%nat by (rewrite <- (rows_len T P HP); apply nth_error_Some; congruence). lia.
      - (* inside the string: one LF step *)
        assert (E' : S = S1 ++ (a ++ (c :: b)) :: S2) by (rewrite E, <- app_assoc; reflexivity).
        cbn [ssa_walk]. destruct (P_nth_rows r _ Hr) as (x & HPr). pose proof (prev_interior S1 (a ++ [c]) b S2 r x E HPr) as Hx.
        change (1 :: a ++ [c]) with ((1 :: a) ++ [c]) in Hx. rewrite last_last in Hx. subst x.
        assert (Hc : 2 <= c).
        { pose proof HSv as Hv. rewrite E in Hv. apply Forall_app in Hv. destruct Hv as [_ Hv]. inversion Hv as [|? ? Hab _]; subst.
          apply Forall_app in Hab. destruct Hab as [Hab _]. apply Forall_app in Hab. destruct Hab as [_ Hab]. inversion Hab; subst. assumption. }
        assert (Hrlt : (r < Datatypes.S (length T))%nat).
        { rewrite <- (rows_len T P HP). apply nth_error_Some. congruence. }
        destruct samples_ok as [Hsl _].
        destruct (nthN_lt_Some (fm_sampled d) (N.of_nat r)) as (sb & Hsb); [rewrite Hsl; unfold lenN; rewrite sa_len; lia|].
        rewrite Hsb. destruct sb; [apply (walk_sampled S1 (a ++ [c]) b S2 r E Hb Hr Hsb)|].
        rewrite (seq_access' r c _ HPr). destruct (N.eqb_spec c 1); [lia|].
        assert (Hin : In c (fm_bwt d)).
        { rewrite Hbwt. apply nth_error_In in HPr. apply in_map with (f := fst) in HPr. exact HPr. }
        rewrite occ_read' by (pose proof (Hmaxsym c Hin); lia).
        pose proof (lf_row T P HP r c _ HPr ltac:(lia)) as Hlf.
        assert (Hlt : (occN P c + rankx P c r < Datatypes.S (length T))%nat).
        { rewrite <- (rows_len T P HP). apply nth_error_Some. congruence. }
        replace (wrap64 (N.of_nat (occN P c) + sub_sz (N.of_nat (Datatypes.S (rankx P c r))) 1)) with (N.of_nat (occN P c + rankx P c r)).
        + apply (IH fuel (c :: b) _ E'); [discriminate|exact Hlf|]. rewrite app_length in Hf. cbn in Hf. lia.
        + pose proof Hsmall as B3. unfold wrap64, sub_sz, sz64, lenN in *. unfold w32 in B3. lia.
    Qed.

    Notation F := (Datatypes.S (length (fm_bwt d))).

    (* every row in the range of p is an interior suffix; its walk gives the ID of its string *)
    Lemma row_walk p r : p <> [] -> vstr p -> (lo p <= r < hi p)%nat ->
      exists S1 a b S2, S = S1 ++ (a ++ b) :: S2 /\ is_prefix p b = true /\ ssa_walk d F (N.of_nat r) = Some (lenN S1 + 1).
    Proof.
      intros Hpn Hpv Hr. assert (Hlt : (r < length rows)%nat) by (rewrite (rows_len T P HP); pose proof (hi_le T P HP p); lia).
      destruct (nth_error rows r) as [t|] eqn:Ht; [|apply nth_error_None in Ht; lia].
      pose proof (proj2 (row_range T P HP p r t Ht) Hr) as Hpre.
      assert (Hin : In t (tails (dict_text S))) by (apply (rows_In T P HP); eapply nth_error_In; exact Ht).
      destruct p as [|y p]; [congruence|]. inversion Hpv as [|? ? Hy Hpv']; subst.
      destruct (tails_dict_text_inv S t HSv Hin) as [->|[->|[(S1 & S2 & E & ->)|(S1 & a & b & S2 & E & Hb & ->)]]].
      - discriminate Hpre.
      - cbn [is_prefix] in Hpre. destruct (N.eqb_spec y 0); [lia|discriminate Hpre].
      - destruct (dict_text_head S2) as (X & EX & _). rewrite EX in Hpre. cbn [is_prefix] in Hpre.
        destruct (N.eqb_spec y 1); [lia|discriminate Hpre].
      - exists S1, a, b, S2. split; [exact E|]. destruct (dict_text_head S2) as (X & EX & _). split.
        + rewrite EX in Hpre. rewrite is_prefix_sep in Hpre by (constructor; assumption). exact Hpre.
        + apply (walk_spec S1 S2 a F b r E Hb Ht). rewrite Hbwt, (bwt_len T P HP).
          assert (length a < length T)%nat; [|lia]. unfold T. rewrite E, dict_text_app, dict_text_cons, !app_length. cbn [length]. rewrite !app_length. destruct b; [congruence|cbn [length]; lia].
    Qed.
    (* conversely every member containing p owns a row in the range *)
    Lemma infix_row p S1 s S2 : p <> [] -> S = S1 ++ s :: S2 -> is_infix p s = true ->
      exists r, (lo p <= r < hi p)%nat /\ ssa_walk d F (N.of_nat r) = Some (lenN S1 + 1).
    Proof.
      intros Hpn E Hi. destruct (is_infix_split p s Hi) as (a & b & -> & Hb).
      assert (Hbn : b <> []) by (intros ->; destruct p; [congruence|discriminate Hb]).
      assert (Hin : In (b ++ dict_text S2) rows) by (apply (rows_In T P HP); unfold T; rewrite E; apply tails_dict_text_interior).
      destruct (In_nth_error _ _ Hin) as (r & Hr). exists r. split.
      - apply (row_range T P HP p r _ Hr). apply is_prefix_app in Hb. destruct Hb as (x & ->). apply is_prefix_app. exists (x ++ dict_text S2). rewrite app_assoc. reflexivity.
      - apply (walk_spec S1 S2 a F b r E Hbn Hr). rewrite Hbwt, (bwt_len T P HP).
        assert (length a < length T)%nat; [|lia]. unfold T. rewrite E, dict_text_app, dict_text_cons, !app_length. cbn [length]. rewrite !app_length. destruct b; [congruence|cbn [length]; lia].
    Qed.

    Lemma walk_rows_ok : forall rs, (forall r, In r rs -> exists k, ssa_walk d F r = Some k) ->
      exists l, walk_rows d rs = Some l /\ Forall2 (fun r k => ssa_walk d F r = Some k) rs l.
    Proof.
      induction rs as [|r rs IH]; intros H; [exists []; split; [reflexivity|constructor]|].
      destruct (H r (or_introl eq_refl)) as (k & Hk). destruct IH as (l & Hl & Hf); [intros; apply H; right; assumption|].
      exists (k :: l). cbn [walk_rows]. rewrite Hk, Hl. split; [reflexivity|constructor; assumption].
    Qed.

    (* SSA::locate: the occurrence list holds exactly the IDs of the members containing p *)
    Lemma ssa_locate_spec p : p <> [] -> valid_query p ->
      exists l, ssa_locate d p = Some l /\ length l = occs p /\
        (forall k, In k l <-> exists S1 s S2, S = S1 ++ s :: S2 /\ k = lenN S1 + 1 /\ is_infix p s = true).
    Proof.
      intros Hpn Hq. pose proof (valid_query_vstr p Hq) as Hv.
      assert (Hmem0 : occs p = 0%nat -> forall k, In k [] <-> exists S1 s S2, S = S1 ++ s :: S2 /\ k = lenN S1 + 1 /\ is_infix p s = true).
      { intros Hz k. split; [intros []|]. intros (S1 & s & S2 & E & _ & Hi). destruct (infix_row p S1 s S2 Hpn E Hi) as (r & Hr & _).
        rewrite (hi_lo P p) in Hr. lia. }
      unfold ssa_locate. destruct (N.eqb_spec (fm_samplesuff d) 0) as [|_]; [contradiction|].
      destruct (rev p) as [|c rp] eqn:Erev; [apply (f_equal (@rev N)) in Erev; rewrite rev_involutive in Erev; cbn in Erev; congruence|].
      assert (Ep : p = rev rp ++ [c]) by (rewrite <- (rev_involutive p), Erev; reflexivity).
      assert (Hsym : Forall symok (c :: rp)) by (rewrite <- Erev; apply Forall_rev, valid_query_symok; exact Hq).
      pose proof (Forall_inv Hsym) as [Hc1 Hc2]. pose proof (Forall_inv_tail Hsym) as Hrp.
      destruct (alpha_total d Halpha c Hc2) as ([|] & Ha); rewrite Ha.
      2:{ exists []. split; [reflexivity|]. assert (Hz : occs p = 0%nat).
          { rewrite Ep. apply (occs_absent T P HP); [exact Hc1|]. apply (alpha_false P d Hbwt Halpha); assumption. }
          split; [symmetry; exact Hz|apply Hmem0; exact Hz]. }
      pose proof (alpha_true d Halpha c Hc2 Ha) as Hin.
      destruct (bs_init' c Hc1 Hin) as (H0 & o1 & H1 & H1'). rewrite H0, H1, H1'.
      pose proof (bs_spec sz64 (or_intror eq_refl) rp [c] ltac:(discriminate) Hrp) as Hb. rewrite <- Ep in Hb.
      destruct (bs_loop sz64 d rp (N.of_nat (lo [c])) (N.of_nat (hi [c]) - 1)) as [| |sp ep]; [contradiction| |].
      - exists []. split; [reflexivity|]. split; [symmetry; exact Hb|apply Hmem0; exact Hb].
      - destruct (N.leb_spec sp ep).
        2:{ exists []. split; [reflexivity|]. split; [symmetry; exact Hb|apply Hmem0; exact Hb]. }
        destruct Hb as (-> & -> & Hpos). pose proof (hi_lo P p) as Hhl. pose proof (hi_le T P HP p) as Hhb.
        assert (N.of_nat (hi p) - 1 <? lenN (fm_bwt d) = true) as ->.
        { apply N.ltb_lt. unfold lenN. rewrite Hbwt, (bwt_len T P HP). lia. }
        replace (N.to_nat (N.of_nat (hi p) - 1 + 1 - N.of_nat (lo p))) with (occs p) by lia.
        destruct (walk_rows_ok (seq_from (N.of_nat (lo p)) (occs p))) as (l & Hl & Hf).
        { intros r Hr. apply seqN_In in Hr. destruct (row_walk p (N.to_nat r) Hpn Hv ltac:(lia)) as (S1 & a & b & S2 & _ & _ & Hw).
          rewrite N2Nat.id in Hw. eauto. }
        exists l. split; [exact Hl|]. split.
        + rewrite <- (Forall2_len _ _ _ Hf). apply seqN_length.
        + intros k. split.
          * intros Hk. destruct (Forall2_In_r _ _ _ k Hf Hk) as (r & Hr & Hw). apply seqN_In in Hr.
            destruct (row_walk p (N.to_nat r) Hpn Hv ltac:(lia)) as (S1 & a & b & S2 & E & Hpb & Hw'). rewrite N2Nat.id in Hw'.
            exists S1, (a ++ b), S2. split; [exact E|]. split; [rewrite Hw' in Hw; inversion Hw; reflexivity|]. apply is_infix_app. exact Hpb.
          * intros (S1 & s & S2 & E & -> & Hi). destruct (infix_row p S1 s S2 Hpn E Hi) as (r & Hr & Hw).
            destruct (Forall2_In_l _ _ _ (N.of_nat r) Hf) as (k & Hk & Hw'); [apply seqN_In; lia|]. rewrite Hw in Hw'. inversion Hw'. subst k. exact Hk.
    Qed.

    Lemma substr_ids_mem p k :
      In k (spec_substr_ids S p) <-> exists S1 s S2, S = S1 ++ s :: S2 /\ k = lenN S1 + 1 /\ is_infix p s = true.
    Proof.
      unfold spec_substr_ids. rewrite ids_where_spec. split.
      - intros (s & H1 & Hn & Hf). pose proof (nthN_Some_lt _ _ _ Hn) as Hlt.
        destruct (split_at S (k - 1) Hlt) as (pre & x & post & E & Hpre).
        assert (x = s) as ->. { rewrite E, <- Hpre, nthN_mid in Hn. congruence. }
        exists pre, s, post. split; [exact E|]. split; [lia|exact Hf].
      - intros (S1 & s & S2 & E & -> & Hi). exists s. split; [lia|]. split; [|exact Hi].
        replace (lenN S1 + 1 - 1) with (lenN S1) by lia. rewrite E. apply nthN_mid.
    Qed.

    (* Theorem 5 (C05): locateSubstr enumerates exactly the IDs of the members containing p, each once, ascending *)
    Theorem fm_locateSubstr_spec p cap : p <> [] -> valid_query p -> (length S <= cap)%nat ->
      fm_locateSubstr d p cap = Some (Some (spec_substr_ids S p, false)).
    Proof.
      intros Hpn Hq Hcap. unfold fm_locateSubstr. destruct (N.eqb_spec (fm_samplesuff d) 0) as [|_]; [contradiction|].
      destruct (ssa_locate_spec p Hpn Hq) as (l & Hl & Hlen & Hmem). rewrite Hl.
      assert (Hspec : forall k, In k l <-> In k (spec_substr_ids S p)) by (intros k; rewrite Hmem, substr_ids_mem; reflexivity).
      assert (Hsmall' : lenN l < w32).
      { unfold lenN. rewrite Hlen. pose proof (hi_lo P p). pose proof (hi_le T P HP p). pose proof Hsmall as B. unfold lenN in B. lia. }
      destruct (N.leb_spec w32 (lenN l)); [lia|].
      destruct l as [|k0 l0].
      - cbn [lenN length N.of_nat]. change (0 <? 0) with false. cbn match.
        assert (spec_substr_ids S p = []) as ->.
        { destruct (spec_substr_ids S p) as [|x r]; [reflexivity|]. exfalso. apply (Hspec x). left; reflexivity. }
        destruct (denotes_run contig_iter _ [] contig_iter_noresult cap) as (st' & ->). rewrite firstn_nil. destruct cap; reflexivity.
      - set (l := k0 :: l0) in *. assert (0 <? lenN l = true) as -> by (apply N.ltb_lt; unfold l; rewrite lenN_cons; lia).
        assert (Hpos : Forall (fun i => 1 <= i) (isortN l)).
        { apply Forall_forall. intros x Hx. apply (Permutation_in _ (isortN_perm l)) in Hx. apply Hmem in Hx. destruct Hx as (S1 & _ & _ & _ & -> & _). lia. }
        assert (Hlen2 : lenN (isortN l) = lenN l) by (unfold lenN; rewrite (Permutation_length (isortN_perm l)); reflexivity).
        assert (Hbig : lenN (isortN l ++ 0 :: []) < sz64) by (rewrite lenN_app, Hlen2, lenN_cons, lenN_nil; unfold w32, sz64 in *; lia).
        pose proof (dup_iter_spec (isortN l) [] Hpos Hbig) as Hd. rewrite Hlen2 in Hd.
        unfold dup_array. destruct (denotes_run dup_iter _ _ Hd cap) as (st' & ->).
        assert (HL : dedup_adj (isortN l) = spec_substr_ids S p).
        { apply (ascending_ext _ _ 1 1).
          - apply dedup_ascending; [apply isortN_nd|]. rewrite Forall_forall in Hpos. exact Hpos.
          - apply ids_where_ascending.
          - intros x. rewrite dedup_In. rewrite <- Hspec. split; apply Permutation_in; [|symmetry]; apply isortN_perm. }
        rewrite HL. pose proof (ids_where_len (is_infix p) S 1) as Hle. fold (spec_substr_ids S p) in Hle.
        rewrite firstn_all2 by lia. assert ((cap <? length (spec_substr_ids S p))%nat = false) as -> by (apply Nat.ltb_ge; lia). reflexivity.
    Qed.
  End Walk.
End Dict.

(* ================================================================================ *)
(* Part 9: statements kept at full strength that are NOT proved yet (see wip/fm/NOTES.md) *)
(* ================================================================================ *)
(* C05, string half: extractSubstr yields exactly the members containing p (NULL when there is none) *)
Definition fm_extractSubstr_spec_full : Prop :=
  forall S sa d p cap, valid_set S -> fm_check S sa d = true -> fm_samplesuff d <> 0 -> p <> [] -> valid_query p ->
    (length S <= cap)%nat ->
    fm_extractSubstr d p cap =
    Some (match spec_substr_strs S p with [] => None | l => Some (l, false) end).
(* C04, string half *)
Definition fm_extractPrefix_spec_full : Prop :=
  forall S sa d p cap, valid_set S -> fm_check S sa d = true -> p <> [] -> valid_query p -> (length S <= cap)%nat ->
    fm_extractPrefix d p cap =
    Some (match spec_prefix_strs S p with [] => None | l => Some (l, false) end).
(* C04, the ID stream as the client loop sees it *)
Definition fm_locatePrefix_ids_spec_full : Prop :=
  forall S sa d p cap, valid_set S -> fm_check S sa d = true -> p <> [] -> valid_query p -> (length S <= cap)%nat ->
    fm_locatePrefix_ids d p cap = Some (spec_prefix_ids S p, false).
