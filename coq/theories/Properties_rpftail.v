(* rpftail: C14 for HASHRPF::locate on an arbitrary caller buffer (pattern followed by ANY bytes).
   Only `exact` of lemmas of HashRPFTail.v, Print Assumptions, and Examples on dictionaries the REAL code built. *)
From LibCSD Require Import Base Spec HashDefs HashProofs HashDictDefs HashDictProofs HashRPFTail.
Local Open Scope N_scope.

(* C14: when a query returns, the caller's buffer holds the same bytes as before the call, whatever follows the pattern *)
Theorem C14_hashrpf_buffer_intact_any_tail d ks opt d' hq tail :
  hashrpf_chk d ks = true -> 1 <= opt <= 3 -> hashrpf_load d opt = Some d' ->
  lenN (hk_key hq) + 1 < 2 ^ 32 -> tail <> [] -> Forall (fun b => b < 256) tail ->
  snd (hashrpf_locate_tail d' hq tail) = hk_key hq ++ tail.
Proof. exact (hashrpf_buffer_intact_any_tail d ks opt d' hq tail). Qed.
Print Assumptions C14_hashrpf_buffer_intact_any_tail.

(* the answer does not depend on what follows the pattern: it is that of the NUL-terminated call
   (so C01_hashrpf_locate_spec / C01_hashrpf_spec speak about every buffer) *)
Theorem C14_hashrpf_answer_ignores_tail d ks opt d' hq tail :
  hashrpf_chk d ks = true -> 1 <= opt <= 3 -> hashrpf_load d opt = Some d' ->
  lenN (hk_key hq) + 1 < 2 ^ 32 -> tail <> [] -> Forall (fun b => b < 256) tail ->
  fst (hashrpf_locate_tail d' hq tail) = fst (hashrpf_locate d' hq).
Proof. exact (hashrpf_answer_ignores_tail d ks opt d' hq tail). Qed.
Print Assumptions C14_hashrpf_answer_ignores_tail.

(* the comparison itself: same value as on the NUL-terminated pattern, the buffer given back unchanged *)
Theorem C14_rp_compare_restores_any_tail d ks t ot segs c k q : hashrpf_wf d ks t ot segs ->
  nthN t c = Some (Some k) -> ~ In (hf_maxchar d) q -> lenN q + 1 < 2 ^ 32 ->
  exists o z, hr_getValuePos (hf_repr d) c = Some o /\
    rp_compare false d o (q ++ [0]) (lenN q) = Some (z, q ++ [0]) /\
    (forall b rest, rp_compare false d o (q ++ b :: rest) (lenN q) = Some (z, q ++ b :: rest)) /\
    (z = 0%Z <-> k = q).
Proof. exact (rp_compare_restores_any_tail d ks t ot segs c k q). Qed.
Print Assumptions C14_rp_compare_restores_any_tail.

(* regression: extractStringAndCompareRP ending with `str[strLen] = 0` (the source between be64401 and cb054a9):
   S = {ab, c, x}, buffer "abc\0", locate(buf, 2) answers 3 and hands back "ab\0\0" *)
Theorem C14_hashrpf_zero_writeback_refuted :
  exists d ks hq tail, hashrpf_chk d ks = true /\ lenN (hk_key hq) + 1 < 2 ^ 32 /\ tail <> [] /\
    Forall (fun b => b < 256) tail /\
    snd (hashrpf_locate_zero d hq tail) <> hk_key hq ++ tail /\
    snd (hashrpf_locate_tail d hq tail) = hk_key hq ++ tail /\
    fst (hashrpf_locate_zero d hq tail) = fst (hashrpf_locate_tail d hq tail).
Proof. exact hashrpf_zero_writeback_refuted. Qed.
Print Assumptions C14_hashrpf_zero_writeback_refuted.

(* ... and on a NUL-terminated pattern that source cannot be told from the current one *)
Theorem C14_hashrpf_zero_writeback_nul d ks opt d' hq :
  hashrpf_chk d ks = true -> 1 <= opt <= 3 -> hashrpf_load d opt = Some d' -> lenN (hk_key hq) + 1 < 2 ^ 32 ->
  hashrpf_locate_zero d' hq [0] = hashrpf_locate d' hq.
Proof. exact (hashrpf_zero_writeback_nul d ks opt d' hq). Qed.
Print Assumptions C14_hashrpf_zero_writeback_nul.

(* ---- Examples: the object the REAL code built for S = {ab, abab, ababab, ababc, abc, c}, overhead 10
        (= ex_rpf6 / ex_keys of Properties_hashdict.v; repeated under other names so that this file stands alone) ---- *)
Definition ext_keys : list hkey :=
  [mkHKey [97;98] 1 5; mkHKey [97;98;97;98] 2 3; mkHKey [97;98;97;98;97;98] 6 1; mkHKey [97;98;97;98;99] 5 2;
   mkHKey [97;98;99] 3 1; mkHKey [99] 6 4].
Definition ext_rpf6 : hrpf :=
  mk_hrpf (RDh (mkFT [true; true; true; true; false; true; true] [0; 1; 2; 4; 0; 6; 8])) 101 100
          [(97, 98); (101, 101); (99, 100); (101, 100)] [103; 104; 102; 100; 101; 103; 102; 103; 102; 104] 6 7.

Example ext_hashrpf_chk : hashrpf_chk ext_rpf6 ext_keys = true. Proof. vm_compute. reflexivity. Qed.
(* type-ahead: the buffer is "ababab\0" and locate(buf, 2) asks for "ab"; "ababc\0" with strLen 4; a non-member followed by
   bytes that are not text (98, maxchar = 100, 255); a pattern that contains maxchar (guard) followed by one byte *)
Example ext_hashrpf_locate_tail : forall d', In (Some d') [hashrpf_load ext_rpf6 1; hashrpf_load ext_rpf6 2; hashrpf_load ext_rpf6 3] ->
  hashrpf_locate_tail d' (mkHKey [97;98] 1 5) [97;98;97;98;0] = (Some 2, [97;98;97;98;97;98;0]) /\
  hashrpf_locate_tail d' (mkHKey [97;98;97;98] 2 3) [99;0] = (Some 3, [97;98;97;98;99;0]) /\
  hashrpf_locate_tail d' (mkHKey [97;98;97] 1 2) [98;100;255] = (Some 0, [97;98;97;98;100;255]) /\
  hashrpf_locate_tail d' (mkHKey [97;98;100] 4 5) [7] = (Some 0, [97;98;100;7]) /\
  fst (hashrpf_locate d' (mkHKey [97;98] 1 5)) = Some 2 /\ fst (hashrpf_locate d' (mkHKey [97;98;97;98] 2 3)) = Some 3.
Proof. intros d' [H|[H|[H|[]]]]; vm_compute in H; inversion H; subst d'; vm_compute; repeat split. Qed.
(* the zero write-back on the same object; and `tail <> []` is needed: without the byte str[strLen] the call reads
   (and writes) outside the buffer *)
Example ext_hashrpf_zero : hashrpf_locate_zero ext_rpf6 (mkHKey [97;98;97;98] 2 3) [99;0] = (Some 3, [97;98;97;98;0;0]) /\
  fst (hashrpf_locate_tail ext_rpf6 (mkHKey [97;98] 1 5) []) = None.
Proof. vm_compute. split; reflexivity. Qed.
