(* Capacity accounting of the StringDictionaryPFC constructor (property C07).

   Only the BOOKKEEPING of the growing text buffer is modelled: the reserved size
   `reservedStrings`, the write cursor `bytesStrings`, the growth check executed before each
   string and the highest index of `textStrings` the iteration writes -- as a function of the
   string length, the LCP with the previous string and whether the string opens a bucket.

     size_t reservedStrings = MEMALLOC * bucketsize;              (MEMALLOC = 32768)
     while (it->hasNext()) {
       while ((bytesStrings + (2 * lenCurrent)) > reservedStrings)
         reservedStrings = Reallocate(&textStrings, reservedStrings);      // doubles
       if (elements % bucketsize == 0) {            // header
         strcpy(textStrings + bytesStrings, strCurrent);      // indices cursor .. cursor+len (NUL)
         bytesStrings += lenCurrent;
       } else {                                     // internal
         bytesStrings += VByte::encode(lcp, textStrings + bytesStrings);   // v = 1..5 bytes
         strncpy(textStrings + bytesStrings, strCurrent + lcp, lenCurrent - lcp);
         bytesStrings += lenCurrent - lcp;
       }
       textStrings[bytesStrings] = '\0';  bytesStrings++;    // highest index of the iteration
     }

   The growth check is a parameter [chk cursor len] (the value compared against the
   reservation) so that the pinned check and candidate repairs are instances of one model. *)
From LibCSD Require Import Base VByteDefs Spec PFCDefs.
Local Open Scope N_scope.

(* one string as the bookkeeping sees it: (lenCurrent, lcp, opens a bucket) *)
Definition cap_item : Type := (N * N * bool)%type.

(* number of bytes VByte::encode(c, ..) writes *)
Definition vb_len (c : N) : N := lenN (vb_encode c).

(* while (need > reserved) reserved = Reallocate(&textStrings, reserved);   Reallocate returns 2*len.
   The fuel is logarithmic (size of [need] in bits + 1); CapacityProofs.cap_grow_spec shows it
   suffices whenever the reservation is at least 1 (with reservation 0 the real loop spins for
   ever; the constructor starts from MEMALLOC * bucketsize >= 65536). *)
Fixpoint cap_grow_fuel (fuel : nat) (need reserved : N) : N :=
  match fuel with
  | O => reserved
  | S f => if reserved <? need then cap_grow_fuel f need (2 * reserved) else reserved
  end.
Definition cap_grow (need reserved : N) : N :=
  cap_grow_fuel (S (N.to_nat (N.size need))) need reserved.

(* the pinned check: `bytesStrings + (2 * lenCurrent)`; lenCurrent is a `uint`, so the product
   is computed modulo 2^32 before it is widened to size_t *)
Definition chk_pinned (cursor len : N) : N := cursor + (2 * len) mod 2 ^ 32.
(* suggested repair, product computed in size_t:
   `bytesStrings + 2 * (size_t)lenCurrent + 6 > reservedStrings` *)
Definition chk_fixed (cursor len : N) : N := cursor + 2 * len + 6.
(* the same written without the cast, `bytesStrings + 2 * lenCurrent + 6`: the product still wraps *)
Definition chk_fixed32 (cursor len : N) : N := cursor + (2 * len) mod 2 ^ 32 + 6.
(* the tightest check of the shape bytes + len + c: VByte(lcp) never takes more than lcp + 1
   bytes, so an internal string needs at most len + 2 bytes, a header len + 1 *)
Definition chk_min (cursor len : N) : N := cursor + len + 2.

(* highest index written by the iteration, relative to the cursor; the next cursor is one more *)
Definition cap_top (it : cap_item) : N :=
  let '(len, l, hdr) := it in
  if hdr then len else vb_len l + (len - l).

(* one iteration: (reserved', cursor', highest index written) *)
Definition cap_step (chk : N -> N -> N) (st : N * N) (it : cap_item) : N * N * N :=
  let '(reserved, cursor) := st in
  let '(len, l, hdr) := it in
  let reserved' := cap_grow (chk cursor len) reserved in
  (reserved', cursor + cap_top it + 1, cursor + cap_top it).

(* the whole loop: one (reservation at the time of the write, highest index written) per string *)
Fixpoint cap_run (chk : N -> N -> N) (st : N * N) (items : list cap_item) : list (N * N) :=
  match items with
  | [] => []
  | it :: r =>
      let '(reserved', cursor', top) := cap_step chk st it in
      (reserved', top) :: cap_run chk (reserved', cursor') r
  end.

Fixpoint cap_final (chk : N -> N -> N) (st : N * N) (items : list cap_item) : N * N :=
  match items with
  | [] => st
  | it :: r => let '(reserved', cursor', _) := cap_step chk st it in cap_final chk (reserved', cursor') r
  end.

(* every write of the run stays inside the buffer *)
Definition cap_safe (chk : N -> N -> N) (reserved0 : N) (items : list cap_item) : bool :=
  forallb (fun rt => snd rt <? fst rt) (cap_run chk (reserved0, 0) items).

(* ---------------------------------------------------------------------- *)
(* the items of a real string list                                         *)
(* ---------------------------------------------------------------------- *)
(* what the constructor's loop feeds the bookkeeping with: string number i (0-based) is a
   header iff i mod b = 0, the LCP is taken against the previous string *)
Fixpoint cap_items_from (b i : N) (prev : str) (S : list str) : list cap_item :=
  match S with
  | [] => []
  | s :: r => (lenN s, lcp prev s, i mod b =? 0) :: cap_items_from b (i + 1) s r
  end.
(* NOTE (bug for bug): inside the constructor the name `bucketsize` is the PARAMETER, which
   shadows the member; the clamp "bucketsize < 2 -> 2" is applied to this->bucketsize only.
   Both `MEMALLOC * bucketsize` and `elements % bucketsize` therefore use the raw parameter b0
   (for b0 >= 2 the two coincide; for b0 = 1 every string is written as a header, for b0 = 0 the
   reservation is 0 and the growth loop never ends -- both confirmed on the real code). *)
Definition cap_items (b0 : N) (S : list str) : list cap_item := cap_items_from b0 0 [] S.

Definition MEMALLOC : N := 32768.
(* `MEMALLOC * bucketsize` is an int * uint product: computed modulo 2^32, then widened *)
Definition cap_reserved0 (b0 : N) : N := (MEMALLOC * b0) mod 2 ^ 32.

(* the constructor on S with bucket size b0 keeps every write inside textStrings *)
Definition pfc_ctor_in_bounds (chk : N -> N -> N) (b0 : N) (S : list str) : bool :=
  cap_safe chk (cap_reserved0 b0) (cap_items b0 S).

(* ---------------------------------------------------------------------- *)
(* the real-input witness of DESIGN.md §9 #10 (same list as wip/pfc-d/cap_witness.py) *)
(* ---------------------------------------------------------------------- *)
(* 5-letter base-26 counter, most significant letter first *)
Definition c5 (i : N) : str :=
  [97 + (i / 456976) mod 26; 97 + (i / 17576) mod 26; 97 + (i / 676) mod 26; 97 + (i / 26) mod 26; 97 + i mod 26].

(* the pairs (pre ++ f i, pre ++ f i ++ "b") for i = n-1 downto 0, accumulated in front of acc *)
Definition pairs_upto (f : N -> str) (n : N) (acc : list str) : list str :=
  snd (N.iter n (fun st : N * list str =>
                   let i := fst st - 1 in (i, f i :: (f i ++ [98]) :: snd st)) (n, acc)).

Definition cap_witness_S : list str :=
  pairs_upto (fun i => 97 :: c5 i) 6541
    (pairs_upto (fun i => [119; 97 + i]) 20 [[120; 97; 98]; [121]]).
