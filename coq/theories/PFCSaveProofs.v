(* Persistence of the PFC model (properties C06 / C08 / C16 for the PFC kind).

   [pfc_save d] is the byte image StringDictionaryPFC::save writes (validated byte for byte
   against the real code), [pfc_load] what StringDictionaryPFC::load / the dispatcher read.

   - [pfc_save_defined]      the constructor's choice of the offset width bits(bytesStrings)
                             always fits every offset: save succeeds for every PFC input;
   - [pfc_load_save]         load (save d ++ rest) = (d, rest): the image is self-delimiting
                             and reloads to the SAME model value;
   - [pfc_build_wf]          the built dictionary is in the class [pfc_wf] covered by that theorem;
   - [pfc_reloaded_answers]  hence every query on the reloaded value is the specification's answer;
   - [pfc_resave_identical], [pfc_build_image_deterministic], [pfc_save_injective]   (C08);
   - [pfc_load_rejects_foreign_tag], [pfc_load_rejects_short]                        (C16);
   - [pfc_image_bytes]       the image is a list of bytes (every element < 256). *)
From LibCSD Require Import Base Bytes VByteDefs VByteProofs Spec SpecProofs LogSeqDefs LogSeqProofs
  PFCDefs PFCLayout PFCBuildProofs PFCExtractProofs LexLemmas PFCLocateProofs PFCTheorems.
Local Open Scope N_scope.

Ltac Zify.zify_post_hook ::= Z.to_euclidean_division_equations.

(* ---------------------------------------------------------------------- *)
(* well-formed values: the class of model values the image can represent    *)
(* ---------------------------------------------------------------------- *)
(* field ranges of the C++ members (uint64 elements / bytesStrings, uint32 maxlength /
   buckets / bucketsize, size_t entries of blStrings), a non-empty text (bits() of 0 is a
   0-bit LogSequence which the constructor never produces) and offsets that point into the
   text (what makes them fit the width bits(bytesStrings)). *)
Record pfc_wf (d : pfc) : Prop := {
  pwf_elements  : p_elements d < 2 ^ 64;
  pwf_maxlength : p_maxlength d < 2 ^ 32;
  pwf_buckets   : p_buckets d < 2 ^ 32;
  pwf_bsize     : p_bsize d < 2 ^ 32;
  pwf_text_ne   : 1 <= lenN (p_text d);
  pwf_text_len  : lenN (p_text d) < 2 ^ 64;
  pwf_bl_len    : lenN (p_bl d) < 2 ^ 64;
  pwf_offsets   : Forall (fun o => o <= lenN (p_text d)) (p_bl d)
}.

(* boolean checker, runnable on the artefact the implementation produced *)
Definition pfc_wf_chk (d : pfc) : bool :=
  (p_elements d <? 2 ^ 64) && (p_maxlength d <? 2 ^ 32) && (p_buckets d <? 2 ^ 32) &&
  (p_bsize d <? 2 ^ 32) && (1 <=? lenN (p_text d)) && (lenN (p_text d) <? 2 ^ 64) &&
  (lenN (p_bl d) <? 2 ^ 64) && forallb (fun o => o <=? lenN (p_text d)) (p_bl d).

Lemma pfc_wf_chk_sound d : pfc_wf_chk d = true -> pfc_wf d.
Proof.
  unfold pfc_wf_chk. rewrite !andb_true_iff.
  intros [[[[[[[H1 H2] H3] H4] H5] H6] H7] H8].
  constructor; try (apply N.ltb_lt; assumption).
  - apply N.leb_le; assumption.
  - apply Forall_forall. intros o Ho. rewrite forallb_forall in H8. apply N.leb_le. apply H8. exact Ho.
Qed.

(* ---------------------------------------------------------------------- *)
(* bits(n)                                                                  *)
(* ---------------------------------------------------------------------- *)
Lemma bitsN_range n : 1 <= n -> n < 2 ^ 64 -> 1 <= bitsN n <= 64.
Proof.
  intros H1 H2. unfold bitsN. rewrite N.size_log2 by lia.
  assert (N.log2 n < 64) by (apply N.log2_lt_pow2; lia). lia.
Qed.

Lemma bitsN_fits n o : o <= n -> o < 2 ^ bitsN n.
Proof. intros H. unfold bitsN. pose proof (N.size_gt n). lia. Qed.

(* ---------------------------------------------------------------------- *)
(* reading a LogSequence back into a list                                   *)
(* ---------------------------------------------------------------------- *)
Lemma ls_to_list_spec s : forall vs i,
  (forall k, k < lenN vs -> ls_get s (i + k) = nthN vs k) ->
  ls_to_list (length vs) s i = Some vs.
Proof.
  induction vs as [|v vs IH]; intros i H; [reflexivity|].
  cbn [length ls_to_list].
  pose proof (H 0) as H0. rewrite N.add_0_r in H0. rewrite H0 by (rewrite lenN_cons; lia).
  change (nthN (v :: vs) 0) with (Some v).
  rewrite IH; [reflexivity|].
  intros k Hk. replace (i + 1 + k) with (i + (1 + k)) by lia.
  rewrite H by (rewrite lenN_cons; lia).
  unfold nthN. replace (N.to_nat (1 + k)) with (S (N.to_nat k)) by lia. reflexivity.
Qed.

(* ---------------------------------------------------------------------- *)
(* save is defined on well-formed values                                    *)
(* ---------------------------------------------------------------------- *)
Lemma pfc_bl_packs d : pfc_wf d ->
  exists bl, ls_of_list (p_bl d) (bitsN (lenN (p_text d))) = Some bl /\
             ls_wf bl /\ ls_n bl = lenN (p_bl d) /\
             forall k, k < lenN (p_bl d) -> ls_get bl k = nthN (p_bl d) k.
Proof.
  intros Hwf.
  apply ls_of_list_get.
  - apply bitsN_range; [apply (pwf_text_ne d Hwf)|apply (pwf_text_len d Hwf)].
  - eapply Forall_impl; [|apply (pwf_offsets d Hwf)].
    intros o Ho. apply bitsN_fits. exact Ho.
Qed.

Theorem pfc_save_defined_wf d : pfc_wf d -> exists img, pfc_save d = Some img.
Proof.
  intros Hwf. destruct (pfc_bl_packs d Hwf) as (bl & E & _).
  unfold pfc_save. rewrite E. eexists. reflexivity.
Qed.

(* ---------------------------------------------------------------------- *)
(* load (save d ++ rest) = (d, rest)                                         *)
(* ---------------------------------------------------------------------- *)
Lemma firstn_skipn_field {A} (f r : list A) k : length f = k ->
  firstn k (f ++ r) = f /\ skipn k (f ++ r) = r.
Proof. intros H. split; [apply firstn_app_exact|apply skipn_app_exact]; exact H. Qed.

Lemma Some_inj {A} (a b : A) : Some a = Some b -> a = b.
Proof. congruence. Qed.

Lemma pow256_4 : 256 ^ N.of_nat 4 = 2 ^ 32. Proof. reflexivity. Qed.
Lemma pow256_8 : 256 ^ N.of_nat 8 = 2 ^ 64. Proof. reflexivity. Qed.

Theorem pfc_load_save d img rest :
  pfc_wf d -> pfc_save d = Some img -> pfc_load (img ++ rest) = Some (d, rest).
Proof.
  intros Hwf Hsave.
  destruct (pfc_bl_packs d Hwf) as (bl & Ebl & Hblwf & Hbln & Hget).
  unfold pfc_save in Hsave. rewrite Ebl in Hsave. apply Some_inj in Hsave. subst img.
  destruct Hwf as [He Hm Hb Hs Hne Htl Hbll Hoff].
  set (T := p_text d) in *.
  repeat rewrite <- app_assoc.
  set (tail := ls_save bl ++ rest).
  unfold pfc_load. cbv zeta.
  (* the length test *)
  match goal with |- context [(length ?l <? 32)%nat] =>
    assert (Hlen : (32 <= length l)%nat) by (repeat rewrite app_length; repeat rewrite le_bytes_length; lia)
  end.
  match goal with |- context [(length ?l <? 32)%nat] =>
    destruct (Nat.ltb_spec (length l) 32) as [Hbad|_]; [lia|]
  end.
  clear Hlen.
  (* tag *)
  rewrite (firstn_app_exact (le_bytes 4 PFC_TAG)) by apply le_bytes_length.
  rewrite (skipn_app_exact (le_bytes 4 PFC_TAG)) by apply le_bytes_length.
  change (le_value (le_bytes 4 PFC_TAG)) with PFC_TAG.
  rewrite N.eqb_refl. cbn [negb].
  (* elements *)
  rewrite (firstn_app_exact (le_bytes 8 (p_elements d))) by apply le_bytes_length.
  rewrite (skipn_app_exact (le_bytes 8 (p_elements d))) by apply le_bytes_length.
  rewrite (le_value_le_bytes 8) by (rewrite pow256_8; exact He).
  (* maxlength *)
  rewrite (firstn_app_exact (le_bytes 4 (p_maxlength d))) by apply le_bytes_length.
  rewrite (skipn_app_exact (le_bytes 4 (p_maxlength d))) by apply le_bytes_length.
  rewrite (le_value_le_bytes 4 (p_maxlength d)) by (rewrite pow256_4; exact Hm).
  (* buckets *)
  rewrite (firstn_app_exact (le_bytes 4 (p_buckets d))) by apply le_bytes_length.
  rewrite (skipn_app_exact (le_bytes 4 (p_buckets d))) by apply le_bytes_length.
  rewrite (le_value_le_bytes 4 (p_buckets d)) by (rewrite pow256_4; exact Hb).
  (* bucketsize *)
  rewrite (firstn_app_exact (le_bytes 4 (p_bsize d))) by apply le_bytes_length.
  rewrite (skipn_app_exact (le_bytes 4 (p_bsize d))) by apply le_bytes_length.
  rewrite (le_value_le_bytes 4 (p_bsize d)) by (rewrite pow256_4; exact Hs).
  (* bytesStrings *)
  rewrite (firstn_app_exact (le_bytes 8 (lenN T))) by apply le_bytes_length.
  rewrite (skipn_app_exact (le_bytes 8 (lenN T))) by apply le_bytes_length.
  rewrite (le_value_le_bytes 8 (lenN T)) by (rewrite pow256_8; exact Htl).
  (* text *)
  assert (HT : length T = N.to_nat (lenN T)) by (unfold lenN; lia).
  destruct (Nat.ltb_spec (length (T ++ tail)) (N.to_nat (lenN T))) as [Hbad|_].
  { rewrite app_length in Hbad. lia. }
  rewrite (firstn_app_exact T) by exact HT.
  rewrite (skipn_app_exact T) by exact HT.
  (* offsets *)
  unfold tail.
  rewrite (logseq_load_save bl rest Hblwf).
  - replace (N.to_nat (ls_n bl)) with (length (p_bl d)) by (rewrite Hbln; unfold lenN; lia).
    rewrite (ls_to_list_spec bl (p_bl d) 0).
    + destruct d; reflexivity.
    + intros k Hk. rewrite N.add_0_l. apply Hget. exact Hk.
  - destruct Hblwf as [Hbits _ _]. lia.
  - rewrite Hbln. exact Hbll.
Qed.

(* the image determines the value *)
Corollary pfc_save_injective d1 d2 img :
  pfc_wf d1 -> pfc_wf d2 -> pfc_save d1 = Some img -> pfc_save d2 = Some img -> d1 = d2.
Proof.
  intros W1 W2 S1 S2.
  pose proof (pfc_load_save d1 img [] W1 S1) as L1.
  pose proof (pfc_load_save d2 img [] W2 S2) as L2.
  rewrite L1 in L2. inversion L2. reflexivity.
Qed.

(* several images in one stream: the loader stops exactly at the end of its image *)
Corollary pfc_load_two_images d1 d2 img1 img2 rest :
  pfc_wf d1 -> pfc_wf d2 -> pfc_save d1 = Some img1 -> pfc_save d2 = Some img2 ->
  pfc_load (img1 ++ img2 ++ rest) = Some (d1, img2 ++ rest) /\
  pfc_load (img2 ++ rest) = Some (d2, rest).
Proof. intros W1 W2 S1 S2. split; apply pfc_load_save; assumption. Qed.

(* ---------------------------------------------------------------------- *)
(* the constructor's output is well formed                                   *)
(* ---------------------------------------------------------------------- *)
Lemma vb_encode_fuel_len_max fuel : forall c, (length (vb_encode_fuel fuel c) <= S fuel)%nat.
Proof.
  induction fuel as [|f IH]; intros c; cbn [vb_encode_fuel]; [simpl; lia|].
  destruct (127 <? c); [|simpl; lia]. cbn [length]. specialize (IH (N.shiftr c 7)). lia.
Qed.

(* VByte(c) never takes more than c + 1 bytes (1 byte for c < 128, at most 10 otherwise) *)
Lemma lenN_vb_le c : lenN (vb_encode c) <= c + 1.
Proof.
  destruct (N.lt_ge_cases c 128) as [Hs|Hb].
  - rewrite vb_encode_small by exact Hs. unfold lenN. simpl length. lia.
  - unfold vb_encode, lenN. pose proof (vb_encode_fuel_len_max 9 c). lia.
Qed.

Lemma lenN_vb_ge1 c : 1 <= lenN (vb_encode c).
Proof.
  unfold vb_encode, lenN. cbn [vb_encode_fuel]. destruct (127 <? c); cbn [length]; lia.
Qed.

(* invariant of the constructor's loop; M bounds the string lengths *)
Definition binv (M : N) (st : bstate) : Prop :=
  b_elems st <= lenN (b_text st) /\
  lenN (b_text st) <= b_elems st * (M + 2) /\
  Forall (fun o => o <= lenN (b_text st)) (b_xbl st) /\
  lenN (b_xbl st) = b_buckets st + 1 /\
  b_buckets st <= b_elems st.

Lemma binv_init M : binv M b_init.
Proof.
  unfold binv, b_init; cbn [b_elems b_text b_xbl b_buckets]. change (@lenN N []) with 0.
  repeat split; try lia. constructor; [lia|constructor].
Qed.

Lemma Forall_le_weaken (l : list N) a b : a <= b -> Forall (fun o => o <= a) l -> Forall (fun o => o <= b) l.
Proof. intros H. apply Forall_impl. intros o Ho. lia. Qed.

Lemma binv_step M bs st s : lenN s <= M -> binv M st -> binv M (pfc_step bs st s).
Proof.
  intros Hs (I1 & I2 & I3 & I4 & I5). unfold binv, pfc_step.
  destruct (b_elems st mod bs =? 0); cbn [b_elems b_text b_xbl b_buckets].
  - rewrite !lenN_app, !lenN_cons. change (@lenN N []) with 0.
    repeat split; try lia; try nia.
    apply Forall_app. split.
    + eapply Forall_le_weaken; [|exact I3]. lia.
    + constructor; [lia|constructor].
  - pose proof (lcp_le_r (b_prev st) s) as Hl.
    pose proof (lenN_vb_le (lcp (b_prev st) s)) as Hv.
    pose proof (lenN_vb_ge1 (lcp (b_prev st) s)) as Hv1.
    rewrite !lenN_app, !lenN_cons, lenN_skipN. change (@lenN N []) with 0.
    repeat split; try lia; try nia.
    eapply Forall_le_weaken; [|exact I3]. lia.
Qed.

Lemma binv_fold M bs : forall S st, Forall (fun s => lenN s <= M) S -> binv M st ->
  binv M (fold_left (pfc_step bs) S st).
Proof.
  induction S as [|s r IH]; intros st HS Hst; [exact Hst|].
  inversion HS; subst. cbn [fold_left]. apply IH; [assumption|]. apply binv_step; assumption.
Qed.

Lemma spec_maxlen_le M S : Forall (fun s => lenN s <= M) S -> spec_maxlen S <= M.
Proof.
  induction 1 as [|s r Hs Hr IH]; [unfold spec_maxlen; simpl; lia|].
  unfold spec_maxlen; cbn [fold_right]; fold (spec_maxlen r). lia.
Qed.

(* what the loop invariant gives for the finished dictionary *)
Lemma pfc_build_inv M b0 S : Forall (fun s => lenN s <= M) S ->
  let d := pfc_build b0 S in
  lenN S <= lenN (p_text d) /\ lenN (p_text d) <= lenN S * (M + 2) /\
  Forall (fun o => o <= lenN (p_text d)) (p_bl d) /\
  lenN (p_bl d) = p_buckets d + 2 /\ p_buckets d <= lenN S.
Proof.
  intros HS d.
  pose proof (binv_fold M (clamp_bsize b0) S b_init HS (binv_init M)) as (I1 & I2 & I3 & I4 & I5).
  pose proof (pfc_build_elements b0 S) as Ee. unfold pfc_build in Ee. cbn [p_elements] in Ee.
  subst d. unfold pfc_build. cbn [p_text p_bl p_buckets].
  rewrite Ee in *.
  repeat split; try assumption.
  - apply Forall_app. split; [exact I3|]. constructor; [lia|constructor].
  - rewrite lenN_app, lenN_cons. change (@lenN N []) with 0. lia.
Qed.

(* pfc_input alone bounds the text by 2^64 - 1: at most 2^32 - 1 strings, each at most
   2^32 - 1 bytes and encoded in at most len + 2 bytes *)
Lemma pfc_input_len_bound S : pfc_input S -> Forall (fun s => lenN s <= 2 ^ 32 - 1) S.
Proof.
  intros (_ & _ & _ & Hl & _). eapply Forall_impl; [|exact Hl]. intros s Hs.
  cbv beta in Hs. lia.
Qed.

Lemma pfc_build_text_bounds b0 S : pfc_input S ->
  1 <= lenN (p_text (pfc_build b0 S)) /\ lenN (p_text (pfc_build b0 S)) < 2 ^ 64.
Proof.
  intros HS. pose proof (pfc_build_inv (2 ^ 32 - 1) b0 S (pfc_input_len_bound S HS)) as (I1 & I2 & _).
  destruct HS as (Hne & _ & _ & _ & Hn).
  assert (1 <= lenN S) by (destruct S; [congruence|rewrite lenN_cons; lia]).
  unfold str in *. split; [lia|].
  change (2 ^ 32 - 1 + 2) with (2 ^ 32 + 1) in I2.
  assert (lenN S * (2 ^ 32 + 1) <= (2 ^ 32 - 1) * (2 ^ 32 + 1)) by (apply N.mul_le_mono_r; lia).
  change ((2 ^ 32 - 1) * (2 ^ 32 + 1)) with (2 ^ 64 - 1) in H0. lia.
Qed.

(* 1.  save succeeds on everything the constructor can build from a PFC input, whatever
   the bucket size: the width bits(bytesStrings) is between 1 and 64 and every recorded
   offset is at most bytesStrings < 2^bits *)
Theorem pfc_save_defined b0 S : pfc_input S -> exists img, pfc_save (pfc_build b0 S) = Some img.
Proof.
  intros HS.
  pose proof (pfc_build_text_bounds b0 S HS) as [Hne Hlt].
  pose proof (pfc_build_inv (2 ^ 32 - 1) b0 S (pfc_input_len_bound S HS)) as (_ & _ & Hoff & _).
  unfold pfc_save.
  destruct (ls_of_list_get (p_bl (pfc_build b0 S)) (bitsN (lenN (p_text (pfc_build b0 S))))) as (bl & E & _).
  - apply bitsN_range; assumption.
  - eapply Forall_impl; [|exact Hoff]. intros o Ho. apply bitsN_fits. exact Ho.
  - rewrite E. eexists. reflexivity.
Qed.

(* The two hypotheses beyond [pfc_input] are needed only for the header fields, not for
   the text or the offsets:
   - [b0 < 2^32]: the bucket size is a `uint` parameter; the model keeps it as an unbounded N;
   - every string shorter than 2^32 - 1: `maxlength` is a uint32 holding (longest length + 1);
     a string of exactly 2^32 - 1 bytes (allowed by pfc_input) would make the model field
     2^32 whereas the 4 saved bytes hold 0.
   No bound on the total text length is needed: pfc_input already implies < 2^64. *)
Theorem pfc_build_wf b0 S :
  pfc_input S -> b0 < 2 ^ 32 -> Forall (fun s => lenN s + 1 < 2 ^ 32) S ->
  pfc_wf (pfc_build b0 S).
Proof.
  intros HS Hb0 Hlen.
  pose proof (pfc_build_text_bounds b0 S HS) as [Hne Hlt].
  pose proof (pfc_build_inv (2 ^ 32 - 1) b0 S (pfc_input_len_bound S HS)) as (_ & _ & Hoff & Hbl & Hbk).
  pose proof HS as (HSne & _ & _ & _ & Hn).
  unfold str in *.
  constructor.
  - rewrite pfc_build_elements. unfold str in *. lia.
  - rewrite pfc_build_maxlength by exact HSne.
    assert (spec_maxlen S <= 2 ^ 32 - 2).
    { apply spec_maxlen_le. eapply Forall_impl; [|exact Hlen]. intros s Hs. cbv beta in Hs. lia. }
    lia.
  - lia.
  - rewrite pfc_build_bsize. unfold clamp_bsize. destruct (b0 <? 2); [reflexivity|exact Hb0].
  - exact Hne.
  - exact Hlt.
  - rewrite Hbl. unfold str in *. lia.
  - exact Hoff.
Qed.

(* 2.  persistence of the built dictionary *)
Theorem pfc_build_load_save b0 S img rest :
  pfc_input S -> b0 < 2 ^ 32 -> Forall (fun s => lenN s + 1 < 2 ^ 32) S ->
  pfc_save (pfc_build b0 S) = Some img ->
  pfc_load (img ++ rest) = Some (pfc_build b0 S, rest).
Proof. intros HS Hb Hl. apply pfc_load_save. apply pfc_build_wf; assumption. Qed.

(* every query of ANY dictionary with the PFC layout, after a save / load cycle, is the
   specification's answer *)
Theorem pfc_reloaded_answers_gen d b S img rest d' rest' :
  layout_ok d b S -> 2 <= b -> pfc_input S -> pfc_wf d ->
  pfc_save d = Some img -> pfc_load (img ++ rest) = Some (d', rest') ->
  d' = d /\ rest' = rest /\
  (forall q, nul_free q -> pfc_locate d' q = Some (spec_locate S q)) /\
  (forall id, pfc_extract d' id = Some (spec_extract S id)) /\
  pfc_extract_table d' = Some S.
Proof.
  intros HL Hb HS Hwf Hsave Hload.
  rewrite (pfc_load_save d img rest Hwf Hsave) in Hload. inversion Hload; subst d' rest'.
  split; [reflexivity|]. split; [reflexivity|]. split; [|split].
  - intros q Hq. apply (pfc_locate_spec d b S q); assumption.
  - apply (pfc_extract_spec d b S); assumption.
  - apply (pfc_extract_table_spec d b S); assumption.
Qed.

Theorem pfc_reloaded_answers b0 S img rest d' rest' :
  pfc_input S -> b0 < 2 ^ 32 -> Forall (fun s => lenN s + 1 < 2 ^ 32) S ->
  pfc_save (pfc_build b0 S) = Some img -> pfc_load (img ++ rest) = Some (d', rest') ->
  rest' = rest /\
  (forall q, nul_free q ->
     pfc_locate d' q = pfc_locate (pfc_build b0 S) q /\ pfc_locate d' q = Some (spec_locate S q)) /\
  (forall id,
     pfc_extract d' id = pfc_extract (pfc_build b0 S) id /\ pfc_extract d' id = Some (spec_extract S id)) /\
  pfc_extract_table d' = pfc_extract_table (pfc_build b0 S) /\ pfc_extract_table d' = Some S /\
  p_elements d' = lenN S /\ p_maxlength d' = spec_maxlen S + 1.
Proof.
  intros HS Hb Hl Hsave Hload.
  rewrite (pfc_build_load_save b0 S img rest HS Hb Hl Hsave) in Hload. inversion Hload; subst d' rest'.
  split; [reflexivity|]. split; [|split; [|split; [|split; [|split]]]].
  - intros q Hq. split; [reflexivity|]. apply pfc_locate_built; assumption.
  - intros id. split; [reflexivity|]. apply pfc_extract_built; assumption.
  - reflexivity.
  - apply pfc_table_built; assumption.
  - apply pfc_build_elements.
  - apply pfc_build_maxlength. destruct HS as (Hne & _). exact Hne.
Qed.

(* ---------------------------------------------------------------------- *)
(* 3.  determinism (C08)                                                     *)
(* ---------------------------------------------------------------------- *)
(* [pfc_save] is a Gallina function of the value: equal values, equal images *)
Theorem pfc_save_deterministic d d' : d = d' -> pfc_save d = pfc_save d'.
Proof. intros ->. reflexivity. Qed.

(* re-saving a loaded image reproduces it byte for byte *)
Theorem pfc_resave_identical d img rest d' rest' :
  pfc_wf d -> pfc_save d = Some img -> pfc_load (img ++ rest) = Some (d', rest') ->
  pfc_save d' = pfc_save d /\ pfc_save d' = Some img.
Proof.
  intros Hwf Hsave Hload.
  rewrite (pfc_load_save d img rest Hwf Hsave) in Hload. inversion Hload; subst d' rest'.
  split; [reflexivity|exact Hsave].
Qed.

Corollary pfc_build_resave_identical b0 S img rest d' rest' :
  pfc_input S -> b0 < 2 ^ 32 -> Forall (fun s => lenN s + 1 < 2 ^ 32) S ->
  pfc_save (pfc_build b0 S) = Some img -> pfc_load (img ++ rest) = Some (d', rest') ->
  pfc_save d' = Some img.
Proof.
  intros HS Hb Hl Hsave Hload.
  apply (pfc_resave_identical (pfc_build b0 S) img rest d' rest'); auto. apply pfc_build_wf; assumption.
Qed.

(* no hidden input: the image depends on (bucket size, string list) only -- and on the
   bucket size only through its clamped value *)
Theorem pfc_build_image_deterministic b0 b1 S S' :
  b0 = b1 -> S = S' -> pfc_save (pfc_build b0 S) = pfc_save (pfc_build b1 S').
Proof. intros -> ->. reflexivity. Qed.

Corollary pfc_build_image_clamped b0 b1 S :
  clamp_bsize b0 = clamp_bsize b1 -> pfc_save (pfc_build b0 S) = pfc_save (pfc_build b1 S).
Proof. intros H. unfold pfc_build. rewrite H. reflexivity. Qed.

(* ---------------------------------------------------------------------- *)
(* 4.  foreign images are rejected (C16)                                     *)
(* ---------------------------------------------------------------------- *)
Theorem pfc_load_rejects_foreign_tag bs : le_value (firstn 4 bs) <> 211 -> pfc_load bs = None.
Proof.
  intros H. unfold pfc_load. cbv zeta.
  destruct (length bs <? 32)%nat; [reflexivity|].
  destruct (N.eqb_spec (le_value (firstn 4 bs)) PFC_TAG) as [E|_]; [contradiction|reflexivity].
Qed.

Theorem pfc_load_rejects_short bs : (length bs < 32)%nat -> pfc_load bs = None.
Proof.
  intros H. unfold pfc_load. cbv zeta.
  destruct (Nat.ltb_spec (length bs) 32); [reflexivity|lia].
Qed.

(* the tag is what save writes first *)
Theorem pfc_save_tag d img : pfc_save d = Some img -> le_value (firstn 4 img) = 211.
Proof.
  unfold pfc_save. destruct (ls_of_list _ _); [|discriminate]. intros H; apply Some_inj in H; subst img.
  rewrite firstn_app_exact by apply le_bytes_length. reflexivity.
Qed.

(* ---------------------------------------------------------------------- *)
(* the image is a byte string                                               *)
(* ---------------------------------------------------------------------- *)
Definition bytes (l : list N) : Prop := Forall (fun b => b < 256) l.

Lemma bytes_flat_words data : bytes (flat_map (le_bytes 8) data).
Proof.
  induction data as [|x r IH]; cbn [flat_map]; [constructor|].
  apply Forall_app. split; [apply le_bytes_byte|exact IH].
Qed.

Lemma bytes_firstn n l : bytes l -> bytes (firstn n l).
Proof.
  unfold bytes. intros H. apply Forall_forall. intros x Hx.
  rewrite Forall_forall in H. apply H. rewrite <- (firstn_skipn n l). apply in_or_app. left. exact Hx.
Qed.

Lemma bytes_skipn n l : bytes l -> bytes (skipn n l).
Proof.
  unfold bytes. intros H. apply Forall_forall. intros x Hx.
  rewrite Forall_forall in H. apply H. rewrite <- (firstn_skipn n l). apply in_or_app. right. exact Hx.
Qed.

Lemma ls_save_bytes s : bytes (ls_save s).
Proof.
  unfold ls_save. apply Forall_app. split; [apply le_bytes_byte|].
  apply Forall_app. split; [apply le_bytes_byte|]. apply bytes_firstn. apply bytes_flat_words.
Qed.

Theorem pfc_image_bytes d img : bytes (p_text d) -> pfc_save d = Some img -> bytes img.
Proof.
  intros HT. unfold pfc_save. destruct (ls_of_list _ _); [|discriminate]. intros H; apply Some_inj in H; subst img.
  repeat (apply Forall_app; split; [apply le_bytes_byte|]).
  apply Forall_app. split; [exact HT|apply ls_save_bytes].
Qed.

Lemma bytes_step bs st s : bytes s -> lenN s < 2 ^ 32 -> bytes (b_text st) -> bytes (b_text (pfc_step bs st s)).
Proof.
  intros Hs Hl Ht. unfold pfc_step.
  destruct (b_elems st mod bs =? 0); cbn [b_text].
  - apply Forall_app. split; [exact Ht|]. apply Forall_app. split; [exact Hs|]. constructor; [lia|constructor].
  - apply Forall_app. split; [exact Ht|]. apply Forall_app. split.
    + apply vbyte_bytes. pose proof (lcp_le_r (b_prev st) s). unfold W32. lia.
    + apply Forall_app. split; [apply bytes_skipn; exact Hs|]. constructor; [lia|constructor].
Qed.

Lemma bytes_fold bs : forall S st, Forall bytes S -> Forall (fun s => lenN s < 2 ^ 32) S ->
  bytes (b_text st) -> bytes (b_text (fold_left (pfc_step bs) S st)).
Proof.
  induction S as [|s r IH]; intros st HS HL Hst; [exact Hst|].
  inversion HS; inversion HL; subst. cbn [fold_left]. apply IH; try assumption.
  apply bytes_step; assumption.
Qed.

Theorem pfc_build_image_bytes b0 S img :
  pfc_input S -> Forall bytes S -> pfc_save (pfc_build b0 S) = Some img -> bytes img.
Proof.
  intros (_ & _ & _ & HL & _) HB. apply pfc_image_bytes.
  unfold pfc_build. cbn [p_text]. apply bytes_fold; try assumption. constructor.
Qed.

(* ---------------------------------------------------------------------- *)
(* a concrete 7-string set: every hypothesis is satisfiable, and the whole   *)
(* save / load / re-save cycle by plain computation                          *)
(* ---------------------------------------------------------------------- *)
Definition sv_S : list str := thm_ex_S.   (* "a" "ab" "abc" "abd" "b" "ba" "c\002\254" *)
Definition sv_d : pfc := pfc_build 3 sv_S.

Example sv_input : pfc_input sv_S /\ 3 < 2 ^ 32 /\ Forall (fun s => lenN s + 1 < 2 ^ 32) sv_S /\ Forall bytes sv_S.
Proof.
  split; [exact thm_ex_input|]. split; [reflexivity|].
  split; repeat constructor.
Qed.

Example sv_wf : pfc_wf sv_d.
Proof. destruct sv_input as (H1 & H2 & H3 & _). exact (pfc_build_wf 3 sv_S H1 H2 H3). Qed.

Example sv_wf_chk : pfc_wf_chk sv_d = true.
Proof. vm_compute. reflexivity. Qed.

Definition sv_img : list N :=
  match pfc_save sv_d with Some img => img | None => [] end.

Example sv_save_some : pfc_save sv_d = Some sv_img.
Proof. vm_compute. reflexivity. Qed.

(* the image, byte for byte: tag 211, 7 elements, maxlength 4, 3 buckets of 3, 22 text bytes,
   the text, then the LogSequence: width 5 = bits(22), 5 entries, one 64-bit word holding the
   offsets 0,0,8,18,22 in 5-bit fields (0x1692000) *)
Example sv_image_value : sv_img =
  [211;0;0;0;  7;0;0;0;0;0;0;0;  4;0;0;0;  3;0;0;0;  3;0;0;0;  22;0;0;0;0;0;0;0;
   97;0; 129;98;0; 130;99;0;   97;98;100;0; 128;98;0; 129;97;0;   99;2;254;0;
   5;  5;0;0;0;0;0;0;0;  0;32;105;1;0;0;0;0].
Proof. vm_compute. reflexivity. Qed.

Example sv_image_is_bytes : bytes sv_img.
Proof.
  destruct sv_input as (H1 & _ & _ & H4).
  exact (pfc_build_image_bytes 3 sv_S sv_img H1 H4 sv_save_some).
Qed.

Example sv_load_save : pfc_load (sv_img ++ [1; 2; 3]) = Some (sv_d, [1; 2; 3]).
Proof. vm_compute. reflexivity. Qed.

Example sv_resave : forall d' r, pfc_load (sv_img ++ [1; 2; 3]) = Some (d', r) -> pfc_save d' = Some sv_img.
Proof. intros d' r H. rewrite sv_load_save in H. inversion H. exact sv_save_some. Qed.

Example sv_two_images :
  pfc_load (sv_img ++ sv_img) = Some (sv_d, sv_img) /\ pfc_load sv_img = Some (sv_d, []).
Proof. vm_compute. split; reflexivity. Qed.

Example sv_foreign_tag : pfc_load (212 :: skipn 1 sv_img) = None /\ pfc_load (firstn 31 sv_img) = None.
Proof. vm_compute. split; reflexivity. Qed.

Example sv_reloaded_queries :
  pfc_locate sv_d [97; 98; 100] = Some 4 /\ pfc_extract sv_d 7 = Some (Some [99; 2; 254]) /\
  pfc_extract_table sv_d = Some sv_S.
Proof. vm_compute. repeat split; reflexivity. Qed.

(* the two extra hypotheses of [pfc_build_wf] are really needed: a field that does not fit
   its C type is truncated by save, so the reloaded value differs *)
Example sv_hyp_b0_needed :
  match pfc_save (pfc_build (2 ^ 32) sv_S) with
  | Some img => option_map (fun r => p_bsize (fst r)) (pfc_load img) = Some 0
  | None => False
  end.
Proof. vm_compute. reflexivity. Qed.

Example sv_hyp_maxlength_needed :
  let d := {| p_elements := 1; p_maxlength := 2 ^ 32; p_buckets := 1; p_bsize := 2;
              p_text := [97; 0]; p_bl := [0; 0; 2] |} in
  match pfc_save d with
  | Some img => option_map (fun r => p_maxlength (fst r)) (pfc_load img) = Some 0
  | None => False
  end.
Proof. vm_compute. reflexivity. Qed.
