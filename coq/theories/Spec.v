(* The abstract string-dictionary specification every kind is measured against
   (DESIGN.md §1.2).  A dictionary over the ordered duplicate-free list S
   answers locate / extract / prefix / substring queries as defined here; IDs are
   1-based positions in S.  Executable (it is extracted and used as the oracle
   of the correspondence check) and small enough to read in a minute. *)
From LibCSD Require Import Base.
Local Open Scope N_scope.

Definition str := list N.          (* bytes; valid strings contain no 0 *)

(* unsigned-byte lexicographic order: what strcmp / memcmp compute *)
Fixpoint lex_compare (a b : str) : comparison :=
  match a, b with
  | [], [] => Eq
  | [], _ :: _ => Lt
  | _ :: _, [] => Gt
  | x :: a', y :: b' =>
      match N.compare x y with
      | Eq => lex_compare a' b'
      | c => c
      end
  end.

Definition lex_lt (a b : str) : Prop := lex_compare a b = Lt.
Definition str_eqb (a b : str) : bool := match lex_compare a b with Eq => true | _ => false end.

Fixpoint is_prefix (p s : str) : bool :=
  match p, s with
  | [], _ => true
  | _ :: _, [] => false
  | x :: p', y :: s' => (x =? y) && is_prefix p' s'
  end.

Fixpoint is_infix (p s : str) : bool :=
  is_prefix p s || match s with [] => false | _ :: s' => is_infix p s' end.

Fixpoint index_from (q : str) (S : list str) (i : N) : N :=
  match S with
  | [] => 0
  | s :: r => if str_eqb s q then i else index_from q r (i + 1)
  end.

Fixpoint ids_where (f : str -> bool) (S : list str) (i : N) : list N :=
  match S with
  | [] => []
  | s :: r => if f s then i :: ids_where f r (i + 1) else ids_where f r (i + 1)
  end.

Definition spec_locate (S : list str) (q : str) : N := index_from q S 1.
Definition spec_extract (S : list str) (id : N) : option str :=
  if id =? 0 then None else nthN S (id - 1).
Definition spec_prefix_ids (S : list str) (p : str) : list N := ids_where (is_prefix p) S 1.
Definition spec_substr_ids (S : list str) (p : str) : list N := ids_where (is_infix p) S 1.
Definition spec_prefix_strs (S : list str) (p : str) : list str := filter (is_prefix p) S.
Definition spec_substr_strs (S : list str) (p : str) : list str := filter (is_infix p) S.
Definition spec_table (S : list str) : list str := S.
Definition spec_elements (S : list str) : N := lenN S.
Definition spec_maxlen (S : list str) : N := fold_right (fun s m => N.max (lenN s) m) 0 S.

(* (left, right) limits of a contiguous ID range; (0,0) when empty *)
Definition range_of (ids : list N) : N * N :=
  match ids with
  | [] => (0, 0)
  | l :: _ => (l, last ids l)
  end.

(* validity of an input set, as in the quantifier of the properties *)
Definition valid_byte (b : N) : Prop := 2 <= b <= 254.
Definition valid_str (s : str) : Prop := s <> [] /\ Forall valid_byte s.
Inductive sorted_lt : list str -> Prop :=
| sorted_nil : sorted_lt []
| sorted_one s : sorted_lt [s]
| sorted_cons s t r : lex_lt s t -> sorted_lt (t :: r) -> sorted_lt (s :: t :: r).
Definition valid_set (S : list str) : Prop := S <> [] /\ Forall valid_str S /\ sorted_lt S.

(* boolean versions used by the harness to validate generated inputs *)
Definition valid_str_b (s : str) : bool :=
  negb (match s with [] => true | _ => false end) && forallb (fun b => (2 <=? b) && (b <=? 254)) s.
Fixpoint sorted_lt_b (S : list str) : bool :=
  match S with
  | [] => true
  | s :: r => match r with
              | [] => true
              | t :: _ => (match lex_compare s t with Lt => true | _ => false end) && sorted_lt_b r
              end
  end.
Definition valid_set_b (S : list str) : bool :=
  negb (match S with [] => true | _ => false end) && forallb valid_str_b S && sorted_lt_b S.
