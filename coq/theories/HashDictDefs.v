(* Executable model of the two Re-Pair hash dictionaries, composed from the existing models:
     StringDictionaryHASHRPDAC.cpp  (+ Hash/HashDAC.cpp, RePair::extractStringAndCompareDAC)
     StringDictionaryHASHRPF.cpp    (+ Hash/Hashdh.cpp, HashBdh.cpp, HashBBdh.cpp,
                                       RePair::extractStringAndCompareRP)
   Hash values are DATA (as in HashDefs.v): a query is an [hkey] = (bytes, bitwisehash, step_value).

   HASHRPDAC: the table stores nothing but positions: [hd_bits] = hash->b_ht; the strings are the DAC
     sequences of an [rpdac] (RPDACDefs.v) in Tdict* order; the string of an occupied cell c is sequence
     number rank1(c).
   HASHRPF: the strings are stored in ONE symbol sequence rp->Cls ([hf_cls]); every string is followed
     by the symbol maxchar; the table holds the offset of the first symbol of each string, in one of the
     three representations of Hash::load ([hrepr]).
   The pattern buffer of a query is an explicit value: extractStringAndCompareRP overwrites str[strLen]
   with maxchar and restores the NUL; [hashrpf_locate] returns the answer AND the final buffer.
   Definitions only; proofs are in HashDictProofs.v. *)
From LibCSD Require Import Base Spec RePairDefs RPDACDefs HashDefs.
Local Open Scope N_scope.

(* ---------------------------------------------------------------------------------------- *)
(* the probe loop shared (textually) by StringDictionaryHASHRPDAC::locate and
   StringDictionaryHASHRPF::locate:
     hval = bitwisehash(..);  <probe hval>;  h2 = step_value(..);
     for (i = 1; i < hash->tsize; i++) { next = (hval + i * h2) % hash->tsize;  <probe next>; }
     return NORESULT;
   <probe c>:  if (!hash->b_ht->access(c)) return NORESULT;
               if (<compare the string of cell c with the pattern> == 0) return hash->b_ht->rank1(c);
   The state [B] threaded through the probes is the pattern buffer (unit for HASHRPDAC). *)
Inductive hd_pres := HFound (id : N) | HStop | HNext | HOob.

Section Locate.
  Context {B : Type}.
  Variable probe : B -> N -> hd_pres * B.

  Fixpoint hd_loop (fuel : nat) (buf : B) (m h1 h2 i : N) : option N * B :=
    match fuel with
    | O => (Some 0, buf)
    | S f =>
        match probe buf (dh_probe_mul m h1 h2 i) with
        | (HFound id, b) => (Some id, b)
        | (HStop, b) => (Some 0, b)
        | (HOob, b) => (None, b)
        | (HNext, b) => hd_loop f b m h1 h2 (i + 1)
        end
    end.

  (* [bits] = hash->b_ht (tsize cells); outer None = a read out of bounds; Some 0 = NORESULT *)
  Definition hd_locate (bits : list bool) (buf : B) (h1 h2 : N) : option N * B :=
    match probe buf h1 with
    | (HFound id, b) => (Some id, b)
    | (HStop, b) => (Some 0, b)
    | (HOob, b) => (None, b)
    | (HNext, b) => hd_loop (Nat.pred (length bits)) b (lenN bits) h1 h2 1
    end.
End Locate.

(* IteratorDictString *extractTable():  for (uint i = 1; i <= elements; i++) tabledec[i-1] = extract(i, &strLen);
   (same text in both classes).  None = an extract failed (memory error) or the loop does not stop *)
Fixpoint hd_table_loop (ext : N -> option (option str)) (fuel : nat) (i elements : N) : option (list (option str)) :=
  if i <=? elements then
    match fuel with
    | O => None
    | S f =>
        match ext i with
        | None => None
        | Some r => option_map (cons r) (hd_table_loop ext f (u32 (i + 1)) elements)
        end
    end
  else Some [].

(* ======================================================================================== *)
(* HASHRPDAC                                                                                 *)

Record hrpdac := mk_hrpdac {
  hd_bits : list bool;     (* hash->b_ht; hash->tsize is its length *)
  hd_rp : rpdac            (* rp->terminals, rp->G, rp->Cdac, elements, maxlength *)
}.

(* pos = hash->b_ht->rank1(c);  rp->extractStringAndCompareDAC(pos, str, strLen)  ([compare_dac] truncates
   pos to uint as the call does) *)
Definition hrd_probe (d : hrpdac) (q : str) (_ : unit) (cell : N) : hd_pres * unit :=
  match nthN (hd_bits d) cell with
  | None => (HOob, tt)
  | Some false => (HStop, tt)
  | Some true =>
      let pos := dh_rank1 (hd_bits d) cell in
      match compare_dac (hd_rp d) pos q with
      | None => (HOob, tt)
      | Some z => if (z =? 0)%Z then (HFound pos, tt) else (HNext, tt)
      end
  end.

Definition hashrpdac_locate (d : hrpdac) (hq : hkey) : option N :=
  fst (hd_locate (hrd_probe d (hk_key hq)) (hd_bits d) tt (hk_h1 hq) (hk_h2 hq)).

(* uchar *StringDictionaryHASHRPDAC::extract(size_t id, uint *strLen): the text of
   StringDictionaryRPDAC::extract *)
Definition hashrpdac_extract (d : hrpdac) (id : N) : option (option str) := rpdac_extract (hd_rp d) id.

Definition hashrpdac_table (d : hrpdac) : option (list (option str)) :=
  hd_table_loop (hashrpdac_extract d) (N.to_nat (d_elements (hd_rp d))) 1 (d_elements (hd_rp d)).

(* ======================================================================================== *)
(* HASHRPF                                                                                   *)

(* the three classes behind `Hash *hash` (load options 1, 2, 3 = HASHRP, HASHBRP, HASHBBRP) *)
Inductive hrepr :=
| RDh (f : dh_ftable)                       (* Hashdh: bitmap + full offset array *)
| RB (bits : list bool) (comp : list N)     (* HashBdh: bitmap + offsets of the occupied cells *)
| RBB (bits offb : list bool).              (* HashBBdh: bitmap + bitmap of the offsets *)

Definition hr_bits (r : hrepr) : list bool :=
  match r with RDh f => ft_bits f | RB b _ => b | RBB b _ => b end.
Definition hr_getValuePos (r : hrepr) (i : N) : option N :=
  match r with
  | RDh f => getValuePos_dh f i
  | RB b c => getValuePos_B b c i
  | RBB b o => getValuePos_BB b o i
  end.
Definition hr_getValue (r : hrepr) (id : N) : option N :=
  match r with
  | RDh f => getValue_dh f id
  | RB _ c => getValue_B c id
  | RBB _ o => getValue_BB o id
  end.

(* Hash::load(in, technique) applied to the image Hash::save wrote for the full representation
   ([n] = the element count stored in the image) *)
Definition hr_load (f : dh_ftable) (n : N) (opt : N) : option hrepr :=
  if opt =? 1 then Some (RDh f)
  else if opt =? 2 then option_map (RB (ft_bits f)) (dh_compact_B f n)
  else if opt =? 3 then option_map (RBB (ft_bits f)) (dh_offbits_BB f n)
  else None.

Record hrpf := mk_hrpf {
  hf_repr : hrepr;          (* hash *)
  hf_t : N;                 (* rp->terminals *)
  hf_maxchar : N;           (* rp->maxchar (uchar) *)
  hf_rules : list rule;     (* rp->G *)
  hf_cls : list N;          (* rp->Cls *)
  hf_elements : N;          (* elements (size_t) *)
  hf_maxlength : N          (* maxlength (uint) *)
}.

(* the loop of
     int RePair::extractStringAndCompareRP(uint id, uchar *str, uint strLen)
       str[strLen] = maxchar;  uint l = 0, pos = 0, next;  int cmp = 0;
       while (pos <= strLen) {
         next = Cls->getField(id + l);
         if (next >= terminals) { cmp = expandRuleAndCompareString(next - terminals, str, &pos); if (cmp != 0) break; }
         else { if ((uchar)next != str[pos]) { cmp = (int)((uchar)next - str[pos]); break; }  pos++; }
         l++;
       }
       str[strLen] = 0;  return cmp;
   [cmp_sym] (RPDACDefs) is the if/else on `next >= terminals`.  Result (cmp, early): early = the loop was
   left through the terminal-differs branch (a `return` in the pinned source, see [rp_compare] old).
   Every round with cmp = 0 advances pos, so [fuel] = strLen + 1 rounds suffice. *)
Fixpoint rpf_cmp_loop (rules : list rule) (t : N) (cls qb : list N) (gfuel fuel : nat)
         (id l pos strLen : N) (cmp : Z) : option (Z * bool) :=
  if pos <=? strLen then
    match fuel with
    | O => None
    | S f =>
        match nthN cls (u32 (id + l)) with
        | None => None
        | Some v =>
            let next := u32 v in
            match cmp_sym rules t qb gfuel next pos with
            | None => None
            | Some (c, pos1) =>
                if (c =? 0)%Z
                then rpf_cmp_loop rules t cls qb gfuel f id (u32 (l + 1)) pos1 strLen (if t <=? next then c else cmp)
                else Some (c, negb (t <=? next))
            end
        end
    end
  else Some (cmp, false).

(* the whole function on the explicit pattern buffer; returns (cmp, buffer afterwards).
   old = true: the control flow of the pinned source (before be64401): the terminal-differs branch returns
   at once, WITHOUT restoring str[strLen], and the normal exit writes 0 there; the current source gives the
   borrowed byte back (whatever it was: the buffer may hold more than the pattern). *)
Definition rp_compare (old : bool) (d : hrpf) (id : N) (buf : list N) (strLen : N) : option (Z * list N) :=
  match nthN buf strLen with
  | None => None                                   (* str[strLen] is outside the buffer *)
  | Some borrowed =>                               (* uchar borrowed = str[strLen]; given back on leaving *)
      let qb := dh_setN buf strLen (hf_maxchar d) in
      match rpf_cmp_loop (hf_rules d) (hf_t d) (hf_cls d) qb (length (hf_rules d)) (length qb) (u32 id) 0 0 strLen 0%Z with
      | None => None
      | Some (cmp, early) => Some (cmp, if old && early then qb else dh_setN qb strLen (if old then 0 else borrowed))
      end
  end.

(* if (!b_ht->access(c)) return id;
   if (rp->extractStringAndCompareRP(hash->getValuePos(c), str, strLen) == 0) return hash->b_ht->rank1(c); *)
Definition hrf_probe (old : bool) (d : hrpf) (strLen : N) (buf : list N) (cell : N) : hd_pres * list N :=
  match nthN (hr_bits (hf_repr d)) cell with
  | None => (HOob, buf)
  | Some false => (HStop, buf)
  | Some true =>
      match hr_getValuePos (hf_repr d) cell with
      | None => (HOob, buf)
      | Some off =>
          match rp_compare old d off buf strLen with
          | None => (HOob, buf)
          | Some (z, buf') =>
              if (z =? 0)%Z then (HFound (dh_rank1 (hr_bits (hf_repr d)) cell), buf') else (HNext, buf')
          end
      end
  end.

(* unsigned long StringDictionaryHASHRPF::locate(uchar *str, uint strLen)
     if (memchr(str, rp->maxchar, strLen) != NULL) return id;        (guard, since d016144)
     <the shared probe loop>
   The pattern is the C buffer q ++ [0]; result = (answer, buffer when locate returns).
   guard = false: the source before d016144 (no terminator-byte guard);
   old = true: additionally the control flow before be64401 (sentinel not restored on the early return). *)
Definition hashrpf_locate_gen (guard old : bool) (d : hrpf) (hq : hkey) : option N * list N :=
  let buf := hk_key hq ++ [0] in
  let strLen := u32 (lenN (hk_key hq)) in
  if guard && existsb (N.eqb (hf_maxchar d)) (firstn (N.to_nat strLen) buf) then (Some 0, buf)
  else hd_locate (hrf_probe old d strLen) (hr_bits (hf_repr d)) buf (hk_h1 hq) (hk_h2 hq).
Definition hashrpf_locate := hashrpf_locate_gen true false.          (* the current source *)
Definition hashrpf_locate_old := hashrpf_locate_gen false false.     (* before d016144 *)
Definition hashrpf_locate_pinned := hashrpf_locate_gen false true.   (* before be64401 (the pinned tree) *)

(* uchar *StringDictionaryHASHRPF::extract(size_t id, uint *strLen):
     uint position = hash->getValue(id);  uint rule, ptr = 0;
     while (true) { rule = rp->Cls->getField(position + ptr); ptr++;
                    <expand rule into s + strLen[0]>;  if (s[strLen[0] - 1] == rp->maxchar) break; }
     strLen[0]--;  s[strLen[0]] = 0;
   [acc] = the bytes written so far.  Every round reads a new cell of Cls: [fuel] = length cls. *)
Fixpoint rpf_xloop (rules : list rule) (t maxchar : N) (cls : list N) (gfuel fuel : nat)
         (position ptr : N) (acc : list N) : option (list N) :=
  match fuel with
  | O => None
  | S f =>
      match nthN cls (u32 (position + ptr)) with
      | None => None
      | Some v =>
          match xsym rules t gfuel (u32 v) with
          | None => None
          | Some x =>
              let acc' := acc ++ x in
              if lenN acc' =? 0 then None            (* s[-1] *)
              else match nthN acc' (lenN acc' - 1) with
                   | None => None
                   | Some b => if b =? maxchar then Some acc'
                               else rpf_xloop rules t maxchar cls gfuel f position (u32 (ptr + 1)) acc'
                   end
          end
      end
  end.

(* None = memory error (bad read, or the expansion does not fit new uchar[maxlength + 1]); Some None = NULL *)
Definition hashrpf_extract (d : hrpf) (id : N) : option (option str) :=
  if (0 <? id) && (id <=? hf_elements d) then
    match hr_getValue (hf_repr d) id with
    | None => None
    | Some off =>
        match rpf_xloop (hf_rules d) (hf_t d) (hf_maxchar d) (hf_cls d) (length (hf_rules d)) (length (hf_cls d))
                        (u32 off) 0 [] with
        | None => None
        | Some w => if lenN w <=? hf_maxlength d + 1 then Some (Some (removelast w)) else None
        end
    end
  else Some None.

Definition hashrpf_table (d : hrpf) : option (list (option str)) :=
  hd_table_loop (hashrpf_extract d) (N.to_nat (hf_elements d)) 1 (hf_elements d).

(* StringDictionaryHASHRPF::load(in, technique) after save: everything but the hash class is the same *)
Definition hashrpf_load (d : hrpf) (opt : N) : option hrpf :=
  match hf_repr d with
  | RDh f =>
      match hr_load f (hf_elements d) opt with
      | Some r => Some (mk_hrpf r (hf_t d) (hf_maxchar d) (hf_rules d) (hf_cls d) (hf_elements d) (hf_maxlength d))
      | None => None
      end
  | _ => None
  end.

(* ======================================================================================== *)
(* boolean checkers run by the harness on the dumped real objects                            *)

Fixpoint bools_eqb (a b : list bool) : bool :=
  match a, b with
  | [], [] => true
  | x :: a', y :: b' => Bool.eqb x y && bools_eqb a' b'
  | _, _ => false
  end.

(* the dictionary's strings: non-empty, NUL-free, shorter than 2^32 *)
Definition hd_str_ok (s : str) : bool :=
  negb (match s with [] => true | _ => false end) && forallb (fun b => negb (b =? 0)) s && (lenN s <? 2 ^ 32).

(* [ks] = the strings in input order with their hash values (what the constructor inserts) *)
Definition hashrpdac_chk (d : hrpdac) (ks : list hkey) : bool :=
  let m := lenN (hd_bits d) in
  dh_build_ok m ks &&
  match dh_build m ks with
  | Some (t, _) =>
      bools_eqb (hd_bits d) (dh_bits_of t) && rpdac_checkb (hd_rp d) (dh_tdict t) &&
      forallb hd_str_ok (map hk_key ks) && (lenN ks <? 2 ^ 31) && (1 <=? lenN ks)
  | None => false
  end.

(* construction-time offset array recovered from the finished table (bitmap + array) *)
Fixpoint hd_ot (bits : list bool) (hash : list N) : dh_otable :=
  match bits, hash with
  | b :: bs, h :: hs => (if b then Some h else None) :: hd_ot bs hs
  | _, _ => []
  end.
Fixpoint hd_occ {A} (t : list (option A)) : list A :=
  match t with
  | [] => []
  | Some x :: r => x :: hd_occ r
  | None :: r => hd_occ r
  end.
Fixpoint hd_starts (base : N) (B : list (list N)) : list N :=
  match B with [] => [] | b :: r => base :: hd_starts (base + lenN b) r end.
(* cut Cls at the offsets (candidate segmentation; the checker verifies it) *)
Fixpoint hd_cut (cls : list N) (offs : list N) : list (list N) :=
  match offs with
  | [] => []
  | o :: r =>
      match r with
      | [] => [cls]
      | o2 :: _ => firstn (N.to_nat (o2 - o)) cls :: hd_cut (skipn (N.to_nat (o2 - o)) cls) r
      end
  end.

Definition hashrpf_chk (d : hrpf) (ks : list hkey) : bool :=
  match hf_repr d with
  | RDh f =>
      let m := lenN (ft_bits f) in
      dh_build_ok m ks &&
      match dh_build m ks with
      | Some (t, _) =>
          let td := dh_tdict t in
          let ot := hd_ot (ft_bits f) (ft_hash f) in
          let offs := hd_occ ot in
          let segs := hd_cut (hf_cls d) offs in
          bools_eqb (ft_bits f) (dh_bits_of t) &&
          bools_eqb (ft_bits (dh_finish ot)) (ft_bits f) && list_eqb (ft_hash (dh_finish ot)) (ft_hash f) &&
          list_eqb (concat segs) (hf_cls d) && list_eqb (hd_starts 0 segs) offs &&
          expands_to (hf_rules d) (hf_t d) segs (map (fun k => k ++ [hf_maxchar d]) td) &&
          (1 <=? hf_t d) && (hf_t d <=? 256) && rules_ok (hf_t d) (hf_rules d) &&
          (hf_t d + lenN (hf_rules d) <? 2 ^ 31) &&
          (1 <=? hf_maxchar d) && (hf_maxchar d <? hf_t d) &&
          forallb (fun k => negb (existsb (N.eqb (hf_maxchar d)) k)) (map hk_key ks) &&
          forallb hd_str_ok (map hk_key ks) && (lenN ks <? 2 ^ 31) && (1 <=? lenN ks) &&
          (hf_elements d =? lenN ks) && (hf_maxlength d =? spec_maxlen td + 1) && (hf_maxlength d <? 2 ^ 32) && (lenN (hf_cls d) <? 2 ^ 32)
      | None => false
      end
  | _ => false
  end.
