(* IteratorDictStringHTFC (model HTFCIterDefs.v) as extractTable / extractPrefix of StringDictionaryHTFC use it:
   on every object certified by the verified checkers the client loop receives exactly the requested strings,
   each with its true length, in ID order, hasNext() is false exactly after the last one, and the model's
   memory-error outcome [None] is unreachable.

   Flat view (as HTFCProofs.v): string number i (0-based) is the header of bucket i / b + 1 iff i mod b = 0;
   [St i] = ChunkScan state after the ITERATOR has produced string i.  [htfc_iter_check] certifies, by one pass
   with the iterator's own decodeHeader / decodeNextString and its 2 * maxlength + k scratch buffer, that
     header : decodeHeader started at blStrings[k] hands out the header, and (k > 1) the previous bucket's last
              string ended exactly at blStrings[k] (the iterator continues from chunk.b_ptr, it never looks
              blStrings[k] up again);
     step   : decodeNextString in state St (i-1) hands out string i and leaves St i.
   Proved here, for ANY start position / count the two callers pass: the constructor's skip loop, the
   pos % bucketsize header test on the never-reset counter, bucket++ / blStrings[bucket + 1], hasNext, the
   strncpy'd result and the reported length, the uint / size_t arithmetic of extractPrefix, and the composition
   with locatePrefix (HTFCProofs.htfc_locate_prefix_spec). *)
From LibCSD Require Import Base VByteDefs VByteProofs CodesDefs Spec SpecProofs PFCDefs PFCLayout LexLemmas
  PFCBuildProofs PFCExtractProofs PFCPrefixProofs HTFCDefs HTFCProofs IterDefs HTFCIterDefs.
From Coq Require Import Lia ZifyBool ZifyNat ZifyN.
Ltac Zify.zify_post_hook ::= Z.to_euclidean_division_equations.
Local Open Scope N_scope.

(* ====================================================================== *)
(* A. what the checker certifies                                           *)
(* ====================================================================== *)
Definition hit_item (d : htfc) (b i : N) (cur : str) (pst est : bst * ast) : Prop :=
  holds (snd est) cur /\ lenN cur + 2 < 2 ^ 32 /\
  if i mod b =? 0 then
    exists off, nthN (h_bl d) (i / b + 1) = Some off /\ (i = 0 \/ b_ptr (fst pst) = off) /\
                it_dh d (i / b + 1) off = Some est
  else it_dn d pst = Some est.

Lemma hitrace_from_sound d b : forall ss i pst tr,
  hitrace_from d b i pst ss = Some tr ->
  length tr = length ss /\
  forall j, (j < length ss)%nat ->
    hit_item d b (i + N.of_nat j) (nth j ss []) (nth j (pst :: tr) st0_dummy) (nth j tr st0_dummy).
Proof.
  induction ss as [|s r IH]; intros i pst tr H; cbn [hitrace_from] in H.
  - inversion H; subst. split; [reflexivity|]. intros j Hj. cbn [length] in Hj. lia.
  - match type of H with match ?X with _ => _ end = _ => destruct X as [st|] eqn:Est; [|discriminate] end.
    destruct (ast_is (snd st) s && (lenN s + 2 <? 2 ^ 32)) eqn:Ec; [|discriminate].
    apply andb_true_iff in Ec. destruct Ec as [Hast Hlen]. apply N.ltb_lt in Hlen. apply ast_is_sound in Hast.
    destruct (hitrace_from d b (i + 1) st r) as [tr'|] eqn:Et; [|discriminate].
    cbn [option_map] in H. inversion H; subst tr. destruct (IH _ _ _ Et) as [Hl Hit].
    split; [cbn [length]; lia|]. intros j Hj. destruct j as [|j].
    + cbn [nth]. rewrite N.add_0_r. unfold hit_item. split; [exact Hast|]. split; [exact Hlen|].
      destruct (i mod b =? 0).
      * rewrite rdN_nthN in Est. destruct (nthN (h_bl d) (i / b + 1)) as [off|] eqn:Eo; [|discriminate].
        destruct ((i =? 0) || (b_ptr (fst pst) =? off)) eqn:Ecn; [|discriminate].
        exists off. split; [reflexivity|]. split; [|exact Est].
        apply orb_true_iff in Ecn. destruct Ecn as [E0|E1]; [left; apply N.eqb_eq; exact E0|right; apply N.eqb_eq; exact E1].
      * exact Est.
    + cbn [length] in Hj. specialize (Hit j ltac:(lia)).
      replace (i + N.of_nat (Datatypes.S j)) with (i + 1 + N.of_nat j) by lia.
      change (nth (Datatypes.S j) (s :: r) []) with (nth j r []).
      change (nth (Datatypes.S j) (pst :: st :: tr') st0_dummy) with (nth j (st :: tr') st0_dummy).
      change (nth (Datatypes.S j) (st :: tr') st0_dummy) with (nth j tr' st0_dummy).
      exact Hit.
Qed.

(* ====================================================================== *)
(* B. arithmetic of the flat view                                          *)
(* ====================================================================== *)
Lemma succ_divmod i b : b <> 0 ->
  ((i + 1) mod b = 0 /\ (i + 1) / b = i / b + 1) \/
  ((i + 1) mod b = i mod b + 1 /\ (i + 1) / b = i / b).
Proof.
  intros Hb. pose proof (N.div_mod i b Hb) as Hd. pose proof (N.mod_lt i b Hb) as Hm.
  set (q := i / b) in *. set (r := i mod b) in *.
  destruct (N.eq_dec (r + 1) b) as [E|E].
  - left. assert (Hq : i + 1 = b * (q + 1) + 0) by nia.
    split.
    + symmetry. apply (N.mod_unique (i + 1) b (q + 1) 0); [lia|exact Hq].
    + symmetry. apply (N.div_unique (i + 1) b (q + 1) 0); [lia|exact Hq].
  - right. assert (Hq : i + 1 = b * q + (r + 1)) by lia.
    split.
    + symmetry. apply (N.mod_unique (i + 1) b q (r + 1)); [lia|exact Hq].
    + symmetry. apply (N.div_unique (i + 1) b q (r + 1)); [lia|exact Hq].
Qed.

Lemma sub_base_mod i q b : b <> 0 -> b * q <= i -> (i - b * q) mod b = i mod b.
Proof.
  intros Hb Hle. replace i with ((i - b * q) + q * b) at 2 by lia. rewrite N.mod_add by exact Hb. reflexivity.
Qed.

Lemma base_props i0 b : b <> 0 ->
  b * (i0 / b) <= i0 /\ (b * (i0 / b)) mod b = 0 /\ (b * (i0 / b)) / b = i0 / b /\ i0 - b * (i0 / b) = i0 mod b.
Proof.
  intros Hb. pose proof (N.div_mod i0 b Hb) as Hd. pose proof (N.mod_lt i0 b Hb) as Hm.
  split; [lia|]. split.
  - rewrite N.mul_comm. apply N.mod_mul. exact Hb.
  - split; [rewrite N.mul_comm; apply N.div_mul; exact Hb|lia].
Qed.

Lemma add_small_divmod base k b : b <> 0 -> base mod b = 0 -> k < b ->
  (base + k) mod b = k /\ (base + k) / b = base / b.
Proof.
  intros Hb H0 Hk. pose proof (N.div_mod base b Hb) as Hd. rewrite H0 in Hd.
  assert (Hq : base + k = b * (base / b) + k) by lia.
  split; symmetry; [apply (N.mod_unique _ b (base / b) k)|apply (N.div_unique _ b (base / b) k)]; auto.
Qed.

Lemma take0_holds a s : holds a s -> nul_free s -> take0 (firstN (a_len a) (a_buf a)) = Some s.
Proof.
  intros [Hl [_ [r Hb]]] Hnf. rewrite Hl, Hb.
  replace (s ++ 0 :: r) with ((s ++ [0]) ++ r) by (rewrite <- app_assoc; reflexivity).
  replace (lenN s + 1) with (lenN (s ++ [0])) by (rewrite lenN_app; reflexivity).
  rewrite firstN_app_exact. apply take0_app_nul_free. exact Hnf.
Qed.

Lemma skipn_snth (S : list str) i : (i < length S)%nat -> skipn i S = nth i S [] :: skipn (Datatypes.S i) S.
Proof.
  intros Hi. apply skipn_nth_error_cons. apply nth_error_nth'. exact Hi.
Qed.

(* ====================================================================== *)
(* C. the iterator along the certified stream                              *)
(* ====================================================================== *)
Section Iter.
  Variables (d : htfc) (b : N) (S : list str) (St : N -> bst * ast).
  Hypothesis Hbs : h_bsize d = b.
  Hypothesis Hb2 : 2 <= b.
  Hypothesis Hb32 : b < 2 ^ 32.
  Hypothesis Hn32 : lenN S < 2 ^ 32.
  Hypothesis Hnf : Forall nul_free S.
  Hypothesis Hitem : forall i, i < lenN S -> hit_item d b i (snth S i) (St (i - 1)) (St i).

  Let Hb0 : b <> 0. Proof. lia. Qed.

  (* the scan started at string i0 (base = first string of its bucket) and is about to deliver string i *)
  Definition hinv (i0 scan i : N) (it : hit) : Prop :=
    i_proc it = i - i0 /\ i_scan it = scan /\ i_pos it = i - b * (i0 / b) /\
    i_bucket it = (if i mod b =? 0 then i / b + 1 else i / b + 2) /\
    (if i mod b =? 0
     then i < lenN S -> exists off, nthN (h_bl d) (i / b + 1) = Some off /\ b_ptr (fst (i_st it)) = off
     else i_st it = St (i - 1)).

  Lemma snth_nul_free i : i < lenN S -> nul_free (snth S i).
  Proof.
    intros Hi. rewrite Forall_forall in Hnf. apply Hnf. unfold snth. apply nth_In. unfold lenN in Hi. lia.
  Qed.

  Lemma hit_next_step i0 scan i it : hinv i0 scan i it -> i0 <= i -> i < lenN S ->
    exists it', hit_next d it = Some ((snth S i, lenN (snth S i)), it') /\ hinv i0 scan (i + 1) it'.
  Proof.
    unfold hinv. intros (Hproc & Hscan & Hpos & Hbk & Hst) Hle Hi.
    destruct (base_props i0 b Hb0) as (Hbase & _ & _ & _).
    assert (Hposm : i_pos it mod b = i mod b) by (rewrite Hpos; apply sub_base_mod; [exact Hb0|lia]).
    destruct (Hitem i Hi) as (Hholds & Hl32 & Hcase).
    (* the state the decoding step leaves *)
    assert (Hdec : exists it1,
              (if i_pos it mod h_bsize d =? 0 then hit_decode_header d it else hit_decode_next d it) = Some it1 /\
              i_st it1 = St i /\ i_bucket it1 = i / b + 2 /\ i_pos it1 = i_pos it /\ i_proc it1 = i_proc it /\
              i_scan it1 = i_scan it).
    { rewrite Hbs, Hposm. destruct (i mod b =? 0) eqn:Em.
      - destruct (Hst Hi) as (off & Eo & Ep). destruct Hcase as (off' & Eo' & _ & Edh).
        rewrite Eo in Eo'. inversion Eo'; subst off'.
        unfold hit_decode_header. rewrite Hbk, Ep, Edh. eexists. split; [reflexivity|]. cbn [i_st i_bucket i_pos i_proc i_scan].
        split; [reflexivity|]. split; [|auto].
        assert (i / b <= i) by (apply N.div_le_upper_bound; [exact Hb0|nia]).
        unfold wrap64, sz64. rewrite N.mod_small; lia.
      - unfold hit_decode_next. rewrite Hst, Hcase. eexists. split; [reflexivity|]. cbn [i_st i_bucket i_pos i_proc i_scan].
        split; [reflexivity|]. split; [exact Hbk|auto]. }
    destruct Hdec as (it1 & E1 & Est & Ebk & Epos & Eproc & Escan).
    unfold hit_next. destruct (N.eqb_spec (h_bsize d) 0) as [E0|_]; [lia|].
    rewrite E1, Est.
    destruct Hholds as (Hlen & Hlt & r & Hbuf).
    clear Hposm E1. generalize dependent (b * (i0 / b)). intros base Hpos Hbase.
    destruct (N.eqb_spec (a_len (snd (St i))) (2 ^ 32 - 1)) as [Ebad|_]; [lia|].
    rewrite (take0_holds (snd (St i)) (snth S i)) by (try apply snth_nul_free; try exact Hi; repeat split; eauto).
    eexists. split.
    - rewrite Hlen. rewrite wsub32_small by lia. replace (lenN (snth S i) + 1 - 1) with (lenN (snth S i)) by lia. reflexivity.
    - cbn [i_proc i_scan i_pos i_bucket i_st]. rewrite Eproc, Escan, Epos, Ebk, Hproc, Hpos.
      split; [unfold wrap64, sz64; rewrite N.mod_small; lia|]. split; [exact Hscan|].
      split; [unfold wu32; rewrite N.mod_small; lia|].
      destruct (succ_divmod i b Hb0) as [[Em Ed]|[Em Ed]].
      + rewrite Em. cbn [N.eqb]. split; [lia|]. intros Hi1.
        destruct (Hitem (i + 1) Hi1) as (_ & _ & Hc1). rewrite Em in Hc1. cbn [N.eqb] in Hc1.
        destruct Hc1 as (off & Eo & [Ez|Ep] & _); [lia|]. exists off. split; [exact Eo|].
        replace (i + 1 - 1) with i in Ep by lia. exact Ep.
      + destruct (N.eqb_spec ((i + 1) mod b) 0) as [Ez|_]; [lia|]. split; [lia|].
        replace (i + 1 - 1) with i by lia. reflexivity.
  Qed.

  (* the client loop: the next m strings, then hasNext() = false *)
  Lemma hit_drain i0 scan : i0 + scan <= lenN S -> forall m i it fuel,
    hinv i0 scan i it -> i0 <= i -> i + N.of_nat m = i0 + scan -> (m < fuel)%nat ->
    exists it', drain_iter (hit_machine d) fuel it =
                Some (map (fun s => (s, lenN s)) (firstn m (skipn (N.to_nat i) S)), it') /\
                hit_has_next it' = false.
  Proof.
    intros Hsc. induction m as [|m IH]; intros i it fuel Hinv Hle Hm Hf.
    - destruct fuel as [|f]; [lia|]. cbn [drain_iter]. change (it_has_next (hit_machine d) it) with (hit_has_next it).
      destruct Hinv as (Hproc & Hscan & _).
      assert (Hhn : hit_has_next it = false) by (unfold hit_has_next; rewrite Hproc, Hscan; apply N.ltb_ge; lia).
      rewrite Hhn. exists it. split; [reflexivity|exact Hhn].
    - destruct fuel as [|f]; [lia|]. cbn [drain_iter]. change (it_has_next (hit_machine d) it) with (hit_has_next it).
      change (it_next (hit_machine d) it) with (hit_next d it).
      assert (Hi : i < lenN S) by lia.
      assert (Hhn : hit_has_next it = true).
      { destruct Hinv as (Hproc & Hscan & _). unfold hit_has_next. rewrite Hproc, Hscan. apply N.ltb_lt. lia. }
      rewrite Hhn. destruct (hit_next_step i0 scan i it Hinv Hle Hi) as (it1 & En & Hinv1). rewrite En.
      destruct (IH (i + 1) it1 f Hinv1 ltac:(lia) ltac:(lia) ltac:(lia)) as (it' & Ed & Hfin).
      rewrite Ed. exists it'. split; [|exact Hfin].
      rewrite (skipn_snth S (N.to_nat i)) by (unfold lenN in Hi; lia). cbn [firstn map]. unfold snth.
      replace (N.to_nat (i + 1)) with (Datatypes.S (N.to_nat i)) by lia. reflexivity.
  Qed.

  Lemma hit_run_spec i0 scan it cap : i0 + scan <= lenN S -> hinv i0 scan i0 it -> (N.to_nat scan < cap)%nat ->
    hit_run d cap it = Some (map (fun s => (s, lenN s)) (firstn (N.to_nat scan) (skipn (N.to_nat i0) S)), false).
  Proof.
    intros Hsc Hinv Hcap.
    destruct (hit_drain i0 scan Hsc (N.to_nat scan) i0 it cap Hinv ltac:(lia) ltac:(lia) Hcap) as (it' & Ed & Hfin).
    unfold hit_run, run_iter. rewrite Ed. cbn [hit_machine it_has_next]. rewrite Hfin. reflexivity.
  Qed.

  (* the constructor: IteratorDictStringHTFC(.., 1 + i0 / b, i0 mod b, bucketsize, scan, ..) *)
  Lemma hit_skip_iter B P scan base : base mod b = 0 -> forall k, k < b -> base + k < lenN S ->
    N.iter k (fun o => opt_bind o (hit_decode_next d)) (Some (mk_hit B P 0 scan (St base))) =
    Some (mk_hit B P 0 scan (St (base + k))).
  Proof.
    intros H0 k. induction k as [|k IH] using N.peano_ind; intros Hk Hlt.
    - cbn [N.iter]. rewrite N.add_0_r. reflexivity.
    - rewrite N.iter_succ, IH by lia. cbn [opt_bind]. unfold hit_decode_next. cbn [i_st i_bucket i_pos i_proc i_scan].
      destruct (Hitem (base + N.succ k) Hlt) as (_ & _ & Hc).
      destruct (add_small_divmod base (N.succ k) b Hb0 H0 Hk) as [Em _]. rewrite Em in Hc.
      destruct (N.eqb_spec (N.succ k) 0) as [Ez|_]; [lia|].
      replace (base + N.succ k - 1) with (base + k) in Hc by lia. rewrite Hc. reflexivity.
  Qed.

  Lemma hit_init_spec i0 scan : i0 < lenN S ->
    exists it, hit_init d (W32m (1 + i0 / b)) (W32m (i0 mod b)) scan = Some it /\ hinv i0 scan i0 it.
  Proof.
    intros Hi0. destruct (base_props i0 b Hb0) as (Hbase & Hbm & Hbd & Hsub).
    set (base := b * (i0 / b)) in *.
    pose proof (N.mod_lt i0 b Hb0) as Hmlt.
    assert (Hq : i0 / b <= i0) by (apply N.div_le_upper_bound; [exact Hb0|nia]).
    unfold W32m. rewrite (N.mod_small (1 + i0 / b)) by lia. rewrite (N.mod_small (i0 mod b)) by lia.
    destruct (Hitem base ltac:(lia)) as (_ & _ & Hc). rewrite Hbm in Hc. cbn [N.eqb] in Hc.
    destruct Hc as (off & Eo & _ & Edh). rewrite Hbd in Eo, Edh.
    unfold hit_init. rewrite rdN_nthN. replace (1 + i0 / b) with (i0 / b + 1) by lia. rewrite Eo.
    destruct (N.ltb_spec 0 (i0 mod b)) as [Hpos|Hz].
    - unfold hit_decode_header. cbn [i_bucket i_st i_pos i_proc i_scan fst b_ptr]. rewrite Edh.
      assert (Ew : wrap64 (i0 / b + 1 + 1) = i0 / b + 2) by (unfold wrap64, sz64; rewrite N.mod_small; lia).
      rewrite Ew.
      rewrite (hit_skip_iter (i0 / b + 2) (i0 mod b) scan base Hbm (i0 mod b - 1)) by lia.
      eexists. split; [reflexivity|]. unfold hinv. cbn [i_proc i_scan i_pos i_bucket i_st].
      destruct (N.eqb_spec (i0 mod b) 0) as [Ez|_]; [lia|].
      repeat split; try lia. f_equal. lia.
    - eexists. split; [reflexivity|]. unfold hinv. cbn [i_proc i_scan i_pos i_bucket i_st fst b_ptr].
      assert (Ez : i0 mod b = 0) by lia. rewrite Ez. cbn [N.eqb].
      repeat split; try lia. intros _. exists off. split; [exact Eo|reflexivity].
  Qed.

  (* any range of the table: start at string i0 (0-based), scan strings *)
  Lemma hit_range_spec i0 scan cap : 1 <= scan -> i0 + scan <= lenN S -> (N.to_nat scan < cap)%nat ->
    opt_bind (hit_init d (W32m (1 + i0 / b)) (W32m (i0 mod b)) scan) (hit_run d cap) =
    Some (map (fun s => (s, lenN s)) (firstn (N.to_nat scan) (skipn (N.to_nat i0) S)), false).
  Proof.
    intros Hs1 Hsc Hcap. destruct (hit_init_spec i0 scan ltac:(lia)) as (it & Ei & Hinv). rewrite Ei. cbn [opt_bind].
    apply (hit_run_spec i0 scan it cap Hsc Hinv Hcap).
  Qed.
End Iter.

(* ====================================================================== *)
(* D. soundness of the checker, the two theorems                           *)
(* ====================================================================== *)
Definition hiter_ok (d : htfc) (b : N) (S : list str) : Prop :=
  h_bsize d = b /\ 2 <= b /\ b < 2 ^ 32 /\ h_elements d = lenN S /\ lenN S < 2 ^ 32 /\
  exists St, forall i, i < lenN S -> hit_item d b i (snth S i) (St (i - 1)) (St i).

Lemma hit_item_first d b cur pst pst' e : hit_item d b 0 cur pst e -> hit_item d b 0 cur pst' e.
Proof.
  unfold hit_item. assert (E0 : 0 mod b = 0) by (destruct b; reflexivity). rewrite E0. cbn [N.eqb].
  intros (H1 & H2 & off & Eo & _ & Ed). split; [exact H1|]. split; [exact H2|].
  exists off. split; [exact Eo|]. split; [left; reflexivity|exact Ed].
Qed.

Theorem htfc_iter_check_sound S d : htfc_iter_check S d = true -> hiter_ok d (h_bsize d) S.
Proof.
  unfold htfc_iter_check. intros H.
  repeat (apply andb_true_iff in H; let H' := fresh "C" in destruct H as [H H']).
  destruct (hitrace_from d (h_bsize d) 0 st0_dummy S) as [tr|] eqn:Et; [|discriminate].
  apply N.leb_le in H. apply N.ltb_lt in C2, C0. apply N.eqb_eq in C1.
  split; [reflexivity|]. split; [exact H|]. split; [exact C2|]. split; [exact C1|]. split; [exact C0|].
  destruct (hitrace_from_sound _ _ _ _ _ _ Et) as [Hl Hit].
  exists (fun k => nth (N.to_nat k) tr st0_dummy). intros i Hi.
  specialize (Hit (N.to_nat i) ltac:(unfold lenN in Hi; lia)).
  rewrite N.add_0_l, N2Nat.id in Hit. fold (snth S i) in Hit.
  destruct (N.eq_dec i 0) as [->|Hne].
  - eapply hit_item_first. exact Hit.
  - replace (N.to_nat i) with (Datatypes.S (N.to_nat (i - 1))) in Hit at 1 by lia.
    cbn [nth] in Hit. exact Hit.
Qed.

Lemma firstn_all_len {A} (l : list A) : firstn (length l) l = l.
Proof. apply firstn_all. Qed.

Theorem htfc_extract_table_ok d b S cap : hiter_ok d b S -> S <> [] -> Forall nul_free S -> (length S < cap)%nat ->
  htfc_extract_table d cap = Some (Some (map (fun s => (s, lenN s)) S, false)).
Proof.
  intros (Hbs & Hb2 & Hb32 & Hel & Hn32 & St & Hitem) Hne Hnf Hcap.
  assert (Hn1 : 1 <= lenN S) by (destruct S; [congruence|rewrite lenN_cons; lia]).
  pose proof (hit_range_spec d b S St Hbs Hb2 Hb32 Hn32 Hnf Hitem 0 (lenN S) cap Hn1 ltac:(lia)
                ltac:(unfold lenN; lia)) as HR.
  assert (Hb0 : b <> 0) by lia.
  rewrite N.div_0_l, N.mod_0_l in HR by exact Hb0. change (W32m (1 + 0)) with 1 in HR. change (W32m 0) with 0 in HR.
  unfold htfc_extract_table. rewrite Hel.
  destruct (hit_init d 1 0 (lenN S)) as [it|]; [|discriminate]. cbn [opt_bind] in HR. rewrite HR. cbn [option_map].
  replace (N.to_nat (lenN S)) with (length S) by (unfold lenN; lia).
  change (N.to_nat 0) with 0%nat. cbn [skipn]. rewrite firstn_all. reflexivity.
Qed.

Theorem htfc_extract_prefix_ok d b S p cap : hiter_ok d b S -> S <> [] -> Forall nul_free S -> sorted_lt S ->
  htfc_locate_prefix d p = Some (range_of (spec_prefix_ids S p)) -> (length S < cap)%nat ->
  htfc_extract_prefix d p cap =
  Some (match spec_prefix_strs S p with [] => None | l => Some (map (fun s => (s, lenN s)) l, false) end).
Proof.
  intros (Hbs & Hb2 & Hb32 & Hel & Hn32 & St & Hitem) Hne Hnf Hsort Hloc Hcap.
  unfold htfc_extract_prefix. rewrite Hloc.
  destruct (prefix_answer S p Hsort) as (A & M & B & E & _ & Es & Er).
  rewrite Er, Es. destruct M as [|m0 M']; [reflexivity|].
  destruct (N.eqb_spec (1 + lenN A) 0) as [|_]; [lia|].
  rewrite Hbs. destruct (N.eqb_spec b 0) as [|_]; [lia|].
  assert (Hlen : lenN S = lenN A + (1 + lenN M') + lenN B) by (rewrite E, !lenN_app, lenN_cons; lia).
  assert (Hscan : wrap64 (sub_sz (1 + lenN A + lenN M') (1 + lenN A) + 1) = lenN (m0 :: M')).
  { rewrite lenN_cons. unfold wrap64, sub_sz, sz64.
    replace (1 + lenN A + lenN M' + 18446744073709551616 - (1 + lenN A)) with (lenN M' + 1 * 18446744073709551616) by lia.
    rewrite N.mod_add by lia. rewrite (N.mod_small (lenN M')) by lia. rewrite N.mod_small; lia. }
  rewrite Hscan. replace (1 + lenN A - 1) with (lenN A) by lia.
  pose proof (hit_range_spec d b S St Hbs Hb2 Hb32 Hn32 Hnf Hitem (lenN A) (lenN (m0 :: M')) cap
                ltac:(rewrite lenN_cons; lia) ltac:(rewrite lenN_cons; lia)
                ltac:(rewrite lenN_cons; unfold lenN in *; lia)) as HR.
  destruct (hit_init d (W32m (1 + lenN A / b)) (W32m (lenN A mod b)) (lenN (m0 :: M'))) as [it|]; [|discriminate].
  cbn [opt_bind] in HR. rewrite HR. cbn [option_map]. do 3 f_equal.
  change (skipn (N.to_nat (lenN A)) S) with (skipN (lenN A) S).
  change (firstn (N.to_nat (lenN (m0 :: M'))) (skipN (lenN A) S)) with (firstN (lenN (m0 :: M')) (skipN (lenN A) S)).
  rewrite E, skipN_app_exact, firstN_app_exact. reflexivity.
Qed.

Theorem htfc_extract_table_spec S d : valid_set S -> htfc_iter_check S d = true ->
  htfc_extract_table d (3 + length S) = Some (Some (map (fun s => (s, lenN s)) S, false)).
Proof.
  intros HV HC. destruct (valid_set_facts S HV) as (Hne & Hnf & _).
  apply (htfc_extract_table_ok d (h_bsize d) S); auto. apply htfc_iter_check_sound. exact HC. lia.
Qed.

Theorem htfc_extract_prefix_spec S d : valid_set S -> htfc_check S d = true \/ htfc_check2 S d = true ->
  htfc_iter_check S d = true -> forall p, nul_free p -> Forall (fun c => c < 256) p ->
  htfc_extract_prefix d p (3 + length S) =
  Some (match spec_prefix_strs S p with [] => None | l => Some (map (fun s => (s, lenN s)) l, false) end).
Proof.
  intros HV HC HI p Hp Hp2. destruct (valid_set_facts S HV) as (Hne & Hnf & Hsort).
  apply (htfc_extract_prefix_ok d (h_bsize d) S); auto.
  - apply htfc_iter_check_sound. exact HI.
  - apply (htfc_locate_prefix_spec S d HV HC p Hp Hp2).
  - lia.
Qed.

(* no out-of-bounds read, no NULL table iterator, NULL prefix iterator exactly when nobody has the prefix *)
Theorem htfc_iter_no_oob S d : valid_set S -> htfc_check S d = true \/ htfc_check2 S d = true ->
  htfc_iter_check S d = true ->
  htfc_extract_table d (3 + length S) <> None /\ htfc_extract_table d (3 + length S) <> Some None /\
  forall p, nul_free p -> Forall (fun c => c < 256) p ->
    htfc_extract_prefix d p (3 + length S) <> None /\
    (htfc_extract_prefix d p (3 + length S) = Some None <-> forall s, In s S -> is_prefix p s = false).
Proof.
  intros HV HC HI. rewrite (htfc_extract_table_spec S d HV HI). split; [discriminate|]. split; [discriminate|].
  intros p Hp Hp2. rewrite (htfc_extract_prefix_spec S d HV HC HI p Hp Hp2). split; [discriminate|].
  rewrite <- (proj2 (prefix_none_iff S p)). destruct (spec_prefix_strs S p); split; intros H; try reflexivity; discriminate.
Qed.

(* ====================================================================== *)
(* E. a successful run never writes above the final length of the buffer   *)
(* ====================================================================== *)
Lemma buf_write_inv buf cap i v buf' : buf_write buf cap i v = Some buf' ->
  lenN buf <= lenN buf' /\ i < lenN buf' /\
  forall cap', lenN buf' <= cap' -> buf_write buf cap' i v = Some buf'.
Proof.
  unfold buf_write. destruct (N.ltb_spec i cap) as [Hc|]; [|discriminate].
  destruct (N.ltb_spec i (lenN buf)) as [Hlt|Hge].
  - intros H; inversion H; subst.
    assert (L : lenN (set_nth buf (N.to_nat i) v) = lenN buf) by (unfold lenN; rewrite set_nth_length; reflexivity).
    rewrite L. split; [lia|]. split; [lia|]. intros cap' Hc'. destruct (N.ltb_spec i cap'); [reflexivity|lia].
  - destruct (N.eqb_spec i (lenN buf)) as [E|]; [|discriminate]. intros H; inversion H; subst.
    rewrite lenN_app. change (lenN [v]) with 1. split; [lia|]. split; [lia|]. intros cap' Hc'.
    destruct (N.ltb_spec (lenN buf) cap'); [reflexivity|lia].
Qed.

Lemma buf_write_list_inv : forall l buf cap i buf', buf_write_list buf cap i l = Some buf' ->
  lenN buf <= lenN buf' /\ (l <> [] -> i + lenN l <= lenN buf') /\
  forall cap', lenN buf' <= cap' -> buf_write_list buf cap' i l = Some buf'.
Proof.
  induction l as [|v l IH]; intros buf cap i buf' H; cbn [buf_write_list] in H.
  - inversion H; subst. split; [lia|]. split; [congruence|]. intros; reflexivity.
  - destruct (buf_write buf cap i v) as [buf1|] eqn:E1; [|discriminate].
    destruct (buf_write_inv _ _ _ _ _ E1) as (L1 & L2 & D1).
    destruct (IH _ _ _ _ H) as (L3 & L4 & D2).
    split; [lia|]. split.
    + intros _. rewrite lenN_cons. destruct l as [|w l]; [change (lenN (@nil N)) with 0; lia|].
      specialize (L4 ltac:(discriminate)). lia.
    + intros cap' Hc'. cbn [buf_write_list]. rewrite (D1 cap') by lia. apply D2. exact Hc'.
Qed.

Lemma buf_copy_f_inv : forall f n buf cap src dst buf', buf_copy_f f n buf cap src dst = Some buf' ->
  lenN buf <= lenN buf' /\ (n <> 0 -> dst + n <= lenN buf') /\
  forall cap' f', lenN buf' <= cap' -> (N.to_nat n <= f')%nat -> buf_copy_f f' n buf cap' src dst = Some buf'.
Proof.
  induction f as [|f IH]; intros n buf cap src dst buf' H.
  - cbn [buf_copy_f] in H. destruct (N.eqb_spec n 0) as [->|]; [|discriminate]. inversion H; subst.
    split; [lia|]. split; [congruence|]. intros cap' f' _ _. destruct f'; reflexivity.
  - cbn [buf_copy_f] in H. destruct (N.eqb_spec n 0) as [->|Hn].
    + inversion H; subst. split; [lia|]. split; [congruence|]. intros cap' f' _ _. destruct f'; reflexivity.
    + destruct (rdN buf src) as [v|] eqn:Ev; [|discriminate].
      destruct (buf_write buf cap dst v) as [buf1|] eqn:E1; [|discriminate].
      destruct (buf_write_inv _ _ _ _ _ E1) as (L1 & L2 & D1).
      destruct (IH _ _ _ _ _ _ H) as (L3 & L4 & D2).
      split; [lia|]. split.
      * intros _. destruct (N.eq_dec (n - 1) 0) as [E0|E0]; [lia|]. specialize (L4 E0). lia.
      * intros cap' f' Hc' Hf'. destruct f' as [|f']; [lia|]. cbn [buf_copy_f].
        destruct (N.eqb_spec n 0); [lia|]. rewrite Ev, (D1 cap') by lia. apply D2; [exact Hc'|lia].
Qed.

Lemma buf_copy_inv n buf cap src dst buf' : buf_copy n buf cap src dst = Some buf' ->
  lenN buf <= lenN buf' /\ forall cap', lenN buf' <= cap' -> buf_copy n buf cap' src dst = Some buf'.
Proof.
  unfold buf_copy. intros H. destruct (buf_copy_f_inv _ _ _ _ _ _ _ H) as (L1 & L2 & D).
  split; [exact L1|]. intros cap' Hc'. apply D; [exact Hc'|].
  destruct (N.eq_dec n 0) as [->|Hn]; [lia|]. specialize (L2 Hn). lia.
Qed.

(* ---- one chunk *)
Lemma take_syms_nonempty n l syms : take_syms n l = Some syms -> n <> 0%nat -> syms <> [].
Proof.
  destruct n as [|n]; [congruence|]. intros H _. cbn [take_syms] in H. destruct l as [|x r]; [discriminate|].
  destruct (take_syms n r); [|discriminate]. cbn [option_map] in H. inversion H; subst. discriminate.
Qed.

Lemma bstep_creg_nonempty d b pos syms e b' : bstep d b = Some (CReg pos syms e, b') -> syms <> [].
Proof.
  unfold bstep. destruct (fill_chunk _ _ _ b) as [b1|]; [|discriminate]. unfold chunk_lookup.
  destruct (c_valid b1 <? h_k d); [discriminate|].
  destruct (rdN (h_stream d) _) as [code|]; [|discriminate].
  destruct (ventry code) as [[len bits]|]; [|discriminate].
  destruct (N.eqb_spec len 0) as [E0|E0]; cbn [negb].
  - destruct (_ <=? _); [|discriminate]. destruct (vb_decode _) as [[idTree u]|]; [|discriminate].
    destruct (rdN (h_trees d) idTree) as [tree|]; [|discriminate]. destruct (rdN tree 0) as [root|]; [|discriminate].
    destruct (tree_descend _ _ _ _ _) as [[sym b2]|]; discriminate.
  - destruct (take_syms (N.to_nat len) _) as [s|] eqn:Et; [|discriminate]. intros H. inversion H; subst.
    apply (take_syms_nonempty _ _ _ Et). lia.
Qed.

Lemma asm_step_inv d cap e a a' fin : asm_step d cap e a = Some (a', fin) ->
  lenN (a_buf a) <= lenN (a_buf a') /\
  (forall cap', lenN (a_buf a') <= cap' -> asm_step d cap' e a = Some (a', fin)) /\
  (fin = false -> match e with CReg _ syms _ => syms <> [] | CTree _ => True end -> lenN (a_buf a') < 2 ^ 32 ->
   a_len a < a_len a' /\ a_len a' <= lenN (a_buf a')).
Proof.
  destruct e as [pos syms ending|sym]; cbn [asm_step].
  - destruct (buf_write_list (a_buf a) cap (a_len a) syms) as [buf'|] eqn:Ew; [|discriminate].
    destruct (buf_write_list_inv _ _ _ _ _ Ew) as (L1 & L2 & D).
    assert (Hprog : forall x : N, syms <> [] -> lenN buf' < 2 ^ 32 ->
                      a_len a < wu32 (a_len a + lenN syms) /\ wu32 (a_len a + lenN syms) <= lenN buf').
    { intros _ Hs Hb. specialize (L2 Hs). unfold wu32. rewrite N.mod_small by lia.
      destruct syms; [congruence|]. rewrite lenN_cons in *. lia. }
    destruct (wu32 (a_ext a + lenN syms) <=? 2).
    + intros H; inversion H; subst. cbn [a_buf a_len]. split; [exact L1|]. split.
      * intros cap' Hc'. rewrite (D cap' Hc'). reflexivity.
      * intros _ Hs Hb. apply (Hprog 0 Hs Hb).
    + destruct ending.
      * destruct (buf_strlen (h_stream d) pos) as [sl|]; [|discriminate].
        intros H; inversion H; subst. cbn [a_buf a_len]. split; [exact L1|]. split.
        -- intros cap' Hc'. rewrite (D cap' Hc'). reflexivity.
        -- discriminate.
      * intros H; inversion H; subst. cbn [a_buf a_len]. split; [exact L1|]. split.
        -- intros cap' Hc'. rewrite (D cap' Hc'). reflexivity.
        -- intros _ Hs Hb. apply (Hprog 0 Hs Hb).
  - destruct (buf_write (a_buf a) cap (a_len a) (Z.to_N (sym mod 256))) as [buf'|] eqn:Ew; [|discriminate].
    destruct (buf_write_inv _ _ _ _ _ Ew) as (L1 & L2 & D).
    intros H; inversion H; subst. cbn [a_buf a_len]. split; [exact L1|]. split.
    + intros cap' Hc'. rewrite (D cap' Hc'). reflexivity.
    + intros _ _ Hb. unfold wu32. rewrite N.mod_small by lia. lia.
Qed.

Lemma process_chunk_inv d cap b a b' a' fin : process_chunk d cap b a = Some (b', a', fin) ->
  lenN (a_buf a) <= lenN (a_buf a') /\
  (forall cap', lenN (a_buf a') <= cap' -> process_chunk d cap' b a = Some (b', a', fin)) /\
  (fin = false -> lenN (a_buf a') < 2 ^ 32 -> a_len a < a_len a' /\ a_len a' <= lenN (a_buf a')).
Proof.
  unfold process_chunk. destruct (bstep d b) as [[e b2]|] eqn:Eb; [|discriminate].
  destruct (asm_step d cap e a) as [[a1 f1]|] eqn:Ea; [|discriminate]. intros H; inversion H; subst.
  destruct (asm_step_inv _ _ _ _ _ _ Ea) as (L & D & P). split; [exact L|]. split.
  - intros cap' Hc'. rewrite (D cap' Hc'). reflexivity.
  - intros Hf Hb. apply P; auto. destruct e; [|exact I]. apply (bstep_creg_nonempty _ _ _ _ _ _ Eb).
Qed.

(* ---- the loops *)
Lemma ds_first_inv d cap prevLen : forall f b a fin b1 a1 fin1,
  ds_first f d cap prevLen b a fin = Some (b1, a1, fin1) ->
  lenN (a_buf a) <= lenN (a_buf a1) /\
  forall cap', lenN (a_buf a1) <= cap' -> ds_first f d cap' prevLen b a fin = Some (b1, a1, fin1).
Proof.
  induction f as [|f IH]; intros b a fin b1 a1 fin1 H.
  - cbn [ds_first] in *. destruct (wsub32 (a_len a) prevLen <? 2); [discriminate|]. inversion H; subst.
    split; [lia|]. intros; reflexivity.
  - cbn [ds_first] in *. destruct (wsub32 (a_len a) prevLen <? 2).
    + destruct (process_chunk d cap b a) as [[[b' a'] fin']|] eqn:Ep; [|discriminate].
      destruct (process_chunk_inv _ _ _ _ _ _ _ Ep) as (L & D & _).
      destruct (IH _ _ _ _ _ _ H) as (L2 & D2). split; [lia|].
      intros cap' Hc'. rewrite (D cap') by lia. apply D2. exact Hc'.
    + inversion H; subst. split; [lia|]. intros; reflexivity.
Qed.

Lemma ds_rest_inv d cap : forall f b a fin b2 a2,
  ds_rest f d cap b a fin = Some (b2, a2) ->
  lenN (a_buf a) <= lenN (a_buf a2) /\
  forall cap' f', lenN (a_buf a2) <= cap' -> cap' < 2 ^ 32 -> (N.to_nat (cap' - a_len a) < f')%nat ->
    ds_rest f' d cap' b a fin = Some (b2, a2).
Proof.
  induction f as [|f IH]; intros b a fin b2 a2 H.
  - cbn [ds_rest] in *. destruct fin; [|discriminate]. inversion H; subst. split; [lia|].
    intros cap' f' _ _ _. destruct f'; reflexivity.
  - cbn [ds_rest] in *. destruct fin.
    + inversion H; subst. split; [lia|]. intros cap' f' _ _ _. destruct f'; reflexivity.
    + destruct (process_chunk d cap b a) as [[[b' a'] fin']|] eqn:Ep; [|discriminate].
      destruct (process_chunk_inv _ _ _ _ _ _ _ Ep) as (L & D & P).
      destruct (IH _ _ _ _ _ H) as (L2 & D2). split; [lia|].
      intros cap' f' Hc' H32 Hf'. destruct f' as [|f']; [lia|]. cbn [ds_rest]. rewrite (D cap') by lia.
      destruct fin'.
      * cbn [ds_rest] in H. destruct f; cbn [ds_rest] in H; inversion H; subst; destruct f'; reflexivity.
      * apply D2; [exact Hc'|exact H32|]. destruct (P eq_refl ltac:(lia)) as [P1 P2]. lia.
Qed.

Lemma dh_loop_inv d cap : forall f b a plen pvalid pptr r,
  dh_loop f d cap b a plen pvalid pptr = Some r ->
  lenN (a_buf a) <= lenN (a_buf (snd (fst (fst (fst r))))) /\
  forall cap' f', lenN (a_buf (snd (fst (fst (fst r))))) <= cap' -> cap' < 2 ^ 32 -> (N.to_nat (cap' - a_len a) < f')%nat ->
    dh_loop f' d cap' b a plen pvalid pptr = Some r.
Proof.
  induction f as [|f IH]; intros b a plen pvalid pptr r H; [discriminate|].
  cbn [dh_loop] in H. destruct (process_chunk d cap b a) as [[[b' a'] fin']|] eqn:Ep; [|discriminate].
  destruct (process_chunk_inv _ _ _ _ _ _ _ Ep) as (L & D & P).
  destruct fin'.
  - inversion H; subst. cbn [fst snd]. split; [exact L|]. intros cap' f' Hc' _ Hf'.
    destruct f' as [|f']; [lia|]. cbn [dh_loop]. rewrite (D cap' Hc'). reflexivity.
  - destruct (IH _ _ _ _ _ _ H) as (L2 & D2). split; [lia|].
    intros cap' f' Hc' H32 Hf'. destruct f' as [|f']; [lia|]. cbn [dh_loop]. rewrite (D cap') by lia.
    apply D2; [exact Hc'|exact H32|]. destruct (P eq_refl ltac:(lia)) as [P1 P2]. lia.
Qed.

(* ---- decodeString *)
Lemma ds_main_inv d cap prevLen b a b2 a2 sh : ds_main d cap prevLen b a = Some (b2, a2, sh) ->
  lenN (a_buf a) <= lenN (a_buf a2) /\
  forall cap', lenN (a_buf a2) <= cap' -> cap' < 2 ^ 32 -> ds_main d cap' prevLen b a = Some (b2, a2, sh).
Proof.
  unfold ds_main. cbv zeta. destruct (ds_first 3 d cap prevLen b a false) as [[[b1 a1] fin]|] eqn:E1; [|discriminate].
  destruct (ds_first_inv _ _ _ _ _ _ _ _ _ _ E1) as (L1 & D1).
  destruct (prevLen <=? lenN (a_buf a1)) eqn:Q1; [|discriminate].
  destruct (vb_decode (skipN prevLen (a_buf a1))) as [[shared read]|] eqn:Q2; [|discriminate].
  destruct (buf_copy (wsub32 (a_len a1) prevLen - read) (a_buf a1) cap (prevLen + read) shared) as [buf2|] eqn:E2; [|discriminate].
  destruct (buf_copy_inv _ _ _ _ _ _ E2) as (L2 & D2).
  set (len2 := wu32 (shared + (wsub32 (a_len a1) prevLen - read))).
  destruct (if fin && (0 <? a_adv a1) then buf_copy (a_adv a1) buf2 cap (prevLen + wsub32 (a_len a1) prevLen) len2 else Some buf2)
    as [buf3|] eqn:E3; [|discriminate].
  assert (H3 : lenN buf2 <= lenN buf3 /\ forall cap', lenN buf3 <= cap' ->
             (if fin && (0 <? a_adv a1) then buf_copy (a_adv a1) buf2 cap' (prevLen + wsub32 (a_len a1) prevLen) len2 else Some buf2) = Some buf3).
  { destruct (fin && (0 <? a_adv a1)).
    - exact (buf_copy_inv _ _ _ _ _ _ E3).
    - inversion E3; subst. split; [lia|]. intros; reflexivity. }
  destruct H3 as (L3 & D3).
  destruct (ds_rest (S (N.to_nat cap)) d cap b1 {| a_buf := buf3; a_len := len2; a_adv := a_adv a1; a_ext := a_ext a1 |} fin)
    as [[b2' a2']|] eqn:E4; [|discriminate].
  destruct (ds_rest_inv _ _ _ _ _ _ _ _ E4) as (L4 & D4). cbn [a_buf a_len] in L4, D4.
  intros H; inversion H; subst b2' a2' shared. split; [lia|]. intros cap' Hc' H32.
  rewrite (D1 cap') by lia. rewrite Q1, Q2. rewrite (D2 cap') by lia. fold len2. rewrite (D3 cap') by lia.
  rewrite (D4 cap' (S (N.to_nat cap'))) by (try assumption; lia). reflexivity.
Qed.

Theorem decode_string_cap d cap b a b' a' sh : decode_string d cap b a = Some (b', a', sh) ->
  lenN (a_buf a) <= lenN (a_buf a') /\
  forall cap', lenN (a_buf a') <= cap' -> cap' < 2 ^ 32 -> decode_string d cap' b a = Some (b', a', sh).
Proof.
  unfold decode_string. cbv zeta. destruct (negb (a_adv a =? 0)).
  - destruct (buf_write (a_buf a) cap (a_len a + a_adv a) 0) as [buf1|] eqn:E1; [|discriminate].
    destruct (buf_write_inv _ _ _ _ _ E1) as (L1 & _ & D1).
    destruct (buf_strlen buf1 (a_len a)) as [nextLen|] eqn:Q1; [|discriminate].
    destruct ((nextLen <? a_adv a) && (0 <? nextLen)) eqn:Q2.
    + destruct (vb_decode (skipN (a_len a) buf1)) as [[shared used]|] eqn:Q3; [|discriminate].
      destruct (buf_copy (a_len a + nextLen + 1 - (a_len a + used)) buf1 cap (a_len a + used) shared) as [buf2|] eqn:E2; [|discriminate].
      destruct (buf_copy_inv _ _ _ _ _ _ E2) as (L2 & D2).
      destruct (negb (nextLen + 1 =? a_adv a)) eqn:Q4.
      * match goal with |- match ?X with _ => _ end = _ -> _ => destruct X as [buf3|] eqn:E3; [|discriminate] end.
        destruct (buf_copy_inv _ _ _ _ _ _ E3) as (L3 & D3).
        intros H; inversion H; subst. cbn [a_buf]. split; [lia|]. intros cap' Hc' _.
        rewrite (D1 cap') by lia. rewrite Q1, Q2, Q3. rewrite (D2 cap') by lia. rewrite Q4. rewrite (D3 cap') by lia. reflexivity.
      * intros H; inversion H; subst. cbn [a_buf]. split; [lia|]. intros cap' Hc' _.
        rewrite (D1 cap') by lia. rewrite Q1, Q2, Q3. rewrite (D2 cap') by lia. rewrite Q4. reflexivity.
    + intros H. destruct (ds_main_inv _ _ _ _ _ _ _ _ H) as (L2 & D2). cbn [a_buf] in L2.
      split; [lia|]. intros cap' Hc' H32. rewrite (D1 cap') by lia. rewrite Q1, Q2. apply D2; assumption.
  - intros H. destruct (ds_main_inv _ _ _ _ _ _ _ _ H) as (L2 & D2). cbn [a_buf] in L2.
    split; [lia|]. intros cap' Hc' H32. apply D2; assumption.
Qed.

(* ====================================================================== *)
(* F. the dictionary's certificate + two cheap checks certify the iterator  *)
(* ====================================================================== *)
(* equal up to ChunkScan::extracted (decodeString overwrites it first thing) *)
Definition ext_eq (x y : bst * ast) : Prop :=
  fst x = fst y /\ a_buf (snd x) = a_buf (snd y) /\ a_len (snd x) = a_len (snd y) /\ a_adv (snd x) = a_adv (snd y).

Lemma ext_eq_refl x : ext_eq x x.
Proof. repeat split. Qed.

Lemma decode_string_ext d cap x y : ext_eq x y ->
  decode_string d cap (fst x) (snd x) = decode_string d cap (fst y) (snd y).
Proof.
  destruct x as [bx [b1 l1 v1 e1]], y as [by_ [b2 l2 v2 e2]]. unfold ext_eq. cbn [fst snd a_buf a_len a_adv].
  intros (-> & -> & -> & ->). reflexivity.
Qed.

Lemma it_cap_lt d : it_cap d < 2 ^ 32.
Proof. unfold it_cap, wu32. apply N.mod_lt. discriminate. Qed.

Lemma it_dh_of_decode_header d k off st0 st1 :
  nthN (h_bl d) k = Some off -> decode_header d k = Some st0 -> reset_scan d k st0 = Some st1 ->
  lenN (a_buf (snd st0)) <= it_cap d -> k + 1 < 2 ^ 64 ->
  exists st1', it_dh d k off = Some st1' /\ ext_eq st1 st1' /\
               a_buf (snd st1') = a_buf (snd st0) /\ a_len (snd st1') = a_len (snd st0).
Proof.
  intros Eo Eh Er Hcap Hk. unfold decode_header in Eh. rewrite rdN_nthN, Eo in Eh.
  match type of Eh with match ?X with _ => _ end = _ => destruct X as [[[[[b a] plen] pvalid] pptr]|] eqn:El; [|discriminate] end.
  destruct (dh_loop_inv _ _ _ _ _ _ _ _ _ El) as (_ & D). cbn [fst snd a_len] in D.
  destruct ((plen <=? a_len a) && (a_len a <=? lenN (a_buf a))) eqn:Q1; [|discriminate].
  destruct (sum_bits (h_cw d) (firstN (a_len a - plen) (skipN plen (a_buf a)))) as [bits|] eqn:Q2; [|discriminate].
  cbv zeta in Eh.
  set (cv := zu16 (8 * (Z.of_N (b_ptr b) - Z.of_N pptr) - Z.of_N (wu32 bits) + Z.of_N pvalid)) in *.
  destruct (cv / 8 <=? b_ptr b) eqn:Q3; [|discriminate]. inversion Eh; subst st0. clear Eh. cbn [snd a_buf] in Hcap.
  unfold reset_scan in Er. rewrite rdN_nthN in Er. destruct (nthN (h_bl d) (k + 1)) as [nxt|] eqn:En; [|discriminate].
  inversion Er; subst st1. clear Er. cbn [b_ptr].
  unfold it_dh. cbv zeta.
  rewrite (D (it_cap d) (S (N.to_nat (it_cap d))) Hcap (it_cap_lt d) ltac:(lia)).
  rewrite Q1, Q2. fold cv. rewrite Q3.
  assert (Ew : wrap64 (k + 1) = k + 1) by (unfold wrap64, sz64; apply N.mod_small; exact Hk).
  rewrite Ew, rdN_nthN, En. eexists. split; [reflexivity|]. cbn [snd fst a_buf a_len a_adv]. repeat split.
Qed.

Lemma ast_is_ext a a' s : a_buf a' = a_buf a -> a_len a' = a_len a -> ast_is a s = true -> ast_is a' s = true.
Proof. unfold ast_is. intros -> ->. auto. Qed.

Lemma hitrace_of_htrace d b : forall ss i prev pst pst' tr, i + lenN ss < 2 ^ 32 ->
  htrace_from d b i prev pst ss = Some tr -> hsmall_from d b i pst ss tr = true -> ext_eq pst pst' ->
  exists tr', hitrace_from d b i pst' ss = Some tr'.
Proof.
  induction ss as [|s r IH]; intros i prev pst pst' tr Hi Ht Hs Hx; [exists []; reflexivity|].
  rewrite lenN_cons in Hi. cbn [htrace_from] in Ht. cbn [hitrace_from].
  destruct (i mod b =? 0) eqn:Em.
  - rewrite rdN_nthN in Ht. destruct (nthN (h_bl d) (i / b + 1)) as [off|] eqn:Eo; [|discriminate].
    destruct (pack_string (h_cw d) (s ++ [0])) as [[enc o]|]; [|discriminate].
    destruct (decode_header d (i / b + 1)) as [st0|] eqn:Eh; [|discriminate].
    destruct (reset_scan d (i / b + 1) st0) as [st1|] eqn:Er; [|discriminate].
    match type of Ht with (if ?c then _ else _) = _ => destruct c eqn:Ec; [|discriminate] end.
    apply andb_true_iff in Ec. destruct Ec as [_ Hast].
    destruct (htrace_from d b (i + 1) s st1 r) as [tr1|] eqn:Et; [|discriminate]. cbn [option_map] in Ht.
    inversion Ht; subst tr. clear Ht. cbn [hsmall_from] in Hs.
    apply andb_true_iff in Hs. destruct Hs as [Hs Hrest]. apply andb_true_iff in Hs. destruct Hs as [Hs Hcont].
    apply andb_true_iff in Hs. destruct Hs as [Hcap Hlen]. apply N.leb_le in Hcap.
    assert (Hbuf0 : a_buf (snd st1) = a_buf (snd st0)).
    { unfold reset_scan in Er. destruct st0 as [b0 a0]. destruct (rdN (h_bl d) (i / b + 1 + 1)); [|discriminate].
      inversion Er; subst. reflexivity. }
    rewrite Hbuf0 in Hcap.
    assert (Hq : i / b <= i) by (destruct (N.eq_dec b 0) as [->|Hb0]; [destruct i; cbn; lia|apply N.div_le_upper_bound; [exact Hb0|nia]]).
    destruct (it_dh_of_decode_header d (i / b + 1) off st0 st1 Eo Eh Er Hcap ltac:(lia)) as (st1' & Ed & Hx1 & Hb1 & Hl1).
    rewrite rdN_nthN, Eo.
    assert (Hc : (i =? 0) || (b_ptr (fst pst') =? off) = true).
    { destruct (N.eqb_spec i 0) as [|Hne]; [reflexivity|]. cbn [orb]. rewrite Em in Hcont. cbn [negb andb] in Hcont.
      rewrite rdN_nthN, Eo in Hcont. destruct Hx as [<- _]. exact Hcont. }
    rewrite Hc, Ed. rewrite (ast_is_ext (snd st0) (snd st1') s Hb1 Hl1 Hast), Hlen. cbn [andb].
    destruct (IH (i + 1) s st1 st1' tr1 ltac:(lia) Et Hrest Hx1) as (tr' & E'). rewrite E'. eexists. reflexivity.
  - destruct (decode_string d (str_cap d) (fst pst) (snd pst)) as [[[b' a'] shared]|] eqn:Ed; [|discriminate].
    match type of Ht with (if ?c then _ else _) = _ => destruct c eqn:Ec; [|discriminate] end.
    apply andb_true_iff in Ec. destruct Ec as [_ Hast].
    destruct (htrace_from d b (i + 1) s (b', a') r) as [tr1|] eqn:Et; [|discriminate]. cbn [option_map] in Ht.
    inversion Ht; subst tr. clear Ht. cbn [hsmall_from] in Hs.
    apply andb_true_iff in Hs. destruct Hs as [Hs Hrest]. apply andb_true_iff in Hs. destruct Hs as [Hs _].
    apply andb_true_iff in Hs. destruct Hs as [Hcap Hlen]. apply N.leb_le in Hcap. cbn [snd] in Hcap.
    destruct (decode_string_cap _ _ _ _ _ _ _ Ed) as (_ & D).
    specialize (D (it_cap d) Hcap (it_cap_lt d)). rewrite (decode_string_ext d (it_cap d) pst pst' Hx) in D.
    unfold it_dn. rewrite D. cbn [snd]. rewrite Hast, Hlen. cbn [andb].
    destruct (IH (i + 1) s (b', a') (b', a') tr1 ltac:(lia) Et Hrest (ext_eq_refl _)) as (tr' & E'). rewrite E'.
    eexists. reflexivity.
Qed.

Theorem htfc_iter_check_of_check S d : htfc_check S d = true -> htfc_iter_small S d = true -> htfc_iter_check S d = true.
Proof.
  unfold htfc_check, htfc_iter_small, htfc_iter_check. intros H Hs.
  repeat (apply andb_true_iff in H; let H' := fresh "C" in destruct H as [H H']).
  destruct (htrace_from d (h_bsize d) 0 [] st0_dummy S) as [tr|] eqn:Et; [|discriminate].
  rewrite H, C6, C5, C4. cbn [andb]. apply N.ltb_lt in C4.
  destruct (hitrace_of_htrace d (h_bsize d) S 0 [] st0_dummy st0_dummy tr ltac:(lia) Et Hs (ext_eq_refl _)) as (tr' & E').
  rewrite E'. reflexivity.
Qed.

(* the two theorems for objects certified by the dictionary's checker + the cheap checks *)
Theorem htfc_extract_table_spec_small S d : valid_set S -> htfc_check S d = true -> htfc_iter_small S d = true ->
  htfc_extract_table d (3 + length S) = Some (Some (map (fun s => (s, lenN s)) S, false)).
Proof. intros HV HC HS. apply (htfc_extract_table_spec S d HV). apply htfc_iter_check_of_check; assumption. Qed.

Theorem htfc_extract_prefix_spec_small S d : valid_set S -> htfc_check S d = true -> htfc_iter_small S d = true ->
  forall p, nul_free p -> Forall (fun c => c < 256) p ->
  htfc_extract_prefix d p (3 + length S) =
  Some (match spec_prefix_strs S p with [] => None | l => Some (map (fun s => (s, lenN s)) l, false) end).
Proof.
  intros HV HC HS. apply (htfc_extract_prefix_spec S d HV (or_introl HC)). apply htfc_iter_check_of_check; assumption.
Qed.

(* ====================================================================== *)
(* G. the extra hypothesis cannot be dropped                               *)
(* ====================================================================== *)
(* [htfc_check] / [htfc_check2] alone do NOT make the iterator right: the dictionary's own queries look blStrings[k] up
   at every bucket, the iterator continues from where the previous bucket's decoding stopped.  The object below is the
   real dump hx_usa_d with three zero bytes inserted in front of bucket 2 and blStrings[2..] shifted by 3: both checkers
   certify it (extract / locate / locatePrefix answer as the specification says, HTFCProofs), but extractTable runs
   into an unpopulated table entry and extractPrefix("a") hands out "" (reported length 1) instead of "arkansas".
   Replayed on the real code (wip/htfcit/replay.py: `htfc_qi gap 2 3`): same answers, extractTable crashes. *)
Definition hx_gap_d : htfc :=
  {| h_elements := h_elements hx_usa_d; h_maxlength := h_maxlength hx_usa_d; h_maxcomplength := h_maxcomplength hx_usa_d;
     h_buckets := h_buckets hx_usa_d; h_bsize := h_bsize hx_usa_d;
     h_text := firstn 17 (h_text hx_usa_d) ++ [0; 0; 0] ++ skipn 17 (h_text hx_usa_d);
     h_bl := [0; 0; 20; 44; 63];
     h_cw := h_cw hx_usa_d; h_k := h_k hx_usa_d; h_stream := h_stream hx_usa_d; h_tab := h_tab hx_usa_d;
     h_endings := h_endings hx_usa_d; h_trees := h_trees hx_usa_d |}.

Theorem htfc_iter_check_needed :
  valid_set_b hx_usa_S = true /\ htfc_check hx_usa_S hx_gap_d = true /\ htfc_check2 hx_usa_S hx_gap_d = true /\
  htfc_iter_check hx_usa_S hx_gap_d = false /\ htfc_iter_small hx_usa_S hx_gap_d = false /\
  htfc_extract_table hx_gap_d (3 + length hx_usa_S) = None /\
  spec_prefix_strs hx_usa_S [97] =
    [[97; 108; 97; 98; 97; 109; 97]; [97; 108; 97; 115; 107; 97]; [97; 114; 105; 122; 111; 110; 97]; [97; 114; 107; 97; 110; 115; 97; 115]] /\
  htfc_extract_prefix hx_gap_d [97] (3 + length hx_usa_S) =
    Some (Some ([([97; 108; 97; 98; 97; 109; 97], 7); ([97; 108; 97; 115; 107; 97], 6); ([97; 114; 105; 122; 111; 110; 97], 7); ([], 1)], false)).
Proof. vm_compute. repeat split; reflexivity. Qed.
