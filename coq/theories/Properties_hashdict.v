(* hashdict: exported theorems (HASHRPDAC / HASHRPF at dictionary level, HASHRPDACBlocks over real parts).
   Only `exact` of lemmas of HashDictProofs.v, Print Assumptions, and Examples on dictionaries the REAL code built. *)
From LibCSD Require Import Base Spec SpecProofs PFCLayout RePairDefs RPDACDefs HashDefs HashProofs IterDefs IterProofs
  HashDictDefs HashDictProofs.
From Coq Require Import Permutation.
Local Open Scope N_scope.

(* ---- HASHRPDAC ------------------------------------------------------------------------------------------ *)
Theorem C01_hashrpdac_locate_spec d ks : hashrpdac_chk d ks = true ->
  (forall hk, In hk ks ->
     exists id, hashrpdac_locate d hk = Some id /\ 1 <= id <= lenN ks /\ hashrpdac_extract d id = Some (Some (hk_key hk))) /\
  (forall hq, nul_free (hk_key hq) -> lenN (hk_key hq) < 2 ^ 32 -> hk_h1 hq < lenN (hd_bits d) ->
     ~ In (hk_key hq) (map hk_key ks) -> hashrpdac_locate d hq = Some 0) /\
  (forall id, 1 <= id <= lenN ks ->
     exists hk, In hk ks /\ hashrpdac_extract d id = Some (Some (hk_key hk)) /\ hashrpdac_locate d hk = Some id) /\
  (forall hk hk' id, In hk ks -> In hk' ks -> hashrpdac_locate d hk = Some id -> hashrpdac_locate d hk' = Some id ->
     hk_key hk = hk_key hk').
Proof. exact (hashrpdac_locate_spec d ks). Qed.
Print Assumptions C01_hashrpdac_locate_spec.

Theorem C02_hashrpdac_extract_spec d ks : hashrpdac_chk d ks = true ->
  forall id, ~ (1 <= id <= lenN ks) -> hashrpdac_extract d id = Some None.
Proof. exact (hashrpdac_extract_spec d ks). Qed.
Print Assumptions C02_hashrpdac_extract_spec.

Theorem C13_hashrpdac_table_spec d ks : hashrpdac_chk d ks = true ->
  exists l, hashrpdac_table d = Some l /\ lenN l = lenN ks /\
            forall id, 1 <= id <= lenN ks -> hashrpdac_extract d id = nthN l (id - 1).
Proof. exact (hashrpdac_table_spec d ks). Qed.
Print Assumptions C13_hashrpdac_table_spec.

(* the same three at once: the dictionary answers by the specification over an ID-ordered view T of the key set *)
Theorem C01_hashrpdac_spec d ks : hashrpdac_chk d ks = true ->
  exists T, answers_by T ks (hrd_query_ok d) (hashrpdac_locate d) (hashrpdac_extract d) (hashrpdac_table d).
Proof. exact (hashrpdac_spec d ks). Qed.
Print Assumptions C01_hashrpdac_spec.

(* ---- HASHRPF (all three load options) -------------------------------------------------------------------- *)
Theorem C01_hashrpf_locate_spec d ks opt d' : hashrpf_chk d ks = true -> 1 <= opt <= 3 -> hashrpf_load d opt = Some d' ->
  (forall hk, In hk ks ->
     exists id, fst (hashrpf_locate d' hk) = Some id /\ 1 <= id <= lenN ks /\ hashrpf_extract d' id = Some (Some (hk_key hk))) /\
  (forall hq, lenN (hk_key hq) + 1 < 2 ^ 32 -> hk_h1 hq < lenN (hr_bits (hf_repr d')) ->
     ~ In (hk_key hq) (map hk_key ks) -> fst (hashrpf_locate d' hq) = Some 0) /\
  (forall id, 1 <= id <= lenN ks ->
     exists hk, In hk ks /\ hashrpf_extract d' id = Some (Some (hk_key hk)) /\ fst (hashrpf_locate d' hk) = Some id) /\
  (forall hk hk' id, In hk ks -> In hk' ks -> fst (hashrpf_locate d' hk) = Some id -> fst (hashrpf_locate d' hk') = Some id ->
     hk_key hk = hk_key hk').
Proof. exact (hashrpf_locate_spec d ks opt d'). Qed.
Print Assumptions C01_hashrpf_locate_spec.

Theorem C02_hashrpf_extract_spec d ks opt d' : hashrpf_chk d ks = true -> 1 <= opt <= 3 -> hashrpf_load d opt = Some d' ->
  forall id, ~ (1 <= id <= lenN ks) -> hashrpf_extract d' id = Some None.
Proof. exact (hashrpf_extract_spec d ks opt d'). Qed.
Print Assumptions C02_hashrpf_extract_spec.

Theorem C13_hashrpf_table_spec d ks opt d' : hashrpf_chk d ks = true -> 1 <= opt <= 3 -> hashrpf_load d opt = Some d' ->
  exists l, hashrpf_table d' = Some l /\ lenN l = lenN ks /\
            forall id, 1 <= id <= lenN ks -> hashrpf_extract d' id = nthN l (id - 1).
Proof. exact (hashrpf_table_spec d ks opt d'). Qed.
Print Assumptions C13_hashrpf_table_spec.

Theorem C01_hashrpf_spec d ks : hashrpf_chk d ks = true ->
  exists T, forall opt, 1 <= opt <= 3 ->
    exists d', hashrpf_load d opt = Some d' /\
      answers_by T ks (hrf_query_ok d') (fun hq => fst (hashrpf_locate d' hq)) (hashrpf_extract d') (hashrpf_table d').
Proof. exact (hashrpf_spec d ks). Qed.
Print Assumptions C01_hashrpf_spec.

Theorem C12_hashrpf_load_options_agree d ks : hashrpf_chk d ks = true ->
  exists d1 d2 d3, hashrpf_load d 1 = Some d1 /\ hashrpf_load d 2 = Some d2 /\ hashrpf_load d 3 = Some d3 /\
    (forall id, hashrpf_extract d1 id = hashrpf_extract d2 id /\ hashrpf_extract d2 id = hashrpf_extract d3 id) /\
    hashrpf_table d1 = hashrpf_table d2 /\ hashrpf_table d2 = hashrpf_table d3 /\
    (forall hk, In hk ks -> hashrpf_locate d1 hk = hashrpf_locate d2 hk /\ hashrpf_locate d2 hk = hashrpf_locate d3 hk).
Proof. exact (hashrpf_load_options_agree d ks). Qed.
Print Assumptions C12_hashrpf_load_options_agree.

(* C14: the pattern buffer (an explicit value of the model) is intact after every locate *)
Theorem C14_hashrpf_pattern_intact d ks opt d' hq : hashrpf_chk d ks = true -> 1 <= opt <= 3 -> hashrpf_load d opt = Some d' ->
  lenN (hk_key hq) + 1 < 2 ^ 32 -> snd (hashrpf_locate d' hq) = hk_key hq ++ [0].
Proof. exact (hashrpf_pattern_intact d ks opt d' hq). Qed.
Print Assumptions C14_hashrpf_pattern_intact.

Theorem C14_rp_compare_restores d ks t ot segs c k q : hashrpf_wf d ks t ot segs ->
  nthN t c = Some (Some k) -> ~ In (hf_maxchar d) q -> lenN q + 1 < 2 ^ 32 ->
  exists o z, hr_getValuePos (hf_repr d) c = Some o /\
    rp_compare false d o (q ++ [0]) (lenN q) = Some (z, q ++ [0]) /\ (z = 0%Z <-> k = q).
Proof. intros Hwf. exact (rp_compare_restores d ks t ot segs Hwf c k q). Qed.
Print Assumptions C14_rp_compare_restores.

(* regressions *)
Theorem C14_hashrpf_pattern_old_refuted :
  exists d ks hq, hashrpf_chk d ks = true /\ nul_free (hk_key hq) /\ lenN (hk_key hq) + 1 < 2 ^ 32 /\
    snd (hashrpf_locate_pinned d hq) <> hk_key hq ++ [0] /\ snd (hashrpf_locate d hq) = hk_key hq ++ [0].
Proof. exact hashrpf_pattern_old_refuted. Qed.
Print Assumptions C14_hashrpf_pattern_old_refuted.

Theorem C02_hashrpf_locate_maxchar_refuted :
  exists d ks hq, hashrpf_chk d ks = true /\ nul_free (hk_key hq) /\ lenN (hk_key hq) + 1 < 2 ^ 32 /\
    hk_h1 hq < lenN (hr_bits (hf_repr d)) /\ ~ In (hk_key hq) (map hk_key ks) /\
    fst (hashrpf_locate_old d hq) = Some 2 /\ fst (hashrpf_locate d hq) = Some 0.
Proof. exact hashrpf_locate_maxchar_refuted. Qed.
Print Assumptions C02_hashrpf_locate_maxchar_refuted.

(* ---- HASHRPDACBlocks over real parts ---------------------------------------------------------------------- *)
Theorem C01_blocks_parts_ok p : hblock_ok p -> part_ok hb_loc hb_ext hb_blk hb_cont p.
Proof. exact (blocks_parts_ok p). Qed.
Print Assumptions C01_blocks_parts_ok.

Theorem C01_hashrpdac_blocks_spec (parts : list hblock) :
  Forall hblock_ok parts -> parts <> [] ->
  sorted_lt (concat (map hb_blk parts)) -> lenN (concat (map hb_blk parts)) + 1 < sz64 ->
  let dct := bdict_of hb_blk parts in
  let view := ids_view hb_cont parts in
  (forall q, nul_free q -> lenN q < 2 ^ 32 -> blocks_locate hb_loc_real dct q = Some (spec_locate view q)) /\
  (forall id, id < sz64 -> blocks_extract hb_ext dct id = Some (spec_extract view id)) /\
  iter_denotes (table_iter hb_ext dct) table_init (map Some view) /\
  Permutation view (concat (map hb_blk parts)).
Proof. exact (hashrpdac_blocks_spec parts). Qed.
Print Assumptions C01_hashrpdac_blocks_spec.

(* ---- Examples: the hypotheses hold on what the REAL code built for S = {ab, abab, ababab, ababc, abc, c},
        overhead 10 (tsize 7; hash values = the repo's bitwisehash / step_value) ---------------------------- *)
Definition ex_keys : list hkey :=
  [mkHKey [97;98] 1 5; mkHKey [97;98;97;98] 2 3; mkHKey [97;98;97;98;97;98] 6 1; mkHKey [97;98;97;98;99] 5 2;
   mkHKey [97;98;99] 3 1; mkHKey [99] 6 4].
Definition ex_bits := [true; true; true; true; false; true; true].
Definition ex_dac : hrpdac :=
  mk_hrpdac ex_bits {| d_t := 100; d_rules := [(97, 98); (100, 100)];
                       d_seqs := [[99]; [100]; [101]; [100; 99]; [101; 99]; [101; 100]]; d_elements := 6; d_maxlength := 7 |}.
Definition ex_rpf6 : hrpf :=
  mk_hrpf (RDh (mkFT ex_bits [0; 1; 2; 4; 0; 6; 8])) 101 100 [(97, 98); (101, 101); (99, 100); (101, 100)]
          [103; 104; 102; 100; 101; 103; 102; 103; 102; 104] 6 7.

Example ex_hashrpdac_chk : hashrpdac_chk ex_dac ex_keys = true. Proof. vm_compute. reflexivity. Qed.
Example ex_hashrpdac_locate : hashrpdac_locate ex_dac (mkHKey [97;98;97;98] 2 3) = Some 3 /\
                              hashrpdac_extract ex_dac 3 = Some (Some [97;98;97;98]) /\
                              hashrpdac_locate ex_dac (mkHKey [97;98;97] 1 2) = Some 0 /\
                              hashrpdac_extract ex_dac 7 = Some None.
Proof. vm_compute. repeat split. Qed.
Example ex_hashrpdac_table : hashrpdac_table ex_dac =
  Some [Some [99]; Some [97;98]; Some [97;98;97;98]; Some [97;98;99]; Some [97;98;97;98;99]; Some [97;98;97;98;97;98]].
Proof. vm_compute. reflexivity. Qed.

Example ex_hashrpf_chk : hashrpf_chk ex_rpf6 ex_keys = true. Proof. vm_compute. reflexivity. Qed.
Example ex_hashrpf_locate : forall d', In (Some d') [hashrpf_load ex_rpf6 1; hashrpf_load ex_rpf6 2; hashrpf_load ex_rpf6 3] ->
  hashrpf_locate d' (mkHKey [97;98;97;98] 2 3) = (Some 3, [97;98;97;98;0]) /\
  hashrpf_extract d' 3 = Some (Some [97;98;97;98]) /\
  hashrpf_locate d' (mkHKey [97;98;100] 4 5) = (Some 0, [97;98;100;0]) /\      (* contains maxchar = 100: guard *)
  hashrpf_extract d' 0 = Some None.
Proof. intros d' [H|[H|[H|[]]]]; vm_compute in H; inversion H; subst d'; vm_compute; repeat split. Qed.
Example ex_hashrpf_compact : exists c o, option_map hf_repr (hashrpf_load ex_rpf6 2) = Some (RB ex_bits c) /\ c = [0; 1; 2; 4; 6; 8] /\
  option_map hf_repr (hashrpf_load ex_rpf6 3) = Some (RBB ex_bits o) /\
  o = [true; true; true; false; true; false; true; false; true].
Proof. eexists _, _. vm_compute. repeat split. Qed.

(* a one-part block dictionary over the same set: the hash function of the part is data *)
Definition ex_hash (q : str) : N * N :=
  match find (fun hk => hbytes_eqb (hk_key hk) q) ex_keys with Some hk => (hk_h1 hk, hk_h2 hk) | None => (0, 1) end.
Example ex_hblock_ok : hblock_ok (mk_hblock ex_dac ex_keys ex_hash).
Proof.
  split; [vm_compute; reflexivity|]. split.
  - intros hk Hin. cbn [hb_hash hb_keys] in *. repeat (destruct Hin as [<-|Hin]; [vm_compute; reflexivity|]). destruct Hin.
  - intros q. cbn [hb_hash hb_dict]. unfold ex_hash. destruct (find _ ex_keys) as [hk|] eqn:E; [|vm_compute; reflexivity].
    apply find_some in E. destruct E as [Hin _]. repeat (destruct Hin as [<-|Hin]; [vm_compute; reflexivity|]). destruct Hin.
Qed.
