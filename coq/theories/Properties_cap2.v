(* C07 - capacity accounting of every Reallocate site other than the PFC constructor (Capacity2Defs.v / Capacity2Proofs.v)
   and of the hand-sized scratch buffers.  The expressions the theorems speak about are compared with the current source
   text by /verif/wip/cap2/cap2_checks.py on every run. *)
From LibCSD Require Import Base VByteDefs Spec SpecProofs PFCDefs PFCLayout CapacityDefs CapacityProofs Capacity2Defs Capacity2Proofs.
Local Open Scope N_scope.

(* ---- 0. encodeSymbol (StatCoder, RPFC, RPHTFC): bytes returned, new bit offset, whether text[0 .. bytes] is touched *)
Theorem C07_cap2_encode_symbol : forall bits off, bits <= 32 -> off <= 7 ->
  enc_sym bits off = ((off + bits) / 8, (off + bits) mod 8, 0 <? bits).
Proof. exact enc_sym_spec. Qed.
Print Assumptions C07_cap2_encode_symbol.
Example C07_cap2_encode_symbol_ex : enc_sym 17 5 = (2, 6, true) /\ enc_sym 32 0 = (4, 0, true) /\ enc_sym 3 2 = (0, 5, true).
Proof. vm_compute. repeat split; reflexivity. Qed.

Theorem C07_cap2_encode_symbols : forall l c off hi, off <= 7 -> Forall (fun b => b <= 32) l ->
  enc_syms (c, off, hi) l =
  (c + (off + sumN l) / 8, (off + sumN l) mod 8, if 0 <? sumN l then N.max hi (c + (off + sumN l) / 8 + 1) else hi).
Proof. exact enc_syms_spec. Qed.
Print Assumptions C07_cap2_encode_symbols.
Example C07_cap2_encode_symbols_ex : enc_syms (100, 3, 0) [17; 4; 9; 32; 2] = (108, 3, 109).
Proof. vm_compute. reflexivity. Qed.

(* ---- 1. rpdict (RPFC / RPHTFC): `ptrpdict + (size_t)bucketsize * (maxlength + 6) > reservedInts` *)
Theorem C07_cap2_rpdict_ok : forall b0 S, S <> [] -> Forall nul_free S -> spec_maxlen S + 7 < 2 ^ 32 ->
  rp_ctor_in_bounds chk_rp b0 S = true.
Proof. exact rp_ok_strings. Qed.
Print Assumptions C07_cap2_rpdict_ok.
Example C07_cap2_rpdict_ok_ex :
  let S := [[97]; [97; 98]; [97; 98; 99]; [98]; [98; 98; 98; 98; 98; 98; 98]; [99; 100]] in
  S <> [] /\ Forall nul_free S /\ spec_maxlen S + 7 < 2 ^ 32 /\
  rp_run (chk_rp 4 8) (6, 0) (rp_buckets 4 S) = [(96, 12); (96, 17)].
Proof.
  cbv zeta. split; [discriminate|]. split; [repeat constructor; discriminate|].
  split; [vm_compute; reflexivity|vm_compute; reflexivity].
Qed.

Theorem C07_cap2_rpdict_buckets_ok : forall b maxlen R0 bks, 1 <= R0 -> maxlen + 6 < 2 ^ 32 ->
  Forall (rp_bucket_ok b maxlen) bks -> rp_safe (chk_rp b maxlen) R0 bks = true.
Proof. exact rp_ok. Qed.
Print Assumptions C07_cap2_rpdict_buckets_ok.
Example C07_cap2_rpdict_buckets_ok_ex : Forall (rp_bucket_ok 3 4) [(3, [128; 98; 0; 129; 99; 100; 0]); (14, [128; 0])].
Proof. repeat constructor; vm_compute; discriminate. Qed.

Theorem C07_cap2_rpdict_old_refuted :
  let S := map (fun i => [97 + N.of_nat i]) (seq 0 16) in
  valid_set_b S = true /\ rp_ctor_in_bounds chk_rp_old 8 S = false /\ rp_ctor_in_bounds chk_rp 8 S = true /\
  rp_run (chk_rp_old 8 2) (16, 0) (rp_buckets 8 S) = [(16, 28); (64, 56)].
Proof. exact rp_old_refuted. Qed.
Print Assumptions C07_cap2_rpdict_old_refuted.

(* ---- 2. compressed text of RPFC / RPHTFC: `required` of commit b947f63 *)
Theorem C07_cap2_rpfc_text_ok : forall bitsrp R0 bks, bitsrp <= 32 -> 1 <= R0 -> rt_safe (chk_rpfc bitsrp) bitsrp R0 bks = true.
Proof. exact rt_ok_rpfc. Qed.
Print Assumptions C07_cap2_rpfc_text_ok.
Example C07_cap2_rpfc_text_ok_ex :
  rt_run (chk_rpfc 9) 9 (16, 0) [(3, 5); (2, 0); (7, 8); (4, 1)] = [(16, 9); (16, 12); (32, 28); (64, 33)].
Proof. vm_compute. reflexivity. Qed.

Theorem C07_cap2_rphtfc_text_ok : forall bitsrp maxlen R0 bks, bitsrp <= 32 -> 1 <= R0 -> Forall (rt_hdr_ok maxlen) bks ->
  rt_safe (chk_rphtfc bitsrp maxlen) bitsrp R0 bks = true.
Proof. exact rt_ok_rphtfc. Qed.
Print Assumptions C07_cap2_rphtfc_text_ok.

Theorem C07_cap2_rphtfc_header_ok : forall bl maxlen h, Forall (fun k => k <= 32) bl -> lenN h + 1 <= maxlen ->
  rt_hdr_ok maxlen (fst (tmp_encode (map (sym_bits bl) (h ++ [0]))), 0).
Proof. exact rphtfc_header_ok. Qed.
Print Assumptions C07_cap2_rphtfc_header_ok.
Example C07_cap2_rphtfc_text_ok_ex :
  Forall (fun k => k <= 32) ht_witness_table /\
  tmp_encode (map (sym_bits ht_witness_table) ([105; 110; 40] ++ [0])) = (5, 5) /\
  Forall (rt_hdr_ok 4) [(5, 7); (2, 0)] /\ rt_safe (chk_rphtfc 11 4) 11 32 [(5, 7); (2, 0)] = true.
Proof.
  split; [apply ht_witness_table_ok|]. split; [vm_compute; reflexivity|].
  split; [repeat constructor; vm_compute; discriminate|vm_compute; reflexivity].
Qed.

Theorem C07_cap2_rptext_old_refuted :
  let bks := repeat (3001, 3002) 30 in
  rt_safe (chk_rt_old 2) 9 65536 bks = false /\ rt_safe (chk_rpfc 9) 9 65536 bks = true /\
  nth 20 (rt_run (chk_rt_old 2) 9 (65536, 0) bks) (0, 0) = (131072, 133959).
Proof. exact rt_old_refuted. Qed.
Print Assumptions C07_cap2_rptext_old_refuted.

(* ---- 3. HTFC / HHTFC: `bytesStrings + 4 * (size_t)maxlength + 6 > reservedStrings` *)
Theorem C07_cap2_htfc_ok : forall memalloc blh bli b0 S,
  Forall (fun k => k <= 32) blh -> Forall (fun k => k <= 32) bli -> 1 <= (memalloc * clamp_bsize b0) mod 2 ^ 32 ->
  ht_ctor_in_bounds chk_ht memalloc blh bli b0 S = true.
Proof. exact ht_ok_strings. Qed.
Print Assumptions C07_cap2_htfc_ok.
Example C07_cap2_htfc_ok_ex :
  Forall (fun k => k <= 32) ht_witness_table /\ 1 <= (16 * clamp_bsize 2) mod 2 ^ 32 /\
  ht_run (chk_ht 256) (32, 0, 0) (ht_items ht_witness_table ht_witness_table 2 [[105; 110]; ht_witness_W; [113]]) =
    [(2048, 4); (2048, 566); (2048, 567)].
Proof. split; [apply ht_witness_table_ok|]. split; [vm_compute; discriminate|vm_compute; reflexivity]. Qed.

Theorem C07_cap2_htfc_items_ok : forall maxlen R0 items, 1 <= R0 -> Forall (ht_item_ok maxlen) items ->
  ht_safe (chk_ht maxlen) R0 items = true.
Proof. exact ht_ok. Qed.
Print Assumptions C07_cap2_htfc_items_ok.
Example C07_cap2_htfc_items_ok_ex : Forall (ht_item_ok 3) [([32; 32; 32], true, false, true); ([32; 32; 32; 32], false, true, true)].
Proof. repeat constructor; vm_compute; discriminate. Qed.

Theorem C07_cap2_htfc_plus2_ok : forall memalloc blh bli b0 S,
  Forall (fun k => k <= 32) blh -> Forall (fun k => k <= 32) bli -> sym_bits bli 0 + sym_bits bli 128 <= 33 ->
  1 <= (memalloc * clamp_bsize b0) mod 2 ^ 32 ->
  ht_ctor_in_bounds chk_ht2 memalloc blh bli b0 S = true.
Proof. exact ht2_ok_strings. Qed.
Print Assumptions C07_cap2_htfc_plus2_ok.
Example C07_cap2_htfc_plus2_ok_ex : sym_bits ht_witness_table 0 + sym_bits ht_witness_table 128 <= 33.
Proof. vm_compute. discriminate. Qed.

Theorem C07_cap2_htfc_plus2_slack_necessary :
  let items := [([32; 32; 32], false, true, true)] in
  ht_item_ok 2 (hd ([], false, false, false) items) /\
  ht_safe (chk_ht2 2) 10 items = false /\ ht_safe (chk_ht 2) 10 items = true /\
  ht_run (chk_ht2 2) (10, 0, 0) items = [(10, 13)].
Proof. exact ht2_slack_necessary. Qed.
Print Assumptions C07_cap2_htfc_plus2_slack_necessary.

Theorem C07_cap2_htfc_old_partial : forall maxlen R0 items, maxlen < 2 ^ 31 -> 1 <= R0 ->
  Forall (ht_item_ok_old maxlen) items -> ht_safe (chk_ht_old maxlen) R0 items = true.
Proof. exact ht_old_ok_if. Qed.
Print Assumptions C07_cap2_htfc_old_partial.
Example C07_cap2_htfc_old_partial_ex : Forall (ht_item_ok_old 3) [([5; 9; 4], true, false, true); ([11; 7; 7; 4], false, true, true)].
Proof. repeat constructor; vm_compute; discriminate. Qed.

Theorem C07_cap2_htfc_old_refuted_strings : forall rest, spec_maxlen (ht_witness_W :: rest) = 255 ->
  ht_ctor_in_bounds chk_ht_old 16 ht_witness_table ht_witness_table 2 (ht_witness_W :: rest) = false.
Proof. exact ht_old_refuted_strings. Qed.
Print Assumptions C07_cap2_htfc_old_refuted_strings.
Example C07_cap2_htfc_old_refuted_strings_ex :
  code_table_ok ht_witness_table = true /\ valid_set_b [ht_witness_W; [101; 113]] = true /\
  spec_maxlen (ht_witness_W :: [[101; 113]]) = 255.
Proof. vm_compute. repeat split; reflexivity. Qed.

Theorem C07_cap2_htfc_old_refuted_real :
  let it := (map (sym_bits ht_witness_table) (enc_internal [] ht_witness_W), false, true, true) in
  sumN (it_bits it) = 4490 /\ ht_item_ok 256 it /\
  ht_step (chk_ht_old 256) (65536, 65024, 0) it = (65536, 65586, 0, 65587) /\
  ht_step (chk_ht 256) (65536, 65024, 0) it = (131072, 65586, 0, 65587).
Proof. exact ht_old_refuted_real. Qed.
Print Assumptions C07_cap2_htfc_old_refuted_real.

Theorem C07_cap2_htfc_old_refuted : ~ C07_htfc_capacity_old_full.
Proof. exact ht_old_refuted. Qed.
Print Assumptions C07_cap2_htfc_old_refuted.

(* ---- 4. HASHHF: `bytesStrings + 4 * (size_t)maxlength + 2` per string, `bytesStrings + 3` before the trailing bytes *)
Theorem C07_cap2_hashhf_ok : forall memalloc bl order, Forall (fun k => k <= 32) bl -> 1 <= memalloc ->
  hh_ctor_in_bounds chk_hh true memalloc bl order = true.
Proof. exact hh_ok_strings. Qed.
Print Assumptions C07_cap2_hashhf_ok.
Example C07_cap2_hashhf_ok_ex :
  Forall (fun k => k <= 32) hh_witness_table /\
  hh_run (chk_hh 2) true (16, 0) (hh_items hh_witness_table hh_witness_S) =
    [(16, 2); (16, 4); (16, 6); (16, 8); (32, 10); (32, 12); (32, 14); (32, 17)].
Proof.
  split; [|vm_compute; reflexivity].
  apply Forall_forall. intros k Hk.
  assert (H : forallb (fun k => k <=? 32) hh_witness_table = true) by (vm_compute; reflexivity).
  rewrite forallb_forall in H. apply N.leb_le. apply H. exact Hk.
Qed.

Theorem C07_cap2_hashhf_items_ok : forall maxlen R0 items, 1 <= R0 -> Forall (hh_item_ok maxlen) items ->
  hh_safe (chk_hh maxlen) true R0 items = true.
Proof. exact hh_ok. Qed.
Print Assumptions C07_cap2_hashhf_items_ok.
Example C07_cap2_hashhf_items_ok_ex : Forall (hh_item_ok 3) [[32; 32; 32]; [8; 6]; [1]].
Proof. repeat constructor; vm_compute; discriminate. Qed.

Theorem C07_cap2_hashhf_tail_refuted :
  valid_set_b hh_witness_S = true /\
  hh_ctor_in_bounds chk_hh_old false 16 hh_witness_table hh_witness_S = false /\
  last (hh_run (chk_hh_old 2) false (16, 0) (hh_items hh_witness_table hh_witness_S)) (0, 0) = (16, 17) /\
  hh_ctor_in_bounds chk_hh_old false 16 hh_witness_table (removelast hh_witness_S) = true /\
  hh_ctor_in_bounds chk_hh true 16 hh_witness_table hh_witness_S = true.
Proof. exact hh_tail_refuted_strings. Qed.
Print Assumptions C07_cap2_hashhf_tail_refuted.

Theorem C07_cap2_hashhf_tail_necessary :
  hh_item_ok 2 [32; 32] /\ hh_safe (chk_hh 2) false 10 [[32; 32]] = false /\ hh_safe (chk_hh 2) true 10 [[32; 32]] = true.
Proof. exact hh_tail_necessary. Qed.
Print Assumptions C07_cap2_hashhf_tail_necessary.

Theorem C07_cap2_hashhf_old_refuted :
  hh_ctor_in_bounds chk_hh_old true 16 ht_witness_table [ht_witness_W] = false /\
  hh_run (chk_hh_old 256) true (16, 0) (hh_items ht_witness_table [ht_witness_W]) = [(512, 560); (1024, 563)] /\
  hh_ctor_in_bounds chk_hh true 16 ht_witness_table [ht_witness_W] = true.
Proof. exact hh_old_refuted. Qed.
Print Assumptions C07_cap2_hashhf_old_refuted.

(* ---- 5. scratch buffers *)
Theorem C07_cap2_tmp4_ok : forall m bits, Forall (fun b => b <= 32) bits -> lenN bits <= m ->
  lenN bits < m \/ Exists (fun b => b <= 31) bits -> snd (tmp_encode bits) <= 4 * m.
Proof. exact tmp4_ok. Qed.
Print Assumptions C07_cap2_tmp4_ok.
Example C07_cap2_tmp4_ok_ex : tmp_encode [32; 32; 31] = (12, 12) /\ Exists (fun b => b <= 31) [32; 32; 31].
Proof. split; [vm_compute; reflexivity|]. apply Exists_cons_tl, Exists_cons_tl, Exists_cons_hd. vm_compute. discriminate. Qed.

Theorem C07_cap2_tmp4_tight : tmp_encode [32; 32] = (8, 9) /\ hh_item_ok 2 [32; 32].
Proof. exact tmp4_tight. Qed.
Print Assumptions C07_cap2_tmp4_tight.

Theorem C07_cap2_tmp6_ok : forall m bits, Forall (fun b => b <= 32) bits -> lenN bits <= m -> 1 <= m ->
  snd (tmp_encode bits) <= 6 * m.
Proof. exact tmp6_ok. Qed.
Print Assumptions C07_cap2_tmp6_ok.
Example C07_cap2_tmp6_ok_ex : tmp_encode [32; 32] = (8, 9) /\ 9 <= 6 * 2.
Proof. split; [vm_compute; reflexivity|vm_compute; discriminate]. Qed.

Theorem C07_cap2_encode_string_ok : forall bl q, Forall (fun k => k <= 32) bl -> sym_bits bl 0 <= 31 ->
  snd (tmp_encode (map (sym_bits bl) (q ++ [0]))) <= 4 * (lenN q + 1).
Proof. exact encode_string_ok. Qed.
Print Assumptions C07_cap2_encode_string_ok.
Example C07_cap2_encode_string_ok_ex :
  sym_bits ht_witness_table 0 <= 31 /\ tmp_encode (map (sym_bits ht_witness_table) ([40; 41; 42] ++ [0])) = (7, 7).
Proof. split; [vm_compute; discriminate|vm_compute; reflexivity]. Qed.

Theorem C07_cap2_hashuffdac_dec_ok : forall m bits, Forall (fun b => b <= 32) bits -> lenN bits <= m ->
  lenN bits < m \/ Exists (fun b => b + 8 <= 32) bits -> fst (tmp_encode bits) + 1 <= 4 * m.
Proof. exact hashuffdac_dec_ok. Qed.
Print Assumptions C07_cap2_hashuffdac_dec_ok.
Example C07_cap2_hashuffdac_dec_ok_ex : Exists (fun b => b + 8 <= 32) [32; 32; 24] /\ tmp_encode [32; 32; 24] = (11, 12).
Proof. split; [apply Exists_cons_tl, Exists_cons_tl, Exists_cons_hd; vm_compute; discriminate|vm_compute; reflexivity]. Qed.

Theorem C07_cap2_maxcomplength : forall (l : list N) m x, In x l -> x <= fold_left N.max l m.
Proof. exact maxcomplength_ge. Qed.
Print Assumptions C07_cap2_maxcomplength.

(* StatCoder::encodeString after the repair: 4 * strLen + 1 bytes are enough for every table and every pattern *)
Theorem C07_cap2_encode_string_plus1_ok : forall bl q, Forall (fun k => k <= 32) bl ->
  snd (tmp_encode (map (sym_bits bl) (q ++ [0]))) <= 4 * (lenN q + 1) + 1.
Proof. exact encode_string_p1_ok. Qed.
Print Assumptions C07_cap2_encode_string_plus1_ok.

Theorem C07_cap2_encode_string_old_refuted :
  exists bits, Forall (fun b => b <= 32) bits /\ lenN bits = 1 /\ 4 * 1 < snd (tmp_encode bits).
Proof. exact encode_string_old_refuted. Qed.
Print Assumptions C07_cap2_encode_string_old_refuted.

(* RPHTFC: the two bytes appended for the header decoder's read-ahead, after the growth loop on `bytesStrings + 2` *)
Theorem C07_cap2_rphtfc_tail_ok : forall cursor reserved, 1 <= reserved ->
  let r := CapacityDefs.cap_grow (cursor + 2) reserved in cursor < r /\ cursor + 1 < r.
Proof. exact tail2_ok. Qed.
Print Assumptions C07_cap2_rphtfc_tail_ok.
