(* Proofs about the double-hashing model (HashDefs.v). *)
From LibCSD Require Import Base HashDefs.
From Coq Require Import Lia ZifyBool ZifyNat ZifyN Permutation.
Ltac Zify.zify_post_hook ::= Z.to_euclidean_division_equations.
Local Open Scope N_scope.

(* ------------------------------------------------------------------------ *)
(* keys                                                                      *)
(* ------------------------------------------------------------------------ *)
Lemma key_eqb_eq a b : hbytes_eqb a b = true <-> a = b.
Proof.
  revert b; induction a as [|x a IH]; intros [|y b]; cbn [hbytes_eqb]; split; intros H;
    try reflexivity; try discriminate.
  - apply andb_true_iff in H as [H1 H2]. apply N.eqb_eq in H1. apply IH in H2. congruence.
  - injection H as -> ->. rewrite N.eqb_refl. cbn. apply IH. reflexivity.
Qed.

Lemma key_eqb_refl a : hbytes_eqb a a = true.
Proof. apply key_eqb_eq; reflexivity. Qed.

Lemma key_eqb_neq a b : a <> b -> hbytes_eqb a b = false.
Proof. intros H. destruct (hbytes_eqb a b) eqn:E; [apply key_eqb_eq in E; contradiction|reflexivity]. Qed.

Lemma key_in_In k l : hbytes_in k l = true <-> In k l.
Proof.
  induction l as [|x r IH]; cbn [hbytes_in In]; [split; [discriminate|tauto]|].
  rewrite orb_true_iff, key_eqb_eq, IH. tauto.
Qed.

Lemma keys_nodup_NoDup l : hbytes_nodup l = true -> NoDup l.
Proof.
  induction l as [|x r IH]; cbn [hbytes_nodup]; intros H; [constructor|].
  apply andb_true_iff in H as [H1 H2]. constructor; [|auto].
  intros Hin. apply key_in_In in Hin. rewrite Hin in H1. discriminate.
Qed.

(* ------------------------------------------------------------------------ *)
(* hset                                                                      *)
(* ------------------------------------------------------------------------ *)
Lemma hset_length {A} (l : list A) i x : length (dh_set l i x) = length l.
Proof. revert i; induction l as [|a l IH]; intros [|i]; cbn [dh_set length]; auto. Qed.

Lemma hset_nth_eq {A} (l : list A) i x : (i < length l)%nat -> nth_error (dh_set l i x) i = Some x.
Proof.
  revert i; induction l as [|a l IH]; intros [|i] H; cbn [dh_set length nth_error] in *; try lia; auto.
  apply IH; lia.
Qed.

Lemma hset_nth_neq {A} (l : list A) i j x : i <> j -> nth_error (dh_set l i x) j = nth_error l j.
Proof.
  revert i j; induction l as [|a l IH]; intros [|i] [|j] H; cbn [dh_set nth_error]; auto; try congruence.
Qed.

Lemma hset_In {A} (l : list A) i x y : In y (dh_set l i x) -> y = x \/ In y l.
Proof.
  revert i; induction l as [|a l IH]; intros [|i]; cbn [dh_set In]; intros H; auto.
  - destruct H; auto.
  - destruct H as [H|H]; auto. apply IH in H. tauto.
Qed.

Lemma hsetN_lenN {A} (l : list A) i x : lenN (dh_setN l i x) = lenN l.
Proof. unfold lenN, dh_setN. rewrite hset_length. reflexivity. Qed.

Lemma hsetN_length {A} (l : list A) i x : length (dh_setN l i x) = length l.
Proof. unfold dh_setN. apply hset_length. Qed.

Lemma nthN_hsetN_eq {A} (l : list A) i x : i < lenN l -> nthN (dh_setN l i x) i = Some x.
Proof. unfold nthN, dh_setN, lenN. intros H. apply hset_nth_eq. lia. Qed.

Lemma nthN_hsetN_neq {A} (l : list A) i j x : i <> j -> nthN (dh_setN l i x) j = nthN l j.
Proof. unfold nthN, dh_setN. intros H. apply hset_nth_neq. lia. Qed.

Lemma hsetN_In {A} (l : list A) i x y : In y (dh_setN l i x) -> y = x \/ In y l.
Proof. apply hset_In. Qed.

Lemma nthN_In {A} (l : list A) i x : nthN l i = Some x -> In x l.
Proof. unfold nthN. apply nth_error_In. Qed.

(* ------------------------------------------------------------------------ *)
(* insert: what a successful insertion does                                  *)
(* ------------------------------------------------------------------------ *)
Lemma insert_loop_ok fuel t k m h2 hval c t' :
  dh_insert_loop fuel t k m h2 hval = IOk c t' ->
  nthN t c = Some None /\ t' = dh_setN t c (Some k).
Proof.
  revert hval; induction fuel as [|f IH]; intros hval; cbn [dh_insert_loop]; [discriminate|].
  destruct (nthN t (dh_step m h2 hval)) as [[k0|]|] eqn:E; intros H.
  - eauto.
  - injection H as <- <-. auto.
  - discriminate.
Qed.

Lemma insert_ok t hk c t' :
  dh_insert t hk = IOk c t' ->
  nthN t c = Some None /\ t' = dh_setN t c (Some (hk_key hk)).
Proof.
  unfold dh_insert. destruct (nthN t (hk_h1 hk)) as [[k0|]|] eqn:E; intros H.
  - eapply insert_loop_ok; eauto.
  - injection H as <- <-. auto.
  - discriminate.
Qed.

(* searching the key just inserted follows the insertion path *)
Lemma insert_then_search_loop fuel t k m h2 hval c t' :
  dh_insert_loop fuel t k m h2 hval = IOk c t' ->
  ~ In (Some k) t ->
  dh_search_loop fuel t' k m h2 hval = SFound c.
Proof.
  intros H Hfresh. destruct (insert_loop_ok _ _ _ _ _ _ _ _ H) as [Hc ->].
  revert hval H; induction fuel as [|f IH]; intros hval; cbn [dh_insert_loop dh_search_loop]; [discriminate|].
  destruct (nthN t (dh_step m h2 hval)) as [[k0|]|] eqn:E; intros H.
  - assert (Hne : c <> dh_step m h2 hval) by (intros ->; congruence).
    rewrite nthN_hsetN_neq, E by assumption.
    rewrite key_eqb_neq; [auto|].
    intros ->. apply Hfresh. eapply nthN_In; eauto.
  - injection H as <-. rewrite nthN_hsetN_eq by (eapply nthN_Some_lt; eauto).
    rewrite key_eqb_refl. reflexivity.
  - discriminate.
Qed.

Lemma insert_then_search t hk c t' :
  dh_insert t hk = IOk c t' ->
  ~ In (Some (hk_key hk)) t ->
  dh_search t' hk = SFound c.
Proof.
  intros H Hfresh. destruct (insert_ok _ _ _ _ H) as [Hc Ht'].
  unfold dh_insert in H. unfold dh_search.
  destruct (nthN t (hk_h1 hk)) as [[k0|]|] eqn:E.
  - assert (Hne : c <> hk_h1 hk) by (intros ->; congruence).
    subst t'. rewrite nthN_hsetN_neq, E by assumption.
    rewrite key_eqb_neq.
    + rewrite hsetN_length, hsetN_lenN.
      eapply insert_then_search_loop; eassumption.
    + intros ->. apply Hfresh. eapply nthN_In; eauto.
  - injection H as <- _. rewrite Ht', nthN_hsetN_eq by (eapply nthN_Some_lt; eauto).
    rewrite key_eqb_refl. reflexivity.
  - discriminate.
Qed.

(* a successful search only walks through occupied cells: filling an empty cell
   (cells never become empty again) does not change its result *)
Lemma search_loop_preserved fuel t q m h2 hval c c' x :
  dh_search_loop fuel t q m h2 hval = SFound c ->
  nthN t c' = Some None ->
  dh_search_loop fuel (dh_setN t c' x) q m h2 hval = SFound c.
Proof.
  intros H Hc'. revert hval H; induction fuel as [|f IH]; intros hval; cbn [dh_search_loop]; [discriminate|].
  destruct (nthN t (dh_step m h2 hval)) as [[k0|]|] eqn:E; intros H; try discriminate.
  assert (Hne : c' <> dh_step m h2 hval) by (intros ->; congruence).
  rewrite nthN_hsetN_neq, E by assumption.
  destruct (hbytes_eqb k0 q); auto.
Qed.

Lemma search_preserved t hq c c' x :
  dh_search t hq = SFound c ->
  nthN t c' = Some None ->
  dh_search (dh_setN t c' x) hq = SFound c.
Proof.
  unfold dh_search. intros H Hc'.
  destruct (nthN t (hk_h1 hq)) as [[k0|]|] eqn:E; try discriminate.
  assert (Hne : c' <> hk_h1 hq) by (intros ->; congruence).
  rewrite nthN_hsetN_neq, E by assumption.
  destruct (hbytes_eqb k0 (hk_key hq)); auto.
  rewrite hsetN_length, hsetN_lenN. apply search_loop_preserved; assumption.
Qed.

Lemma search_loop_found_sound fuel t q m h2 hval c :
  dh_search_loop fuel t q m h2 hval = SFound c -> nthN t c = Some (Some q).
Proof.
  revert hval; induction fuel as [|f IH]; intros hval; cbn [dh_search_loop]; [discriminate|].
  destruct (nthN t (dh_step m h2 hval)) as [[k0|]|] eqn:E; try discriminate.
  destruct (hbytes_eqb k0 q) eqn:K; [|apply IH].
  intros H; injection H as <-. apply key_eqb_eq in K. congruence.
Qed.

(* compare the stored key fully before accepting *)
Lemma search_found_sound t hq c :
  dh_search t hq = SFound c -> nthN t c = Some (Some (hk_key hq)).
Proof.
  unfold dh_search. destruct (nthN t (hk_h1 hq)) as [[k0|]|] eqn:E; try discriminate.
  destruct (hbytes_eqb k0 (hk_key hq)) eqn:K; [|apply search_loop_found_sound].
  intros H; injection H as <-. apply key_eqb_eq in K. congruence.
Qed.

(* ------------------------------------------------------------------------ *)
(* Theorem 1: every inserted key is found, in the cell insert chose          *)
(* ------------------------------------------------------------------------ *)
Lemma insert_all_preserves ks : forall t t' cs hq c,
  dh_insert_all t ks = Some (t', cs) ->
  dh_search t hq = SFound c -> dh_search t' hq = SFound c.
Proof.
  induction ks as [|hk r IH]; intros t t' cs hq c; cbn [dh_insert_all].
  - intros H; injection H as <- _. auto.
  - destruct (dh_insert t hk) as [c1 t1| |] eqn:E; try discriminate.
    destruct (dh_insert_all t1 r) as [[t2 cs2]|] eqn:E2; try discriminate.
    intros H Hs; injection H as <- _.
    destruct (insert_ok _ _ _ _ E) as [Hc ->].
    eapply IH; eauto. apply search_preserved; assumption.
Qed.

Lemma insert_all_search ks : forall t t' cs,
  dh_insert_all t ks = Some (t', cs) ->
  NoDup (map hk_key ks) ->
  (forall hk, In hk ks -> ~ In (Some (hk_key hk)) t) ->
  Forall2 (fun hk c => dh_search t' hk = SFound c) ks cs.
Proof.
  induction ks as [|hk r IH]; intros t t' cs; cbn [dh_insert_all].
  - intros H _ _; injection H as _ <-. constructor.
  - destruct (dh_insert t hk) as [c1 t1| |] eqn:E; try discriminate.
    destruct (dh_insert_all t1 r) as [[t2 cs2]|] eqn:E2; try discriminate.
    intros H Hnd Hfresh; injection H as <- <-.
    cbn [map] in Hnd. inversion Hnd as [|? ? Hnotin Hnd']; subst.
    constructor.
    + eapply insert_all_preserves; eauto.
      eapply insert_then_search; [eassumption|]. apply Hfresh. left; reflexivity.
    + eapply IH; eauto.
      intros hk' Hin Hin'. destruct (insert_ok _ _ _ _ E) as [_ ->].
      apply hsetN_In in Hin' as [Heq|Hin'].
      * injection Heq as Heq. apply Hnotin. rewrite <- Heq. apply in_map. assumption.
      * eapply Hfresh; [right; eassumption|assumption].
Qed.

Lemma empty_table_In m x : In x (dh_empty_table m) -> x = None.
Proof. unfold dh_empty_table. apply repeat_spec. Qed.

Lemma empty_table_lenN m : lenN (dh_empty_table m) = m.
Proof. unfold dh_empty_table, lenN. rewrite repeat_length. lia. Qed.

Lemma Forall2_imp {A B} (R1 R2 : A -> B -> Prop) l l' :
  (forall a b, R1 a b -> R2 a b) -> Forall2 R1 l l' -> Forall2 R2 l l'.
Proof. intros H; induction 1; constructor; auto. Qed.

Theorem dh_search_inserted m ks t cs :
  dh_build m ks = Some (t, cs) ->
  NoDup (map hk_key ks) ->
  Forall2 (fun hk c => dh_search t hk = SFound c /\ nthN t c = Some (Some (hk_key hk))) ks cs.
Proof.
  unfold dh_build. intros H Hnd.
  assert (F : Forall2 (fun hk c => dh_search t hk = SFound c) ks cs).
  { eapply insert_all_search; eauto. intros hk _ Hin. apply empty_table_In in Hin. discriminate. }
  revert F. apply Forall2_imp. intros hk c Hs. split; [assumption|]. apply search_found_sound; assumption.
Qed.

Lemma Forall2_In_l {A B} (R : A -> B -> Prop) l l' a :
  Forall2 R l l' -> In a l -> exists b, In b l' /\ R a b.
Proof.
  induction 1 as [|x y l l' Hxy F IH]; cbn [In]; [tauto|].
  intros [->|Hin]; [eauto|]. destruct (IH Hin) as [b [Hb Hr]]; eauto.
Qed.

Corollary dh_search_inserted_In m ks t cs hk :
  dh_build m ks = Some (t, cs) -> NoDup (map hk_key ks) -> In hk ks ->
  exists c, In c cs /\ dh_search t hk = SFound c /\ nthN t c = Some (Some (hk_key hk)).
Proof.
  intros H Hnd Hin.
  destruct (Forall2_In_l _ _ _ _ (dh_search_inserted _ _ _ _ H Hnd) Hin) as [c [Hc [H1 H2]]]; eauto.
Qed.

(* ------------------------------------------------------------------------ *)
(* Theorem 2: absent keys, termination, no out-of-bounds read                *)
(* ------------------------------------------------------------------------ *)
Lemma step_lt m h2 hval : 0 < m -> dh_step m h2 hval < m.
Proof. unfold dh_step. intros H. apply N.mod_lt. lia. Qed.

Lemma probe_mul_lt m h1 h2 i : 0 < m -> dh_probe_mul m h1 h2 i < m.
Proof. unfold dh_probe_mul. intros H. apply N.mod_lt. lia. Qed.

Lemma nthN_lt_not_None {A} (l : list A) i : i < lenN l -> nthN l i <> None.
Proof. intros H E. destruct (nthN_lt_Some l i H) as [x Hx]. congruence. Qed.

Lemma search_loop_no_oob fuel t q h2 hval :
  0 < lenN t -> dh_search_loop fuel t q (lenN t) h2 hval <> SOob.
Proof.
  intros Hm. revert hval; induction fuel as [|f IH]; intros hval; cbn [dh_search_loop]; [discriminate|].
  destruct (nthN t (dh_step (lenN t) h2 hval)) as [[k0|]|] eqn:E.
  - destruct (hbytes_eqb k0 q); [discriminate|apply IH].
  - discriminate.
  - exfalso. revert E. apply nthN_lt_not_None. apply step_lt. assumption.
Qed.

Theorem dh_search_no_oob t q : hk_h1 q < lenN t -> dh_search t q <> SOob.
Proof.
  intros H. unfold dh_search.
  destruct (nthN t (hk_h1 q)) as [[k0|]|] eqn:E.
  - destruct (hbytes_eqb k0 (hk_key q)); [discriminate|]. apply search_loop_no_oob. lia.
  - discriminate.
  - exfalso. revert E. apply nthN_lt_not_None. assumption.
Qed.

Lemma search_mul_loop_no_oob fuel t q h1 h2 i :
  0 < lenN t -> dh_search_mul_loop fuel t q (lenN t) h1 h2 i <> SOob.
Proof.
  intros Hm. revert i; induction fuel as [|f IH]; intros i; cbn [dh_search_mul_loop]; [discriminate|].
  destruct (nthN t (dh_probe_mul (lenN t) h1 h2 i)) as [[k0|]|] eqn:E.
  - destruct (hbytes_eqb k0 q); [discriminate|apply IH].
  - discriminate.
  - exfalso. revert E. apply nthN_lt_not_None. apply probe_mul_lt. assumption.
Qed.

Theorem dh_search_mul_no_oob t q : hk_h1 q < lenN t -> dh_search_mul t q <> SOob.
Proof.
  intros H. unfold dh_search_mul.
  destruct (nthN t (hk_h1 q)) as [[k0|]|] eqn:E.
  - destruct (hbytes_eqb k0 (hk_key q)); [discriminate|]. apply search_mul_loop_no_oob. lia.
  - discriminate.
  - exfalso. revert E. apply nthN_lt_not_None. assumption.
Qed.

Lemma insert_loop_no_oob fuel t k h2 hval :
  0 < lenN t -> dh_insert_loop fuel t k (lenN t) h2 hval <> IOob.
Proof.
  intros Hm. revert hval; induction fuel as [|f IH]; intros hval; cbn [dh_insert_loop]; [discriminate|].
  destruct (nthN t (dh_step (lenN t) h2 hval)) as [[k0|]|] eqn:E.
  - apply IH.
  - discriminate.
  - exfalso. revert E. apply nthN_lt_not_None. apply step_lt. assumption.
Qed.

Theorem dh_insert_no_oob t hk : hk_h1 hk < lenN t -> dh_insert t hk <> IOob.
Proof.
  intros H. unfold dh_insert.
  destruct (nthN t (hk_h1 hk)) as [[k0|]|] eqn:E.
  - apply insert_loop_no_oob. lia.
  - discriminate.
  - exfalso. revert E. apply nthN_lt_not_None. assumption.
Qed.

(* a search result is Found only for a stored key; the loop is bounded by its fuel
   (tsize - 1 further probes), so a key that is not stored gives SAbsent *)
Lemma search_loop_absent fuel t q h2 hval :
  0 < lenN t -> (forall k, In (Some k) t -> k <> q) ->
  dh_search_loop fuel t q (lenN t) h2 hval = SAbsent.
Proof.
  intros Hm Hq. revert hval; induction fuel as [|f IH]; intros hval; cbn [dh_search_loop]; [reflexivity|].
  destruct (nthN t (dh_step (lenN t) h2 hval)) as [[k0|]|] eqn:E.
  - rewrite key_eqb_neq; [apply IH|]. apply Hq. eapply nthN_In; eauto.
  - reflexivity.
  - exfalso. revert E. apply nthN_lt_not_None. apply step_lt. assumption.
Qed.

Theorem dh_search_absent_table t q :
  hk_h1 q < lenN t -> (forall k, In (Some k) t -> k <> hk_key q) -> dh_search t q = SAbsent.
Proof.
  intros H Hq. unfold dh_search.
  destruct (nthN t (hk_h1 q)) as [[k0|]|] eqn:E.
  - rewrite key_eqb_neq; [apply search_loop_absent; [lia|assumption]|]. apply Hq. eapply nthN_In; eauto.
  - reflexivity.
  - exfalso. revert E. apply nthN_lt_not_None. assumption.
Qed.

Lemma search_mul_loop_absent fuel t q h1 h2 i :
  0 < lenN t -> (forall k, In (Some k) t -> k <> q) ->
  dh_search_mul_loop fuel t q (lenN t) h1 h2 i = SAbsent.
Proof.
  intros Hm Hq. revert i; induction fuel as [|f IH]; intros i; cbn [dh_search_mul_loop]; [reflexivity|].
  destruct (nthN t (dh_probe_mul (lenN t) h1 h2 i)) as [[k0|]|] eqn:E.
  - rewrite key_eqb_neq; [apply IH|]. apply Hq. eapply nthN_In; eauto.
  - reflexivity.
  - exfalso. revert E. apply nthN_lt_not_None. apply probe_mul_lt. assumption.
Qed.

Theorem dh_search_mul_absent_table t q :
  hk_h1 q < lenN t -> (forall k, In (Some k) t -> k <> hk_key q) -> dh_search_mul t q = SAbsent.
Proof.
  intros H Hq. unfold dh_search_mul.
  destruct (nthN t (hk_h1 q)) as [[k0|]|] eqn:E.
  - rewrite key_eqb_neq; [apply search_mul_loop_absent; [lia|assumption]|]. apply Hq. eapply nthN_In; eauto.
  - reflexivity.
  - exfalso. revert E. apply nthN_lt_not_None. assumption.
Qed.

(* what is stored in a built table *)
Lemma insert_all_lenN ks : forall t t' cs, dh_insert_all t ks = Some (t', cs) -> lenN t' = lenN t.
Proof.
  induction ks as [|hk r IH]; intros t t' cs; cbn [dh_insert_all].
  - intros H; injection H as <- _. reflexivity.
  - destruct (dh_insert t hk) as [c1 t1| |] eqn:E; try discriminate.
    destruct (dh_insert_all t1 r) as [[t2 cs2]|] eqn:E2; try discriminate.
    intros H; injection H as <- _.
    destruct (insert_ok _ _ _ _ E) as [_ ->]. rewrite (IH _ _ _ E2). apply hsetN_lenN.
Qed.

Lemma insert_all_stored ks : forall t t' cs k,
  dh_insert_all t ks = Some (t', cs) -> In (Some k) t' -> In (Some k) t \/ In k (map hk_key ks).
Proof.
  induction ks as [|hk r IH]; intros t t' cs k; cbn [dh_insert_all].
  - intros H; injection H as <- _. auto.
  - destruct (dh_insert t hk) as [c1 t1| |] eqn:E; try discriminate.
    destruct (dh_insert_all t1 r) as [[t2 cs2]|] eqn:E2; try discriminate.
    intros H Hin; injection H as <- _.
    destruct (IH _ _ _ _ E2 Hin) as [H1|H1]; [|right; right; assumption].
    destruct (insert_ok _ _ _ _ E) as [_ ->].
    apply hsetN_In in H1 as [H1|H1]; [|auto].
    injection H1 as ->. right; left; reflexivity.
Qed.

Lemma build_lenN m ks t cs : dh_build m ks = Some (t, cs) -> lenN t = m.
Proof. unfold dh_build. intros H. rewrite (insert_all_lenN _ _ _ _ H). apply empty_table_lenN. Qed.

Lemma build_stored m ks t cs k : dh_build m ks = Some (t, cs) -> In (Some k) t -> In k (map hk_key ks).
Proof.
  unfold dh_build. intros H Hin. destruct (insert_all_stored _ _ _ _ _ H Hin) as [H1|H1]; [|assumption].
  apply empty_table_In in H1. discriminate.
Qed.

Theorem dh_search_absent m ks t cs q :
  dh_build m ks = Some (t, cs) ->
  ~ In (hk_key q) (map hk_key ks) -> hk_h1 q < m ->
  dh_search t q = SAbsent /\ dh_search_mul t q = SAbsent.
Proof.
  intros H Hq Hh. pose proof (build_lenN _ _ _ _ H) as Hl.
  assert (Hs : forall k, In (Some k) t -> k <> hk_key q).
  { intros k Hin ->. apply Hq. eapply build_stored; eauto. }
  split; [apply dh_search_absent_table|apply dh_search_mul_absent_table]; auto; lia.
Qed.

(* ------------------------------------------------------------------------ *)
(* the multiplicative probe (hval + i*h2) % tsize of Hashdh::search and of    *)
(* the dictionaries' locate equals the iterative one while nothing wraps      *)
(* ------------------------------------------------------------------------ *)
Lemma wrap64_small x : x < 2 ^ 64 -> dh_wrap64 x = x.
Proof. unfold dh_wrap64. apply N.mod_small. Qed.

Lemma step_closed m h1 h2 i :
  0 < m -> m <= 2 ^ 63 -> h2 < m ->
  dh_step m h2 ((h1 + i * h2) mod m) = (h1 + (i + 1) * h2) mod m.
Proof.
  intros Hm Hm63 Hh2. unfold dh_step.
  assert (Hlt : (h1 + i * h2) mod m < m) by (apply N.mod_lt; lia).
  rewrite wrap64_small.
  - rewrite N.add_mod_idemp_l by lia. f_equal. lia.
  - change (2 ^ 64) with (2 ^ 63 + 2 ^ 63). lia.
Qed.

Lemma probe_mul_closed m h1 h2 i :
  m < 2 ^ 32 -> h1 < m -> h2 < m -> i <= m ->
  dh_probe_mul m h1 h2 i = (h1 + i * h2) mod m.
Proof.
  intros Hm Hh1 Hh2 Hi. unfold dh_probe_mul.
  assert (Hb : i * h2 <= (2 ^ 32 - 1) * (2 ^ 32 - 1)) by (apply N.mul_le_mono; lia).
  change ((2 ^ 32 - 1) * (2 ^ 32 - 1)) with 18446744065119617025 in Hb.
  change (2 ^ 32) with 4294967296 in Hm.
  rewrite (wrap64_small (i * h2)) by (change (2 ^ 64) with 18446744073709551616; lia).
  rewrite wrap64_small by (change (2 ^ 64) with 18446744073709551616; lia).
  reflexivity.
Qed.

Lemma search_mul_loop_eq fuel t q m h1 h2 : forall i,
  m < 2 ^ 32 -> h1 < m -> h2 < m -> i + N.of_nat fuel < m ->
  dh_search_mul_loop fuel t q m h1 h2 (i + 1) = dh_search_loop fuel t q m h2 ((h1 + i * h2) mod m).
Proof.
  induction fuel as [|f IH]; intros i Hm Hh1 Hh2 Hi; cbn [dh_search_mul_loop dh_search_loop]; [reflexivity|].
  assert (Hm63 : m <= 2 ^ 63) by (change (2 ^ 32) with 4294967296 in Hm; change (2 ^ 63) with 9223372036854775808; lia).
  rewrite step_closed by (assumption || lia).
  rewrite probe_mul_closed by (assumption || lia).
  destruct (nthN t ((h1 + (i + 1) * h2) mod m)) as [[k0|]|]; try reflexivity.
  destruct (hbytes_eqb k0 q); [reflexivity|].
  apply IH; auto. lia.
Qed.

Theorem search_mul_eq t q :
  lenN t < 2 ^ 32 -> hk_h1 q < lenN t -> hk_h2 q < lenN t ->
  dh_search_mul t q = dh_search t q.
Proof.
  intros Hm Hh1 Hh2. unfold dh_search_mul, dh_search.
  destruct (nthN t (hk_h1 q)) as [[k0|]|]; try reflexivity.
  destruct (hbytes_eqb k0 (hk_key q)); [reflexivity|].
  replace (hk_h1 q) with ((hk_h1 q + 0 * hk_h2 q) mod lenN t) at 2
    by (rewrite N.mul_0_l, N.add_0_r; apply N.mod_small; assumption).
  change 1 with (0 + 1) at 1.
  apply search_mul_loop_eq; auto. unfold lenN in *. lia.
Qed.

(* ------------------------------------------------------------------------ *)
(* coprimality: the probe sequence visits every cell                          *)
(* ------------------------------------------------------------------------ *)
Definition prime (r : N) : Prop := 1 < r /\ forall d, 1 < d < r -> r mod d <> 0.

Lemma prime_coprime m h2 : prime m -> 1 <= h2 < m -> N.gcd h2 m = 1.
Proof.
  intros [Hm Hp] Hh.
  pose proof (N.gcd_divide_l h2 m) as Hl. pose proof (N.gcd_divide_r h2 m) as Hr.
  set (g := N.gcd h2 m) in *.
  assert (Hg0 : g <> 0).
  { intros E. destruct Hr as [z Hz]. rewrite E in Hz. lia. }
  assert (Hgle : g <= h2) by (apply N.divide_pos_le; [lia|assumption]).
  destruct (N.eq_dec g 1) as [|Hg1]; [assumption|].
  exfalso. apply (Hp g); [lia|]. apply N.mod_divide; assumption.
Qed.

Theorem probe_visits_all m h1 h2 c :
  0 < m -> N.gcd h2 m = 1 -> h1 < m -> c < m ->
  exists i, i < m /\ (h1 + i * h2) mod m = c.
Proof.
  intros Hm Hg Hh1 Hc.
  destruct (N.eq_dec h2 0) as [->|Hh2].
  - rewrite N.gcd_0_l in Hg. subst m. exists 0. split; [lia|].
    assert (c = 0) by lia. subst c. apply N.mod_1_r.
  - destruct (N.gcd_bezout_pos h2 m) as [a [b Hab]]; [lia|]. rewrite Hg in Hab.
    set (d := c + m - h1).
    exists ((d * a) mod m). split; [apply N.mod_lt; lia|].
    rewrite <- N.add_mod_idemp_r by lia.
    rewrite N.mul_mod_idemp_l by lia.
    rewrite N.add_mod_idemp_r by lia.
    replace (h1 + d * a * h2) with (c + (1 + d * b) * m).
    + rewrite N.mod_add by lia. apply N.mod_small. assumption.
    + rewrite <- N.mul_assoc, Hab. unfold d. nia.
Qed.

(* if insertion reports "table full" every probed cell was occupied ... *)
Lemma insert_loop_full fuel t k m h1 h2 : forall j,
  0 < m -> m <= 2 ^ 63 -> h2 < m ->
  dh_insert_loop fuel t k m h2 ((h1 + j * h2) mod m) = IFull ->
  forall i, j < i <= j + N.of_nat fuel -> exists k0, nthN t ((h1 + i * h2) mod m) = Some (Some k0).
Proof.
  induction fuel as [|f IH]; intros j Hm Hm63 Hh2; cbn [dh_insert_loop]; [intros _ i Hi; lia|].
  rewrite step_closed by assumption.
  destruct (nthN t ((h1 + (j + 1) * h2) mod m)) as [[k0|]|] eqn:E; try discriminate.
  intros H i Hi. destruct (N.eq_dec i (j + 1)) as [->|Hne]; [eauto|].
  apply (IH (j + 1)); auto. lia.
Qed.

(* ... and these are all the cells of the table *)
Lemma insert_full_all t hk :
  lenN t <= 2 ^ 63 -> hk_h1 hk < lenN t -> hk_h2 hk < lenN t -> N.gcd (hk_h2 hk) (lenN t) = 1 ->
  dh_insert t hk = IFull ->
  forall c, c < lenN t -> exists k0, nthN t c = Some (Some k0).
Proof.
  intros Hm63 Hh1 Hh2 Hg. unfold dh_insert.
  destruct (nthN t (hk_h1 hk)) as [[k0|]|] eqn:E; try discriminate.
  intros H c Hc.
  destruct (probe_visits_all (lenN t) (hk_h1 hk) (hk_h2 hk) c) as [i [Hi Hic]]; try assumption; [lia|].
  destruct (N.eq_dec i 0) as [->|Hi0].
  - rewrite N.mul_0_l, N.add_0_r, N.mod_small in Hic by assumption. subst c. eauto.
  - rewrite <- Hic.
    apply (insert_loop_full (Nat.pred (length t)) t (hk_key hk) (lenN t) (hk_h1 hk) (hk_h2 hk) 0);
      try assumption; try lia.
    + rewrite N.mul_0_l, N.add_0_r, N.mod_small by assumption. assumption.
    + unfold lenN in *. lia.
Qed.

Lemma hk_ok_spec m hk :
  hk_ok m hk = true -> hk_h1 hk < m /\ hk_h2 hk < m /\ N.gcd (hk_h2 hk) m = 1.
Proof.
  unfold hk_ok. rewrite !andb_true_iff, !N.ltb_lt, N.eqb_eq. tauto.
Qed.

Theorem dh_insert_one_succeeds t hk :
  lenN t <= 2 ^ 63 -> hk_ok (lenN t) hk = true ->
  (exists c, nthN t c = Some None) ->
  exists c t', dh_insert t hk = IOk c t'.
Proof.
  intros Hm63 Hok [c0 Hc0]. apply hk_ok_spec in Hok as [Hh1 [Hh2 Hg]].
  destruct (dh_insert t hk) as [c t'| |] eqn:E; [eauto| |].
  - exfalso. destruct (insert_full_all t hk Hm63 Hh1 Hh2 Hg E c0) as [k0 Hk0];
      [eapply nthN_Some_lt; eauto|congruence].
  - exfalso. revert E. apply dh_insert_no_oob. assumption.
Qed.

(* ---- Tdict* and the number of occupied cells ------------------------------ *)
Lemma tdict_hset t : forall c k,
  nth_error t c = Some None -> Permutation (dh_tdict (dh_set t c (Some k))) (k :: dh_tdict t).
Proof.
  induction t as [|a r IH]; intros [|c] k; cbn [nth_error dh_set dh_tdict]; try discriminate.
  - intros H; injection H as ->. reflexivity.
  - intros H. destruct a as [k0|]; cbn [dh_tdict].
    + rewrite (IH _ _ H). apply perm_swap.
    + apply IH; assumption.
Qed.

Lemma tdict_hsetN t c k :
  nthN t c = Some None -> Permutation (dh_tdict (dh_setN t c (Some k))) (k :: dh_tdict t).
Proof. apply tdict_hset. Qed.

Lemma tdict_In t k : In k (dh_tdict t) <-> In (Some k) t.
Proof.
  induction t as [|a r IH]; cbn [dh_tdict In]; [tauto|].
  destruct a as [k0|]; cbn [In]; rewrite IH.
  - split; (intros [H|H]; [left; congruence|right; assumption]).
  - split; [auto|]. intros [H|H]; [discriminate|assumption].
Qed.

Lemma tdict_length_le t : (length (dh_tdict t) <= length t)%nat.
Proof. induction t as [|[k0|] r IH]; cbn [dh_tdict length]; lia. Qed.

Lemma exists_empty_nat t :
  (length (dh_tdict t) < length t)%nat -> exists c, nth_error t c = Some None.
Proof.
  induction t as [|[k0|] r IH]; cbn [dh_tdict length]; intros H; [lia| |].
  - destruct IH as [c Hc]; [lia|]. exists (S c). assumption.
  - exists O. reflexivity.
Qed.

Lemma exists_empty t :
  (length (dh_tdict t) < length t)%nat -> exists c, nthN t c = Some None.
Proof.
  intros H. destruct (exists_empty_nat t H) as [c Hc]. exists (N.of_nat c).
  unfold nthN. rewrite Nat2N.id. assumption.
Qed.

Lemma insert_all_succeeds ks : forall t,
  lenN t <= 2 ^ 63 ->
  Forall (fun hk => hk_ok (lenN t) hk = true) ks ->
  (length (dh_tdict t) + length ks <= length t)%nat ->
  exists t' cs, dh_insert_all t ks = Some (t', cs).
Proof.
  induction ks as [|hk r IH]; intros t Hm63 Hok Hlen; cbn [dh_insert_all]; [eauto|].
  inversion Hok as [|? ? Hhk Hr]; subst. cbn [length] in Hlen.
  destruct (dh_insert_one_succeeds t hk Hm63 Hhk) as [c [t1 E]]; [apply exists_empty; lia|].
  rewrite E. destruct (insert_ok _ _ _ _ E) as [Hc Ht1].
  destruct (IH t1) as [t' [cs E']].
  - subst t1. rewrite hsetN_lenN. assumption.
  - subst t1. rewrite hsetN_lenN. assumption.
  - subst t1. rewrite hsetN_length. rewrite (Permutation_length (tdict_hsetN _ _ _ Hc)). cbn [length]. lia.
  - rewrite E'. eauto.
Qed.

Lemma tdict_empty m : dh_tdict (dh_empty_table m) = [].
Proof. unfold dh_empty_table. induction (N.to_nat m) as [|n IH]; cbn [repeat dh_tdict]; auto. Qed.

(* the condition the C++ guarantees: tsize = nearest_prime(hash_size) >= elements, tsize prime
   (or 1), h1 = bitwisehash < tsize, h2 = step_value in [1, tsize) (0 when tsize = 1) *)
Theorem dh_insert_succeeds m ks :
  m <= 2 ^ 63 -> lenN ks <= m -> Forall (fun hk => hk_ok m hk = true) ks ->
  exists t cs, dh_build m ks = Some (t, cs).
Proof.
  intros Hm63 Hlen Hok. unfold dh_build. apply insert_all_succeeds.
  - rewrite empty_table_lenN. assumption.
  - rewrite empty_table_lenN. assumption.
  - rewrite tdict_empty. unfold dh_empty_table. rewrite repeat_length. unfold lenN in Hlen. cbn [length]. lia.
Qed.

Lemma prime_hk_ok m k h1 h2 :
  prime m -> h1 < m -> 1 <= h2 < m -> hk_ok m (mkHKey k h1 h2) = true.
Proof.
  intros Hp Hh1 Hh2. unfold hk_ok. cbn [hk_h1 hk_h2].
  rewrite (prime_coprime m h2 Hp Hh2), N.eqb_refl.
  destruct (N.ltb_spec h1 m); [|lia]. destruct (N.ltb_spec h2 m); [|lia]. reflexivity.
Qed.

Lemma one_hk_ok k : hk_ok 1 (mkHKey k 0 0) = true.
Proof. reflexivity. Qed.

(* ------------------------------------------------------------------------ *)
(* Theorem 3: IDs.  ID = b_ht->rank1(cell); the ID-th string of Tdict* is the *)
(* key stored in that cell                                                    *)
(* ------------------------------------------------------------------------ *)
Lemma rank_tdict t : forall c k,
  nth_error t c = Some (Some k) ->
  1 <= dh_count1 (firstn (S c) (dh_bits_of t)) /\
  nthN (dh_tdict t) (dh_count1 (firstn (S c) (dh_bits_of t)) - 1) = Some k.
Proof.
  induction t as [|a r IH]; intros [|c] k; cbn [nth_error]; try discriminate.
  - intros H; injection H as ->. cbn [dh_bits_of map dh_is_occ firstn dh_count1 dh_tdict].
    split; [lia|]. reflexivity.
  - intros H. destruct (IH _ _ H) as [H1 H2]. unfold dh_bits_of in *.
    cbn [map]. rewrite firstn_cons. cbn [dh_count1].
    set (rk := dh_count1 (firstn (S c) (map dh_is_occ r))) in *.
    destruct a as [k0|]; cbn [dh_is_occ dh_tdict].
    + split; [lia|]. unfold nthN in *.
      replace (N.to_nat (1 + rk - 1)) with (S (N.to_nat (rk - 1))) by lia. cbn [nth_error]. assumption.
    + rewrite N.add_0_l. auto.
Qed.

Lemma id_of_cell_spec t c k :
  nthN t c = Some (Some k) ->
  1 <= dh_id_of_cell t c <= lenN (dh_tdict t) /\ nthN (dh_tdict t) (dh_id_of_cell t c - 1) = Some k.
Proof.
  intros H. unfold dh_id_of_cell, dh_rank1. destruct (rank_tdict t (N.to_nat c) k H) as [H1 H2].
  split; [|assumption]. split; [assumption|].
  apply nthN_Some_lt in H2. lia.
Qed.

(* the DAC/RP variants compare with the rank1(cell)-th string of Tdict*: the same key *)
Lemma stored_via_rank_eq t c k : nthN t c = Some (Some k) -> dh_stored_via_rank t c = Some k.
Proof. intros H. unfold dh_stored_via_rank. apply id_of_cell_spec; assumption. Qed.

Lemma extract_id_of_cell t c k : nthN t c = Some (Some k) -> dh_extract t (dh_id_of_cell t c) = Some k.
Proof.
  intros H. destruct (id_of_cell_spec t c k H) as [[H1 H2] H3]. unfold dh_extract.
  destruct (N.ltb_spec 0 (dh_id_of_cell t c)); [|lia].
  destruct (N.leb_spec (dh_id_of_cell t c) (lenN (dh_tdict t))); [|lia]. assumption.
Qed.

Lemma extract_bad_id t id : ~ (1 <= id <= lenN (dh_tdict t)) -> dh_extract t id = None.
Proof.
  intros H. unfold dh_extract.
  destruct (N.ltb_spec 0 id); [|reflexivity].
  destruct (N.leb_spec id (lenN (dh_tdict t))); [lia|reflexivity].
Qed.

Lemma insert_all_tdict_perm ks : forall t t' cs,
  dh_insert_all t ks = Some (t', cs) -> Permutation (dh_tdict t') (map hk_key ks ++ dh_tdict t).
Proof.
  induction ks as [|hk r IH]; intros t t' cs; cbn [dh_insert_all map app].
  - intros H; injection H as <- _. reflexivity.
  - destruct (dh_insert t hk) as [c1 t1| |] eqn:E; try discriminate.
    destruct (dh_insert_all t1 r) as [[t2 cs2]|] eqn:E2; try discriminate.
    intros H; injection H as <- _.
    destruct (insert_ok _ _ _ _ E) as [Hc ->].
    rewrite (IH _ _ _ E2). rewrite (tdict_hsetN _ _ _ Hc).
    symmetry. apply Permutation_middle.
Qed.

Lemma build_tdict_perm m ks t cs : dh_build m ks = Some (t, cs) -> Permutation (dh_tdict t) (map hk_key ks).
Proof.
  unfold dh_build. intros H. rewrite (insert_all_tdict_perm _ _ _ _ H), tdict_empty, app_nil_r. reflexivity.
Qed.

Lemma build_elements m ks t cs : dh_build m ks = Some (t, cs) -> lenN (dh_tdict t) = lenN ks.
Proof.
  intros H. unfold lenN. rewrite (Permutation_length (build_tdict_perm _ _ _ _ H)), map_length. reflexivity.
Qed.

Theorem dh_id_bijection m ks t cs :
  dh_build m ks = Some (t, cs) ->
  NoDup (map hk_key ks) ->
  (* number of stored strings *)
  lenN (dh_tdict t) = lenN ks /\
  (* the ID of an inserted key is the rank of the cell insert chose; extract inverts locate *)
  Forall2 (fun hk c => dh_locate t hk = Some (dh_id_of_cell t c) /\
                       1 <= dh_id_of_cell t c <= lenN ks /\
                       dh_extract t (dh_id_of_cell t c) = Some (hk_key hk)) ks cs /\
  (* every ID in [1,n] belongs to exactly one inserted key; locate inverts extract *)
  (forall id, 1 <= id <= lenN ks ->
     exists hk, In hk ks /\ dh_extract t id = Some (hk_key hk) /\ dh_locate t hk = Some id) /\
  (* injectivity *)
  (forall hk hk' id, In hk ks -> In hk' ks -> dh_locate t hk = Some id -> dh_locate t hk' = Some id ->
     hk_key hk = hk_key hk') /\
  (* IDs outside [1,n] give NULL *)
  (forall id, ~ (1 <= id <= lenN ks) -> dh_extract t id = None).
Proof.
  intros H Hnd.
  pose proof (build_elements _ _ _ _ H) as Hn.
  pose proof (dh_search_inserted _ _ _ _ H Hnd) as F.
  assert (F2 : Forall2 (fun hk c => dh_locate t hk = Some (dh_id_of_cell t c) /\
                       1 <= dh_id_of_cell t c <= lenN ks /\
                       dh_extract t (dh_id_of_cell t c) = Some (hk_key hk)) ks cs).
  { revert F. apply Forall2_imp. intros hk c [Hs Hc]. unfold dh_locate. rewrite Hs.
    split; [reflexivity|]. split; [|apply extract_id_of_cell; assumption].
    rewrite <- Hn. apply (id_of_cell_spec t c (hk_key hk)); assumption. }
  assert (Hndt : NoDup (dh_tdict t)).
  { eapply Permutation_NoDup; [symmetry; eapply build_tdict_perm; eauto|assumption]. }
  assert (Hinj : forall id id' k, 1 <= id <= lenN ks -> 1 <= id' <= lenN ks ->
                   dh_extract t id = Some k -> dh_extract t id' = Some k -> id = id').
  { intros id id' k Hid Hid'. unfold dh_extract. rewrite Hn.
    destruct (N.ltb_spec 0 id); [|lia]. destruct (N.ltb_spec 0 id'); [|lia].
    destruct (N.leb_spec id (lenN ks)); [|lia]. destruct (N.leb_spec id' (lenN ks)); [|lia].
    cbn [andb]. unfold nthN. intros E1 E2.
    assert (N.to_nat (id - 1) = N.to_nat (id' - 1)).
    { apply (proj1 (NoDup_nth_error (dh_tdict t)) Hndt); [|congruence].
      apply nth_error_Some. congruence. }
    lia. }
  split; [assumption|]. split; [assumption|]. split; [|split].
  - intros id Hid.
    assert (Hex : exists k, nthN (dh_tdict t) (id - 1) = Some k).
    { apply nthN_lt_Some. lia. }
    destruct Hex as [k Hk].
    assert (Hin : In k (map hk_key ks)).
    { eapply Permutation_in; [eapply build_tdict_perm; eauto|]. eapply nthN_In; eauto. }
    apply in_map_iff in Hin as [hk [Hkey Hin]]. exists hk. split; [assumption|].
    assert (Hext : dh_extract t id = Some (hk_key hk)).
    { unfold dh_extract. rewrite Hn. destruct (N.ltb_spec 0 id); [|lia].
      destruct (N.leb_spec id (lenN ks)); [|lia]. cbn [andb]. congruence. }
    split; [assumption|].
    destruct (Forall2_In_l _ _ _ _ F2 Hin) as [c [_ [Hl [Hr He]]]].
    rewrite Hl. f_equal. eapply Hinj; eauto.
  - intros hk hk' id Hin Hin' Hl Hl'.
    destruct (Forall2_In_l _ _ _ _ F2 Hin) as [c [_ [Hl1 [_ He1]]]].
    destruct (Forall2_In_l _ _ _ _ F2 Hin') as [c' [_ [Hl2 [_ He2]]]].
    assert (dh_id_of_cell t c = id) by congruence. assert (dh_id_of_cell t c' = id) by congruence.
    congruence.
  - intros id Hid. apply extract_bad_id. rewrite Hn. assumption.
Qed.

(* ------------------------------------------------------------------------ *)
(* Theorem 5: nearest_prime                                                   *)
(* ------------------------------------------------------------------------ *)
Definition np_inv (p s n : N) (st : N * bool) : Prop :=
  3 <= fst st /\ fst st mod 2 = 1 /\
  (snd st = false ->
     fst st = 3 + 2 * n /\ forall j, 3 <= j < fst st -> j mod 2 = 1 -> p mod j <> 0) /\
  (snd st = true ->
     (s <= fst st /\ forall j, 3 <= j < s -> j mod 2 = 1 -> p mod j <> 0) \/
     (fst st < s /\ p mod fst st = 0)).

Lemma np_inv_step p s n st : np_inv p s n st -> np_inv p s (N.succ n) (np_inner_step p s st).
Proof.
  destruct st as [i stop]. unfold np_inv, np_inner_step. cbn [fst snd].
  intros [H3 [Hodd [Hf Ht]]].
  destruct stop.
  - cbn [fst snd]. split; [assumption|]. split; [assumption|]. split; [discriminate|]. assumption.
  - destruct (Hf eq_refl) as [Hi Hall]. clear Hf Ht.
    destruct (N.ltb_spec i s) as [Hlt|Hge].
    + destruct (N.eqb_spec (p mod i) 0) as [Hz|Hnz]; cbn [fst snd].
      * split; [assumption|]. split; [assumption|]. split; [discriminate|]. intros _. right. split; assumption.
      * split; [lia|]. split; [lia|]. split; [|discriminate]. intros _. split; [lia|].
        intros j Hj Hjodd.
        destruct (N.lt_ge_cases j i) as [Hji|Hji]; [apply Hall; [lia|assumption]|].
        assert (j = i) by lia. subst j. assumption.
    + cbn [fst snd]. split; [assumption|]. split; [assumption|]. split; [discriminate|].
      intros _. left. split; [assumption|].
      intros j Hj Hjodd. apply Hall; [lia|assumption].
Qed.

Lemma np_inner_spec p s :
  let i := np_inner p s in
  3 <= i /\
  ((s <= i /\ forall j, 3 <= j < s -> j mod 2 = 1 -> p mod j <> 0) \/ (i < s /\ p mod i = 0)).
Proof.
  unfold np_inner.
  assert (H : np_inv p s s (N.iter s (np_inner_step p s) (3, false))).
  { apply (N.iter_ind _ (np_inner_step p s) (3, false) (np_inv p s)).
    - unfold np_inv. cbn [fst snd]. split; [lia|]. split; [reflexivity|]. split; [|discriminate].
      intros _. split; [reflexivity|]. intros j Hj. lia.
    - intros n a. apply np_inv_step. }
  destruct (N.iter s (np_inner_step p s) (3, false)) as [i stop].
  unfold np_inv in H. cbn [fst snd] in *. destruct H as [H3 [Hodd [Hf Ht]]].
  split; [assumption|].
  destruct stop; [auto|]. destruct (Hf eq_refl) as [Hi Hall]. left. split; [lia|].
  intros j Hj. apply Hall. lia.
Qed.

Lemma no_small_factor p :
  p mod 2 = 1 ->
  (forall j, 3 <= j < N.sqrt p + 1 -> j mod 2 = 1 -> p mod j <> 0) ->
  forall a b, p = a * b -> 1 < a -> a <= b -> False.
Proof.
  intros Hodd Hall a b Hp Ha Hab.
  assert (Hsq : a <= N.sqrt p).
  { apply N.sqrt_le_square. rewrite Hp. apply N.mul_le_mono_l. assumption. }
  assert (Haodd : a mod 2 = 1).
  { destruct (N.eq_dec (a mod 2) 1) as [|Hne]; [assumption|exfalso].
    assert (Ha2 : a = 2 * (a / 2)) by lia.
    assert (Hp2 : p = (a / 2 * b) * 2) by (rewrite Hp; rewrite Ha2 at 1; lia).
    rewrite Hp2, N.mod_mul in Hodd by lia. discriminate. }
  apply (Hall a); [lia|assumption|].
  rewrite Hp, N.mul_comm. apply N.mod_mul. lia.
Qed.

Lemma odd_no_factor_prime p :
  p mod 2 = 1 ->
  (forall j, 3 <= j < N.sqrt p + 1 -> j mod 2 = 1 -> p mod j <> 0) ->
  p = 1 \/ prime p.
Proof.
  intros Hodd Hall. destruct (N.eq_dec p 1) as [|Hp1]; [left; assumption|right].
  assert (Hp : 1 < p) by lia.
  split; [assumption|]. intros d Hd Hmod.
  assert (Hpd : p = d * (p / d)) by (apply N.div_exact; [lia|assumption]).
  set (e := p / d) in *.
  assert (He : 1 < e).
  { destruct (N.lt_ge_cases 1 e) as [|Hle]; [assumption|exfalso].
    assert (Hcases : e = 0 \/ e = 1) by lia. destruct Hcases as [E|E]; rewrite E in Hpd; lia. }
  destruct (N.le_ge_cases d e) as [Hde|Hed].
  - apply (no_small_factor p Hodd Hall d e); [assumption|lia|assumption].
  - apply (no_small_factor p Hodd Hall e d); [rewrite N.mul_comm; assumption|assumption|assumption].
Qed.

Lemma nearest_prime_loop_spec fuel : forall p0 r,
  nearest_prime_loop fuel p0 = Some r ->
  p0 <= r /\ r mod 2 = 1 /\
  (forall j, 3 <= j < N.sqrt r + 1 -> j mod 2 = 1 -> r mod j <> 0).
Proof.
  induction fuel as [|f IH]; intros p0 r; cbn [nearest_prime_loop]; [discriminate|].
  destruct (N.eqb_spec (p0 mod 2) 0) as [Hev|Hodd]; cbn [negb].
  - intros H. destruct (IH _ _ H) as [H1 H2]. split; [lia|assumption].
  - destruct (np_inner_spec p0 (N.sqrt p0 + 1)) as [_ Hsp].
    destruct (N.leb_spec (N.sqrt p0 + 1) (np_inner p0 (N.sqrt p0 + 1))) as [Hle|Hgt].
    + intros H; injection H as <-. split; [lia|]. split; [lia|].
      destruct Hsp as [[_ Hall]|[Hlt _]]; [assumption|lia].
    + intros H. destruct (IH _ _ H) as [H1 H2]. split; [lia|assumption].
Qed.

(* what the loop really returns: an odd number >= n that is 1 or an (odd) prime;
   NOT the least prime >= n (nearest_prime 2 = 3) and not a prime for n <= 1 *)
Theorem nearest_prime_spec fuel n r :
  nearest_prime fuel n = Some r ->
  n <= r /\ r mod 2 = 1 /\ (r = 1 \/ prime r) /\ (2 <= n -> prime r).
Proof.
  unfold nearest_prime. intros H.
  destruct (nearest_prime_loop_spec _ _ _ H) as [H1 [H2 H3]].
  pose proof (odd_no_factor_prime r H2 H3) as Hp.
  split; [assumption|]. split; [assumption|]. split; [assumption|].
  intros Hn. destruct Hp as [->|Hp]; [lia|assumption].
Qed.

(* a table size returned by nearest_prime makes every step value coprime *)
Corollary nearest_prime_coprime fuel n m h2 :
  nearest_prime fuel n = Some m ->
  (m = 1 /\ h2 = 0) \/ (1 <= h2 < m) ->
  N.gcd h2 m = 1.
Proof.
  intros H Hh. destruct (nearest_prime_spec _ _ _ H) as [_ [_ [Hp _]]].
  destruct Hh as [[-> ->]|Hh]; [reflexivity|].
  destruct Hp as [->|Hp]; [lia|]. apply prime_coprime; assumption.
Qed.

(* ------------------------------------------------------------------------ *)
(* the boolean checker run by the harness on the real (tsize, h1, h2) values  *)
(* ------------------------------------------------------------------------ *)
Lemma dh_build_ok_sound m ks :
  dh_build_ok m ks = true ->
  m < 2 ^ 32 /\ lenN ks <= m /\ Forall (fun hk => hk_ok m hk = true) ks /\ NoDup (map hk_key ks).
Proof.
  unfold dh_build_ok. rewrite !andb_true_iff, N.ltb_lt, N.leb_le, forallb_forall.
  intros [[[H1 H2] H3] H4]. repeat split; auto.
  - apply Forall_forall. assumption.
  - apply keys_nodup_NoDup. assumption.
Qed.

Lemma Forall2_conj {A B} (R1 R2 : A -> B -> Prop) l l' :
  Forall2 R1 l l' -> Forall2 R2 l l' -> Forall2 (fun a b => R1 a b /\ R2 a b) l l'.
Proof. induction 1; intros H2; inversion H2; subst; constructor; auto. Qed.

Lemma Forall2_Forall_l {A B} (P : A -> Prop) (R : A -> B -> Prop) l l' :
  Forall P l -> Forall2 R l l' -> Forall2 (fun a b => P a /\ R a b) l l'.
Proof. intros HP; induction 1; inversion HP; subst; constructor; auto. Qed.

(* everything the dictionaries rely on, from the checkable hypothesis *)
Theorem dh_table_correct m ks :
  dh_build_ok m ks = true ->
  exists t cs,
    dh_build m ks = Some (t, cs) /\ lenN t = m /\
    Forall2 (fun hk c => dh_search t hk = SFound c /\ dh_search_mul t hk = SFound c /\
                         dh_locate t hk = Some (dh_id_of_cell t c) /\
                         dh_extract t (dh_id_of_cell t c) = Some (hk_key hk)) ks cs /\
    (forall q, ~ In (hk_key q) (map hk_key ks) -> hk_h1 q < m ->
       dh_search t q = SAbsent /\ dh_search_mul t q = SAbsent /\ dh_locate t q = Some 0).
Proof.
  intros Hok. destruct (dh_build_ok_sound _ _ Hok) as [Hm [Hlen [Hhk Hnd]]].
  destruct (dh_insert_succeeds m ks) as [t [cs Hb]]; try assumption.
  { change (2 ^ 32) with 4294967296 in Hm. change (2 ^ 63) with 9223372036854775808. lia. }
  exists t, cs. pose proof (build_lenN _ _ _ _ Hb) as Hl.
  split; [assumption|]. split; [assumption|]. split.
  - destruct (dh_id_bijection _ _ _ _ Hb Hnd) as [_ [F2 _]].
    pose proof (dh_search_inserted _ _ _ _ Hb Hnd) as F1.
    pose proof (Forall2_Forall_l _ _ _ _ Hhk (Forall2_conj _ _ _ _ F1 F2)) as F.
    revert F. apply Forall2_imp. intros hk c [Hk [[Hs Hc] [Hl1 [_ He1]]]].
    split; [assumption|]. split; [|split; assumption].
    apply hk_ok_spec in Hk as [Hh1 [Hh2 _]].
    rewrite search_mul_eq; [assumption|lia|lia|lia].
  - intros q Hq Hh. destruct (dh_search_absent _ _ _ _ q Hb Hq Hh) as [H1 H2].
    split; [assumption|]. split; [assumption|]. unfold dh_locate. rewrite H1. reflexivity.
Qed.

(* ------------------------------------------------------------------------ *)
(* Theorem 4: the three stored representations answer alike                   *)
(* ------------------------------------------------------------------------ *)
From Coq Require Import Sorted.

(* contents of the occupied cells, in cell order *)
Fixpoint occ {A} (t : list (option A)) : list A :=
  match t with
  | [] => []
  | Some x :: r => x :: occ r
  | None :: r => occ r
  end.

Lemma tdict_occ t : dh_tdict t = occ t.
Proof. induction t as [|[x|] r IH]; cbn [dh_tdict occ]; congruence. Qed.

Lemma count1_bits_occ {A} (t : list (option A)) : dh_count1 (dh_bits_of t) = lenN (occ t).
Proof.
  unfold dh_bits_of. induction t as [|[x|] r IH]; cbn [map dh_is_occ dh_count1 occ]; [reflexivity| |].
  - rewrite IH, lenN_cons. reflexivity.
  - rewrite IH. apply N.add_0_l.
Qed.

Lemma rank_occ {A} (t : list (option A)) : forall c x,
  nth_error t c = Some (Some x) ->
  1 <= dh_count1 (firstn (S c) (dh_bits_of t)) /\
  nthN (occ t) (dh_count1 (firstn (S c) (dh_bits_of t)) - 1) = Some x.
Proof.
  induction t as [|a r IH]; intros [|c] x; cbn [nth_error]; try discriminate.
  - intros H; injection H as ->. cbn [dh_bits_of map dh_is_occ firstn dh_count1 occ].
    split; [lia|]. reflexivity.
  - intros H. destruct (IH _ _ H) as [H1 H2]. unfold dh_bits_of in *.
    cbn [map]. rewrite firstn_cons. cbn [dh_count1].
    set (rk := dh_count1 (firstn (S c) (map dh_is_occ r))) in *.
    destruct a as [x0|]; cbn [dh_is_occ occ].
    + split; [lia|]. unfold nthN in *.
      replace (N.to_nat (1 + rk - 1)) with (S (N.to_nat (rk - 1))) by lia. cbn [nth_error]. assumption.
    + rewrite N.add_0_l. auto.
Qed.

Lemma select1_from_occ {A} (t : list (option A)) : forall k pos,
  1 <= k <= lenN (occ t) ->
  exists p x, dh_select1_from (dh_bits_of t) k pos = Some (pos + N.of_nat p) /\
              nth_error t p = Some (Some x) /\ nthN (occ t) (k - 1) = Some x.
Proof.
  unfold dh_bits_of. induction t as [|a r IH]; intros k pos Hk; cbn [occ] in Hk.
  - rewrite lenN_nil in Hk. lia.
  - destruct a as [x0|]; cbn [map dh_is_occ dh_select1_from occ].
    + rewrite lenN_cons in Hk. destruct (N.eqb_spec k 1) as [->|Hk1].
      * exists O, x0. split; [f_equal; lia|]. split; reflexivity.
      * destruct (IH (k - 1) (pos + 1)) as [p [x [H1 [H2 H3]]]]; [lia|].
        exists (S p), x. split; [rewrite H1; f_equal; lia|]. split; [assumption|].
        unfold nthN in *. replace (N.to_nat (k - 1)) with (S (N.to_nat (k - 1 - 1))) by lia. assumption.
    + destruct (IH k (pos + 1)) as [p [x [H1 [H2 H3]]]]; [assumption|].
      exists (S p), x. split; [rewrite H1; f_equal; lia|]. split; assumption.
Qed.

Lemma getValue_dh_occ ot id :
  1 <= id <= lenN (occ ot) -> getValue_dh (dh_finish ot) id = nthN (occ ot) (id - 1).
Proof.
  intros Hid. unfold getValue_dh, dh_finish, dh_select1. cbn [ft_bits ft_hash].
  destruct (N.eqb_spec id 0) as [->|_]; [lia|].
  destruct (select1_from_occ ot id 0 Hid) as [p [x [H1 [H2 H3]]]].
  rewrite H1, H3. unfold nthN. replace (N.to_nat (0 + N.of_nat p)) with p by lia.
  rewrite nth_error_map, H2. reflexivity.
Qed.

Lemma skipn_cons_nth {A} (l : list A) : forall n x,
  nth_error l n = Some x -> skipn n l = x :: skipn (S n) l.
Proof.
  induction l as [|a r IH]; intros [|n] x; cbn [nth_error]; try discriminate.
  - intros H; injection H as ->. reflexivity.
  - intros H. rewrite skipn_cons. rewrite (IH _ _ H). reflexivity.
Qed.

Lemma compact_from_occ ot cnt : forall i,
  1 <= i -> (N.to_nat (i - 1) + cnt <= length (occ ot))%nat ->
  dh_compact_from (dh_finish ot) cnt i = Some (firstn cnt (skipn (N.to_nat (i - 1)) (occ ot))).
Proof.
  induction cnt as [|c IH]; intros i Hi Hlen; cbn [dh_compact_from]; [reflexivity|].
  rewrite getValue_dh_occ by (unfold lenN; lia).
  destruct (nthN (occ ot) (i - 1)) as [x|] eqn:E.
  - rewrite IH by lia. unfold nthN in E. rewrite (skipn_cons_nth _ _ _ E), firstn_cons.
    replace (N.to_nat (i + 1 - 1)) with (S (N.to_nat (i - 1))) by lia. reflexivity.
  - exfalso. revert E. apply nthN_lt_not_None. unfold lenN. lia.
Qed.

Lemma compact_B_occ ot : dh_compact_B (dh_finish ot) (lenN (occ ot)) = Some (occ ot).
Proof.
  unfold dh_compact_B. rewrite compact_from_occ; [|lia|unfold lenN; cbn; lia].
  change (N.to_nat (1 - 1)) with O. cbn [skipn]. unfold lenN. rewrite Nat2N.id, firstn_all. reflexivity.
Qed.

(* ---- HashBBdh: the bitmap of offsets ---------------------------------------- *)
Lemma fold_set_lenN offs : forall bs,
  lenN (fold_left (fun bs o => dh_setN bs o true) offs bs) = lenN bs.
Proof.
  induction offs as [|o r IH]; intros bs; cbn [fold_left]; [reflexivity|].
  rewrite IH. apply hsetN_lenN.
Qed.

Lemma fold_set_nthN offs : forall bs j, j < lenN bs ->
  nthN (fold_left (fun bs o => dh_setN bs o true) offs bs) j =
  Some (existsb (N.eqb j) offs || match nthN bs j with Some b => b | None => false end).
Proof.
  induction offs as [|o r IH]; intros bs j Hj; cbn [fold_left existsb].
  - destruct (nthN_lt_Some bs j Hj) as [b Hb]. rewrite Hb. reflexivity.
  - rewrite IH by (rewrite hsetN_lenN; assumption).
    destruct (N.eqb_spec j o) as [->|Hne].
    + rewrite nthN_hsetN_eq by assumption. rewrite orb_true_r. reflexivity.
    + rewrite nthN_hsetN_neq by congruence. reflexivity.
Qed.

Lemma nthN_cons_succ {A} (a : A) l j : nthN (a :: l) (j + 1) = nthN l j.
Proof. unfold nthN. replace (N.to_nat (j + 1)) with (S (N.to_nat j)) by lia. reflexivity. Qed.

Lemma existsb_eqb_In x l : existsb (N.eqb x) l = true <-> In x l.
Proof.
  rewrite existsb_exists. split.
  - intros [y [Hy E]]. apply N.eqb_eq in E. subst. assumption.
  - intros H. exists x. split; [assumption|apply N.eqb_refl].
Qed.

(* select on a bitmap that marks exactly the elements of a strictly increasing list *)
Lemma select1_from_sorted bs : forall base offs k pos,
  StronglySorted N.lt offs ->
  (forall o, In o offs -> base <= o < base + lenN bs) ->
  (forall j, j < lenN bs -> nthN bs j = Some (existsb (N.eqb (base + j)) offs)) ->
  1 <= k <= lenN offs ->
  exists o, nthN offs (k - 1) = Some o /\ dh_select1_from bs k pos = Some (pos + (o - base)).
Proof.
  induction bs as [|b r IH]; intros base offs k pos Hs Hr Hp Hk.
  - exfalso. destruct offs as [|o offs]; [rewrite lenN_nil in Hk; lia|].
    specialize (Hr o (or_introl eq_refl)). rewrite lenN_nil in Hr. lia.
  - assert (Hb : b = existsb (N.eqb base) offs).
    { specialize (Hp 0). rewrite N.add_0_r in Hp. unfold nthN in Hp at 1. cbn [N.to_nat nth_error] in Hp.
      rewrite lenN_cons in Hp. specialize (Hp ltac:(lia)). congruence. }
    assert (Hp' : forall offs', (forall j, j < lenN r -> existsb (N.eqb (base + (j + 1))) offs = existsb (N.eqb (base + 1 + j)) offs') ->
                  forall j, j < lenN r -> nthN r j = Some (existsb (N.eqb (base + 1 + j)) offs')).
    { intros offs' He j Hj. rewrite <- He by assumption. rewrite <- (nthN_cons_succ b r j). apply Hp.
      rewrite lenN_cons. lia. }
    cbn [dh_select1_from]. destruct b.
    + (* the smallest offset is [base] *)
      symmetry in Hb. apply existsb_eqb_In in Hb.
      destruct offs as [|o1 offs']; [contradiction|].
      apply StronglySorted_inv in Hs as [Hs' Hall].
      assert (Ho1 : o1 = base).
      { destruct Hb as [|Hb]; [assumption|]. rewrite Forall_forall in Hall. specialize (Hall _ Hb).
        specialize (Hr o1 (or_introl eq_refl)). lia. }
      subst o1. rewrite lenN_cons in Hk.
      destruct (N.eqb_spec k 1) as [->|Hk1].
      * exists base. split; [reflexivity|]. f_equal. lia.
      * destruct (IH (base + 1) offs' (k - 1) (pos + 1)) as [o [Ho Hsel]]; try assumption.
        -- intros o Ho. rewrite Forall_forall in Hall. specialize (Hall _ Ho).
           specialize (Hr o (or_intror Ho)). rewrite lenN_cons in Hr. lia.
        -- apply Hp'. intros j Hj. cbn [existsb].
           destruct (N.eqb_spec (base + (j + 1)) base); [lia|]. cbn [orb].
           replace (base + (j + 1)) with (base + 1 + j) by lia. reflexivity.
        -- lia.
        -- exists o. split.
           ++ unfold nthN in *. replace (N.to_nat (k - 1)) with (S (N.to_nat (k - 1 - 1))) by lia. assumption.
           ++ rewrite Hsel. f_equal.
              assert (base < o).
              { rewrite Forall_forall in Hall. apply Hall. eapply nthN_In; eauto. }
              lia.
    + (* [base] is not an offset *)
      assert (Hnb : ~ In base offs).
      { intros Hin. apply existsb_eqb_In in Hin. congruence. }
      destruct (IH (base + 1) offs k (pos + 1)) as [o [Ho Hsel]]; try assumption.
      * intros o Ho. specialize (Hr o Ho). rewrite lenN_cons in Hr.
        assert (o <> base) by (intros ->; contradiction). lia.
      * apply Hp'. intros j Hj. replace (base + (j + 1)) with (base + 1 + j) by lia. reflexivity.
      * exists o. split; [assumption|]. rewrite Hsel. f_equal.
        assert (o <> base) by (intros ->; apply Hnb; eapply nthN_In; eauto).
        assert (base <= o) by (apply Hr; eapply nthN_In; eauto). lia.
Qed.

Lemma sorted_nth_le l : StronglySorted N.lt l -> forall i j a b,
  nth_error l i = Some a -> nth_error l j = Some b -> (i <= j)%nat -> a <= b.
Proof.
  induction 1 as [|x l Hs IH Hall]; intros [|i] [|j] a b; cbn [nth_error]; try discriminate; intros Ha Hb Hij.
  - injection Ha as <-. injection Hb as <-. lia.
  - injection Ha as <-. rewrite Forall_forall in Hall. apply nth_error_In in Hb. specialize (Hall _ Hb). lia.
  - lia.
  - eapply IH; eauto. lia.
Qed.

Lemma offbits_BB_occ ot :
  StronglySorted N.lt (occ ot) -> 1 <= lenN (occ ot) ->
  exists offb, dh_offbits_BB (dh_finish ot) (lenN (occ ot)) = Some offb /\
    forall id, 1 <= id <= lenN (occ ot) -> dh_select1 offb id = nthN (occ ot) (id - 1).
Proof.
  intros Hs Hn. unfold dh_offbits_BB.
  rewrite getValue_dh_occ by lia. rewrite compact_B_occ.
  destruct (nthN_lt_Some (occ ot) (lenN (occ ot) - 1)) as [last Hlast]; [lia|]. rewrite Hlast.
  eexists. split; [reflexivity|].
  set (bs0 := repeat false (N.to_nat (last + 1))).
  assert (Hl0 : lenN bs0 = last + 1) by (unfold bs0, lenN; rewrite repeat_length; lia).
  assert (Hle : forall o, In o (occ ot) -> o <= last).
  { intros o Ho. apply In_nth_error in Ho as [i Hi].
    apply (sorted_nth_le _ Hs i (N.to_nat (lenN (occ ot) - 1)) o last Hi Hlast).
    assert (i < length (occ ot))%nat by (apply nth_error_Some; congruence). unfold lenN. lia. }
  intros id Hid. unfold dh_select1. destruct (N.eqb_spec id 0); [lia|].
  destruct (select1_from_sorted (fold_left (fun bs o => dh_setN bs o true) (occ ot) bs0) 0 (occ ot) id 0)
    as [o [Ho Hsel]]; try assumption.
  - intros o Ho. rewrite fold_set_lenN, Hl0. specialize (Hle o Ho). lia.
  - intros j Hj. rewrite fold_set_lenN in Hj. rewrite fold_set_nthN by assumption.
    rewrite Hl0 in Hj.
    assert (Hf : nthN bs0 j = Some false).
    { unfold nthN, bs0. apply nth_error_repeat. lia. }
    rewrite Hf, orb_false_r. reflexivity.
  - rewrite Hsel, Ho. f_equal. lia.
Qed.

Theorem hash_repr_equiv ot :
  StronglySorted N.lt (occ ot) -> 1 <= lenN (occ ot) ->
  exists comp offb,
    dh_count1 (ft_bits (dh_finish ot)) = lenN (occ ot) /\
    dh_compact_B (dh_finish ot) (lenN (occ ot)) = Some comp /\
    dh_offbits_BB (dh_finish ot) (lenN (occ ot)) = Some offb /\
    (* getValuePos: the offset stored for an occupied cell *)
    (forall c o, nthN ot c = Some (Some o) ->
       getValuePos_dh (dh_finish ot) c = Some o /\
       getValuePos_B (ft_bits (dh_finish ot)) comp c = Some o /\
       getValuePos_BB (ft_bits (dh_finish ot)) offb c = Some o) /\
    (* getValue: the offset of the id-th string *)
    (forall id, 1 <= id <= lenN (occ ot) ->
       exists o, nthN (occ ot) (id - 1) = Some o /\
         getValue_dh (dh_finish ot) id = Some o /\ getValue_B comp id = Some o /\ getValue_BB offb id = Some o).
Proof.
  intros Hs Hn. destruct (offbits_BB_occ ot Hs Hn) as [offb [Hoffb Hsel]].
  exists (occ ot), offb.
  split; [apply (count1_bits_occ ot)|]. split; [apply compact_B_occ|]. split; [assumption|]. split.
  - intros c o Hc. unfold nthN in Hc.
    destruct (rank_occ ot (N.to_nat c) o Hc) as [H1 H2].
    assert (Hub : dh_count1 (firstn (S (N.to_nat c)) (dh_bits_of ot)) <= lenN (occ ot)).
    { apply nthN_Some_lt in H2. lia. }
    split; [|split].
    + unfold getValuePos_dh, dh_finish, nthN. cbn [ft_hash]. rewrite nth_error_map, Hc. reflexivity.
    + unfold getValuePos_B, dh_rank1, dh_finish. cbn [ft_bits]. assumption.
    + unfold getValuePos_BB, dh_rank1, dh_finish. cbn [ft_bits]. rewrite Hsel by lia. assumption.
  - intros id Hid. destruct (nthN_lt_Some (occ ot) (id - 1)) as [o Ho]; [lia|].
    exists o. split; [assumption|]. split; [|split].
    + rewrite getValue_dh_occ by assumption. assumption.
    + unfold getValue_B. assumption.
    + unfold getValue_BB. rewrite Hsel by assumption. assumption.
Qed.

(* ------------------------------------------------------------------------ *)
(* the precondition length ks <= tsize is necessary: with a table smaller     *)
(* than the number of strings (constructor called with overhead < 0) insert   *)
(* returns (size_t)-1 and the caller then writes hashtable[(size_t)-1].        *)
(* Witness = the hash values of "aa","bb","cc","dd" for tsize 3 (replayed).    *)
(* ------------------------------------------------------------------------ *)
Theorem dh_insert_overfull_refuted :
  exists m ks, NoDup (map hk_key ks) /\ Forall (fun hk => hk_ok m hk = true) ks /\
               lenN ks = m + 1 /\ dh_build m ks = None.
Proof.
  exists 3, [mkHKey [97; 97] 1 1; mkHKey [98; 98] 2 1; mkHKey [99; 99] 0 1; mkHKey [100; 100] 1 1].
  split; [apply keys_nodup_NoDup; vm_compute; reflexivity|].
  split; [repeat constructor|]. split; vm_compute; reflexivity.
Qed.
