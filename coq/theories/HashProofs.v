(* Proofs about the double-hashing model (HashDefs.v). *)
From LibCSD Require Import Base HashDefs.
From Coq Require Import Lia ZifyBool ZifyNat ZifyN Permutation.
Ltac Zify.zify_post_hook ::= Z.to_euclidean_division_equations.
Local Open Scope N_scope.

(* ------------------------------------------------------------------------ *)
(* keys                                                                      *)
(* ------------------------------------------------------------------------ *)
Lemma key_eqb_eq a b : key_eqb a b = true <-> a = b.
Proof.
  revert b; induction a as [|x a IH]; intros [|y b]; cbn [key_eqb]; split; intros H;
    try reflexivity; try discriminate.
  - apply andb_true_iff in H as [H1 H2]. apply N.eqb_eq in H1. apply IH in H2. congruence.
  - injection H as -> ->. rewrite N.eqb_refl. cbn. apply IH. reflexivity.
Qed.

Lemma key_eqb_refl a : key_eqb a a = true.
Proof. apply key_eqb_eq; reflexivity. Qed.

Lemma key_eqb_neq a b : a <> b -> key_eqb a b = false.
Proof. intros H. destruct (key_eqb a b) eqn:E; [apply key_eqb_eq in E; contradiction|reflexivity]. Qed.

Lemma key_in_In k l : key_in k l = true <-> In k l.
Proof.
  induction l as [|x r IH]; cbn [key_in In]; [split; [discriminate|tauto]|].
  rewrite orb_true_iff, key_eqb_eq, IH. tauto.
Qed.

Lemma keys_nodup_NoDup l : keys_nodup l = true -> NoDup l.
Proof.
  induction l as [|x r IH]; cbn [keys_nodup]; intros H; [constructor|].
  apply andb_true_iff in H as [H1 H2]. constructor; [|auto].
  intros Hin. apply key_in_In in Hin. rewrite Hin in H1. discriminate.
Qed.

(* ------------------------------------------------------------------------ *)
(* hset                                                                      *)
(* ------------------------------------------------------------------------ *)
Lemma hset_length {A} (l : list A) i x : length (hset l i x) = length l.
Proof. revert i; induction l as [|a l IH]; intros [|i]; cbn [hset length]; auto. Qed.

Lemma hset_nth_eq {A} (l : list A) i x : (i < length l)%nat -> nth_error (hset l i x) i = Some x.
Proof.
  revert i; induction l as [|a l IH]; intros [|i] H; cbn [hset length nth_error] in *; try lia; auto.
  apply IH; lia.
Qed.

Lemma hset_nth_neq {A} (l : list A) i j x : i <> j -> nth_error (hset l i x) j = nth_error l j.
Proof.
  revert i j; induction l as [|a l IH]; intros [|i] [|j] H; cbn [hset nth_error]; auto; try congruence.
Qed.

Lemma hset_In {A} (l : list A) i x y : In y (hset l i x) -> y = x \/ In y l.
Proof.
  revert i; induction l as [|a l IH]; intros [|i]; cbn [hset In]; intros H; auto.
  - destruct H; auto.
  - destruct H as [H|H]; auto. apply IH in H. tauto.
Qed.

Lemma hsetN_lenN {A} (l : list A) i x : lenN (hsetN l i x) = lenN l.
Proof. unfold lenN, hsetN. rewrite hset_length. reflexivity. Qed.

Lemma hsetN_length {A} (l : list A) i x : length (hsetN l i x) = length l.
Proof. unfold hsetN. apply hset_length. Qed.

Lemma nthN_hsetN_eq {A} (l : list A) i x : i < lenN l -> nthN (hsetN l i x) i = Some x.
Proof. unfold nthN, hsetN, lenN. intros H. apply hset_nth_eq. lia. Qed.

Lemma nthN_hsetN_neq {A} (l : list A) i j x : i <> j -> nthN (hsetN l i x) j = nthN l j.
Proof. unfold nthN, hsetN. intros H. apply hset_nth_neq. lia. Qed.

Lemma hsetN_In {A} (l : list A) i x y : In y (hsetN l i x) -> y = x \/ In y l.
Proof. apply hset_In. Qed.

Lemma nthN_In {A} (l : list A) i x : nthN l i = Some x -> In x l.
Proof. unfold nthN. apply nth_error_In. Qed.

(* ------------------------------------------------------------------------ *)
(* insert: what a successful insertion does                                  *)
(* ------------------------------------------------------------------------ *)
Lemma insert_loop_ok fuel t k m h2 hval c t' :
  insert_loop fuel t k m h2 hval = IOk c t' ->
  nthN t c = Some None /\ t' = hsetN t c (Some k).
Proof.
  revert hval; induction fuel as [|f IH]; intros hval; cbn [insert_loop]; [discriminate|].
  destruct (nthN t (step m h2 hval)) as [[k0|]|] eqn:E; intros H.
  - eauto.
  - injection H as <- <-. auto.
  - discriminate.
Qed.

Lemma insert_ok t hk c t' :
  insert t hk = IOk c t' ->
  nthN t c = Some None /\ t' = hsetN t c (Some (hk_key hk)).
Proof.
  unfold insert. destruct (nthN t (hk_h1 hk)) as [[k0|]|] eqn:E; intros H.
  - eapply insert_loop_ok; eauto.
  - injection H as <- <-. auto.
  - discriminate.
Qed.

(* searching the key just inserted follows the insertion path *)
Lemma insert_then_search_loop fuel t k m h2 hval c t' :
  insert_loop fuel t k m h2 hval = IOk c t' ->
  ~ In (Some k) t ->
  search_loop fuel t' k m h2 hval = SFound c.
Proof.
  intros H Hfresh. destruct (insert_loop_ok _ _ _ _ _ _ _ _ H) as [Hc ->].
  revert hval H; induction fuel as [|f IH]; intros hval; cbn [insert_loop search_loop]; [discriminate|].
  destruct (nthN t (step m h2 hval)) as [[k0|]|] eqn:E; intros H.
  - assert (Hne : c <> step m h2 hval) by (intros ->; congruence).
    rewrite nthN_hsetN_neq, E by assumption.
    rewrite key_eqb_neq; [auto|].
    intros ->. apply Hfresh. eapply nthN_In; eauto.
  - injection H as <-. rewrite nthN_hsetN_eq by (eapply nthN_Some_lt; eauto).
    rewrite key_eqb_refl. reflexivity.
  - discriminate.
Qed.

Lemma insert_then_search t hk c t' :
  insert t hk = IOk c t' ->
  ~ In (Some (hk_key hk)) t ->
  search t' hk = SFound c.
Proof.
  intros H Hfresh. destruct (insert_ok _ _ _ _ H) as [Hc Ht'].
  unfold insert in H. unfold search.
  destruct (nthN t (hk_h1 hk)) as [[k0|]|] eqn:E.
  - assert (Hne : c <> hk_h1 hk) by (intros ->; congruence).
    subst t'. rewrite nthN_hsetN_neq, E by assumption.
    rewrite key_eqb_neq.
    + rewrite hsetN_length, hsetN_lenN.
      eapply insert_then_search_loop; eassumption.
    + intros ->. apply Hfresh. eapply nthN_In; eauto.
  - injection H as <- _. rewrite Ht', nthN_hsetN_eq by (eapply nthN_Some_lt; eauto).
    rewrite key_eqb_refl. reflexivity.
  - discriminate.
Qed.

(* a successful search only walks through occupied cells: filling an empty cell
   (cells never become empty again) does not change its result *)
Lemma search_loop_preserved fuel t q m h2 hval c c' x :
  search_loop fuel t q m h2 hval = SFound c ->
  nthN t c' = Some None ->
  search_loop fuel (hsetN t c' x) q m h2 hval = SFound c.
Proof.
  intros H Hc'. revert hval H; induction fuel as [|f IH]; intros hval; cbn [search_loop]; [discriminate|].
  destruct (nthN t (step m h2 hval)) as [[k0|]|] eqn:E; intros H; try discriminate.
  assert (Hne : c' <> step m h2 hval) by (intros ->; congruence).
  rewrite nthN_hsetN_neq, E by assumption.
  destruct (key_eqb k0 q); auto.
Qed.

Lemma search_preserved t hq c c' x :
  search t hq = SFound c ->
  nthN t c' = Some None ->
  search (hsetN t c' x) hq = SFound c.
Proof.
  unfold search. intros H Hc'.
  destruct (nthN t (hk_h1 hq)) as [[k0|]|] eqn:E; try discriminate.
  assert (Hne : c' <> hk_h1 hq) by (intros ->; congruence).
  rewrite nthN_hsetN_neq, E by assumption.
  destruct (key_eqb k0 (hk_key hq)); auto.
  rewrite hsetN_length, hsetN_lenN. apply search_loop_preserved; assumption.
Qed.

Lemma search_loop_found_sound fuel t q m h2 hval c :
  search_loop fuel t q m h2 hval = SFound c -> nthN t c = Some (Some q).
Proof.
  revert hval; induction fuel as [|f IH]; intros hval; cbn [search_loop]; [discriminate|].
  destruct (nthN t (step m h2 hval)) as [[k0|]|] eqn:E; try discriminate.
  destruct (key_eqb k0 q) eqn:K; [|apply IH].
  intros H; injection H as <-. apply key_eqb_eq in K. congruence.
Qed.

(* compare the stored key fully before accepting *)
Lemma search_found_sound t hq c :
  search t hq = SFound c -> nthN t c = Some (Some (hk_key hq)).
Proof.
  unfold search. destruct (nthN t (hk_h1 hq)) as [[k0|]|] eqn:E; try discriminate.
  destruct (key_eqb k0 (hk_key hq)) eqn:K; [|apply search_loop_found_sound].
  intros H; injection H as <-. apply key_eqb_eq in K. congruence.
Qed.

(* ------------------------------------------------------------------------ *)
(* Theorem 1: every inserted key is found, in the cell insert chose          *)
(* ------------------------------------------------------------------------ *)
Lemma insert_all_preserves ks : forall t t' cs hq c,
  insert_all t ks = Some (t', cs) ->
  search t hq = SFound c -> search t' hq = SFound c.
Proof.
  induction ks as [|hk r IH]; intros t t' cs hq c; cbn [insert_all].
  - intros H; injection H as <- _. auto.
  - destruct (insert t hk) as [c1 t1| |] eqn:E; try discriminate.
    destruct (insert_all t1 r) as [[t2 cs2]|] eqn:E2; try discriminate.
    intros H Hs; injection H as <- _.
    destruct (insert_ok _ _ _ _ E) as [Hc ->].
    eapply IH; eauto. apply search_preserved; assumption.
Qed.

Lemma insert_all_search ks : forall t t' cs,
  insert_all t ks = Some (t', cs) ->
  NoDup (map hk_key ks) ->
  (forall hk, In hk ks -> ~ In (Some (hk_key hk)) t) ->
  Forall2 (fun hk c => search t' hk = SFound c) ks cs.
Proof.
  induction ks as [|hk r IH]; intros t t' cs; cbn [insert_all].
  - intros H _ _; injection H as _ <-. constructor.
  - destruct (insert t hk) as [c1 t1| |] eqn:E; try discriminate.
    destruct (insert_all t1 r) as [[t2 cs2]|] eqn:E2; try discriminate.
    intros H Hnd Hfresh; injection H as <- <-.
    cbn [map] in Hnd. inversion Hnd as [|? ? Hnotin Hnd']; subst.
    constructor.
    + eapply insert_all_preserves; eauto.
      eapply insert_then_search; [eassumption|]. apply Hfresh. left; reflexivity.
    + eapply IH; eauto.
      intros hk' Hin Hin'. destruct (insert_ok _ _ _ _ E) as [_ ->].
      apply hsetN_In in Hin' as [Heq|Hin'].
      * injection Heq as Heq. apply Hnotin. rewrite <- Heq. apply in_map. assumption.
      * eapply Hfresh; [right; eassumption|assumption].
Qed.

Lemma empty_table_In m x : In x (empty_table m) -> x = None.
Proof. unfold empty_table. apply repeat_spec. Qed.

Lemma empty_table_lenN m : lenN (empty_table m) = m.
Proof. unfold empty_table, lenN. rewrite repeat_length. lia. Qed.

Lemma Forall2_imp {A B} (R1 R2 : A -> B -> Prop) l l' :
  (forall a b, R1 a b -> R2 a b) -> Forall2 R1 l l' -> Forall2 R2 l l'.
Proof. intros H; induction 1; constructor; auto. Qed.

Theorem dh_search_inserted m ks t cs :
  build m ks = Some (t, cs) ->
  NoDup (map hk_key ks) ->
  Forall2 (fun hk c => search t hk = SFound c /\ nthN t c = Some (Some (hk_key hk))) ks cs.
Proof.
  unfold build. intros H Hnd.
  assert (F : Forall2 (fun hk c => search t hk = SFound c) ks cs).
  { eapply insert_all_search; eauto. intros hk _ Hin. apply empty_table_In in Hin. discriminate. }
  revert F. apply Forall2_imp. intros hk c Hs. split; [assumption|]. apply search_found_sound; assumption.
Qed.

Lemma Forall2_In_l {A B} (R : A -> B -> Prop) l l' a :
  Forall2 R l l' -> In a l -> exists b, In b l' /\ R a b.
Proof.
  induction 1 as [|x y l l' Hxy F IH]; cbn [In]; [tauto|].
  intros [->|Hin]; [eauto|]. destruct (IH Hin) as [b [Hb Hr]]; eauto.
Qed.

Corollary dh_search_inserted_In m ks t cs hk :
  build m ks = Some (t, cs) -> NoDup (map hk_key ks) -> In hk ks ->
  exists c, In c cs /\ search t hk = SFound c /\ nthN t c = Some (Some (hk_key hk)).
Proof.
  intros H Hnd Hin.
  destruct (Forall2_In_l _ _ _ _ (dh_search_inserted _ _ _ _ H Hnd) Hin) as [c [Hc [H1 H2]]]; eauto.
Qed.
