(* Executable model of StringDictionaryRPFC.cpp (Front-Coding whose internal strings are
   Re-Pair compressed) and of iterators/IteratorDictStringRPFC.h, statement by statement:
   getHeader, decodeSymbol, decodeString, locateBucket, locate, extract, locateBoundaryBuckets,
   searchPrefix, searchDistinctPrefix, locatePrefix, extractPrefix, extractTable + the iterator.
   Definitions only; proofs are in RPFCProofs.v.

   The dictionary value is exactly the object's fields: elements, maxlength, buckets,
   bucketsize, bitsrp, textStrings[0 .. bytesStrings) as a byte list, blStrings as a list,
   and the grammar (rp->terminals, rp->maxchar, rp->G as a rule list; RePairProofs.rp_pack_spec
   ties the list to the packed table).  The constructor (Re-Pair's choices) is NOT modelled:
   a real object is certified by the verified checker [rpfc_layout_chk] below.

   Memory: every read of textStrings goes through [nthN] / list destructuring ([None] = the
   access leaves the array); the scratch buffers `decoded`/`strCurr` and `vb` (both
   `new uchar[maxlength]`) are lists whose length is checked against maxlength after every
   write; reading a part of a scratch buffer that was never written is [None] as well.
   locateBucket, locateBoundaryBuckets and the header part of getHeader are TEXTUALLY the
   functions of StringDictionaryPFC.cpp (see `diff`): the model reuses the PFCDefs functions
   through the view [hdr_view]. *)
From LibCSD Require Import Base VByteDefs Spec PFCDefs RePairDefs RPDACDefs.
Local Open Scope N_scope.

Record rpfc := {
  r_elements : N; r_maxlength : N; r_buckets : N; r_bsize : N; r_bitsrp : N;
  r_text : list N;            (* textStrings[0 .. bytesStrings) *)
  r_bl : list N;              (* blStrings *)
  r_t : N;                    (* rp->terminals *)
  r_maxchar : N;              (* rp->maxchar (the end mark, 255) *)
  r_rules : list rule         (* rp->G *)
}.

(* the fields the PFC code shared with this class looks at *)
Definition hdr_view (d : rpfc) : pfc :=
  {| p_elements := r_elements d; p_maxlength := r_maxlength d; p_buckets := r_buckets d;
     p_bsize := r_bsize d; p_text := r_text d; p_bl := r_bl d |}.

(* a position in the bit stream: (byte pointer, bit offset inside that byte, 0..7) *)
Definition bpos := (N * N)%type.

(* ---------------------------------------------------------------------- *)
(* decodeSymbol                                                            *)
(* ---------------------------------------------------------------------- *)
(* inline ushort mask(uint k) { return (65535u >> (16u - k)); }   (k = 8 - offset, 1..8) *)
Definition mask16 (k : N) : N := N.shiftr 65535 (16 - k).

(*  *symbol = 0; processed = 0; bytes = 0;
    while ((bitsrp - processed) >= (8 - *offset)) {
      *symbol = ( *symbol << (8 - *offset)) | (ptr[bytes] & mask(8 - *offset));
      processed += 8 - *offset; bytes++; *offset = 0; }
    if (bitsrp > processed) {
      *offset = bitsrp - processed;
      *symbol = ( *symbol << (bitsrp - processed)) | (ptr[bytes] >> (8 - *offset)); }
    return bytes;
   All variables are `uint`; offset <= 7 and processed <= bitsrp hold throughout (the loop
   guard), so the subtractions never wrap.  The shifts of *symbol are 32-bit ([u32]).
   At most bitsrp/8 + 1 iterations. *)
Fixpoint dsym_loop (fuel : nat) (text : list N) (bitsrp ptr offset processed symbol : N)
  : option (N * bpos) :=
  match fuel with
  | O => None
  | S f =>
      if 8 - offset <=? bitsrp - processed then
        match nthN text ptr with
        | None => None
        | Some byte =>
            dsym_loop f text bitsrp (ptr + 1) 0 (processed + (8 - offset))
                      (N.lor (u32 (N.shiftl symbol (8 - offset))) (N.land byte (mask16 (8 - offset))))
        end
      else if processed <? bitsrp then
        match nthN text ptr with
        | None => None
        | Some byte =>
            let off' := bitsrp - processed in
            Some (N.lor (u32 (N.shiftl symbol off')) (N.shiftr byte (8 - off')), (ptr, off'))
        end
      else Some (symbol, (ptr, offset))
  end.

Definition decode_symbol (d : rpfc) (p : bpos) : option (N * bpos) :=
  dsym_loop (S (S (N.to_nat (r_bitsrp d / 8)))) (r_text d) (r_bitsrp d) (fst p) (snd p) 0 0.

(* if (rule >= rp->terminals) n = rp->expandRule(rule - rp->terminals, buf) else buf[0] = (uchar)rule
   : RPDACDefs.xsym is exactly this test + RePair::expandRule on the rule list *)
Definition expand_rule (d : rpfc) (sym : N) : option (list N) :=
  xsym (r_rules d) (r_t d) (length (r_rules d)) sym.

(* ---------------------------------------------------------------------- *)
(* decodeString                                                            *)
(* ---------------------------------------------------------------------- *)
(* while (read < 2) { *ptr += decodeSymbol(&rule, *ptr, offset); <expand into vb + read> }
   every symbol yields at least one byte, so two iterations always suffice (fuel 2);
   vb = new uchar[maxlength] *)
Fixpoint ds_vb (fuel : nat) (d : rpfc) (p : bpos) (vb : list N) : option (bpos * list N) :=
  if lenN vb <? 2 then
    match fuel with
    | O => None
    | S f =>
        match decode_symbol d p with
        | None => None
        | Some (rule, p') =>
            match expand_rule d rule with
            | None => None
            | Some x =>
                let vb' := vb ++ x in
                if lenN vb' <=? r_maxlength d then ds_vb f d p' vb' else None
            end
        end
    end
  else Some (p, vb).

Definition last_byte (l : list N) : option N :=
  if lenN l =? 0 then None else nthN l (lenN l - 1).

(* while (str[*strLen - 1] != rp->maxchar) { *ptr += decodeSymbol(..); <expand into str + *strLen> }
   str = new uchar[maxlength]; every iteration appends at least one byte *)
Fixpoint ds_body (fuel : nat) (d : rpfc) (p : bpos) (str : list N) : option (bpos * list N) :=
  match last_byte str with
  | None => None                                   (* str[-1] *)
  | Some c =>
      if c =? r_maxchar d then Some (p, str)
      else
        match fuel with
        | O => None
        | S f =>
            match decode_symbol d p with
            | None => None
            | Some (rule, p') =>
                match expand_rule d rule with
                | None => None
                | Some x =>
                    let str' := str ++ x in
                    if lenN str' <=? r_maxlength d then ds_body f d p' str' else None
                end
            end
        end
  end.

(* uint decodeString(uchar *str, uint *strLen, uchar **ptr, uint *offset)
   [decoded] is the current content of str (the previous string, without its NUL).
   Result: (new position, new string without the end mark / NUL, shared = the return value).
   VByte::decode on vb reads only the bytes written by the first loop ([None] otherwise);
   `*strLen = shared` beyond the previous string would leave a gap of stale bytes: [None]. *)
Definition decode_string (d : rpfc) (p : bpos) (decoded : str) : option (bpos * str * N) :=
  match ds_vb 2 d p [] with
  | None => None
  | Some (p1, vb) =>
      match vb_decode vb with
      | None => None
      | Some (shared, advanced) =>
          if shared <=? lenN decoded then
            let str0 := firstN shared decoded ++ skipN advanced vb in
            if lenN str0 <=? r_maxlength d then
              match ds_body (S (N.to_nat (r_maxlength d))) d p1 str0 with
              | None => None
              | Some (p2, str) => Some (p2, removelast str, shared)      (* str[*strLen - 1] = 0 *)
              end
            else None
          else None
      end
  end.

(* uchar *getHeader(size_t idbucket, uchar **str, uint *strLen):
   ptr = textStrings + blStrings[idbucket]; strlen; *str = new uchar[maxlength]; strncpy(len + 1) *)
Definition rpfc_get_header (d : rpfc) (idbucket : N) : option (bpos * str) :=
  match get_header (hdr_view d) idbucket with
  | None => None
  | Some (ptr, h) => if lenN h <? r_maxlength d then Some ((ptr, 0), h) else None
  end.

Definition rpfc_locate_bucket (d : rpfc) (q : str) : option (bool * N) := locate_bucket (hdr_view d) q.
Definition rpfc_scanneable (d : rpfc) (idbucket : N) : N := scanneable_of (hdr_view d) idbucket.

(* ---------------------------------------------------------------------- *)
(* extract                                                                 *)
(* ---------------------------------------------------------------------- *)
Definition dstep (d : rpfc) (st : bpos * str) : option (bpos * str) :=
  match decode_string d (fst st) (snd st) with
  | None => None
  | Some (p', s', _) => Some (p', s')
  end.

Definition rpfc_extract (d : rpfc) (id : N) : option (option str) :=
  if (0 <? id) && (id <=? r_elements d) then
    let idbucket := W32m (1 + (id - 1) / r_bsize d) in
    let pos := W32m ((id - 1) mod r_bsize d) in
    match rpfc_get_header d idbucket with
    | None => None
    | Some st0 =>
        match N.iter pos (fun o => opt_bind o (dstep d)) (Some st0) with
        | None => None
        | Some (_, decoded) => Some (Some decoded)
        end
    end
  else Some None.

(* ---------------------------------------------------------------------- *)
(* locate                                                                  *)
(* ---------------------------------------------------------------------- *)
(* for (uint i = 2; i < scanneable; i++) {
     sharedPrev = decodeString(decoded, &decLen, &ptr, &offset);
     if (sharedPrev < sharedCurr) break;
     cmp = longestCommonPrefix(decoded + sharedCurr, str + sharedCurr, decLen - sharedCurr, &sharedCurr);
     if (cmp == 0) { id = ...; break; } else if (cmp > 0) break; }
   (decLen counts the NUL here: PFCDefs.cmp_from with extra = 1) *)
Fixpoint rscan_loop (fuel : nat) (d : rpfc) (q : str) (idbucket scanneable i : N)
         (p : bpos) (decoded : str) (sharedCurr : N) : option N :=
  match fuel with
  | O => None
  | S f =>
      if i <? scanneable then
        match decode_string d p decoded with
        | None => None
        | Some (p', decoded', sharedPrev) =>
            if sharedPrev <? sharedCurr then Some 0
            else
              match cmp_from decoded' q sharedCurr 1 with
              | None => None
              | Some (cmp', sharedCurr') =>
                  if (cmp' =? 0)%Z then Some ((idbucket - 1) * r_bsize d + i + 1)
                  else if (0 <? cmp')%Z then Some 0
                  else rscan_loop f d q idbucket scanneable (i + 1) p' decoded' sharedCurr'
              end
        end
      else Some 0
  end.

Definition rpfc_locate (d : rpfc) (q : str) : option N :=
  match rpfc_locate_bucket d q with
  | None => None
  | Some (true, idbucket) => Some ((idbucket - 1) * r_bsize d + 1)
  | Some (false, idbucket) =>
      if idbucket =? 0 then Some 0
      else
        match rpfc_get_header d idbucket with
        | None => None
        | Some (p, decoded) =>
            let scanneable := rpfc_scanneable d idbucket in
            if 1 <? scanneable then
              match decode_string d p decoded with
              | None => None
              | Some (p1, decoded1, _) =>
                  match cmp_from decoded1 q 0 1 with
                  | None => None
                  | Some (cmp, sharedCurr) =>
                      if (cmp =? 0)%Z then Some ((idbucket - 1) * r_bsize d + 2)
                      else rscan_loop (N.to_nat scanneable) d q idbucket scanneable 2 p1 decoded1 sharedCurr
                  end
              end
            else Some 0
        end
  end.

(* ---------------------------------------------------------------------- *)
(* prefix search                                                           *)
(* ---------------------------------------------------------------------- *)
Definition rpfc_locate_boundary_buckets (d : rpfc) (p : str) : option (N * N) :=
  locate_boundary_buckets (hdr_view d) p.

(* searchPrefix(&ptr, scanneable, decoded, &decLen, str, strLen, &offset): (id, position, decoded);
   id = 0 is NORESULT.  `( *decLen)++` followed by `*decLen - sharedCurr - 1` = PFCDefs.cmp_from
   with extra = 0 (and the guard against the unsigned underflow). *)
Fixpoint rsearch_prefix (fuel : nat) (d : rpfc) (p : str) (scanneable : N)
         (pos : bpos) (decoded : str) (sharedCurr i : N) : option (N * bpos * str) :=
  match fuel with
  | O => None
  | S f =>
      if sharedCurr <=? lenN decoded then
        match cmp_from decoded p sharedCurr 0 with
        | None => None
        | Some (cmp, sharedCurr') =>
            if sharedCurr' =? lenN p then Some (i, pos, decoded)
            else if (0 <? cmp)%Z || (i =? scanneable) then Some (0, pos, decoded)
            else
              match decode_string d pos decoded with
              | None => None
              | Some (pos', decoded', sharedPrev) =>
                  if sharedPrev <? sharedCurr' then Some (0, pos', decoded')
                  else rsearch_prefix f d p scanneable pos' decoded' sharedCurr' (i + 1)
              end
        end
      else None
  end.

(* searchDistinctPrefix(ptr, scanneable, decoded, &decLen, str, strLen, &offset):
   for (id = 1; id < scanneable; id++) if (decodeString(..) < strLen) break;  return id; *)
Fixpoint rsearch_distinct (fuel : nat) (d : rpfc) (plen : N) (scanneable : N)
         (pos : bpos) (decoded : str) (id : N) : option N :=
  match fuel with
  | O => None
  | S f =>
      if id <? scanneable then
        match decode_string d pos decoded with
        | None => None
        | Some (pos', decoded', shared) =>
            if shared <? plen then Some id
            else rsearch_distinct f d plen scanneable pos' decoded' (id + 1)
        end
      else Some id
  end.

(* locatePrefix: the (left, right) limits handed to IteratorDictIDContiguous *)
Definition rpfc_locate_prefix (d : rpfc) (p : str) : option (N * N) :=
  match rpfc_locate_boundary_buckets d p with
  | None => None
  | Some (leftBucket, rightBucket) =>
      if 0 <? leftBucket then
        match rpfc_get_header d leftBucket with
        | None => None
        | Some (pos, decoded) =>
            let scanneable := rpfc_scanneable d leftBucket in
            let fuel := S (S (N.to_nat scanneable)) in
            match rsearch_prefix fuel d p scanneable pos decoded 0 1 with
            | None => None
            | Some (leftID, pos', decoded') =>
                if leftBucket =? rightBucket then
                  if leftID =? 0 then Some (0, 0)
                  else
                    match rsearch_distinct fuel d (lenN p) (scanneable - leftID + 1) pos' decoded' 1 with
                    | None => None
                    | Some k =>
                        Some (leftID + (leftBucket - 1) * r_bsize d,
                              leftID + k - 1 + (rightBucket - 1) * r_bsize d)
                    end
                else
                  let leftID' := if leftID =? 0 then leftBucket * r_bsize d + 1
                                 else leftID + (leftBucket - 1) * r_bsize d in
                  match rpfc_get_header d rightBucket with
                  | None => None
                  | Some (posR, decodedR) =>
                      let scanR := rpfc_scanneable d rightBucket in
                      match rsearch_distinct (S (S (N.to_nat scanR))) d (lenN p) scanR posR decodedR 1 with
                      | None => None
                      | Some k => Some (leftID', k + (rightBucket - 1) * r_bsize d)
                      end
                  end
            end
        end
      else Some (0, 0)
  end.

(* ---------------------------------------------------------------------- *)
(* IteratorDictStringRPFC                                                  *)
(* ---------------------------------------------------------------------- *)
Record rpfc_iter := { ri_pos : bpos; ri_inb : N; ri_cur : str; ri_processed : N; ri_scanneable : N }.

(* strlen + strncpy into strCurr (new uchar[maxlength]) at byte pointer ptr *)
Definition iter_header (d : rpfc) (ptr : N) : option (bpos * str) :=
  match cstr_at (r_text d) ptr with
  | None => None
  | Some h => if lenN h <? r_maxlength d then Some ((ptr + lenN h + 1, 0), h) else None
  end.

(* constructor(rp, bitsrp, ptr, offset, bucketsize, scanneable, maxlength):
   if (pos > 0) { header; for (i = 1; i < pos; i++) decodeNext(); }   (decodeNext = decodeString) *)
Definition riter_init (d : rpfc) (ptrS offset scanneable : N) : option rpfc_iter :=
  if 0 <? offset then
    match iter_header d ptrS with
    | None => None
    | Some st0 =>
        match N.iter (offset - 1) (fun o => opt_bind o (dstep d)) (Some st0) with
        | None => None
        | Some (pos, cur) =>
            Some {| ri_pos := pos; ri_inb := offset; ri_cur := cur; ri_processed := 0;
                    ri_scanneable := scanneable |}
        end
    end
  else Some {| ri_pos := (ptrS, 0); ri_inb := 0; ri_cur := []; ri_processed := 0;
               ri_scanneable := scanneable |}.

Definition riter_has_next (it : rpfc_iter) : bool := ri_processed it <? ri_scanneable it.

(* next(&strLen): if ((pos % bucketsize) == 0) { if (offset != 0) ptr++; offset = 0; header; pos = 0; }
                  else decodeNext();   processed++; pos++; *)
Definition riter_next (d : rpfc) (it : rpfc_iter) : option (str * rpfc_iter) :=
  let r :=
    if ri_inb it mod r_bsize d =? 0 then
      let ptr := if snd (ri_pos it) =? 0 then fst (ri_pos it) else fst (ri_pos it) + 1 in
      match iter_header d ptr with
      | None => None
      | Some (pos, h) => Some (pos, h, 0)
      end
    else
      match dstep d (ri_pos it, ri_cur it) with
      | None => None
      | Some (pos, cur) => Some (pos, cur, ri_inb it)
      end in
  match r with
  | None => None
  | Some (pos, cur, inb) =>
      Some (cur, {| ri_pos := pos; ri_inb := inb + 1; ri_cur := cur; ri_processed := ri_processed it + 1;
                    ri_scanneable := ri_scanneable it |})
  end.

Fixpoint riter_drain (fuel : nat) (d : rpfc) (it : rpfc_iter) : option (list str) :=
  match fuel with
  | O => if riter_has_next it then None else Some []
  | S f =>
      if riter_has_next it then
        match riter_next d it with
        | None => None
        | Some (s, it') => option_map (cons s) (riter_drain f d it')
        end
      else Some []
  end.

(* extractTable(): new IteratorDictStringRPFC(rp, bitsrp, textStrings, 0, bucketsize, elements, maxlength) *)
Definition rpfc_extract_table (d : rpfc) : option (list str) :=
  match riter_init d 0 0 (r_elements d) with
  | None => None
  | Some it => riter_drain (N.to_nat (r_elements d)) d it
  end.

(* extractPrefix: None = memory error; Some None = NULL iterator *)
Definition rpfc_extract_prefix (d : rpfc) (p : str) : option (option (list str)) :=
  match rpfc_locate_prefix d p with
  | None => None
  | Some (lft, rgt) =>
      if lft =? 0 then Some None
      else
        let leftbucket := W32m (1 + (lft - 1) / r_bsize d) in
        let leftpos := W32m ((lft - 1) mod r_bsize d) in
        match nthN (r_bl d) leftbucket with
        | None => None
        | Some ptrS =>
            match riter_init d ptrS leftpos (rgt - lft + 1) with
            | None => None
            | Some it => option_map Some (riter_drain (N.to_nat (rgt - lft + 1)) d it)
            end
        end
  end.

(* ---------------------------------------------------------------------- *)
(* verified checker: the object represents the string list S               *)
(* ---------------------------------------------------------------------- *)
(* what the constructor feeds to Re-Pair for an internal string: VByte(lcp) ++ suffix ++ end mark *)
Definition enc_rp (prev cur : str) : list N :=
  vb_encode (lcp prev cur) ++ skipN (lcp prev cur) cur ++ [255].

(* read symbols with decodeSymbol and expand them (abstract grammar semantics RePairDefs.expand_sym)
   until at least [want] bytes are there: (end position, bytes, symbols read) *)
Fixpoint read_until (fuel : nat) (d : rpfc) (p : bpos) (want : N) (acc : list N) (syms : list N)
  : option (bpos * list N * list N) :=
  if want <=? lenN acc then Some (p, acc, syms)
  else
    match fuel with
    | O => None
    | S f =>
        match decode_symbol d p with
        | None => None
        | Some (sym, p') =>
            match expand_sym (r_rules d) (r_t d) (length (r_rules d)) sym with
            | None => None
            | Some x => read_until f d p' want (acc ++ x) (syms ++ [sym])
            end
        end
    end.

(* the bytes the `while (read < 2)` loop of decodeString writes into vb (new uchar[maxlength]) fit *)
Definition vb_cap (rules : list rule) (t ml : N) (syms : list N) : bool :=
  match syms with
  | [] => false
  | a :: r =>
      match expand_sym rules t (length rules) a with
      | None => false
      | Some xa =>
          if 2 <=? lenN xa then lenN xa <=? ml
          else match r with
               | [] => false
               | a2 :: _ =>
                   match expand_sym rules t (length rules) a2 with
                   | None => false
                   | Some x2 => lenN xa + lenN x2 <=? ml
                   end
               end
      end
  end.

Fixpoint prefix_eqb (a t : list N) : bool :=
  match a with
  | [] => true
  | x :: a' => match t with [] => false | y :: t' => (x =? y) && prefix_eqb a' t' end
  end.

Definition align_pos (p : bpos) : N := if snd p =? 0 then fst p else fst p + 1.

(* one pass over the flat list of strings; string number i is a bucket header iff i mod b = 0.
   Returns the end position of every string's encoding. *)
Fixpoint trace_from (d : rpfc) (b : N) (i : N) (prev : str) (ppos : bpos) (ss : list str)
  : option (list bpos) :=
  match ss with
  | [] => Some []
  | s :: r =>
      if i mod b =? 0 then
        match nthN (r_bl d) (i / b + 1) with
        | None => None
        | Some off =>
            if (off =? (if i =? 0 then 0 else align_pos ppos)) && (off <=? lenN (r_text d)) &&
               prefix_eqb (s ++ [0]) (skipN off (r_text d)) && (lenN s <? r_maxlength d)
            then
              let e := (off + lenN s + 1, 0) in
              option_map (cons e) (trace_from d b (i + 1) s e r)
            else None
        end
      else
        let target := enc_rp prev s in
        match read_until (length target) d ppos (lenN target) [] [] with
        | None => None
        | Some (e, bytes, syms) =>
            if list_eqb bytes target && vb_cap (r_rules d) (r_t d) (r_maxlength d) syms &&
               (lenN s <? r_maxlength d)
            then option_map (cons e) (trace_from d b (i + 1) s e r)
            else None
        end
  end.

Definition rpfc_layout_chk (d : rpfc) (S : list str) : bool :=
  let b := r_bsize d in
  (1 <=? b) && (r_elements d =? lenN S) && (r_buckets d =? (lenN S + b - 1) / b) &&
  (1 <=? r_t d) && (r_t d <=? 256) && rules_ok (r_t d) (r_rules d) &&
  (r_t d + lenN (r_rules d) <? 2 ^ 31) && (r_maxchar d =? 255) &&
  match trace_from d b 0 [] (0, 0) S with Some _ => true | None => false end.

(* boolean version of the input condition of the theorems (RPFCProofs.rpfc_input) *)
Definition rpfc_inputb (S : list str) : bool :=
  negb (match S with [] => true | _ => false end) &&
  forallb (fun s => forallb (fun c => negb (c =? 0) && (c <? 255)) s) S &&
  sorted_lt_b S &&
  forallb (fun s => lenN s <? 2 ^ 14) S && (lenN S <? 2 ^ 32).
