(* C09 / C10 / C11 — the synchronisation skeleton extracted from the CURRENT source is the one the
   LTS of PoolDefs.v models.  Compiled after regenerating gen/Pool_gen.v (tools/translate_pool.py). *)
From Coq Require Import List String.
From LibCSD Require Import PoolSkeleton.
From LibCSD.gen Require Import Pool_gen.
Import ListNotations.
Local Open Scope string_scope.

Theorem C10_worker_skeleton_is_modelled : skeleton_refines worker_skeleton_gen worker_skeleton_fixed = true.
Proof. vm_compute. reflexivity. Qed.

Theorem C09_blocks_skeleton_is_modelled : skeleton_refines blocks_skeleton_gen blocks_skeleton_ref = true.
Proof. vm_compute. reflexivity. Qed.

Theorem C11_worker_skeleton_is_modelled : skeleton_refines worker_skeleton_gen worker_skeleton_fixed = true.
Proof. vm_compute. reflexivity. Qed.

Theorem C11_blocks_skeleton_is_modelled : skeleton_refines blocks_skeleton_gen blocks_skeleton_ref = true.
Proof. vm_compute. reflexivity. Qed.

Theorem C11_sync_objects_are_modelled : sync_objects_gen = sync_objects_ref.
Proof. vm_compute. reflexivity. Qed.

(* the pinned skeleton differs from the fixed one exactly in the two producer methods *)
Theorem C10_pinned_skeleton_differs : skeleton_refines worker_skeleton_pinned worker_skeleton_fixed = false.
Proof. vm_compute. reflexivity. Qed.

(* the refinement tolerates extra notifications only: dropping one, or moving the push out of the lock, is rejected *)
Example C10_refinement_rejects_dropped_notify :
  events_refine ["Open"; "LockScope shared_mutex"; "Call queue.add_task"; "Close"; "Close"]
                ["Open"; "Open"; "LockScope shared_mutex"; "Call queue.add_task"; "Close"; "NotifyAll queue_cv"; "Close"] = false.
Proof. vm_compute. reflexivity. Qed.
